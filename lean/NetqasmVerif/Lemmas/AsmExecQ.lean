/-
The executor model as an instance of the assembler's machine, extended to the quantum
instructions the SDK builder emits (`init`, the single-qubit gates, `meas`): `qMachine a` is
`xMachine` plus these instructions with exactly the semantics of `Exec.stepLoc` (the register is
read, the hook call is recorded in the trace, `meas` consumes an outcome and writes it).
`step_corr_q` extends `step_corr`.
-/
import NetqasmVerif.Props.C03
namespace NQ.Asm
open NQ

def q1Names : List String := ["init", "x", "y", "z", "h", "s", "k", "t"]

def qRoles (mn : String) : Option (List Role) :=
  if mn = "meas" then some [.use, .dst]
  else if mn ∈ q1Names then some [.use]
  else stdRoles mn

def qMeas (a : Nat) (q : Option Int) (m : XMem) : Res XMem :=
  match q with
  | none => xf .assertion
  | some v =>
    .ok (some (m.oracle.headD 0))
      { m with oracle := m.oracle.tail, trace := m.trace ++ [⟨a, "meas", [v]⟩] } false

def qGate (a : Nat) (name : String) (q : Option Int) (m : XMem) : Res XMem :=
  match q with
  | none => xf .assertion
  | some v => .ok none { m with trace := m.trace ++ [⟨a, name, [v]⟩] } false

def qExec (a : Nat) (mn : String) (vals : List Val) (m : XMem) : Res XMem :=
  if mn = "meas" then (match vals with | [.use q, .dst] => qMeas a q m | _ => xf .fetch)
  else if mn ∈ q1Names then (match vals with | [.use q] => qGate a mn q m | _ => xf .fetch)
  else xExec mn vals m

/-- the executor of application `a` as a machine, quantum hooks included -/
def qMachine (a : Nat) : Machine XMem := ⟨qRoles, qExec a⟩

/-- reading an `Exec` program back, quantum instructions of the builder included -/
def ofExecQ : Exec.Instr → PCmd
  | .q1 name r => if name ∈ q1Names then .instr name [] [rX r] else .instr "" [] []
  | .meas q c => .instr "meas" [] [rX q, rX c]
  | x => ofExec x

/-- `step` depends on the machine only through the roles and the `exec` of the current mnemonic -/
theorem step_machine_congr {M : Type} {mc mc' : Machine M} {P : List PCmd} {s : State M} {pc : Nat}
    {mn : String} {args : List Int} {ops : List POperand} (hg : P[pc]? = some (.instr mn args ops))
    (hr : mc.roles mn = mc'.roles mn) (he : mc.exec mn = mc'.exec mn) : step mc P s pc = step mc' P s pc := by
  simp only [step, hg, hr, he]

theorem setOk_qMachine (a : Nat) : SetOk (qMachine a) :=
  ⟨by show qRoles "set" = _; decide, fun v m => by simp [qMachine, qExec, q1Names, xExec]⟩

theorem excCovers_qMachine (a : Nat) : ExcCovers (qMachine a) Gen.excTable := by
  intro mn rs hr
  simp only [qMachine, qRoles] at hr
  split at hr
  · cases hr
    intro k role hk hrole
    match k, hk with
    | 0, hk => simp at hk; subst hk; simp at hrole
    | 1, hk => simp at hk; subst hk; simp at hrole
    | n + 2, hk => simp at hk
  · split at hr
    · cases hr
      intro k role hk hrole
      match k, hk with
      | 0, hk => simp at hk; subst hk; simp at hrole
      | n + 1, hk => simp at hk
    · exact C03.excCovers_sound C03.stdLike_xMachine mn rs hr

/-! ### the quantum instructions, one by one -/

theorem roles_q1 (a : Nat) {name : String} (h : name ∈ q1Names) :
    (qMachine a).roles name = some [.use] := by
  have hne : name ≠ "meas" := by
    intro e; subst e; simp [q1Names] at h
  simp [qMachine, qRoles, hne, h]

theorem exec_q1 (a : Nat) {name : String} (h : name ∈ q1Names) (q : Option Int) (m : XMem) :
    (qMachine a).exec name [.use q] m = qGate a name q m := by
  have hne : name ≠ "meas" := by
    intro e; subst e; simp [q1Names] at h
  simp [qMachine, qExec, hne, h]

theorem corr_q1 (a : Nat) (name : String) (r : Exec.XReg) (Q : List PCmd) (t : State XMem) (k : Nat)
    (hn : name ∈ q1Names) (hg : Q[k]? = some (.instr name [] [rX r])) :
    (∀ t' pc', step (qMachine a) Q t k = .next t' pc' →
        Exec.stepLoc false a (.q1 name r) (conc t) (k : Int) = .ok (conc t') (pc' : Int)) ∧
    (∀ f, step (qMachine a) Q t k = .fault f →
        lresKind (Exec.stepLoc false a (.q1 name r) (conc t) (k : Int)) = some f) := by
  have hs := step_instr (mc := qMachine a) (s := t) hg (roles_q1 a hn) (vals := [.use (t.regs (ofX r))]) rfl
  rw [exec_q1 a hn] at hs
  rw [hs]
  cases hx : t.regs (ofX r) <;>
    simp [qGate, xf, lresKind, Exec.stepLoc, Exec.ev, conc, absRegs_apply, hx, allOps, dstOf, rX, writeBack]

theorem corr_meas (a : Nat) (q c : Exec.XReg) (Q : List PCmd) (t : State XMem) (k : Nat)
    (hg : Q[k]? = some (.instr "meas" [] [rX q, rX c])) :
    (∀ t' pc', step (qMachine a) Q t k = .next t' pc' →
        Exec.stepLoc false a (.meas q c) (conc t) (k : Int) = .ok (conc t') (pc' : Int)) ∧
    (∀ f, step (qMachine a) Q t k = .fault f →
        lresKind (Exec.stepLoc false a (.meas q c) (conc t) (k : Int)) = some f) := by
  have hr : (qMachine a).roles "meas" = some [.use, .dst] := by show qRoles "meas" = _; decide
  have hs := step_instr (mc := qMachine a) (s := t) hg hr (vals := [.use (t.regs (ofX q)), .dst]) rfl
  have he : (qMachine a).exec "meas" [.use (t.regs (ofX q)), .dst] t.mem = qMeas a (t.regs (ofX q)) t.mem := by
    simp [qMachine, qExec]
  rw [he] at hs
  rw [hs]
  cases hx : t.regs (ofX q) <;>
    simp [qMeas, xf, lresKind, Exec.stepLoc, Exec.ev, Exec.fits, conc, absRegs_apply, hx, allOps, dstOf, rX,
      writeBack, absRegs_upd, Exec.App.setReg]

/-- classical instructions: `qMachine` steps as `xMachine` -/
theorem step_q_eq_x (a : Nat) {Q : List PCmd} {t : State XMem} {k : Nat} {mn : String} {args : List Int}
    {ops : List POperand} (hg : Q[k]? = some (.instr mn args ops)) (h1 : mn ≠ "meas")
    (h2 : mn ∉ q1Names) : step (qMachine a) Q t k = step xMachine Q t k := by
  apply step_machine_congr hg
  · simp [qMachine, xMachine, qRoles, h1, h2]
  · funext vals m; simp [qMachine, xMachine, qExec, h1, h2]

theorem stuck_empty_q (a : Nat) {Q : List PCmd} {t : State XMem} {k : Nat} {args : List Int} {ops : List POperand}
    (hg : Q[k]? = some (.instr "" args ops)) : step (qMachine a) Q t k = .stuck := by
  have : (qMachine a).roles "" = none := by show qRoles "" = _; decide
  simp only [step, hg, this]

/-- the per-instruction correspondence of `Lemmas/AsmExec.lean`, for a command at any position of
any program -/
theorem stepCorr_classical (a : Nat) (x : Exec.Instr) (Q : List PCmd) (t : State XMem) (k : Nat)
    (hg : Q[k]? = some (ofExec x)) : StepCorr a x Q t k := by
  cases x with
  | set r v => exact corr_set a r v _ t k hg
  | load r ad i => exact corr_load a r i ad _ t k hg
  | store r ad i => exact corr_store a r i ad _ t k hg
  | lea r ad => exact corr_lea a r ad _ t k hg
  | undef ad i => exact corr_undef a i ad _ t k hg
  | array n ad => exact corr_array a n ad _ t k hg
  | add d x y => exact corr_add a d x y _ t k hg
  | sub d x y => exact corr_sub a d x y _ t k hg
  | addm d x y m => exact corr_addm a d x y m _ t k hg
  | subm d x y m => exact corr_subm a d x y m _ t k hg
  | bez r tg => exact corr_bez a r tg _ t k hg
  | bnz r tg => exact corr_bnz a r tg _ t k hg
  | beq x y tg => exact corr_beq a x y tg _ t k hg
  | bne x y tg => exact corr_bne a x y tg _ t k hg
  | blt x y tg => exact corr_blt a x y tg _ t k hg
  | bge x y tg => exact corr_bge a x y tg _ t k hg
  | jmp tg => exact corr_jmp a tg _ t k hg
  | retReg r => exact corr_retReg a r _ t k hg
  | retArr ad => exact corr_retArr a ad _ t k hg
  | qalloc r => exact corr_qalloc a r _ t k hg
  | qfree r => exact corr_qfree a r _ t k hg
  | meas q c => simp only [ofExec] at hg; simp [StepCorr, step_stuck_of_noroles hg]
  | q1 n r => simp only [ofExec] at hg; simp [StepCorr, step_stuck_of_noroles hg]
  | rot n r u v => simp only [ofExec] at hg; simp [StepCorr, step_stuck_of_noroles hg]
  | q2 n r0 r1 => simp only [ofExec] at hg; simp [StepCorr, step_stuck_of_noroles hg]
  | crot n r0 r1 u v => simp only [ofExec] at hg; simp [StepCorr, step_stuck_of_noroles hg]

/-- the mnemonic of a classical read-back is neither `meas` nor a gate name -/
theorem ofExec_mn (x : Exec.Instr) : ∃ mn ops, ofExec x = .instr mn [] ops ∧ mn ≠ "meas" ∧ mn ∉ q1Names := by
  cases x <;> exact ⟨_, _, rfl, by decide, by decide⟩

/-- **`Exec.stepLoc` is an instance of `qMachine`**, quantum instructions of the builder included -/
theorem step_corr_q (a : Nat) (X : List Exec.Instr) (t : State XMem) (k : Nat) :
    (∀ t' pc', step (qMachine a) (X.map ofExecQ) t k = .next t' pc' →
      ∃ x, X[k]? = some x ∧ Exec.stepLoc false a x (conc t) (k : Int) = .ok (conc t') (pc' : Int)) ∧
    (∀ f, step (qMachine a) (X.map ofExecQ) t k = .fault f →
      ∃ x, X[k]? = some x ∧ lresKind (Exec.stepLoc false a x (conc t) (k : Int)) = some f) := by
  cases hx : X[k]? with
  | none =>
    have : (X.map ofExecQ)[k]? = none := by simp [hx]
    constructor <;> intros <;> simp_all [step]
  | some x =>
    have hg : (X.map ofExecQ)[k]? = some (ofExecQ x) := by simp [hx]
    have key : (∀ t' pc', step (qMachine a) (X.map ofExecQ) t k = .next t' pc' →
          Exec.stepLoc false a x (conc t) (k : Int) = .ok (conc t') (pc' : Int)) ∧
        (∀ f, step (qMachine a) (X.map ofExecQ) t k = .fault f →
          lresKind (Exec.stepLoc false a x (conc t) (k : Int)) = some f) := by
      by_cases hq : (∃ n r, x = .q1 n r) ∨ (∃ q c, x = .meas q c)
      · rcases hq with ⟨n, r, rfl⟩ | ⟨q, c, rfl⟩
        · simp only [ofExecQ] at hg
          by_cases hn : n ∈ q1Names
          · rw [if_pos hn] at hg; exact corr_q1 a n r _ t k hn hg
          · rw [if_neg hn] at hg; simp [stuck_empty_q a hg]
        · simp only [ofExecQ] at hg; exact corr_meas a q c _ t k hg
      · have e : ofExecQ x = ofExec x := by
          cases x <;> first | rfl | (exfalso; exact hq (Or.inl ⟨_, _, rfl⟩)) | (exfalso; exact hq (Or.inr ⟨_, _, rfl⟩))
        obtain ⟨mn, ops, e2, h1, h2⟩ := ofExec_mn x
        rw [e] at hg
        have hqx : step (qMachine a) (X.map ofExecQ) t k = step xMachine (X.map ofExecQ) t k :=
          step_q_eq_x a (by rw [hg, e2]) h1 h2
        rw [hqx]
        exact stepCorr_classical a x _ t k hg
    exact ⟨fun t' pc' h => ⟨x, rfl, key.1 t' pc' h⟩, fun f h => ⟨x, rfl, key.2 f h⟩⟩

/-- runs of `qMachine` on the read-back are runs of the executor model -/
theorem xsteps_of_steps_q (a : Nat) (X : List Exec.Instr) {c c' : State XMem × Nat}
    (h : Steps (qMachine a) (X.map ofExecQ) c c') :
    XSteps a X (conc c.1, (c.2 : Int)) (conc c'.1, (c'.2 : Int)) := by
  induction h with
  | refl c => exact .refl _
  | step hs _ ih =>
    obtain ⟨x, hx, hl⟩ := (step_corr_q a X _ _).1 _ _ hs
    exact .step hx hl ih

end NQ.Asm
