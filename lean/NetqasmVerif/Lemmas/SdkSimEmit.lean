/-
Compiler correctness of the SDK builder model (C05), part 4: `emit_sim` — structural induction over
the host AST: the commands `emit` produces for an operation, placed anywhere in a subroutine, take
the controller from a state related to the `HostSem` state to a state related to the `HostSem` result.
-/
import NetqasmVerif.Lemmas.SdkSimLoop
set_option linter.unusedSimpArgs false
set_option linter.unusedVariables false
namespace NQ.Sdk

def ExtL (l L : List Nat) : Prop := ∀ (a n : Nat), l[a]? = some n → L[a]? = some n

theorem ExtL.of_append {a t L : List Nat} (h : ExtL (a ++ t) L) : ExtL a L :=
  fun k v x => h k v (prefix_get x)

theorem iterLoop_reg {body : HSt → Option HSt} {h : Nat} {stop stp : Int} :
    ∀ (k : Nat) (hs hs' : HSt), iterLoop body h stop stp k hs = some hs' → hs'.hregs h = some stop := by
  intro k
  induction k with
  | zero => intro hs hs' hi; simp [iterLoop] at hi
  | succ k ih =>
    intro hs hs' hi
    simp only [iterLoop] at hi
    split at hi
    · cases hi
    · rename_i i hhi
      split at hi
      · rename_i hst; cases hi; rw [hhi, hst]
      · split at hi
        · cases hi
        · split at hi
          · cases hi
          · exact ih _ _ hi

theorem iterUntil_reg {body cl : HSt → Option HSt} {ef : Val} {ev : Int} {h : Nat} {N : Int} :
    ∀ (k : Nat) (hs hs' : HSt), iterUntil body cl ef ev h N k hs = some hs' → ∃ v, hs'.hregs h = some v := by
  intro k
  induction k with
  | zero => intro hs hs' hi; simp [iterUntil] at hi
  | succ k ih =>
    intro hs hs' hi
    simp only [iterUntil] at hi
    split at hi
    · cases hi
    · rename_i i hhi
      split at hi
      · cases hi; exact ⟨i, hhi⟩
      · split at hi
        · cases hi
        · rename_i hs1 hb
          split at hi
          case h_1 => cases hi
          rename_i w hw
          split at hi
          · cases hi
          · split at hi
            · cases hi; exact ⟨w, hw⟩
            · split at hi
              · cases hi
              · split at hi
                · cases hi
                · exact ih _ _ hi

theorem tmpIn_of_take {m m1 : Mem} {i : Nat} (h : takeReg m = .ok (m1, i)) : TmpIn m.active (R i) :=
  ⟨rfl, (takeReg_spec h).1⟩

theorem tmpIn_of_takeAt {m m1 : Mem} {rg : Option Nat} {i : Nat} (h : takeAt m rg = .ok (m1, i)) :
    TmpIn m.active (R i) := ⟨rfl, (takeAt_spec h).1⟩

theorem prot_set_self {a mu : List Bool} {i : Nat} (h : a.getD i true = false) : Prot (a.set i true) mu (R i) :=
  Or.inl ⟨rfl, getD_set_self (getD_true_false_lt h) _ _⟩

theorem getElem?_append_length {α : Type} (l : List α) (x : α) (t : List α) :
    ((l ++ [x]) ++ t)[l.length]? = some x := by
  rw [List.append_assoc, List.getElem?_append_right (Nat.le_refl _)]
  simp

/-- shared part of `loop`, `loopBody`, `foreach`: register taken, body, loop commands, register released -/
theorem loopShape_sim {m m1 m2 m4 : Mem} {i : Nat} {b : Bool} {body : Host} {bc : List PCmd}
    {start stop stp : Int} {H : List (Reg × Bool)} {L MH : List Nat} {f : Nat}
    {rg : Option Nat} (h1 : takeAt m rg = .ok (m1, i)) (h2 : emit (bindHandle m1 (R i) b) body = .ok (m2, bc))
    (h4 : release (buildLoop m2 start stop stp (R i) bc).1 i = .ok m4)
    (hem : emits body = true) (hext : Ext m4.handles H)
    (ih : ∀ (p : List PCmd) (n : Nat) (hs hs1 : HSt) (ts : St), Placed p n bc →
      Rel H L MH (m.active.set i true) m.measUsed hs ts →
      hsem f (m.handles.length + 1) m.arrLens.length body hs = some hs1 →
      ∃ ts1, Runs p n bc.length ts ts1 ∧ Rel H L MH (m.active.set i true) m.measUsed hs1 ts1)
    {p : List PCmd} {n : Nat} {hs hs1 : HSt} {ts : St}
    (hpl : Placed p n (buildLoop m2 start stop stp (R i) bc).2)
    (hrel : Rel H L MH m.active m.measUsed hs ts)
    (hit : iterLoop (hsem f (m.handles.length + 1) m.arrLens.length body) m.handles.length stop stp f
      (hs.setH m.handles.length start) = some hs1) :
    ∃ ts', Runs p n (buildLoop m2 start stop stp (R i) bc).2.length ts ts' ∧
      Rel H L MH m.active m.measUsed (hs1.clearH m.handles.length) ts' := by
  have st2 := emit_stat _ _ _ _ h2
  have hbc : bc ≠ [] := by
    intro e; have := st2.empty.mp e; rw [hem] at this; cases this
  have s1 := takeAt_spec h1
  have htmp := tmpIn_of_takeAt h1
  rw [buildLoop_shape _ _ _ _ _ _ hbc] at hpl ⊢
  have Lp := loopAt_of_placed hpl
  -- the handle of the loop register
  obtain ⟨t, ht, _⟩ := st2.handles
  have hH : H[m.handles.length]? = some (R i, b) := by
    apply hext
    rw [(release_same h4).handles, (buildLoop_sameL _ _ _ _ _ _).handles, ht]
    show ((m1.handles ++ [(R i, b)]) ++ t)[m.handles.length]? = some (R i, b)
    rw [s1.2.2.1]
    exact getElem?_append_length _ _ _
  -- entry
  have hrel0 : Rel H L MH (m.active.set i true) m.measUsed (hs.setH m.handles.length start)
      (ts.setReg (R i) start) :=
    hrel.bind hH (htmp.not_prot) (prot_set_self s1.1) (fun x hx => hx.mono (Sub.set _ _)) start (fun _ h => h) (by intro hb; simp [R] at hb)
  have r0 : Runs p n 1 ts (ts.setReg (R i) start) := runs_instr Lp.h0 (by simp [exec])
  have r1 : Runs p (n + 1) 1 (ts.setReg (R i) start) (ts.setReg (R i) start) := runs_label _ Lp.h1
  -- iterations
  have hbodyPl : Placed p (n + 3) bc := by
    unfold loopCode at hpl
    have := hpl.left.right
    simpa using this
  obtain ⟨ts', hst, hrel'⟩ := loop_sim Lp (fun a b => Rel H L MH (m.active.set i true) m.measUsed a b)
    m.handles.length (hsem f (m.handles.length + 1) m.arrLens.length body)
    (fun a b v hr hv => (hr.reg_val hv hH).1)
    (fun a b a1 hr hb => ih p (n + 3) a a1 b hbodyPl hr hb)
    (fun a b x v hr hx => hr.setBoth hx hH v)
    f _ _ hs1 hrel0 hit
  refine ⟨ts', ?_, hrel'.unbind hH (iterLoop_reg _ _ _ hit)⟩
  have r01 := runs_seq r0 r1
  unfold Runs at r01 ⊢
  have e : n + (loopCode (R i) start stop stp (loopLabels m2).1 (loopLabels m2).2 bc).length = n + 6 + bc.length := by
    simp [loopCode]; omega
  rw [e]
  exact Steps.trans r01 hst

theorem breakCmds_shape {m m' : Mem} {ef : Val} {ev : Int} {lx : Lbl} {cs : List PCmd}
    (h : breakCmds m ef ev lx = .ok (m', cs)) :
    ∃ m1 ld o t, condOperand m ef = .ok (m1, ld, o, t) ∧ cs = ld ++ [.instr .blt [o, .lit (ev + 1), .lab lx]] := by
  unfold breakCmds at h
  split at h
  · cases h
  · rename_i m1 cs1 o t h1
    split at h
    · cases h
    · cases h
      exact ⟨m1, cs1, o, t, h1, rfl⟩

/-- **emit_sim** -/
theorem emit_sim : ∀ (op : Host) (fuel : Nat) (m m' : Mem) (cs : List PCmd), BodyOK op →
    emit m op = .ok (m', cs) →
    ∀ (H : List (Reg × Bool)) (L MH : List Nat) (p : List PCmd) (n : Nat) (hs hs' : HSt) (ts : St),
    Ext m'.handles H → ExtL m'.arrLens L → Placed p n cs →
    Rel H L MH m.active m.measUsed hs ts →
    hsem fuel m.handles.length m.arrLens.length op hs = some hs' →
    ∃ ts', Runs p n cs.length ts ts' ∧ Rel H L MH m.active m.measUsed hs' ts' := by
  intro op
  induction op with
  | skip =>
    intro fuel m m' cs _ h H L MH p n hs hs' ts _ _ _ hrel hh
    simp [emit] at h; obtain ⟨rfl, rfl⟩ := h
    cases fuel with
    | zero => simp [hsem] at hh
    | succ f => simp [hsem] at hh; subst hh; exact ⟨ts, Runs.refl _ _ _, hrel⟩
  | seq a b iha ihb =>
    intro fuel m m' cs hb h H L MH p n hs hs' ts hext hextL hpl hrel hh
    simp only [emit] at h
    split at h
    · cases h
    · rename_i m1 ca h1
      split at h
      · cases h
      · rename_i m2 cb h2
        cases h
        cases fuel with
        | zero => simp [hsem] at hh
        | succ f =>
          simp only [hsem] at hh
          split at hh
          · rename_i hs1 hh1
            have sa := emit_stat _ _ _ _ h1
            have sb := emit_stat _ _ _ _ h2
            obtain ⟨t, ht, htl⟩ := sa.handles
            obtain ⟨u, hu, hul⟩ := sa.lens
            obtain ⟨t2, ht2, _⟩ := sb.handles
            obtain ⟨u2, hu2, _⟩ := sb.lens
            have a1 := emit_active a _ _ _ hb.1.completed h1
            have mu1 := (sa.body hb.1).1
            obtain ⟨ts1, hr1, hrel1⟩ := iha f m m1 ca hb.1 h1 H L MH p n hs hs1 ts
              (by rw [ht2] at hext; exact hext.of_append) (by rw [hu2] at hextL; exact hextL.of_append)
              hpl.left hrel hh1
            have e1 : m.handles.length + hCount a = m1.handles.length := by rw [ht]; simp [htl]
            have e2 : m.arrLens.length + aCount a = m1.arrLens.length := by rw [hu]; simp [hul]
            rw [e1, e2] at hh
            obtain ⟨ts2, hr2, hrel2⟩ := ihb f m1 m' cb hb.2 h2 H L MH p (n + ca.length) hs1 hs' ts1
              hext hextL hpl.right (by rw [a1, mu1]; exact hrel1) hh
            refine ⟨ts2, ?_, by rw [a1, mu1] at hrel2; exact hrel2⟩
            exact runs_cast (runs_seq hr1 hr2) (by simp)
          · cases hh
  | newArray len init =>
    intro fuel m m' cs _ h H L MH p n hs hs' ts _ _ _ hrel hh
    have hcs : cs = [] := by
      simp only [emit] at h
      split at h <;> (split at h; cases h; cases h; rfl)
    subst hcs
    cases fuel with
    | zero => simp [hsem] at hh
    | succ f => simp [hsem] at hh; subst hh; exact ⟨ts, Runs.refl _ _ _, hrel⟩
  | newReg v => intro fuel m m' cs hb; exact hb.elim
  | qop g t =>
    intro fuel m m' cs hb h H L MH p n hs hs' ts hext hextL hpl hrel hh
    simp only [emit] at h
    have st := emitQop_stat h
    obtain ⟨tt, htt, _⟩ := st.handles
    have hext' : Ext m.handles H := by rw [htt] at hext; exact hext.of_append
    cases fuel with
    | zero => simp [hsem] at hh
    | succ f =>
      simp only [hsem] at hh
      refine qop_sim h hb hext' hrel hpl ?_
      cases t with
      | newFut => exact ⟨m.arrLens.length, 0, rfl, hh⟩
      | fut fu =>
        simp only [writeFut] at hh
        split at hh
        · rename_i a i hai
          refine ⟨a, i, ?_, hh⟩
          rw [← hai]
          exact evalFut_congr (s1 := hs) (s2 := { hs with trace := hs.trace ++ ([Ev.qalloc, Ev.init] ++ gateEvs g
            ++ [Ev.meas (hs.outcomes.headD 0), Ev.qfree]), outcomes := hs.outcomes.tail }) rfl rfl fu
        · cases hh
      | newReg => exact absurd rfl hb
  | addF fu o md =>
    intro fuel m m' cs _ h H L MH p n hs hs' ts hext _ hpl hrel hh
    simp only [emit] at h
    have hext' : Ext m.handles H := by rw [(emitAddF_same h).handles] at hext; exact hext
    cases fuel with
    | zero => simp [hsem] at hh
    | succ f =>
      simp only [hsem] at hh
      split at hh
      · cases hh
      · rename_i a i hai
        split at hh
        · rename_i x y hx hy
          split at hh
          · rename_i r hr
            exact addF_sim h hext' hrel hpl hai hx hy hr hh
          · cases hh
        · cases hh
  | addR hnd o md =>
    intro fuel m m' cs _ h H L MH p n hs hs' ts hext _ hpl hrel hh
    simp only [emit] at h
    have hext' : Ext m.handles H := by rw [(emitAddR_same h).handles] at hext; exact hext
    cases fuel with
    | zero => simp [hsem] at hh
    | succ f =>
      simp only [hsem] at hh
      split at hh
      · rename_i x y hx hy
        split at hh
        · rename_i r hr
          cases hh
          exact addR_sim h hext' hrel hpl hx hy hr
        · cases hh
      · cases hh
  | ifc cb c a b body ih =>
    intro fuel m m' cs hb h H L MH p n hs hs' ts hext hextL hpl hrel hh
    simp only [emit] at h
    split at h
    · cases h
    · rename_i m1 bc h1
      have sb := emit_stat _ _ _ _ h1
      have a1 := emit_active body _ _ _ (BodyOK.completed (op := body) hb) h1
      have mu1 := (sb.body hb).1
      have sl := buildCondition_sameL h
      cases fuel with
      | zero => simp [hsem] at hh
      | succ f =>
        simp only [hsem] at hh
        split at hh
        · -- nothing emitted
          rename_i hem
          cases hh
          have hem' : emits body = false := by cases he : emits body <;> simp_all
          have hbc : bc = [] := sb.empty.mpr hem'
          subst hbc
          simp [buildCondition] at h
          obtain ⟨_, rfl⟩ := h
          exact ⟨ts, Runs.refl _ _ _, hrel⟩
        · rename_i hem
          have hem' : emits body = true := by cases he : emits body <;> simp_all
          have hbc : bc ≠ [] := by
            intro e; have := sb.empty.mp e; rw [hem'] at this; cases this
          unfold buildCondition at h
          have hne : bc.isEmpty = false := by cases bc <;> simp_all
          rw [hne] at h
          simp only [Bool.false_eq_true, if_false] at h
          split at h
          · cases h
          · rename_i m2 st l hbr
            cases h
            have hextB : Ext m1.handles H := by rw [sl.handles] at hext; exact hext
            have hextLB : ExtL m1.arrLens L := by rw [sl.lens] at hextL; exact hextL
            have hplSt : Placed p n st := hpl.left.left
            have hplB : Placed p (n + st.length) bc := hpl.left.right
            have hlab : findLabel p l = some (n + st.length + bc.length) := by
              have := hpl.right.label
              rwa [show n + (st ++ bc).length = n + st.length + bc.length by simp; omega] at this
            -- the body, whenever it runs
            have runBody : ∀ ts1, TmpEq m.active ts ts1 → hsem f m.handles.length m.arrLens.length body hs = some hs' →
                ∃ ts', Runs p (n + st.length) bc.length ts1 ts' ∧ Rel H L MH m.active m.measUsed hs' ts' := by
              intro ts1 hte hhb
              exact ih f m m1 bc hb h1 H L MH p (n + st.length) hs hs' ts1 hextB hextLB hplB (hrel.tmp hte) hhb
            have finish : ∀ (va vb : Int), evalVal hs a = some va → (c.unary = false → evalVal hs b = some vb) →
                (if condB c va vb then hsem f m.handles.length m.arrLens.length body hs else some hs) = some hs' →
                ∃ ts', Runs p n (st ++ bc ++ [PCmd.label l]).length ts ts' ∧ Rel H L MH m.active m.measUsed hs' ts' := by
              intro va vb hva hvb hres
              obtain ⟨ts1, hte, hst⟩ := branch_sim hbr hextB hrel (by rw [a1]; exact Sub.refl _)
                (by rw [a1]) hplSt hlab hva hvb
              rw [a1] at hte
              by_cases hc : condB c va vb = true
              · rw [hc] at hst hres
                simp only [if_true] at hst hres
                obtain ⟨ts2, hr2, hrel2⟩ := runBody ts1 hte hres
                refine ⟨ts2, ?_, hrel2⟩
                have hl := runs_label ts2 (by
                  have := hpl.right.head
                  rwa [show n + (st ++ bc).length = n + st.length + bc.length by simp; omega] at this)
                unfold Runs at hr2 hl ⊢
                rw [show n + (st ++ bc ++ [PCmd.label l]).length = n + st.length + bc.length + 1 by simp; omega]
                exact Steps.trans hst (Steps.trans hr2 hl)
              · have hc' : condB c va vb = false := by cases hcv : condB c va vb <;> simp_all
                rw [hc'] at hst hres
                simp only [Bool.false_eq_true, if_false] at hst hres
                cases hres
                refine ⟨ts1, ?_, hrel.tmp hte⟩
                unfold Runs
                rw [show n + (st ++ bc ++ [PCmd.label l]).length = n + st.length + bc.length + 1 by simp; omega]
                exact hst
            split at hh
            · cases hh
            · rename_i va hva
              split at hh
              · rename_i hu
                exact finish va 0 hva (by intro hc; rw [hu] at hc; cases hc) (by
                  have : condB c va 0 = condB c va 0 := rfl
                  exact hh)
              · split at hh
                · cases hh
                · rename_i vb hvb
                  exact finish va vb hva (fun _ => hvb) hh
  | loop rg start stop stp body ih =>
    intro fuel m m' cs hb h H L MH p n hs hs' ts hext hextL hpl hrel hh
    simp only [emit] at h
    split at h
    · cases h
    · rename_i m1 i h1
      split at h
      · cases h
      · rename_i m2 bc h2
        split at h
        · cases h
        · rename_i m4 h4
          cases h
          have s1 := takeAt_spec h1
          have sm1 := takeAt_same h1
          have st2 := emit_stat _ _ _ _ h2
          cases fuel with
          | zero => simp [hsem] at hh
          | succ f =>
            simp only [hsem] at hh
            split at hh
            · rename_i hem
              cases hh
              have hem' : emits body = false := by cases he : emits body <;> simp_all
              have hbc : bc = [] := st2.empty.mpr hem'
              subst hbc
              exact ⟨ts, by simp [buildLoop]; exact Runs.refl _ _ _, hrel⟩
            · rename_i hem
              have hem' : emits body = true := by cases he : emits body <;> simp_all
              cases hit : iterLoop (hsem f (m.handles.length + 1) m.arrLens.length body) m.handles.length stop stp f
                  (hs.setH m.handles.length start) with
              | none => rw [hit] at hh; simp [clearOpt] at hh
              | some hs1 =>
                rw [hit] at hh; simp only [clearOpt] at hh; cases hh
                have hextB : Ext m2.handles H := by
                  rw [(release_same h4).handles, (buildLoop_sameL _ _ _ _ _ _).handles] at hext; exact hext
                have hextLB : ExtL m2.arrLens L := by
                  rw [(release_same h4).lens, (buildLoop_sameL _ _ _ _ _ _).lens] at hextL; exact hextL
                refine loopShape_sim h1 h2 h4 hem' hext ?_ hpl hrel hit
                intro p' n' a a1 b' hpl' hr' hb'
                have := ih f (bindHandle m1 (R i) false) m2 bc hb h2 H L MH p' n' a a1 b' hextB hextLB hpl'
                  (by show Rel H L MH m1.active m1.measUsed a b'; rw [s1.2.1, sm1.meas]; exact hr')
                  (by show hsem f (m1.handles ++ [(R i, false)]).length m1.arrLens.length body a = some a1
                      rw [sm1.handles, sm1.lens]; simpa using hb')
                obtain ⟨t1, hr1, hrel1⟩ := this
                exact ⟨t1, hr1, by
                  have : Rel H L MH m1.active m1.measUsed a1 t1 := hrel1
                  rwa [s1.2.1, sm1.meas] at this⟩
  | loopBody rg start stop stp body ih =>
    intro fuel m m' cs hb h H L MH p n hs hs' ts hext hextL hpl hrel hh
    simp only [emit] at h
    split at h
    · cases h
    · rename_i m1 i h1
      split at h
      · cases h
      · rename_i m2 bc h2
        split at h
        · cases h
        · rename_i m4 h4
          cases h
          have s1 := takeAt_spec h1
          have sm1 := takeAt_same h1
          have st2 := emit_stat _ _ _ _ h2
          cases fuel with
          | zero => simp [hsem] at hh
          | succ f =>
            simp only [hsem] at hh
            split at hh
            · rename_i hem
              cases hh
              have hem' : emits body = false := by cases he : emits body <;> simp_all
              have hbc : bc = [] := st2.empty.mpr hem'
              subst hbc
              exact ⟨ts, by simp [buildLoop]; exact Runs.refl _ _ _, hrel⟩
            · rename_i hem
              have hem' : emits body = true := by cases he : emits body <;> simp_all
              cases hit : iterLoop (hsem f (m.handles.length + 1) m.arrLens.length body) m.handles.length stop stp f
                  (hs.setH m.handles.length start) with
              | none => rw [hit] at hh; simp [clearOpt] at hh
              | some hs1 =>
                rw [hit] at hh; simp only [clearOpt] at hh; cases hh
                have hextB : Ext m2.handles H := by
                  rw [(release_same h4).handles, (buildLoop_sameL _ _ _ _ _ _).handles] at hext; exact hext
                have hextLB : ExtL m2.arrLens L := by
                  rw [(release_same h4).lens, (buildLoop_sameL _ _ _ _ _ _).lens] at hextL; exact hextL
                refine loopShape_sim h1 h2 h4 hem' hext ?_ hpl hrel hit
                intro p' n' a a1 b' hpl' hr' hb'
                have := ih f (bindHandle m1 (R i) true) m2 bc hb h2 H L MH p' n' a a1 b' hextB hextLB hpl'
                  (by show Rel H L MH m1.active m1.measUsed a b'; rw [s1.2.1, sm1.meas]; exact hr')
                  (by show hsem f (m1.handles ++ [(R i, true)]).length m1.arrLens.length body a = some a1
                      rw [sm1.handles, sm1.lens]; simpa using hb')
                obtain ⟨t1, hr1, hrel1⟩ := this
                exact ⟨t1, hr1, by
                  have : Rel H L MH m1.active m1.measUsed a1 t1 := hrel1
                  rwa [s1.2.1, sm1.meas] at this⟩
  | foreach arr wi body ih =>
    intro fuel m m' cs hb h H L MH p n hs hs' ts hext hextL hpl hrel hh
    simp only [emit] at h
    split at h
    · cases h
    · rename_i alen halen
      split at h
      · cases h
      · rename_i m1 i h1
        split at h
        · cases h
        · rename_i m2 bc h2
          split at h
          · cases h
          · rename_i m4 h4
            cases h
            have s1 := takeReg_spec h1
            have sm1 := takeReg_same h1
            have st2 := emit_stat _ _ _ _ h2
            cases fuel with
            | zero => simp [hsem] at hh
            | succ f =>
              simp only [hsem] at hh
              split at hh
              · rename_i hem
                cases hh
                have hem' : emits body = false := by cases he : emits body <;> simp_all
                have hbc : bc = [] := st2.empty.mpr hem'
                subst hbc
                exact ⟨ts, by simp [buildLoop]; exact Runs.refl _ _ _, hrel⟩
              · rename_i hem
                have hem' : emits body = true := by cases he : emits body <;> simp_all
                split at hh
                · cases hh
                · rename_i l hl
                  -- the run-time length is the static one
                  have hextLB : ExtL m2.arrLens L := by
                    rw [(release_same h4).lens, (buildLoop_sameL _ _ _ _ _ _).lens] at hextL; exact hextL
                  have hLen : l.length = alen := by
                    unfold arrLen at halen
                    split at halen
                    · rename_i nn hnn
                      cases halen
                      obtain ⟨u, hu, _⟩ := st2.lens
                      have : L[arr]? = some alen := by
                        apply hextLB
                        rw [hu]
                        show (m1.arrLens ++ u)[arr]? = some alen
                        rw [sm1.lens]; exact prefix_get hnn
                      obtain ⟨l', hl', hlen'⟩ := hrel.lens arr alen this
                      rw [hl] at hl'; cases hl'; exact hlen'
                    · cases halen
                  rw [hLen] at hh
                  cases hit : iterLoop (hsem f (m.handles.length + 1) m.arrLens.length body) m.handles.length
                      (alen : Nat) 1 f (hs.setH m.handles.length 0) with
                  | none => rw [hit] at hh; simp [clearOpt] at hh
                  | some hs1 =>
                    rw [hit] at hh; simp only [clearOpt] at hh; cases hh
                    have hextB : Ext m2.handles H := by
                      rw [(release_same h4).handles, (buildLoop_sameL _ _ _ _ _ _).handles] at hext; exact hext
                    refine loopShape_sim (rg := none) h1 h2 h4 hem' hext ?_ hpl hrel hit
                    intro p' n' a a1 b' hpl' hr' hb'
                    have := ih f (bindHandle m1 (R i) false) m2 bc hb h2 H L MH p' n' a a1 b' hextB hextLB hpl'
                      (by show Rel H L MH m1.active m1.measUsed a b'; rw [s1.2.1, sm1.meas]; exact hr')
                      (by show hsem f (m1.handles ++ [(R i, false)]).length m1.arrLens.length body a = some a1
                          rw [sm1.handles, sm1.lens]; simpa using hb')
                    obtain ⟨t1, hr1, hrel1⟩ := this
                    exact ⟨t1, hr1, by
                      have : Rel H L MH m1.active m1.measUsed a1 t1 := hrel1
                      rwa [s1.2.1, sm1.meas] at this⟩
  | loopUntil N body ef ev cl ihb ihc =>
    intro fuel m m' cs hb h H L MH p n hs hs' ts hext hextL hpl hrel hh
    simp only [emit] at h
    split at h
    · cases h
    · rename_i m1 i h1
      have s1 := takeReg_spec h1
      have sm1 := takeReg_same h1
      have htmp := tmpIn_of_take h1
      split at h
      · cases h
      · rename_i m2 bc h2
        have st2 := emit_stat _ _ _ _ h2
        have a2 : m2.active = m.active.set i true := by
          rw [emit_active body _ _ _ (BodyOK.completed hb.1) h2]; exact s1.2.1
        have mu2 : m2.measUsed = m.measUsed := by rw [(st2.body hb.1).1]; exact sm1.meas
        cases fuel with
        | zero => simp [hsem] at hh
        | succ f =>
          simp only [hsem] at hh
          split at hh
          · rename_i hem
            cases hh
            have hem' : emits body = false := by cases he : emits body <;> simp_all
            have hbc : bc = [] := st2.empty.mpr hem'
            subst hbc
            simp only [List.isEmpty_nil, if_true] at h
            split at h
            · cases h
            · cases h; exact ⟨ts, Runs.refl _ _ _, hrel⟩
          · rename_i hem
            have hem' : emits body = true := by cases he : emits body <;> simp_all
            have hbc : bc ≠ [] := by
              intro e; have := st2.empty.mp e; rw [hem'] at this; cases this
            have hne : bc.isEmpty = false := by cases bc <;> simp_all
            rw [hne] at h
            simp only [Bool.false_eq_true, if_false] at h
            split at h
            · cases h
            · rename_i m5 brk h5
              split at h
              · cases h
              · rename_i m6 clc h6
                split at h
                · cases h
                · rename_i m7 h7
                  cases h
                  obtain ⟨m4', ld, o, tt, hco, hbrk⟩ := breakCmds_shape h5
                  subst hbrk
                  have st6 := emit_stat _ _ _ _ h6
                  have sm5 := breakCmds_same h5
                  have a5 : m5.active = m.active.set i true := by rw [breakCmds_active h5]; exact a2
                  have mu5 : m5.measUsed = m.measUsed := by rw [sm5.meas]; exact mu2
                  -- tables
                  obtain ⟨t2, ht2, htl2⟩ := st2.handles
                  obtain ⟨u2, hu2, hul2⟩ := st2.lens
                  obtain ⟨t6, ht6, _⟩ := st6.handles
                  obtain ⟨u6, hu6, _⟩ := st6.lens
                  have h5h : m5.handles = m2.handles := sm5.handles
                  have h5l : m5.arrLens = m2.arrLens := sm5.lens
                  have hext6 : Ext m6.handles H := by rw [(release_same h7).handles] at hext; exact hext
                  have hextL6 : ExtL m6.arrLens L := by rw [(release_same h7).lens] at hextL; exact hextL
                  have hext2 : Ext m2.handles H := by rw [ht6, h5h] at hext6; exact hext6.of_append
                  have hextL2 : ExtL m2.arrLens L := by rw [hu6, h5l] at hextL6; exact hextL6.of_append
                  have hH : H[m.handles.length]? = some (R i, true) := by
                    apply hext2
                    rw [ht2]
                    show ((m1.handles ++ [(R i, true)]) ++ t2)[m.handles.length]? = some (R i, true)
                    rw [sm1.handles]
                    exact getElem?_append_length _ _ _
                  have U := untilAt_of_placed hpl
                  -- positions
                  have eE : (loopUntilEntry (R i) N (newLabel m2 3).2 (newLabel (newLabel m2 3).1 4).2).length = 3 := rfl
                  have plB : Placed p (n + 3) bc := by
                    have := hpl.left.left.left.right; rwa [eE] at this
                  have plK : Placed p (n + 3 + bc.length) ld := by
                    have := hpl.left.left.right.left
                    rwa [show n + (loopUntilEntry (R i) N (newLabel m2 3).2 (newLabel (newLabel m2 3).1 4).2 ++ bc).length
                      = n + 3 + bc.length by simp [loopUntilEntry]; omega] at this
                  have plC : Placed p (n + 4 + bc.length + ld.length) clc := by
                    have := hpl.left.right
                    rwa [show n + (loopUntilEntry (R i) N (newLabel m2 3).2 (newLabel (newLabel m2 3).1 4).2 ++ bc ++
                        (ld ++ [PCmd.instr .blt [o, .lit (ev + 1), .lab (newLabel (newLabel m2 3).1 4).2]])).length
                      = n + 4 + bc.length + ld.length by simp [loopUntilEntry]; omega] at this
                  -- entry
                  have hrel0 : Rel H L MH (m.active.set i true) m.measUsed (hs.setH m.handles.length 0)
                      (ts.setReg (R i) 0) :=
                    hrel.bind hH (htmp.not_prot) (prot_set_self s1.1) (fun x hx => hx.mono (Sub.set _ _)) 0 (fun _ h => h) (by intro hb; simp [R] at hb)
                  have r0 : Runs p n 1 ts (ts.setReg (R i) 0) := runs_instr U.h0 (by simp [exec])
                  have r1 : Runs p (n + 1) 1 (ts.setReg (R i) 0) (ts.setReg (R i) 0) := runs_label _ U.h1
                  cases hit : iterUntil (hsem f (m.handles.length + 1) m.arrLens.length body)
                      (hsem f (m.handles.length + 1 + hCount body) (m.arrLens.length + aCount body) cl) ef ev
                      m.handles.length N f (hs.setH m.handles.length 0) with
                  | none => rw [hit] at hh; simp [clearOpt] at hh
                  | some hs1 =>
                    rw [hit] at hh; simp only [clearOpt] at hh; cases hh
                    have e4a : (newLabel (newLabel m2 3).1 4).1.active = m.active.set i true := a2
                    have e4h : (newLabel (newLabel m2 3).1 4).1.handles = m2.handles := rfl
                    obtain ⟨ts', hst, hrel'⟩ := until_sim U
                      (fun a b => Rel H L MH (m.active.set i true) m.measUsed a b) m.handles.length
                      (hsem f (m.handles.length + 1) m.arrLens.length body)
                      (hsem f (m.handles.length + 1 + hCount body) (m.arrLens.length + aCount body) cl) ef
                      (fun a b v hr hv => (hr.reg_val hv hH).1)
                      (by
                        intro a b a1 hr hb'
                        have := ihb f (bindHandle m1 (R i) true) m2 bc hb.1 h2 H L MH p (n + 3) a a1 b hext2 hextL2 plB
                          (by show Rel H L MH m1.active m1.measUsed a b; rw [s1.2.1, sm1.meas]; exact hr)
                          (by show hsem f (m1.handles ++ [(R i, true)]).length m1.arrLens.length body a = some a1
                              rw [sm1.handles, sm1.lens]; simpa using hb')
                        obtain ⟨t1, hr1, hrel1⟩ := this
                        exact ⟨t1, hr1, by
                          have : Rel H L MH m1.active m1.measUsed a1 t1 := hrel1
                          rwa [s1.2.1, sm1.meas] at this⟩)
                      (by
                        intro a b v hr hv
                        obtain ⟨ts1, hte, hrun, hop⟩ := condOperand_sim hco (by rw [e4h]; exact hext2) hr
                          (by rw [e4a]; exact Sub.refl _) (by rw [e4a]) plK hv
                        rw [e4a] at hte
                        exact ⟨ts1, hrun, hr.tmp hte, hop ts1 (TmpEq.refl _ _)⟩)
                      (by
                        intro a b a1 hr hc
                        have := ihc f m5 m6 clc hb.2 h6 H L MH p (n + 4 + bc.length + ld.length) a a1 b hext6 hextL6 plC
                          (by rw [a5, mu5]; exact hr)
                          (by
                            have e1 : m5.handles.length = m.handles.length + 1 + hCount body := by
                              rw [h5h, ht2]
                              show ((m1.handles ++ [(R i, true)]) ++ t2).length = _
                              rw [sm1.handles]; simp [htl2]; omega
                            have e2 : m5.arrLens.length = m.arrLens.length + aCount body := by
                              rw [h5l, hu2]
                              show (m1.arrLens ++ u2).length = _
                              rw [sm1.lens]; simp [hul2]
                            rw [e1, e2]; exact hc)
                        obtain ⟨t1, hr1, hrel1⟩ := this
                        exact ⟨t1, hr1, by rwa [a5, mu5] at hrel1⟩)
                      (fun a b x v hr hx => hr.setBoth hx hH v)
                      f _ _ hs1 hrel0 hit
                    obtain ⟨vend, hvend⟩ := iterUntil_reg _ _ _ hit
                    refine ⟨ts', ?_, hrel'.unbind hH hvend⟩
                    have r01 := runs_seq r0 r1
                    unfold Runs at r01 ⊢
                    rw [show n + (loopUntilEntry (R i) N (newLabel m2 3).2 (newLabel (newLabel m2 3).1 4).2 ++ bc ++
                        (ld ++ [PCmd.instr .blt [o, .lit (ev + 1), .lab (newLabel (newLabel m2 3).1 4).2]]) ++ clc ++
                        loopUntilExit (R i) (newLabel m2 3).2 (newLabel (newLabel m2 3).1 4).2).length
                      = n + 7 + bc.length + ld.length + clc.length by
                        simp [loopUntilEntry, loopUntilExit]; omega]
                    exact Steps.trans r01 hst
  | epr evs => intro fuel m m' cs hb; exact hb.elim
  | tryUntil k body ih =>
    intro fuel m m' cs hb h H L MH p n hs hs' ts hext hextL hpl hrel hh
    simp only [emit] at h
    cases fuel with
    | zero => simp [hsem] at hh
    | succ f =>
      simp only [hsem] at hh
      obtain ⟨ts', hr, hrel'⟩ := ih f m m' cs hb h H L MH p n hs hs' ts hext hextL hpl hrel hh
      exact ⟨ts', hr, hrel'⟩


end NQ.Sdk
