/-
C14, M bank: measurement-outcome registers. An operation that does not keep an outcome in a register
leaves the M flags as they were; `measure(store_array=False)` takes exactly one; a flush that sends a
subroutine frees all of them; with one M register free no operation fails with "Ran out of M-registers".
-/
import NetqasmVerif.Lemmas.SdkSimTop
set_option linter.unusedSimpArgs false
set_option linter.unusedVariables false
namespace NQ.Sdk

/-- "does not fail for lack of a measurement register" -/
def NoMeas {α : Type} (x : Except BuildError α) : Prop := ∀ e, x = .error e → e ≠ .noMeasRegister

theorem NoMeas.ok {α : Type} (a : α) : NoMeas (Except.ok a : Except BuildError α) := by intro e h; cases h
theorem NoMeas.err {α : Type} {e : BuildError} (h : e ≠ .noMeasRegister) :
    NoMeas (Except.error e : Except BuildError α) := by intro e' h'; cases h'; exact h

theorem release_noMeas (m : Mem) (i : Nat) : NoMeas (release m i) := by
  intro e h; unfold release at h; split at h <;> cases h; simp
theorem releaseOpt_noMeas (m : Mem) (t : Option Nat) : NoMeas (releaseOpt m t) := by
  cases t with
  | none => exact NoMeas.ok _
  | some t => exact release_noMeas m t
theorem activate_noMeas (m : Mem) (i : Nat) : NoMeas (activate m i) := by
  intro e h; unfold activate at h; split at h <;> cases h; simp
theorem handle_noMeas (m : Mem) (h : Nat) : NoMeas (handle m h) := by
  intro e he; unfold handle at he; split at he <;> cases he; simp
theorem arrLen_noMeas (m : Mem) (a : Nat) : NoMeas (arrLen m a) := by
  intro e he; unfold arrLen at he; split at he <;> cases he; simp
theorem getInactive_noMeas (m : Mem) : NoMeas (getInactive m) := by
  intro e he; unfold getInactive at he; split at he <;> cases he; simp

theorem takeReg_noMeas (m : Mem) : NoMeas (takeReg m) := by
  unfold takeReg
  split
  · rename_i e he; exact NoMeas.err (getInactive_noMeas _ _ he)
  · split
    · rename_i e he; exact NoMeas.err (activate_noMeas _ _ _ he)
    · exact NoMeas.ok _

theorem takeAt_noMeas (m : Mem) (rg : Option Nat) : NoMeas (takeAt m rg) := by
  cases rg with
  | none => exact takeReg_noMeas m
  | some j =>
    simp only [takeAt]
    split
    · rename_i e he; exact NoMeas.err (activate_noMeas _ _ _ he)
    · exact NoMeas.ok _

theorem accessCmds_noMeas : ∀ (f : Fut) (m : Mem) (st : Bool) (r : Reg), NoMeas (accessCmds m st r f)
  | .lit a i, m, st, r => by simp only [accessCmds]; exact NoMeas.ok _
  | .reg a hh, m, st, r => by
    simp only [accessCmds]
    split
    · rename_i e he; exact NoMeas.err (handle_noMeas _ _ _ he)
    · exact NoMeas.ok _
  | .fut a f, m, st, r => by
    simp only [accessCmds]
    split
    · rename_i e he; exact NoMeas.err (getInactive_noMeas _ _ he)
    · split
      · rename_i e he; exact NoMeas.err (activate_noMeas _ _ _ he)
      · split
        · rename_i e he; exact NoMeas.err (accessCmds_noMeas f _ _ _ _ he)
        · split
          · rename_i e he; exact NoMeas.err (release_noMeas _ _ _ he)
          · exact NoMeas.ok _

theorem addressEntry_noMeas (m : Mem) (f : Fut) : NoMeas (addressEntry m f) := by
  cases f with
  | lit a i => simp only [addressEntry]; exact NoMeas.ok _
  | reg a hh =>
    simp only [addressEntry]
    split
    · rename_i e he; exact NoMeas.err (handle_noMeas _ _ _ he)
    · exact NoMeas.ok _
  | fut a f => simp only [addressEntry]; exact NoMeas.err (by simp)

theorem condOperand_noMeas (m : Mem) (v : Val) : NoMeas (condOperand m v) := by
  cases v with
  | lit x => simp only [condOperand]; exact NoMeas.ok _
  | reg hh =>
    simp only [condOperand]
    split
    · rename_i e he; exact NoMeas.err (handle_noMeas _ _ _ he)
    · split
      · exact NoMeas.ok _
      · exact NoMeas.err (by simp)
  | fut f =>
    simp only [condOperand]
    split
    · rename_i e he; exact NoMeas.err (takeReg_noMeas _ _ he)
    · split
      · rename_i e he; exact NoMeas.err (addressEntry_noMeas _ _ _ he)
      · exact NoMeas.ok _

theorem addOther_noMeas (m : Mem) (v : Val) : NoMeas (addOther m v) := by
  cases v with
  | lit x => simp only [addOther]; exact NoMeas.ok _
  | reg hh =>
    simp only [addOther]
    split
    · rename_i e he; exact NoMeas.err (handle_noMeas _ _ _ he)
    · split
      · exact NoMeas.err (by simp)
      · exact NoMeas.ok _
  | fut g =>
    simp only [addOther]
    split
    · rename_i e he; exact NoMeas.err (takeReg_noMeas _ _ he)
    · split
      · rename_i e he; exact NoMeas.err (accessCmds_noMeas _ _ _ _ _ he)
      · exact NoMeas.ok _

theorem branchCmds_noMeas (m : Mem) (c : Cond) (a b : Val) : NoMeas (branchCmds m c a b) := by
  unfold branchCmds
  simp only
  split
  · split
    · rename_i e he; exact NoMeas.err (condOperand_noMeas _ _ _ he)
    · split
      · rename_i e he; exact NoMeas.err (releaseOpt_noMeas _ _ _ he)
      · exact NoMeas.ok _
  · split
    · rename_i e he; exact NoMeas.err (condOperand_noMeas _ _ _ he)
    · split
      · rename_i e he; exact NoMeas.err (condOperand_noMeas _ _ _ he)
      · split
        · rename_i e he; exact NoMeas.err (releaseOpt_noMeas _ _ _ he)
        · split
          · rename_i e he; exact NoMeas.err (releaseOpt_noMeas _ _ _ he)
          · exact NoMeas.ok _

theorem buildCondition_noMeas (m : Mem) (c : Cond) (a b : Val) (body : List PCmd) :
    NoMeas (buildCondition m c a b body) := by
  unfold buildCondition
  split
  · exact NoMeas.ok _
  · split
    · rename_i e he; exact NoMeas.err (branchCmds_noMeas _ _ _ _ _ he)
    · exact NoMeas.ok _

theorem breakCmds_noMeas (m : Mem) (ef : Val) (ev : Int) (lx : Lbl) : NoMeas (breakCmds m ef ev lx) := by
  unfold breakCmds
  split
  · rename_i e he; exact NoMeas.err (condOperand_noMeas _ _ _ he)
  · split
    · rename_i e he; exact NoMeas.err (releaseOpt_noMeas _ _ _ he)
    · exact NoMeas.ok _

theorem emitAddF_noMeas (m : Mem) (f : Fut) (o : Val) (md : Option Int) : NoMeas (emitAddF m f o md) := by
  unfold emitAddF
  split
  · rename_i e he; exact NoMeas.err (takeReg_noMeas _ _ he)
  · split
    · rename_i e he; exact NoMeas.err (accessCmds_noMeas _ _ _ _ _ he)
    · split
      · rename_i e he; exact NoMeas.err (accessCmds_noMeas _ _ _ _ _ he)
      · split
        · rename_i e he; exact NoMeas.err (addOther_noMeas _ _ _ he)
        · split
          · rename_i e he; exact NoMeas.err (release_noMeas _ _ _ he)
          · split
            · rename_i e he; exact NoMeas.err (releaseOpt_noMeas _ _ _ he)
            · exact NoMeas.ok _

theorem emitAddR_noMeas (m : Mem) (hh : Nat) (o : Val) (md : Option Int) : NoMeas (emitAddR m hh o md) := by
  unfold emitAddR
  split
  · rename_i e he; exact NoMeas.err (handle_noMeas _ _ _ he)
  · split
    · exact NoMeas.err (by simp)
    · split
      · rename_i e he; exact NoMeas.err (addOther_noMeas _ _ _ he)
      · split
        · rename_i e he; exact NoMeas.err (releaseOpt_noMeas _ _ _ he)
        · exact NoMeas.ok _

theorem emitEprH_noMeas : ∀ (evs : List EprEv) (m : Mem) (held : List Nat), NoMeas (emitEprH m held evs)
  | [], m, held => by simp only [emitEprH]; exact NoMeas.ok _
  | .take :: es, m, held => by
    simp only [emitEprH]
    split
    · rename_i e he; exact NoMeas.err (takeReg_noMeas _ _ he)
    · exact emitEprH_noMeas es _ _
  | .rel p :: es, m, held => by
    simp only [emitEprH]
    split
    · exact NoMeas.err (by simp)
    · split
      · rename_i e he; exact NoMeas.err (release_noMeas _ _ _ he)
      · exact emitEprH_noMeas es _ _

theorem firstUnusedMeas_noMeas {m : Mem} (h : 0 < free m.measUsed) : NoMeas (firstUnusedMeas m) := by
  obtain ⟨i, hi⟩ := firstFree_of_free _ h
  unfold firstUnusedMeas
  rw [hi]
  exact NoMeas.ok _

theorem emitQop_noMeas (m : Mem) (g : List Nat) (tgt : MTgt) (h : 0 < free m.measUsed) :
    NoMeas (emitQop m g tgt) := by
  unfold emitQop
  cases tgt with
  | newFut =>
    simp only
    split
    · rename_i e he; exact NoMeas.err (firstUnusedMeas_noMeas (by exact h) _ he)
    · split
      · rename_i e he; exact NoMeas.err (accessCmds_noMeas _ _ _ _ _ he)
      · exact NoMeas.ok _
  | fut f =>
    simp only
    split
    · rename_i e he; exact NoMeas.err (firstUnusedMeas_noMeas (by exact h) _ he)
    · split
      · rename_i e he; exact NoMeas.err (accessCmds_noMeas _ _ _ _ _ he)
      · exact NoMeas.ok _
  | newReg =>
    simp only
    split
    · rename_i e he; exact NoMeas.err (firstUnusedMeas_noMeas (by exact h) _ he)
    · exact NoMeas.ok _

/-- with one M register free, no operation whose bodies keep no outcome register fails with
"Ran out of M-registers" -/
theorem emit_noMeas : ∀ (op : Host) (m : Mem), BodyOK op → 0 < free m.measUsed → NoMeas (emit m op) := by
  intro op
  induction op with
  | skip => intro m _ _; simp only [emit]; exact NoMeas.ok _
  | seq a b iha ihb =>
    intro m hb h
    simp only [emit]
    split
    · rename_i e he; exact NoMeas.err (iha _ hb.1 h _ he)
    · rename_i m1 ca h1
      have e1 := ((emit_stat _ _ _ _ h1).body hb.1).1
      split
      · rename_i e he; exact NoMeas.err (ihb _ hb.2 (by rw [e1]; exact h) _ he)
      · exact NoMeas.ok _
  | newArray len init =>
    intro m _ _
    simp only [emit]
    split <;> (split; exact NoMeas.err (by simp); exact NoMeas.ok _)
  | newReg v => intro m hb; exact hb.elim
  | qop g t => intro m _ h; simp only [emit]; exact emitQop_noMeas _ _ _ h
  | addF f o md => intro m _ _; simp only [emit]; exact emitAddF_noMeas _ _ _ _
  | addR hh o md => intro m _ _; simp only [emit]; exact emitAddR_noMeas _ _ _ _
  | ifc cb c a b body ih =>
    intro m hb h
    simp only [emit]
    split
    · rename_i e he; exact NoMeas.err (ih _ hb h _ he)
    · exact buildCondition_noMeas _ _ _ _ _
  | loop rg s e d body ih =>
    intro m hb h
    simp only [emit]
    split
    · rename_i e he; exact NoMeas.err (takeAt_noMeas _ _ _ he)
    · rename_i m1 i h1
      split
      · rename_i e he
        exact NoMeas.err (ih _ hb (by show 0 < free m1.measUsed; rw [(takeAt_same h1).meas]; exact h) _ he)
      · try simp only
        split
        · rename_i e he; exact NoMeas.err (release_noMeas _ _ _ he)
        · exact NoMeas.ok _
  | loopBody rg s e d body ih =>
    intro m hb h
    simp only [emit]
    split
    · rename_i e he; exact NoMeas.err (takeAt_noMeas _ _ _ he)
    · rename_i m1 i h1
      split
      · rename_i e he
        exact NoMeas.err (ih _ hb (by show 0 < free m1.measUsed; rw [(takeAt_same h1).meas]; exact h) _ he)
      · try simp only
        split
        · rename_i e he; exact NoMeas.err (release_noMeas _ _ _ he)
        · exact NoMeas.ok _
  | foreach arr wi body ih =>
    intro m hb h
    simp only [emit]
    split
    · rename_i e he; exact NoMeas.err (arrLen_noMeas _ _ _ he)
    · split
      · rename_i e he; exact NoMeas.err (takeReg_noMeas _ _ he)
      · rename_i m1 i h1
        split
        · rename_i e he
          exact NoMeas.err (ih _ hb (by show 0 < free m1.measUsed; rw [(takeReg_same h1).meas]; exact h) _ he)
        · try simp only
          split
          · rename_i e he; exact NoMeas.err (release_noMeas _ _ _ he)
          · exact NoMeas.ok _
  | loopUntil n body ef ev cl ihb ihc =>
    intro m hb h
    simp only [emit]
    split
    · rename_i e he; exact NoMeas.err (takeReg_noMeas _ _ he)
    · rename_i m1 i h1
      have hm1 : 0 < free (bindHandle m1 (R i) true).measUsed := by
        show 0 < free m1.measUsed; rw [(takeReg_same h1).meas]; exact h
      split
      · rename_i e he; exact NoMeas.err (ihb _ hb.1 hm1 _ he)
      · rename_i m2 cs h2
        have e2 := ((emit_stat _ _ _ _ h2).body hb.1).1
        split
        · split
          · rename_i e he; exact NoMeas.err (release_noMeas _ _ _ he)
          · exact NoMeas.ok _
        · split
          · rename_i e he; exact NoMeas.err (breakCmds_noMeas _ _ _ _ _ he)
          · rename_i m5 brk h5
            split
            · rename_i e he
              refine NoMeas.err (ihc _ hb.2 ?_ _ he)
              rw [(breakCmds_same h5).meas]
              show 0 < free m2.measUsed
              rw [e2]; exact hm1
            · split
              · rename_i e he; exact NoMeas.err (release_noMeas _ _ _ he)
              · exact NoMeas.ok _
  | tryUntil n body ih => intro m hb h; simp only [emit]; exact ih _ hb h
  | epr evs => intro m hb; exact hb.elim

end NQ.Sdk
