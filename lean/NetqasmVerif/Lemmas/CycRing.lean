/-
ℤ[ζ₈] (Model/Cyc, four `Int`s) is a commutative ring, `ζ⁴ = −1`, `I·I = −1`: so the polynomial
identities of Lemmas/RotPoly hold in it, and the exact matrices used by the kernel-decided obligations
(`rot2P ax (Cyc.zpow k)`) are the `D = 2` instance of the same definition.
-/
import Mathlib.Algebra.Ring.MinimalAxioms
import Mathlib.Tactic.Ring
import NetqasmVerif.Lemmas.RotPoly
namespace NQ
open NQ.Rot

instance : Zero Cyc := ⟨Cyc.zero⟩
instance : One Cyc := ⟨Cyc.one⟩

theorem Cyc.ext' {x y : Cyc} (ha : x.a = y.a) (hb : x.b = y.b) (hc : x.c = y.c) (hd : x.d = y.d) : x = y := by
  cases x; cases y; simp_all

@[simp] theorem Cyc.add_def (x y : Cyc) : x + y = ⟨x.a + y.a, x.b + y.b, x.c + y.c, x.d + y.d⟩ := rfl
@[simp] theorem Cyc.neg_def (x : Cyc) : -x = ⟨-x.a, -x.b, -x.c, -x.d⟩ := rfl
@[simp] theorem Cyc.mul_def (x y : Cyc) : x * y = Cyc.mul x y := rfl
@[simp] theorem Cyc.zero_def : (0 : Cyc) = ⟨0, 0, 0, 0⟩ := rfl
@[simp] theorem Cyc.one_def : (1 : Cyc) = ⟨1, 0, 0, 0⟩ := rfl

instance : CommRing Cyc :=
  CommRing.ofMinimalAxioms
    (by intro x y z; apply Cyc.ext' <;> simp <;> ring)
    (by intro x; apply Cyc.ext' <;> simp)
    (by intro x; apply Cyc.ext' <;> simp)
    (by intro x y z; apply Cyc.ext' <;> simp [Cyc.mul] <;> ring)
    (by intro x y; apply Cyc.ext' <;> simp [Cyc.mul] <;> ring)
    (by intro x; apply Cyc.ext' <;> simp [Cyc.mul])
    (by intro x y z; apply Cyc.ext' <;> simp [Cyc.mul] <;> ring)

theorem Cyc.zeta_pow4 : Cyc.zeta ^ 2 ^ 2 = (-1 : Cyc) := by decide +kernel
theorem Cyc.I_mul_I : Cyc.I * Cyc.I = (-1 : Cyc) := by decide +kernel

theorem Cyc.zpow_eq_pow (k : Nat) : Cyc.zpow k = Cyc.zeta ^ k := by
  induction k with
  | zero => rfl
  | succ k ih =>
    rw [pow_succ, ← ih]
    show Cyc.mulZeta (Cyc.zpow k) = Cyc.zpow k * Cyc.zeta
    apply Cyc.ext' <;> simp [Cyc.mulZeta, Cyc.mul, Cyc.zeta]

/-- the exact matrices of the kernel-decided obligations are the ζ₈ instance of the generic definition -/
theorem rot2P_cyc (ax : Axis) (k : Nat) : rot2P ax (Cyc.zpow k) = P Cyc.I ax (Cyc.zeta ^ k) := by
  rw [Cyc.zpow_eq_pow]; cases ax <;> rfl

theorem rot2PNeg_cyc (ax : Axis) (k : Nat) : rot2PNeg ax (Cyc.zpow k) = PNeg Cyc.I ax (Cyc.zeta ^ k) := by
  rw [Cyc.zpow_eq_pow]; cases ax <;> rfl

end NQ
