/-
Compiler correctness of the SDK builder model (C05), part 3: the loop shapes against the iteration
functions of `HostSem` (`iterLoop`, `iterUntil`), for an arbitrary invariant.
-/
import NetqasmVerif.Lemmas.SdkSimLeaf
set_option linter.unusedSimpArgs false
set_option linter.unusedVariables false
namespace NQ.Sdk

/-- the counted loop emitted by `_build_cmds_loop`, from its head, against `iterLoop` -/
theorem loop_sim {p : List PCmd} {n lb : Nat} {r : Reg} {start stop stp : Int} {le lx : Lbl}
    (Lp : LoopAt p n lb r start stop stp le lx) (Inv : HSt → St → Prop) (h : Nat)
    (bodyH : HSt → Option HSt)
    (hreg : ∀ hs ts v, Inv hs ts → hs.hregs h = some v → ts.regs r = some v)
    (hbody : ∀ hs ts hs1, Inv hs ts → bodyH hs = some hs1 → ∃ ts1, Runs p (n + 3) lb ts ts1 ∧ Inv hs1 ts1)
    (hupd : ∀ hs ts x v, Inv hs ts → hs.hregs h = some x → Inv (hs.setH h v) (ts.setReg r v)) :
    ∀ (k : Nat) (hs : HSt) (ts : St) (hs' : HSt), Inv hs ts → iterLoop bodyH h stop stp k hs = some hs' →
      ∃ ts', Steps p (ts, n + 2) (ts', n + 6 + lb) ∧ Inv hs' ts' := by
  intro k
  induction k with
  | zero => intro hs ts hs' _ hi; simp [iterLoop] at hi
  | succ k ih =>
    intro hs ts hs' hinv hi
    simp only [iterLoop] at hi
    split at hi
    · cases hi
    · rename_i i hhi
      have hr := hreg hs ts i hinv hhi
      split at hi
      · rename_i hstop
        cases hi
        have : step p (ts, n + 2) = some (ts, n + 5 + lb + 1) := by
          rw [step_instr ts Lp.h2]
          simp [exec, hr, hstop, brTaken2, goto, Lp.flx]
        exact ⟨ts, by
          have e : n + 6 + lb = n + 5 + lb + 1 := by omega
          rw [e]; exact Steps.one this, hinv⟩
      · rename_i hstop
        split at hi
        · cases hi
        · rename_i hs1 hb
          split at hi
          · cases hi
          · rename_i i1 hi1
            obtain ⟨ts1, hrun, hinv1⟩ := hbody hs ts hs1 hinv hb
            have hr1 := hreg hs1 ts1 i1 hinv1 hi1
            have s1 : step p (ts, n + 2) = some (ts, n + 3) := by
              rw [step_instr ts Lp.h2]
              simp [exec, hr, hstop, brTaken2, goto, Lp.flx]
            have s2 : step p (ts1, n + 3 + lb) = some (ts1.setReg r (i1 + stp), n + 3 + lb + 1) := by
              rw [step_instr _ Lp.h3]
              simp [exec, hr1]
            have s3 : step p (ts1.setReg r (i1 + stp), n + 4 + lb)
                = some (ts1.setReg r (i1 + stp), n + 1 + 1) := by
              rw [step_instr _ Lp.h4]
              simp [exec, goto, Lp.fle]
            have e1 : n + 3 + lb + 1 = n + 4 + lb := by omega
            rw [e1] at s2
            obtain ⟨ts', hst, hinv'⟩ := ih _ _ hs' (hupd hs1 ts1 i1 (i1 + stp) hinv1 hi1) hi
            exact ⟨ts', Steps.next s1 (Steps.trans hrun (Steps.next s2 (Steps.next s3 hst))), hinv'⟩

/-- `loop_until` from its head, against `iterUntil` -/
theorem until_sim {p : List PCmd} {n lb lk lc : Nat} {r : Reg} {N : Int} {o : POp} {ev : Int} {le lx : Lbl}
    (U : UntilAt p n lb lk lc r N o ev le lx) (Inv : HSt → St → Prop) (h : Nat)
    (bodyH cleanH : HSt → Option HSt) (ef : Val)
    (hreg : ∀ hs ts v, Inv hs ts → hs.hregs h = some v → ts.regs r = some v)
    (hbody : ∀ hs ts hs1, Inv hs ts → bodyH hs = some hs1 → ∃ ts1, Runs p (n + 3) lb ts ts1 ∧ Inv hs1 ts1)
    (hbrk : ∀ hs ts v, Inv hs ts → evalVal hs ef = some v →
      ∃ ts1, Runs p (n + 3 + lb) lk ts ts1 ∧ Inv hs ts1 ∧ opVal ts1 o = some v)
    (hclean : ∀ hs ts hs1, Inv hs ts → cleanH hs = some hs1 →
      ∃ ts1, Runs p (n + 4 + lb + lk) lc ts ts1 ∧ Inv hs1 ts1)
    (hupd : ∀ hs ts x v, Inv hs ts → hs.hregs h = some x → Inv (hs.setH h v) (ts.setReg r v)) :
    ∀ (k : Nat) (hs : HSt) (ts : St) (hs' : HSt), Inv hs ts →
      iterUntil bodyH cleanH ef ev h N k hs = some hs' →
      ∃ ts', Steps p (ts, n + 2) (ts', n + 7 + lb + lk + lc) ∧ Inv hs' ts' := by
  intro k
  induction k with
  | zero => intro hs ts hs' _ hi; simp [iterUntil] at hi
  | succ k ih =>
    intro hs ts hs' hinv hi
    simp only [iterUntil] at hi
    split at hi
    · cases hi
    · rename_i i hhi
      have hr := hreg hs ts i hinv hhi
      have e7 : n + 7 + lb + lk + lc = n + 6 + lb + lk + lc + 1 := by omega
      split at hi
      · rename_i hmax
        cases hi
        have : step p (ts, n + 2) = some (ts, n + 6 + lb + lk + lc + 1) := by
          rw [step_instr ts U.h2]
          simp [exec, hr, hmax, brTaken2, goto, U.flx]
        exact ⟨ts, by rw [e7]; exact Steps.one this, hinv⟩
      · rename_i hmax
        have s0 : step p (ts, n + 2) = some (ts, n + 3) := by
          rw [step_instr ts U.h2]
          simp [exec, hr, hmax, brTaken2, goto, U.flx]
        split at hi
        · cases hi
        · rename_i hs1 hb
          obtain ⟨ts1, hrun1, hinv1⟩ := hbody hs ts hs1 hinv hb
          split at hi
          case h_1 => cases hi
          split at hi
          · cases hi
          · rename_i v hv
            obtain ⟨ts2, hrun2, hinv2, hop⟩ := hbrk hs1 ts1 v hinv1 hv
            unfold Runs at hrun1 hrun2
            split at hi
            · rename_i hle
              cases hi
              have sb : step p (ts2, n + 3 + lb + lk) = some (ts2, n + 6 + lb + lk + lc + 1) := by
                rw [step_instr ts2 U.hbrk]
                simp [exec, hop, break_at_most, hle, goto, U.flx]
              exact ⟨ts2, by
                rw [e7]
                exact Steps.next s0 (Steps.trans hrun1 (Steps.trans hrun2 (Steps.one sb))), hinv2⟩
            · rename_i hle
              split at hi
              · cases hi
              · rename_i hs2 hc
                split at hi
                · cases hi
                · rename_i i2 hi2
                  have sb : step p (ts2, n + 3 + lb + lk) = some (ts2, n + 3 + lb + lk + 1) := by
                    rw [step_instr ts2 U.hbrk]
                    simp [exec, hop, break_at_most, hle, goto, U.flx]
                  obtain ⟨ts3, hrun3, hinv3⟩ := hclean hs1 ts2 hs2 hinv2 hc
                  unfold Runs at hrun3
                  have hr3 := hreg hs2 ts3 i2 hinv3 hi2
                  have sa : step p (ts3, n + 4 + lb + lk + lc)
                      = some (ts3.setReg r (i2 + 1), n + 4 + lb + lk + lc + 1) := by
                    rw [step_instr ts3 U.h3]
                    simp [exec, hr3]
                  have sj : step p (ts3.setReg r (i2 + 1), n + 5 + lb + lk + lc)
                      = some (ts3.setReg r (i2 + 1), n + 1 + 1) := by
                    rw [step_instr _ U.h4]
                    simp [exec, goto, U.fle]
                  have e1 : n + 3 + lb + lk + 1 = n + 4 + lb + lk := by omega
                  have e2 : n + 4 + lb + lk + lc + 1 = n + 5 + lb + lk + lc := by omega
                  rw [e1] at sb; rw [e2] at sa
                  obtain ⟨ts', hst, hinv'⟩ := ih _ _ hs' (hupd hs2 ts3 i2 (i2 + 1) hinv3 hi2) hi
                  exact ⟨ts', Steps.next s0 (Steps.trans hrun1 (Steps.trans hrun2 (Steps.next sb
                    (Steps.trans hrun3 (Steps.next sa (Steps.next sj hst)))))), hinv'⟩

/-! ## the shapes as placed code -/

theorem loopAt_of_placed {p : List PCmd} {n : Nat} {r : Reg} {start stop stp : Int} {le lx : Lbl}
    {body : List PCmd} (h : Placed p n (loopCode r start stop stp le lx body)) :
    LoopAt p n body.length r start stop stp le lx := by
  unfold loopCode at h
  have hA := h.left.left
  have hC := h.right
  have e3 : ([PCmd.instr .set [.reg r, .lit start], .label le, .instr .beq [.reg r, .lit stop, .lab lx]]
      ++ body).length = 3 + body.length := by simp; omega
  rw [e3] at hC
  refine ⟨hA.head, ?_, ?_, ?_, ?_, ?_, ?_, ?_⟩
  · exact hA.tail.head
  · exact hA.tail.tail.head
  · have := hC.head; rwa [show n + (3 + body.length) = n + 3 + body.length by omega] at this
  · have := hC.tail.head; rwa [show n + (3 + body.length) + 1 = n + 4 + body.length by omega] at this
  · have := hC.tail.tail.head
    rwa [show n + (3 + body.length) + 1 + 1 = n + 5 + body.length by omega] at this
  · exact hA.tail.label
  · have := hC.tail.tail.label
    rwa [show n + (3 + body.length) + 1 + 1 = n + 5 + body.length by omega] at this

theorem untilAt_of_placed {p : List PCmd} {n : Nat} {r : Reg} {N : Int} {o : POp} {ev : Int} {le lx : Lbl}
    {body ld cl : List PCmd}
    (h : Placed p n (loopUntilEntry r N le lx ++ body ++ (ld ++ [.instr .blt [o, .lit (ev + 1), .lab lx]])
      ++ cl ++ loopUntilExit r le lx)) :
    UntilAt p n body.length ld.length cl.length r N o ev le lx := by
  have hE := h.left.left.left.left
  have hK := h.left.left.right
  have hX := h.right
  unfold loopUntilEntry at hE
  unfold loopUntilExit at hX
  have eK : (loopUntilEntry r N le lx ++ body).length = 3 + body.length := by simp [loopUntilEntry]; omega
  have eX : (loopUntilEntry r N le lx ++ body ++ (ld ++ [PCmd.instr .blt [o, .lit (ev + 1), .lab lx]]) ++ cl).length
      = 4 + body.length + ld.length + cl.length := by simp [loopUntilEntry]; omega
  rw [eK] at hK
  rw [eX] at hX
  have hB := hK.right.head
  refine ⟨hE.head, hE.tail.head, hE.tail.tail.head, ?_, ?_, ?_, ?_, hE.tail.label, ?_⟩
  · rwa [show n + (3 + body.length) + ld.length = n + 3 + body.length + ld.length by omega] at hB
  · have := hX.head
    rwa [show n + (4 + body.length + ld.length + cl.length) = n + 4 + body.length + ld.length + cl.length by omega] at this
  · have := hX.tail.head
    rwa [show n + (4 + body.length + ld.length + cl.length) + 1 = n + 5 + body.length + ld.length + cl.length by omega] at this
  · have := hX.tail.tail.head
    rwa [show n + (4 + body.length + ld.length + cl.length) + 1 + 1 = n + 6 + body.length + ld.length + cl.length by omega] at this
  · have := hX.tail.tail.label
    rwa [show n + (4 + body.length + ld.length + cl.length) + 1 + 1 = n + 6 + body.length + ld.length + cl.length by omega] at this

end NQ.Sdk
