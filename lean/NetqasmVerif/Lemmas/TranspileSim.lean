/-
The simulation: one step of the vanilla subroutine is matched by the steps of the serialised NV
subroutine through the corresponding chunk; the relation is preserved.
-/
import NetqasmVerif.Lemmas.TranspileSem
namespace NQ.Tr
open NQ

/-- the registers `get_unused_register` hands out at some two-qubit gate of `S` (all in the Q bank) -/
def ScratchSet (cfg : Cfg) (S : List Instr) (r : Reg) : Prop :=
  ∃ p x, S[p]? = some x ∧ isGate2 cfg x = true ∧ getUnused ((S.take (p + 1)).flatMap topRegs) = .ok r

/-- the simulation relation at vanilla position `pc`: same memory (arrays, quantum state, …),
same registers except Q registers the pass borrows as scratch somewhere in the program, and every Q
register the program can read here (inside a window) — borrowed or not — holds the window's value in
both machines -/
structure Rel {μ : Type} (cfg : Cfg) (S : List Instr) (pc : Nat) (s u : St μ) : Prop where
  mem : s.mem = u.mem
  /-- all registers agree, except possibly Q registers that the pass borrows somewhere in `S` -/
  outside : ∀ r, (r.bank ≠ bankQ ∨ ¬ ScratchSet cfg S r) → s.regs r = u.regs r
  known : ∀ r v, K cfg S pc r = some v → s.regs r = some v ∧ u.regs r = some v

theorem Rel.init {μ : Type} (cfg : Cfg) (S : List Instr) (s : St μ) : Rel cfg S 0 s s :=
  ⟨rfl, fun _ _ => rfl, fun r v h => by rw [K_zero] at h; cases h⟩

theorem topRegs_sub_regsOf (x : Instr) : ∀ r ∈ topRegs x, r ∈ regsOf x := by
  intro r hr
  unfold topRegs at hr
  obtain ⟨o, ho, hro⟩ := List.mem_filterMap.1 hr
  unfold regsOf
  refine List.mem_flatMap.2 ⟨o, ho, ?_⟩
  cases o <;> simp [opReg?] at hro
  subst hro; simp [regsOfOperand]

theorem not_scratchSet_of_not_mem {cfg : Cfg} {S : List Instr} {r : Reg} (h : r ∉ scratchRegs cfg S) :
    ¬ ScratchSet cfg S r := by
  intro ⟨p, x, hx, hg2, hg⟩
  apply h
  unfold scratchRegs
  have hp : p < S.length := (List.getElem?_eq_some_iff.1 hx).1
  exact List.mem_filterMap.2 ⟨p, List.mem_range.2 hp, by simp [hx, hg2, hg]⟩

/-- on a `QStatic` program, both machines agree on every register a non-`set` instruction names -/
theorem regs_agree {μ : Type} {cfg : Cfg} {S : List Instr} {pc : Nat} {s u : St μ} {x : Instr}
    (hR : Rel cfg S pc s u) (hq : qstaticAt cfg (targets cfg S) (scratchRegs cfg S) (S.take pc).reverse x = true)
    (hs : setOf cfg x = none) : ∀ r ∈ regsOf x, s.regs r = u.regs r := by
  intro r hr
  unfold qstaticAt at hq
  simp only [hs, Option.isSome_none, Bool.false_or, Bool.and_eq_true, List.all_eq_true] at hq
  have := hq.1 r hr
  by_cases hb : r.bank = bankQ
  · simp only [hb, bne_self_eq_false, Bool.false_or, Bool.or_eq_true, Bool.and_eq_true,
      Bool.not_eq_eq_eq_not, Bool.not_true] at this
    rcases this with hw | ⟨_, hsc⟩
    · obtain ⟨v, hv⟩ := Option.isSome_iff_exists.1 hw
      have := hR.known r v hv
      rw [this.1, this.2]
    · have hnm : r ∉ scratchRegs cfg S := by
        intro hm
        rw [List.contains_iff_mem.2 hm] at hsc
        cases hsc
      exact hR.outside r (Or.inr (not_scratchSet_of_not_mem hnm))
  · exact hR.outside r (Or.inl hb)

theorem known_of_qstatic {cfg : Cfg} {S : List Instr} {pc : Nat} {x : Instr}
    (hq : qstaticAt cfg (targets cfg S) (scratchRegs cfg S) (S.take pc).reverse x = true) (hs : setOf cfg x = none)
    (hg : isGate cfg x = true)
    {r : Reg} (hr : r ∈ regsOf x) (hb : r.bank = bankQ) : ∃ v, K cfg S pc r = some v := by
  unfold qstaticAt at hq
  simp only [hs, Option.isSome_none, Bool.false_or, Bool.and_eq_true, List.all_eq_true] at hq
  have := hq.1 r hr
  simp only [hb, bne_self_eq_false, Bool.false_or, hg, Bool.not_true, Bool.false_and, Bool.or_false] at this
  exact Option.isSome_iff_exists.1 this

theorem win_mem_used {cfg : Cfg} {tg : List Int} {r : Reg} : ∀ (pre : List Instr) (v : Int),
    win cfg tg r pre = some v → ∃ x ∈ pre, r ∈ topRegs x := by
  intro pre
  induction pre with
  | nil => intro v h; simp [win] at h
  | cons x pre ih =>
    intro v h
    unfold win at h
    split at h
    · cases h
    · split at h
      · rename_i r' v' hs
        by_cases he : r' = r
        · subst he
          refine ⟨x, List.mem_cons_self, ?_⟩
          unfold setOf at hs
          split at hs
          · split at hs
            · split at hs
              · rename_i r1 v1 hops
                simp only [Option.some.injEq, Prod.mk.injEq] at hs
                simp [topRegs, hops, opReg?, hs.1]
              · cases hs
            · cases hs
          · cases hs
        · simp only [he, ↓reduceIte] at h
          obtain ⟨y, hy, hr⟩ := ih v h
          exact ⟨y, List.mem_cons_of_mem _ hy, hr⟩
      · split at h
        · cases h
        · obtain ⟨y, hy, hr⟩ := ih v h
          exact ⟨y, List.mem_cons_of_mem _ hy, hr⟩

/-- **scratch_ok (syntactic core)**: a register that is inside a window at `pc` was named by an
instruction before `pc`, hence is never the register `get_unused_register` hands out at or after -/
theorem K_mem_used {cfg : Cfg} {S : List Instr} {pc : Nat} {r : Reg} {v : Int}
    (h : K cfg S pc r = some v) : r ∈ (S.take pc).flatMap topRegs := by
  obtain ⟨x, hx, hr⟩ := win_mem_used _ v h
  exact List.mem_flatMap.2 ⟨x, by simpa using hx, hr⟩

theorem lineOf_setLine {cfg : Cfg} {x : Instr} {t : Int} (h : lineOf cfg x = some t) (w : Int) :
    lineOf cfg (setLine cfg x w) = some w := by
  unfold lineOf at h
  unfold lineOf setLine
  cases hi : infoOf cfg x.cls with
  | none => rw [hi] at h; cases h
  | some info =>
    rw [hi] at h
    simp only at h ⊢
    rw [hi]
    simp only
    split at h
    · rename_i hb
      simp only [hb, ↓reduceIte]
      split at h
      · rename_i v hv
        have hlt : info.lineIx < x.ops.length := (List.getElem?_eq_some_iff.1 hv).1
        simp [List.getElem?_set_self hlt]
      · cases h
    · cases h

theorem tposS_succ (cs : List (List Instr)) (p : Nat) (hp : p < cs.length) :
    tposS cs (p + 1) = tposS cs p + slen cs[p] := by
  unfold tposS
  rw [← List.take_append_getElem hp, List.flatten_append, slen_append]
  simp

theorem setOf_none_of_gate {cfg : Cfg} (hW : InfosWF cfg = true) {x : Instr} (hg : isGate cfg x = true) :
    setOf cfg x = none ∧ writesOf cfg x = [] := by
  unfold isGate at hg
  unfold setOf writesOf
  cases hi : infoOf cfg x.cls with
  | none => rw [hi] at hg; cases hg
  | some info =>
    rw [hi] at hg
    simp only at hg ⊢
    have hw := (List.all_eq_true.1 hW) info (infoOf_cls hi).1
    simp only [Bool.and_eq_true, Bool.or_eq_true, Bool.not_eq_eq_eq_not, Bool.not_true,
      List.isEmpty_iff] at hw
    have hg' : info.gate1 = true ∨ info.gate2 = true := by simpa using hg
    have hset : info.isSet = false := by
      rcases hw.1.1.2 with h | h
      · exact h
      · rcases hg' with g | g <;> simp [g] at h
    have hwr : info.writes = [] := by
      rcases hw.2 with h | h
      · rcases hg' with g | g <;> simp [g] at h
      · exact h
    simp [hset, hwr]

theorem setOf_none_of_line {cfg : Cfg} (hW : InfosWF cfg = true) {x : Instr} {t : Int}
    (hl : lineOf cfg x = some t) : setOf cfg x = none := by
  unfold lineOf at hl
  unfold setOf
  cases hi : infoOf cfg x.cls with
  | none => rfl
  | some info =>
    rw [hi] at hl
    simp only at hl ⊢
    have hw := (List.all_eq_true.1 hW) info (infoOf_cls hi).1
    simp only [Bool.and_eq_true, Bool.or_eq_true, Bool.not_eq_eq_eq_not, Bool.not_true] at hw
    by_cases hb : info.branch = true
    · rcases hw.1.1.2 with h | h
      · simp [h]
      · simp [hb] at h
    · simp [hb] at hl

theorem mem_targets {cfg : Cfg} {S : List Instr} {p : Nat} {x : Instr} {t : Int}
    (hx : S[p]? = some x) (hl : lineOf cfg x = some t) : t ∈ targets cfg S := by
  unfold targets
  exact List.mem_filterMap.2 ⟨x, List.mem_of_getElem? hx, hl⟩

end NQ.Tr

namespace NQ.Tr
open NQ

/-- everything the simulation is proved under, for one successful run of the pass -/
structure Ctx {μ : Type} (M : Sem μ) (cfg : Cfg) (S out : List Instr) (cs : List (List Instr)) : Prop where
  hT : TemplatesNoBranch cfg = true
  hW : InfosWF cfg = true
  hpad : isDebug cfg.pad = false
  hL : SemLocal M cfg
  hE : ExpandSound M cfg
  hQ : QStatic cfg S = true
  hc : Chunks cfg [] [] S cs
  hout : out = cs.flatten.map (patchOf cfg S cs) ++ (if endTargeted cfg S cs then [cfg.pad] else [])
  hok : ∀ i ∈ cs.flatten, ∃ i' fl, retargetOne cfg S.length (starts 0 cs) (slen cs.flatten) i = .ok (i', fl)

/-- the serialised output has the single patched instruction of a non-gate chunk at its index -/
theorem nv_single {μ : Type} {M : Sem μ} {cfg : Cfg} {S out : List Instr} {cs : List (List Instr)}
    (C : Ctx M cfg S out cs) {pc : Nat} (hp : pc < cs.length) {x : Instr} (hch : cs[pc] = [x])
    (hnd : isDebug x = false) : (serialise out)[tposS cs pc]? = some (patchOf cfg S cs x) := by
  obtain ⟨pre, post, h1, h2⟩ := code_at (cfg := cfg) (S := S) C.hpad pc hp
  rw [C.hout, h1, hch]
  have : isDebug (patchOf cfg S cs x) = false := by
    unfold patchOf isDebug; rw [patchOne_cls]; exact hnd
  simp [serialise, this, ← h2]

theorem Ctx.chunk_nongate {μ : Type} {M : Sem μ} {cfg : Cfg} {S out : List Instr} {cs : List (List Instr)}
    (C : Ctx M cfg S out cs) {pc : Nat} {x : Instr} (hx : S[pc]? = some x) (hng : isGate cfg x = false) :
    ∃ hp : pc < cs.length, cs[pc] = [x] ∧ isDebug x = false := by
  obtain ⟨hp, hxe⟩ := List.getElem?_eq_some_iff.1 hx
  have hlen := C.hc.length_eq
  have hp' : pc < cs.length := by omega
  refine ⟨hp', ?_, ?_⟩
  · rcases C.hc.chunk_cases C.hT pc hp hp' with ⟨hg, _⟩ | ⟨_, hcp⟩
    · rw [hxe, hng] at hg; cases hg
    · rw [hcp, hxe]
  · obtain ⟨info, hi, _⟩ := C.hc.at pc hp
    rw [hxe] at hi
    exact not_debug_of_info C.hW hi

/-- **one vanilla step is simulated** -/
theorem sim_step {μ : Type} {M : Sem μ} {cfg : Cfg} {S out : List Instr} {cs : List (List Instr)}
    (C : Ctx M cfg S out cs) {pc pc' : Nat} {s s' u : St μ}
    (hstep : Step M cfg S (pc, s) (pc', s')) (hR : Rel cfg S pc s u) :
    ∃ u', Steps M cfg (serialise out) (tposS cs pc, u) (tposS cs pc', u') ∧ Rel cfg S pc' s' u' := by
  have hlen := C.hc.length_eq
  cases hstep with
  | exec hx hl he =>
    rename_i x
    obtain ⟨hp, hxe⟩ := List.getElem?_eq_some_iff.1 hx
    have hp' : pc < cs.length := by omega
    have hqs := qstatic_at C.hQ hx
    cases hg : isGate cfg x with
    | true =>
      -- a gate: run its expansion
      obtain ⟨hsn, hwn⟩ := setOf_none_of_gate C.hW hg
      obtain ⟨info, hi, _, hex⟩ := C.hc.at pc hp
      rw [hxe] at hi hex
      have hgi : infoGate info = true := by rw [← isGate_eq hi]; exact hg
      have hnl : ∀ y ∈ cs[pc], lineOf cfg y = none := expandInstr_gate_noLine C.hT hgi hex
      have hagree := regs_agree hR hqs hsn
      have hrv : rvAfter cfg [] (S.take (pc + 1)) = rvAfter cfg [] (S.take pc) := by
        rw [take_succ_of_get hx, rvAfter_snoc, hsn]
      have hkeys : ∀ q ∈ rvAfter cfg [] (S.take pc), q.1.bank = bankQ :=
        rvAfter_bankQ cfg _ [] (fun _ h => by cases h)
      have hknow : ∀ r ∈ topRegs x, ∀ v, (rvAfter cfg [] (S.take (pc + 1))).lookup r = some v →
          s.regs r = some v := by
        intro r hr v hv
        rw [hrv] at hv
        by_cases hb : r.bank = bankQ
        · obtain ⟨v', hv'⟩ := known_of_qstatic hqs hsn hg (topRegs_sub_regsOf x r hr) hb
          have := win_lookup hb _ v' hv'
          rw [List.reverse_reverse, hv] at this
          simp only [Option.some.injEq] at this
          subst this
          exact (hR.known r v hv').1
        · rw [lookup_none_of_bank hkeys hb] at hv; cases hv
      have hall : info.gate2 = true →
          (∀ r ∈ topRegs x, ((rvAfter cfg [] (S.take (pc + 1))).lookup r).isSome = true) ∨
          (info.tag = "mov" ∧ ∃ r0 rest, x.ops = .reg r0 :: rest ∧ s.regs r0 = some 0) := by
        intro h2
        rw [hrv]
        have hq2 := hqs
        unfold qstaticAt at hq2
        simp only [hsn, Option.isSome_none, Bool.false_or, Bool.and_eq_true] at hq2
        have hg2 : isGate2 cfg x = true := by simp [isGate2, hi, h2]
        have hcl := hq2.2
        simp only [hg2, Bool.not_true, Bool.false_or, Bool.or_eq_true] at hcl
        rcases hcl with hallQ | hmv
        · left
          intro r hr
          have hb : r.bank = bankQ := by
            simpa using (List.all_eq_true.1 hallQ) r hr
          obtain ⟨v', hv'⟩ := known_of_qstatic hqs hsn hg (topRegs_sub_regsOf x r hr) hb
          have := win_lookup hb _ v' hv'
          rw [List.reverse_reverse] at this
          rw [this]; rfl
        · right
          unfold movFromElectron at hmv
          simp only [Bool.and_eq_true] at hmv
          obtain ⟨ht, hw⟩ := hmv
          refine ⟨by simpa [isMovTag, hi] using ht, ?_⟩
          split at hw
          · rename_i r0 rest hops
            have hk : K cfg S pc r0 = some 0 := by simpa [K] using hw
            exact ⟨r0, rest, hops, (hR.known r0 0 hk).1⟩
          · cases hw
      have hused : ∀ r ∈ topRegs x, r ∈ ([] : List Reg) ++ (S.take (pc + 1)).flatMap topRegs := by
        intro r hr
        rw [take_succ_of_get hx]
        simp only [List.nil_append, List.flatMap_append, List.mem_append]
        exact Or.inr (by simpa using hr)
      obtain ⟨u', hrun, hmem, hregs⟩ := C.hE x info _ _ _ s u s' hi hgi hex hused hknow hall hR.mem
        (fun r hr => hagree r (topRegs_sub_regsOf x r hr)) he
      -- embed the straight run
      obtain ⟨pre, post, h1, h2⟩ := code_at (cfg := cfg) (S := S) C.hpad pc hp'
      have hid : cs[pc].map (patchOf cfg S cs) = cs[pc] := by
        have : ∀ y ∈ cs[pc], patchOf cfg S cs y = id y := fun y hy => patchOne_noLine (hnl y hy)
        rw [List.map_congr_left this, List.map_id]
      rw [hid] at h1
      have hser_nl : ∀ y ∈ serialise cs[pc], lineOf cfg y = none := by
        intro y hy
        exact hnl y (List.mem_filter.1 hy).1
      have hsteps := steps_of_straight (cfg := cfg) (serialise cs[pc]) pre post u u' hser_nl hrun
      rw [← h1, ← C.hout, h2] at hsteps
      have hpos : tposS cs pc + (serialise cs[pc]).length = tposS cs (pc + 1) := by
        rw [tposS_succ cs pc hp']; rfl
      rw [hpos] at hsteps
      refine ⟨u', hsteps, ⟨hmem, ?_, ?_⟩⟩
      · intro r hb
        have h1' : s'.regs r = s.regs r := C.hL.frame x s s' r he (by rw [hwn]; simp)
        have h2' : u'.regs r = u.regs r := by
          apply hregs
          intro hg2' s0 hs0 heq
          rcases hb with hb | hb
          · exact hb (heq ▸ (getUnused_fresh hs0).2)
          · exact hb ⟨pc, x, hx, by simp [isGate2, hi, hg2'], by simpa [heq] using hs0⟩
        rw [h1', h2']; exact hR.outside r hb
      · intro r v hk
        rw [K_succ hx, hsn, hwn] at hk
        split at hk
        · cases hk
        · simp only [List.contains_nil, Bool.false_eq_true, ↓reduceIte] at hk
          have hkn := hR.known r v hk
          have h1' : s'.regs r = s.regs r := C.hL.frame x s s' r he (by rw [hwn]; simp)
          have h2' : u'.regs r = u.regs r := by
            apply hregs
            intro _ s0 hs0 heq
            have hmu := K_mem_used hk
            have hfresh := (getUnused_fresh hs0).1
            apply hfresh
            rw [heq] at hmu
            rw [take_succ_of_get hx]
            simp only [List.nil_append, List.flatMap_append, List.mem_append]
            exact Or.inl hmu
          rw [h1', h2']; exact hkn
    | false =>
      obtain ⟨hp', hch, hnd⟩ := C.chunk_nongate hx hg
      have hpatch : patchOf cfg S cs x = x := patchOne_noLine hl
      have hnv := nv_single C hp' hch hnd
      rw [hpatch] at hnv
      have hpos : tposS cs (pc + 1) = tposS cs pc + 1 := by
        rw [tposS_succ cs pc hp', hch]; simp [slen, serialise, hnd]
      rw [hpos]
      cases hs : setOf cfg x with
      | some q =>
        obtain ⟨r0, v0⟩ := q
        obtain ⟨s1, hs1, hm1, hr1⟩ := C.hL.setSem x r0 v0 s hs
        obtain ⟨u1, hu1, hmu1, hru1⟩ := C.hL.setSem x r0 v0 u hs
        rw [he] at hs1
        simp only [Option.some.injEq] at hs1
        subst hs1
        refine ⟨u1, Steps.step (Step.exec hnv hl hu1) (Steps.refl _), ⟨?_, ?_, ?_⟩⟩
        · rw [hm1, hmu1]; exact hR.mem
        · intro r hb
          rw [hr1 r, hru1 r]
          split
          · rfl
          · exact hR.outside r hb
        · intro r v hk
          rw [K_succ hx, hs] at hk
          split at hk
          · cases hk
          · simp only at hk
            rw [hr1 r, hru1 r]
            by_cases hrr : r0 = r
            · simp only [hrr, ↓reduceIte, Option.some.injEq] at hk
              subst hrr
              simp [hk]
            · simp only [hrr, ↓reduceIte] at hk
              have : ¬ r = r0 := fun e => hrr e.symm
              simp only [this, ↓reduceIte]
              exact hR.known r v hk
      | none =>
        have hagree := regs_agree hR hqs hs
        obtain ⟨u1, hu1, hmem1, hw1⟩ := C.hL.loc x s u s' hR.mem hagree he
        refine ⟨u1, Steps.step (Step.exec hnv hl hu1) (Steps.refl _), ⟨hmem1, ?_, ?_⟩⟩
        · intro r hb
          by_cases hw : r ∈ writesOf cfg x
          · exact hw1 r hw
          · rw [C.hL.frame x s s' r he hw, C.hL.frame x u u1 r hu1 hw]; exact hR.outside r hb
        · intro r v hk
          rw [K_succ hx, hs] at hk
          split at hk
          · cases hk
          · simp only at hk
            split at hk
            · cases hk
            · rename_i hnw
              have hw : r ∉ writesOf cfg x := by
                intro hm; exact hnw (List.contains_iff_mem.2 hm)
              rw [C.hL.frame x s s' r he hw, C.hL.frame x u u1 r hu1 hw]
              exact hR.known r v hk
  | taken hx hl hcnd h0 =>
    rename_i x t
    have hng := not_gate_of_line C.hW hl
    obtain ⟨hp', hch, hnd⟩ := C.chunk_nongate hx hng
    have hmem : x ∈ cs.flatten :=
      List.mem_flatten.2 ⟨cs[pc], List.getElem_mem hp', by rw [hch]; exact List.mem_singleton.2 rfl⟩
    obtain ⟨_, hle, hpatch⟩ := patch_branch hlen hl (C.hok x hmem)
    have hnv := nv_single C hp' hch hnd
    rw [hpatch] at hnv
    have hs := setOf_none_of_line C.hW hl
    have hagree := regs_agree hR (qstatic_at C.hQ hx) hs
    have hc' : M.cond (setLine cfg x (tposS cs t.toNat)) u = some true := by
      rw [C.hL.condLine, ← C.hL.condLoc x s u hR.mem hagree]; exact hcnd
    have hstep := Step.taken (M := M) hnv (lineOf_setLine hl _) hc' (by omega)
    simp only [Int.toNat_natCast] at hstep
    refine ⟨u, Steps.step hstep (Steps.refl _), ⟨hR.mem, hR.outside, ?_⟩⟩
    intro r v hk
    rw [K_target (mem_targets hx hl) h0 hle] at hk
    cases hk
  | skip hx hl hcnd =>
    rename_i x t
    have hng := not_gate_of_line C.hW hl
    obtain ⟨hp', hch, hnd⟩ := C.chunk_nongate hx hng
    have hmem : x ∈ cs.flatten :=
      List.mem_flatten.2 ⟨cs[pc], List.getElem_mem hp', by rw [hch]; exact List.mem_singleton.2 rfl⟩
    obtain ⟨_, hle, hpatch⟩ := patch_branch hlen hl (C.hok x hmem)
    have hnv := nv_single C hp' hch hnd
    rw [hpatch] at hnv
    have hs := setOf_none_of_line C.hW hl
    have hagree := regs_agree hR (qstatic_at C.hQ hx) hs
    have hc' : M.cond (setLine cfg x (tposS cs t.toNat)) u = some false := by
      rw [C.hL.condLine, ← C.hL.condLoc x s u hR.mem hagree]; exact hcnd
    have hstep := Step.skip (M := M) hnv (lineOf_setLine hl _) hc'
    have hpos : tposS cs (pc + 1) = tposS cs pc + 1 := by
      rw [tposS_succ cs pc hp', hch]; simp [slen, serialise, hnd]
    rw [hpos]
    refine ⟨u, Steps.step hstep (Steps.refl _), ⟨hR.mem, hR.outside, ?_⟩⟩
    intro r v hk
    rw [K_succ hx, hs] at hk
    split at hk
    · cases hk
    · simp only at hk
      split at hk
      · cases hk
      · exact hR.known r v hk

end NQ.Tr

namespace NQ.Tr
open NQ

theorem sim_steps {μ : Type} {M : Sem μ} {cfg : Cfg} {S out : List Instr} {cs : List (List Instr)}
    (C : Ctx M cfg S out cs) : ∀ {a b : Nat × St μ}, Steps M cfg S a b → ∀ u, Rel cfg S a.1 a.2 u →
    ∃ u', Steps M cfg (serialise out) (tposS cs a.1, u) (tposS cs b.1, u') ∧ Rel cfg S b.1 b.2 u' := by
  intro a b h
  induction h with
  | refl a => intro u hR; exact ⟨u, Steps.refl _, hR⟩
  | step hs _ ih =>
    rename_i a b c
    intro u hR
    obtain ⟨pc, s⟩ := a
    obtain ⟨pc', s'⟩ := b
    obtain ⟨u1, h1, hR1⟩ := sim_step C hs hR
    obtain ⟨u2, h2, hR2⟩ := ih u1 hR1
    exact ⟨u2, h1.trans h2, hR2⟩

/-- the final step through the padding instruction, when it was appended -/
theorem final_pad {μ : Type} {M : Sem μ} {cfg : Cfg} {S out : List Instr} {cs : List (List Instr)}
    (C : Ctx M cfg S out cs) (hpl : lineOf cfg cfg.pad = none) {rp : Reg} {vp : Int}
    (hps : setOf cfg cfg.pad = some (rp, vp)) (u : St μ) :
    ∃ u', Steps M cfg (serialise out) (tposS cs S.length, u) ((serialise out).length, u') ∧ u'.mem = u.mem ∧
      ∀ r, (endTargeted cfg S cs = false ∨ r ≠ rp) → u'.regs r = u.regs r := by
  have hlen := C.hc.length_eq
  cases he : endTargeted cfg S cs with
  | false =>
    refine ⟨u, ?_, rfl, fun _ _ => rfl⟩
    have : (serialise out).length = tposS cs S.length := by
      rw [C.hout, serialise_out_eq C.hpad, he, ← hlen, tposS_all]
      simp [slen]
    rw [this]; exact Steps.refl _
  | true =>
    obtain ⟨pre, h1, h2⟩ := pad_at (cfg := cfg) (S := S) C.hpad he
    obtain ⟨u1, hu1, hm1, hr1⟩ := C.hL.setSem cfg.pad rp vp u hps
    have hN : serialise out = pre ++ [cfg.pad] := by rw [C.hout]; exact h1
    have hget : (serialise out)[tposS cs S.length]? = some cfg.pad := by
      rw [hN, ← hlen, ← h2]; simp
    have hl : (serialise out).length = tposS cs S.length + 1 := by
      rw [hN, ← hlen, ← h2]; simp
    rw [hl]
    refine ⟨u1, Steps.step (Step.exec hget hpl hu1) (Steps.refl _), hm1, ?_⟩
    intro r hr
    rcases hr with h | h
    · cases h
    · rw [hr1 r]; simp [h]

end NQ.Tr
