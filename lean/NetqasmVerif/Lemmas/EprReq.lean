/-
Lemmas for C11: request round trip by symbolic evaluation over the generated tables; result slices.
-/
import NetqasmVerif.Model.EprReq
import NetqasmVerif.Lemmas.EprReqSpec
import NetqasmVerif.Lemmas.EprInv
namespace NQ.EprReq
open NQ.Gen.Epr

theorem roundtrip_K (remote purpose : Int) (p : ReqParams) :
    (serializeReq 0 p).bind (getCreateRequest remote purpose) = some (expectedCreate 0 remote purpose p) := by
  by_cases hm : p.maxTime = 0 <;>
  simp [serializeReq, put, lookupNat, lookupInt, serCreate, serCreateLen, eprType, hm, getCreateRequest,
    createFields, createDefaults, fillDefaults, convField, toReqType, toRandBasis, requestType,
    expectedCreate, List.replicate, List.set]

set_option maxRecDepth 8000 in
theorem roundtrip_MR (tp : Int) (htp : tp = 1 ∨ tp = 2) (remote purpose : Int) (p : ReqParams)
    (hl : ValidRB p.rbl) (hr : ValidRB p.rbr) :
    (serializeReq tp p).bind (getCreateRequest remote purpose) = some (expectedCreate tp remote purpose p) := by
  obtain ⟨number, timeUnit, maxTime, rbl, rbr, rotL, rotR⟩ := p
  have hl' : ∀ x, rbl = some x → isRandBasis x = true := hl
  have hr' : ∀ x, rbr = some x → isRandBasis x = true := hr
  clear hl hr
  have hx : ∀ x, rbl = some x → isRandBasis x = true := hl'
  have hy : ∀ y, rbr = some y → isRandBasis y = true := hr'
  clear hl' hr'
  cases rbl with
  | none =>
    cases rbr with
    | none =>
      rcases htp with rfl | rfl <;>
      by_cases hm : maxTime = 0 <;>
      by_cases hL : rotL = (0, 0, 0) <;>
      by_cases hR : rotR = (0, 0, 0) <;>
      simp [serializeReq, put, lookupNat, lookupInt, serCreate, serCreateLen, eprType, hm, hL, hR,
        getCreateRequest, createFields, createDefaults, fillDefaults, convField, toReqType, toRandBasis,
        requestType, expectedCreate, List.replicate, List.set]
    | some y =>
      have hy' := hy y rfl
      rcases htp with rfl | rfl <;>
      by_cases hm : maxTime = 0 <;>
      by_cases hL : rotL = (0, 0, 0) <;>
      by_cases hR : rotR = (0, 0, 0) <;>
      simp [serializeReq, put, lookupNat, lookupInt, serCreate, serCreateLen, eprType, hm, hL, hR,
        getCreateRequest, createFields, createDefaults, fillDefaults, convField, toReqType, toRandBasis,
        requestType, expectedCreate, List.replicate, List.set, hy']
  | some x =>
    have hx' := hx x rfl
    cases rbr with
    | none =>
      rcases htp with rfl | rfl <;>
      by_cases hm : maxTime = 0 <;>
      by_cases hL : rotL = (0, 0, 0) <;>
      by_cases hR : rotR = (0, 0, 0) <;>
      simp [serializeReq, put, lookupNat, lookupInt, serCreate, serCreateLen, eprType, hm, hL, hR,
        getCreateRequest, createFields, createDefaults, fillDefaults, convField, toReqType, toRandBasis,
        requestType, expectedCreate, List.replicate, List.set, hx']
    | some y =>
      have hy' := hy y rfl
      rcases htp with rfl | rfl <;>
      by_cases hm : maxTime = 0 <;>
      by_cases hL : rotL = (0, 0, 0) <;>
      by_cases hR : rotR = (0, 0, 0) <;>
      simp [serializeReq, put, lookupNat, lookupInt, serCreate, serCreateLen, eprType, hm, hL, hR,
        getCreateRequest, createFields, createDefaults, fillDefaults, convField, toReqType, toRandBasis,
        requestType, expectedCreate, List.replicate, List.set, hx', hy']

end NQ.EprReq

namespace NQ.EprReq
open NQ.Gen.Epr

/-- after storing responses `rs` at pair indices `k, k+1, …`: entry `(k+i)·okf + j` holds field `j` of
response `i`; entries below `k·okf` are untouched. For lists of ANY length. -/
theorem storeAll_get {okf : Nat} : ∀ (rs : List (List Int)) (arr arr' : List (Option Int)) (k : Nat),
    (∀ r ∈ rs, r.length = okf) → storeAll okf arr k rs = some arr' →
    (∀ i r, rs[i]? = some r → ∀ j v, r[j]? = some v → arr'[(k + i) * okf + j]? = some (some v)) ∧
    (∀ x, x < k * okf → arr'[x]? = arr[x]?) := by
  intro rs
  induction rs with
  | nil =>
    intro arr arr' k _ h
    simp [storeAll] at h
    subst h
    exact ⟨by intro i r hr; simp at hr, fun _ _ => rfl⟩
  | cons r0 rs ih =>
    intro arr arr' k hlen h
    unfold storeAll at h
    split at h
    · cases h
    · rename_i a1 h1
      have hspec := Epr.storeSlice_spec (by simpa [storeEntInfo] using h1)
      obtain ⟨ih1, ih2⟩ := ih a1 arr' (k + 1) (fun r hr => hlen r (by simp [hr])) h
      have hl0 : r0.length = okf := hlen r0 (by simp)
      refine ⟨?_, ?_⟩
      · intro i r hr j v hv
        cases i with
        | zero =>
          simp only [List.getElem?_cons_zero, Option.some.injEq] at hr
          subst hr
          have hj : j < r0.length := by
            rcases Nat.lt_or_ge j r0.length with h | h
            · exact h
            · rw [List.getElem?_eq_none h] at hv; cases hv
          have hx : (k + 0) * okf + j < (k + 1) * okf := by
            rw [Nat.add_zero, Nat.add_mul]; omega
          rw [ih2 _ hx, Nat.add_zero, hspec.2.1 j hj, hv]
          rfl
        | succ i =>
          simp only [List.getElem?_cons_succ] at hr
          have := ih1 i r hr j v hv
          have e : (k + (i + 1)) * okf = (k + 1 + i) * okf := by congr 1; omega
          rw [e]; exact this
      · intro x hx
        have hx' : x < (k + 1) * okf := by rw [Nat.add_mul]; omega
        rw [ih2 x hx', hspec.2.2 x (Or.inl hx)]

end NQ.EprReq
