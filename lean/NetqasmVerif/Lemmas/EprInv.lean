/-
Invariants of the EPR bookkeeping model (for C12).
-/
import NetqasmVerif.Lemmas.Epr
namespace NQ.Epr

/-! ### (i) exactly once -/

def ExactlyOnce (s : State) : Prop :=
  (s.pending ++ s.log.map (·.resp)).Perm s.delivered ∧
  s.delivered.map (·.id) = List.range s.nextResp

theorem Consumed.fields {okf : Nat} {s s' : State} {r : Resp} (h : Consumed okf s r s') :
    s'.pending = s.pending ∧ s'.nextReq = s.nextReq ∧ s'.nextResp = s.nextResp ∧ s'.issued = s.issued ∧
    s'.delivered = s.delivered ∧ s'.nodeId = s.nodeId ∧ s'.subs = s.subs ∧
    ∃ e : Event, s'.log = s.log ++ [e] ∧ e.resp = r ∧ e.key = keyOf s.nodeId r := by
  obtain ⟨hd, rest, app, m, m1, used1, vq, prev, arr, arr', _, _, _, _, _, _, _, _, _, hs⟩ := h.ex
  subst hs
  exact ⟨rfl, rfl, rfl, rfl, rfl, rfl, rfl, _, rfl, rfl, rfl⟩

theorem exactlyOnce_reach {okf : Nat} {node : Int} : ∀ s, Reach okf node s → ExactlyOnce s := by
  apply Reach.micro_induct
  · exact ⟨by simp [init], by simp [init]⟩
  · intro s s' hi ⟨_, _, h3, _, h5, _, h7, h8⟩
    unfold ExactlyOnce
    rw [h3, h5, h7, h8]
    exact hi
  · intro s κ sub res q n hi
    exact hi
  · intro s r hi hid
    obtain ⟨hp, hids⟩ := hi
    refine ⟨?_, ?_⟩
    · show ((s.pending ++ [r]) ++ s.log.map (·.resp)).Perm (s.delivered ++ [r])
      have h1 : ((s.pending ++ [r]) ++ s.log.map (·.resp)).Perm (r :: (s.pending ++ s.log.map (·.resp))) := by
        rw [List.append_assoc]
        exact List.perm_middle
      have h2 : (r :: (s.pending ++ s.log.map (·.resp))).Perm (r :: s.delivered) := List.Perm.cons r hp
      have h3 : (r :: s.delivered).Perm (s.delivered ++ [r]) := (List.perm_append_singleton r s.delivered).symm
      exact (h1.trans h2).trans h3
    · show (s.delivered ++ [r]).map (·.id) = List.range (s.nextResp + 1)
      rw [List.map_append, hids, List.range_succ]
      simp [hid]
  · intro s s'' hi ⟨pre, r, rest, s', hpend, hc, _, hs⟩
    obtain ⟨hp, hids⟩ := hi
    obtain ⟨_, _, f3, _, f5, _, _, e, f8, f9, _⟩ := hc.fields
    subst hs
    refine ⟨?_, ?_⟩
    · show ((pre ++ rest) ++ s'.log.map (·.resp)).Perm s'.delivered
      rw [f5, f8, List.map_append]
      simp only [List.map_cons, List.map_nil, f9]
      rw [hpend] at hp
      have h1 : ((pre ++ rest) ++ (s.log.map (·.resp) ++ [r])).Perm
          (r :: ((pre ++ rest) ++ s.log.map (·.resp))) := by
        rw [← List.append_assoc]
        exact List.perm_append_singleton r _
      have h2 : ((pre ++ r :: rest) ++ s.log.map (·.resp)).Perm
          (r :: ((pre ++ rest) ++ s.log.map (·.resp))) := by
        rw [List.append_assoc, List.cons_append, List.append_assoc]
        exact List.perm_middle
      exact (h1.trans h2.symm).trans hp
    · show s'.delivered.map (·.id) = List.range s'.nextResp
      rw [f5, f3]; exact hids

/-! ### (ii)–(iv) oldest request first, pair order, retirement -/

def reset (r : Req) : Req := { r with left := r.tot }

/-- the (request id, pair index) sequence in which a list of requests is served when each is served
completely before the next -/
def canon (rs : List Req) : List (Nat × Nat) :=
  rs.flatMap fun r => (List.range r.tot.toNat).map fun k => (r.id, k)

/-- what the head of a queue has consumed so far -/
def headPart : List Req → List (Nat × Nat)
  | [] => []
  | h :: _ => (List.range (h.tot - h.left).toNat).map fun k => (h.id, k)

/-- the consumption history of queue `κ`: (request id, pair index) -/
def doneForL (log : List Event) (κ : Key) : List (Nat × Nat) :=
  (log.filter (fun e => e.key = κ)).map fun e => (e.req, e.k)

def issuedForL (issued : List Req) (κ : Key) : List Req := issued.filter (fun r => r.key = κ)

/-- the consumption history of queue `κ`: (request id, pair index) -/
def doneFor (s : State) (κ : Key) : List (Nat × Nat) := doneForL s.log κ

def issuedFor (s : State) (κ : Key) : List Req := issuedForL s.issued κ

def QWf (q : List Req) (κ : Key) : Prop :=
  (∀ r ∈ q, 1 ≤ r.left ∧ r.left ≤ r.tot ∧ r.key = κ) ∧ (∀ r ∈ q.tail, r.left = r.tot)

def QInvL (issued : List Req) (log : List Event) (queues : List (Key × List Req)) (κ : Key) : Prop :=
  ∃ fin : List Req,
    issuedForL issued κ = fin ++ (getQ queues κ).map reset ∧
    doneForL log κ = canon fin ++ headPart (getQ queues κ) ∧
    QWf (getQ queues κ) κ

def QInv (s : State) (κ : Key) : Prop := QInvL s.issued s.log s.queues κ

def PosReqs (s : State) : Prop := ∀ r ∈ s.issued, 1 ≤ r.tot

def AllQ (s : State) : Prop := PosReqs s → ∀ κ, QInv s κ

theorem canon_append (a b : List Req) : canon (a ++ b) = canon a ++ canon b := by
  simp [canon, List.flatMap_append]

theorem canon_single (r : Req) : canon [r] = (List.range r.tot.toNat).map fun k => (r.id, k) := by
  simp [canon]

theorem qinvL_enqueue {issued : List Req} {log : List Event} {queues : List (Key × List Req)} {κ κ' : Key}
    (rq : Req) (hkey : rq.key = κ') (hleft : rq.left = rq.tot) (hn : 1 ≤ rq.tot)
    (h : QInvL issued log queues κ) :
    QInvL (issued ++ [rq]) log (setQ queues κ' (getQ queues κ' ++ [rq])) κ := by
  obtain ⟨fin, a, b, c⟩ := h
  by_cases hk : κ = κ'
  · subst hk
    refine ⟨fin, ?_, ?_, ?_⟩
    · simp only [issuedForL, getQ_setQ_same, List.filter_append, List.map_append]
      simp only [issuedForL] at a
      rw [a]
      have : reset rq = rq := by cases rq; simp only [reset]; simp at hleft; simp [hleft]
      simp [hkey, this]
    · simp only [getQ_setQ_same]
      rw [b]
      cases hq : getQ queues κ with
      | nil => simp [headPart, hleft]
      | cons h t => simp [headPart]
    · simp only [getQ_setQ_same]
      obtain ⟨c1, c2⟩ := c
      refine ⟨?_, ?_⟩
      · intro r hr
        rcases List.mem_append.mp hr with hr | hr
        · exact c1 r hr
        · simp only [List.mem_singleton] at hr
          subst hr
          exact ⟨by omega, by omega, hkey⟩
      · intro r hr
        cases hq : getQ queues κ with
        | nil => rw [hq] at hr; simp at hr
        | cons h t =>
          rw [hq] at hr c2
          simp only [List.cons_append, List.tail_cons, List.mem_append, List.mem_singleton] at hr
          rcases hr with hr | hr
          · exact c2 r (by simpa using hr)
          · subst hr; exact hleft
  · refine ⟨fin, ?_, ?_, ?_⟩
    · simp only [issuedForL, List.filter_append]
      rw [getQ_setQ_ne _ _ _ _ hk]
      simp only [issuedForL] at a
      rw [a]
      have : ¬ rq.key = κ := fun h => hk (by rw [← h, hkey])
      simp [this]
    · rw [getQ_setQ_ne _ _ _ _ hk]
      exact b
    · rw [getQ_setQ_ne _ _ _ _ hk]
      exact c

theorem qinvL_consume {issued : List Req} {log : List Event} {queues : List (Key × List Req)} {κ κr : Key}
    {hd : Req} {rest : List Req} (e : Event) (hq : getQ queues κr = hd :: rest)
    (hk0 : 0 ≤ hd.tot - hd.left) (hek : e.key = κr) (her : e.req = hd.id)
    (hekk : e.k = (hd.tot - hd.left).toNat)
    (h : QInvL issued log queues κ) :
    QInvL issued (log ++ [e])
      (setQ queues κr (if hd.left - 1 = 0 then rest else { hd with left := hd.left - 1 } :: rest)) κ := by
  obtain ⟨fin, a, b, c⟩ := h
  by_cases hk : κ = κr
  · subst hk
    rw [hq] at a b c
    obtain ⟨c1, c2⟩ := c
    have hh := c1 hd (by simp)
    by_cases hl : hd.left - 1 = 0
    · -- last pair: the request is retired
      refine ⟨fin ++ [reset hd], ?_, ?_, ?_⟩
      · simp only [getQ_setQ_same, hl, if_true]
        rw [a]
        simp
      · simp only [doneForL, getQ_setQ_same, hl, if_true, List.filter_append, List.map_append]
        simp only [doneForL] at b
        rw [b, canon_append, canon_single]
        have e1 : (hd.tot - hd.left).toNat + 1 = hd.tot.toNat := by omega
        have hrest : headPart rest = [] := by
          cases rest with
          | nil => rfl
          | cons r2 t =>
            have := c2 r2 (by simp)
            simp [headPart, this]
        rw [hrest]
        simp only [headPart, reset, List.append_nil, List.append_assoc]
        rw [← e1, List.range_succ]
        simp [hek, her, hekk]
      · simp only [getQ_setQ_same, hl, if_true]
        refine ⟨fun x hx => c1 x (by simp [hx]), ?_⟩
        intro x hx
        exact c2 x (by
          simp only [List.tail_cons]
          exact List.mem_of_mem_tail hx)
    · refine ⟨fin, ?_, ?_, ?_⟩
      · simp only [getQ_setQ_same, hl, if_false]
        rw [a]
        simp [reset]
      · simp only [doneForL, getQ_setQ_same, hl, if_false, List.filter_append, List.map_append]
        simp only [doneForL] at b
        rw [b]
        have e1 : (hd.tot - (hd.left - 1)).toNat = (hd.tot - hd.left).toNat + 1 := by omega
        simp only [headPart, e1, List.range_succ, List.map_append, List.append_assoc]
        simp [hek, her, hekk]
      · simp only [getQ_setQ_same, hl, if_false]
        refine ⟨?_, ?_⟩
        · intro x hx
          simp only [List.mem_cons] at hx
          rcases hx with hx | hx
          · subst hx
            exact ⟨by simp only; omega, by simp only; omega, hh.2.2⟩
          · exact c1 x (by simp [hx])
        · intro x hx
          exact c2 x (by simpa using hx)
  · refine ⟨fin, ?_, ?_, ?_⟩
    · rw [getQ_setQ_ne _ _ _ _ hk]
      exact a
    · simp only [doneForL, List.filter_append]
      rw [getQ_setQ_ne _ _ _ _ hk]
      have : ¬ e.key = κ := fun h => hk (by rw [← h, hek])
      simp only [doneForL] at b
      simp [this, b]
    · rw [getQ_setQ_ne _ _ _ _ hk]
      exact c

/-- the part of a consumption that concerns queues and history -/
theorem Consumed.view {okf : Nat} {s s' : State} {r : Resp} (h : Consumed okf s r s') :
    ∃ (hd : Req) (rest : List Req) (e : Event),
      getQ s.queues (keyOf s.nodeId r) = hd :: rest ∧ 0 ≤ hd.tot - hd.left ∧
      e.key = keyOf s.nodeId r ∧ e.req = hd.id ∧ e.k = (hd.tot - hd.left).toNat ∧ e.resp = r ∧
      e.resAddr = hd.resAddr ∧
      s'.queues = setQ s.queues (keyOf s.nodeId r)
        (if hd.left - 1 = 0 then rest else { hd with left := hd.left - 1 } :: rest) ∧
      s'.log = s.log ++ [e] ∧ s'.issued = s.issued := by
  obtain ⟨hd, rest, app, m, m1, used1, vq, prev, arr, arr', hq, hk0, _, _, _, _, _, _, _, hs⟩ := h.ex
  subst hs
  exact ⟨hd, rest, _, hq, hk0, rfl, rfl, rfl, rfl, rfl, rfl, rfl, rfl⟩

theorem allQ_reach {okf : Nat} {node : Int} : ∀ s, Reach okf node s → AllQ s := by
  apply Reach.micro_induct
  · intro _ κ
    exact ⟨[], by simp [issuedForL, init, getQ], by simp [doneForL, init, getQ, canon, headPart],
      by simp [QWf, init, getQ]⟩
  · intro s s' hi ⟨_, h2, _, _, _, h6, _, h8⟩ hpos κ
    have : PosReqs s := by intro r hr; exact hpos r (h6 ▸ hr)
    have := hi this κ
    unfold QInv at *
    rw [h2, h6, h8]; exact this
  · -- enqueue
    intro s κ' sub res q n hi hpos κ
    have hn : 1 ≤ n := by
      have := hpos ⟨s.nextReq, κ', sub, res, q, n, n⟩ (by simp [enqueue])
      simpa using this
    have hposs : PosReqs s := by
      intro r hr; exact hpos r (by simp [enqueue, hr])
    exact qinvL_enqueue ⟨s.nextReq, κ', sub, res, q, n, n⟩ rfl rfl hn (hi hposs κ)
  · intro s r hi _ hpos κ
    exact hi hpos κ
  · -- one consumption
    intro s s'' hi ⟨pre, r, rest', s', _, hc, _, hs⟩ hpos κ
    obtain ⟨hd, rest, e, hq, hk0, hek, her, hekk, _, _, hqs, hlog, hiss⟩ := hc.view
    have hposs : PosReqs s := by
      intro x hx; apply hpos x; subst hs; show x ∈ s'.issued; rw [hiss]; exact hx
    have := qinvL_consume e hq hk0 hek her hekk (hi hposs κ)
    subst hs
    show QInvL s'.issued s'.log s'.queues κ
    rw [hiss, hlog, hqs]; exact this

/-- request ids are handed out consecutively -/
theorem issued_ids_reach {okf : Nat} {node : Int} :
    ∀ s, Reach okf node s → s.issued.map (·.id) = List.range s.nextReq := by
  apply Reach.micro_induct
  · simp [init]
  · intro s s' hi ⟨_, _, _, h4, _, h6, _, _⟩
    rw [h6, h4]; exact hi
  · intro s κ sub res q n hi
    simp only [enqueue, List.map_append, hi, List.range_succ]
    rfl
  · intro s r hi _; exact hi
  · intro s s'' hi ⟨pre, r, rest, s', _, hc, _, hs⟩
    obtain ⟨_, f2, _, f4, _⟩ := hc.fields
    subst hs
    show s'.issued.map (·.id) = List.range s'.nextReq
    rw [f4, f2]; exact hi

/-! ### (iii), (v): effect of one consumption -/

theorem storeSlice_spec {okf : Nat} {arr arr' : Arr} {k : Nat} {vals : List Int}
    (h : storeSlice okf arr k vals = some arr') :
    arr'.length = arr.length ∧
    (∀ j, j < vals.length → arr'[k * okf + j]? = (vals[j]?).map some) ∧
    (∀ i, (i < k * okf ∨ k * okf + okf ≤ i) → arr'[i]? = arr[i]?) := by
  unfold storeSlice at h
  split at h
  · rename_i hlen
    injection h with h
    subst h
    simp only [List.length_take, List.length_drop] at hlen
    refine ⟨?_, ?_, ?_⟩
    · simp only [List.length_append, List.length_take, List.length_map, List.length_drop]
      omega
    · intro j hj
      have hk : k * okf ≤ arr.length := by omega
      have h1 : (List.take (k * okf) arr).length = k * okf := by simp [List.length_take]; omega
      rw [List.append_assoc, List.getElem?_append_right (by omega)]
      rw [h1, Nat.add_sub_cancel_left, List.getElem?_append_left (by simpa using hj)]
      simp
    · intro i hi
      have hlen' : (List.take (k * okf) arr ++ List.map some vals ++ List.drop (k * okf + okf) arr).length
          = arr.length := by
        simp only [List.length_append, List.length_take, List.length_map, List.length_drop]
        omega
      by_cases hil : i < arr.length
      · rcases hi with hi | hi
        · rw [List.append_assoc, List.getElem?_append_left (by simp [List.length_take]; omega)]
          simp [List.getElem?_take, hi]
        · have hk : k * okf ≤ arr.length := by omega
          have h1 : (List.take (k * okf) arr ++ List.map some vals).length = k * okf + vals.length := by
            simp [List.length_take]; omega
          have hv : vals.length = okf := by omega
          rw [List.getElem?_append_right (by omega), h1, List.getElem?_drop]
          congr 1; omega
      · rw [List.getElem?_eq_none (by omega), List.getElem?_eq_none (by omega)]
  · cases h

/-- the unit-module entry of an application (`none` = free / no such position) -/
def mapped (s : State) (app i : Nat) : Option Int :=
  match getApp s.apps app with
  | none => none
  | some m => m.unit.getD i none

theorem allocPos_free {m : AppMem} {v : Int} {i : Nat} (h : allocPos m v = some i) :
    m.unit.getD i none = none ∧ i < m.unit.length := by
  unfold allocPos at h
  split at h
  · cases h
  · split at h
    · cases h
    · rename_i j hj
      split at h
      · cases h
      · rename_i hfree
        injection h with h
        subst h
        refine ⟨by simpa using hfree, ?_⟩
        unfold pyIdx at hj
        split at hj
        · split at hj
          · injection hj with hj; omega
          · cases hj
        · split at hj
          · injection hj with hj; omega
          · cases hj

theorem allocPos_nonneg {m : AppMem} {v : Int} {i : Nat} (h : allocPos m v = some i) (hv : 0 ≤ v) :
    i = v.toNat := by
  by_cases h1 : v ≥ m.unit.length
  · simp [allocPos, h1] at h
  · have h2 : v < m.unit.length := by omega
    simp only [allocPos, h1, if_false, pyIdx, hv, if_true, h2] at h
    split at h
    · cases h
    · injection h with h; exact h.symm

/-- history: every keep consumption found its unit-module position free; measure consumptions map
no qubit -/
def LogFree (s : State) : Prop :=
  ∀ e ∈ s.log, e.resp.ty ≠ .other ∧ (e.resp.ty = .K → e.prev = none ∧ e.vq.isSome) ∧
    (e.resp.ty = .M → e.vq = none)

theorem logFree_reach {okf : Nat} {node : Int} : ∀ s, Reach okf node s → LogFree s := by
  apply Reach.micro_induct
  · intro e he; simp [init] at he
  · intro s s' hi ⟨_, _, _, _, _, _, _, h8⟩
    unfold LogFree; rw [h8]; exact hi
  · intro s κ sub res q n hi; exact hi
  · intro s r hi _; exact hi
  · intro s s'' hi ⟨pre, r, rest', s', _, hc, _, hs⟩
    subst hs
    obtain ⟨hd, rest, app, m, m1, used1, vq, prev, arr, arr', _, _, _, _, hM, hK, hO, _, _, hs'⟩ := hc.ex
    subst hs'
    intro e he
    simp only [List.mem_append, List.mem_singleton] at he
    rcases he with he | he
    · exact hi e he
    · subst he
      refine ⟨hO, ?_, ?_⟩
      · intro hty
        obtain ⟨qa, qarr, v, i, _, _, _, _, hi', _, _, hvq, hprev⟩ := hK hty
        simp only
        rw [hprev, hvq]
        exact ⟨(allocPos_free hi').1, rfl⟩
      · intro hty
        exact (hM hty).2.2.1

/-! ### quiescence after a poll -/

theorem tryHandle_no {okf : Nat} {s : State} {r : Resp} (h : tryHandle okf s r = .no) :
    getQ s.queues (keyOf s.nodeId r) = [] ∨
    (r.ty = .K ∧ ∃ hd rest app m qa qarr v, getQ s.queues (keyOf s.nodeId r) = hd :: rest ∧
      getSub s.subs hd.sub = some app ∧ getApp s.apps app = some m ∧ hd.qAddr = some qa ∧
      getArr m.arrays qa = some qarr ∧ qarr[(hd.tot - hd.left).toNat]? = some (some v) ∧
      hasVirtual m v = true) := by
  unfold tryHandle at h
  simp only at h
  split at h
  · left; assumption
  · rename_i hd rest hq
    right
    split at h
    · cases h
    · split at h
      · cases h
      · rename_i app hsub
        split at h
        · cases h
        · rename_i m happ
          split at h
          · cases h
          · rename_i hh
            cases hty : r.ty with
            | other => rw [hty] at hh; simp at hh
            | M => rw [hty] at hh; simp at hh
            | K =>
              rw [hty] at hh
              simp only at hh
              split at hh
              · cases hh
              · rename_i qa hqa
                split at hh
                · cases hh
                · rename_i qarr hqarr
                  split at hh
                  · cases hh
                  · cases hh
                  · rename_i v hv
                    split at hh
                    · rename_i hhv
                      exact ⟨rfl, hd, rest, app, m, qa, qarr, v, hq, hsub, happ, hqa, hqarr, hv, hhv⟩
                    · split at hh <;> cases hh
          · split at h
            · cases h
            · split at h <;> cases h

theorem handlePending_idle {okf : Nat} {s s' : State} (h : handlePending okf s = some s') :
    ∀ x ∈ s'.pending, tryHandle okf s' x = .no := by
  have := handlePendingFuel_idle (s.pending.length + 1) s s' (by omega) h
  exact scan_idle _ _ this

end NQ.Epr

namespace NQ.Epr

/-! ### unit modules are never overwritten -/

theorem mapped_setApp (s : State) (a : Nat) (m' : AppMem) (app i : Nat) (apps' : List (Nat × AppMem))
    (h : apps' = setApp s.apps a m') (s' : State) (hs : s'.apps = apps') :
    mapped s' app i = if app = a then m'.unit.getD i none else mapped s app i := by
  unfold mapped
  rw [hs, h]
  by_cases ha : app = a
  · subst ha; simp [getApp_setApp_same]
  · simp [getApp_setApp_ne _ _ _ _ ha, ha]

/-- allocated entries stay as they are -/
def Keeps (s s' : State) : Prop := ∀ app i p, mapped s app i = some p → mapped s' app i = some p

/-- an allocated entry is never replaced by another qubit: it stays, or it is freed -/
def NoOverwrite (s s' : State) : Prop :=
  ∀ app i p, mapped s app i = some p → mapped s' app i = some p ∨ mapped s' app i = none

theorem Keeps.noOverwrite {s s' : State} (h : Keeps s s') : NoOverwrite s s' :=
  fun app i p hp => Or.inl (h app i p hp)

theorem keeps_of_apps_eq {s s' : State} (h : s'.apps = s.apps) : Keeps s s' := by
  intro app i p hp; unfold mapped at *; rw [h]; exact hp

theorem getD_set_ne {l : List (Option Int)} {i j : Nat} {v : Option Int} (h : j ≠ i) :
    (l.set i v).getD j none = l.getD j none := by
  simp [List.getD_eq_getElem?_getD, List.getElem?_set, Ne.symm h]

theorem getD_set_self {l : List (Option Int)} {i : Nat} {v : Option Int} (h : i < l.length) :
    (l.set i v).getD i none = v := by
  simp [List.getD_eq_getElem?_getD, List.getElem?_set, h]

theorem Consumed.keeps {okf : Nat} {s s' : State} {r : Resp} (h : Consumed okf s r s') : Keeps s s' := by
  obtain ⟨hd, rest, app, m, m1, used1, vq, prev, arr, arr', _, _, _, happ, hM, hK, hO, _, _, hs⟩ := h.ex
  intro a i p hp
  have hm := mapped_setApp s app { m1 with arrays := setArr m1.arrays hd.resAddr arr' } a i _ rfl s'
    (by subst hs; rfl)
  rw [hm]
  by_cases ha : a = app
  · subst ha
    simp only [if_true]
    have hp' : m.unit.getD i none = some p := by
      unfold mapped at hp; rw [happ] at hp; exact hp
    cases hty : r.ty with
    | other => exact absurd hty hO
    | M => rw [(hM hty).1]; exact hp'
    | K =>
      obtain ⟨qa, qarr, v, j, _, _, _, _, hj, hm1, _, _, _⟩ := hK hty
      rw [hm1]
      simp only
      have hfree := (allocPos_free hj).1
      have : i ≠ j := by
        intro hij; subst hij; rw [hfree] at hp'; cases hp'
      rw [getD_set_ne this]; exact hp'
  · simp only [ha, if_false]; exact hp

theorem Micro.keeps {okf : Nat} {s s' : State} (h : Micro okf s s') : Keeps s s' := by
  obtain ⟨pre, r, rest, s1, _, hc, _, hs⟩ := h
  intro a i p hp
  have := hc.keeps a i p hp
  subst hs
  exact this

theorem Micros.keeps {okf : Nat} {s s' : State} (h : Micros okf s s') : Keeps s s' := by
  induction h with
  | refl => exact fun _ _ _ hp => hp
  | cons hm _ ih => exact fun a i p hp => ih a i p (hm.keeps a i p hp)

theorem step_noOverwrite {okf : Nat} {s s' : State} {a : Action} (h : step okf s a = some s') :
    NoOverwrite s s' := by
  cases a with
  | initApp app n =>
    simp [step] at h; subst h
    intro a i p hp
    rw [mapped_setApp s app _ a i _ rfl _ rfl]
    by_cases ha : a = app
    · right; simp [ha, List.getD_eq_getElem?_getD, List.getElem?_replicate]
      split <;> rfl
    · left; simp [ha, hp]
  | startSub sub app => simp [step] at h; subst h; exact (keeps_of_apps_eq rfl).noOverwrite
  | endSub sub => simp [step] at h; subst h; exact (keeps_of_apps_eq rfl).noOverwrite
  | nop => simp [step] at h; subst h; exact (keeps_of_apps_eq rfl).noOverwrite
  | array sub addr len =>
    simp only [step] at h
    obtain ⟨app, m, _, happ, hf⟩ := withApp_some h
    injection hf with hf; subst hf
    intro a i p hp
    rw [mapped_setApp s app _ a i _ rfl _ rfl]
    left
    by_cases ha : a = app
    · subst ha; unfold mapped at hp; rw [happ] at hp; simpa using hp
    · simp [ha, hp]
  | store sub addr idx val =>
    simp only [step] at h
    obtain ⟨app, m, _, happ, hf⟩ := withApp_some h
    split at hf
    · cases hf
    · split at hf
      · injection hf with hf; subst hf
        intro a i p hp
        rw [mapped_setApp s app _ a i _ rfl _ rfl]
        left
        by_cases ha : a = app
        · subst ha; unfold mapped at hp; rw [happ] at hp; simpa using hp
        · simp [ha, hp]
      · cases hf
  | qalloc sub v =>
    simp only [step] at h
    obtain ⟨app, m, _, happ, hf⟩ := withApp_some h
    split at hf
    · cases hf
    · rename_i j hj
      split at hf
      · cases hf
      · injection hf with hf; subst hf
        intro a i p hp
        rw [mapped_setApp s app _ a i _ rfl _ rfl]
        left
        by_cases ha : a = app
        · subst ha
          unfold mapped at hp; rw [happ] at hp; simp only at hp
          have hfree := (allocPos_free hj).1
          have : i ≠ j := by intro hij; subst hij; rw [hfree] at hp; cases hp
          simp only [if_true]
          rw [getD_set_ne this]; exact hp
        · simp [ha, hp]
  | qfree sub v =>
    simp only [step] at h
    obtain ⟨app, m, _, happ, hf⟩ := withApp_some h
    split at hf
    · cases hf
    · rename_i j hj
      split at hf
      · cases hf
      · split at hf
        · injection hf with hf; subst hf
          intro a i p hp
          rw [mapped_setApp s app _ a i _ rfl _ rfl]
          by_cases ha : a = app
          · subst ha
            unfold mapped at hp; rw [happ] at hp; simp only at hp
            simp only [if_true]
            by_cases hij : i = j
            · subst hij
              right
              simp [List.getD_eq_getElem?_getD, List.getElem?_set]
              split <;> rfl
            · left; rw [getD_set_ne hij]; exact hp
          · left; simp [ha, hp]
        · cases hf
  | create sub remote purpose isK number qAddr resAddr =>
    simp only [step] at h
    obtain ⟨app, m, _, _, hf⟩ := withApp_some h
    split at hf
    · simp only [Option.some.injEq] at hf; subst hf; exact (keeps_of_apps_eq rfl).noOverwrite
    · cases hf
  | recv sub remote purpose qAddr resAddr =>
    simp only [step] at h
    obtain ⟨app, m, _, _, hf⟩ := withApp_some h
    split at hf
    · cases hf
    · injection hf with hf; subst hf; exact (keeps_of_apps_eq rfl).noOverwrite
  | deliver ty remote purpose dir phys fields =>
    simp only [step, handlePending] at h
    have hk := (handlePendingFuel_micros _ _ _ h).keeps
    exact fun a i p hp => Or.inl (hk a i p hp)
  | poll =>
    simp only [step, handlePending] at h
    exact (handlePendingFuel_micros _ _ _ h).keeps.noOverwrite
  | wait sub kind addr lo hi =>
    simp only [step] at h
    split at h
    · cases h
    · injection h with h; subst h; exact (keeps_of_apps_eq rfl).noOverwrite
  | rejected sub =>
    simp only [step] at h
    obtain ⟨app, m, _, _, hf⟩ := withApp_some h
    injection hf with hf; subst hf; exact (keeps_of_apps_eq rfl).noOverwrite
  | stopApp app =>
    simp only [step] at h
    split at h
    · cases h
    · split at h
      · injection h with h; subst h
        intro a i p hp
        by_cases ha : a = app
        · subst ha; right; unfold mapped; simp only [getApp_filter_same]
        · left; unfold mapped at hp ⊢; simp only [getApp_filter_ne _ _ _ ha]; exact hp
      · cases h

/-! ### (iii) what one consumption writes -/

theorem Consumed.effect {okf : Nat} {s s' : State} {r : Resp} (h : Consumed okf s r s') :
    ∃ (hd : Req) (rest : List Req) (app : Nat) (m m' : AppMem) (arr' : Arr),
      getQ s.queues (keyOf s.nodeId r) = hd :: rest ∧
      getSub s.subs hd.sub = some app ∧ getApp s.apps app = some m ∧ getApp s'.apps app = some m' ∧
      getArr m'.arrays hd.resAddr = some arr' ∧
      (∀ j, j < r.fields.length →
        arr'[(hd.tot - hd.left).toNat * okf + j]? = (r.fields[j]?).map some) ∧
      (r.ty = .M → m'.unit = m.unit) ∧
      (r.ty = .K → ∃ qa qarr v i, hd.qAddr = some qa ∧ getArr m.arrays qa = some qarr ∧
        qarr[(hd.tot - hd.left).toNat]? = some (some v) ∧ (0 ≤ v → i = v.toNat) ∧
        m.unit.getD i none = none ∧ m'.unit.getD i none = some r.phys ∧
        ∀ j, j ≠ i → m'.unit.getD j none = m.unit.getD j none) := by
  obtain ⟨hd, rest, app, m, m1, used1, vq, prev, arr, arr', hq, _, hsub, happ, hM, hK, hO, harr, hst, hs⟩ := h.ex
  refine ⟨hd, rest, app, m, { m1 with arrays := setArr m1.arrays hd.resAddr arr' }, arr', hq, hsub, happ,
    by subst hs; exact getApp_setApp_same _ _ _, getArr_setArr_same _ _ _, (storeSlice_spec hst).2.1, ?_, ?_⟩
  · intro hty; rw [(hM hty).1]
  · intro hty
    obtain ⟨qa, qarr, v, i, h1, h2, h3, _, hi, hm1, _, _, _⟩ := hK hty
    obtain ⟨hfree, hlt⟩ := allocPos_free hi
    refine ⟨qa, qarr, v, i, h1, h2, h3, ?_, hfree, ?_, ?_⟩
    · exact allocPos_nonneg hi
    · rw [hm1]; exact getD_set_self hlt
    · intro j hj; rw [hm1]; exact getD_set_ne hj

/-! ### (vi) wait instructions -/

theorem waitOk_all {s : State} {sub : Nat} {addr : Int} {lo hi : Nat}
    (h : waitOk s sub .all addr lo hi = some true) :
    ∃ app m arr, getSub s.subs sub = some app ∧ getApp s.apps app = some m ∧
      getArr m.arrays addr = some arr ∧
      ∀ i, lo ≤ i → i < hi → i < arr.length → ∃ v, arr[i]? = some (some v) := by
  unfold waitOk at h
  split at h
  · cases h
  · rename_i app hsub
    split at h
    · cases h
    · rename_i m happ
      cases harr : getArr m.arrays addr with
      | none => rw [harr] at h; simp at h
      | some arr =>
        rw [harr] at h
        simp only [Option.some.injEq] at h
        refine ⟨app, m, arr, hsub, happ, harr, ?_⟩
        intro i h1 h2 h3
        rw [List.all_eq_true] at h
        have hmem : arr[i] ∈ (arr.drop lo).take (hi - lo) := by
          rw [List.mem_iff_getElem?]
          refine ⟨i - lo, ?_⟩
          rw [List.getElem?_take, if_pos (by omega), List.getElem?_drop]
          have : lo + (i - lo) = i := by omega
          rw [this]; exact List.getElem?_eq_getElem h3
        have := h _ hmem
        cases hv : arr[i] with
        | none => rw [hv] at this; cases this
        | some v => exact ⟨v, by rw [List.getElem?_eq_getElem h3, hv]⟩

theorem waitOk_any {s : State} {sub : Nat} {addr : Int} {lo hi : Nat}
    (h : waitOk s sub .any addr lo hi = some true) :
    ∃ app m arr, getSub s.subs sub = some app ∧ getApp s.apps app = some m ∧
      getArr m.arrays addr = some arr ∧
      ∃ i v, lo ≤ i ∧ i < hi ∧ arr[i]? = some (some v) := by
  unfold waitOk at h
  split at h
  · cases h
  · rename_i app hsub
    split at h
    · cases h
    · rename_i m happ
      cases harr : getArr m.arrays addr with
      | none => rw [harr] at h; simp at h
      | some arr =>
        rw [harr] at h
        simp only [Option.some.injEq] at h
        refine ⟨app, m, arr, hsub, happ, harr, ?_⟩
        rw [List.any_eq_true] at h
        obtain ⟨x, hx, hsome⟩ := h
        rw [List.mem_iff_getElem?] at hx
        obtain ⟨j, hj⟩ := hx
        rw [List.getElem?_take] at hj
        split at hj
        · rw [List.getElem?_drop] at hj
          cases hxv : x with
          | none => rw [hxv] at hsome; cases hsome
          | some v => exact ⟨lo + j, v, by omega, by omega, by rw [hj, hxv]⟩
        · cases hj

theorem waitOk_single {s : State} {sub : Nat} {addr : Int} {lo hi : Nat}
    (h : waitOk s sub .single addr lo hi = some true) :
    ∃ app m arr v, getSub s.subs sub = some app ∧ getApp s.apps app = some m ∧
      getArr m.arrays addr = some arr ∧ arr[lo]? = some (some v) := by
  unfold waitOk at h
  split at h
  · cases h
  · rename_i app hsub
    split at h
    · cases h
    · rename_i m happ
      cases harr : getArr m.arrays addr with
      | none => rw [harr] at h; simp at h
      | some arr =>
        rw [harr] at h
        simp only at h
        split at h
        · cases h
        · rename_i x hx
          injection h with h
          cases hxv : x with
          | none => rw [hxv] at h; cases h
          | some v => exact ⟨app, m, arr, v, hsub, happ, harr, by rw [hx, hxv]⟩

end NQ.Epr
