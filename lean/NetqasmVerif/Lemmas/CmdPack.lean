import NetqasmVerif.Model.CmdPack
import NetqasmVerif.Lemmas.Msg
import NetqasmVerif.Lemmas.Codec
namespace NQ.Cmd
open NQ NQ.Msg

/-! ### generic facts about `packNat`, `allInWidth`, `ofBytes`, `toBytes` -/

theorem packNat_append : ∀ (fs : List SField) (vs : List Int) (fs' : List SField) (vs' : List Int),
    fs.length = vs.length → packNat (fs ++ fs') (vs ++ vs') = packNat fs vs + packNat fs' vs'
  | [], [], _, _, _ => by simp [packNat]
  | [], _ :: _, _, _, h => by simp at h
  | _ :: _, [], _, _, h => by simp at h
  | f :: fs, v :: vs, fs', vs', h => by
    simp only [List.cons_append, packNat, packNat_append fs vs fs' vs' (by simpa using h)]; omega

theorem allInWidth_append : ∀ (fs : List SField) (vs : List Int) (fs' : List SField) (vs' : List Int),
    fs.length = vs.length →
    allInWidth (fs ++ fs') (vs ++ vs') = (allInWidth fs vs && allInWidth fs' vs')
  | [], [], _, _, _ => by simp [allInWidth]
  | [], _ :: _, _, _, h => by simp at h
  | _ :: _, [], _, _, h => by simp at h
  | f :: fs, v :: vs, fs', vs', h => by
    simp only [List.cons_append, allInWidth, allInWidth_append fs vs fs' vs' (by simpa using h),
      Bool.and_assoc]

theorem ofBytes_append (a b : List Nat) : ofBytes (a ++ b) = ofBytes a + 256 ^ a.length * ofBytes b := by
  induction a with
  | nil => simp [ofBytes]
  | cons x xs ih => simp only [List.cons_append, ofBytes, ih, List.length_cons, Nat.pow_succ]; ring

theorem ofBytes_replicate_zero (n : Nat) : ofBytes (List.replicate n 0) = 0 := by
  induction n with
  | zero => rfl
  | succ n ih => simp [List.replicate, ofBytes, ih]

theorem toBytes_ofBytes : ∀ (bs : List Nat), (∀ b ∈ bs, b < 256) → toBytes (ofBytes bs) bs.length = bs
  | [], _ => rfl
  | b :: bs, h => by
    have hb := h b List.mem_cons_self
    have ih := toBytes_ofBytes bs (fun x hx => h x (List.mem_cons_of_mem _ hx))
    simp only [ofBytes, List.length_cons, toBytes]
    have h1 : (b + 256 * ofBytes bs) % 256 = b := by omega
    have h2 : (b + 256 * ofBytes bs) / 256 = ofBytes bs := by omega
    rw [h1, h2, ih]

theorem pads_facts (o n : Nat) :
    packNat (canonPads o n) ((canonPads o n).map (fun _ => (0 : Int))) = 0 ∧
    allInWidth (canonPads o n) ((canonPads o n).map (fun _ => (0 : Int))) = true := by
  unfold canonPads
  generalize List.range n = l
  induction l with
  | nil => simp [packNat, allInWidth]
  | cons k ks ih =>
    simp only [List.map_cons, packNat, allInWidth, ih.1, ih.2]
    simp [encVal, inWidth]

/-! ### one operand slot: the canonical leaves carry exactly the bytes of `encodeOp` -/

theorem ofBytes_le32 (v : Int) : ofBytes (le32 v) = (v % 4294967296).toNat := by
  simp only [le32, ofBytes]
  have : (v % 4294967296).toNat < 4294967296 := by
    have := Int.emod_lt_of_pos v (show (0 : Int) < 4294967296 by decide)
    have := Int.emod_nonneg v (show (4294967296 : Int) ≠ 0 by decide)
    omega
  omega

theorem encVal32 (nm : String) (s : Nat) (v : Int) : encVal ⟨nm, s, 32, true⟩ v = (v % 4294967296).toNat := by
  simp [encVal]

theorem inWidth32 (nm : String) (s : Nat) (v : Int) : inWidth ⟨nm, s, 32, true⟩ v = inI32 v := by
  simp only [inWidth, inI32]
  norm_num

theorem reg_pack (o : Nat) (r : Reg) (h : okReg r = true) :
    encVal ⟨"", 8 * o, 2, false⟩ (r.bank : Int) * 2 ^ (8 * o)
      + (encVal ⟨"", 8 * o + 2, 4, false⟩ r.idx * 2 ^ (8 * o + 2)
        + (encVal ⟨"", 8 * o + 6, 2, false⟩ 0 * 2 ^ (8 * o + 6) + 0))
      = 256 ^ o * regByte r := by
  obtain ⟨b, i⟩ := r
  simp [okReg] at h
  have e1 : encVal ⟨"", 8 * o, 2, false⟩ (b : Int) = b := by
    simp only [encVal]; norm_num; omega
  have e2 : encVal ⟨"", 8 * o + 2, 4, false⟩ i = i.toNat := by
    simp only [encVal]; norm_num; omega
  have e3 : encVal ⟨"", 8 * o + 6, 2, false⟩ 0 = 0 := by simp [encVal]
  rw [e1, e2, e3, pow256, Nat.pow_add, Nat.pow_add, regByte]
  ring

theorem reg_width (o : Nat) (r : Reg) :
    (inWidth ⟨"", 8 * o, 2, false⟩ (r.bank : Int) && (inWidth ⟨"", 8 * o + 2, 4, false⟩ r.idx
      && (inWidth ⟨"", 8 * o + 6, 2, false⟩ 0 && true))) = okReg r := by
  obtain ⟨b, i⟩ := r
  simp only [inWidth, okReg]
  norm_num
  cases h1 : decide (b < 4) <;> cases h2 : decide (0 ≤ i) <;> cases h3 : decide (i < 16) <;> simp_all

/-- fields / values of the canonical group of one slot -/
def gFields (o : Nat) (k : FieldKind) : List SField := (canonGroup o k).map (·.1)
def gVals (o : Nat) (k : FieldKind) (op : Operand) : List Int := (canonGroup o k).map (fun p => partVal op p.2)

theorem slot_facts (o : Nat) (k : FieldKind) (op : Operand) (hk : kindOk k op = true) :
    (gFields o k).length = (gVals o k op).length ∧
    allInWidth (gFields o k) (gVals o k op) = InRangeOp k op ∧
    (InRangeOp k op = true → ∃ bs, encodeOp k op = some bs ∧
      packNat (gFields o k) (gVals o k op) = 256 ^ o * ofBytes bs) := by
  refine ⟨by simp [gFields, gVals], ?_, ?_⟩
  · cases k <;> cases op <;> simp [kindOk] at hk
    · rename_i r
      simp only [gFields, gVals, canonGroup, regGroup, List.map_cons, List.map_nil, partVal, allInWidth,
        InRangeOp]
      exact reg_width o r
    · rename_i v
      simp only [gFields, gVals, canonGroup, List.map_cons, List.map_nil, partVal, allInWidth, InRangeOp,
        inWidth, inU8]
      norm_num
    · simp only [gFields, gVals, canonGroup, List.map_cons, List.map_nil, partVal, allInWidth, InRangeOp,
        inWidth32, Bool.and_true]
    · simp only [gFields, gVals, canonGroup, List.map_cons, List.map_nil, partVal, allInWidth, InRangeOp,
        inWidth32, Bool.and_true]
    · rename_i a i
      simp only [gFields, gVals, canonGroup, regGroup, List.map_cons, List.map_nil, partVal, allInWidth,
        InRangeOp, inWidth32]
      rw [reg_width (o + 4) i]
    · rename_i a s e
      simp only [gFields, gVals, canonGroup, regGroup, List.map_cons, List.map_nil, List.cons_append,
        List.nil_append, partVal, allInWidth, InRangeOp, inWidth32]
      have hs := reg_width (o + 4) s
      have he := reg_width (o + 5) e
      simp only [Bool.and_true] at hs he ⊢
      rw [← Bool.and_assoc (inWidth _ (s.bank : Int)), ← Bool.and_assoc (inWidth _ (s.bank : Int) && _)]
      simp only [Bool.and_assoc] at hs he ⊢
      rw [← hs, ← he]
      simp only [Bool.and_assoc]
  · intro hr
    have hsome : (encodeOp k op).isSome = true := by rw [encodeOp_isSome, hr]
    obtain ⟨bs, hbs⟩ := Option.isSome_iff_exists.1 hsome
    refine ⟨bs, hbs, ?_⟩
    unfold encodeOp at hbs
    rw [if_pos hr] at hbs
    cases k <;> cases op <;> simp [kindOk] at hk
    · rename_i r
      simp at hbs; subst hbs
      simp only [gFields, gVals, canonGroup, regGroup, List.map_cons, List.map_nil, partVal, packNat, ofBytes]
      rw [reg_pack o r (by simpa [InRangeOp] using hr)]; ring
    · rename_i v
      simp at hbs; subst hbs
      simp only [InRangeOp, inU8, Bool.and_eq_true, decide_eq_true_eq] at hr
      simp only [gFields, gVals, canonGroup, List.map_cons, List.map_nil, partVal, packNat, ofBytes, encVal]
      have : (v % ((2 ^ 8 : Nat) : Int)).toNat = v.toNat := by norm_num; omega
      rw [this, pow256]; ring
    · rename_i v
      simp at hbs; subst hbs
      simp only [gFields, gVals, canonGroup, List.map_cons, List.map_nil, partVal, packNat, encVal32,
        ofBytes_le32]
      rw [pow256]; ring
    · rename_i a
      simp at hbs; subst hbs
      simp only [gFields, gVals, canonGroup, List.map_cons, List.map_nil, partVal, packNat, encVal32,
        ofBytes_le32]
      rw [pow256]; ring
    · rename_i a i
      simp at hbs; subst hbs
      simp only [InRangeOp, Bool.and_eq_true] at hr
      have hp := reg_pack (o + 4) i hr.2
      simp only [gFields, gVals, canonGroup, regGroup, List.map_cons, List.map_nil, partVal, packNat,
        encVal32] at hp ⊢
      rw [hp, ofBytes_append, ofBytes_le32, le32_length]
      simp only [ofBytes]
      rw [Nat.pow_add, (pow256 o).symm]; ring
    · rename_i a s e
      simp at hbs; subst hbs
      simp only [InRangeOp, Bool.and_eq_true] at hr
      have hs := reg_pack (o + 4) s hr.1.2
      have he := reg_pack (o + 5) e hr.2
      simp only [gFields, gVals, canonGroup, regGroup, List.map_cons, List.map_nil, List.cons_append,
        List.nil_append, partVal, packNat, encVal32] at hs he ⊢
      have hs' : ∀ X, encVal ⟨"", 8 * (o + 4), 2, false⟩ (s.bank : Int) * 2 ^ (8 * (o + 4))
          + (encVal ⟨"", 8 * (o + 4) + 2, 4, false⟩ s.idx * 2 ^ (8 * (o + 4) + 2)
            + (encVal ⟨"", 8 * (o + 4) + 6, 2, false⟩ 0 * 2 ^ (8 * (o + 4) + 6) + X))
          = 256 ^ (o + 4) * regByte s + X := by intro X; omega
      rw [hs', he, ofBytes_append, ofBytes_le32, le32_length]
      simp only [ofBytes]
      rw [Nat.pow_add, Nat.pow_add, (pow256 o).symm]; ring

/-! ### all slots, then the whole command -/

theorem kindOk_of_inRange (k : FieldKind) (op : Operand) (h : InRangeOp k op = true) : kindOk k op = true := by
  cases k <;> cases op <;> simp [InRangeOp] at h <;> rfl

theorem slots_none : ∀ (ks : List FieldKind) (ops : List Operand) (o : Nat),
    slotLeaves ks (canonGroups o ks) ops = none → InRangeOps ks ops = false
  | [], [], _, h => by simp [slotLeaves, canonGroups] at h
  | [], _ :: _, _, _ => by simp [InRangeOps]
  | _ :: _, [], _, _ => by simp [InRangeOps]
  | k :: ks, op :: ops, o, h => by
    simp only [canonGroups, slotLeaves] at h
    simp only [InRangeOps]
    by_cases hk : kindOk k op = true
    · rw [if_pos hk] at h
      cases hrec : slotLeaves ks (canonGroups (o + kindSize k) ks) ops with
      | none => simp [slots_none ks ops _ hrec]
      | some p => rw [hrec] at h; simp at h
    · have : InRangeOp k op = false := by
        cases hr : InRangeOp k op
        · rfl
        · exact absurd (kindOk_of_inRange k op hr) hk
      simp [this]

theorem slots_some : ∀ (ks : List FieldKind) (ops : List Operand) (o : Nat) (fs : List SField) (vs : List Int),
    slotLeaves ks (canonGroups o ks) ops = some (fs, vs) →
    fs.length = vs.length ∧ allInWidth fs vs = InRangeOps ks ops ∧
    (InRangeOps ks ops = true → ∃ body, encodeOps ks ops = some body ∧
      packNat fs vs = 256 ^ o * ofBytes body)
  | [], [], o, fs, vs, h => by
    simp [slotLeaves, canonGroups] at h
    obtain ⟨rfl, rfl⟩ := h
    exact ⟨rfl, by simp [allInWidth, InRangeOps], fun _ => ⟨[], by simp [encodeOps], by simp [packNat, ofBytes]⟩⟩
  | [], _ :: _, _, _, _, h => by simp [slotLeaves, canonGroups] at h
  | _ :: _, [], _, _, _, h => by simp [slotLeaves, canonGroups] at h
  | k :: ks, op :: ops, o, fs, vs, h => by
    simp only [canonGroups, slotLeaves] at h
    by_cases hk : kindOk k op = true
    · rw [if_pos hk] at h
      cases hrec : slotLeaves ks (canonGroups (o + kindSize k) ks) ops with
      | none => rw [hrec] at h; simp at h
      | some p =>
        obtain ⟨fs', vs'⟩ := p
        rw [hrec] at h
        simp only [Option.some.injEq, Prod.mk.injEq] at h
        obtain ⟨rfl, rfl⟩ := h
        obtain ⟨hl, hw, hp⟩ := slots_some ks ops _ fs' vs' hrec
        obtain ⟨gl, gw, gp⟩ := slot_facts o k op hk
        refine ⟨by simp only [List.length_append]; rw [hl]; simp [gFields, gVals] at gl ⊢, ?_, ?_⟩
        · rw [show (canonGroup o k).map (·.1) = gFields o k from rfl,
            show (canonGroup o k).map (fun p => partVal op p.2) = gVals o k op from rfl,
            allInWidth_append _ _ _ _ gl, gw, hw]
          simp [InRangeOps]
        · intro hr
          simp only [InRangeOps, Bool.and_eq_true] at hr
          obtain ⟨b, hb, hpb⟩ := gp hr.1
          obtain ⟨body, hbody, hpbody⟩ := hp hr.2
          refine ⟨b ++ body, by simp [encodeOps, hb, hbody], ?_⟩
          rw [show (canonGroup o k).map (·.1) = gFields o k from rfl,
            show (canonGroup o k).map (fun p => partVal op p.2) = gVals o k op from rfl,
            packNat_append _ _ _ _ gl, hpb, hpbody, ofBytes_append, encodeOp_length k op b hb, Nat.pow_add]
          ring
    · rw [if_neg hk] at h; simp at h

theorem encodeOp_bytes_lt (k : FieldKind) (op : Operand) (bs : List Nat) (h : encodeOp k op = some bs) :
    ∀ b ∈ bs, b < 256 := by
  unfold encodeOp at h
  split at h
  · rename_i hr
    have hle : ∀ v : Int, ∀ b ∈ le32 v, b < 256 := by
      intro v b hb; simp [le32] at hb; omega
    cases k <;> cases op <;> simp [InRangeOp] at hr <;> simp at h <;> subst h
    · intro b hb; simp at hb; subst hb; have := regByte_lt _ hr; omega
    · intro b hb; simp at hb; subst hb; simp [inU8] at hr; omega
    · exact hle _
    · exact hle _
    · intro b hb
      rcases List.mem_append.1 hb with hb | hb
      · exact hle _ b hb
      · simp at hb; subst hb; have := regByte_lt _ hr.2; omega
    · intro b hb
      rcases List.mem_append.1 hb with hb | hb
      · exact hle _ b hb
      · simp at hb
        rcases hb with rfl | rfl
        · have := regByte_lt _ hr.1.2; omega
        · have := regByte_lt _ hr.2; omega
  · cases h

theorem encodeOps_bytes_lt : ∀ (ks : List FieldKind) (ops : List Operand) (bs : List Nat),
    encodeOps ks ops = some bs → ∀ b ∈ bs, b < 256
  | [], [], bs, h => by simp [encodeOps] at h; subst h; simp
  | [], _ :: _, _, h => by simp [encodeOps] at h
  | _ :: _, [], _, h => by simp [encodeOps] at h
  | k :: ks, o :: os, bs, h => by
    obtain ⟨b, bs', hb, hbs', rfl⟩ := encodeOps_cons_some h
    intro x hx
    rcases List.mem_append.1 hx with hx | hx
    · exact encodeOp_bytes_lt k o b hb x hx
    · exact encodeOps_bytes_lt ks os bs' hbs' x hx

/-- **`generic_pack_eq_model`, canonical form**: serialising an operand list through the generic
ctypes struct model with the canonical layout of the class's shape gives exactly `encodeRow` —
the same bytes when it encodes, and `none` (raises) in exactly the same cases — for ALL operands. -/
theorem packCmd_canon (row : Row) (ops : List Operand) (hfit : shapeSize row.shape ≤ 6) :
    packCmd (canonCmd row) row ops = encodeRow row ops := by
  unfold packCmd encodeRow
  simp only [canonCmd]
  cases hsl : slotLeaves row.shape (canonGroups 1 row.shape) ops with
  | none =>
    have hr := slots_none _ _ _ hsl
    have hn : encodeOps row.shape ops = none := by
      have := encodeOps_isSome row.shape ops
      rw [hr] at this
      cases he : encodeOps row.shape ops
      · rfl
      · simp [he] at this
    simp [hn]
  | some p =>
    obtain ⟨fs, vs⟩ := p
    obtain ⟨hl, hw, hp⟩ := slots_some _ _ _ fs vs hsl
    obtain ⟨pp, pw⟩ := pads_facts (1 + shapeSize row.shape) (6 - shapeSize row.shape)
    have hlen : fs.length = vs.length := hl
    simp only [allInWidth, allInWidth_append _ _ _ _ hlen, hw, pw, Bool.and_true]
    cases hr : InRangeOps row.shape ops
    · have hn : encodeOps row.shape ops = none := by
        have := encodeOps_isSome row.shape ops
        rw [hr] at this
        cases he : encodeOps row.shape ops
        · rfl
        · simp [he] at this
      simp [hn]
    · obtain ⟨body, hbody, hpack⟩ := hp hr
      have hblen := encodeOps_length _ _ _ hbody
      have hblt := encodeOps_bytes_lt _ _ _ hbody
      simp only [hbody, Bool.and_true]
      by_cases hop : row.opcode < 256
      · have hiw : inWidth ⟨"", 0, 8, false⟩ (row.opcode : Int) = true := by
          simp only [inWidth]; norm_num; omega
        rw [if_pos hiw, if_pos ⟨hop, by omega⟩]
        refine congrArg some ?_
        have henc : encVal ⟨"", 0, 8, false⟩ (row.opcode : Int) = row.opcode := by
          simp only [encVal]; norm_num; omega
        let target := row.opcode :: (body ++ List.replicate (6 - body.length) 0)
        have htl : target.length = COMMAND_BYTES := by simp [target, COMMAND_BYTES]; omega
        have htlt : ∀ b ∈ target, b < 256 := by
          intro b hb
          simp only [target, List.mem_cons, List.mem_append, List.mem_replicate] at hb
          rcases hb with rfl | hb | hb
          · exact hop
          · exact hblt b hb
          · omega
        have hN : packNat (⟨"", 0, 8, false⟩ :: (fs ++ canonPads (1 + shapeSize row.shape) (6 - shapeSize row.shape)))
            ((row.opcode : Int) :: (vs ++ (canonPads (1 + shapeSize row.shape) (6 - shapeSize row.shape)).map
              (fun _ => (0 : Int)))) = ofBytes target := by
          simp only [packNat, henc, packNat_append _ _ _ _ hlen, hpack, pp, target, ofBytes, ofBytes_append,
            ofBytes_replicate_zero]
          ring
        rw [hN, ← htl, toBytes_ofBytes target htlt]
      · have hiw : inWidth ⟨"", 0, 8, false⟩ (row.opcode : Int) = false := by
          simp only [inWidth]; norm_num; omega
        rw [if_neg (by simp [hiw]), if_neg (fun h => hop h.1)]

/-- a generated layout that is canonical packs like the model codec -/
theorem packCmd_of_canonical (L : CmdLayout) (row : Row) (h : isCanonical L row = true) (ops : List Operand) :
    packCmd L row ops = encodeRow row ops := by
  simp only [isCanonical, Bool.and_eq_true, beq_iff_eq, decide_eq_true_eq] at h
  obtain ⟨⟨⟨⟨⟨h1, h2⟩, h3⟩, h4⟩, h5⟩, _⟩ := h
  rw [← packCmd_canon row ops h5]
  simp only [packCmd, h1, h2, h3, h4]
  rfl

end NQ.Cmd
