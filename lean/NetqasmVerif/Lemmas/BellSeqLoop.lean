/-
Lemmas (C10): the WHOLE per-pair loop of the post-routine / sequential path and of the
move-to-memory path:

  request; set L 0; l3: beq L n l4;  <wait for pair L>  <correction block>  <post>  <move>
  add L L 1; jmp l3; l4:

* `loop_skeleton`  — a counting loop whose body is specified per iteration;
* `mulLoop_spec`   — the repeated-addition loops of `_add_wait_for_ent_info_cmd`;
* `waitBlock_in_context`, `moveTail_in_context` — the wait code and the move code inside any program;
* `seq_loop_runs`  — the composition, with the user's post routine as an arbitrary command list
  satisfying `PostOk`.
-/
import NetqasmVerif.Lemmas.BellContext
namespace NQ.Bell
set_option linter.unusedSimpArgs false

section steps
variable {code : List Cmd} {mem : Mem} {pc : Nat} {regs : Nat → Int} {tr : List Ev}

theorem step_sub {d : Nat} {a b : Opd} (hc : code[pc]? = some (.sub d a b)) :
    step code mem ⟨pc, regs, tr⟩ = some ⟨pc + 1, upd regs d (a.val regs - b.val regs), tr⟩ := by
  simp [step, hc]

theorem step_waitAllReg {arr : Int} {s e : Nat} (hc : code[pc]? = some (.waitAllReg arr s e)) :
    step code mem ⟨pc, regs, tr⟩ = some ⟨pc + 1, regs, tr⟩ := by simp [step, hc]

theorem step_recvEpr {r k : Int} {ids : Option Int} {res : Int} (hc : code[pc]? = some (.recvEpr r k ids res)) :
    step code mem ⟨pc, regs, tr⟩ = some ⟨pc + 1, regs, tr⟩ := by simp [step, hc]

theorem step_mov {a b : Nat} (hc : code[pc]? = some (.mov a b)) :
    step code mem ⟨pc, regs, tr⟩ = some ⟨pc + 1, regs, tr ++ [.mov (regs a) (regs b)]⟩ := by simp [step, hc]

theorem step_qfree {r : Nat} (hc : code[pc]? = some (.qfree r)) :
    step code mem ⟨pc, regs, tr⟩ = some ⟨pc + 1, regs, tr ++ [.qfree (regs r)]⟩ := by simp [step, hc]

end steps

/-! ### a counting loop with a body specified per iteration -/

/-- events of the iterations `i, i+1, …, i+d−1`, each related to its iteration number by `R` -/
inductive IterEvents (R : Nat → List Ev → Prop) : Nat → Nat → List Ev → Prop
  | nil (i : Nat) : IterEvents R i 0 []
  | cons {i d : Nat} {e rest : List Ev} : R i e → IterEvents R (i + 1) d rest → IterEvents R i (d + 1) (e ++ rest)

/-- `set L 0; l3: beq L n l4; BODY; add L L 1; jmp l3; l4:` where BODY, entered with `L = i < n`,
arrives at the `add` with `L = i` again and events related to `i` by `R`: the loop performs the
iterations 0 … n−1 in order and ends behind its exit label. -/
theorem loop_skeleton {code : List Cmd} {mem : Mem} {h y z L n : Nat} {l3 l4 : String}
    (c0 : code[h]? = some (.set L 0)) (c1 : code[h + 1]? = some (.label l3))
    (c2 : code[h + 2]? = some (.beq (.r L) (.imm n) l4))
    (cy : code[y]? = some (.add L L (.imm 1))) (cj : code[y + 1]? = some (.jmp l3))
    (cz : code[z]? = some (.label l4))
    (t3 : findLabel code l3 = some (h + 1)) (t4 : findLabel code l4 = some z)
    (R : Nat → List Ev → Prop)
    (body : ∀ i, i < n → ∀ (regs : Nat → Int) (tr : List Ev), regs L = (i : Int) →
      ∃ regs' evs, Reaches code mem ⟨h + 2 + 1, regs, tr⟩ ⟨y, regs', tr ++ evs⟩ ∧ regs' L = (i : Int) ∧ R i evs)
    (regs : Nat → Int) (tr : List Ev) :
    ∃ regs' all, Reaches code mem ⟨h, regs, tr⟩ ⟨z + 1, regs', tr ++ all⟩ ∧ IterEvents R 0 n all := by
  have main : ∀ (d i : Nat), i + d = n → ∀ (regs : Nat → Int) (tr : List Ev), regs L = (i : Int) →
      ∃ regs' all, Reaches code mem ⟨h + 2, regs, tr⟩ ⟨z + 1, regs', tr ++ all⟩ ∧ IterEvents R i d all := by
    intro d
    induction d with
    | zero =>
      intro i hi regs tr hL
      have hv : (Opd.r L).val regs = (Opd.imm (n : Int)).val regs := by simp only [Opd.val, hL]; omega
      exact ⟨regs, [], by
        simpa using Reaches.head (step_beq_taken c2 hv t4) (Reaches.head (step_label cz) (Reaches.refl _)),
        IterEvents.nil i⟩
    | succ d ih =>
      intro i hi regs tr hL
      have hv : (Opd.r L).val regs ≠ (Opd.imm (n : Int)).val regs := by simp only [Opd.val, hL]; omega
      obtain ⟨r1, evs, hr1, hL1, hR⟩ := body i (by omega) regs tr hL
      let r2 := upd r1 L (r1 L + (Opd.imm 1).val r1)
      have hL2 : r2 L = ((i + 1 : Nat) : Int) := by simp [r2, upd_same, hL1, Opd.val]
      obtain ⟨r3, rest, hr3, hI⟩ := ih (i + 1) (by omega) r2 (tr ++ evs) hL2
      refine ⟨r3, evs ++ rest, ?_, IterEvents.cons hR hI⟩
      rw [← List.append_assoc]
      refine Reaches.head (step_beq_not c2 hv) (Reaches.trans hr1 ?_)
      refine Reaches.head (step_add cy) ?_
      refine Reaches.head (step_jmp cj t3) ?_
      exact Reaches.head (step_label c1) hr3
  obtain ⟨r, all, hr, hI⟩ := main n 0 (by omega) (upd regs L 0) tr (by simp [upd_same])
  exact ⟨r, all, Reaches.head (step_set c0) (Reaches.head (step_label c1) hr), hI⟩

/-! ### the repeated-addition loops of the wait code -/

structure MulLoopAt (code : List Cmd) (o J s : Nat) (addend : Opd) (K : Int) (a1 a2 : String) : Prop where
  c0 : code[o]? = some (.set J 0)
  c1 : code[o + 1]? = some (.label a1)
  c2 : code[o + 2]? = some (.beq (.r J) (.imm K) a2)
  c3 : code[o + 3]? = some (.add s s addend)
  c4 : code[o + 4]? = some (.add J J (.imm 1))
  c5 : code[o + 5]? = some (.jmp a1)
  c6 : code[o + 6]? = some (.label a2)
  t1 : findLabel code a1 = some (o + 1)
  t2 : findLabel code a2 = some (o + 6)

/-- `K` (a natural number) additions, then fall through; only `s` and `J` change -/
theorem mulLoop_spec {code : List Cmd} {mem : Mem} {o J s : Nat} {addend : Opd} {K : Int} {a1 a2 : String}
    (h : MulLoopAt code o J s addend K a1 a2) (k : Nat) (hK : K = (k : Int)) (hsJ : s ≠ J)
    (regs : Nat → Int) (tr : List Ev) :
    ∃ regs', Reaches code mem ⟨o, regs, tr⟩ ⟨o + 6 + 1, regs', tr⟩ ∧ (∀ x, x ≠ s → x ≠ J → regs' x = regs x) := by
  have main : ∀ (d j : Nat), j + d = k → ∀ (regs : Nat → Int), regs J = (j : Int) →
      ∃ regs', Reaches code mem ⟨o + 2, regs, tr⟩ ⟨o + 6 + 1, regs', tr⟩ ∧
        (∀ x, x ≠ s → x ≠ J → regs' x = regs x) := by
    intro d
    induction d with
    | zero =>
      intro j hj regs hJ
      have hv : (Opd.r J).val regs = (Opd.imm K).val regs := by simp only [Opd.val, hJ, hK]; omega
      exact ⟨regs, Reaches.head (step_beq_taken h.c2 hv h.t2) (Reaches.head (step_label h.c6) (Reaches.refl _)),
        fun _ _ _ => rfl⟩
    | succ d ih =>
      intro j hj regs hJ
      have hv : (Opd.r J).val regs ≠ (Opd.imm K).val regs := by simp only [Opd.val, hJ, hK]; omega
      let r1 := upd regs s (regs s + addend.val regs)
      let r2 := upd r1 J (r1 J + (Opd.imm 1).val r1)
      have hJ2 : r2 J = ((j + 1 : Nat) : Int) := by
        simp [r2, r1, upd_same, upd_other, Ne.symm hsJ, hJ, Opd.val]
      obtain ⟨r3, hr3, hf⟩ := ih (j + 1) (by omega) r2 hJ2
      refine ⟨r3, ?_, ?_⟩
      · refine Reaches.head (step_beq_not h.c2 hv) ?_
        refine Reaches.head (step_add h.c3) ?_
        refine Reaches.head (step_add h.c4) ?_
        refine Reaches.head (step_jmp h.c5 h.t1) ?_
        exact Reaches.head (step_label h.c1) hr3
      · intro x hs hJx
        rw [hf x hs hJx]
        simp [r2, r1, upd_other, hs, hJx]
  obtain ⟨r, hr, hf⟩ := main k 0 (by omega) (upd regs J 0) (by simp [upd_same])
  refine ⟨r, Reaches.head (step_set h.c0) (Reaches.head (step_label h.c1) hr), ?_⟩
  intro x hs hJx
  rw [hf x hs hJx, upd_other _ _ _ _ hJx]

/-! ### the wait code inside any program -/

/-- `_add_wait_for_ent_info_cmd` inside `pre ++ wait ++ rest`: it falls through (the `wait_all` being a
no-op of the semantics) and changes only its four scratch registers -/
theorem waitBlock_in_context {ly : Layout} {L s t e J : Nat} {a1 a2 b1 b2 : String} {res : Int} {mem : Mem}
    (pre rest : List Cmd) (hpre : ∀ l ∈ [a1, a2, b1, b2], Cmd.label l ∉ pre)
    (hl : [a1, a2, b1, b2].Nodup) (k : Nat) (hK : ly.okFields = (k : Int))
    (hsJ : s ≠ J) (heJ : e ≠ J) (regs : Nat → Int) (tr : List Ev) :
    ∃ regs', Reaches (pre ++ (waitBlockCode ly L s t e J a1 a2 b1 b2 res ++ rest)) mem
        ⟨pre.length, regs, tr⟩ ⟨pre.length + 19, regs', tr⟩ ∧
      (∀ x, x ≠ s → x ≠ t → x ≠ e → x ≠ J → regs' x = regs x) := by
  simp only [List.nodup_cons, List.mem_cons, List.not_mem_nil, not_or, or_false] at hl
  obtain ⟨⟨h12, h13, h14⟩, ⟨h23, h24⟩, ⟨h34, _⟩⟩ := hl
  have lab : findLabel (waitBlockCode ly L s t e J a1 a2 b1 b2 res) a1 = some 4 ∧
      findLabel (waitBlockCode ly L s t e J a1 a2 b1 b2 res) a2 = some 9 ∧
      findLabel (waitBlockCode ly L s t e J a1 a2 b1 b2 res) b1 = some 12 ∧
      findLabel (waitBlockCode ly L s t e J a1 a2 b1 b2 res) b2 = some 17 := by
    simp [waitBlockCode, findLabel, findLabelFrom, h12, h13, h14, h23, h24, h34,
      Ne.symm h12, Ne.symm h13, Ne.symm h14, Ne.symm h23, Ne.symm h24, Ne.symm h34]
  obtain ⟨ta1, ta2, tb1, tb2⟩ := lab
  have p1 := hpre a1 (by simp)
  have p2 := hpre a2 (by simp)
  have p3 := hpre b1 (by simp)
  have p4 := hpre b2 (by simp)
  have g : ∀ (j : Nat) (c : Cmd), (waitBlockCode ly L s t e J a1 a2 b1 b2 res)[j]? = some c →
      (pre ++ (waitBlockCode ly L s t e J a1 a2 b1 b2 res ++ rest))[pre.length + j]? = some c :=
    fun j c h => getElem_in_context h
  have m1 : MulLoopAt (pre ++ (waitBlockCode ly L s t e J a1 a2 b1 b2 res ++ rest)) (pre.length + 3) J s
      (.r L) ly.okFields a1 a2 :=
    ⟨g 3 _ rfl, g 4 _ rfl, g 5 _ rfl, g 6 _ rfl, g 7 _ rfl, g 8 _ rfl, g 9 _ rfl,
      findLabel_in_context p1 ta1, findLabel_in_context p2 ta2⟩
  have m2 : MulLoopAt (pre ++ (waitBlockCode ly L s t e J a1 a2 b1 b2 res ++ rest)) (pre.length + 11) J e
      (.r t) ly.okFields b1 b2 :=
    ⟨g 11 _ rfl, g 12 _ rfl, g 13 _ rfl, g 14 _ rfl, g 15 _ rfl, g 16 _ rfl, g 17 _ rfl,
      findLabel_in_context p3 tb1, findLabel_in_context p4 tb2⟩
  let r0 := upd (upd (upd regs s 0) t 0) e 0
  obtain ⟨r1, hr1, hf1⟩ := mulLoop_spec (mem := mem) m1 k hK hsJ r0 tr
  let r1' := upd r1 t (r1 L + (Opd.imm 1).val r1)
  obtain ⟨r2, hr2, hf2⟩ := mulLoop_spec (mem := mem) m2 k hK heJ r1' tr
  refine ⟨r2, ?_, ?_⟩
  · refine Reaches.head (step_set (g 0 _ rfl)) ?_
    refine Reaches.head (step_set (g 1 _ rfl)) ?_
    refine Reaches.head (step_set (g 2 _ rfl)) ?_
    refine Reaches.trans hr1 ?_
    refine Reaches.head (step_add (g 10 _ rfl)) ?_
    refine Reaches.trans hr2 ?_
    exact Reaches.head (step_waitAllReg (g 18 _ rfl)) (Reaches.refl _)
  · intro x hs ht he hJ
    rw [hf2 x he hJ]
    simp only [r1', upd_other _ _ _ _ ht]
    rw [hf1 x hs hJ]
    simp [r0, upd_other, hs, ht, he]

/-! ### the move-to-memory code inside any program -/

/-- the code of `with loop_reg.if_ne(number - 1): …` -/
def moveTailCode (L r0 r1 : Nat) (n : Int) (x4 : String) : List Cmd :=
  [ .beq (.r L) (.imm (n - 1)) x4, .sub r0 (.imm (n - 1)) (.r L), .set r1 0, .mov r1 r0, .qfree r1,
    .label x4 ]

/-- what it does in iteration `i`: nothing for the last pair, otherwise move the state from the
communication qubit 0 to memory qubit `n − 1 − i` and free qubit 0 -/
def moveEvents (n i : Int) : List Ev := if i = n - 1 then [] else [.mov 0 (n - 1 - i), .qfree 0]

theorem moveTail_in_context {L r0 r1 : Nat} {n : Int} {x4 : String} {mem : Mem} (pre rest : List Cmd)
    (hpre : Cmd.label x4 ∉ pre) (h0L : r0 ≠ L) (h1L : r1 ≠ L) (h01 : r0 ≠ r1)
    (i : Int) (regs : Nat → Int) (tr : List Ev) (hL : regs L = i) :
    ∃ regs', Reaches (pre ++ (moveTailCode L r0 r1 n x4 ++ rest)) mem ⟨pre.length, regs, tr⟩
        ⟨pre.length + 6, regs', tr ++ moveEvents n i⟩ ∧ regs' L = i := by
  have g : ∀ (j : Nat) (c : Cmd), (moveTailCode L r0 r1 n x4)[j]? = some c →
      (pre ++ (moveTailCode L r0 r1 n x4 ++ rest))[pre.length + j]? = some c :=
    fun j c h => getElem_in_context h
  have tx : findLabel (pre ++ (moveTailCode L r0 r1 n x4 ++ rest)) x4 = some (pre.length + 5) :=
    findLabel_in_context hpre (by simp [moveTailCode, findLabel, findLabelFrom])
  by_cases hi : i = n - 1
  · have hv : (Opd.r L).val regs = (Opd.imm (n - 1)).val regs := by simp [Opd.val, hL, hi]
    refine ⟨regs, ?_, hL⟩
    simp only [moveEvents, hi, if_true, List.append_nil]
    have c0 := g 0 _ rfl
    simp only [Nat.add_zero] at c0
    exact Reaches.head (step_beq_taken c0 hv tx) (Reaches.head (step_label (g 5 _ rfl)) (Reaches.refl _))
  · have hv : (Opd.r L).val regs ≠ (Opd.imm (n - 1)).val regs := by simp [Opd.val, hL, hi]
    let ra := upd regs r0 ((Opd.imm (n - 1)).val regs - (Opd.r L).val regs)
    let rb := upd ra r1 0
    refine ⟨rb, ?_, by simp [rb, ra, upd_other, Ne.symm h0L, Ne.symm h1L, hL]⟩
    have e1 : rb r1 = 0 := by simp [rb, upd_same]
    have e0 : rb r0 = n - 1 - i := by simp [rb, ra, upd_same, upd_other, h01, Opd.val, hL]
    have hev : moveEvents n i = [Ev.mov (rb r1) (rb r0)] ++ [Ev.qfree (rb r1)] := by
      simp [moveEvents, hi, e1, e0]
    have hassoc : tr ++ ([Ev.mov (rb r1) (rb r0)] ++ [Ev.qfree (rb r1)]) =
        tr ++ [Ev.mov (rb r1) (rb r0)] ++ [Ev.qfree (rb r1)] := by simp
    rw [hev, hassoc]
    have c0 := g 0 _ rfl
    simp only [Nat.add_zero] at c0
    refine Reaches.head (step_beq_not c0 hv) ?_
    refine Reaches.head (step_sub (g 1 _ rfl)) ?_
    refine Reaches.head (step_set (g 2 _ rfl)) ?_
    refine Reaches.head (step_mov (g 3 _ rfl)) ?_
    refine Reaches.head (step_qfree (g 4 _ rfl)) ?_
    exact Reaches.head (step_label (g 5 _ rfl)) (Reaches.refl _)

end NQ.Bell

namespace NQ.Bell
set_option linter.unusedSimpArgs false

/-! ### the whole per-pair loop -/

theorem corrBlockCode_length (t : Target) (ly : Layout) (sp : SinglePair) (q b L I J : Nat)
    (l1 l2 x1 x2 x3 : String) (ids res : Int) :
    (corrBlockCode t ly sp q b L I J l1 l2 x1 x2 x3 ids res).length = 20 := by cases t <;> rfl

/-- the loop tail that follows the user's post routine -/
def loopEnd (L : Nat) (l3 l4 : String) : List Cmd := [ .add L L (.imm 1), .jmp l3, .label l4 ]

/-- the emitted program of the post-routine / sequential path (`T = []`) and of the move-to-memory
path (`T` = move code), with the user's post routine `post` behind the correction block -/
abbrev seqLoopCode (head : Cmd) (L : Nat) (n : Int) (l3 l4 : String) (W B post T : List Cmd) : List Cmd :=
  [head, .set L 0, .label l3, .beq (.r L) (.imm n) l4] ++ (W ++ (B ++ (post ++ (T ++ loopEnd L l3 l4))))

/-- **What the user's post routine must respect.** Run in place (from its first command `p`, in the
program `code`) in iteration `i`, it arrives at the command behind it (`p + m`) without having changed
the pair register `L`; `Q i` describes the quantum events it produced. Branches inside the routine are
allowed. (That it does not redefine the loop's labels is a separate, syntactic hypothesis.) -/
def PostOk (code : List Cmd) (mem : Mem) (p m L : Nat) (Q : Nat → List Ev → Prop) : Prop :=
  ∀ (i : Nat) (regs : Nat → Int) (tr : List Ev), regs L = (i : Int) →
    ∃ regs' evs, Reaches code mem ⟨p, regs, tr⟩ ⟨p + m, regs', tr ++ evs⟩ ∧ regs' L = (i : Int) ∧ Q i evs

/-- events of iteration `i`: pair i's rotations on `t.pick (ids[i])`, then what the post routine did,
then (move path) the move of the state to its memory qubit -/
def SeqIter (sp : SinglePair) (t : Target) (Q : Nat → List Ev → Prop) (mv : Bool) (n : Nat)
    (bvs idv : List Int) (i : Nat) (evs : List Ev) : Prop :=
  ∃ pe, Q i pe ∧ evs = corrEvents sp (bvs.getD i 0) (t.pick (idv.getD i 0)) ++ pe ++
    (if mv then moveEvents n i else [])

/-- registers and labels of the loop are used consistently -/
structure SeqWf (L q b I J' s t' e J r0 r1 : Nat) : Prop where
  blk : RegsDistinct q b L I J'
  sJ : s ≠ J
  eJ : e ≠ J
  Ls : L ≠ s
  Lt : L ≠ t'
  Le : L ≠ e
  LJ : L ≠ J
  r0L : r0 ≠ L
  r1L : r1 ≠ L
  r01 : r0 ≠ r1

/-- **The whole per-pair loop, for every number of pairs.** -/
theorem seq_loop_runs {t : Target} {ly : Layout} {sp : SinglePair} {L q b I J' s t' e J r0 r1 : Nat}
    {l3 l4 a1 a2 b1 b2 l1 l2 x1 x2 x3 x4 : String} {ids res rem sock : Int} {mem : Mem}
    (mv : Bool) (post : List Cmd) (bvs idv resv : List Int)
    (hwf : SeqWf L q b I J' s t' e J r0 r1)
    (hlW : [a1, a2, b1, b2].Nodup) (hlB : [l1, l2, x1, x2, x3].Nodup)
    (k : Nat) (hK : ly.okFields = (k : Int))
    (hmi : mem ids = some idv) (hmr : mem res = some resv) (hlen : idv.length = bvs.length)
    (hres : ∀ i (h : i < bvs.length), ∃ k : Nat, ly.idxBell + ly.len * (i : Int) = (k : Int) ∧
      resv[k]? = some bvs[i]) :
    let n := bvs.length
    let P : List Cmd := [.recvEpr rem sock (some ids) res, .set L 0, .label l3, .beq (.r L) (.imm n) l4]
    let W := waitBlockCode ly L s t' e J a1 a2 b1 b2 res
    let B := corrBlockCode t ly sp q b L I J' l1 l2 x1 x2 x3 ids res
    let T := if mv then moveTailCode L r0 r1 n x4 else []
    let code := seqLoopCode (.recvEpr rem sock (some ids) res) L n l3 l4 W B post T
    (∀ l ∈ [a1, a2, b1, b2], Cmd.label l ∉ P) →
    (∀ l ∈ [l1, l2, x1, x2, x3], Cmd.label l ∉ P ++ W) →
    (mv = true → Cmd.label x4 ∉ P ++ (W ++ (B ++ post))) →
    Cmd.label l4 ∉ P ++ (W ++ (B ++ (post ++ T))) →
    ∀ (Q : Nat → List Ev → Prop), PostOk code mem 43 post.length L Q →
    ∀ (regs : Nat → Int), ∃ regs' all, Reaches code mem ⟨0, regs, []⟩ ⟨code.length, regs', all⟩ ∧
      IterEvents (SeqIter sp t Q mv n bvs idv) 0 n all := by
  intro n P W B T code hpW hpB hpT hpE Q hpost regs
  have hWlen : W.length = 19 := rfl
  have hBlen : B.length = 20 := corrBlockCode_length ..
  have hTlen : T.length = if mv then 6 else 0 := by cases mv <;> rfl
  -- re-bracketings of the program
  have hcB : code = (P ++ W) ++ (B ++ (post ++ (T ++ loopEnd L l3 l4))) := by
    simp [code, seqLoopCode, P, List.append_assoc]
  have hcT : code = (P ++ (W ++ (B ++ post))) ++ (T ++ loopEnd L l3 l4) := by
    simp [code, seqLoopCode, P, List.append_assoc]
  have hcE : code = (P ++ (W ++ (B ++ (post ++ T)))) ++ (loopEnd L l3 l4 ++ []) := by
    simp [code, seqLoopCode, P, List.append_assoc]
  have lenB : (P ++ W).length = 23 := by simp [P, hWlen]
  have lenT : (P ++ (W ++ (B ++ post))).length = 43 + post.length := by simp [P, hWlen, hBlen]; omega
  have lenE : (P ++ (W ++ (B ++ (post ++ T)))).length = 43 + post.length + T.length := by
    simp [P, hWlen, hBlen]; omega
  -- the loop frame
  have c0 : code[1]? = some (.set L 0) := rfl
  have c1 : code[1 + 1]? = some (.label l3) := rfl
  have c2 : code[1 + 2]? = some (.beq (.r L) (.imm n) l4) := rfl
  have t3 : findLabel code l3 = some (1 + 1) := by simp [code, seqLoopCode, findLabel, findLabelFrom]
  have cy : code[43 + post.length + T.length]? = some (.add L L (.imm 1)) := by
    have := getElem_in_context (pre := P ++ (W ++ (B ++ (post ++ T)))) (blk := loopEnd L l3 l4) (rest := [])
      (j := 0) (c := .add L L (.imm 1)) rfl
    rw [← hcE, lenE] at this; simpa using this
  have cj : code[43 + post.length + T.length + 1]? = some (.jmp l3) := by
    have := getElem_in_context (pre := P ++ (W ++ (B ++ (post ++ T)))) (blk := loopEnd L l3 l4) (rest := [])
      (j := 1) (c := .jmp l3) rfl
    rw [← hcE, lenE] at this; exact this
  have cz : code[43 + post.length + T.length + 2]? = some (.label l4) := by
    have := getElem_in_context (pre := P ++ (W ++ (B ++ (post ++ T)))) (blk := loopEnd L l3 l4) (rest := [])
      (j := 2) (c := .label l4) rfl
    rw [← hcE, lenE] at this; exact this
  have t4 : findLabel code l4 = some (43 + post.length + T.length + 2) := by
    have := findLabel_in_context (pre := P ++ (W ++ (B ++ (post ++ T)))) (blk := loopEnd L l3 l4) (rest := [])
      (l := l4) (p := 2) hpE (by simp [loopEnd, findLabel, findLabelFrom])
    rw [← hcE, lenE] at this; exact this
  have hlenc : code.length = 43 + post.length + T.length + 2 + 1 := by
    have h1 : code.length = (P ++ (W ++ (B ++ (post ++ T))) ++ (loopEnd L l3 l4 ++ [])).length :=
      congrArg List.length hcE
    have h2 : (P ++ (W ++ (B ++ (post ++ T))) ++ (loopEnd L l3 l4 ++ [])).length =
        (P ++ (W ++ (B ++ (post ++ T)))).length + 3 := by
      rw [List.length_append]; rfl
    rw [h1, h2, lenE]
  -- one iteration
  have body : ∀ i, i < n → ∀ (regs : Nat → Int) (tr : List Ev), regs L = (i : Int) →
      ∃ regs' evs, Reaches code mem ⟨1 + 2 + 1, regs, tr⟩ ⟨43 + post.length + T.length, regs', tr ++ evs⟩ ∧
        regs' L = (i : Int) ∧ SeqIter sp t Q mv n bvs idv i evs := by
    intro i hi regs tr hL
    obtain ⟨kk, hk, hbv⟩ := hres i hi
    have hid : idv[i]? = some idv[i] := List.getElem?_eq_getElem (by omega)
    -- wait
    obtain ⟨r1w, hw, hf1⟩ := waitBlock_in_context (mem := mem) (ly := ly) (L := L) (res := res) P
      (B ++ (post ++ (T ++ loopEnd L l3 l4))) hpW hlW k hK hwf.sJ hwf.eJ regs tr
    have hL1 : r1w L = (i : Int) := by rw [hf1 L hwf.Ls hwf.Lt hwf.Le hwf.LJ]; exact hL
    -- correction block
    obtain ⟨r2, hb, hL2, _⟩ := block_in_context (mem := mem) (t := t) (ly := ly) (sp := sp) (ids := ids) (res := res)
      (P ++ W) (post ++ (T ++ loopEnd L l3 l4)) hpB hwf.blk hlB idv resv hmi hmr i idv[i] bvs[i] kk hid hk hbv
      r1w tr hL1
    rw [← hcB, lenB] at hb
    -- post routine
    obtain ⟨r3, pe, hp, hL3, hQ⟩ := hpost i r2 (tr ++ corrEvents sp bvs[i] (t.pick idv[i])) hL2
    -- move code
    have htail : ∃ r4, Reaches code mem ⟨43 + post.length, r3, tr ++ corrEvents sp bvs[i] (t.pick idv[i]) ++ pe⟩
        ⟨43 + post.length + T.length, r4,
          tr ++ corrEvents sp bvs[i] (t.pick idv[i]) ++ pe ++ (if mv then moveEvents n i else [])⟩ ∧
        r4 L = (i : Int) := by
      cases hmv : mv with
      | false =>
        refine ⟨r3, ?_, hL3⟩
        have : T.length = 0 := by simp [hTlen, hmv]
        simp only [this, Nat.add_zero, Bool.false_eq_true, if_false, List.append_nil]
        exact Reaches.refl _
      | true =>
        have hT : T = moveTailCode L r0 r1 n x4 := by simp [T, hmv]
        obtain ⟨r4, hr4, hL4⟩ := moveTail_in_context (mem := mem) (n := n) (x4 := x4)
          (P ++ (W ++ (B ++ post))) (loopEnd L l3 l4) (hpT hmv) hwf.r0L hwf.r1L hwf.r01 (i : Int) r3
          (tr ++ corrEvents sp bvs[i] (t.pick idv[i]) ++ pe) hL3
        rw [← hT, ← hcT, lenT] at hr4
        refine ⟨r4, ?_, hL4⟩
        have : T.length = 6 := by simp [hTlen, hmv]
        simpa [this] using hr4
    obtain ⟨r4, ht, hL4⟩ := htail
    refine ⟨r4, corrEvents sp bvs[i] (t.pick idv[i]) ++ pe ++ (if mv then moveEvents n i else []), ?_, hL4, ?_⟩
    · have e1 : tr ++ (corrEvents sp bvs[i] (t.pick idv[i]) ++ pe ++ (if mv then moveEvents n i else [])) =
          tr ++ corrEvents sp bvs[i] (t.pick idv[i]) ++ pe ++ (if mv then moveEvents n i else []) := by
        simp [List.append_assoc]
      rw [e1]
      have hw' : Reaches code mem ⟨1 + 2 + 1, regs, tr⟩ ⟨23, r1w, tr⟩ := hw
      have hp' : Reaches code mem ⟨43, r2, tr ++ corrEvents sp bvs[i] (t.pick idv[i])⟩
          ⟨43 + post.length, r3, tr ++ corrEvents sp bvs[i] (t.pick idv[i]) ++ pe⟩ := hp
      exact Reaches.trans hw' (Reaches.trans hb (Reaches.trans hp' ht))
    · refine ⟨pe, hQ, ?_⟩
      have g1 : bvs.getD i 0 = bvs[i] := by simp [List.getD, List.getElem?_eq_getElem hi]
      have g2 : idv.getD i 0 = idv[i] := by
        simp [List.getD, List.getElem?_eq_getElem (show i < idv.length by omega)]
      rw [g1, g2]
  obtain ⟨r, all, hr, hI⟩ := loop_skeleton (mem := mem) c0 c1 c2 cy cj cz t3 t4 _ body regs []
  refine ⟨r, all, ?_, hI⟩
  rw [hlenc]
  have hstart : code[0]? = some (.recvEpr rem sock (some ids) res) := rfl
  simpa using Reaches.head (step_recvEpr hstart) hr

end NQ.Bell

namespace NQ.Bell
set_option linter.unusedSimpArgs false

/-! ### post routines that satisfy `PostOk` -/

/-- straight-line commands that do not write the register `L`: classical writes to other registers,
gates, moves, frees, waits, requests (no labels, no branches, no array loads) -/
def Cmd.simpleFor (L : Nat) : Cmd → Bool
  | .set r _ => r != L
  | .add d _ _ => d != L
  | .sub d _ _ => d != L
  | .rot _ _ => true
  | .mov _ _ => true
  | .qfree _ => true
  | .waitAllImm _ _ _ => true
  | .waitAllReg _ _ _ => true
  | .recvEpr _ _ _ _ => true
  | .createEpr _ _ _ _ _ => true
  | _ => false

theorem simple_no_label {L : Nat} {post : List Cmd} (h : post.all (Cmd.simpleFor L) = true) (l : String) :
    Cmd.label l ∉ post := by
  intro hm
  have := List.all_eq_true.mp h _ hm
  simp [Cmd.simpleFor] at this

/-- one simple command: it steps to the next position and keeps `L` -/
theorem simple_step {code : List Cmd} {mem : Mem} {pc L : Nat} {c : Cmd} (hc : code[pc]? = some c)
    (hs : c.simpleFor L = true) (regs : Nat → Int) (tr : List Ev) :
    ∃ regs' evs, step code mem ⟨pc, regs, tr⟩ = some ⟨pc + 1, regs', tr ++ evs⟩ ∧ regs' L = regs L := by
  cases c <;> simp [Cmd.simpleFor] at hs
  case set r v => exact ⟨_, [], by simpa using step_set hc, upd_other _ _ _ _ (Ne.symm hs)⟩
  case add d a b => exact ⟨_, [], by simpa using step_add hc, upd_other _ _ _ _ (Ne.symm hs)⟩
  case sub d a b => exact ⟨_, [], by simpa using step_sub hc, upd_other _ _ _ _ (Ne.symm hs)⟩
  case rot g r => exact ⟨_, _, step_rot hc, rfl⟩
  case mov a b => exact ⟨_, _, step_mov hc, rfl⟩
  case qfree r => exact ⟨_, _, step_qfree hc, rfl⟩
  case waitAllImm a s e => exact ⟨regs, [], by simp [step, hc], rfl⟩
  case waitAllReg a s e => exact ⟨regs, [], by simp [step, hc], rfl⟩
  case recvEpr r k i x => exact ⟨regs, [], by simp [step, hc], rfl⟩
  case createEpr r k i x y => exact ⟨regs, [], by simp [step, hc], rfl⟩

/-- a list of simple commands inside any program runs through and keeps `L` -/
theorem simple_run {mem : Mem} {L : Nat} (post : List Cmd) (h : post.all (Cmd.simpleFor L) = true) :
    ∀ (pre rest : List Cmd) (regs : Nat → Int) (tr : List Ev),
      ∃ regs' evs, Reaches (pre ++ (post ++ rest)) mem ⟨pre.length, regs, tr⟩
        ⟨pre.length + post.length, regs', tr ++ evs⟩ ∧ regs' L = regs L := by
  induction post with
  | nil => intro pre rest regs tr; exact ⟨regs, [], by simpa using Reaches.refl _, rfl⟩
  | cons c post ih =>
    intro pre rest regs tr
    simp only [List.all_cons, Bool.and_eq_true] at h
    have hc : (pre ++ (c :: post ++ rest))[pre.length]? = some c := by
      rw [List.getElem?_append_right (by omega)]; simp
    obtain ⟨r1, e1, hs, hL1⟩ := simple_step (mem := mem) hc h.1 regs tr
    obtain ⟨r2, e2, hr, hL2⟩ := ih h.2 (pre ++ [c]) rest r1 (tr ++ e1)
    have hcode : pre ++ [c] ++ (post ++ rest) = pre ++ (c :: post ++ rest) := by simp
    rw [hcode] at hr
    refine ⟨r2, e1 ++ e2, ?_, by rw [hL2, hL1]⟩
    have hl : (pre ++ [c]).length + post.length = pre.length + (c :: post).length := by
      simp [List.length_append]; omega
    have hl1 : (pre ++ [c]).length = pre.length + 1 := by simp
    rw [hl, hl1] at hr
    have ht : tr ++ (e1 ++ e2) = tr ++ e1 ++ e2 := by simp
    rw [ht]
    exact Reaches.head hs hr

end NQ.Bell

namespace NQ.Bell
set_option linter.unusedSimpArgs false

/-- a post routine made of simple commands satisfies `PostOk` in the emitted loop -/
theorem simple_postOk {head : Cmd} {L : Nat} {n : Int} {l3 l4 : String} {W B post T : List Cmd} {mem : Mem}
    (hW : W.length = 19) (hB : B.length = 20) (h : post.all (Cmd.simpleFor L) = true) :
    PostOk (seqLoopCode head L n l3 l4 W B post T) mem 43 post.length L (fun _ _ => True) := by
  intro i regs tr hL
  obtain ⟨r, evs, hr, hL'⟩ := simple_run (mem := mem) post h
    ([head, .set L 0, .label l3, .beq (.r L) (.imm n) l4] ++ (W ++ B)) (T ++ loopEnd L l3 l4) regs tr
  have hcode : [head, Cmd.set L 0, .label l3, .beq (.r L) (.imm n) l4] ++ (W ++ B) ++ (post ++ (T ++ loopEnd L l3 l4))
      = seqLoopCode head L n l3 l4 W B post T := by simp [seqLoopCode, List.append_assoc]
  have hlen : ([head, Cmd.set L 0, .label l3, .beq (.r L) (.imm n) l4] ++ (W ++ B)).length = 43 := by
    simp [hW, hB]
  rw [hcode, hlen] at hr
  exact ⟨r, evs, hr, by rw [hL', hL], trivial⟩

/-- with an empty post routine on the post-routine path the iterations' events are exactly the
demanded ones: pair i's rotations on `t.pick (ids[i])`, in order -/
theorem iterEvents_pairs {sp : SinglePair} {t : Target} {bvs idv : List Int} (hlen : idv.length = bvs.length)
    {i d : Nat} {all : List Ev}
    (h : IterEvents (SeqIter sp t (fun _ pe => pe = []) false bvs.length bvs idv) i d all)
    (hid : i + d = bvs.length) : all = pairEvents sp t ((bvs.zip idv).drop i) := by
  induction h with
  | nil i =>
    have : (bvs.zip idv).drop i = [] := by
      apply List.drop_eq_nil_of_le; simp [List.length_zip, hlen]; omega
    rw [this]; rfl
  | @cons i d e rest hR _ ih =>
    obtain ⟨pe, hpe, he⟩ := hR
    have hib : i < bvs.length := by omega
    have hii : i < idv.length := by omega
    have hz : i < (bvs.zip idv).length := by simp [List.length_zip, hlen]; omega
    have hdrop : (bvs.zip idv).drop i = (bvs[i], idv[i]) :: (bvs.zip idv).drop (i + 1) := by
      rw [List.drop_eq_getElem_cons hz]; simp
    have g1 : bvs.getD i 0 = bvs[i] := by simp [List.getD, List.getElem?_eq_getElem hib]
    have g2 : idv.getD i 0 = idv[i] := by simp [List.getD, List.getElem?_eq_getElem hii]
    rw [hdrop, he, hpe, g1, g2, ih (by omega)]
    simp [pairEvents]

end NQ.Bell
