/-
Facts about the direct semantics `HostSem` alone: operations that emit nothing do nothing; handles
created before an operation stay defined across it.
-/
import NetqasmVerif.Lemmas.SdkSimInit
set_option linter.unusedSimpArgs false
set_option linter.unusedVariables false
namespace NQ.Sdk

/-- an operation without run-time content leaves the state alone -/
theorem hsem_noemit : ∀ (fuel : Nat) (op : Host) (nh na : Nat) (s s' : HSt), emits op = false →
    hsem fuel nh na op s = some s' → s' = s := by
  intro fuel
  induction fuel with
  | zero => intro op nh na s s' _ h; simp [hsem] at h
  | succ f ih =>
    intro op nh na s s' he h
    cases op with
    | skip => simp [hsem] at h; exact h.symm
    | seq a b =>
      simp only [emits, Bool.or_eq_false_iff] at he
      simp only [hsem] at h
      split at h
      · rename_i s1 h1
        have e1 := ih a nh na s s1 he.1 h1
        subst e1
        exact ih b _ _ _ s' he.2 h
      · cases h
    | newArray len init => simp [hsem] at h; exact h.symm
    | newReg v => simp [emits] at he
    | qop g t => simp [emits] at he
    | addF fu o md => simp [emits] at he
    | addR hh o md => simp [emits] at he
    | ifc cb c a b body =>
      simp only [emits] at he
      simp [hsem, he] at h; exact h.symm
    | loop rg st sp d body => simp only [emits] at he; simp [hsem, he] at h; exact h.symm
    | loopBody rg st sp d body => simp only [emits] at he; simp [hsem, he] at h; exact h.symm
    | foreach arr wi body => simp only [emits] at he; simp [hsem, he] at h; exact h.symm
    | loopUntil n body ef ev cl => simp only [emits] at he; simp [hsem, he] at h; exact h.symm
    | tryUntil n body =>
      simp only [emits] at he
      simp only [hsem] at h
      exact ih body nh na s s' he h
    | epr evs => simp [hsem] at h

/-- `s'` keeps every handle below `nh` that is defined in `s` -/
def Keeps (nh : Nat) (s s' : HSt) : Prop := ∀ h, h < nh → (s.hregs h).isSome → (s'.hregs h).isSome

theorem Keeps.refl (nh : Nat) (s : HSt) : Keeps nh s s := fun _ _ h => h
theorem Keeps.trans {nh : Nat} {a b c : HSt} (h1 : Keeps nh a b) (h2 : Keeps nh b c) : Keeps nh a c :=
  fun h hl hd => h2 h hl (h1 h hl hd)
theorem Keeps.mono {nh nh' : Nat} {a b : HSt} (h : Keeps nh' a b) (hl : nh ≤ nh') : Keeps nh a b :=
  fun x hx hd => h x (by omega) hd

theorem Keeps.setH (nh : Nat) (s : HSt) (h : Nat) (v : Int) : Keeps nh s (s.setH h v) := by
  intro x _ hd
  by_cases e : x = h <;> simp [HSt.setH, e, hd]

theorem Keeps.clearH {nh : Nat} (s : HSt) {h : Nat} (hge : nh ≤ h) : Keeps nh s (s.clearH h) := by
  intro x hx hd
  have : x ≠ h := by omega
  simp [HSt.clearH, this, hd]

theorem Keeps.of_hregs {nh : Nat} {s s' : HSt} (h : s'.hregs = s.hregs) : Keeps nh s s' := by
  intro x _ hd; rw [h]; exact hd

theorem writeCell_hregs {s s' : HSt} {a i : Nat} {v : Int} (h : writeCell s a i v = some s') :
    s'.hregs = s.hregs := by
  unfold writeCell at h
  split at h
  · split at h
    · cases h; rfl
    · cases h
  · cases h

theorem iterLoop_keeps {body : HSt → Option HSt} {h : Nat} {stop stp : Int} {nh : Nat}
    (hb : ∀ s s', body s = some s' → Keeps nh s s') :
    ∀ (k : Nat) (s s' : HSt), iterLoop body h stop stp k s = some s' → Keeps nh s s' := by
  intro k
  induction k with
  | zero => intro s s' hi; simp [iterLoop] at hi
  | succ k ih =>
    intro s s' hi
    simp only [iterLoop] at hi
    split at hi
    · cases hi
    · split at hi
      · cases hi; exact Keeps.refl _ _
      · split at hi
        · cases hi
        · rename_i s1 hb1
          split at hi
          · cases hi
          · exact ((hb _ _ hb1).trans (Keeps.setH _ _ _ _)).trans (ih _ _ hi)

theorem iterUntil_keeps {body cl : HSt → Option HSt} {ef : Val} {ev : Int} {h : Nat} {N : Int} {nh : Nat}
    (hb : ∀ s s', body s = some s' → Keeps nh s s') (hc : ∀ s s', cl s = some s' → Keeps nh s s') :
    ∀ (k : Nat) (s s' : HSt), iterUntil body cl ef ev h N k s = some s' → Keeps nh s s' := by
  intro k
  induction k with
  | zero => intro s s' hi; simp [iterUntil] at hi
  | succ k ih =>
    intro s s' hi
    simp only [iterUntil] at hi
    split at hi
    · cases hi
    · split at hi
      · cases hi; exact Keeps.refl _ _
      · split at hi
        · cases hi
        · rename_i s1 hb1
          split at hi
          case h_1 => cases hi
          split at hi
          · cases hi
          · split at hi
            · cases hi; exact hb _ _ hb1
            · split at hi
              · cases hi
              · rename_i s2 hc2
                split at hi
                · cases hi
                · exact ((hb _ _ hb1).trans ((hc _ _ hc2).trans (Keeps.setH _ _ _ _))).trans (ih _ _ hi)

theorem clearOpt_keeps {nh h : Nat} {s : HSt} {o : Option HSt} {s' : HSt} (hge : nh ≤ h)
    (hk : ∀ s1, o = some s1 → Keeps nh s s1) (hc : clearOpt h o = some s') : Keeps nh s s' := by
  cases o with
  | none => simp [clearOpt] at hc
  | some s1 =>
    simp [clearOpt] at hc; subst hc
    exact (hk s1 rfl).trans (Keeps.clearH _ hge)

/-- handles created before an operation stay defined across it -/
theorem hsem_keeps : ∀ (fuel : Nat) (op : Host) (nh na : Nat) (s s' : HSt),
    hsem fuel nh na op s = some s' → Keeps nh s s' := by
  intro fuel
  induction fuel with
  | zero => intro op nh na s s' h; simp [hsem] at h
  | succ f ih =>
    intro op nh na s s' h
    cases op with
    | skip => simp [hsem] at h; subst h; exact Keeps.refl _ _
    | seq a b =>
      simp only [hsem] at h
      split at h
      · rename_i s1 h1
        exact (ih a nh na s s1 h1).trans ((ih b _ _ s1 s' h).mono (by omega))
      · cases h
    | newArray len init => simp [hsem] at h; subst h; exact Keeps.refl _ _
    | newReg v => simp [hsem] at h; subst h; exact Keeps.setH _ _ _ _
    | qop g t =>
      simp only [hsem] at h
      cases t with
      | newFut =>
        simp only at h
        exact Keeps.of_hregs (by rw [writeCell_hregs h])
      | fut fu =>
        simp only [writeFut] at h
        split at h
        · exact Keeps.of_hregs (by rw [writeCell_hregs h])
        · cases h
      | newReg => simp at h; subst h; exact Keeps.setH _ _ _ _
    | addF fu o md =>
      simp only [hsem] at h
      split at h
      · cases h
      · split at h
        · split at h
          · exact Keeps.of_hregs (writeCell_hregs h)
          · cases h
        · cases h
    | addR hh o md =>
      simp only [hsem] at h
      split at h
      · split at h
        · cases h; exact Keeps.setH _ _ _ _
        · cases h
      · cases h
    | ifc cb c a b body =>
      simp only [hsem] at h
      split at h
      · cases h; exact Keeps.refl _ _
      · split at h
        · cases h
        · split at h
          · split at h
            · exact ih body nh na s s' h
            · cases h; exact Keeps.refl _ _
          · split at h
            · cases h
            · split at h
              · exact ih body nh na s s' h
              · cases h; exact Keeps.refl _ _
    | loop rg st sp d body =>
      simp only [hsem] at h
      split at h
      · cases h; exact Keeps.refl _ _
      · refine (Keeps.setH nh s nh st).trans (clearOpt_keeps (Nat.le_refl _) ?_ h)
        intro s1 h1
        exact iterLoop_keeps (fun a b hab => (ih body _ _ a b hab).mono (by omega)) _ _ _ h1
    | loopBody rg st sp d body =>
      simp only [hsem] at h
      split at h
      · cases h; exact Keeps.refl _ _
      · refine (Keeps.setH nh s nh st).trans (clearOpt_keeps (Nat.le_refl _) ?_ h)
        intro s1 h1
        exact iterLoop_keeps (fun a b hab => (ih body _ _ a b hab).mono (by omega)) _ _ _ h1
    | foreach arr wi body =>
      simp only [hsem] at h
      split at h
      · cases h; exact Keeps.refl _ _
      · split at h
        · cases h
        · refine (Keeps.setH nh s nh 0).trans (clearOpt_keeps (Nat.le_refl _) ?_ h)
          intro s1 h1
          exact iterLoop_keeps (fun a b hab => (ih body _ _ a b hab).mono (by omega)) _ _ _ h1
    | loopUntil n body ef ev cl =>
      simp only [hsem] at h
      split at h
      · cases h; exact Keeps.refl _ _
      · refine (Keeps.setH nh s nh 0).trans (clearOpt_keeps (Nat.le_refl _) ?_ h)
        intro s1 h1
        exact iterUntil_keeps (fun a b hab => (ih body _ _ a b hab).mono (by omega))
          (fun a b hab => (ih cl _ _ a b hab).mono (by omega)) _ _ _ h1
    | tryUntil n body =>
      simp only [hsem] at h
      exact ih body nh na s s' h
    | epr evs => simp [hsem] at h

end NQ.Sdk
