/-
C03 text level: `_split_preamble_body`, `_parse_preamble` and the composition into
`parse_text_protosubroutine` on the canonical rendering of a proto program
(`# NETQASM v.w`, `# APPID n`, then one command per line).
-/
import NetqasmVerif.Lemmas.AsmFrontProgram
namespace NQ.AsmFront
open NQ NQ.AsmText NQ.Text

variable {S : Syms}

/-! ### generic string lemmas -/

theorem text_splitOn_ne_nil (sep : Char) (l : List Char) : Text.splitOn sep l ≠ [] := by
  induction l with
  | nil => simp [Text.splitOn]
  | cons c cs ih =>
    simp only [Text.splitOn]
    split
    · simp
    · split <;> simp

theorem asm_splitOn_eq (sep : Char) (l : List Char) : AsmText.splitOn sep l = Text.splitOn sep l := by
  induction l with
  | nil => rfl
  | cons c cs ih =>
    simp only [AsmText.splitOn, Text.splitOn, ih]
    cases h : Text.splitOn sep cs with
    | nil => exact absurd h (text_splitOn_ne_nil sep cs)
    | cons w ws => by_cases e : c = sep <;> simp [e]

theorem splitOn_joinWith (sep : Char) : ∀ (ls : List (List Char)), ls ≠ [] → (∀ l ∈ ls, sep ∉ l) →
    Text.splitOn sep (joinWith sep ls) = ls
  | [], h, _ => absurd rfl h
  | [l], _, hl => by simp [joinWith, splitOn_notin (hl l (by simp))]
  | l :: l' :: ls, _, hl => by
    have ih := splitOn_joinWith sep (l' :: ls) (by simp) (fun x hx => hl x (List.mem_cons_of_mem _ hx))
    simp only [joinWith]
    rw [splitOn_append (hl l (by simp)), ih]

theorem takeBefore_notin {c : Char} {cs l : List Char} (h : c ∉ l) : takeBefore (c :: cs) l = l := by
  induction l with
  | nil => rfl
  | cons d rest ih =>
    simp only [List.mem_cons, not_or] at h
    have : (c == d) = false := by simpa using h.1
    simp [takeBefore, List.isPrefixOf, this, ih h.2]

/-- first and last character are no blanks -/
def Tight (L : List Char) : Prop :=
  ∃ c cs l d, L = c :: cs ∧ L = l ++ [d] ∧ AsmText.isSpace c = false ∧ AsmText.isSpace d = false

theorem strip_tight {L : List Char} (h : Tight L) : AsmText.strip L = L := by
  obtain ⟨c, cs, l, d, h1, h2, hc, hd⟩ := h
  exact asm_strip_of_ends hc hd ⟨cs, h1⟩ ⟨l, h2⟩

theorem tight_ne_nil {L : List Char} (h : Tight L) : L ≠ [] := by
  obtain ⟨c, cs, _, _, h1, _⟩ := h; rw [h1]; simp

/-! ### characters of rendered lines -/

def okLineChar (S : Syms) (c : Char) : Bool :=
  srcLineChar S c || c == S.argOpen || c == ')' || c == ',' || c == S.branchEnd || c == S.preambleStart
    || c == '.'

/-- what the whole-text theorem needs from the symbols (decidable; generated obligation) -/
def textSymsOk (S : Syms) : Bool :=
  !okLineChar S '\n'
    && (match S.comment.toList with | c :: _ => !okLineChar S c | [] => false)
    && !AsmText.isSpace S.branchEnd && !AsmText.isSpace S.preambleStart
    && !isAlpha S.preambleStart && !(S.preambleStart == ' ') && !okLineChar S '{'

theorem alpha_not_asmSpace {c : Char} (h : isAlpha c = true) : AsmText.isSpace c = false := by
  cases hs : AsmText.isSpace c
  · rfl
  · simp only [AsmText.isSpace, Bool.or_eq_true, beq_iff_eq] at hs
    rcases hs with ((((rfl | rfl) | rfl) | rfl) | rfl) | rfl <;> simp [isAlpha] at h

theorem mnChar_not_asmSpace {c : Char} (h : mnCharOk c = true) : AsmText.isSpace c = false := by
  cases hs : AsmText.isSpace c
  · rfl
  · simp only [AsmText.isSpace, Bool.or_eq_true, beq_iff_eq] at hs
    rcases hs with ((((rfl | rfl) | rfl) | rfl) | rfl) | rfl <;> simp [mnCharOk, isDigit] at h

theorem srcLine_ok {c : Char} (h : srcLineChar S c = true) : okLineChar S c = true := by simp [okLineChar, h]

theorem renderCmd_chars (hF : FrontSyms S) (generic : List String) (c : Asm.PCmd) (hc : CmdOk S generic c) :
    ∀ x ∈ renderCmd S c, okLineChar S x = true := by
  cases c with
  | label l =>
    intro x hx
    simp only [renderCmd, List.mem_append, List.mem_singleton] at hx
    rcases hx with hx | rfl
    · have := isVarName_chars hc x hx
      simp only [Bool.or_eq_true, decide_eq_true_eq] at this
      rcases this with (h | h) | h
      · exact srcLine_ok (by simp [srcLineChar, h])
      · exact srcLine_ok (by simp [srcLineChar, lineChar, mnCharOk, h])
      · exact srcLine_ok (by simp [srcLineChar, h])
    · simp [okLineChar]
  | instr mn args ops =>
    obtain ⟨hh, ho⟩ := hc
    intro x hx
    simp only [renderCmd, List.mem_append] at hx
    rcases hx with (hx | hx) | hx
    · exact srcLine_ok (by simp [srcLineChar, mnChar_lineChar (S := S) (hh.chars x hx)])
    · cases args with
      | nil => simp [showArgs] at hx
      | cons a as =>
        simp only [showArgs, List.isEmpty_cons, Bool.false_eq_true, if_false, List.cons_append, List.mem_cons,
          List.mem_append, List.mem_singleton] at hx
        rcases hx with rfl | hx | hx
        · simp [okLineChar]
        · rcases argsBody_chars _ x hx with h | rfl
          · exact srcLine_ok (by simp [srcLineChar, lineChar, numChar_opChar (S := S) h])
          · simp [okLineChar]
        · have : x = ')' := by simpa using hx
          subst this; simp [okLineChar]
    · exact srcLine_ok (showSrcOps_chars hF.sok ops ho x hx)

theorem renderCmd_tight (hF : FrontSyms S) (hT : textSymsOk S = true) (generic : List String) (c : Asm.PCmd)
    (hc : CmdOk S generic c) : Tight (renderCmd S c) := by
  have hbe : AsmText.isSpace S.branchEnd = false := by
    simp only [textSymsOk, Bool.and_eq_true, Bool.not_eq_true'] at hT; exact hT.1.1.1.1.2
  cases c with
  | label l =>
    have hne : l.toList ≠ [] := by intro e; simp [CmdOk, labelOk, e, isVarName] at hc
    cases hl : l.toList with
    | nil => exact absurd hl hne
    | cons c cs =>
      have hv : isVarName (c :: cs) = true := by rw [← hl]; exact hc
      have hca : isAlpha c = true := by simp only [isVarName, Bool.and_eq_true] at hv; exact hv.1
      exact ⟨c, cs ++ [S.branchEnd], c :: cs, S.branchEnd, by simp [renderCmd, hl], by simp [renderCmd, hl],
        alpha_not_asmSpace hca, hbe⟩
  | instr mn args ops =>
    obtain ⟨hh, ho⟩ := hc
    cases hm : mn.toList with
    | nil => exact absurd hm hh.ne
    | cons c cs =>
      have hc0 := mnChar_not_asmSpace (hh.chars c (by rw [hm]; exact List.mem_cons_self))
      have hlast : ∃ l d, renderCmd S (.instr mn args ops) = l ++ [d] ∧ AsmText.isSpace d = false := by
        cases ops with
        | cons o os =>
          obtain ⟨l, d, hl, hd⟩ := showSrcOps_last (S := S) o os ho
          exact ⟨mn.toList ++ showArgs S.argOpen ')' args ++ l, d, by simp [renderCmd, hl],
            srcLast_not_asmSpace hF.src hd⟩
        | nil =>
          cases args with
          | cons a as =>
            exact ⟨mn.toList ++ S.argOpen :: argsBody (a :: as), ')', by simp [renderCmd, showArgs, showSrcOps],
              by decide⟩
          | nil =>
            rcases List.eq_nil_or_concat mn.toList with h | ⟨l, d, h⟩
            · exact absurd h hh.ne
            · exact ⟨l, d, by simp [renderCmd, showArgs, showSrcOps, h],
                mnChar_not_asmSpace (hh.chars d (by simp [h]))⟩
      obtain ⟨l, d, hl, hd⟩ := hlast
      exact ⟨c, cs ++ showArgs S.argOpen ')' args ++ showSrcOps S ops, l, d, by simp [renderCmd, hm], hl, hc0, hd⟩

/-- `cleanLine` leaves a tight line without comment characters alone -/
theorem cleanLine_id (hT : textSymsOk S = true) {L : List Char} (ht : Tight L)
    (hch : ∀ x ∈ L, okLineChar S x = true) : cleanLine S.comment.toList L = L := by
  simp only [textSymsOk, Bool.and_eq_true, Bool.not_eq_true'] at hT
  have hcm := hT.1.1.1.1.1.2
  cases hc : S.comment.toList with
  | nil => rw [hc] at hcm; cases hcm
  | cons c cs =>
    rw [hc] at hcm
    simp only [Bool.not_eq_true'] at hcm
    have hnot : c ∉ L := fun h => by rw [hch c h] at hcm; cases hcm
    simp only [cleanLine, strip_tight ht, takeBefore_notin hnot]

/-! ### `_split_preamble_body` on preamble lines followed by body lines -/

/-- a line that `cleanLine` keeps and that is sent to the body -/
def BodyLine (S : Syms) (L : List Char) : Prop :=
  Tight L ∧ (∀ x ∈ L, okLineChar S x = true) ∧ L.head? ≠ some S.preambleStart

theorem splitLoop_body (hT : textSymsOk S = true) : ∀ (ls : List (List Char)), (∀ L ∈ ls, BodyLine S L) →
    ∀ b p acc, ∃ b', splitLoop S.preambleStart S.comment.toList ls (b, p, acc) = .ok (b', p, ls.reverse ++ acc)
  | [], _, b, p, acc => ⟨b, by simp [splitLoop]⟩
  | L :: ls, h, b, p, acc => by
    obtain ⟨ht, hch, hhd⟩ := h L (by simp)
    have hne : L.isEmpty = false := by
      cases L with
      | nil => exact absurd rfl (tight_ne_nil ht)
      | cons _ _ => rfl
    obtain ⟨b', hb'⟩ := splitLoop_body hT ls (fun x hx => h x (List.mem_cons_of_mem _ hx)) false p (L :: acc)
    refine ⟨b', ?_⟩
    simp only [splitLoop, splitStep, cleanLine_id hT ht hch, hne, Bool.false_eq_true, if_false, hhd, hb',
      List.reverse_cons, List.append_assoc, List.singleton_append]

/-- a preamble line `# content` -/
def preLine (S : Syms) (content : List Char) : List Char := S.preambleStart :: ' ' :: content

theorem strip_space_cons (C : List Char) : AsmText.strip (' ' :: C) = AsmText.strip C := by
  simp [AsmText.strip, List.dropWhile_cons, AsmText.isSpace]

theorem splitLoop_pre (hT : textSymsOk S = true) : ∀ (cs : List (List Char)),
    (∀ C ∈ cs, Tight C ∧ (∀ x ∈ C, okLineChar S x = true)) → ∀ (rest : List (List Char)) (p : List (List Char)),
    splitLoop S.preambleStart S.comment.toList (cs.map (preLine S) ++ rest) (true, p, []) =
      splitLoop S.preambleStart S.comment.toList rest (true, cs.reverse ++ p, [])
  | [], _, rest, p => by simp
  | C :: cs, h, rest, p => by
    obtain ⟨ht, hch⟩ := h C (by simp)
    have hT' := hT
    simp only [textSymsOk, Bool.and_eq_true, Bool.not_eq_true', beq_eq_false_iff_ne, ne_eq] at hT'
    obtain ⟨⟨⟨⟨⟨⟨_, _⟩, _⟩, hps⟩, _⟩, hpsp⟩, _⟩ := hT'
    obtain ⟨c, cs', l, d, h1, h2, hc, hd⟩ := ht
    have htL : Tight (preLine S C) :=
      ⟨S.preambleStart, ' ' :: C, S.preambleStart :: ' ' :: l, d, rfl, by simp [preLine, h2], hps, hd⟩
    have hchL : ∀ x ∈ preLine S C, okLineChar S x = true := by
      intro x hx
      simp only [preLine, List.mem_cons] at hx
      rcases hx with rfl | rfl | hx
      · simp [okLineChar]
      · simp [okLineChar, srcLineChar, lineChar]
      · exact hch x hx
    have hdw : (preLine S C).dropWhile (fun x => decide (x = S.preambleStart)) = ' ' :: C := by
      have : (' ' : Char) ≠ S.preambleStart := fun e => hpsp e.symm
      simp [preLine, List.dropWhile_cons, this]
    have ih := splitLoop_pre hT cs (fun x hx => h x (List.mem_cons_of_mem _ hx)) rest (C :: p)
    simp only [List.map_cons, List.cons_append, splitLoop, splitStep, cleanLine_id hT htL hchL]
    have hne : (preLine S C).isEmpty = false := rfl
    have hhd : (preLine S C).head? = some S.preambleStart := rfl
    simp only [hne, Bool.false_eq_true, if_false, hhd, if_true, hdw, strip_space_cons,
      strip_tight ⟨c, cs', l, d, h1, h2, hc, hd⟩, ih, List.reverse_cons, List.append_assoc, List.singleton_append]

/-! ### the canonical text of a proto-subroutine -/

def verStr (v w : Nat) : List Char := showInt v ++ '.' :: showInt w
def contentNetqasm (v w : Nat) : List Char := kwNetqasm ++ ' ' :: verStr v w
def contentAppid (n : Nat) : List Char := kwAppid ++ ' ' :: showInt n

/-- `# NETQASM v.w`, `# APPID n`, then one command per line -/
def canonLines (S : Syms) (v w n : Nat) (P : List Asm.PCmd) : List (List Char) :=
  [preLine S (contentNetqasm v w), preLine S (contentAppid n)] ++ P.map (renderCmd S)

def canonText (S : Syms) (v w n : Nat) (P : List Asm.PCmd) : List Char := joinWith '\n' (canonLines S v w n P)

theorem numChar_ok {c : Char} (h : numChar c = true) : okLineChar S c = true :=
  srcLine_ok (by simp [srcLineChar, lineChar, numChar_opChar (S := S) h])

theorem showInt_tight (v : Int) : Tight (showInt v) := by
  obtain ⟨l, d, hl, hd⟩ := showInt_last v
  cases hc : showInt v with
  | nil => exact absurd hc (showInt_ne_nil v)
  | cons c cs =>
    exact ⟨c, cs, l, d, rfl, by rw [← hc]; exact hl,
      numChar_not_asmSpace (showInt_numChars v c (by rw [hc]; exact List.mem_cons_self)),
      numChar_not_asmSpace (by simp [numChar, hd])⟩

theorem content_facts (kw : List Char) (hk : ∀ c ∈ kw, isAlpha c = true) (hne : kw ≠ []) (tail : List Char)
    (htl : ∃ l d, tail = l ++ [d] ∧ AsmText.isSpace d = false) (hch : ∀ x ∈ tail, okLineChar S x = true) :
    Tight (kw ++ ' ' :: tail) ∧ (∀ x ∈ kw ++ ' ' :: tail, okLineChar S x = true) := by
  obtain ⟨l, d, hl, hd⟩ := htl
  cases hkw : kw with
  | nil => exact absurd hkw hne
  | cons c cs =>
    refine ⟨⟨c, cs ++ ' ' :: tail, (c :: cs) ++ ' ' :: l, d, by simp, by simp [hl],
      alpha_not_asmSpace (hk c (by rw [hkw]; exact List.mem_cons_self)), hd⟩, ?_⟩
    intro x hx
    rw [← hkw] at hx
    simp only [List.mem_append, List.mem_cons] at hx
    rcases hx with hx | rfl | hx
    · exact srcLine_ok (by simp [srcLineChar, hk x hx])
    · simp [okLineChar, srcLineChar, lineChar]
    · exact hch x hx

theorem verStr_facts (v w : Nat) : (∃ l d, verStr v w = l ++ [d] ∧ AsmText.isSpace d = false) ∧
    (∀ x ∈ verStr v w, okLineChar S x = true) := by
  obtain ⟨l, d, hl, hd⟩ := showInt_last (w : Int)
  refine ⟨⟨showInt v ++ '.' :: l, d, by simp [verStr, hl], numChar_not_asmSpace (by simp [numChar, hd])⟩, ?_⟩
  intro x hx
  simp only [verStr, List.mem_append, List.mem_cons] at hx
  rcases hx with hx | rfl | hx
  · exact numChar_ok (showInt_numChars _ x hx)
  · simp [okLineChar]
  · exact numChar_ok (showInt_numChars _ x hx)

theorem appid_facts (n : Nat) : (∃ l d, showInt (n : Int) = l ++ [d] ∧ AsmText.isSpace d = false) ∧
    (∀ x ∈ showInt (n : Int), okLineChar S x = true) := by
  obtain ⟨l, d, hl, hd⟩ := showInt_last (n : Int)
  exact ⟨⟨l, d, hl, numChar_not_asmSpace (by simp [numChar, hd])⟩, fun x hx => numChar_ok (showInt_numChars _ x hx)⟩

/-- **`_split_preamble_body`** on the canonical text -/
theorem split_canon (hF : FrontSyms S) (hT : textSymsOk S = true) (generic : List String) (v w n : Nat)
    (P : List Asm.PCmd) (hP : ∀ c ∈ P, CmdOk S generic c) :
    splitPreambleBody S.preambleStart S.comment.toList (canonText S v w n P) =
      .ok ([contentNetqasm v w, contentAppid n], P.map (renderCmd S)) := by
  have hT' := hT
  simp only [textSymsOk, Bool.and_eq_true, Bool.not_eq_true', beq_eq_false_iff_ne, ne_eq] at hT'
  obtain ⟨⟨⟨⟨⟨⟨hnl, _⟩, _⟩, _⟩, hpa⟩, _⟩, _⟩ := hT'
  have c1 := content_facts (S := S) kwNetqasm (by decide) (by decide) (verStr v w) (verStr_facts (S := S) v w).1 (verStr_facts (S := S) v w).2
  have c2 := content_facts (S := S) kwAppid (by decide) (by decide) (showInt (n : Int)) (appid_facts (S := S) n).1 (appid_facts (S := S) n).2
  -- body lines
  have hbody : ∀ L ∈ P.map (renderCmd S), BodyLine S L := by
    intro L hL
    obtain ⟨c, hc, rfl⟩ := List.mem_map.1 hL
    refine ⟨renderCmd_tight hF hT generic c (hP c hc), renderCmd_chars hF generic c (hP c hc), ?_⟩
    obtain ⟨x, xs, _, _, hx, _, _, _⟩ := renderCmd_tight hF hT generic c (hP c hc)
    rw [hx]
    simp only [List.head?_cons, ne_eq, Option.some.injEq]
    intro e
    -- the first character of a command is a letter, a digit or `_`; the preamble marker is none of them
    have hfirst : isAlpha x = true ∨ mnCharOk x = true := by
      cases c with
      | label l =>
        have hv : isVarName l.toList = true := hP _ hc
        have : l.toList = x :: xs ++ [] ∨ True := Or.inr trivial
        simp only [renderCmd] at hx
        cases hl : l.toList with
        | nil => simp [hl, isVarName] at hv
        | cons y ys =>
          rw [hl] at hx hv
          simp only [List.cons_append, List.cons.injEq] at hx
          simp only [isVarName, Bool.and_eq_true] at hv
          exact Or.inl (hx.1 ▸ hv.1)
      | instr mn args ops =>
        obtain ⟨hh, _⟩ := hP _ hc
        simp only [renderCmd] at hx
        cases hm : mn.toList with
        | nil => exact absurd hm hh.ne
        | cons y ys =>
          rw [hm] at hx
          simp only [List.cons_append, List.cons.injEq] at hx
          exact Or.inr (hx.1 ▸ hh.chars y (by rw [hm]; exact List.mem_cons_self))
    rcases hfirst with h | h
    · rw [e, hpa] at h; cases h
    · rw [e, hF.sok.preamble] at h; cases h
  -- no line contains a newline
  have hlines : ∀ L ∈ canonLines S v w n P, '\n' ∉ L := by
    intro L hL hin
    have hok : okLineChar S '\n' = true := by
      simp only [canonLines, List.cons_append, List.nil_append, List.mem_cons] at hL
      rcases hL with rfl | rfl | hL
      · simp only [preLine, List.mem_cons] at hin
        rcases hin with e | e | hin
        · rw [e]; simp [okLineChar]
        · cases e
        · exact c1.2 _ hin
      · simp only [preLine, List.mem_cons] at hin
        rcases hin with e | e | hin
        · rw [e]; simp [okLineChar]
        · cases e
        · exact c2.2 _ hin
      · exact (hbody L hL).2.1 _ hin
    rw [hnl] at hok; cases hok
  unfold splitPreambleBody canonText
  rw [splitOn_joinWith '\n' _ (by simp [canonLines]) hlines]
  have hpre := splitLoop_pre hT [contentNetqasm v w, contentAppid n]
    (by intro C hC; simp only [List.mem_cons, List.mem_nil_iff, or_false] at hC; rcases hC with rfl | rfl
        · exact c1
        · exact c2) (P.map (renderCmd S)) []
  simp only [List.map_cons, List.map_nil] at hpre
  simp only [canonLines]
  rw [hpre]
  obtain ⟨b', hb'⟩ := splitLoop_body hT _ hbody true ([contentNetqasm v w, contentAppid n].reverse ++ []) []
  rw [hb']
  simp

/-! ### `_parse_preamble`, the version, the macro pass without macros -/

theorem groupByWord_content (hT : textSymsOk S = true) (kw tail : List Char)
    (hf : Tight (kw ++ ' ' :: tail) ∧ (∀ x ∈ kw ++ ' ' :: tail, okLineChar S x = true))
    (h1 : ' ' ∉ kw) (h2 : ' ' ∉ tail) : groupByWord '{' '}' (kw ++ ' ' :: tail) = some [kw, tail] := by
  have hT' := hT
  simp only [textSymsOk, Bool.and_eq_true, Bool.not_eq_true'] at hT'
  have hbr : '{' ∉ kw ++ ' ' :: tail := fun h => by rw [hf.2 _ h] at hT'; exact absurd hT'.2 (by simp)
  rw [AsmText.groupByWord_eq_splitOn '{' '}' (by decide) _ (by rw [strip_tight hf.1]; exact hbr), strip_tight hf.1,
    splitOn_append h1, splitOn_notin h2]

theorem space_notin_num {l : List Char} (h : ∀ c ∈ l, numChar c = true ∨ c = '.') : ' ' ∉ l := by
  intro hin; rcases h _ hin with h | h <;> simp [numChar, isDigit] at h

theorem parsePreamble_canon (hT : textSymsOk S = true) (v w n : Nat) :
    parsePreamble [contentNetqasm v w, contentAppid n] =
      .ok [(kwNetqasm, [[verStr v w]]), (kwAppid, [[showInt (n : Int)]])] := by
  have c1 := content_facts (S := S) kwNetqasm (by decide) (by decide) (verStr v w) (verStr_facts (S := S) v w).1 (verStr_facts (S := S) v w).2
  have c2 := content_facts (S := S) kwAppid (by decide) (by decide) (showInt (n : Int)) (appid_facts (S := S) n).1 (appid_facts (S := S) n).2
  have g1 := groupByWord_content hT kwNetqasm (verStr v w) c1 (by decide) (space_notin_num (by
    intro c hc; simp only [verStr, List.mem_append, List.mem_cons] at hc
    rcases hc with hc | rfl | hc
    · exact Or.inl (showInt_numChars _ c hc)
    · exact Or.inr rfl
    · exact Or.inl (showInt_numChars _ c hc)))
  have g2 := groupByWord_content hT kwAppid (showInt (n : Int)) c2 (by decide)
    (space_notin_num (fun c hc => Or.inl (showInt_numChars _ c hc)))
  simp only [contentNetqasm, contentAppid] at g1 g2 ⊢
  have hne : kwNetqasm ≠ kwAppid := by decide
  have hne' : kwAppid ≠ kwNetqasm := by decide
  simp only [parsePreamble, preambleDict, g1, g2, addEntry, hne, if_false, checkDict, if_true, hne', checkSingle,
    List.length_cons, List.length_nil]

theorem pyInt_showInt (x : Int) : pyInt (showInt x) = some x := by
  unfold pyInt
  rw [asm_strip_showInt]
  split
  · rename_i r h
    have := showInt_numChars x '+' (by rw [h]; exact List.mem_cons_self)
    simp [numChar, isDigit] at this
  · exact parseConst_showInt x

theorem dot_notin_showInt (x : Int) : '.' ∉ showInt x := by
  intro h; have := showInt_numChars x _ h; simp [numChar, isDigit] at this

theorem parseVersion_canon (v w : Nat) : parseVersion (verStr v w) = .ok ((v : Int), (w : Int)) := by
  have ht : Tight (verStr v w) := by
    obtain ⟨c, cs, _, _, h1, _, hc, _⟩ := showInt_tight (v : Int)
    obtain ⟨l, d, hl, hd⟩ := showInt_last (w : Int)
    exact ⟨c, cs ++ '.' :: showInt w, showInt v ++ '.' :: l, d, by simp [verStr, h1], by simp [verStr, hl], hc,
      numChar_not_asmSpace (by simp [numChar, hd])⟩
  unfold parseVersion
  rw [strip_tight ht]
  simp only [verStr, splitOn_append (dot_notin_showInt _), splitOn_notin (dot_notin_showInt _), pyInt_showInt]

theorem applyMacros_nil (lines : List (List Char)) (h : ∀ l ∈ lines, '\n' ∉ l) : applyMacros lines [] = lines := by
  cases lines with
  | nil => rfl
  | cons l ls =>
    simp only [applyMacros, List.isEmpty_cons, Bool.false_eq_true, if_false, substAll, List.foldl_nil, asm_splitOn_eq]
    exact splitOn_joinWith '\n' (l :: ls) (by simp) h

/-- **`parse_render_program`** (canonical rendering).  For every proto program `P` whose commands
the front end can read (`CmdOk`: labels, instructions with bracketed arguments, every source
operand form) the text `# NETQASM v.w` / `# APPID n` / one command per line is parsed by the model
of `parse_text_protosubroutine` into exactly the version, the app id and `P`. -/
theorem parseTextProto_canon (hF : FrontSyms S) (hT : textSymsOk S = true) (generic : List String) (v w n : Nat)
    (P : List Asm.PCmd) (hP : ∀ c ∈ P, CmdOk S generic c) :
    parseTextProto S generic (canonText S v w n P) = .ok ⟨some ((v : Int), (w : Int)), some (n : Int), P⟩ := by
  have hnl : ∀ l ∈ P.map (renderCmd S), '\n' ∉ l := by
    intro l hl hin
    obtain ⟨c, hc, rfl⟩ := List.mem_map.1 hl
    have := renderCmd_chars hF generic c (hP c hc) _ hin
    have hT' := hT
    simp only [textSymsOk, Bool.and_eq_true, Bool.not_eq_true'] at hT'
    rw [hT'.1.1.1.1.1.1] at this; cases this
  simp only [parseTextProto, split_canon hF hT generic v w n P hP, parsePreamble_canon hT v w n]
  simp [lookupKey, kwNetqasm, kwAppid, kwDefine, applyMacros_nil _ hnl, parseBody_render hF generic P hP,
    parseVersion_canon, pyInt_showInt, Except.map]

/-! ### blank and comment-only lines anywhere -/

/-- `ls'` is `ls` with lines interleaved that `_split_preamble_body` ignores (blank lines,
comment-only lines: whatever `cleanLine` empties) -/
inductive Padded (cmt : List Char) : List (List Char) → List (List Char) → Prop
  | nil : Padded cmt [] []
  | keep {x : List Char} {a b : List (List Char)} : Padded cmt a b → Padded cmt (x :: a) (x :: b)
  | pad {x : List Char} {a b : List (List Char)} : cleanLine cmt x = [] → Padded cmt a b → Padded cmt a (x :: b)

theorem splitLoop_padded {pre : Char} {cmt : List Char} {ls ls' : List (List Char)} (h : Padded cmt ls ls') :
    ∀ st, splitLoop pre cmt ls' st = splitLoop pre cmt ls st := by
  induction h with
  | nil => intro st; rfl
  | @keep x a b _ ih =>
    intro st
    simp only [splitLoop]
    cases splitStep pre cmt st x with
    | error e => rfl
    | ok st' => exact ih st'
  | @pad x a b hx _ ih =>
    intro st
    simp only [splitLoop, splitStep, hx, List.isEmpty_nil, if_true]
    exact ih st

/-- a line of blanks is ignored -/
theorem cleanLine_blank (cmt : List Char) (x : List Char) (h : ∀ c ∈ x, AsmText.isSpace c = true) :
    cleanLine cmt x = [] := by
  have : x.dropWhile AsmText.isSpace = [] := by
    induction x with
    | nil => rfl
    | cons c cs ih => simp [List.dropWhile_cons, h c (by simp), ih (fun d hd => h d (by simp [hd]))]
  simp [cleanLine, AsmText.strip, this, takeBefore]

/-- a line that starts with the comment marker is ignored -/
theorem cleanLine_comment (cmt rest : List Char) (hc : ∃ c cs, cmt = c :: cs ∧ AsmText.isSpace c = false)
    (hr : ∃ l d, cmt ++ rest = l ++ [d] ∧ AsmText.isSpace d = false) : cleanLine cmt (cmt ++ rest) = [] := by
  obtain ⟨c, cs, hcm, hcs⟩ := hc
  obtain ⟨l, d, hl, hd⟩ := hr
  have hs : AsmText.strip (cmt ++ rest) = cmt ++ rest :=
    asm_strip_of_ends hcs hd ⟨cs ++ rest, by rw [hcm]; rfl⟩ ⟨l, hl⟩
  simp only [cleanLine, hs]
  rw [hcm]
  have hp : (c :: cs).isPrefixOf (c :: (cs ++ rest)) = true :=
    List.isPrefixOf_iff_prefix.2 ⟨rest, by simp⟩
  simp only [List.cons_append, takeBefore, hp, if_true]

/-- **`parse_render_program`** with blank / comment-only lines interleaved anywhere -/
theorem parseTextProto_padded (hF : FrontSyms S) (hT : textSymsOk S = true) (generic : List String) (v w n : Nat)
    (P : List Asm.PCmd) (hP : ∀ c ∈ P, CmdOk S generic c) (ls' : List (List Char))
    (hpad : Padded S.comment.toList (canonLines S v w n P) ls') (hnl : ∀ l ∈ ls', '\n' ∉ l) :
    parseTextProto S generic (joinWith '\n' ls') = .ok ⟨some ((v : Int), (w : Int)), some (n : Int), P⟩ := by
  have hne : ls' ≠ [] := by
    intro e; subst e
    cases hpad
  have h0 := parseTextProto_canon hF hT generic v w n P hP
  have hsplit : splitPreambleBody S.preambleStart S.comment.toList (joinWith '\n' ls') =
      splitPreambleBody S.preambleStart S.comment.toList (canonText S v w n P) := by
    have hcanon : Text.splitOn '\n' (canonText S v w n P) = canonLines S v w n P := by
      -- read off from the proof of `split_canon`: the canonical lines contain no newline
      have := split_canon hF hT generic v w n P hP
      unfold canonText
      apply splitOn_joinWith '\n' _ (by simp [canonLines])
      intro L hL hin
      have hT' := hT
      simp only [textSymsOk, Bool.and_eq_true, Bool.not_eq_true'] at hT'
      have hnlc := hT'.1.1.1.1.1.1
      have c1 := content_facts (S := S) kwNetqasm (by decide) (by decide) (verStr v w) (verStr_facts (S := S) v w).1 (verStr_facts (S := S) v w).2
      have c2 := content_facts (S := S) kwAppid (by decide) (by decide) (showInt (n : Int)) (appid_facts (S := S) n).1 (appid_facts (S := S) n).2
      have hok : okLineChar S '\n' = true := by
        simp only [canonLines, List.cons_append, List.nil_append, List.mem_cons] at hL
        rcases hL with rfl | rfl | hL
        · simp only [preLine, List.mem_cons] at hin
          rcases hin with e | e | hin
          · rw [e]; simp [okLineChar]
          · cases e
          · exact c1.2 _ hin
        · simp only [preLine, List.mem_cons] at hin
          rcases hin with e | e | hin
          · rw [e]; simp [okLineChar]
          · cases e
          · exact c2.2 _ hin
        · obtain ⟨c, hc, rfl⟩ := List.mem_map.1 hL
          exact renderCmd_chars hF generic c (hP c hc) _ hin
      rw [hnlc] at hok; cases hok
    unfold splitPreambleBody
    rw [splitOn_joinWith '\n' ls' hne hnl, hcanon, splitLoop_padded hpad]
  unfold parseTextProto at h0 ⊢
  rw [hsplit]
  exact h0

/-! ### macros: the body level -/

/-- **`parse_render_with_macros`, body level.**  If the sequential substitution of `_apply_macros` is
the token-wise one on these body lines (`C03.macros_tokenwise` gives the hypotheses under which it
is) and the token-wise reading of the body is the rendering of `P`, then `_create_subroutine` reads
`P` from the substituted body. -/
theorem parseBody_macros (hF : FrontSyms S) (hT : textSymsOk S = true) (generic : List String)
    (P : List Asm.PCmd) (hP : ∀ c ∈ P, CmdOk S generic c) (hne : P ≠ [])
    (B : List (List Char)) (hB : B ≠ []) (macros : List (List Char × List Char))
    (hseq : substAll reSub macros (joinWith '\n' B) = substTokenwise macros (joinWith '\n' B))
    (htok : substTokenwise macros (joinWith '\n' B) = joinWith '\n' (P.map (renderCmd S))) :
    parseBody S generic (applyMacros B macros) = .ok P := by
  have hnl : ∀ l ∈ P.map (renderCmd S), '\n' ∉ l := by
    intro l hl hin
    obtain ⟨c, hc, rfl⟩ := List.mem_map.1 hl
    have := renderCmd_chars hF generic c (hP c hc) _ hin
    have hT' := hT
    simp only [textSymsOk, Bool.and_eq_true, Bool.not_eq_true'] at hT'
    rw [hT'.1.1.1.1.1.1] at this; cases this
  have hBe : B.isEmpty = false := by cases B with | nil => exact absurd rfl hB | cons _ _ => rfl
  simp only [applyMacros, hBe, Bool.false_eq_true, if_false, hseq, htok, asm_splitOn_eq]
  rw [splitOn_joinWith '\n' _ (by simpa using hne) hnl]
  exact parseBody_render hF generic P hP

end NQ.AsmFront
