/-
Helper lemmas for C09 (model `Model/QubitMgr.lean`).
-/
import NetqasmVerif.Model.QubitMgr
namespace NQ.QM

/-! ### lowest unused id -/

theorem firstFree_spec (ids : List Nat) : ∀ (f a : Nat), (∀ x ∈ ids, x < a + f) →
    firstFree ids f a ∉ ids ∧ a ≤ firstFree ids f a ∧
      ∀ w, a ≤ w → w < firstFree ids f a → w ∈ ids := by
  intro f
  induction f with
  | zero =>
    intro a h
    refine ⟨?_, Nat.le_refl _, ?_⟩
    · intro hm; have := h _ hm; simp [firstFree] at this
    · intro w h1 h2; simp [firstFree] at h2; omega
  | succ f ih =>
    intro a h
    unfold firstFree
    by_cases ha : a ∈ ids
    · rw [if_pos ha]
      have := ih (a + 1) (fun x hx => by have := h x hx; omega)
      refine ⟨this.1, by omega, ?_⟩
      intro w h1 h2
      by_cases hw : w = a
      · subst hw; exact ha
      · exact this.2.2 w (by omega) h2
    · rw [if_neg ha]
      exact ⟨ha, Nat.le_refl _, fun w h1 h2 => by omega⟩

theorem le_sum_of_mem : ∀ (ids : List Nat) (x : Nat), x ∈ ids → x ≤ ids.sum := by
  intro ids
  induction ids with
  | nil => intro x h; cases h
  | cons a t ih =>
    intro x h
    simp only [List.sum_cons]
    rcases List.mem_cons.mp h with h | h
    · omega
    · have := ih x h; omega

theorem lowestUnused_not_mem (ids : List Nat) : lowestUnused ids ∉ ids :=
  (firstFree_spec ids (ids.sum + 1) 0 (fun x hx => by have := le_sum_of_mem ids x hx; omega)).1

theorem lowestUnused_below (ids : List Nat) (w : Nat) (h : w < lowestUnused ids) : w ∈ ids :=
  (firstFree_spec ids (ids.sum + 1) 0 (fun x hx => by have := le_sum_of_mem ids x hx; omega)).2.2
    w (Nat.zero_le _) h

/-- the id that is handed out is the *lowest* unused one -/
theorem lowestUnused_le (ids : List Nat) (v : Nat) (h : v ∉ ids) : lowestUnused ids ≤ v := by
  rcases Nat.lt_or_ge v (lowestUnused ids) with h1 | h1
  · exact absurd (lowestUnused_below ids v h1) h
  · exact h1

theorem pigeon : ∀ (k : Nat) (ids : List Nat), ids.Nodup → (∀ w, w < k → w ∈ ids) → k ≤ ids.length := by
  intro k
  induction k with
  | zero => intros; omega
  | succ k ih =>
    intro ids hn h
    have hk : k ∈ ids := h k (by omega)
    have h1 := ih (ids.erase k) (hn.erase k)
      (fun w hw => (List.mem_erase_of_ne (by omega)).mpr (h w (by omega)))
    rw [List.length_erase_of_mem hk] at h1
    have : 0 < ids.length := List.length_pos_of_mem hk
    omega

theorem lowestUnused_le_length (ids : List Nat) (hn : ids.Nodup) : lowestUnused ids ≤ ids.length :=
  pigeon _ ids hn (lowestUnused_below ids)

/-! ### the controller -/

theorem run_append (m : Nat) : ∀ (a : List Ev) (u : List Nat) (b : List Ev),
    run m u (a ++ b) = match run m u a with
      | .ok u' => run m u' b
      | .error f => .error f := by
  intro a
  induction a with
  | nil => intro u b; simp [run]
  | cons e es ih =>
    intro u b
    simp only [List.cons_append, run]
    cases step m u e with
    | ok u' => simp only [ih]
    | error f => rfl

theorem run_snoc_ok {m : Nat} {u0 u u' : List Nat} {a b : List Ev}
    (h1 : run m u0 a = .ok u) (h2 : run m u b = .ok u') : run m u0 (a ++ b) = .ok u' := by
  rw [run_append, h1]; exact h2

theorem step_alloc {m : Nat} {u : List Nat} {v : Nat} (h1 : v < m) (h2 : v ∉ u) :
    step m u (.alloc v) = .ok (v :: u) := by
  simp only [step]; rw [if_neg (by omega), if_neg h2]

theorem step_deliver {m : Nat} {u : List Nat} {v : Nat} (h1 : v < m) (h2 : v ∉ u) :
    step m u (.deliver v) = .ok (v :: u) := by
  simp only [step]; rw [if_neg h2, if_neg (by omega)]

theorem need_none {m : Nat} {u : List Nat} {v : Nat} (h1 : v < m) (h2 : v ∈ u) : need m u v = none := by
  simp only [need]; rw [if_neg (by omega), if_pos h2]

theorem step_use {m : Nat} {u : List Nat} {v : Nat} (h1 : v < m) (h2 : v ∈ u) :
    step m u (.use v) = .ok u := by
  simp only [step, need_none h1 h2]

theorem step_use2 {m : Nat} {u : List Nat} {a b : Nat} (h1 : a < m) (h2 : a ∈ u) (h3 : b < m) (h4 : b ∈ u) :
    step m u (.use2 a b) = .ok u := by
  simp only [step, need_none h1 h2, need_none h3 h4]

theorem step_free {m : Nat} {u : List Nat} {v : Nat} (h1 : v < m) (h2 : v ∈ u) :
    step m u (.free v) = .ok (u.filter (· != v)) := by
  simp only [step, need_none h1 h2]

/-! ### handles -/

theorem activeIds_append (a b : List Handle) : activeIds (a ++ b) = activeIds a ++ activeIds b := by
  simp [activeIds]

theorem activeIds_cons_active (q : Handle) (l : List Handle) (h : q.active = true) :
    activeIds (q :: l) = q.id :: activeIds l := by
  simp [activeIds, h]

theorem activeIds_cons_inactive (q : Handle) (l : List Handle) (h : q.active = false) :
    activeIds (q :: l) = activeIds l := by
  simp [activeIds, h]

theorem split_at : ∀ (hs : List Handle) (h : Nat) (q : Handle), hs[h]? = some q →
    ∃ l1 l2, hs = l1 ++ q :: l2 ∧ l1.length = h := by
  intro hs
  induction hs with
  | nil => intro h q hq; simp at hq
  | cons a t ih =>
    intro h q hq
    cases h with
    | zero => simp at hq; subst hq; exact ⟨[], t, rfl, rfl⟩
    | succ h =>
      simp at hq
      obtain ⟨l1, l2, e, hl⟩ := ih h q hq
      exact ⟨a :: l1, l2, by rw [e]; rfl, by simp [hl]⟩

theorem set_split (l1 l2 : List Handle) (q q' : Handle) :
    (l1 ++ q :: l2).set l1.length q' = l1 ++ q' :: l2 := by
  induction l1 with
  | nil => rfl
  | cons a t ih => simp [ih]

theorem getElem?_split (l1 l2 : List Handle) (q : Handle) : (l1 ++ q :: l2)[l1.length]? = some q := by
  induction l1 with
  | nil => rfl
  | cons a t ih => simp [ih]

def limit (c : Cfg) : Nat := if c.nv then c.maxq - 1 else c.maxq

/-- Joint invariant of SDK bookkeeping and controller, *including* the not-yet-flushed
commands: the pending events run without fault from the controller's current unit module and
end in exactly the SDK's set of active ids. -/
structure Inv (c : Cfg) (st : St) : Prop where
  nodup : (activeIds st.hs).Nodup
  bound : ∀ v ∈ activeIds st.hs, v < c.maxq
  count : (activeIds st.hs).length ≤ limit c
  runs : ∃ u, run c.maxq st.unit st.evs = .ok u ∧ ∀ v, v ∈ u ↔ v ∈ activeIds st.hs
  peep : ∀ v, st.lastAlloc = some v → ∃ pre u0, st.evs = pre ++ [.alloc v, .use v] ∧
    run c.maxq st.unit pre = .ok u0 ∧ v ∉ u0

theorem limit_le (c : Cfg) : limit c ≤ c.maxq := by
  unfold limit; split <;> omega

theorem inv_init (c : Cfg) : Inv c St.init :=
  ⟨by simp [St.init, activeIds], by simp [St.init, activeIds], by simp [St.init, activeIds],
   ⟨[], by simp [St.init, run, activeIds]⟩, by simp [St.init]⟩

/-! ### hypotheses of the partial theorem, as a decidable predicate -/

def activeAt (st : St) (h : Nat) : Bool :=
  match st.hs[h]? with
  | some q => q.active
  | none => false

def idAt (st : St) (h : Nat) : Nat :=
  match st.hs[h]? with
  | some q => q.id
  | none => 0

/-- the F28 hypothesis: after freeing up id 0, the ids 1..n-1 the pairs will be moved to are
unused -/
def nvKeepOk (c : Cfg) (st : St) (n : Nat) : Bool :=
  (List.range n).all (fun k => k == 0 || !(activeIds (freeUp c st).hs).contains k)

/-- The operation is a host-program step inside the statement of C09 *and* outside the open
findings: budget (`limit`), gates on live handles; no carbon–carbon gate under the NV transpiler
while id 0 is free (F30); NV keep of one pair at a time (F28); no sequential keep (F29), no
context block (F12). -/
def opOk (c : Cfg) (st : St) : Op → Bool
  | .new => decide ((activeIds st.hs).length + 1 ≤ limit c)
  | .gate h => activeAt st h
  | .gate2 h1 h2 => activeAt st h1 && activeAt st h2 && (h1 != h2) &&
      (!c.transp || idAt st h1 == 0 || idAt st h2 == 0 || (activeIds st.hs).contains 0)
  | .meas h _ => decide (h < st.hs.length)
  | .free h => decide (h < st.hs.length)
  | .keep _ n => decide (1 ≤ n) && (decide (c.maxq < n) ||
      (decide ((activeIds st.hs).length + n ≤ limit c) && (!c.nv || nvKeepOk c st n)))
  | .seq _ n b => decide ((activeIds st.hs).length + 1 ≤ limit c) &&
      (b.consume.consumes || decide (n ≤ 1))
  | .postk _ n b => decide (c.maxq < n) ||
      (if c.single then decide ((activeIds st.hs).length + 1 ≤ limit c) &&
          (b.consume.consumes || decide (n ≤ 1))
       else decide ((activeIds st.hs).length + n ≤ limit c))
  | .ctx _ n sequential b => (!sequential && decide (c.maxq < n)) ||
      (if sequential || c.single then decide ((activeIds st.hs).length + 1 ≤ limit c) &&
          (b.consume.consumes || decide (n ≤ 1))
       else decide ((activeIds st.hs).length + n ≤ limit c))
  | .keepr _ n fails tries => decide (1 ≤ n) && decide (n ≤ c.maxq) && decide (fails < tries) &&
      decide ((activeIds st.hs).length + n ≤ limit c) && (!c.nv || nvKeepOk c st n)
  | .seqr _ _ b fails tries => decide (fails < tries) && b.consume.consumes &&
      decide ((activeIds st.hs).length + 1 ≤ limit c)
  | .flush => true
  | .close => true

def good (c : Cfg) : St → List Op → Bool
  | _, [] => true
  | st, op :: ops => opOk c st op && good c (apply c st op).1 ops

theorem mem_activeIds_of_get {hs : List Handle} {h : Nat} {q : Handle}
    (hq : hs[h]? = some q) (ha : q.active = true) : q.id ∈ activeIds hs := by
  obtain ⟨l1, l2, e, _⟩ := split_at hs h q hq
  subst e
  rw [activeIds_append, activeIds_cons_active q l2 ha]
  simp

theorem inv_append_use {c : Cfg} {st : St} (hi : Inv c st) (es : List Ev)
    (hes : ∀ u, (∀ v, v ∈ u ↔ v ∈ activeIds st.hs) → run c.maxq u es = .ok u) :
    Inv c { st with evs := st.evs ++ es, lastAlloc := none } := by
  obtain ⟨u, hu, hm⟩ := hi.runs
  exact ⟨hi.nodup, hi.bound, hi.count, ⟨u, run_snoc_ok hu (hes u hm), hm⟩, by simp⟩

theorem activeIds_snoc (hs : List Handle) (v : Nat) :
    activeIds (hs ++ [⟨v, true⟩]) = activeIds hs ++ [v] := by
  rw [activeIds_append]; rfl

theorem nodup_snoc {l : List Nat} {v : Nat} (h : l.Nodup) (hv : v ∉ l) : (l ++ [v]).Nodup :=
  List.nodup_append.mpr ⟨h, by simp, by
    intro a ha b hb'; simp at hb'; subst hb'; intro e; subst e; exact hv ha⟩

theorem inv_new {c : Cfg} {st : St} (hi : Inv c st) (hb : (activeIds st.hs).length + 1 ≤ limit c) :
    Inv c (apply c st .new).1 := by
  obtain ⟨u, hu, hm⟩ := hi.runs
  have hv := lowestUnused_not_mem (activeIds st.hs)
  have hl := lowestUnused_le_length (activeIds st.hs) hi.nodup
  have hlim := limit_le c
  have hlt : lowestUnused (activeIds st.hs) < c.maxq := by omega
  simp only [apply]
  refine ⟨?_, ?_, ?_, ?_, ?_⟩
  · rw [activeIds_snoc]; exact nodup_snoc hi.nodup hv
  · intro v hv'
    rw [activeIds_snoc] at hv'
    rcases List.mem_append.mp hv' with h | h
    · exact hi.bound v h
    · simp at h; omega
  · rw [activeIds_snoc]; simp; exact hb
  · refine ⟨lowestUnused (activeIds st.hs) :: u, run_snoc_ok hu ?_, ?_⟩
    · have hnu : lowestUnused (activeIds st.hs) ∉ u := fun h => hv ((hm _).mp h)
      simp only [run, step_alloc hlt hnu, step_use hlt (List.mem_cons_self)]
    · intro v
      rw [activeIds_snoc, List.mem_append, List.mem_cons, hm v]
      simp only [List.mem_singleton]
      exact Or.comm
  · intro v hv'
    simp only [Option.some.injEq] at hv'
    subst hv'
    exact ⟨st.evs, u, rfl, hu, fun h => hv ((hm _).mp h)⟩

theorem activeAt_get {st : St} {h : Nat} (ha : activeAt st h = true) :
    ∃ q, st.hs[h]? = some q ∧ q.active = true ∧ idAt st h = q.id := by
  unfold activeAt at ha
  unfold idAt
  cases hq : st.hs[h]? with
  | none => rw [hq] at ha; cases ha
  | some q => rw [hq] at ha; exact ⟨q, rfl, ha, rfl⟩

theorem inv_gate {c : Cfg} {st : St} (hi : Inv c st) {h : Nat} (ha : activeAt st h = true) :
    Inv c (apply c st (.gate h)).1 ∧ (apply c st (.gate h)).2 = .ok := by
  obtain ⟨q, hq, hact, _⟩ := activeAt_get ha
  simp only [apply, hq]
  refine ⟨inv_append_use hi _ ?_, trivial⟩
  intro u hm
  have hmem := mem_activeIds_of_get hq hact
  simp only [run, step_use (hi.bound _ hmem) ((hm _).mpr hmem)]

theorem inv_gate2 {c : Cfg} {st : St} (hi : Inv c st) {h1 h2 : Nat}
    (ha1 : activeAt st h1 = true) (ha2 : activeAt st h2 = true)
    (h30 : (!c.transp || idAt st h1 == 0 || idAt st h2 == 0 || (activeIds st.hs).contains 0) = true) :
    Inv c (apply c st (.gate2 h1 h2)).1 ∧ (apply c st (.gate2 h1 h2)).2 = .ok := by
  obtain ⟨q1, hq1, hact1, hid1⟩ := activeAt_get ha1
  obtain ⟨q2, hq2, hact2, hid2⟩ := activeAt_get ha2
  simp only [apply, hq1, hq2]
  refine ⟨inv_append_use hi _ ?_, trivial⟩
  intro u hm
  have hm1 := mem_activeIds_of_get hq1 hact1
  have hm2 := mem_activeIds_of_get hq2 hact2
  have s2 := step_use2 (hi.bound _ hm1) ((hm _).mpr hm1) (hi.bound _ hm2) ((hm _).mpr hm2)
  unfold gate2Evs
  split
  · rename_i hcc
    simp only [Bool.and_eq_true, bne_iff_ne, ne_eq] at hcc
    rw [hid1, hid2] at h30
    have h0 : 0 ∈ activeIds st.hs := by
      simp only [Bool.or_eq_true, Bool.not_eq_true', beq_iff_eq, List.contains_eq_mem,
        decide_eq_true_eq] at h30
      rcases h30 with ((h | h) | h) | h
      · rw [hcc.1.1] at h; cases h
      · exact absurd h hcc.1.2
      · exact absurd h hcc.2
      · exact h
    simp only [run, step_use (hi.bound _ h0) ((hm _).mpr h0), s2]
  · simp only [run, s2]

theorem inv_flush {c : Cfg} {st : St} (hi : Inv c st) :
    Inv c (flushSt c st).1 ∧ (flushSt c st).2 = .ok ∧ (flushSt c st).1.evs = [] ∧
      (flushSt c st).1.hs = st.hs := by
  obtain ⟨u, hu, hm⟩ := hi.runs
  simp only [flushSt, hu]
  exact ⟨⟨hi.nodup, hi.bound, hi.count, ⟨u, rfl, hm⟩, by simp⟩, trivial, trivial, trivial⟩

theorem activeIds_all_inactive (hs : List Handle) :
    activeIds (hs.map (fun h => (⟨h.id, false⟩ : Handle))) = [] := by
  induction hs with
  | nil => rfl
  | cons a t ih => rw [List.map_cons, activeIds_cons_inactive _ _ (by rfl), ih]

theorem inv_close {c : Cfg} {st : St} (hi : Inv c st) :
    Inv c (apply c st .close).1 ∧ (apply c st .close).2 = .ok := by
  obtain ⟨h1, h2, h3, _⟩ := inv_flush hi
  simp only [apply]
  generalize hf : flushSt c st = r at h1 h2 h3
  obtain ⟨st1, res⟩ := r
  simp only at h2 h3
  subst h2
  simp only
  refine ⟨⟨?_, ?_, ?_, ⟨[], ?_, ?_⟩, ?_⟩, trivial⟩
  · rw [activeIds_all_inactive]; exact List.nodup_nil
  · rw [activeIds_all_inactive]; intro v hv; cases hv
  · rw [activeIds_all_inactive]; simp
  · simp only [h3, run]
  · rw [activeIds_all_inactive]; simp
  · intro v hv
    have := h1.peep v hv
    obtain ⟨pre, u0, e, _⟩ := this
    rw [h3] at e
    simp at e

theorem nodup_remove_mid {A1 A2 : List Nat} {v : Nat} (h : (A1 ++ v :: A2).Nodup) :
    (A1 ++ A2).Nodup ∧ v ∉ A1 ∧ v ∉ A2 := by
  rw [List.nodup_append] at h
  obtain ⟨h1, h2, h3⟩ := h
  rw [List.nodup_cons] at h2
  refine ⟨List.nodup_append.mpr ⟨h1, h2.2, fun a ha b hb => h3 a ha b (List.mem_cons_of_mem _ hb)⟩,
    fun hv => h3 v hv v List.mem_cons_self rfl, h2.1⟩

theorem nodup_replace_mid {A1 A2 : List Nat} {v w : Nat} (h : (A1 ++ v :: A2).Nodup)
    (hw1 : w ∉ A1) (hw2 : w ∉ A2) : (A1 ++ w :: A2).Nodup := by
  rw [List.nodup_append] at h ⊢
  obtain ⟨h1, h2, h3⟩ := h
  rw [List.nodup_cons] at h2 ⊢
  refine ⟨h1, ⟨hw2, h2.2⟩, ?_⟩
  intro a ha b hb
  rcases List.mem_cons.mp hb with hb | hb
  · subst hb; intro e; subst e; exact hw1 ha
  · exact h3 a ha b (List.mem_cons_of_mem _ hb)

theorem deactivate_split (l1 l2 : List Handle) (q : Handle) :
    deactivate (l1 ++ q :: l2) l1.length = l1 ++ ⟨q.id, false⟩ :: l2 := by
  unfold deactivate
  rw [getElem?_split]
  exact set_split l1 l2 q _

theorem inv_release {c : Cfg} {st : St} (hi : Inv c st) {h : Nat} {q : Handle}
    (hq : st.hs[h]? = some q) (hact : q.active = true) (es : List Ev)
    (hes : ∀ u, (∀ v, v ∈ u ↔ v ∈ activeIds st.hs) →
      ∃ u', run c.maxq u es = .ok u' ∧ ∀ v, v ∈ u' ↔ (v ∈ u ∧ v ≠ q.id)) :
    Inv c { st with evs := st.evs ++ es, lastAlloc := none, hs := deactivate st.hs h } ∧
      q.id ∉ activeIds (deactivate st.hs h) := by
  obtain ⟨u, hu, hm⟩ := hi.runs
  obtain ⟨l1, l2, e, hl⟩ := split_at st.hs h q hq
  have hn := hi.nodup
  have hb := hi.bound
  have hc := hi.count
  rw [e] at hn hb hc hm
  rw [activeIds_append, activeIds_cons_active q l2 hact] at hn hb hc hm
  obtain ⟨hn', hv1, hv2⟩ := nodup_remove_mid hn
  have ea : activeIds (deactivate st.hs h) = activeIds l1 ++ activeIds l2 := by
    rw [e, ← hl, deactivate_split, activeIds_append, activeIds_cons_inactive _ _ (by rfl)]
  obtain ⟨u', hu', hm'⟩ := hes u (by rw [e, activeIds_append, activeIds_cons_active q l2 hact]; exact hm)
  refine ⟨⟨?_, ?_, ?_, ⟨u', run_snoc_ok hu hu', ?_⟩, by simp⟩, ?_⟩
  · simp only [ea]; exact hn'
  · simp only [ea]; intro v hv
    exact hb v (by rcases List.mem_append.mp hv with h | h
                   · exact List.mem_append_left _ h
                   · exact List.mem_append_right _ (List.mem_cons_of_mem _ h))
  · simp only [ea]; simp only [List.length_append, List.length_cons] at hc ⊢; omega
  · intro v
    simp only [ea]
    rw [hm' v, hm v]
    simp only [List.mem_append, List.mem_cons]
    constructor
    · rintro ⟨h1 | h1 | h1, h2⟩
      · exact Or.inl h1
      · exact absurd h1 h2
      · exact Or.inr h1
    · rintro (h1 | h1)
      · exact ⟨Or.inl h1, fun e => hv1 (e ▸ h1)⟩
      · exact ⟨Or.inr (Or.inr h1), fun e => hv2 (e ▸ h1)⟩
  · rw [ea, List.mem_append]; rintro (h1 | h1)
    · exact hv1 h1
    · exact hv2 h1

theorem run_free_spec {m : Nat} {u : List Nat} {v : Nat} (h1 : v < m) (h2 : v ∈ u) :
    ∃ u', run m u [.free v] = .ok u' ∧ ∀ w, w ∈ u' ↔ (w ∈ u ∧ w ≠ v) := by
  refine ⟨u.filter (· != v), by simp only [run, step_free h1 h2], ?_⟩
  intro w; simp

theorem inv_free {c : Cfg} {st : St} (hi : Inv c st) {h : Nat} (hlt : h < st.hs.length) :
    Inv c (apply c st (.free h)).1 ∧ (apply c st (.free h)).2.fatal = false := by
  have hq : st.hs[h]? = some st.hs[h] := List.getElem?_eq_getElem hlt
  simp only [apply, hq]
  split
  · rename_i hact
    refine ⟨(inv_release hi hq hact _ ?_).1, rfl⟩
    intro u hm
    have hmem := mem_activeIds_of_get hq hact
    exact run_free_spec (hi.bound _ hmem) ((hm _).mpr hmem)
  · exact ⟨hi, rfl⟩

/-! ### NV relocation -/

theorem freeUpGo_noop : ∀ (t pre : List Handle) (s : List Ev × Option Nat), 0 ∉ activeIds t →
    freeUpGo pre t s = (pre ++ t, s.1, s.2) := by
  intro t
  induction t with
  | nil => intro pre s _; simp [freeUpGo]
  | cons h t ih =>
    intro pre s h0
    unfold freeUpGo
    by_cases hc : (h.active && h.id == 0) = true
    · exfalso
      simp only [Bool.and_eq_true, beq_iff_eq] at hc
      rw [activeIds_cons_active h t hc.1, hc.2] at h0
      exact h0 List.mem_cons_self
    · rw [if_neg hc]
      have h0' : 0 ∉ activeIds t := by
        cases ha : h.active with
        | true => rw [activeIds_cons_active h t ha] at h0; exact fun x => h0 (List.mem_cons_of_mem _ x)
        | false => rw [activeIds_cons_inactive h t ha] at h0; exact h0
      rw [ih (pre ++ [h]) s h0']
      simp

theorem freeUpGo_hit : ∀ (l1 pre : List Handle) (q : Handle) (l2 : List Handle)
    (s : List Ev × Option Nat), 0 ∉ activeIds l1 → q.active = true → q.id = 0 → 0 ∉ activeIds l2 →
    freeUpGo pre (l1 ++ q :: l2) s =
      (pre ++ l1 ++ ⟨lowestUnused (activeIds (pre ++ l1 ++ q :: l2)), true⟩ :: l2,
       (relocateEvs s.1 s.2 (lowestUnused (activeIds (pre ++ l1 ++ q :: l2)))).1,
       (relocateEvs s.1 s.2 (lowestUnused (activeIds (pre ++ l1 ++ q :: l2)))).2) := by
  intro l1
  induction l1 with
  | nil =>
    intro pre q l2 s _ ha hid h2
    simp only [List.nil_append, List.append_nil]
    unfold freeUpGo
    rw [if_pos (by simp [ha, hid])]
    rw [freeUpGo_noop l2 _ _ h2]
    simp
  | cons h t ih =>
    intro pre q l2 s h1 ha hid h2
    simp only [List.cons_append]
    unfold freeUpGo
    have hc : ¬ (h.active && h.id == 0) = true := by
      intro hc
      simp only [Bool.and_eq_true, beq_iff_eq] at hc
      rw [activeIds_cons_active h t hc.1, hc.2] at h1
      exact h1 List.mem_cons_self
    rw [if_neg hc]
    have h1' : 0 ∉ activeIds t := by
      cases hact : h.active with
      | true => rw [activeIds_cons_active h t hact] at h1; exact fun x => h1 (List.mem_cons_of_mem _ x)
      | false => rw [activeIds_cons_inactive h t hact] at h1; exact h1
    rw [ih (pre ++ [h]) q l2 s h1' ha hid h2]
    simp

theorem exists_first : ∀ (hs : List Handle) (v : Nat), v ∈ activeIds hs →
    ∃ l1 q l2, hs = l1 ++ q :: l2 ∧ q.active = true ∧ q.id = v ∧ v ∉ activeIds l1 := by
  intro hs
  induction hs with
  | nil => intro v h; simp [activeIds] at h
  | cons a t ih =>
    intro v h
    by_cases hc : a.active = true ∧ a.id = v
    · exact ⟨[], a, t, rfl, hc.1, hc.2, by simp [activeIds]⟩
    · have hv : v ∈ activeIds t := by
        cases ha : a.active with
        | true =>
          rw [activeIds_cons_active a t ha] at h
          rcases List.mem_cons.mp h with h | h
          · exact absurd ⟨ha, h.symm⟩ hc
          · exact h
        | false => rw [activeIds_cons_inactive a t ha] at h; exact h
      obtain ⟨l1, q, l2, e, h1, h2, h3⟩ := ih v hv
      refine ⟨a :: l1, q, l2, by rw [e]; rfl, h1, h2, ?_⟩
      cases ha : a.active with
      | true =>
        rw [activeIds_cons_active a l1 ha]
        intro hm
        rcases List.mem_cons.mp hm with hm | hm
        · exact hc ⟨ha, hm.symm⟩
        · exact h3 hm
      | false => rw [activeIds_cons_inactive a l1 ha]; exact h3

theorem rewriteLast_spec (pre : List Ev) (a b : Ev) (new : Nat) :
    rewriteLast (pre ++ [a, b]) new = pre ++ [.alloc new, .use new] := by
  have : pre ++ [a, b] = (pre ++ [a]) ++ [b] := by simp
  unfold rewriteLast
  rw [this, List.dropLast_concat, List.dropLast_concat]

/-- what `freeUp` does, given the invariant -/
theorem freeUp_cases {c : Cfg} {st : St} (hi : Inv c st) (hnv : c.nv = true) :
    (0 ∉ activeIds st.hs ∧ freeUp c st = st) ∨
    (∃ l1 q l2, st.hs = l1 ++ q :: l2 ∧ q.active = true ∧ q.id = 0 ∧ 0 ∉ activeIds l1 ∧
      0 ∉ activeIds l2 ∧
      freeUp c st = { st with
        hs := l1 ++ ⟨lowestUnused (activeIds st.hs), true⟩ :: l2,
        evs := (relocateEvs st.evs st.lastAlloc (lowestUnused (activeIds st.hs))).1,
        lastAlloc := (relocateEvs st.evs st.lastAlloc (lowestUnused (activeIds st.hs))).2 }) := by
  by_cases h0 : 0 ∈ activeIds st.hs
  · right
    obtain ⟨l1, q, l2, e, ha, hid, h1⟩ := exists_first st.hs 0 h0
    have hn := hi.nodup
    rw [e, activeIds_append, activeIds_cons_active q l2 ha, hid] at hn
    have h2 := (nodup_remove_mid hn).2.2
    refine ⟨l1, q, l2, e, ha, hid, h1, h2, ?_⟩
    unfold freeUp
    rw [if_pos hnv]
    have := freeUpGo_hit l1 [] q l2 (st.evs, st.lastAlloc) h1 ha hid h2
    simp only [List.nil_append] at this
    rw [e, this]
  · left
    refine ⟨h0, ?_⟩
    unfold freeUp
    rw [if_pos hnv, freeUpGo_noop st.hs [] _ h0]
    cases st; simp

theorem inv_freeUp {c : Cfg} {st : St} (hi : Inv c st) (hnv : c.nv = true) :
    Inv c (freeUp c st) ∧ 0 ∉ activeIds (freeUp c st).hs ∧
    (activeIds (freeUp c st).hs).length = (activeIds st.hs).length ∧
    (∀ (h : Nat) (q : Handle), st.hs[h]? = some q → q.id ≠ 0 → (freeUp c st).hs[h]? = some q) := by
  rcases freeUp_cases hi hnv with ⟨h0, e⟩ | ⟨l1, q, l2, e, ha, hid, h1, h2, ef⟩
  · rw [e]; exact ⟨hi, h0, rfl, fun _ _ h _ => h⟩
  · obtain ⟨u, hu, hm⟩ := hi.runs
    have hn := hi.nodup
    have hb := hi.bound
    have hc := hi.count
    have ea : activeIds st.hs = activeIds l1 ++ 0 :: activeIds l2 := by
      rw [e, activeIds_append, activeIds_cons_active q l2 ha, hid]
    generalize hnew : lowestUnused (activeIds st.hs) = new at ef
    have hnm : new ∉ activeIds st.hs := hnew ▸ lowestUnused_not_mem _
    have hnl : new ≤ (activeIds st.hs).length := hnew ▸ lowestUnused_le_length _ hn
    rw [ea] at hn hb hc hm hnm hnl
    have hn1 : new ∉ activeIds l1 := fun h => hnm (List.mem_append_left _ h)
    have hn2 : new ∉ activeIds l2 := fun h => hnm (List.mem_append_right _ (List.mem_cons_of_mem _ h))
    have hn0 : new ≠ 0 := fun h => hnm (List.mem_append_right _ (h ▸ List.mem_cons_self))
    have hlim : limit c = c.maxq - 1 := by unfold limit; rw [if_pos hnv]
    simp only [List.length_append, List.length_cons] at hc hnl
    have hlt : new < c.maxq := by omega
    have h0lt : 0 < c.maxq := by omega
    have ea' : activeIds (l1 ++ ⟨new, true⟩ :: l2) = activeIds l1 ++ new :: activeIds l2 := by
      rw [activeIds_append, activeIds_cons_active _ l2 (by rfl)]
    have hmem0 : (0 : Nat) ∈ u := (hm 0).mpr (List.mem_append_right _ List.mem_cons_self)
    have hnu : new ∉ u := fun h => hnm ((hm new).mp h)
    rw [ef]
    refine ⟨⟨?_, ?_, ?_, ?_, ?_⟩, ?_, ?_, ?_⟩
    · simp only [ea']; exact nodup_replace_mid hn hn1 hn2
    · simp only [ea']; intro v hv
      rcases List.mem_append.mp hv with h | h
      · exact hb v (List.mem_append_left _ h)
      · rcases List.mem_cons.mp h with h | h
        · omega
        · exact hb v (List.mem_append_right _ (List.mem_cons_of_mem _ h))
    · simp only [ea', List.length_append, List.length_cons, hlim]; omega
    · -- the pending commands still run, ending in the new id set
      cases hla : st.lastAlloc with
      | none =>
        simp only [relocateEvs]
        refine ⟨(new :: u).filter (· != 0), run_snoc_ok hu ?_, ?_⟩
        · simp only [run, step_alloc hlt hnu, step_use hlt List.mem_cons_self,
            step_use2 h0lt (List.mem_cons_of_mem _ hmem0) hlt List.mem_cons_self,
            step_free h0lt (List.mem_cons_of_mem _ hmem0)]
        · intro v
          simp only [ea', List.mem_filter, List.mem_cons, bne_iff_ne, ne_eq, decide_not,
            Bool.not_eq_true', decide_eq_false_iff_not, List.mem_append, hm v]
          constructor
          · rintro ⟨h | h | h | h, hne⟩
            · exact Or.inr (Or.inl h)
            · exact Or.inl h
            · exact absurd h hne
            · exact Or.inr (Or.inr h)
          · rintro (h | h | h)
            · exact ⟨Or.inr (Or.inl h), fun e => h1 (e ▸ h)⟩
            · exact ⟨Or.inl h, fun e => hn0 (h ▸ e)⟩
            · exact ⟨Or.inr (Or.inr (Or.inr h)), fun e => h2 (e ▸ h)⟩
      | some w =>
        cases w with
        | succ w' =>
          simp only [relocateEvs]
          refine ⟨(new :: u).filter (· != 0), run_snoc_ok hu ?_, ?_⟩
          · simp only [run, step_alloc hlt hnu, step_use hlt List.mem_cons_self,
              step_use2 h0lt (List.mem_cons_of_mem _ hmem0) hlt List.mem_cons_self,
              step_free h0lt (List.mem_cons_of_mem _ hmem0)]
          · intro v
            simp only [ea', List.mem_filter, List.mem_cons, bne_iff_ne, ne_eq, decide_not,
              Bool.not_eq_true', decide_eq_false_iff_not, List.mem_append, hm v]
            constructor
            · rintro ⟨h | h | h | h, hne⟩
              · exact Or.inr (Or.inl h)
              · exact Or.inl h
              · exact absurd h hne
              · exact Or.inr (Or.inr h)
            · rintro (h | h | h)
              · exact ⟨Or.inr (Or.inl h), fun e => h1 (e ▸ h)⟩
              · exact ⟨Or.inl h, fun e => hn0 (h ▸ e)⟩
              · exact ⟨Or.inr (Or.inr (Or.inr h)), fun e => h2 (e ▸ h)⟩
        | zero =>
          obtain ⟨pre, u0, epre, hpre, h0u0⟩ := hi.peep 0 hla
          have hu' : run c.maxq st.unit st.evs = .ok (0 :: u0) := by
            rw [epre]
            exact run_snoc_ok hpre (by simp only [run, step_alloc h0lt h0u0, step_use h0lt List.mem_cons_self])
          have eu : u = 0 :: u0 := by rw [hu] at hu'; exact Except.ok.inj hu'
          simp only [relocateEvs, epre, rewriteLast_spec]
          have hnu0 : new ∉ u0 := fun h => hnu (eu ▸ List.mem_cons_of_mem _ h)
          refine ⟨new :: u0, run_snoc_ok hpre ?_, ?_⟩
          · simp only [run, step_alloc hlt hnu0, step_use hlt List.mem_cons_self]
          · intro v
            have hmv := hm v
            rw [eu] at hmv
            simp only [ea', List.mem_cons, List.mem_append] at hmv ⊢
            constructor
            · rintro (h | h)
              · exact Or.inr (Or.inl h)
              · rcases hmv.mp (Or.inr h) with h' | h' | h'
                · exact Or.inl h'
                · exact absurd (h' ▸ h) h0u0
                · exact Or.inr (Or.inr h')
            · rintro (h | h | h)
              · rcases hmv.mpr (Or.inl h) with h' | h'
                · exact absurd (h' ▸ h) h1
                · exact Or.inr h'
              · exact Or.inl h
              · rcases hmv.mpr (Or.inr (Or.inr h)) with h' | h'
                · exact absurd (h' ▸ h) h2
                · exact Or.inr h'
    · -- peephole witness for the new state
      intro v hv
      cases hla : st.lastAlloc with
      | none => rw [hla] at hv; simp [relocateEvs] at hv
      | some w =>
        cases w with
        | succ w' => rw [hla] at hv; simp [relocateEvs] at hv
        | zero =>
          rw [hla] at hv
          simp only [relocateEvs, Option.some.injEq] at hv
          subst hv
          obtain ⟨pre, u0, epre, hpre, h0u0⟩ := hi.peep 0 hla
          have hu' : run c.maxq st.unit st.evs = .ok (0 :: u0) := by
            rw [epre]
            exact run_snoc_ok hpre (by simp only [run, step_alloc h0lt h0u0, step_use h0lt List.mem_cons_self])
          have eu : u = 0 :: u0 := by rw [hu] at hu'; exact Except.ok.inj hu'
          refine ⟨pre, u0, ?_, hpre, fun h => hnu (eu ▸ List.mem_cons_of_mem _ h)⟩
          simp only [hla, relocateEvs, epre, rewriteLast_spec]
    · simp only [ea']
      intro h
      rcases List.mem_append.mp h with h | h
      · exact h1 h
      · rcases List.mem_cons.mp h with h | h
        · exact hn0 h.symm
        · exact h2 h
    · simp only [ea', ea, List.length_append, List.length_cons]
    · intro h q' hq' hne
      simp only
      rw [← set_split l1 l2 q ⟨new, true⟩, ← e]
      by_cases hh : l1.length = h
      · exfalso
        rw [e, ← hh, getElem?_split] at hq'
        exact hne ((Option.some.inj hq') ▸ hid)
      · rw [List.getElem?_set_ne hh]; exact hq'

/-! ### measurement -/

theorem freeUp_generic {c : Cfg} (st : St) (h : c.nv = false) : freeUp c st = st := by
  unfold freeUp; rw [if_neg (by simp [h])]

theorem run_meas_free_spec {m : Nat} {u : List Nat} {v : Nat} (h1 : v < m) (h2 : v ∈ u) :
    ∃ u', run m u [.use v, .free v] = .ok u' ∧ ∀ w, w ∈ u' ↔ (w ∈ u ∧ w ≠ v) := by
  refine ⟨u.filter (· != v), by simp only [run, step_use h1 h2, step_free h1 h2], ?_⟩
  intro w; simp

theorem inv_meas {c : Cfg} {st : St} (hi : Inv c st) {h : Nat} {ip : Bool} (hlt : h < st.hs.length) :
    Inv c (apply c st (.meas h ip)).1 ∧ (apply c st (.meas h ip)).2.fatal = false := by
  have hq : st.hs[h]? = some st.hs[h] := List.getElem?_eq_getElem hlt
  generalize st.hs[h] = q at hq
  simp only [apply, hq]
  by_cases hact : q.active = true
  · rw [if_pos hact]
    -- the state after the (possible) relocation
    have hst1 : ∃ st1, (if (q.id != 0) = true then freeUp c st else st) = st1 ∧ Inv c st1 ∧
        st1.hs[h]? = some q := by
      by_cases hid : (q.id != 0) = true
      · rw [if_pos hid]
        cases hnv : c.nv with
        | false => rw [freeUp_generic st hnv]; exact ⟨st, rfl, hi, hq⟩
        | true =>
          obtain ⟨i1, _, _, i4⟩ := inv_freeUp hi hnv
          exact ⟨_, rfl, i1, i4 h q hq (by simpa using hid)⟩
      · rw [if_neg hid]; exact ⟨st, rfl, hi, hq⟩
    obtain ⟨st1, e1, hi1, hq1⟩ := hst1
    rw [e1]
    have hmem := mem_activeIds_of_get hq1 hact
    cases ip with
    | true =>
      refine ⟨?_, rfl⟩
      have := inv_append_use hi1 [.use q.id] (fun u hm => by
        simp only [run, step_use (hi1.bound _ hmem) ((hm _).mpr hmem)])
      simpa using this
    | false =>
      refine ⟨?_, rfl⟩
      have := (inv_release hi1 hq1 hact [.use q.id, .free q.id] (fun u hm =>
        run_meas_free_spec (hi1.bound _ hmem) ((hm _).mpr hmem))).1
      simpa using this
  · rw [if_neg hact]; exact ⟨hi, rfl⟩

/-! ### EPR keep -/

theorem genEnt_spec : ∀ (n : Nat) (st : St), (activeIds st.hs).Nodup →
    (genEnt st n).1.evs = st.evs ∧ (genEnt st n).1.lastAlloc = st.lastAlloc ∧
    (genEnt st n).1.unit = st.unit ∧
    activeIds (genEnt st n).1.hs = activeIds st.hs ++ (genEnt st n).2 ∧
    (activeIds st.hs ++ (genEnt st n).2).Nodup ∧ (genEnt st n).2.length = n ∧
    (∀ v ∈ (genEnt st n).2, v < (activeIds st.hs).length + n) := by
  intro n
  induction n with
  | zero => intro st hn; simp [genEnt, hn]
  | succ k ih =>
    intro st hn
    have hv := lowestUnused_not_mem (activeIds st.hs)
    have hl := lowestUnused_le_length (activeIds st.hs) hn
    have hn' : (activeIds ({ st with hs := st.hs ++ [⟨lowestUnused (activeIds st.hs), true⟩] } : St).hs).Nodup := by
      simp only [activeIds_snoc]; exact nodup_snoc hn hv
    obtain ⟨i1, i2, i3, i4, i5, i6, i7⟩ := ih _ hn'
    simp only [genEnt]
    simp only [activeIds_snoc, List.append_assoc, List.singleton_append, List.length_append,
      List.length_cons, List.length_nil] at i4 i5 i7
    refine ⟨i1, i2, i3, i4, i5, by simp [i6], ?_⟩
    intro v hv'
    rcases List.mem_cons.mp hv' with h | h
    · omega
    · have := i7 v h; omega

theorem run_delivers {m : Nat} : ∀ (ids u : List Nat), (∀ v ∈ ids, v < m) → ids.Nodup →
    (∀ v ∈ ids, v ∉ u) →
    ∃ u', run m u (ids.map .deliver) = .ok u' ∧ ∀ w, w ∈ u' ↔ w ∈ u ∨ w ∈ ids := by
  intro ids
  induction ids with
  | nil => intro u _ _ _; exact ⟨u, rfl, by simp⟩
  | cons a t ih =>
    intro u hb hn hd
    rw [List.nodup_cons] at hn
    obtain ⟨u', hu', hm'⟩ := ih (a :: u) (fun v hv => hb v (List.mem_cons_of_mem _ hv)) hn.2
      (fun v hv hvu => by
        rcases List.mem_cons.mp hvu with h | h
        · exact hn.1 (h ▸ hv)
        · exact hd v (List.mem_cons_of_mem _ hv) h)
    refine ⟨u', ?_, ?_⟩
    · simp only [List.map_cons, run, step_deliver (hb a List.mem_cons_self) (hd a List.mem_cons_self)]
      exact hu'
    · intro w; rw [hm' w]; simp only [List.mem_cons]
      constructor
      · rintro ((h | h) | h)
        · exact Or.inr (Or.inl h)
        · exact Or.inl h
        · exact Or.inr (Or.inr h)
      · rintro (h | h | h)
        · exact Or.inl (Or.inr h)
        · exact Or.inl (Or.inl h)
        · exact Or.inr h

theorem inv_add_delivered {c : Cfg} {st : St} (hi : Inv c st) (hs' : List Handle) (ids : List Nat)
    (ea : activeIds hs' = activeIds st.hs ++ ids) (hn : (activeIds st.hs ++ ids).Nodup)
    (hb : ∀ v ∈ ids, v < c.maxq) (hc : (activeIds st.hs).length + ids.length ≤ limit c) :
    Inv c { st with hs := hs', evs := st.evs ++ ids.map .deliver, lastAlloc := none } := by
  obtain ⟨u, hu, hm⟩ := hi.runs
  obtain ⟨hn1, hn2, hn3⟩ := List.nodup_append.mp hn
  obtain ⟨u', hu', hm'⟩ := run_delivers ids u hb hn2
    (fun v hv hvu => hn3 v ((hm v).mp hvu) v hv rfl)
  refine ⟨?_, ?_, ?_, ⟨u', run_snoc_ok hu hu', ?_⟩, by simp⟩
  · simp only [ea]; exact hn
  · simp only [ea]; intro v hv
    rcases List.mem_append.mp hv with h | h
    · exact hi.bound v h
    · exact hb v h
  · simp only [ea, List.length_append]; exact hc
  · intro w; simp only [ea]; rw [hm' w, hm w, List.mem_append]

/-! ### NV keep of n pairs -/

def descIds : Nat → List Nat
  | 0 => []
  | k + 1 => k :: descIds k

def allocEvs : Nat → List Ev
  | 0 => []
  | k + 1 => if k = 0 then [] else [.alloc k, .use k] ++ allocEvs k

theorem mem_descIds : ∀ (n w : Nat), w ∈ descIds n ↔ w < n := by
  intro n
  induction n with
  | zero => intro w; simp [descIds]
  | succ k ih => intro w; simp only [descIds, List.mem_cons, ih]; omega

theorem nodup_descIds : ∀ (n : Nat), (descIds n).Nodup := by
  intro n
  induction n with
  | zero => exact List.nodup_nil
  | succ k ih =>
    simp only [descIds, List.nodup_cons]
    exact ⟨fun h => by have := (mem_descIds k k).mp h; omega, ih⟩

theorem length_descIds : ∀ (n : Nat), (descIds n).length = n := by
  intro n; induction n with
  | zero => rfl
  | succ k ih => simp [descIds, ih]

theorem nvEnt_spec : ∀ (n : Nat) (st : St), (∀ k, 1 ≤ k → k < n → k ∉ activeIds st.hs) →
    ∃ st', nvEnt st n = .ok (st', descIds n) ∧ activeIds st'.hs = activeIds st.hs ++ descIds n ∧
      st'.evs = st.evs ++ allocEvs n ∧ st'.unit = st.unit := by
  intro n
  induction n with
  | zero => intro st _; exact ⟨st, rfl, by simp [descIds], by simp [allocEvs], rfl⟩
  | succ k ih =>
    intro st h
    by_cases hk : k = 0
    · subst hk
      refine ⟨{ st with hs := st.hs ++ [⟨0, true⟩] }, by simp [nvEnt, descIds], ?_, by simp [allocEvs], rfl⟩
      simp only [activeIds_snoc, descIds]
    · have hkm : k ∉ activeIds st.hs := h k (by omega) (by omega)
      obtain ⟨st', e1, e2, e3, e4⟩ := ih ⟨st.hs ++ [⟨k, true⟩], st.evs ++ [.alloc k, .use k], some k, st.unit⟩ (by
        intro j hj1 hj2
        simp only [activeIds_snoc, List.mem_append, List.mem_singleton]
        rintro (hm | hm)
        · exact h j hj1 (by omega) hm
        · omega)
      refine ⟨st', ?_, ?_, ?_, e4⟩
      · simp only [nvEnt, if_neg hk, if_neg hkm, e1, descIds]
      · rw [e2]; simp only [activeIds_snoc, descIds, List.append_assoc, List.singleton_append]
      · rw [e3]; simp only [allocEvs, if_neg hk, List.append_assoc]

theorem run_allocEvs {m : Nat} : ∀ (n : Nat) (u : List Nat), (∀ k, 1 ≤ k → k < n → k ∉ u ∧ k < m) →
    ∃ u', run m u (allocEvs n) = .ok u' ∧ ∀ w, w ∈ u' ↔ w ∈ u ∨ (1 ≤ w ∧ w < n) := by
  intro n
  induction n with
  | zero => intro u _; exact ⟨u, rfl, fun w => by simp⟩
  | succ k ih =>
    intro u h
    by_cases hk : k = 0
    · subst hk
      refine ⟨u, by simp [allocEvs, run], fun w => ⟨fun hw => Or.inl hw, fun hw => ?_⟩⟩
      rcases hw with hw | hw
      · exact hw
      · omega
    · obtain ⟨hku, hkm⟩ := h k (by omega) (by omega)
      obtain ⟨u', hu', hm'⟩ := ih (k :: u) (by
        intro j hj1 hj2
        refine ⟨?_, (h j hj1 (by omega)).2⟩
        intro hm
        rcases List.mem_cons.mp hm with hm | hm
        · omega
        · exact (h j hj1 (by omega)).1 hm)
      refine ⟨u', ?_, ?_⟩
      · simp only [allocEvs, if_neg hk, List.cons_append, List.nil_append, run,
          step_alloc hkm hku, step_use hkm List.mem_cons_self]
        exact hu'
      · intro w; rw [hm' w, List.mem_cons]
        constructor
        · rintro ((hw | hw) | hw)
          · exact Or.inr (by omega)
          · exact Or.inl hw
          · exact Or.inr (by omega)
        · rintro (hw | hw)
          · exact Or.inl (Or.inr hw)
          · by_cases hwk : w = k
            · exact Or.inl (Or.inl hwk)
            · exact Or.inr (by omega)

theorem run_moveLoop {m n : Nat} : ∀ (k : Nat) (u : List Nat), 1 ≤ k → 0 ∉ u → 0 < m →
    (∀ j, 1 ≤ j → j < k → j ∈ u ∧ j < m) →
    ∃ u', run m u (moveLoop n k) = .ok u' ∧ ∀ w, w ∈ u' ↔ w = 0 ∨ w ∈ u := by
  intro k
  induction k with
  | zero => intro u h; omega
  | succ k ih =>
    intro u _ h0 hm hj
    by_cases hk : k = 0
    · subst hk
      exact ⟨0 :: u, by simp only [moveLoop, if_true, run, step_deliver hm h0], fun w => by simp⟩
    · obtain ⟨hku, hkm⟩ := hj k (by omega) (by omega)
      have hf : (0 : Nat) ∉ (0 :: u).filter (· != 0) := by simp
      obtain ⟨u', hu', hm'⟩ := ih ((0 :: u).filter (· != 0)) (by omega) hf hm (by
        intro j hj1 hj2
        refine ⟨?_, (hj j hj1 (by omega)).2⟩
        simp only [List.mem_filter, List.mem_cons, bne_iff_ne, ne_eq]
        exact ⟨Or.inr (hj j hj1 (by omega)).1, by omega⟩)
      refine ⟨u', ?_, ?_⟩
      · simp only [moveLoop, if_neg hk, List.cons_append, List.nil_append, run, step_deliver hm h0,
          step_use2 hm List.mem_cons_self hkm (List.mem_cons_of_mem _ hku),
          step_free hm List.mem_cons_self]
        exact hu'
      · intro w; rw [hm' w]
        simp only [List.mem_filter, List.mem_cons, bne_iff_ne, ne_eq, decide_not, Bool.not_eq_true',
          decide_eq_false_iff_not]
        constructor
        · rintro (hw | ⟨hw | hw, _⟩)
          · exact Or.inl hw
          · exact Or.inl hw
          · exact Or.inr hw
        · rintro (hw | hw)
          · exact Or.inl hw
          · by_cases hw0 : w = 0
            · exact Or.inl hw0
            · exact Or.inr ⟨Or.inr hw, hw0⟩

theorem nvKeepOk_spec {c : Cfg} {st : St} {n : Nat} (h : nvKeepOk c st n = true) :
    ∀ k, 1 ≤ k → k < n → k ∉ activeIds (freeUp c st).hs := by
  intro k hk1 hk2 hm
  simp only [nvKeepOk, List.all_eq_true, List.mem_range] at h
  have := h k hk2
  simp only [Bool.or_eq_true, beq_iff_eq, Bool.not_eq_true', List.contains_eq_mem,
    decide_eq_false_iff_not] at this
  rcases this with h0 | h0
  · omega
  · exact h0 hm

theorem lowestUnused_nil : lowestUnused [] = 0 := by decide

theorem inv_keep {c : Cfg} {st : St} (hi : Inv c st) {r : Bool} {n : Nat} (h1 : 1 ≤ n)
    (hk : c.maxq < n ∨ ((activeIds st.hs).length + n ≤ limit c ∧ (c.nv = false ∨ nvKeepOk c st n = true))) :
    Inv c (apply c st (.keep r n)).1 ∧ (apply c st (.keep r n)).2.fatal = false := by
  simp only [apply]
  by_cases hmax : c.maxq < n
  · rw [if_pos hmax]; exact ⟨hi, rfl⟩
  · rw [if_neg hmax]
    rcases hk with hk | ⟨hb, hk⟩
    · exact absurd hk hmax
    · have hlim := limit_le c
      cases hnv : c.nv with
      | false =>
        obtain ⟨i1, i2, i3, i4, i5, i6, i7⟩ := genEnt_spec n st hi.nodup
        have hce : createEnt c st n false = .ok (genEnt st n) := by
          simp [createEnt, hnv]
        rw [hce]
        simp only
        have hloop : (if c.single = true then moveLoop n n else (genEnt st n).2.map Ev.deliver)
            = (genEnt st n).2.map Ev.deliver := by
          by_cases hs : c.single = true
          · rw [if_pos hs]
            simp only [Cfg.single, hnv, Bool.false_or, beq_iff_eq] at hs
            have hlim1 : limit c = c.maxq := by unfold limit; simp [hnv]
            have hn1 : n = 1 := by omega
            have hl0 : (activeIds st.hs).length = 0 := by omega
            have he : activeIds st.hs = [] := List.eq_nil_of_length_eq_zero hl0
            subst hn1
            simp [moveLoop, genEnt, he, lowestUnused_nil]
          · rw [if_neg hs]
        rw [hloop]
        refine ⟨?_, rfl⟩
        have key := inv_add_delivered hi (genEnt st n).1.hs (genEnt st n).2 i4 i5
          (fun v hv => by have := i7 v hv; omega) (by rw [i6]; exact hb)
        show Inv c ⟨(genEnt st n).1.hs, (genEnt st n).1.evs ++ _, none, (genEnt st n).1.unit⟩
        rw [i1, i3]; exact key
      | true =>
        have hok : nvKeepOk c st n = true := by
          rcases hk with hk | hk
          · rw [hnv] at hk; cases hk
          · exact hk
        obtain ⟨j1, j2, j3, _⟩ := inv_freeUp hi hnv
        have hlim1 : limit c = c.maxq - 1 := by unfold limit; simp [hnv]
        obtain ⟨st', e1, e2, e3, e4⟩ := nvEnt_spec n (freeUp c st) (nvKeepOk_spec hok)
        have hce : createEnt c st n false = .ok (st', descIds n) := by
          simp only [createEnt, hnv, if_true]; exact e1
        rw [hce]
        have hs : c.single = true := by simp [Cfg.single, hnv]
        simp only [hs, if_true]
        refine ⟨?_, rfl⟩
        obtain ⟨u, hu, hm⟩ := j1.runs
        have hfree : ∀ k, 1 ≤ k → k < n → k ∉ u ∧ k < c.maxq := fun k hk1 hk2 =>
          ⟨fun h => nvKeepOk_spec hok k hk1 hk2 ((hm k).mp h), by omega⟩
        obtain ⟨u2, hu2, hm2⟩ := run_allocEvs n u hfree
        have h0u2 : (0 : Nat) ∉ u2 := by
          intro h
          rcases (hm2 0).mp h with h | h
          · exact j2 ((hm 0).mp h)
          · omega
        obtain ⟨u3, hu3, hm3⟩ := run_moveLoop (m := c.maxq) (n := n) n u2 h1 h0u2 (by omega)
          (fun j hj1 hj2 => ⟨(hm2 j).mpr (Or.inr ⟨hj1, hj2⟩), by omega⟩)
        have hdisj : ∀ a ∈ activeIds (freeUp c st).hs, ∀ b ∈ descIds n, a ≠ b := by
          intro a ha b hb e
          subst e
          have hb' := (mem_descIds n a).mp hb
          by_cases ha0 : a = 0
          · subst ha0; exact j2 ha
          · exact nvKeepOk_spec hok a (by omega) hb' ha
        refine ⟨?_, ?_, ?_, ⟨u3, ?_, ?_⟩, by simp⟩
        · simp only [e2]
          exact List.nodup_append.mpr ⟨j1.nodup, nodup_descIds n, hdisj⟩
        · simp only [e2]; intro v hv
          rcases List.mem_append.mp hv with h | h
          · exact j1.bound v h
          · have := (mem_descIds n v).mp h; omega
        · simp only [e2, List.length_append, length_descIds, j3]; exact hb
        · simp only [e3, e4]
          exact run_snoc_ok (run_snoc_ok hu hu2) hu3
        · intro w
          simp only [e2, List.mem_append, mem_descIds]
          rw [hm3 w, hm2 w, hm w]
          constructor
          · rintro (h | h | h)
            · exact Or.inr (by omega)
            · exact Or.inl h
            · exact Or.inr h.2
          · rintro (h | h)
            · exact Or.inr (Or.inl h)
            · by_cases hw0 : w = 0
              · exact Or.inl hw0
              · exact Or.inr (Or.inr ⟨by omega, h⟩)

/-! ### EPR loop constructs (sequential keep with post routine, context blocks) -/

theorem releaseLast_append (a b : List Handle) (n : Nat) (h : b.length = n) :
    releaseLast n (a ++ b) = a ++ b.map (fun q => (⟨q.id, false⟩ : Handle)) := by
  unfold releaseLast
  have : (a ++ b).length - n = a.length := by simp [h]
  rw [this, List.take_left', List.drop_left']
  · rfl
  · rfl

theorem activeIds_release (a b : List Handle) :
    activeIds (a ++ b.map (fun q => (⟨q.id, false⟩ : Handle))) = activeIds a := by
  rw [activeIds_append, activeIds_all_inactive, List.append_nil]

theorem run_uses {m : Nat} {u : List Nat} {d : Nat} (h1 : d < m) (h2 : d ∈ u) :
    ∀ (g : Nat) (rest : List Ev), run m u (List.replicate g (.use d) ++ rest) = run m u rest := by
  intro g
  induction g with
  | zero => intro rest; rfl
  | succ g ih =>
    intro rest
    simp only [List.replicate_succ, List.cons_append, run, step_use h1 h2]
    exact ih rest

theorem run_bodyEvs {m : Nat} {u : List Nat} {d : Nat} (b : Body) (hc : b.consume.consumes = true)
    (h1 : d < m) (h2 : d ∈ u) :
    ∃ u', run m u (bodyEvs d b) = .ok u' ∧ ∀ w, w ∈ u' ↔ (w ∈ u ∧ w ≠ d) := by
  unfold bodyEvs
  rw [run_uses h1 h2]
  cases hb : b.consume with
  | meas => exact run_meas_free_spec h1 h2
  | free => exact run_free_spec h1 h2
  | inplace => rw [hb] at hc; cases hc
  | none => rw [hb] at hc; cases hc

/-- a body that does not consume the pair leaves the unit module as it is -/
theorem run_bodyKeepEvs {m : Nat} {u : List Nat} {d : Nat} (b : Body) (hc : b.consume.consumes = false)
    (h1 : d < m) (h2 : d ∈ u) : run m u (bodyEvs d b) = .ok u := by
  unfold bodyEvs
  rw [run_uses h1 h2]
  cases hb : b.consume with
  | meas => rw [hb] at hc; cases hc
  | free => rw [hb] at hc; cases hc
  | inplace => simp only [run, step_use h1 h2]
  | none => rfl

theorem run_bodyKeep {m : Nat} (b : Body) (hc : b.consume.consumes = false) :
    ∀ (ids u : List Nat), (∀ v ∈ ids, v < m) → ids.Nodup → (∀ v ∈ ids, v ∉ u) →
    ∃ u', run m u (ids.flatMap (fun d => Ev.deliver d :: bodyEvs d b)) = .ok u' ∧
      ∀ w, w ∈ u' ↔ w ∈ u ∨ w ∈ ids := by
  intro ids
  induction ids with
  | nil => intro u _ _ _; exact ⟨u, rfl, by simp⟩
  | cons a t ih =>
    intro u hb hn hd
    rw [List.nodup_cons] at hn
    obtain ⟨u', hu', hm'⟩ := ih (a :: u) (fun v hv => hb v (List.mem_cons_of_mem _ hv)) hn.2
      (fun v hv hvu => by
        rcases List.mem_cons.mp hvu with h | h
        · exact hn.1 (h ▸ hv)
        · exact hd v (List.mem_cons_of_mem _ hv) h)
    refine ⟨u', ?_, ?_⟩
    · simp only [List.flatMap_cons, List.cons_append, run,
        step_deliver (hb a List.mem_cons_self) (hd a List.mem_cons_self)]
      rw [run_append, run_bodyKeepEvs b hc (hb a List.mem_cons_self) List.mem_cons_self]
      exact hu'
    · intro w; rw [hm' w]; simp only [List.mem_cons]
      constructor
      · rintro ((h | h) | h)
        · exact Or.inr (Or.inl h)
        · exact Or.inl h
        · exact Or.inr (Or.inr h)
      · rintro (h | h | h)
        · exact Or.inl (Or.inr h)
        · exact Or.inl (Or.inl h)
        · exact Or.inr h

theorem run_bodyLoop {m : Nat} (b : Body) (hc : b.consume.consumes = true) :
    ∀ (ids u : List Nat), (∀ d ∈ ids, d ∉ u ∧ d < m) →
    ∃ u', run m u (ids.flatMap (fun d => Ev.deliver d :: bodyEvs d b)) = .ok u' ∧
      ∀ w, w ∈ u' ↔ w ∈ u := by
  intro ids
  induction ids with
  | nil => intro u _; exact ⟨u, rfl, fun _ => Iff.rfl⟩
  | cons d t ih =>
    intro u h
    obtain ⟨hd1, hd2⟩ := h d List.mem_cons_self
    obtain ⟨u1, hu1, hm1⟩ := run_bodyEvs (u := d :: u) b hc hd2 List.mem_cons_self
    have hm1' : ∀ w, w ∈ u1 ↔ w ∈ u := by
      intro w; rw [hm1 w, List.mem_cons]
      constructor
      · rintro ⟨hw | hw, hne⟩
        · exact absurd hw hne
        · exact hw
      · intro hw; exact ⟨Or.inr hw, fun e => hd1 (e ▸ hw)⟩
    obtain ⟨u2, hu2, hm2⟩ := ih u1 (fun d' hd' =>
      ⟨fun hh => (h d' (List.mem_cons_of_mem _ hd')).1 ((hm1' d').mp hh), (h d' (List.mem_cons_of_mem _ hd')).2⟩)
    refine ⟨u2, ?_, fun w => (hm2 w).trans (hm1' w)⟩
    simp only [List.flatMap_cons, List.cons_append, run, step_deliver hd2 hd1]
    rw [run_append, hu1]
    exact hu2

/-- a loop over pairs whose body consumes each pair leaves ids and unit module as they were -/
theorem inv_loop {c : Cfg} {st : St} (hi : Inv c st) (b : Body) (hc : b.consume.consumes = true)
    (hs' : List Handle) (ids : List Nat) (ea : activeIds hs' = activeIds st.hs)
    (hids : ∀ d ∈ ids, d ∉ activeIds st.hs ∧ d < c.maxq) :
    Inv c { st with hs := hs', evs := st.evs ++ ids.flatMap (fun d => Ev.deliver d :: bodyEvs d b),
                    lastAlloc := none } := by
  obtain ⟨u, hu, hm⟩ := hi.runs
  obtain ⟨u', hu', hm'⟩ := run_bodyLoop (m := c.maxq) b hc ids u
    (fun d hd => ⟨fun h => (hids d hd).1 ((hm d).mp h), (hids d hd).2⟩)
  refine ⟨?_, ?_, ?_, ⟨u', run_snoc_ok hu hu', ?_⟩, by simp⟩
  · simp only [ea]; exact hi.nodup
  · simp only [ea]; exact hi.bound
  · simp only [ea]; exact hi.count
  · intro w; simp only [ea]; rw [hm' w, hm w]

theorem genEnt_hs : ∀ (n : Nat) (st : St), ∃ new, (genEnt st n).1.hs = st.hs ++ new ∧ new.length = n := by
  intro n
  induction n with
  | zero => intro st; exact ⟨[], by simp [genEnt], rfl⟩
  | succ k ih =>
    intro st
    obtain ⟨new, e, hl⟩ := ih { st with hs := st.hs ++ [⟨lowestUnused (activeIds st.hs), true⟩] }
    refine ⟨⟨lowestUnused (activeIds st.hs), true⟩ :: new, ?_, by simp [hl]⟩
    simp only [genEnt]
    rw [e]; simp

theorem mem_replicate_imp {n d w : Nat} (h : w ∈ List.replicate n d) : w = d :=
  (List.mem_replicate.mp h).2

/-- sequential-style handle creation (`sequential=True`, or a context block on
single-communication-qubit hardware): all pairs use one id -/
theorem inv_loop_sequential {c : Cfg} {st : St} (hi : Inv c st) (n : Nat) (b : Body)
    (hc : b.consume.consumes = true) (hb : (activeIds st.hs).length + 1 ≤ limit c) :
    ∃ st1 d, createEnt c st n true = .ok (st1, List.replicate n d) ∧
      (c.single = true → d = 0) ∧
      Inv c { st1 with hs := releaseLast n st1.hs,
                       evs := st1.evs ++ (List.replicate n d).flatMap (fun d => Ev.deliver d :: bodyEvs d b),
                       lastAlloc := none } := by
  have hlim := limit_le c
  cases hnv : c.nv with
  | true =>
    obtain ⟨j1, j2, j3, _⟩ := inv_freeUp hi hnv
    have hlim1 : limit c = c.maxq - 1 := by unfold limit; simp [hnv]
    refine ⟨{ freeUp c st with hs := (freeUp c st).hs ++ List.replicate n ⟨0, true⟩ }, 0, ?_, fun _ => rfl, ?_⟩
    · simp [createEnt, hnv]
    · have hr := releaseLast_append (freeUp c st).hs (List.replicate n ⟨0, true⟩) n (by simp)
      simp only [hr]
      exact inv_loop j1 b hc _ _ (activeIds_release _ _)
        (fun d hd => by rw [mem_replicate_imp hd]; exact ⟨j2, by omega⟩)
  | false =>
    have hlim1 : limit c = c.maxq := by unfold limit; simp [hnv]
    have hv := lowestUnused_not_mem (activeIds st.hs)
    have hl := lowestUnused_le_length (activeIds st.hs) hi.nodup
    refine ⟨{ st with hs := st.hs ++ List.replicate n ⟨lowestUnused (activeIds st.hs), true⟩ },
      lowestUnused (activeIds st.hs), ?_, ?_, ?_⟩
    · simp [createEnt, hnv]
    · intro hs
      simp only [Cfg.single, hnv, Bool.false_or, beq_iff_eq] at hs
      have hl0 : (activeIds st.hs).length = 0 := by omega
      rw [List.eq_nil_of_length_eq_zero hl0]; exact lowestUnused_nil
    · have hr := releaseLast_append st.hs (List.replicate n ⟨lowestUnused (activeIds st.hs), true⟩) n (by simp)
      simp only [hr]
      exact inv_loop hi b hc _ _ (activeIds_release _ _)
        (fun d hd => by rw [mem_replicate_imp hd]; exact ⟨hv, by omega⟩)

theorem activeIds_replicate (n d : Nat) : activeIds (List.replicate n (⟨d, true⟩ : Handle)) = List.replicate n d := by
  induction n with
  | zero => rfl
  | succ k ih => rw [List.replicate_succ, activeIds_cons_active _ _ (by rfl), ih]; rfl

/-- a loop whose body does NOT consume the pairs: the pairs' ids stay allocated and their
handles stay active -/
theorem inv_loop_keep {c : Cfg} {st : St} (hi : Inv c st) (b : Body) (hc : b.consume.consumes = false)
    (hs' : List Handle) (ids : List Nat)
    (ea : activeIds hs' = activeIds st.hs ++ ids) (hn : (activeIds st.hs ++ ids).Nodup)
    (hb : ∀ v ∈ ids, v < c.maxq) (hcount : (activeIds st.hs).length + ids.length ≤ limit c) :
    Inv c { st with hs := hs', evs := st.evs ++ ids.flatMap (fun d => Ev.deliver d :: bodyEvs d b),
                    lastAlloc := none } := by
  obtain ⟨u, hu, hm⟩ := hi.runs
  obtain ⟨hn1, hn2, hn3⟩ := List.nodup_append.mp hn
  obtain ⟨u', hu', hm'⟩ := run_bodyKeep (m := c.maxq) b hc ids u hb hn2
    (fun v hv hvu => hn3 v ((hm v).mp hvu) v hv rfl)
  refine ⟨?_, ?_, ?_, ⟨u', run_snoc_ok hu hu', ?_⟩, by simp⟩
  · simp only [ea]; exact hn
  · simp only [ea]; intro v hv
    rcases List.mem_append.mp hv with h | h
    · exact hi.bound v h
    · exact hb v h
  · simp only [ea, List.length_append]; exact hcount
  · intro w; simp only [ea]; rw [hm' w, hm w, List.mem_append]

/-- `_create_ent_qubits` with one shared id (sequential request, or single-communication-qubit
hardware): the state before the handles are added, and the id -/
theorem createEnt_seq_spec {c : Cfg} {st : St} (hi : Inv c st) (n : Nat)
    (hb : (activeIds st.hs).length + 1 ≤ limit c) :
    ∃ base d, Inv c base ∧ (activeIds base.hs).length = (activeIds st.hs).length ∧
      createEnt c st n true =
        .ok (⟨base.hs ++ List.replicate n ⟨d, true⟩, base.evs, base.lastAlloc, base.unit⟩, List.replicate n d) ∧
      (c.single = true → d = 0) ∧ d ∉ activeIds base.hs ∧ d < c.maxq := by
  have hlim := limit_le c
  cases hnv : c.nv with
  | true =>
    obtain ⟨j1, j2, j3, _⟩ := inv_freeUp hi hnv
    have hlim1 : limit c = c.maxq - 1 := by unfold limit; simp [hnv]
    exact ⟨freeUp c st, 0, j1, j3, by simp [createEnt, hnv], fun _ => rfl, j2, by omega⟩
  | false =>
    have hlim1 : limit c = c.maxq := by unfold limit; simp [hnv]
    have hv := lowestUnused_not_mem (activeIds st.hs)
    have hl := lowestUnused_le_length (activeIds st.hs) hi.nodup
    refine ⟨st, lowestUnused (activeIds st.hs), hi, rfl, by simp [createEnt, hnv], ?_, hv, by omega⟩
    intro hs
    simp only [Cfg.single, hnv, Bool.false_or, beq_iff_eq] at hs
    have hl0 : (activeIds st.hs).length = 0 := by omega
    rw [List.eq_nil_of_length_eq_zero hl0]; exact lowestUnused_nil

/-- one-id loop constructs: consuming body (any number of pairs) or a body that keeps the pair
(at most one pair — a second one could never be delivered into the same id) -/
theorem inv_onebyone {c : Cfg} {st : St} (hi : Inv c st) (n : Nat) (b : Body)
    (hb : (activeIds st.hs).length + 1 ≤ limit c) (hk : b.consume.consumes = true ∨ n ≤ 1) :
    ∃ st1 d, createEnt c st n true = .ok (st1, List.replicate n d) ∧ (c.single = true → d = 0) ∧
      Inv c { st1 with hs := if b.consume.consumes then releaseLast n st1.hs else st1.hs,
                       evs := st1.evs ++ (List.replicate n d).flatMap (fun d => Ev.deliver d :: bodyEvs d b),
                       lastAlloc := none } := by
  obtain ⟨base, d, hib, hlen, hce, hd0, hdn, hdm⟩ := createEnt_seq_spec hi n hb
  refine ⟨_, d, hce, hd0, ?_⟩
  cases hc : b.consume.consumes with
  | true =>
    simp only [if_true]
    rw [releaseLast_append base.hs (List.replicate n ⟨d, true⟩) n (by simp)]
    exact inv_loop hib b hc _ _ (activeIds_release _ _)
      (fun x hx => by rw [mem_replicate_imp hx]; exact ⟨hdn, hdm⟩)
  | false =>
    have hn1 : n ≤ 1 := by
      rcases hk with h | h
      · rw [hc] at h; cases h
      · exact h
    simp only [Bool.false_eq_true, if_false]
    refine inv_loop_keep hib b hc _ (List.replicate n d) ?_ ?_ ?_ ?_
    · rw [activeIds_append, activeIds_replicate]
    · match n, hn1 with
      | 0, _ => simpa using hib.nodup
      | 1, _ => exact nodup_snoc hib.nodup hdn
    · intro v hv; rw [mem_replicate_imp hv]; exact hdm
    · simp only [List.length_replicate, hlen]; omega

theorem inv_seq {c : Cfg} {st : St} (hi : Inv c st) {r : Bool} {n : Nat} {b : Body}
    (hb : (activeIds st.hs).length + 1 ≤ limit c) (hk : b.consume.consumes = true ∨ n ≤ 1) :
    Inv c (apply c st (.seq r n b)).1 ∧ (apply c st (.seq r n b)).2.fatal = false := by
  obtain ⟨st1, d, e1, hd, i1⟩ := inv_onebyone hi n b hb hk
  simp only [apply, e1]
  refine ⟨?_, rfl⟩
  by_cases hs : c.single = true
  · simp only [hs, if_true]
    rw [hd hs] at i1
    exact i1
  · simp only [hs]
    exact i1

/-- distinct ids (generic hardware, not sequential): consuming or keeping bodies -/
theorem inv_distinct {c : Cfg} {st : St} (hi : Inv c st) (hnv : c.nv = false) (n : Nat) (b : Body)
    (hb : (activeIds st.hs).length + n ≤ limit c) :
    Inv c { (genEnt st n).1 with
      hs := if b.consume.consumes then releaseLast n (genEnt st n).1.hs else (genEnt st n).1.hs,
      evs := (genEnt st n).1.evs ++ (genEnt st n).2.flatMap (fun d => Ev.deliver d :: bodyEvs d b),
      lastAlloc := none } := by
  obtain ⟨i1, i2, i3, i4, i5, i6, i7⟩ := genEnt_spec n st hi.nodup
  obtain ⟨new, en, hl⟩ := genEnt_hs n st
  have hlim := limit_le c
  cases hc : b.consume.consumes with
  | true =>
    simp only [if_true]
    have hr := releaseLast_append st.hs new n hl
    have key := inv_loop hi b hc (st.hs ++ new.map (fun q => (⟨q.id, false⟩ : Handle))) (genEnt st n).2
      (activeIds_release _ _)
      (fun d hd => ⟨fun hm => (List.nodup_append.mp i5).2.2 d hm d hd rfl, by have := i7 d hd; omega⟩)
    show Inv c ⟨releaseLast n (genEnt st n).1.hs, (genEnt st n).1.evs ++ _, none, (genEnt st n).1.unit⟩
    rw [en, hr, i1, i3]; exact key
  | false =>
    simp only [Bool.false_eq_true, if_false]
    have key := inv_loop_keep hi b hc (genEnt st n).1.hs (genEnt st n).2 i4 i5
      (fun v hv => by have := i7 v hv; omega) (by rw [i6]; exact hb)
    show Inv c ⟨(genEnt st n).1.hs, (genEnt st n).1.evs ++ _, none, (genEnt st n).1.unit⟩
    rw [i1, i3]; exact key

theorem inv_ctx {c : Cfg} {st : St} (hi : Inv c st) {r : Bool} {n : Nat} {sq : Bool} {b : Body}
    (hk : (sq = false ∧ c.maxq < n) ∨
      ((sq || c.single) = true ∧ (activeIds st.hs).length + 1 ≤ limit c ∧
        (b.consume.consumes = true ∨ n ≤ 1)) ∨
      ((sq || c.single) = false ∧ (activeIds st.hs).length + n ≤ limit c)) :
    Inv c (apply c st (.ctx r n sq b)).1 ∧ (apply c st (.ctx r n sq b)).2.fatal = false := by
  simp only [apply]
  by_cases hv : (!sq && decide (c.maxq < n)) = true
  · rw [if_pos hv]; exact ⟨hi, rfl⟩
  · rw [if_neg hv]
    rcases hk with ⟨h1, h2⟩ | ⟨h1, h2, h3⟩ | ⟨h1, h2⟩
    · exfalso; apply hv; simp [h1, h2]
    · obtain ⟨st1, d, e1, _, i1⟩ := inv_onebyone hi n b h2 h3
      rw [h1, e1]
      exact ⟨i1, rfl⟩
    · rw [h1]
      have hnv : c.nv = false := by
        simp only [Bool.or_eq_false_iff, Cfg.single] at h1
        exact h1.2.1
      have hce : createEnt c st n false = .ok (genEnt st n) := by simp [createEnt, hnv]
      rw [hce]
      exact ⟨inv_distinct hi hnv n b h2, rfl⟩

theorem inv_postk {c : Cfg} {st : St} (hi : Inv c st) {r : Bool} {n : Nat} {b : Body}
    (hk : c.maxq < n ∨
      (c.single = true ∧ (activeIds st.hs).length + 1 ≤ limit c ∧ (b.consume.consumes = true ∨ n ≤ 1)) ∨
      (c.single = false ∧ (activeIds st.hs).length + n ≤ limit c)) :
    Inv c (apply c st (.postk r n b)).1 ∧ (apply c st (.postk r n b)).2.fatal = false := by
  simp only [apply]
  by_cases hv : c.maxq < n
  · rw [if_pos hv]; exact ⟨hi, rfl⟩
  · rw [if_neg hv]
    rcases hk with h | ⟨h1, h2, h3⟩ | ⟨h1, h2⟩
    · exact absurd h hv
    · obtain ⟨st1, d, e1, hd, i1⟩ := inv_onebyone hi n b h2 h3
      rw [h1, e1]
      simp only [if_true]
      rw [hd h1] at i1
      exact ⟨i1, rfl⟩
    · have hnv : c.nv = false := by
        simp only [Cfg.single, Bool.or_eq_false_iff] at h1
        exact h1.1
      have hce : createEnt c st n false = .ok (genEnt st n) := by simp [createEnt, hnv]
      rw [h1, hce]
      simp only [Bool.false_eq_true, if_false]
      exact ⟨inv_distinct hi hnv n b h2, rfl⟩

/-! ### min-fidelity retry loop -/

theorem nvEnt_hs : ∀ (n : Nat) (st st' : St) (ids : List Nat), nvEnt st n = .ok (st', ids) →
    st'.hs = st.hs ++ ids.map (fun k => (⟨k, true⟩ : Handle)) := by
  intro n
  induction n with
  | zero => intro st st' ids h; simp only [nvEnt] at h; cases h; simp
  | succ k ih =>
    intro st st' ids h
    simp only [nvEnt] at h
    by_cases hk : k = 0
    · rw [if_pos hk] at h; cases h; rfl
    · rw [if_neg hk] at h
      by_cases hm : k ∈ activeIds st.hs
      · rw [if_pos hm] at h; cases h
      · rw [if_neg hm] at h
        cases hr : nvEnt ⟨st.hs ++ [⟨k, true⟩], st.evs ++ [.alloc k, .use k], some k, st.unit⟩ k with
        | error e => rw [hr] at h; cases h
        | ok r =>
          obtain ⟨st'', ids'⟩ := r
          rw [hr] at h
          simp only [Except.ok.injEq, Prod.mk.injEq] at h
          obtain ⟨h1, h2⟩ := h
          subst h1 h2
          rw [ih _ st'' ids' hr]
          simp

theorem genEnt_hs2 : ∀ (n : Nat) (st : St),
    (genEnt st n).1.hs = st.hs ++ (genEnt st n).2.map (fun k => (⟨k, true⟩ : Handle)) := by
  intro n
  induction n with
  | zero => intro st; simp [genEnt]
  | succ k ih =>
    intro st
    simp only [genEnt]
    rw [ih]; simp

theorem run_frees {m : Nat} : ∀ (ids u : List Nat), ids.Nodup → (∀ d ∈ ids, d ∈ u ∧ d < m) →
    ∃ u', run m u (ids.map Ev.free) = .ok u' ∧ ∀ w, w ∈ u' ↔ (w ∈ u ∧ w ∉ ids) := by
  intro ids
  induction ids with
  | nil => intro u _ _; exact ⟨u, rfl, by simp⟩
  | cons d t ih =>
    intro u hn h
    rw [List.nodup_cons] at hn
    obtain ⟨hd1, hd2⟩ := h d List.mem_cons_self
    obtain ⟨u', hu', hm'⟩ := ih (u.filter (· != d)) hn.2 (fun d' hd' => by
      refine ⟨?_, (h d' (List.mem_cons_of_mem _ hd')).2⟩
      simp only [List.mem_filter, bne_iff_ne, ne_eq, decide_not, Bool.not_eq_true',
        decide_eq_false_iff_not]
      exact ⟨(h d' (List.mem_cons_of_mem _ hd')).1, fun e => hn.1 (e ▸ hd')⟩)
    refine ⟨u', ?_, ?_⟩
    · simp only [List.map_cons, run, step_free hd2 hd1]; exact hu'
    · intro w; rw [hm' w]
      simp only [List.mem_filter, bne_iff_ne, ne_eq, decide_not, Bool.not_eq_true',
        decide_eq_false_iff_not, List.mem_cons, not_or]
      constructor
      · rintro ⟨⟨h1, h2⟩, h3⟩; exact ⟨h1, h2, h3⟩
      · rintro ⟨h1, h2, h3⟩; exact ⟨⟨h1, h2⟩, h3⟩

/-- `try until success`: if an attempt takes `P` to `Q` and the clean-up takes `Q` back to `P`,
then any number of failed attempts followed by a successful one takes `P` to `Q` -/
theorem run_retry {m : Nat} (P Q : List Nat → Prop) (attempt cleanup : List Ev)
    (ha : ∀ u, P u → ∃ u', run m u attempt = .ok u' ∧ Q u')
    (hc : ∀ u, Q u → ∃ u', run m u cleanup = .ok u' ∧ P u') :
    ∀ (k : Nat) (u : List Nat), P u →
      ∃ u', run m u ((List.replicate k (attempt ++ cleanup)).flatten ++ attempt) = .ok u' ∧ Q u' := by
  intro k
  induction k with
  | zero => intro u hp; simpa using ha u hp
  | succ k ih =>
    intro u hp
    obtain ⟨u1, h1, q1⟩ := ha u hp
    obtain ⟨u2, h2, p2⟩ := hc u1 q1
    obtain ⟨u3, h3, q3⟩ := ih u2 p2
    refine ⟨u3, ?_, q3⟩
    simp only [List.replicate_succ, List.flatten_cons, List.append_assoc]
    exact run_snoc_ok h1 (run_snoc_ok h2 (by simpa using h3))

theorem retryEvs_success {attempt cleanup : List Ev} {fails tries : Nat} (h : fails < tries) :
    retryEvs attempt cleanup fails tries =
      (List.replicate fails (attempt ++ cleanup)).flatten ++ attempt := by
  unfold retryEvs
  rw [if_pos h, Nat.min_eq_left (Nat.le_of_lt h)]

theorem freeUp_idem {c : Cfg} {st : St} (hi : Inv c st) (hnv : c.nv = true) :
    freeUp c (freeUp c st) = freeUp c st := by
  obtain ⟨j1, j2, _, _⟩ := inv_freeUp hi hnv
  rcases freeUp_cases j1 hnv with ⟨_, e⟩ | ⟨l1, q, l2, e, ha, hid, _, _, _⟩
  · exact e
  · exfalso
    apply j2
    rw [e, activeIds_append, activeIds_cons_active q l2 ha, hid]
    simp

theorem inv_seqr {c : Cfg} {st : St} (hi : Inv c st) {r : Bool} {n : Nat} {b : Body} {fails tries : Nat}
    (hf : fails < tries) (hcb : b.consume.consumes = true) (hb : (activeIds st.hs).length + 1 ≤ limit c) :
    Inv c (apply c st (.seqr r n b fails tries)).1 ∧ (apply c st (.seqr r n b fails tries)).2.fatal = false := by
  -- state after the relocation
  have h0 : Inv c (freeUp c st) ∧ (activeIds (freeUp c st).hs).length = (activeIds st.hs).length := by
    cases hnv : c.nv with
    | false => rw [freeUp_generic st hnv]; exact ⟨hi, rfl⟩
    | true => obtain ⟨j1, _, j3, _⟩ := inv_freeUp hi hnv; exact ⟨j1, j3⟩
  obtain ⟨hi0, hl0⟩ := h0
  obtain ⟨st1, d, e1, hd, i1⟩ := inv_loop_sequential hi0 n b hcb (by rw [hl0]; exact hb)
  simp only [apply, e1, hcb, if_true]
  refine ⟨?_, rfl⟩
  -- the single-attempt invariant, re-read for the retried events
  have harr : (if c.single = true then List.replicate n 0 else List.replicate n d) = List.replicate n d := by
    by_cases hs : c.single = true
    · rw [if_pos hs, hd hs]
    · rw [if_neg hs]
  rw [harr]
  -- evs of st1 are those of the relocated state (createEnt with sequential handles emits nothing)
  have hev : st1.evs = (freeUp c st).evs ∧ st1.unit = (freeUp c st).unit ∧
      activeIds (releaseLast n st1.hs) = activeIds (freeUp c st).hs ∧
      (∀ x ∈ List.replicate n d, x ∉ activeIds (freeUp c st).hs ∧ x < c.maxq) := by
    have hlim := limit_le c
    cases hnv : c.nv with
    | true =>
      have hfu := freeUp_idem hi hnv
      obtain ⟨_, j2, _, _⟩ := inv_freeUp hi hnv
      have hlim1 : limit c = c.maxq - 1 := by unfold limit; simp [hnv]
      simp only [createEnt, hnv, if_true, hfu, Except.ok.injEq, Prod.mk.injEq] at e1
      obtain ⟨e1a, e1b⟩ := e1
      subst e1a
      have hd0 : d = 0 := by
        cases n with
        | zero => exact hd (by simp [Cfg.single, hnv])
        | succ k => simp [List.replicate_succ] at e1b; exact e1b.1.symm
      refine ⟨rfl, rfl, ?_, ?_⟩
      · simp only
        rw [releaseLast_append _ _ n (by simp)]; exact activeIds_release _ _
      · intro x hx; rw [mem_replicate_imp hx, hd0]; exact ⟨j2, by omega⟩
    | false =>
      have hlim1 : limit c = c.maxq := by unfold limit; simp [hnv]
      rw [freeUp_generic st hnv] at e1 ⊢
      simp only [createEnt, hnv, Bool.false_eq_true, if_false, if_true, Except.ok.injEq, Prod.mk.injEq] at e1
      obtain ⟨e1a, e1b⟩ := e1
      subst e1a
      have hv := lowestUnused_not_mem (activeIds st.hs)
      have hl := lowestUnused_le_length (activeIds st.hs) hi.nodup
      refine ⟨rfl, rfl, ?_, ?_⟩
      · simp only
        rw [releaseLast_append _ _ n (by simp)]; exact activeIds_release _ _
      · intro x hx
        cases n with
        | zero => simp at hx
        | succ k =>
          simp [List.replicate_succ] at e1b
          rw [mem_replicate_imp hx, ← e1b.1]; exact ⟨hv, by omega⟩
  obtain ⟨hev1, hev2, hev3, hev4⟩ := hev
  obtain ⟨u, hu, hm⟩ := hi0.runs
  obtain ⟨u', hu', hq'⟩ := run_retry (m := c.maxq)
    (fun u => ∀ w, w ∈ u ↔ w ∈ activeIds (freeUp c st).hs) (fun u => ∀ w, w ∈ u ↔ w ∈ activeIds (freeUp c st).hs)
    ((List.replicate n d).flatMap (fun d => Ev.deliver d :: bodyEvs d b)) []
    (fun u0 hp => by
      obtain ⟨u1, h1, m1⟩ := run_bodyLoop (m := c.maxq) b hcb (List.replicate n d) u0
        (fun x hx => ⟨fun h => (hev4 x hx).1 ((hp x).mp h), (hev4 x hx).2⟩)
      exact ⟨u1, h1, fun w => (m1 w).trans (hp w)⟩)
    (fun u0 hq => ⟨u0, rfl, hq⟩) fails u hm
  rw [retryEvs_success hf]
  simp only [List.append_nil] at hu'
  refine ⟨?_, ?_, ?_, ⟨u', ?_, ?_⟩, by simp⟩
  · simp only [hev3]; exact hi0.nodup
  · simp only [hev3]; exact hi0.bound
  · simp only [hev3]; exact hi0.count
  · simp only [hev2, List.append_nil]; exact run_snoc_ok hu hu'
  · simp only [hev3]; exact hq'

theorem inv_retry_core {c : Cfg} {st0 : St} (hi0 : Inv c st0) (newIds : List Nat) (attempt : List Ev)
    (hs1 : List Handle) (hact : activeIds hs1 = activeIds st0.hs ++ newIds)
    (hnd : (activeIds st0.hs ++ newIds).Nodup) (hbd : ∀ v ∈ newIds, v < c.maxq)
    (hcount : (activeIds st0.hs).length + newIds.length ≤ limit c)
    (hatt : ∀ u, (∀ w, w ∈ u ↔ w ∈ activeIds st0.hs) →
      ∃ u', run c.maxq u attempt = .ok u' ∧ ∀ w, w ∈ u' ↔ w ∈ activeIds st0.hs ∨ w ∈ newIds)
    (fails tries : Nat) (hf : fails < tries) :
    Inv c ⟨hs1, st0.evs ++ retryEvs attempt (newIds.map Ev.free) fails tries, none, st0.unit⟩ := by
  obtain ⟨u, hu, hm⟩ := hi0.runs
  obtain ⟨hn1, hn2, hn3⟩ := List.nodup_append.mp hnd
  obtain ⟨u', hu', hq'⟩ := run_retry (m := c.maxq)
    (fun u => ∀ w, w ∈ u ↔ w ∈ activeIds st0.hs)
    (fun u => ∀ w, w ∈ u ↔ w ∈ activeIds st0.hs ∨ w ∈ newIds)
    attempt (newIds.map Ev.free) hatt
    (fun u0 hq => by
      obtain ⟨u1, h1, m1⟩ := run_frees (m := c.maxq) newIds u0 hn2
        (fun d hd => ⟨(hq d).mpr (Or.inr hd), hbd d hd⟩)
      refine ⟨u1, h1, fun w => ?_⟩
      rw [m1 w, hq w]
      constructor
      · rintro ⟨h | h, hnot⟩
        · exact h
        · exact absurd h hnot
      · intro h; exact ⟨Or.inl h, fun hw => hn3 w h w hw rfl⟩)
    fails u hm
  rw [retryEvs_success hf]
  refine ⟨?_, ?_, ?_, ⟨u', run_snoc_ok hu hu', ?_⟩, by simp⟩
  · simp only [hact]; exact hnd
  · simp only [hact]; intro v hv
    rcases List.mem_append.mp hv with h | h
    · exact hi0.bound v h
    · exact hbd v h
  · simp only [hact, List.length_append]; exact hcount
  · intro w; simp only [hact, List.mem_append]; exact hq' w

theorem inv_keepr {c : Cfg} {st : St} (hi : Inv c st) {r : Bool} {n fails tries : Nat} (h1 : 1 ≤ n)
    (hmax : n ≤ c.maxq) (hf : fails < tries) (hb : (activeIds st.hs).length + n ≤ limit c)
    (hk : c.nv = false ∨ nvKeepOk c st n = true) :
    Inv c (apply c st (.keepr r n fails tries)).1 ∧
      (apply c st (.keepr r n fails tries)).2.fatal = false := by
  have hlim := limit_le c
  simp only [apply]
  rw [if_neg (by omega)]
  cases hnv : c.nv with
  | false =>
    rw [freeUp_generic st hnv]
    obtain ⟨i1, i2, i3, i4, i5, i6, i7⟩ := genEnt_spec n st hi.nodup
    have hce : createEnt c st n false = .ok (genEnt st n) := by simp [createEnt, hnv]
    rw [hce]
    simp only
    have hloop : (if c.single = true then moveLoop n n else (genEnt st n).2.map Ev.deliver)
        = (genEnt st n).2.map Ev.deliver := by
      by_cases hs : c.single = true
      · rw [if_pos hs]
        simp only [Cfg.single, hnv, Bool.false_or, beq_iff_eq] at hs
        have hlim1 : limit c = c.maxq := by unfold limit; simp [hnv]
        have hn1 : n = 1 := by omega
        have hl0 : (activeIds st.hs).length = 0 := by omega
        have he : activeIds st.hs = [] := List.eq_nil_of_length_eq_zero hl0
        subst hn1
        simp [moveLoop, genEnt, he, lowestUnused_nil]
      · rw [if_neg hs]
    have hhs := genEnt_hs2 n st
    have hdrop : (genEnt st n).1.evs.drop st.evs.length = [] := by rw [i1]; simp
    have hcl : ((genEnt st n).1.hs.drop st.hs.length).map (fun h => Ev.free h.id) =
        (genEnt st n).2.map Ev.free := by
      rw [hhs, List.drop_left']
      · simp [Function.comp_def]
      · rfl
    rw [hloop, hdrop, hcl, List.nil_append]
    refine ⟨?_, rfl⟩
    have key := inv_retry_core hi (genEnt st n).2 ((genEnt st n).2.map Ev.deliver) (genEnt st n).1.hs
      i4 i5 (fun v hv => by have := i7 v hv; omega) (by rw [i6]; exact hb)
      (fun u hp => by
        obtain ⟨hn1, hn2, hn3⟩ := List.nodup_append.mp i5
        obtain ⟨u1, h1', m1⟩ := run_delivers (m := c.maxq) (genEnt st n).2 u
          (fun v hv => by have := i7 v hv; omega) hn2
          (fun v hv hvu => hn3 v ((hp v).mp hvu) v hv rfl)
        exact ⟨u1, h1', fun w => by rw [m1 w, hp w]⟩)
      fails tries hf
    show Inv c ⟨(genEnt st n).1.hs, _, none, (genEnt st n).1.unit⟩
    rw [i3]; exact key
  | true =>
    have hok : nvKeepOk c st n = true := by
      rcases hk with hk | hk
      · rw [hnv] at hk; cases hk
      · exact hk
    obtain ⟨j1, j2, j3, _⟩ := inv_freeUp hi hnv
    have hlim1 : limit c = c.maxq - 1 := by unfold limit; simp [hnv]
    obtain ⟨st', e1, e2, e3, e4⟩ := nvEnt_spec n (freeUp c st) (nvKeepOk_spec hok)
    have hhs := nvEnt_hs n (freeUp c st) st' (descIds n) e1
    have hce : createEnt c (freeUp c st) n false = .ok (st', descIds n) := by
      simp only [createEnt, hnv, if_true, freeUp_idem hi hnv]; exact e1
    rw [hce]
    have hs : c.single = true := by simp [Cfg.single, hnv]
    simp only [hs, if_true]
    have hdrop : st'.evs.drop (freeUp c st).evs.length = allocEvs n := by
      rw [e3, List.drop_left']; rfl
    have hcl : (st'.hs.drop (freeUp c st).hs.length).map (fun h => Ev.free h.id) =
        (descIds n).map Ev.free := by
      rw [hhs, List.drop_left']
      · simp [Function.comp_def]
      · rfl
    rw [hdrop, hcl]
    refine ⟨?_, rfl⟩
    have hdisj : ∀ a ∈ activeIds (freeUp c st).hs, ∀ b ∈ descIds n, a ≠ b := by
      intro a ha b hb' e
      subst e
      have hb'' := (mem_descIds n a).mp hb'
      by_cases ha0 : a = 0
      · subst ha0; exact j2 ha
      · exact nvKeepOk_spec hok a (by omega) hb'' ha
    have key := inv_retry_core j1 (descIds n) (allocEvs n ++ moveLoop n n) st'.hs e2
      (List.nodup_append.mpr ⟨j1.nodup, nodup_descIds n, hdisj⟩)
      (fun v hv => by have := (mem_descIds n v).mp hv; omega)
      (by rw [length_descIds, j3]; exact hb)
      (fun u hp => by
        have hfree : ∀ k, 1 ≤ k → k < n → k ∉ u ∧ k < c.maxq := fun k hk1 hk2 =>
          ⟨fun h => nvKeepOk_spec hok k hk1 hk2 ((hp k).mp h), by omega⟩
        obtain ⟨u2, hu2, hm2⟩ := run_allocEvs n u hfree
        have h0u2 : (0 : Nat) ∉ u2 := by
          intro h
          rcases (hm2 0).mp h with h | h
          · exact j2 ((hp 0).mp h)
          · omega
        obtain ⟨u3, hu3, hm3⟩ := run_moveLoop (m := c.maxq) (n := n) n u2 h1 h0u2 (by omega)
          (fun j hj1 hj2 => ⟨(hm2 j).mpr (Or.inr ⟨hj1, hj2⟩), by omega⟩)
        refine ⟨u3, run_snoc_ok hu2 hu3, fun w => ?_⟩
        rw [hm3 w, hm2 w, hp w, mem_descIds]
        constructor
        · rintro (h | h | h)
          · exact Or.inr (by omega)
          · exact Or.inl h
          · exact Or.inr h.2
        · rintro (h | h)
          · exact Or.inr (Or.inl h)
          · by_cases hw0 : w = 0
            · exact Or.inl hw0
            · exact Or.inr (Or.inr ⟨by omega, h⟩))
      fails tries hf
    show Inv c ⟨st'.hs, _, none, st'.unit⟩
    rw [e4]; exact key

theorem inv_apply {c : Cfg} {st : St} {op : Op} (hi : Inv c st) (hok : opOk c st op = true) :
    Inv c (apply c st op).1 ∧ (apply c st op).2.fatal = false := by
  cases op with
  | new =>
    simp only [opOk, decide_eq_true_eq] at hok
    exact ⟨inv_new hi hok, rfl⟩
  | gate h =>
    obtain ⟨i1, i2⟩ := inv_gate hi (h := h) hok
    exact ⟨i1, by rw [i2]; rfl⟩
  | gate2 h1 h2 =>
    simp only [opOk, Bool.and_eq_true] at hok
    obtain ⟨i1, i2⟩ := inv_gate2 hi hok.1.1.1 hok.1.1.2 hok.2
    exact ⟨i1, by rw [i2]; rfl⟩
  | meas h ip =>
    simp only [opOk, decide_eq_true_eq] at hok
    exact inv_meas hi hok
  | free h =>
    simp only [opOk, decide_eq_true_eq] at hok
    exact inv_free hi hok
  | keep r n =>
    simp only [opOk, Bool.and_eq_true, Bool.or_eq_true, decide_eq_true_eq, Bool.not_eq_true',
      beq_iff_eq] at hok
    exact inv_keep hi hok.1 hok.2
  | seq r n b =>
    simp only [opOk, Bool.and_eq_true, Bool.or_eq_true, decide_eq_true_eq] at hok
    exact inv_seq hi hok.1 hok.2
  | postk r n b =>
    apply inv_postk hi
    simp only [opOk] at hok
    cases hs : c.single with
    | true =>
      rw [hs] at hok
      simp only [if_true, Bool.or_eq_true, Bool.and_eq_true, decide_eq_true_eq] at hok
      rcases hok with h | h
      · exact Or.inl h
      · exact Or.inr (Or.inl ⟨rfl, h.1, h.2⟩)
    | false =>
      rw [hs] at hok
      simp only [Bool.false_eq_true, if_false, Bool.or_eq_true, decide_eq_true_eq] at hok
      rcases hok with h | h
      · exact Or.inl h
      · exact Or.inr (Or.inr ⟨rfl, h⟩)
  | ctx r n sq b =>
    apply inv_ctx hi
    simp only [opOk] at hok
    cases hs : (sq || c.single) with
    | true =>
      rw [hs] at hok
      simp only [if_true, Bool.or_eq_true, Bool.and_eq_true, Bool.not_eq_true', decide_eq_true_eq] at hok
      rcases hok with h | h
      · exact Or.inl h
      · exact Or.inr (Or.inl ⟨rfl, h.1, h.2⟩)
    | false =>
      rw [hs] at hok
      simp only [Bool.false_eq_true, if_false, Bool.or_eq_true, Bool.and_eq_true, Bool.not_eq_true',
        decide_eq_true_eq] at hok
      rcases hok with h | h
      · exact Or.inl h
      · exact Or.inr (Or.inr ⟨rfl, h⟩)
  | keepr r n fails tries =>
    simp only [opOk, Bool.and_eq_true, Bool.or_eq_true, decide_eq_true_eq, Bool.not_eq_true'] at hok
    exact inv_keepr hi hok.1.1.1.1 hok.1.1.1.2 hok.1.1.2 hok.1.2 hok.2
  | seqr r n b fails tries =>
    simp only [opOk, Bool.and_eq_true, decide_eq_true_eq] at hok
    exact inv_seqr hi hok.1.1 hok.1.2 hok.2
  | flush =>
    obtain ⟨i1, i2, _, _⟩ := inv_flush hi
    exact ⟨i1, by simp only [apply]; rw [i2]; rfl⟩
  | close =>
    obtain ⟨i1, i2⟩ := inv_close hi
    exact ⟨i1, by rw [i2]; rfl⟩

theorem inv_runOps {c : Cfg} : ∀ (ops : List Op) (st : St), Inv c st → good c st ops = true →
    Inv c (runOps c st ops).1 ∧ (runOps c st ops).2.fatal = false := by
  intro ops
  induction ops with
  | nil => intro st hi _; exact ⟨hi, rfl⟩
  | cons op ops ih =>
    intro st hi hg
    simp only [good, Bool.and_eq_true] at hg
    obtain ⟨i1, i2⟩ := inv_apply hi hg.1
    simp only [runOps]
    generalize ha : apply c st op = r at i1 i2 hg
    obtain ⟨st', res⟩ := r
    simp only at i1 i2 hg ⊢
    rw [i2]
    simp only [Bool.false_eq_true, if_false]
    exact ih st' i1 hg.2

/-! ### id reuse -/

theorem free_released {c : Cfg} {st : St} (hi : Inv c st) {h : Nat} {q : Handle}
    (hq : st.hs[h]? = some q) (hact : q.active = true) :
    q.id ∉ activeIds (apply c st (.free h)).1.hs := by
  simp only [apply, hq, if_pos hact]
  have hmem := mem_activeIds_of_get hq hact
  exact (inv_release hi hq hact [.free q.id] (fun u hm =>
    run_free_spec (hi.bound _ hmem) ((hm _).mpr hmem))).2

theorem meas_released {c : Cfg} {st : St} (hi : Inv c st) {h : Nat} {q : Handle}
    (hq : st.hs[h]? = some q) (hact : q.active = true) :
    q.id ∉ activeIds (apply c st (.meas h false)).1.hs := by
  simp only [apply, hq, if_pos hact]
  have hst1 : ∃ st1, (if (q.id != 0) = true then freeUp c st else st) = st1 ∧ Inv c st1 ∧
      st1.hs[h]? = some q := by
    by_cases hid : (q.id != 0) = true
    · rw [if_pos hid]
      cases hnv : c.nv with
      | false => rw [freeUp_generic st hnv]; exact ⟨st, rfl, hi, hq⟩
      | true =>
        obtain ⟨i1, _, _, i4⟩ := inv_freeUp hi hnv
        exact ⟨_, rfl, i1, i4 h q hq (by simpa using hid)⟩
    · rw [if_neg hid]; exact ⟨st, rfl, hi, hq⟩
  obtain ⟨st1, e1, hi1, hq1⟩ := hst1
  rw [e1]
  have hmem := mem_activeIds_of_get hq1 hact
  have := (inv_release hi1 hq1 hact [.use q.id, .free q.id] (fun u hm =>
    run_meas_free_spec (hi1.bound _ hmem) ((hm _).mpr hmem))).2
  simpa using this

/-! ### several connections -/

theorem runJ_proj (cs : Cfg × Cfg) : ∀ (h : List (Bool × Op)) (s : St × St),
    runJ cs s h = (foldOps cs.1 s.1 (projOps false h), foldOps cs.2 s.2 (projOps true h)) := by
  intro h
  induction h with
  | nil => intro s; rfl
  | cons e es ih =>
    intro s
    obtain ⟨i, op⟩ := e
    cases i with
    | true => simp only [runJ, applyJ, if_true, ih, projOps]; rfl
    | false => simp only [runJ, applyJ, Bool.false_eq_true, if_false, ih, projOps]; rfl

theorem inv_foldOps {c : Cfg} : ∀ (ops : List Op) (st : St), Inv c st → good c st ops = true →
    Inv c (foldOps c st ops) := by
  intro ops
  induction ops with
  | nil => intro st hi _; exact hi
  | cons op ops ih =>
    intro st hi hg
    simp only [good, Bool.and_eq_true] at hg
    exact ih _ (inv_apply hi hg.1).1 hg.2

end NQ.QM
