/-
C03 text level: instruction lines WITH argument brackets `mn(a₁,…,aₖ) op₁ … opₙ`.
-/
import NetqasmVerif.Lemmas.AsmFrontBody
namespace NQ.AsmFront
open NQ NQ.AsmText NQ.Text

variable {S : Syms}

/-! ### the argument list -/

/-- `a₁,a₂,…,aₖ` -/
def argsBody : List Int → List Char
  | [] => []
  | [a] => showInt a
  | a :: as => showInt a ++ ',' :: argsBody as

/-- `(a₁,…,aₖ)`, nothing for an empty argument list -/
def showArgs (ob cb : Char) (as : List Int) : List Char :=
  if as.isEmpty then [] else ob :: argsBody as ++ [cb]

theorem showInt_numChars (v : Int) : ∀ c ∈ showInt v, numChar c = true := showInt_chars v

theorem argsBody_chars (as : List Int) : ∀ c ∈ argsBody as, numChar c = true ∨ c = ',' := by
  induction as with
  | nil => simp [argsBody]
  | cons a rest ih =>
    cases rest with
    | nil => intro c hc; exact Or.inl (showInt_numChars a c hc)
    | cons b bs =>
      intro c hc
      simp only [argsBody, List.mem_append, List.mem_cons] at hc
      rcases hc with hc | hc | hc
      · exact Or.inl (showInt_numChars a c hc)
      · exact Or.inr hc
      · exact ih c hc

theorem comma_notin_showInt (v : Int) : ',' ∉ showInt v := by
  intro h; have := showInt_numChars v _ h; simp [numChar, isDigit] at this

theorem splitOn_argsBody (a : Int) (as : List Int) :
    Text.splitOn ',' (argsBody (a :: as)) = (a :: as).map showInt := by
  induction as generalizing a with
  | nil => simp [argsBody, splitOn_notin (comma_notin_showInt a)]
  | cons b bs ih =>
    simp only [argsBody, List.map_cons]
    rw [splitOn_append (comma_notin_showInt a), ih b]
    rfl

theorem numChar_not_asmSpace {c : Char} (h : numChar c = true) : AsmText.isSpace c = false := by
  cases hs : AsmText.isSpace c
  · rfl
  · simp only [AsmText.isSpace, Bool.or_eq_true, beq_iff_eq] at hs
    rcases hs with ((((rfl | rfl) | rfl) | rfl) | rfl) | rfl <;> simp [numChar, isDigit] at h

theorem asm_strip_showInt (v : Int) : AsmText.strip (showInt v) = showInt v := by
  obtain ⟨l, d, hl, hd⟩ := showInt_last v
  cases hc : showInt v with
  | nil => exact absurd hc (showInt_ne_nil v)
  | cons c cs =>
    rw [← hc]
    exact asm_strip_of_ends (numChar_not_asmSpace (showInt_numChars v c (by rw [hc]; exact List.mem_cons_self)))
      (numChar_not_asmSpace (by simp [numChar, hd])) ⟨cs, hc⟩ ⟨l, hl⟩

theorem parseArgsList_show (as : List Int) : parseArgsList (as.map showInt) = .ok as := by
  induction as with
  | nil => rfl
  | cons a rest ih => simp [parseArgsList, asm_strip_showInt, parseConst_showInt, ih]

theorem stripChars_wrapped (p : Char → Bool) (ob cb : Char) (B : List Char) (hob : p ob = true) (hcb : p cb = true)
    (hB : ∀ c ∈ B, p c = false) (hne : B ≠ []) : stripChars p (ob :: B ++ [cb]) = B := by
  unfold stripChars
  cases B with
  | nil => exact absurd rfl hne
  | cons c cs =>
    have h1 : (ob :: (c :: cs) ++ [cb]).dropWhile p = (c :: cs) ++ [cb] := by
      simp [List.dropWhile_cons, hob, hB c (by simp)]
    rw [h1]
    have h2 : ((c :: cs) ++ [cb]).reverse.dropWhile p = (c :: cs).reverse := by
      simp only [List.reverse_append, List.reverse_cons, List.reverse_nil, List.nil_append, List.singleton_append,
        List.dropWhile_cons, hcb, if_true]
      cases hr : (cs.reverse ++ [c]) with
      | nil => simp at hr
      | cons d ds =>
        have hd : p d = false := hB d (by
          have : d ∈ cs.reverse ++ [c] := by rw [hr]; exact List.mem_cons_self
          simp only [List.mem_append, List.mem_reverse, List.mem_singleton] at this
          rcases this with h | h
          · exact List.mem_cons_of_mem _ h
          · rw [h]; exact List.mem_cons_self)
        simp [List.dropWhile_cons, hd]
    rw [h2, List.reverse_reverse]

theorem argsBody_ne_nil (a : Int) (as : List Int) : argsBody (a :: as) ≠ [] := by
  cases as with
  | nil => exact showInt_ne_nil a
  | cons b bs =>
    simp only [argsBody]
    cases h : showInt a with
    | nil => exact absurd h (showInt_ne_nil a)
    | cons c cs => simp

/-- `_parse_args` reads a written argument list back -/
theorem parseArgs_show (ob cb : Char) (hob : numChar ob = false ∧ ob ≠ ',') (hcb : numChar cb = false ∧ cb ≠ ',')
    (as : List Int) : parseArgs ob cb (showArgs ob cb as) = .ok as := by
  cases as with
  | nil => rfl
  | cons a rest =>
    have hB : ∀ c ∈ argsBody (a :: rest), (decide (c = ob) || decide (c = cb)) = false := by
      intro c hc
      rcases argsBody_chars _ c hc with h | h
      · simp only [Bool.or_eq_false_iff, decide_eq_false_iff_not]
        exact ⟨fun e => (by rw [e, hob.1] at h; cases h), fun e => (by rw [e, hcb.1] at h; cases h)⟩
      · subst h
        simp only [Bool.or_eq_false_iff, decide_eq_false_iff_not]
        exact ⟨fun e => hob.2 e.symm, fun e => hcb.2 e.symm⟩
    simp only [parseArgs, showArgs, List.isEmpty_cons, Bool.false_eq_true, if_false]
    rw [stripChars_wrapped _ ob cb _ (by simp) (by simp) hB (argsBody_ne_nil a rest), splitOn_argsBody,
      parseArgsList_show]
    simp

/-! ### the tokeniser on a line with an argument list -/

theorem findSub_pair (cb : Char) : ∀ (U T : List Char) (n : Nat), cb ∉ U →
    findSub [cb, ' '] (U ++ cb :: ' ' :: T) n = some (n + U.length)
  | [], T, n, _ => by simp [findSub, List.isPrefixOf]
  | d :: U, T, n, h => by
    simp only [List.mem_cons, not_or] at h
    have hne : (cb == d) = false := by simpa using h.1
    simp [findSub, List.isPrefixOf, hne, findSub_pair cb U T (n + 1) h.2]
    omega

/-- the first word of a line that starts with `name(args)`: `group_by_word` takes the whole
bracketed word and goes on after the following space -/
theorem groupAux_head (ob cb : Char) (pre mid T : List Char) (fuel : Nat)
    (hob : ob ∉ pre) (hcb : cb ∉ pre ++ ob :: mid) (hsp : ' ' ∉ pre ++ ob :: mid ++ [cb]) :
    groupAux ob cb (fuel + 1) ((pre ++ ob :: mid ++ [cb]) ++ ' ' :: T) =
      (groupAux ob cb fuel T).map (fun ws => (pre ++ ob :: mid ++ [cb]) :: ws) := by
  have hne : ((pre ++ ob :: mid ++ [cb]) ++ ' ' :: T).isEmpty = false := by
    cases pre <;> simp
  have hsep : findSub [' '] ((pre ++ ob :: mid ++ [cb]) ++ ' ' :: T) 0 = some (pre ++ ob :: mid ++ [cb]).length := by
    simpa using findSub_single_append ' ' _ T 0 hsp
  have hopen : findSub [ob] ((pre ++ ob :: mid ++ [cb]) ++ ' ' :: T) 0 = some pre.length := by
    have : (pre ++ ob :: mid ++ [cb]) ++ ' ' :: T = pre ++ ob :: (mid ++ [cb] ++ ' ' :: T) := by simp
    rw [this]; simpa using findSub_single_append ob pre _ 0 hob
  have hlt : pre.length < (pre ++ ob :: mid ++ [cb]).length := by
      simp only [List.length_append, List.length_cons, List.length_nil] <;> omega
  have hend : findSub [cb, ' '] ((pre ++ ob :: mid ++ [cb]) ++ ' ' :: T) 0 = some (pre ++ ob :: mid).length := by
    have : (pre ++ ob :: mid ++ [cb]) ++ ' ' :: T = (pre ++ ob :: mid) ++ cb :: ' ' :: T := by simp
    rw [this]; simpa using findSub_pair cb _ T 0 hcb
  have htake : ((pre ++ ob :: mid ++ [cb]) ++ ' ' :: T).take ((pre ++ ob :: mid).length + 2 - 1)
      = pre ++ ob :: mid ++ [cb] := by
    have e : (pre ++ ob :: mid).length + 2 - 1 = (pre ++ ob :: mid ++ [cb]).length := by
      simp only [List.length_append, List.length_cons, List.length_nil] <;> omega
    rw [e]; exact List.take_left' rfl
  have hdrop : ((pre ++ ob :: mid ++ [cb]) ++ ' ' :: T).drop ((pre ++ ob :: mid).length + 2) = T := by
    have e : (pre ++ ob :: mid).length + 2 = ((pre ++ ob :: mid ++ [cb]) ++ [' ']).length := by
      simp only [List.length_append, List.length_cons, List.length_nil] <;> omega
    have e2 : (pre ++ ob :: mid ++ [cb]) ++ ' ' :: T = ((pre ++ ob :: mid ++ [cb]) ++ [' ']) ++ T := by simp
    rw [e, e2]; exact List.drop_left' rfl
  simp only [groupAux, hne, Bool.false_eq_true, if_false, hsep, hopen, hlt, if_true, hend,
    List.length_cons, List.length_nil, htake, hdrop]
  cases groupAux ob cb fuel T <;> rfl

/-! ### instruction lines with an argument list -/

/-- what lines with argument brackets need from the symbols (decidable; generated obligation) -/
def argSymsOk (S : Syms) : Bool :=
  !numChar S.argOpen && !(S.argOpen == ',') && !(S.argOpen == ')') && !srcLineChar S ')' && !(S.branchEnd == ')')
    && !srcLineChar S S.argOpen

theorem srcLast_ne_branch (hS : SOk S) (hX : srcSymsOk S = true) {d : Char} (hd : srcLast S d) : d ≠ S.branchEnd := by
  simp only [srcSymsOk, Bool.and_eq_true, Bool.not_eq_true', Bool.or_eq_false_iff,
    decide_eq_false_iff_not] at hX
  obtain ⟨⟨⟨⟨_, _⟩, hXb⟩, _⟩, _⟩ := hX
  intro h
  rcases hd with hd | hd | hd | hd
  · rw [h, hS.branch.1] at hd; cases hd
  · exact hS.branch.2.1 (h ▸ hd)
  · rw [h, hS.branch.2.2] at hd; cases hd
  · rw [h] at hd
    simp only [Bool.or_eq_true, decide_eq_true_eq] at hd
    rcases hd with hd | hd
    · rw [hXb.1] at hd; cases hd
    · exact hXb.2 hd

theorem srcLast_not_asmSpace (hX : srcSymsOk S = true) {d : Char} (hd : srcLast S d) : AsmText.isSpace d = false := by
  have hXc : AsmText.isSpace S.idxClose = false := by
    simp only [srcSymsOk, Bool.and_eq_true, Bool.not_eq_true'] at hX; exact hX.2
  rcases hd with hd | hd | hd | hd
  · exact asm_not_space_of_lastOk hXc (Or.inl hd)
  · exact asm_not_space_of_lastOk hXc (Or.inr (Or.inl hd))
  · exact asm_not_space_of_lastOk hXc (Or.inr (Or.inr hd))
  · cases hs : AsmText.isSpace d
    · rfl
    · simp only [AsmText.isSpace, Bool.or_eq_true, beq_iff_eq] at hs
      rcases hs with ((((rfl | rfl) | rfl) | rfl) | rfl) | rfl <;> simp [isAlpha] at hd

theorem groupAux_nil (ob cb : Char) (fuel : Nat) : groupAux ob cb (fuel + 1) [] = some [] := by
  simp [groupAux]

theorem parseBodyLine_args (hS : SOk S) (hX : srcSymsOk S = true) (hA : argSymsOk S = true)
    (generic : List String) (mn : String) (hh : HeadOk generic mn) (a : Int) (as : List Int)
    (ops : List Asm.POperand) (ho : ∀ o ∈ ops, pOpOk S o) :
    parseBodyLine S generic (mn.toList ++ showArgs S.argOpen ')' (a :: as) ++ showSrcOps S ops)
      = .ok (.instr mn (a :: as) ops) := by
  simp only [argSymsOk, Bool.and_eq_true, Bool.not_eq_true', beq_eq_false_iff_ne, ne_eq] at hA
  obtain ⟨⟨⟨⟨⟨hA1, hA2⟩, hA3⟩, hA4⟩, hA5⟩, hA6⟩ := hA
  -- notation
  let B := argsBody (a :: as)
  let W := mn.toList ++ S.argOpen :: B ++ [')']
  have hline : mn.toList ++ showArgs S.argOpen ')' (a :: as) ++ showSrcOps S ops = W ++ showSrcOps S ops := by
    simp [showArgs, W, B]
  -- characters
  have hob_mn : S.argOpen ∉ mn.toList := argOpen_notin_mn hS hh.chars
  have hcb_mn : ')' ∉ mn.toList := fun h => by have := hh.chars _ h; simp [mnCharOk, isDigit] at this
  have hB : ∀ c ∈ B, numChar c = true ∨ c = ',' := argsBody_chars _
  have hcb_B : ')' ∉ B := fun h => by rcases hB _ h with h | h <;> simp [numChar, isDigit] at h
  have hob_B : S.argOpen ∉ B := fun h => by
    rcases hB _ h with h | h
    · rw [hA1] at h; cases h
    · exact hA2 h
  have hcbU : ')' ∉ mn.toList ++ S.argOpen :: B := by
    simp only [List.mem_append, List.mem_cons, not_or]
    exact ⟨hcb_mn, fun e => hA3 e.symm, hcb_B⟩
  have hob_sp : S.argOpen ≠ ' ' := fun h => by
    have := hS.argOpen; rw [h] at this; simp [lineChar] at this
  have hspW : ' ' ∉ W := by
    simp only [W, List.mem_append, List.mem_cons, List.mem_singleton, not_or, List.not_mem_nil, or_false]
    refine ⟨⟨fun h => ?_, fun e => hob_sp e.symm, fun h => ?_⟩, by decide⟩
    · have := mnChar_not_space (hh.chars _ h); simp [Text.isSpace] at this
    · rcases hB _ h with h | h <;> simp [numChar, isDigit] at h
  have hops : ∀ c ∈ showSrcOps S ops, srcLineChar S c = true := showSrcOps_chars hS ops ho
  have hob_ops : S.argOpen ∉ showSrcOps S ops := fun h => by rw [hops _ h] at hA6; cases hA6
  -- first and last character
  obtain ⟨c0, cs0, hc0⟩ : ∃ c cs, mn.toList = c :: cs := by
    cases h : mn.toList with
    | nil => exact absurd h hh.ne
    | cons c cs => exact ⟨c, cs, rfl⟩
  have hfirst : AsmText.isSpace c0 = false :=
    asm_not_space_of_lastOk (S := S) (by simp only [srcSymsOk, Bool.and_eq_true, Bool.not_eq_true'] at hX; exact hX.2)
      (Or.inr (Or.inr (hh.chars c0 (by rw [hc0]; exact List.mem_cons_self))))
  have hlastEx : ∃ l d, W ++ showSrcOps S ops = l ++ [d] ∧ AsmText.isSpace d = false ∧ d ≠ S.branchEnd := by
    cases ops with
    | nil => exact ⟨mn.toList ++ S.argOpen :: B, ')', by simp [W, showSrcOps], by decide, fun e => hA5 e.symm⟩
    | cons o os =>
      obtain ⟨l, d, hl, hd⟩ := showSrcOps_last (S := S) o os ho
      exact ⟨W ++ l, d, by rw [hl]; simp, srcLast_not_asmSpace hX hd, srcLast_ne_branch hS hX hd⟩
  obtain ⟨l, d, hl, hdsp, hdbr⟩ := hlastEx
  have hbr : (W ++ showSrcOps S ops).getLast? ≠ some S.branchEnd := by
    rw [hl, List.getLast?_concat]; exact fun e => hdbr (Option.some.inj e)
  have hstrip : AsmText.strip (W ++ showSrcOps S ops) = W ++ showSrcOps S ops :=
    asm_strip_of_ends hfirst hdsp ⟨cs0 ++ S.argOpen :: B ++ [')'] ++ showSrcOps S ops, by simp [W, hc0]⟩ ⟨l, hl⟩
  -- the tokeniser
  have hgroup : groupByWord S.argOpen ')' (W ++ showSrcOps S ops) = some (W :: ops.map (showPOp S)) := by
    unfold groupByWord
    rw [hstrip]
    simp only []
    cases ops with
    | nil =>
      have e : W ++ showSrcOps S [] ++ [' '] = W ++ ' ' :: [] := by simp [showSrcOps]
      rw [e, groupAux_head S.argOpen ')' mn.toList B [] _ hob_mn hcbU hspW]
      have : (W ++ [' ']).length = W.length + 1 := by simp
      rw [this, groupAux_nil]; rfl
    | cons o os =>
      have hsp_o : ' ' ∉ showPOp S o := fun h => by
        have := srcChar_not_space hS (showPOp_chars hS o (ho o List.mem_cons_self) _ h)
        simp [Text.isSpace] at this
      let R := showPOp S o ++ showSrcOps S os
      have e : W ++ showSrcOps S (o :: os) ++ [' '] = W ++ ' ' :: (R ++ [' ']) := by simp [showSrcOps, R]
      have hobR : S.argOpen ∉ R := fun h => hob_ops (by simp only [showSrcOps, List.cons_append, List.mem_cons]; exact Or.inr h)
      rw [e, groupAux_head S.argOpen ')' mn.toList B (R ++ [' ']) _ hob_mn hcbU hspW,
        groupAux_eq_splitOn S.argOpen ')' hob_sp _ R (by simp only [List.length_append, List.length_cons, List.length_nil]; omega) hobR,
        splitOn_src hS _ hsp_o os (fun o' h => ho o' (List.mem_cons_of_mem _ h))]
      rfl
  -- the bracket split of the first word
  have hsplit : splitOfBracket S.argOpen ')' W = some (mn.toList, S.argOpen :: B ++ [')']) := by
    have hfind : findSub [S.argOpen] W 0 = some mn.toList.length := by
      have : W = mn.toList ++ S.argOpen :: (B ++ [')']) := by simp [W]
      rw [this]; simpa using findSub_single_append S.argOpen mn.toList _ 0 hob_mn
    have hlastW : W.getLast? = some ')' := by
      have : W = (mn.toList ++ S.argOpen :: B) ++ [')'] := by simp [W]
      rw [this, List.getLast?_concat]
    have htake : W.take mn.toList.length = mn.toList := by
      have : W = mn.toList ++ (S.argOpen :: B ++ [')']) := by simp [W]
      rw [this]; exact List.take_left' rfl
    have hdrop : W.drop mn.toList.length = S.argOpen :: B ++ [')'] := by
      have : W = mn.toList ++ (S.argOpen :: B ++ [')']) := by simp [W]
      rw [this]; exact List.drop_left' rfl
    simp only [splitOfBracket, hfind, hlastW, if_true, htake, hdrop]
  have hargs : parseArgs S.argOpen ')' (S.argOpen :: B ++ [')']) = .ok (a :: as) := by
    have := parseArgs_show S.argOpen ')' ⟨hA1, hA2⟩ ⟨by decide, by decide⟩ (a :: as)
    simpa [showArgs, B] using this
  rw [hline]
  simp only [parseBodyLine, hbr, if_false, hgroup, hsplit, String.ofList_toList, hh.known, if_true, hargs,
    parseOperandsF, parseOperands_src hS ops ho, map_ofTok_tokOfP ops ho]

end NQ.AsmFront
