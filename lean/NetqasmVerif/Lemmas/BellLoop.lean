/-
Lemmas (C10): symbolic execution of the emitted correction code.

The lemmas are stated for an arbitrary command list `code` and an offset `o`
with hypotheses that describe the commands found at `o, o+1, …` and where the
branch labels resolve to. They are instantiated for the concrete templates
(`corrLoopCode`, `corrBlockCode`) in `Props/C10.lean`.
-/
import NetqasmVerif.Model.BellLoop
namespace NQ.Bell

theorem upd_same (f : Nat → Int) (r : Nat) (v : Int) : upd f r v r = v := by simp [upd]
theorem upd_other (f : Nat → Int) (r : Nat) (v : Int) (x : Nat) (h : x ≠ r) : upd f r v x = f x := by
  simp [upd, h]

/-- `s'` is reached from `s` in finitely many steps -/
def Reaches (code : List Cmd) (mem : Mem) (s s' : St) : Prop := ∃ k, runN code mem k s = some s'

theorem Reaches.refl {code : List Cmd} {mem : Mem} (s : St) : Reaches code mem s s := ⟨0, rfl⟩

theorem Reaches.head {code : List Cmd} {mem : Mem} {s s1 s2 : St}
    (h : step code mem s = some s1) (r : Reaches code mem s1 s2) : Reaches code mem s s2 := by
  obtain ⟨k, hk⟩ := r
  exact ⟨k + 1, by simp [runN, h, hk]⟩

theorem runN_add {code : List Cmd} {mem : Mem} (a b : Nat) (s : St) :
    runN code mem (a + b) s = (runN code mem a s).bind (runN code mem b) := by
  induction a generalizing s with
  | zero => simp [runN]
  | succ a ih =>
    have : a + 1 + b = (a + b) + 1 := by omega
    rw [this]
    simp only [runN]
    cases step code mem s with
    | none => simp
    | some s' => simp [ih]

theorem Reaches.trans {code : List Cmd} {mem : Mem} {s s1 s2 : St}
    (r1 : Reaches code mem s s1) (r2 : Reaches code mem s1 s2) : Reaches code mem s s2 := by
  obtain ⟨a, ha⟩ := r1
  obtain ⟨b, hb⟩ := r2
  exact ⟨a + b, by rw [runN_add, ha]; simpa using hb⟩

/-! ### one-step lemmas on explicit states -/

section steps
variable {code : List Cmd} {mem : Mem} {pc : Nat} {regs : Nat → Int} {tr : List Ev}

theorem step_set {r : Nat} {v : Int} (hc : code[pc]? = some (.set r v)) :
    step code mem ⟨pc, regs, tr⟩ = some ⟨pc + 1, upd regs r v, tr⟩ := by simp [step, hc]

theorem step_add {d a : Nat} {b : Opd} (hc : code[pc]? = some (.add d a b)) :
    step code mem ⟨pc, regs, tr⟩ = some ⟨pc + 1, upd regs d (regs a + b.val regs), tr⟩ := by
  simp [step, hc]

theorem step_label {l : String} (hc : code[pc]? = some (.label l)) :
    step code mem ⟨pc, regs, tr⟩ = some ⟨pc + 1, regs, tr⟩ := by simp [step, hc]

theorem step_jmp {l : String} {t : Nat} (hc : code[pc]? = some (.jmp l)) (ht : findLabel code l = some t) :
    step code mem ⟨pc, regs, tr⟩ = some ⟨t, regs, tr⟩ := by simp [step, hc, ht]

theorem step_beq_taken {a b : Opd} {l : String} {t : Nat} (hc : code[pc]? = some (.beq a b l))
    (hv : a.val regs = b.val regs) (ht : findLabel code l = some t) :
    step code mem ⟨pc, regs, tr⟩ = some ⟨t, regs, tr⟩ := by simp [step, hc, hv, ht]

theorem step_beq_not {a b : Opd} {l : String} (hc : code[pc]? = some (.beq a b l))
    (hv : a.val regs ≠ b.val regs) :
    step code mem ⟨pc, regs, tr⟩ = some ⟨pc + 1, regs, tr⟩ := by simp [step, hc, hv]

theorem step_bne_taken {a b : Opd} {l : String} {t : Nat} (hc : code[pc]? = some (.bne a b l))
    (hv : a.val regs ≠ b.val regs) (ht : findLabel code l = some t) :
    step code mem ⟨pc, regs, tr⟩ = some ⟨t, regs, tr⟩ := by simp [step, hc, hv, ht]

theorem step_bne_not {a b : Opd} {l : String} (hc : code[pc]? = some (.bne a b l))
    (hv : a.val regs = b.val regs) :
    step code mem ⟨pc, regs, tr⟩ = some ⟨pc + 1, regs, tr⟩ := by simp [step, hc, hv]

theorem step_rot {g : Gate} {r : Nat} (hc : code[pc]? = some (.rot g r)) :
    step code mem ⟨pc, regs, tr⟩ = some ⟨pc + 1, regs, tr ++ [.rot g (regs r)]⟩ := by simp [step, hc]

theorem step_load {r : Nat} {arr : Int} {idx : Nat} {xs : List Int} {k : Nat} {v : Int}
    (hc : code[pc]? = some (.load r arr idx)) (hm : mem arr = some xs) (hi : regs idx = (k : Int))
    (hv : xs[k]? = some v) :
    step code mem ⟨pc, regs, tr⟩ = some ⟨pc + 1, upd regs r v, tr⟩ := by
  have h0 : ¬ ((k : Int) < 0) := by omega
  simp [step, hc, hm, hi, h0, hv]

end steps

/-! ### `_get_raw_bell_state` -/

structure RawBellAt (code : List Cmd) (o : Nat) (ly : Layout) (b L I J : Nat) (l1 l2 : String)
    (res : Int) : Prop where
  c0 : code[o]? = some (.set I ly.idxBell)
  c1 : code[o + 1]? = some (.set J 0)
  c2 : code[o + 2]? = some (.label l1)
  c3 : code[o + 3]? = some (.beq (.r J) (.r L) l2)
  c4 : code[o + 4]? = some (.add I I (.imm ly.len))
  c5 : code[o + 5]? = some (.add J J (.imm 1))
  c6 : code[o + 6]? = some (.jmp l1)
  c7 : code[o + 7]? = some (.label l2)
  c8 : code[o + 8]? = some (.load b res I)
  t1 : findLabel code l1 = some (o + 2)
  t2 : findLabel code l2 = some (o + 7)

/-- the repeated-addition loop: from the `beq` with `J = j`, `L = j + d`, `I = idx + len·j`
to the position after the exit label with `I = idx + len·(j + d)` -/
theorem rawBell_loop {code : List Cmd} {mem : Mem} {o : Nat} {ly : Layout} {b L I J : Nat}
    {l1 l2 : String} {res : Int} (h : RawBellAt code o ly b L I J l1 l2 res)
    (hIJ : I ≠ J) (hIL : I ≠ L) (hJL : J ≠ L) :
    ∀ (d j : Nat) (regs : Nat → Int) (tr : List Ev),
      regs J = (j : Int) → regs L = ((j + d : Nat) : Int) → regs I = ly.idxBell + ly.len * (j : Int) →
      ∃ regs', Reaches code mem ⟨o + 3, regs, tr⟩ ⟨o + 8, regs', tr⟩ ∧
        regs' I = ly.idxBell + ly.len * ((j + d : Nat) : Int) ∧
        (∀ x, x ≠ I → x ≠ J → regs' x = regs x) := by
  intro d
  induction d with
  | zero =>
    intro j regs tr hJ hL hI
    refine ⟨regs, ?_, ?_, fun _ _ _ => rfl⟩
    · have hv : (Opd.r J).val regs = (Opd.r L).val regs := by simp [Opd.val, hJ, hL]
      exact Reaches.head (step_beq_taken h.c3 hv h.t2)
        (Reaches.head (step_label h.c7) (Reaches.refl _))
    · simpa using hI
  | succ d ih =>
    intro j regs tr hJ hL hI
    have hv : (Opd.r J).val regs ≠ (Opd.r L).val regs := by
      simp only [Opd.val, hJ, hL]; omega
    -- state after one iteration
    let r1 := upd regs I (regs I + (Opd.imm ly.len).val regs)
    let r2 := upd r1 J (r1 J + (Opd.imm 1).val r1)
    have hJ2 : r2 J = ((j + 1 : Nat) : Int) := by
      simp [r2, r1, upd_same, upd_other, Ne.symm hIJ, hJ, Opd.val]
    have hL2 : r2 L = (((j + 1) + d : Nat) : Int) := by
      have : r2 L = regs L := by
        simp [r2, r1, upd_other, Ne.symm hIL, Ne.symm hJL]
      rw [this, hL]; congr 1; omega
    have hI2 : r2 I = ly.idxBell + ly.len * ((j + 1 : Nat) : Int) := by
      have : r2 I = regs I + ly.len := by
        simp [r2, r1, upd_same, upd_other, hIJ, Opd.val]
      rw [this, hI]; push_cast; rw [Int.mul_add]; omega
    obtain ⟨regs', hr, hI', hfr⟩ := ih (j + 1) r2 tr hJ2 hL2 hI2
    refine ⟨regs', ?_, ?_, ?_⟩
    · refine Reaches.head (step_beq_not h.c3 hv) ?_
      refine Reaches.head (step_add h.c4) ?_
      refine Reaches.head (step_add h.c5) ?_
      refine Reaches.head (step_jmp h.c6 h.t1) ?_
      refine Reaches.head (step_label h.c2) ?_
      exact hr
    · rw [hI']; congr 2; congr 1; omega
    · intro x hxI hxJ
      rw [hfr x hxI hxJ]
      simp [r2, r1, upd_other, hxI, hxJ]

/-- the whole of `_get_raw_bell_state`: afterwards the Bell register holds
`res[idx + len·i]`, where `i` is the value of the pair register -/
theorem rawBell_spec {code : List Cmd} {mem : Mem} {o : Nat} {ly : Layout} {b L I J : Nat}
    {l1 l2 : String} {res : Int} (h : RawBellAt code o ly b L I J l1 l2 res)
    (hIJ : I ≠ J) (hIL : I ≠ L) (hJL : J ≠ L) (hbL : b ≠ L)
    (i : Nat) (xs : List Int) (k : Nat) (v : Int) (regs : Nat → Int) (tr : List Ev)
    (hL : regs L = (i : Int)) (hm : mem res = some xs)
    (hk : ly.idxBell + ly.len * (i : Int) = (k : Int)) (hv : xs[k]? = some v) :
    ∃ regs', Reaches code mem ⟨o, regs, tr⟩ ⟨o + 9, regs', tr⟩ ∧ regs' b = v ∧ regs' L = (i : Int) ∧
      (∀ x, x ≠ I → x ≠ J → x ≠ b → regs' x = regs x) := by
  let r0 := upd (upd regs I ly.idxBell) J 0
  have hJ0 : r0 J = ((0 : Nat) : Int) := by simp [r0, upd_same]
  have hL0 : r0 L = ((0 + i : Nat) : Int) := by
    simp [r0, upd_other, Ne.symm hJL, Ne.symm hIL, hL]
  have hI0 : r0 I = ly.idxBell + ly.len * ((0 : Nat) : Int) := by
    simp [r0, upd_same, upd_other, hIJ]
  obtain ⟨r1, hr, hI1, hfr⟩ := rawBell_loop (mem := mem) h hIJ hIL hJL i 0 r0 tr hJ0 hL0 hI0
  have hI1' : r1 I = (k : Int) := by rw [hI1, ← hk]; simp
  refine ⟨upd r1 b v, ?_, upd_same _ _ _, ?_, ?_⟩
  · refine Reaches.head (step_set h.c0) ?_
    refine Reaches.head (step_set h.c1) ?_
    refine Reaches.head (step_label h.c2) ?_
    refine Reaches.trans hr ?_
    exact Reaches.head (step_load h.c8 hm hI1' hv) (Reaches.refl _)
  · rw [upd_other _ _ _ _ (Ne.symm hbL), hfr L (Ne.symm hIL) (Ne.symm hJL)]
    simp [r0, upd_other, Ne.symm hJL, Ne.symm hIL, hL]
  · intro x hxI hxJ hxb
    rw [upd_other _ _ _ _ hxb, hfr x hxI hxJ]
    simp [r0, upd_other, hxI, hxJ]

/-! ### `_build_cmds_epr_keep_corrections_single_pair` -/

/-- an `if_eq` block with one rotation -/
theorem ifBlock1 {code : List Cmd} {mem : Mem} {p : Nat} {b q : Nat} {v : Int} {g : Gate} {x : String}
    (c0 : code[p]? = some (.bne (.r b) (.imm v) x)) (c1 : code[p + 1]? = some (.rot g q))
    (c2 : code[p + 2]? = some (.label x)) (t : findLabel code x = some (p + 2))
    (regs : Nat → Int) (tr : List Ev) :
    Reaches code mem ⟨p, regs, tr⟩
      ⟨p + 3, regs, tr ++ (if regs b = v then [Ev.rot g (regs q)] else [])⟩ := by
  by_cases hv : regs b = v
  · have hv' : (Opd.r b).val regs = (Opd.imm v).val regs := by simp [Opd.val, hv]
    simp only [hv, if_true]
    refine Reaches.head (step_bne_not c0 hv') ?_
    refine Reaches.head (step_rot c1) ?_
    exact Reaches.head (step_label c2) (Reaches.refl _)
  · have hv' : (Opd.r b).val regs ≠ (Opd.imm v).val regs := by simp [Opd.val, hv]
    simp only [hv, if_false, List.append_nil]
    refine Reaches.head (step_bne_taken c0 hv' t) ?_
    exact Reaches.head (step_label c2) (Reaches.refl _)

/-- an `if_eq` block with two rotations -/
theorem ifBlock2 {code : List Cmd} {mem : Mem} {p : Nat} {b q : Nat} {v : Int} {g g' : Gate} {x : String}
    (c0 : code[p]? = some (.bne (.r b) (.imm v) x)) (c1 : code[p + 1]? = some (.rot g q))
    (c2 : code[p + 2]? = some (.rot g' q))
    (c3 : code[p + 3]? = some (.label x)) (t : findLabel code x = some (p + 3))
    (regs : Nat → Int) (tr : List Ev) :
    Reaches code mem ⟨p, regs, tr⟩
      ⟨p + 4, regs, tr ++ (if regs b = v then [Ev.rot g (regs q), Ev.rot g' (regs q)] else [])⟩ := by
  by_cases hv : regs b = v
  · have hv' : (Opd.r b).val regs = (Opd.imm v).val regs := by simp [Opd.val, hv]
    simp only [hv, if_true]
    refine Reaches.head (step_bne_not c0 hv') ?_
    refine Reaches.head (step_rot c1) ?_
    refine Reaches.head (step_rot c2) ?_
    have : tr ++ [Ev.rot g (regs q)] ++ [Ev.rot g' (regs q)] = tr ++ [Ev.rot g (regs q), Ev.rot g' (regs q)] := by
      simp
    rw [this]
    exact Reaches.head (step_label c3) (Reaches.refl _)
  · have hv' : (Opd.r b).val regs ≠ (Opd.imm v).val regs := by simp [Opd.val, hv]
    simp only [hv, if_false, List.append_nil]
    refine Reaches.head (step_bne_taken c0 hv' t) ?_
    exact Reaches.head (step_label c3) (Reaches.refl _)

structure SingleAt (code : List Cmd) (o : Nat) (sp : SinglePair) (b q : Nat) (x1 x2 x3 : String) : Prop where
  c0 : code[o]? = some (.bne (.r b) (.imm sp.v1) x1)
  c1 : code[o + 1]? = some (.rot sp.g1 q)
  c2 : code[o + 2]? = some (.label x1)
  c3 : code[o + 3]? = some (.bne (.r b) (.imm sp.v2) x2)
  c4 : code[o + 4]? = some (.rot sp.g2 q)
  c5 : code[o + 5]? = some (.label x2)
  c6 : code[o + 6]? = some (.bne (.r b) (.imm sp.v3) x3)
  c7 : code[o + 7]? = some (.rot sp.g3a q)
  c8 : code[o + 8]? = some (.rot sp.g3b q)
  c9 : code[o + 9]? = some (.label x3)
  t1 : findLabel code x1 = some (o + 2)
  t2 : findLabel code x2 = some (o + 5)
  t3 : findLabel code x3 = some (o + 9)

/-- the single-pair block applies exactly the rotations selected by the Bell value to the qubit
whose id is in the qubit register, and changes no register -/
theorem single_spec {code : List Cmd} {mem : Mem} {o : Nat} {sp : SinglePair} {b q : Nat}
    {x1 x2 x3 : String} (h : SingleAt code o sp b q x1 x2 x3) (regs : Nat → Int) (tr : List Ev) :
    Reaches code mem ⟨o, regs, tr⟩ ⟨o + 10, regs, tr ++ corrEvents sp (regs b) (regs q)⟩ := by
  have r1 := ifBlock1 (mem := mem) h.c0 h.c1 h.c2 h.t1 regs tr
  have r2 := ifBlock1 (mem := mem) (p := o + 3) h.c3 h.c4 h.c5 h.t2 regs
    (tr ++ (if regs b = sp.v1 then [Ev.rot sp.g1 (regs q)] else []))
  have r3 := ifBlock2 (mem := mem) (p := o + 6) h.c6 h.c7 h.c8 h.c9 h.t3 regs
    ((tr ++ (if regs b = sp.v1 then [Ev.rot sp.g1 (regs q)] else [])) ++
      (if regs b = sp.v2 then [Ev.rot sp.g2 (regs q)] else []))
  have := Reaches.trans r1 (Reaches.trans r2 r3)
  have he : corrEvents sp (regs b) (regs q) =
      (if regs b = sp.v1 then [Ev.rot sp.g1 (regs q)] else []) ++
      (if regs b = sp.v2 then [Ev.rot sp.g2 (regs q)] else []) ++
      (if regs b = sp.v3 then [Ev.rot sp.g3a (regs q), Ev.rot sp.g3b (regs q)] else []) := by
    simp only [corrEvents, SinglePair.gates, List.map_append]
    congr 1
    · congr 1
      · split <;> simp
      · split <;> simp
    · split <;> simp
  rw [he]
  simpa [List.append_assoc] using this

end NQ.Bell
