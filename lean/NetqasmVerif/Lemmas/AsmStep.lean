/-
C03, part 3: inversion lemmas for `step`, position-map arithmetic, label lookup.
-/
import NetqasmVerif.Lemmas.AsmBasic
namespace NQ.Asm
open NQ

/-! ### inversion of `step` -/

theorem step_label {M : Type} {mc : Machine M} {P : List PCmd} {s : State M} {pc : Nat} {l : String}
    (h : P[pc]? = some (.label l)) : step mc P s pc = .next s (pc + 1) := by
  simp only [step, h]

/-- everything a successful step of an instruction consists of -/
structure InstrStep {M : Type} (mc : Machine M) (P : List PCmd) (s : State M) (pc : Nat)
    (mn : String) (args : List Int) (ops : List POperand) (s' : State M) (pc' : Nat) : Prop where
  ex : ∃ rs vals out m jump,
    mc.roles mn = some rs ∧ evalOps s.regs rs (allOps args ops) = some vals ∧
    mc.exec mn vals s.mem = .ok out m jump ∧
    s' = ⟨writeBack s.regs out (dstOf rs (allOps args ops)), m⟩ ∧
    ((jump = true ∧ jumpTarget P rs (allOps args ops) = some pc') ∨ (jump = false ∧ pc' = pc + 1))

theorem step_next_inv {M : Type} {mc : Machine M} {P : List PCmd} {s s' : State M} {pc pc' : Nat}
    (h : step mc P s pc = .next s' pc') :
    (∃ l, P[pc]? = some (.label l) ∧ s' = s ∧ pc' = pc + 1) ∨
    (∃ mn args ops, P[pc]? = some (.instr mn args ops) ∧ InstrStep mc P s pc mn args ops s' pc') := by
  unfold step at h
  cases hg : P[pc]? with
  | none => simp [hg] at h
  | some c =>
    cases c with
    | label l =>
      simp only [hg, Outcome.next.injEq] at h
      exact Or.inl ⟨l, rfl, h.1.symm, h.2.symm⟩
    | instr mn args ops =>
      right
      refine ⟨mn, args, ops, rfl, ⟨?_⟩⟩
      simp only [hg] at h
      cases hr : mc.roles mn with
      | none => simp [hr] at h
      | some rs =>
        simp only [hr] at h
        cases he : evalOps s.regs rs (allOps args ops) with
        | none => simp [he] at h
        | some vals =>
          simp only [he] at h
          cases hx : mc.exec mn vals s.mem with
          | fault k => simp [hx] at h
          | ok out m jump =>
            simp only [hx] at h
            refine ⟨rs, vals, out, m, jump, by first | rfl | assumption, by first | rfl | assumption, by first | rfl | assumption, ?_⟩
            cases jump with
            | true =>
              simp only [if_true] at h
              cases hj : jumpTarget P rs (allOps args ops) with
              | none => simp [hj] at h
              | some t =>
                simp only [hj, Outcome.next.injEq] at h
                exact ⟨h.1.symm, Or.inl ⟨rfl, by rw [h.2]⟩⟩
            | false =>
              simp only [Bool.false_eq_true, if_false, Outcome.next.injEq] at h
              exact ⟨h.1.symm, Or.inr ⟨rfl, h.2.symm⟩⟩

theorem step_fault_inv {M : Type} {mc : Machine M} {P : List PCmd} {s : State M} {pc k : Nat}
    (h : step mc P s pc = .fault k) :
    ∃ mn args ops rs vals, P[pc]? = some (.instr mn args ops) ∧ mc.roles mn = some rs ∧
      evalOps s.regs rs (allOps args ops) = some vals ∧ mc.exec mn vals s.mem = .fault k := by
  unfold step at h
  cases hg : P[pc]? with
  | none => simp [hg] at h
  | some c =>
    cases c with
    | label l => simp [hg] at h
    | instr mn args ops =>
      simp only [hg] at h
      cases hr : mc.roles mn with
      | none => simp [hr] at h
      | some rs =>
        simp only [hr] at h
        cases he : evalOps s.regs rs (allOps args ops) with
        | none => simp [he] at h
        | some vals =>
          simp only [he] at h
          cases hx : mc.exec mn vals s.mem with
          | fault k' =>
            simp only [hx, Outcome.fault.injEq] at h
            subst h
            exact ⟨mn, args, ops, rs, vals, by first | rfl | assumption, by first | rfl | assumption, by first | rfl | assumption, hx⟩
          | ok out m jump =>
            simp only [hx] at h
            cases jump with
            | true =>
              simp only [if_true] at h
              cases hj : jumpTarget P rs (allOps args ops) <;> simp [hj] at h
            | false => simp at h

theorem step_halt_inv {M : Type} {mc : Machine M} {P : List PCmd} {s : State M} {i : Nat}
    (hh : step mc P s i = .halt) : P.length ≤ i := by
  unfold step at hh
  cases hg : P[i]? with
  | none => exact List.getElem?_eq_none_iff.1 hg
  | some c =>
    exfalso
    cases c with
    | label l => simp [hg] at hh
    | instr mn args ops =>
      simp only [hg] at hh
      cases hr : mc.roles mn with
      | none => simp [hr] at hh
      | some rs =>
        simp only [hr] at hh
        cases he : evalOps s.regs rs (allOps args ops) with
        | none => simp [he] at hh
        | some vals =>
          simp only [he] at hh
          cases hx : mc.exec mn vals s.mem with
          | fault k' => simp [hx] at hh
          | ok out m jump =>
            simp only [hx] at hh
            cases jump with
            | true =>
              simp only [if_true] at hh
              cases hj : jumpTarget P rs (allOps args ops) <;> simp [hj] at hh
            | false => simp at hh

theorem step_halt_of_ge {M : Type} {mc : Machine M} {P : List PCmd} {s : State M} {i : Nat}
    (h : P.length ≤ i) : step mc P s i = .halt := by
  have : P[i]? = none := List.getElem?_eq_none_iff.2 h
  simp only [step, this]

/-- the step of an instruction, computed -/
theorem step_instr {M : Type} {mc : Machine M} {P : List PCmd} {s : State M} {pc : Nat}
    {mn : String} {args : List Int} {ops : List POperand} {rs : List Role} {vals : List Val}
    (hg : P[pc]? = some (.instr mn args ops)) (hr : mc.roles mn = some rs)
    (he : evalOps s.regs rs (allOps args ops) = some vals) :
    step mc P s pc =
      match mc.exec mn vals s.mem with
      | .fault k => .fault k
      | .ok out m jump =>
        if jump then
          match jumpTarget P rs (allOps args ops) with
          | some t => .next ⟨writeBack s.regs out (dstOf rs (allOps args ops)), m⟩ t
          | none => .stuck
        else .next ⟨writeBack s.regs out (dstOf rs (allOps args ops)), m⟩ (pc + 1) := by
  simp only [step, hg, hr, he]
  rfl

/-! ### position maps -/

theorem tpos1_zero (exc : List (String × Nat)) (P : List PCmd) : tpos1 exc P 0 = 0 := by simp [tpos1]

theorem tpos1_cons_succ (exc : List (String × Nat)) (x : PCmd) (xs : List PCmd) (k : Nat) :
    tpos1 exc (x :: xs) (k + 1) = len1 exc x + tpos1 exc xs k := by
  simp [tpos1]

theorem tpos1_succ {exc : List (String × Nat)} {P : List PCmd} {i : Nat} {x : PCmd} (h : P[i]? = some x) :
    tpos1 exc P (i + 1) = tpos1 exc P i + len1 exc x := by
  induction P generalizing i with
  | nil => simp at h
  | cons y ys ih =>
    cases i with
    | zero => simp at h; subst h; simp [tpos1]
    | succ k =>
      simp at h
      rw [tpos1_cons_succ, tpos1_cons_succ, ih h]; omega

theorem tpos2_cons_succ (x : PCmd) (xs : List PCmd) (k : Nat) :
    tpos2 (x :: xs) (k + 1) = len2 x + tpos2 xs k := by
  simp [tpos2]

theorem tpos2_succ {P : List PCmd} {i : Nat} {x : PCmd} (h : P[i]? = some x) :
    tpos2 P (i + 1) = tpos2 P i + len2 x := by
  induction P generalizing i with
  | nil => simp at h
  | cons y ys ih =>
    cases i with
    | zero => simp at h; subst h; simp [tpos2]
    | succ k =>
      simp at h
      rw [tpos2_cons_succ, tpos2_cons_succ, ih h]; omega

theorem tpos_cons_succ (exc : List (String × Nat)) (x : PCmd) (xs : List PCmd) (k : Nat) :
    tpos exc (x :: xs) (k + 1) = lenA exc x + tpos exc xs k := by
  simp [tpos]

theorem tpos_succ {exc : List (String × Nat)} {P : List PCmd} {i : Nat} {x : PCmd} (h : P[i]? = some x) :
    tpos exc P (i + 1) = tpos exc P i + lenA exc x := by
  induction P generalizing i with
  | nil => simp at h
  | cons y ys ih =>
    cases i with
    | zero => simp at h; subst h; simp [tpos]
    | succ k =>
      simp at h
      rw [tpos_cons_succ, tpos_cons_succ, ih h]; omega

/-! ### labels -/

theorem labelIdx_spec {P : List PCmd} {l : String} {k : Nat} (h : labelIdx P l = some k) :
    P[k]? = some (.label l) := by
  induction P generalizing k with
  | nil => simp [labelIdx] at h
  | cons x xs ih =>
    cases x with
    | label l' =>
      simp only [labelIdx] at h
      by_cases e : l' = l
      · simp only [e, if_true, Option.some.injEq] at h; subst h; simp [e]
      · simp only [e, if_false, Option.map_eq_some_iff] at h
        obtain ⟨k', hk', rfl⟩ := h
        simpa using ih hk'
    | instr mn a o =>
      simp only [labelIdx, Option.map_eq_some_iff] at h
      obtain ⟨k', hk', rfl⟩ := h
      simpa using ih hk'

theorem labelIdx_append_nolabel (code rest : List PCmd) (l : String)
    (h : ∀ x ∈ code, ∀ l', x ≠ .label l') :
    labelIdx (code ++ rest) l = (labelIdx rest l).map (· + code.length) := by
  induction code with
  | nil => simp
  | cons x xs ih =>
    cases x with
    | label l' => exact absurd rfl (h (.label l') (by simp) l')
    | instr mn a o =>
      simp only [List.cons_append, labelIdx, List.length_cons]
      rw [ih (fun x hx => h x (by simp [hx]))]
      cases labelIdx rest l <;> simp; omega

end NQ.Asm
