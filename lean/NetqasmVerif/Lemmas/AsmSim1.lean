/-
C03, part 2: `_replace_constants` is a simulation (every source step = the inserted `set`s + the
patched instruction; states agree off the scratch set).
-/
import NetqasmVerif.Lemmas.AsmBasic
import NetqasmVerif.Lemmas.AsmStep
namespace NQ.Asm
open NQ

/-! ### evaluation of patched operands after the inserted `set`s have run -/

theorem evalRI_patched {sets : List (Reg × Int)} {x x' : RI} {ρs ρt : Regs}
    (hp : RIPatched sets x x') (hnd : (sets.map Prod.fst).Nodup)
    (hreg : ∀ r ∈ riRegs x, ρs r = ρt r ∧ r ∉ sets.map Prod.fst) :
    evalRI (applySets sets ρt) x' = evalRI ρs x := by
  cases hp with
  | same r =>
    have := hreg r (by simp [riRegs])
    simp only [evalRI]
    rw [applySets_not_mem _ _ _ this.2, this.1]
  | mat v r hm =>
    simp only [evalRI]
    exact applySets_mem _ _ _ _ hm hnd

theorem evalOp_patched {sets : List (Reg × Int)} {keep : Bool} {op op' : POperand} {role : Role}
    {ρs ρt : Regs} {val : Val}
    (hp : OpPatched sets keep op op') (hnd : (sets.map Prod.fst).Nodup)
    (hreg : ∀ r ∈ opRegs op, ρs r = ρt r ∧ r ∉ sets.map Prod.fst)
    (hkeep : keep = false → role ≠ .imm ∧ role ≠ .tgt)
    (he : evalOp ρs role op = some val) :
    evalOp (applySets sets ρt) role op' = some val := by
  cases hp with
  | reg r =>
    have := hreg r (by simp [opRegs])
    cases role <;> simp only [evalOp] at he ⊢ <;> try (exact he)
    all_goals (rw [applySets_not_mem _ _ _ this.2, ← this.1]; exact he)
  | litKeep v hk => cases role <;> simp only [evalOp] at he ⊢ <;> exact he
  | litMat v r hk hm =>
    have hr := hkeep hk
    cases role <;> simp only [evalOp] at he ⊢
    · rw [applySets_mem _ _ _ _ hm hnd]; exact he
    · cases he
    · cases he
    · exact absurd rfl hr.1
    · exact absurd rfl hr.2
    · cases he
    · cases he
    · cases he
  | lab l => cases role <;> simp only [evalOp] at he ⊢ <;> exact he
  | tmpl l => cases role <;> simp only [evalOp] at he ⊢ <;> exact he
  | addr a => cases role <;> simp only [evalOp] at he ⊢ <;> exact he
  | entry a i i' hi =>
    have := evalRI_patched (ρs := ρs) (ρt := ρt) hi hnd (fun r hr => hreg r (by simpa [opRegs] using hr))
    cases role <;> simp only [evalOp] at he ⊢ <;> try (exact he)
    rw [this]; exact he
  | slice a s s' e e' h1 h2 =>
    have a1 := evalRI_patched (ρs := ρs) (ρt := ρt) h1 hnd
      (fun r hr => hreg r (by simp only [opRegs, List.mem_append]; exact Or.inl hr))
    have a2 := evalRI_patched (ρs := ρs) (ρt := ρt) h2 hnd
      (fun r hr => hreg r (by simp only [opRegs, List.mem_append]; exact Or.inr hr))
    cases role <;> simp only [evalOp] at he ⊢ <;> try (exact he)
    rw [a1, a2]; exact he

/-- the exception table covers the immediate / target positions of `rs`, read from position `j` -/
def CoversFrom (exc : List (String × Nat)) (mn : String) (j : Nat) (rs : List Role) : Prop :=
  ∀ k role, rs[k]? = some role → (role = .imm ∨ role = .tgt) → exc.contains (mn, j + k) = true

theorem CoversFrom.tail {exc mn j r rs} (h : CoversFrom exc mn j (r :: rs)) : CoversFrom exc mn (j + 1) rs := by
  intro k role hk hr
  have := h (k + 1) role (by simpa using hk) hr
  have e : j + (k + 1) = j + 1 + k := by omega
  rw [e] at this; exact this

theorem CoversFrom.head {exc mn j r rs} (h : CoversFrom exc mn j (r :: rs)) :
    exc.contains (mn, j) = false → r ≠ .imm ∧ r ≠ .tgt := by
  intro hk
  constructor
  · intro hr; have := h 0 r (by simp) (Or.inl hr); simp at this; simp_all
  · intro hr; have := h 0 r (by simp) (Or.inr hr); simp at this; simp_all

theorem evalOps_patched {exc : List (String × Nat)} {mn : String} {sets : List (Reg × Int)} {j : Nat}
    {ops ops' : List POperand} {rs : List Role} {ρs ρt : Regs} {vals : List Val}
    (hp : OpsPatched exc mn sets j ops ops') (hnd : (sets.map Prod.fst).Nodup)
    (hreg : ∀ o ∈ ops, ∀ r ∈ opRegs o, ρs r = ρt r ∧ r ∉ sets.map Prod.fst)
    (hk : CoversFrom exc mn j rs)
    (he : evalOps ρs rs ops = some vals) :
    evalOps (applySets sets ρt) rs ops' = some vals := by
  induction hp generalizing rs vals with
  | nil j => cases rs <;> simp_all [evalOps]
  | @cons j o o' os os' h1 _ ih =>
    cases rs with
    | nil => simp [evalOps] at he
    | cons r rs' =>
      simp only [evalOps] at he ⊢
      cases e1 : evalOp ρs r o with
      | none => simp [e1] at he
      | some v =>
        cases e2 : evalOps ρs rs' os with
        | none => simp [e1, e2] at he
        | some vs =>
          simp only [e1, e2, Option.some.injEq] at he
          have a := evalOp_patched (ρt := ρt) h1 hnd (hreg o (by simp)) hk.head e1
          have b := ih (fun o' ho' => hreg o' (by simp [ho'])) hk.tail e2
          simp only [a, b, he]

theorem dstOf_patched {exc : List (String × Nat)} {mn : String} {sets : List (Reg × Int)} {j : Nat}
    {ops ops' : List POperand} {rs : List Role} {ρ : Regs} {vals : List Val}
    (hp : OpsPatched exc mn sets j ops ops') (he : evalOps ρ rs ops = some vals) :
    dstOf rs ops' = dstOf rs ops := by
  induction hp generalizing rs vals with
  | nil j => cases rs <;> simp [dstOf]
  | @cons j o o' os os' h1 _ ih =>
    cases rs with
    | nil => simp [evalOps] at he
    | cons r rs' =>
      simp only [evalOps] at he
      cases e1 : evalOp ρ r o with
      | none => simp [e1] at he
      | some v =>
        cases e2 : evalOps ρ rs' os with
        | none => simp [e1, e2] at he
        | some vs =>
          have b := ih e2
          cases h1 <;> cases r <;> simp only [evalOp] at e1 <;> simp only [dstOf, b] <;> cases e1

theorem tgtOf_patched {exc : List (String × Nat)} {mn : String} {sets : List (Reg × Int)} {j : Nat}
    {ops ops' : List POperand} {rs : List Role} {ρ : Regs} {vals : List Val}
    (hp : OpsPatched exc mn sets j ops ops') (hk : CoversFrom exc mn j rs)
    (he : evalOps ρ rs ops = some vals) :
    tgtOf rs ops' = tgtOf rs ops := by
  induction hp generalizing rs vals with
  | nil j => cases rs <;> simp [tgtOf]
  | @cons j o o' os os' h1 _ ih =>
    cases rs with
    | nil => simp [evalOps] at he
    | cons r rs' =>
      simp only [evalOps] at he
      cases e1 : evalOp ρ r o with
      | none => simp [e1] at he
      | some v =>
        cases e2 : evalOps ρ rs' os with
        | none => simp [e1, e2] at he
        | some vs =>
          have b := ih hk.tail e2
          have hh := hk.head
          cases h1 <;> cases r <;> simp only [evalOp] at e1 <;> simp only [tgtOf, b] <;> first | cases e1 | skip
          all_goals simp_all

/-- a literal branch target in the output was a literal branch target in the input -/
theorem tgtOf_patched_lit {exc : List (String × Nat)} {mn : String} {sets : List (Reg × Int)} {j : Nat}
    {ops ops' : List POperand} {rs : List Role} {v : Int}
    (hp : OpsPatched exc mn sets j ops ops') (h : tgtOf rs ops' = some (.lit v)) :
    tgtOf rs ops = some (.lit v) := by
  induction hp generalizing rs with
  | nil j => cases rs <;> simp [tgtOf] at h
  | @cons j o o' os os' h1 _ ih =>
    cases rs with
    | nil => simp [tgtOf] at h
    | cons r rs' =>
      by_cases hr : r = .tgt
      · subst hr
        simp only [tgtOf, Option.some.injEq] at h ⊢
        subst h
        cases h1; rfl
      · have e : ∀ (x : POperand) (xs : List POperand), tgtOf (r :: rs') (x :: xs) = tgtOf rs' xs := by
          intro x xs; cases r <;> simp_all [tgtOf]
        rw [e] at h ⊢
        exact ih h

/-! ### running the inserted `set`s -/

structure SetOk {M : Type} (mc : Machine M) : Prop where
  roles_set : mc.roles "set" = some [.dst, .imm]
  exec_set : ∀ v m, mc.exec "set" [.dst, .imm v] m = .ok (some v) m false

theorem step_setCmd {M : Type} {mc : Machine M} (hs : SetOk mc) {P : List PCmd} {t : State M} {pc : Nat}
    {rv : Reg × Int} (h : P[pc]? = some (setCmd rv)) :
    step mc P t pc = .next ⟨upd t.regs rv.1 (some rv.2), t.mem⟩ (pc + 1) := by
  simp only [step, h, setCmd, hs.roles_set, allOps, List.map_nil, List.nil_append, evalOps, evalOp,
    hs.exec_set, dstOf, writeBack]
  simp

theorem steps_sets {M : Type} {mc : Machine M} (hs : SetOk mc) (P : List PCmd)
    (sets : List (Reg × Int)) (pre post : List PCmd) (t : State M)
    (hP : P = pre ++ sets.map setCmd ++ post) :
    Steps mc P (t, pre.length) (⟨applySets sets t.regs, t.mem⟩, pre.length + sets.length) := by
  induction sets generalizing pre t with
  | nil => exact .refl _
  | cons x xs ih =>
    have hget : P[pre.length]? = some (setCmd x) := by
      subst hP
      simp [List.getElem?_append_right]
    have h1 := step_setCmd hs hget (t := t)
    have hP' : P = (pre ++ [setCmd x]) ++ xs.map setCmd ++ post := by
      subst hP; simp
    have h2 := ih (pre ++ [setCmd x]) ⟨upd t.regs x.1 (some x.2), t.mem⟩ hP'
    simp only [List.length_append, List.length_cons, List.length_nil] at h2
    have e : pre.length + (xs.length + 1) = pre.length + (0 + 1) + xs.length := by omega
    simp only [List.length_cons, e]
    exact .step h1 (by simpa [applySets] using h2)

/-! ### the output of `_replace_constants`, command by command -/

theorem rcCmd_instr_spec {c : RcCfg} {mn : String} {args : List Int} {ops : List POperand} {code : List PCmd}
    (h : rcCmd c (.instr mn args ops) = .ok code) :
    ∃ sets ops' tmp', rcOps c mn 0 ops [] = .ok (sets, ops', tmp') ∧
      code = sets.map setCmd ++ [.instr mn args ops'] := by
  simp only [rcCmd] at h
  cases hr : rcOps c mn 0 ops [] with
  | error e => simp [hr] at h
  | ok res =>
    obtain ⟨sets, ops', tmp'⟩ := res
    simp only [hr, Except.ok.injEq] at h
    exact ⟨sets, ops', tmp', rfl, h.symm⟩

theorem rcCmd_length {c : RcCfg} {x : PCmd} {code : List PCmd} (h : rcCmd c x = .ok code) :
    code.length = len1 c.exc x := by
  cases x with
  | label l => simp only [rcCmd, Except.ok.injEq] at h; subst h; rfl
  | instr mn args ops =>
    obtain ⟨sets, ops', tmp', hr, rfl⟩ := rcCmd_instr_spec h
    have := (rcOps_spec hr).2.2
    simp [len1, this]

theorem rcCmd_nolabel {c : RcCfg} {mn : String} {args : List Int} {ops : List POperand} {code : List PCmd}
    (h : rcCmd c (.instr mn args ops) = .ok code) : ∀ x ∈ code, ∀ l', x ≠ .label l' := by
  obtain ⟨sets, ops', tmp', _, rfl⟩ := rcCmd_instr_spec h
  intro x hx l'
  simp only [List.mem_append, List.mem_map, List.mem_singleton] at hx
  rcases hx with ⟨rv, _, rfl⟩ | rfl <;> simp [setCmd]

theorem rcAll_cons {c : RcCfg} {x : PCmd} {xs : List PCmd} {P1 : List PCmd} (h : rcAll c (x :: xs) = .ok P1) :
    ∃ code R, rcCmd c x = .ok code ∧ rcAll c xs = .ok R ∧ P1 = code ++ R := by
  simp only [rcAll] at h
  cases h1 : rcCmd c x with
  | error e => simp [h1] at h
  | ok code =>
    simp only [h1] at h
    cases h2 : rcAll c xs with
    | error e => simp [h2] at h
    | ok R =>
      simp only [h2, Except.ok.injEq] at h
      exact ⟨code, R, rfl, rfl, h.symm⟩

theorem rcAll_decomp {c : RcCfg} {P P1 : List PCmd} {i : Nat} {x : PCmd}
    (h : rcAll c P = .ok P1) (hi : P[i]? = some x) :
    ∃ pre code post, P1 = pre ++ code ++ post ∧ rcCmd c x = .ok code ∧ pre.length = tpos1 c.exc P i := by
  induction P generalizing i P1 with
  | nil => simp at hi
  | cons y ys ih =>
    obtain ⟨cy, R, h1, h2, rfl⟩ := rcAll_cons h
    cases i with
    | zero =>
      simp at hi; subst hi
      exact ⟨[], cy, R, by simp, h1, by simp [tpos1]⟩
    | succ k =>
      simp at hi
      obtain ⟨pre, code, post, rfl, hc, hl⟩ := ih h2 hi
      refine ⟨cy ++ pre, code, post, by simp, hc, ?_⟩
      rw [tpos1_cons_succ, List.length_append, hl, rcCmd_length h1]

theorem rcAll_length {c : RcCfg} {P P1 : List PCmd} (h : rcAll c P = .ok P1) :
    P1.length = tpos1 c.exc P P.length := by
  induction P generalizing P1 with
  | nil => simp only [rcAll, Except.ok.injEq] at h; subst h; simp [tpos1]
  | cons y ys ih =>
    obtain ⟨cy, R, h1, h2, rfl⟩ := rcAll_cons h
    rw [List.length_cons, tpos1_cons_succ, List.length_append, ih h2, rcCmd_length h1]

theorem labelIdx_rcAll {c : RcCfg} {P P1 : List PCmd} (l : String) (h : rcAll c P = .ok P1) :
    labelIdx P1 l = (labelIdx P l).map (tpos1 c.exc P) := by
  induction P generalizing P1 with
  | nil => simp only [rcAll, Except.ok.injEq] at h; subst h; simp [labelIdx]
  | cons y ys ih =>
    obtain ⟨cy, R, h1, h2, rfl⟩ := rcAll_cons h
    cases y with
    | label l' =>
      simp only [rcCmd, Except.ok.injEq] at h1
      subst h1
      simp only [List.cons_append, List.nil_append, labelIdx]
      by_cases e : l' = l
      · simp [e, tpos1]
      · simp only [e, if_false, ih h2, Option.map_map]
        congr 1
        funext k
        simp [tpos1_cons_succ, len1]; omega
    | instr mn a o =>
      rw [labelIdx_append_nolabel _ _ _ (rcCmd_nolabel h1), ih h2]
      simp only [labelIdx, Option.map_map]
      congr 1
      funext k
      simp [tpos1_cons_succ, rcCmd_length h1]; omega

/-! ### hypotheses on the program and the machine -/

/-- every immediate / branch-target position of every instruction is in the exception table -/
def ExcCovers {M : Type} (mc : Machine M) (exc : List (String × Nat)) : Prop :=
  ∀ mn rs, mc.roles mn = some rs → CoversFrom exc mn 0 rs

/-- `instr(args)` brackets already merged into the operands -/
def NoArgs (P : List PCmd) : Prop := ∀ mn args ops, PCmd.instr mn args ops ∈ P → args = []

/-- branch targets are given by label, never by number -/
def LabelTargets {M : Type} (mc : Machine M) (P : List PCmd) : Prop :=
  ∀ mn args ops rs v, PCmd.instr mn args ops ∈ P → mc.roles mn = some rs →
    tgtOf rs (allOps args ops) ≠ some (.lit v)

theorem dstOf_mem {rs : List Role} {ops : List POperand} {r : Reg} (h : dstOf rs ops = some r) :
    POperand.reg r ∈ ops := by
  induction ops generalizing rs with
  | nil => cases rs <;> simp [dstOf] at h
  | cons o os ih =>
    cases rs with
    | nil => simp [dstOf] at h
    | cons ro rs' =>
      by_cases e : ∃ r', ro = .dst ∧ o = .reg r'
      · obtain ⟨r', rfl, rfl⟩ := e
        simp only [dstOf, Option.some.injEq] at h
        subst h; simp
      · have : dstOf (ro :: rs') (o :: os) = dstOf rs' os := by
          cases ro <;> cases o <;> simp_all [dstOf]
        rw [this] at h
        exact List.mem_cons_of_mem _ (ih h)

theorem mem_of_getElem? {α : Type} {l : List α} {i : Nat} {x : α} (h : l[i]? = some x) : x ∈ l := by
  exact List.mem_of_getElem? h

theorem agree_applySets {M : Type} {n : Nat} {cur : List Reg} {s t : State M} {sets : List (Reg × Int)}
    (hag : Agree n cur s t) (hsc : ∀ rv ∈ sets, IsScratch n cur rv.1) :
    Agree n cur s ⟨applySets sets t.regs, t.mem⟩ := by
  refine ⟨hag.1, fun r hr => ?_⟩
  have : r ∉ sets.map Prod.fst := by
    intro hm
    obtain ⟨rv, hrv, rfl⟩ := List.mem_map.1 hm
    exact hr (hsc rv hrv)
  simp only [applySets_not_mem _ _ _ this]
  exact hag.2 r hr

theorem agree_writeBack {M : Type} {n : Nat} {cur : List Reg} {s t : State M} {out : Option Int}
    {d : Option Reg} {m : M} (hag : Agree n cur s t) :
    Agree n cur ⟨writeBack s.regs out d, m⟩ ⟨writeBack t.regs out d, m⟩ := by
  refine ⟨rfl, fun r hr => ?_⟩
  cases out <;> cases d <;> simp only [writeBack, upd]
  all_goals first | exact hag.2 r hr | (split <;> first | rfl | exact hag.2 r hr)

/-- The simulation of one source step by `_replace_constants` output. -/
theorem sim1_step {M : Type} {mc : Machine M} (hs : SetOk mc) {c : RcCfg} (hcov : ExcCovers mc c.exc)
    {P P1 : List PCmd} (hna : NoArgs P) (hlt : LabelTargets mc P)
    (hcur : ∀ r, NamedIn P r → r ∈ c.cur)
    (h1 : rcAll c P = .ok P1) {s s' t : State M} {i i' : Nat}
    (hstep : step mc P s i = .next s' i') (hag : Agree c.nreg c.cur s t) :
    ∃ t', Steps mc P1 (t, tpos1 c.exc P i) (t', tpos1 c.exc P i') ∧ Agree c.nreg c.cur s' t' := by
  rcases step_next_inv hstep with ⟨l, hg, rfl, rfl⟩ | ⟨mn, args, ops, hg, ⟨rs, vals, out, m, jump, hr, he, hx, rfl, hj⟩⟩
  · -- a label
    obtain ⟨pre, code, post, rfl, hc, hl⟩ := rcAll_decomp h1 hg
    simp only [rcCmd, Except.ok.injEq] at hc
    subst hc
    refine ⟨t, ?_, hag⟩
    rw [tpos1_succ hg, ← hl]
    apply Steps.single
    apply step_label (l := l)
    simp
  · -- an instruction
    have hargs : args = [] := hna mn args ops (List.mem_of_getElem? hg)
    subst hargs
    simp only [allOps, List.map_nil, List.nil_append] at he hj
    obtain ⟨pre, code, post, rfl, hc, hl⟩ := rcAll_decomp h1 hg
    obtain ⟨sets, ops', tmp', hro, rfl⟩ := rcCmd_instr_spec hc
    obtain ⟨hinv, hpat, hlen⟩ := rcOps_spec hro
    have hnd : (sets.map Prod.fst).Nodup := by
      have := hinv.nodup List.nodup_nil
      rw [hinv.tmp_eq] at this; simpa using this
    -- registers named by the instruction are not scratch, and agree
    have hreg : ∀ o ∈ ops, ∀ r ∈ opRegs o, s.regs r = t.regs r ∧ r ∉ sets.map Prod.fst := by
      intro o ho r hro'
      have hin : r ∈ c.cur := hcur r ⟨mn, [], ops, o, List.mem_of_getElem? hg, ho, hro'⟩
      have hns : ¬ IsScratch c.nreg c.cur r := fun ⟨_, _, _, h⟩ => h hin
      refine ⟨hag.2 r hns, fun hm => ?_⟩
      obtain ⟨rv, hrv, rfl⟩ := List.mem_map.1 hm
      exact hns (hinv.scratch rv hrv)
    -- run the sets
    have hrun := steps_sets hs (pre ++ (sets.map setCmd ++ [PCmd.instr mn [] ops']) ++ post) sets pre
      ([PCmd.instr mn [] ops'] ++ post) t (by simp)
    let tk : State M := ⟨applySets sets t.regs, t.mem⟩
    have hagk : Agree c.nreg c.cur s tk := agree_applySets hag hinv.scratch
    have hgk : (pre ++ (sets.map setCmd ++ [PCmd.instr mn [] ops']) ++ post)[pre.length + sets.length]?
        = some (PCmd.instr mn [] ops') := by
      simp [List.getElem?_append_right]
    have hek : evalOps tk.regs rs (allOps [] ops') = some vals := by
      simp only [allOps, List.map_nil, List.nil_append]
      exact evalOps_patched hpat hnd hreg (hcov mn rs hr) he
    have hd : dstOf rs ops' = dstOf rs ops := dstOf_patched hpat he
    have ht : tgtOf rs ops' = tgtOf rs ops := tgtOf_patched hpat (hcov mn rs hr) he
    have hstepk := step_instr (mc := mc) (s := tk) hgk hr hek
    have hmem : tk.mem = s.mem := hag.1.symm
    rw [hmem, hx] at hstepk
    simp only [allOps, List.map_nil, List.nil_append, hd] at hstepk
    have hfin : Agree c.nreg c.cur ⟨writeBack s.regs out (dstOf rs ops), m⟩
        ⟨writeBack tk.regs out (dstOf rs ops), m⟩ := agree_writeBack hagk
    refine ⟨⟨writeBack tk.regs out (dstOf rs ops), m⟩, ?_, hfin⟩
    rw [← hl]
    refine Steps.trans hrun ?_
    apply Steps.single
    rcases hj with ⟨rfl, hjt⟩ | ⟨rfl, rfl⟩
    · -- a taken branch
      simp only [if_true] at hstepk
      have hP1 : rcAll c P = .ok (pre ++ (sets.map setCmd ++ [PCmd.instr mn [] ops']) ++ post) := h1
      simp only [jumpTarget, ht] at hstepk
      simp only [jumpTarget] at hjt
      cases htg : tgtOf rs ops with
      | none => simp [htg] at hjt
      | some o =>
        cases o with
        | lit v => exact absurd htg (hlt mn [] ops rs v (List.mem_of_getElem? hg) hr)
        | lab l =>
          simp only [htg, Option.map_eq_some_iff] at hjt
          obtain ⟨k, hk, rfl⟩ := hjt
          simp only [htg, labelIdx_rcAll l hP1, hk, Option.map_some] at hstepk
          rw [hstepk, tpos1_succ (labelIdx_spec hk)]
          simp [len1]
        | reg r => simp [htg] at hjt
        | tmpl r => simp [htg] at hjt
        | addr r => simp [htg] at hjt
        | entry a r => simp [htg] at hjt
        | slice a r r' => simp [htg] at hjt
    · simp only [Bool.false_eq_true, if_false] at hstepk
      rw [hstepk, tpos1_succ hg]
      simp only [len1, hlen]
      congr 1
      omega

end NQ.Asm
