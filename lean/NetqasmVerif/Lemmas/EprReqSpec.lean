/- The specification side of C11's request theorem (core Lean only: the driver prints it). -/
import NetqasmVerif.Model.EprReq
namespace NQ.EprReq
open NQ.Gen.Epr

/-- a value the `RandomBasis` enum accepts -/
def ValidRB (v : Option Int) : Prop := ∀ x, v = some x → isRandBasis x = true

/-- What the network stack must receive (the specification side of C11), by field NAME of
`LinkLayerCreate`: ids, type as a `RequestType` member, pair count, random-basis sets as `RandomBasis`
members (NONE when not given or for keep requests), time unit and limit (the unit is only transmitted
together with a non-zero limit: a zero limit of any unit is the same "no limit"), rotation triples for
measure / remote-state-preparation requests, every field the SDK never sets at the `LinkLayerCreate`
default. -/
def expectedCreate (tp remote purpose : Int) (p : ReqParams) : List (String × FVal) :=
  let meas : Bool := tp == 1 || tp == 2
  [ ("remote_node_id", .int remote), ("purpose_id", .int purpose), ("type", .reqType tp),
    ("number", .int p.number),
    ("random_basis_local", .randBasis (if meas then p.rbl.getD 0 else 0)),
    ("random_basis_remote", .randBasis (if meas then p.rbr.getD 0 else 0)),
    ("minimum_fidelity", .int 0),
    ("time_unit", .int (if p.maxTime = 0 then 0 else p.timeUnit)),
    ("max_time", .int p.maxTime),
    ("priority", .int 0), ("atomic", .int 0), ("consecutive", .int 0),
    ("probability_dist_local1", .int 0), ("probability_dist_local2", .int 0),
    ("probability_dist_remote1", .int 0), ("probability_dist_remote2", .int 0),
    ("rotation_X_local1", .int (if meas then p.rotL.1 else 0)),
    ("rotation_Y_local", .int (if meas then p.rotL.2.1 else 0)),
    ("rotation_X_local2", .int (if meas then p.rotL.2.2 else 0)),
    ("rotation_X_remote1", .int (if meas then p.rotR.1 else 0)),
    ("rotation_Y_remote", .int (if meas then p.rotR.2.1 else 0)),
    ("rotation_X_remote2", .int (if meas then p.rotR.2.2 else 0)) ]

end NQ.EprReq
