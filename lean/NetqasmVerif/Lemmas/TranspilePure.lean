/-
Purity of the pass. In /repo the output buffer, the index map and the debug-marker counter are
LOCALS of `transpile()`; only `_register_values` and `_used_registers` are instance attributes.
`transpileObj` models a call on an object whose attributes hold `rv0`, `used0`; a fresh object is
`transpile`. The call depends on the attributes only through look-ups / membership
(`transpileObj_congr`), and a retry after a call that raised before any two-qubit gate gives what
a fresh object gives (`transpileObj_retry`).
-/
import NetqasmVerif.Lemmas.Transpile
namespace NQ.Tr
open NQ

/-- the second half of `transpile()`: retargeting and padding -/
def finish (cfg : Cfg) (n : Nat) : Except Err PState → Except Err (List Instr)
  | .error e => .error e
  | .ok st =>
    match retargetAll cfg n st.idx (st.out.length - st.nDebug) st.out with
    | .error e => .error e
    | .ok (out, addNoOp) => .ok (if addNoOp then out ++ [cfg.pad] else out)

/-- one `transpile()` call on an object whose `_register_values` / `_used_registers` are `rv0` /
`used0` (nothing else survives between calls) -/
def transpileObj (cfg : Cfg) (rv0 : List (Reg × Int)) (used0 : List Reg) (S : List Instr) :
    Except Err (List Instr) :=
  finish cfg S.length (passLoop cfg ⟨rv0, used0, [], [], 0⟩ S)

theorem transpileObj_fresh (cfg : Cfg) (S : List Instr) : transpileObj cfg [] [] S = transpile cfg S := by
  unfold transpileObj transpile finish PState.init
  cases passLoop cfg ⟨[], [], [], [], 0⟩ S <;> rfl

/-- same knowledge: equal look-ups, equal membership; same call-local state -/
structure PSim (st st' : PState) : Prop where
  look : ∀ r, st.regVals.lookup r = st'.regVals.lookup r
  mem : ∀ r, r ∈ st.used ↔ r ∈ st'.used
  out : st.out = st'.out
  idx : st.idx = st'.idx
  nd : st.nDebug = st'.nDebug

def RSim : Except Err PState → Except Err PState → Prop
  | .ok a, .ok b => PSim a b
  | .error e, .error e' => e = e'
  | _, _ => False

theorem getUnused_congr {used used' : List Reg} (h : ∀ r, r ∈ used ↔ r ∈ used') :
    getUnused used = getUnused used' := by
  unfold getUnused
  have : (fun (k : Nat) => !(used.contains (⟨bankQ, (k : Int)⟩ : Reg)))
       = (fun (k : Nat) => !(used'.contains (⟨bankQ, (k : Int)⟩ : Reg))) := by
    funext k
    congr 1
    rw [Bool.eq_iff_iff, List.contains_iff_mem, List.contains_iff_mem]
    exact h _
  rw [this]

theorem expandGate2_congr {cfg info} {rv rv' : List (Reg × Int)} {used used' : List Reg} (g : Instr)
    (hl : ∀ r, rv.lookup r = rv'.lookup r) (hu : ∀ r, r ∈ used ↔ r ∈ used') :
    expandGate2 cfg info rv used g = expandGate2 cfg info rv' used' g := by
  unfold expandGate2
  split
  · rename_i r0 r1 _
    rw [hl r0, hl r1, getUnused_congr hu]
  · rfl

theorem expandInstr_congr {cfg info} {rv rv' : List (Reg × Int)} {used used' : List Reg} (g : Instr)
    (hl : ∀ r, rv.lookup r = rv'.lookup r) (hu : ∀ r, r ∈ used ↔ r ∈ used') :
    expandInstr cfg info rv used g = expandInstr cfg info rv' used' g := by
  unfold expandInstr
  rw [expandGate2_congr g hl hu]

theorem updRegVals_look {info : ClsInfo} (i : Instr) {rv rv' : List (Reg × Int)}
    (hl : ∀ r, rv.lookup r = rv'.lookup r) :
    ∀ r, (updRegVals info i rv).lookup r = (updRegVals info i rv').lookup r := by
  intro r
  unfold updRegVals
  split
  · split
    · split
      · simp [List.lookup_cons, hl r]
      · exact hl r
    · exact hl r
  · exact hl r

theorem passStep_congr {cfg : Cfg} {st st' : PState} (h : PSim st st') (i : Instr) :
    RSim (passStep cfg st i) (passStep cfg st' i) := by
  unfold passStep
  cases hi : infoOf cfg i.cls with
  | none => simp [RSim]
  | some info =>
    simp only
    have hl := updRegVals_look (info := info) i h.look
    have hu : ∀ r, r ∈ st.used ++ topRegs i ↔ r ∈ st'.used ++ topRegs i := by
      intro r; simp [h.mem r]
    rw [expandInstr_congr i hl hu]
    cases expandInstr cfg info (updRegVals info i st'.regVals) (st'.used ++ topRegs i) i with
    | error e => simp [RSim]
    | ok ex =>
      simp only [RSim]
      exact ⟨hl, hu, by simp [h.out], by simp [h.idx, h.out, h.nd], by simp [h.nd]⟩

theorem passLoop_congr {cfg : Cfg} : ∀ (S : List Instr) {st st' : PState}, PSim st st' →
    RSim (passLoop cfg st S) (passLoop cfg st' S) := by
  intro S
  induction S with
  | nil => intro st st' h; simpa [passLoop, RSim] using h
  | cons i rest ih =>
    intro st st' h
    unfold passLoop
    have hs := passStep_congr (cfg := cfg) h i
    cases h1 : passStep cfg st i with
    | error e =>
      cases h2 : passStep cfg st' i with
      | error e' => rw [h1, h2] at hs; simpa [RSim] using hs
      | ok b => rw [h1, h2] at hs; simp [RSim] at hs
    | ok a =>
      cases h2 : passStep cfg st' i with
      | error e' => rw [h1, h2] at hs; simp [RSim] at hs
      | ok b =>
        rw [h1, h2] at hs
        exact ih hs

theorem finish_congr {cfg : Cfg} {n : Nat} {a b : Except Err PState} (h : RSim a b) :
    finish cfg n a = finish cfg n b := by
  cases a with
  | error e => cases b with
    | error e' => simp only [RSim] at h; rw [h]
    | ok y => simp [RSim] at h
  | ok x => cases b with
    | error e' => simp [RSim] at h
    | ok y =>
      simp only [RSim] at h
      simp only [finish, h.out, h.idx, h.nd]

/-- **the call depends on the object only through look-ups in `_register_values` and membership in
`_used_registers`** -/
theorem transpileObj_congr (cfg : Cfg) {rv rv' : List (Reg × Int)} {used used' : List Reg}
    (hl : ∀ r, rv.lookup r = rv'.lookup r) (hu : ∀ r, r ∈ used ↔ r ∈ used') (S : List Instr) :
    transpileObj cfg rv used S = transpileObj cfg rv' used' S := by
  unfold transpileObj
  exact finish_congr (passLoop_congr S (st := ⟨rv, used, [], [], 0⟩) (st' := ⟨rv', used', [], [], 0⟩)
    ⟨hl, hu, rfl, rfl, rfl⟩)

/-! ### retry after a call that raised -/

theorem passLoop_append (cfg : Cfg) : ∀ (P R : List Instr) (st : PState),
    passLoop cfg st (P ++ R) = match passLoop cfg st P with
      | .ok st1 => passLoop cfg st1 R
      | .error e => .error e := by
  intro P
  induction P with
  | nil => intro R st; rfl
  | cons x xs ih =>
    intro R st
    simp only [List.cons_append, passLoop]
    cases passStep cfg st x with
    | error e => rfl
    | ok st' => exact ih R st'

/-- over a stretch without two-qubit gates the pass consults neither `_register_values` nor
`_used_registers`: same output whatever they hold; afterwards they are what they were plus the
stretch's `set`s / registers -/
theorem passLoop_free {cfg : Cfg} : ∀ (P : List Instr) (st st' : PState),
    (∀ x ∈ P, isGate2 cfg x = false) → st.out = st'.out → st.idx = st'.idx → st.nDebug = st'.nDebug →
    match passLoop cfg st P, passLoop cfg st' P with
    | .ok a, .ok b => a.out = b.out ∧ a.idx = b.idx ∧ a.nDebug = b.nDebug ∧
        a.regVals = rvAfter cfg st.regVals P ∧ b.regVals = rvAfter cfg st'.regVals P ∧
        a.used = st.used ++ P.flatMap topRegs ∧ b.used = st'.used ++ P.flatMap topRegs
    | .error e, .error e' => e = e'
    | _, _ => False := by
  intro P
  induction P with
  | nil => intro st st' _ h1 h2 h3; simp [passLoop, rvAfter, h1, h2, h3]
  | cons x xs ih =>
    intro st st' hfree h1 h2 h3
    have hx : isGate2 cfg x = false := hfree x List.mem_cons_self
    simp only [passLoop, passStep]
    cases hi : infoOf cfg x.cls with
    | none => simp
    | some info =>
      simp only
      have hg2 : info.gate2 = false := by simpa [isGate2, hi] using hx
      have hex : ∀ rv used, expandInstr cfg info rv used x
          = (if info.gate1 then expandGate1 cfg x else .ok [x]) := by
        intro rv used; unfold expandInstr; simp [hg2]
      rw [hex, hex]
      cases hE : (if info.gate1 then expandGate1 cfg x else Except.ok [x]) with
      | error e => simp
      | ok ex =>
        simp only
        have := ih ⟨updRegVals info x st.regVals, st.used ++ topRegs x, st.out ++ ex,
            st.idx ++ [st.out.length - st.nDebug], st.nDebug + (ex.filter isDebug).length⟩
          ⟨updRegVals info x st'.regVals, st'.used ++ topRegs x, st'.out ++ ex,
            st'.idx ++ [st'.out.length - st'.nDebug], st'.nDebug + (ex.filter isDebug).length⟩
          (fun y hy => hfree y (List.mem_cons_of_mem _ hy)) (by simp [h1]) (by simp [h1, h2, h3]) (by simp [h3])
        revert this
        cases passLoop cfg _ xs <;> cases passLoop cfg _ xs <;> simp only [imp_self]
        intro h
        simpa [rvAfter, hi, List.flatMap_cons, List.append_assoc] using h

theorem rvAfter_base (cfg : Cfg) : ∀ (P : List Instr) (rv : List (Reg × Int)),
    rvAfter cfg rv P = rvAfter cfg [] P ++ rv := by
  intro P
  induction P with
  | nil => intro rv; rfl
  | cons x xs ih =>
    intro rv
    simp only [rvAfter]
    rw [ih]
    conv => rhs; rw [ih]
    cases infoOf cfg x.cls with
    | none => simp
    | some info =>
      simp only [List.append_assoc]
      congr 1
      unfold updRegVals
      split
      · split
        · split <;> simp
        · simp
      · simp

theorem lookup_append_self (l : List (Reg × Int)) (r : Reg) : (l ++ l).lookup r = l.lookup r := by
  have : ∀ (a b : List (Reg × Int)), (a ++ b).lookup r = match a.lookup r with
      | some v => some v
      | none => b.lookup r := by
    intro a
    induction a with
    | nil => intro b; rfl
    | cons p ps ih =>
      intro b
      obtain ⟨k, v⟩ := p
      simp only [List.cons_append, List.lookup_cons]
      cases r == k <;> simp [ih]
  rw [this]
  cases l.lookup r <;> rfl

/-- **retry**: an object whose attributes were left behind by a call that got through the stretch
`P` (no two-qubit gate in it) and then raised, asked again for `P ++ R`, answers as a fresh object -/
theorem transpileObj_retry (cfg : Cfg) (P R : List Instr) (hfree : ∀ x ∈ P, isGate2 cfg x = false) :
    transpileObj cfg (rvAfter cfg [] P) (P.flatMap topRegs) (P ++ R) = transpile cfg (P ++ R) := by
  rw [← transpileObj_fresh]
  unfold transpileObj
  rw [passLoop_append, passLoop_append]
  have h := passLoop_free (cfg := cfg) P ⟨rvAfter cfg [] P, P.flatMap topRegs, [], [], 0⟩
    ⟨[], [], [], [], 0⟩ hfree rfl rfl rfl
  revert h
  cases h1 : passLoop cfg ⟨rvAfter cfg [] P, P.flatMap topRegs, [], [], 0⟩ P <;>
    cases h2 : passLoop cfg ⟨[], [], [], [], 0⟩ P <;> simp only [false_imp_iff]
  · intro h; rw [h]
  · intro h
    apply finish_congr
    apply passLoop_congr
    obtain ⟨ho, hi, hn, hrv, hrv', hu, hu'⟩ := h
    refine ⟨?_, ?_, ho, hi, hn⟩
    · intro r
      rw [hrv, hrv', rvAfter_base]
      exact lookup_append_self _ r
    · intro r
      rw [hu, hu']
      simp

end NQ.Tr
