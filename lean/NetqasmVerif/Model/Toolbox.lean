/-
C20 — model of the circuit construction of `netqasm.sdk.toolbox.measurements.parity_meas`
(written from measurements.py), at the level of the quantum events the controller receives.

Data qubits are numbered by their position in the `qubits` argument (their virtual ids when they
are allocated first, in order); the ancilla, when one is needed, is the next id `n`.

Core Lean only.
-/
import NetqasmVerif.Model.Pauli
namespace NQ.TB
open NQ

/-- what the controller sees -/
inductive TEv
  | gate (i : GI)
  | qalloc (q : Nat)
  | init (q : Nat)
  | meas (q : Nat)
  | qfree (q : Nat)
  deriving DecidableEq, Repr

/-- `flip_basis[i]`: H for X, K for Y, nothing for I and Z -/
def flipGate (b : P1) (q : Nat) : List GI :=
  match b with
  | .X => [⟨.h, [q], 0, 0⟩]
  | .Y => [⟨.k, [q], 0, 0⟩]
  | _ => []

/-- `for i in range(len(bases)): if flip_basis[i] == "H": qubits[i].H() …` starting at index `k` -/
def basisChangeFrom (k : Nat) : List P1 → List GI
  | [] => []
  | b :: bs => flipGate b k ++ basisChangeFrom (k + 1) bs

/-- `non_identity_bases` (indices, starting at `k`) -/
def nonIdFrom (k : Nat) : List P1 → List Nat
  | [] => []
  | b :: bs => if b = .I then nonIdFrom (k + 1) bs else k :: nonIdFrom (k + 1) bs

/-- `for i in non_identity_bases: qubits[i].cnot(anc)` -/
def cnotsFrom (k : Nat) (anc : Nat) : List P1 → List GI
  | [] => []
  | b :: bs => (if b = .I then [] else [⟨.cnot, [k, anc], 0, 0⟩]) ++ cnotsFrom (k + 1) anc bs

/-- the three branches of `parity_meas` -/
structure PM where
  /-- gates before the measurement -/
  pre : List GI
  /-- measured qubit; `none`: trivial measurement, the constant 0 is returned -/
  measured : Option Nat
  /-- an ancilla (index `n`) is allocated, measured destructively and freed -/
  ancilla : Bool
  /-- gates after the measurement -/
  post : List GI
  deriving DecidableEq, Repr

def parityMeas (bases : List P1) : PM :=
  match nonIdFrom 0 bases with
  | [] => ⟨[], none, false, []⟩
  | [q] => ⟨flipGate (bases.getD q .I) q, some q, false, flipGate (bases.getD q .I) q⟩
  | _ =>
    let n := bases.length
    ⟨basisChangeFrom 0 bases ++ cnotsFrom 0 n bases, some n, true, basisChangeFrom 0 bases⟩

/-- the event trace of `parity_meas(qubits, bases)` -/
def PM.trace (n : Nat) (m : PM) : List TEv :=
  (if m.ancilla then [TEv.qalloc n, TEv.init n] else [])
  ++ m.pre.map TEv.gate
  ++ (match m.measured with
      | some q => [TEv.meas q] ++ (if m.ancilla then [TEv.qfree q] else [])
      | none => [])
  ++ m.post.map TEv.gate

/-- value returned to the host for a measurement outcome `o` (`negative`: `m.add(1, mod=2)` on a
future, `1 - m` on the constant) -/
def PM.result (m : PM) (negative : Bool) (o : Nat) : Nat :=
  let raw := match m.measured with
    | some _ => o
    | none => 0
  if negative then (raw + 1) % 2 else raw

/-- where the returned outcome lives: 0 = a constant on the host (trivial measurement), 1 = an entry of
an array in shared memory (`q.measure()` with the default `store_array=True`: the handle is a `Future`).
A register (kind 2, `RegFuture`) is never used: M registers are reassigned in every subroutine. -/
def PM.storedKind (m : PM) : Nat :=
  match m.measured with
  | some _ => 1
  | none => 0

/-- the value the CONTROLLER holds in that array entry once the subroutine has run, for measurement
outcome `o`: the sign of a negated string is applied on the controller (`m.add(1, mod=2)` compiles to
load / addm / store), so every consumer — host read at any later time, `if_eq` feed-forward, `add` into
another entry, raw shared memory — sees the signed parity. Equal to `PM.result` by definition. -/
def PM.stored (m : PM) (negative : Bool) (o : Nat) : Nat := m.result negative o

/-! ### Allocation state along a trace (for repeated use) -/

/-- effect of one event on the list of live virtual qubit ids; `none` = the controller faults
(operand not allocated / already allocated) -/
def evLive (live : List Nat) : TEv → Option (List Nat)
  | .gate i => if i.qs.all (fun q => live.contains q) then some live else none
  | .qalloc q => if live.contains q then none else some (q :: live)
  | .init q => if live.contains q then some live else none
  | .meas q => if live.contains q then some live else none
  | .qfree q => if live.contains q then some (live.erase q) else none

def runLive : List Nat → List TEv → Option (List Nat)
  | live, [] => some live
  | live, e :: rest => (evLive live e).bind fun l => runLive l rest

/-- the trace of consecutive `parity_meas` calls on the same `n` qubits -/
def parityMeasSeq (n : Nat) (calls : List (List P1)) : List TEv :=
  calls.flatMap fun b => (parityMeas b).trace n

/-! ### Toffoli target -/

/-- the Toffoli gate on qubits (control1, control2, target) = (0, 1, 2): exchanges |110⟩ and |111⟩ -/
def toffoliMat : Mat := permMat 3 fun j => if j = 6 then 7 else if j = 7 then 6 else j

end NQ.TB
