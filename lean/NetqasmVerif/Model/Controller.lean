/-
Model `Controller`: ONE executable model of `netqasm/backend/executor.py`, obtained by COMPOSITION of
`Model/Exec.lean` (classical / array / allocation / quantum-hook instructions, applications, the shared
physical-qubit pool, shared memory) and `Model/Epr.lean` (request queues, pending responses, result
slices, deferral), plus `Model/EprReq.lean` (decoding of the argument array into a `LinkLayerCreate`).

* instruction set = Exec's (`.base i`, executed by `Exec.step`, unchanged) + `create_epr`, `recv_epr`,
  `wait_all`, `wait_any`, `wait_single` with their REGISTER-level semantics (operands read from the
  application's registers, `assert … is not None`, array lookups) as `executor.py` has them;
* state = `Exec.State` (so the qubit-id / argument / result arrays ARE Exec arrays and the unit module IS
  Exec's) + the subroutines in flight + the EPR `Book` (the queue / pending / history fields of
  `Epr.State`);
* `deliver` / `poll` run the loop of `_handle_pending_epr_responses`; the decision for ONE response is
  delegated to `Epr.tryHandle` on a VIEW of the controller state (the head request's application with
  the two arrays that request names), and the effect on the unit module / used set / reserved set is
  `Exec.keepResp` (the operation C13 reasons about);
* subroutines are advanced one instruction at a time (`tick`); a wait instruction whose condition does
  not hold leaves everything as it is (the executor's yield point) and is re-evaluated at the next tick.

Core Lean only.
-/
import NetqasmVerif.Model.Exec
import NetqasmVerif.Model.Epr
import NetqasmVerif.Model.EprReq
namespace NQ.Ctl
open NQ NQ.Exec

inductive CInstr
  | base (i : Exec.Instr)
  | createEpr (remote sock qarr args res : XReg)
  | recvEpr (remote sock qarr res : XReg)
  | waitAll (a : Int) (lo hi : XReg)
  | waitAny (a : Int) (lo hi : XReg)
  | waitSingle (a : Int) (ix : XReg)
  /-- `meas_basis q c x1 y x2 …`: the BASE executor has no handler for it (`_execute_command` ends in
  `raise RuntimeError("unknown instr type …")`, before any application lookup); simulators override. -/
  | measBasis (q c : XReg) (i0 i1 i2 i3 : Int)
  deriving DecidableEq, Repr

/-- faults of the EPR / wait instructions (beyond those `Exec.Fault` already names) -/
inductive EFault
  | valueError     -- ValueError: wrong number of create arguments / not a RequestType / RandomBasis value
  | notList        -- RuntimeError: wait_all / wait_any on an address without array
  | stack          -- the network stack raised inside get_purpose_id / put (environment)
  | unknownInstr   -- RuntimeError: unknown instr type (meas_basis on the base executor)
  deriving DecidableEq, Repr

inductive CFault
  | exec (f : Exec.Fault)
  | epr (f : EFault)
  deriving DecidableEq, Repr

def CFault.pyClass : CFault → String
  | .exec f => f.pyClass
  | .epr .valueError => "ValueError"
  | .epr .notList => "RuntimeError"
  | .epr .stack => "InjectedFault"
  | .epr .unknownInstr => "RuntimeError"

def CFault.name : CFault → String
  | .exec f => f.name
  | .epr .valueError => "valueError"
  | .epr .notList => "notList"
  | .epr .stack => "stack"
  | .epr .unknownInstr => "unknownInstr"

inductive COutcome
  | halted
  | fault (f : CFault) (line : Option Int)
  deriving DecidableEq, Repr

/-- a subroutine in flight -/
structure CSub where
  a : Nat
  prog : List CInstr
  pc : Int
  fin : Option COutcome
  deriving Repr

/-- the EPR bookkeeping fields of `Epr.State` (`_epr_create_requests`, `_epr_recv_requests`,
`_pending_epr_responses` + history variables) -/
structure Book where
  nodeId : Int
  queues : List (Epr.Key × List Epr.Req)
  pending : List Epr.Resp
  nextReq : Nat
  nextResp : Nat
  issued : List Epr.Req
  delivered : List Epr.Resp
  log : List Epr.Event
  deriving Repr

structure CState where
  s : Exec.State
  subs : List CSub
  book : Book

/-- static parameters: width of a result slice (`OK_FIELDS`), hardware mode, and the purpose id the
network stack assigns to (remote node, local socket id) -/
structure Cfg where
  okf : Nat
  hw : Bool
  purpose : Int → Int → Int

def init (nodeId : Int) : CState :=
  ⟨Exec.init0, [], ⟨nodeId, [], [], 0, 0, [], [], []⟩⟩

/-- `_subroutines`: a subroutine is registered from `execute_subroutine` until `_clear_subroutine`, which
is only reached when the instruction loop ends normally — a subroutine that raised stays registered. -/
def liveApp (c : CState) (sub : Nat) : Option Nat :=
  match c.subs[sub]? with
  | none => none
  | some sb => match sb.fin with
    | some .halted => none
    | _ => some sb.a

/-! ### EPR instructions -/

inductive EStep
  | ok (c : CState) (pc : Int)
  | block
  | fault (f : CFault)

def enqueue (c : CState) (κ : Epr.Key) (sub : Nat) (res : Int) (q : Option Int) (n : Int) : CState :=
  let r : Epr.Req := ⟨c.book.nextReq, κ, sub, res, q, n, n⟩
  { c with book := { c.book with queues := Epr.setQ c.book.queues κ (Epr.getQ c.book.queues κ ++ [r]),
                                 nextReq := c.book.nextReq + 1, issued := c.book.issued ++ [r] } }

def kwGet (kw : List (String × EprReq.FVal)) (k : String) : Option EprReq.FVal :=
  (kw.find? (·.1 == k)).map (·.2)

/-- Python `list[lo:hi]` for integer bounds (negative bounds count from the end, everything is clamped) -/
def pySlice (arr : List Val) (lo hi : Int) : List Val :=
  let n : Int := arr.length
  let norm (v : Int) : Nat := (if v < 0 then max (v + n) 0 else min v n).toNat
  (arr.drop (norm lo)).take (norm hi - norm lo)

/-- the assertions of `_do_create_epr` for a keep request (`type == RequestType.K`): a qubit-id array
with exactly `number` entries -/
def okKeep (ap : App) (t : Int) (qa : Val) (n : Int) : Bool :=
  if t = 0 then
    match qa with
    | none => false
    | some a => match ap.arrays a with
      | none => false
      | some qarr => decide ((qarr.length : Int) = n)
  else true

/-- `_instr_create_epr` + `_do_create_epr` + `_get_create_request`, the stack accepting the request -/
def createEpr (cfg : Cfg) (c : CState) (sub : Nat) (ap : App) (pc : Int)
    (r0 r1 r2 r3 r4 : XReg) : EStep :=
  match ap.regs r0, ap.regs r1, ap.regs r3, ap.regs r4 with
  | some remote, some sock, some argA, some resA =>
    match ap.arrays argA with
    | none => .fault (.exec .assertion)
    | some args =>
      let purpose := cfg.purpose remote sock
      match EprReq.getCreateRequest remote purpose args with
      | none => .fault (.epr .valueError)
      | some kw =>
        match kwGet kw "type", kwGet kw "number" with
        | some (.reqType t), some (.int n) =>
          if okKeep ap t (ap.regs r2) n then
            .ok (enqueue c ⟨remote, purpose, true⟩ sub resA (ap.regs r2) n) (pc + 1)
          else .fault (.exec .assertion)
        | _, _ => .fault (.epr .valueError)
  | _, _, _, _ => .fault (.exec .assertion)

/-- `_instr_recv_epr` + `_do_recv_epr` -/
def recvEpr (cfg : Cfg) (c : CState) (sub : Nat) (ap : App) (pc : Int) (r0 r1 r2 r4 : XReg) : EStep :=
  match ap.regs r0, ap.regs r1, ap.regs r4 with
  | some remote, some sock, some resA =>
    match ap.arrays resA with
    | none => .fault (.exec .assertion)
    | some arr =>
      .ok (enqueue c ⟨remote, cfg.purpose remote sock, false⟩ sub resA (ap.regs r2)
            ((arr.length / cfg.okf : Nat) : Int)) (pc + 1)
  | _, _, _ => .fault (.exec .assertion)

/-- `_instr_wait_all` / `_instr_wait_any`: one evaluation of the loop condition -/
def waitSlice (all : Bool) (ap : App) (a : Int) (lo hi : XReg) : Option (Except CFault Bool) :=
  match ap.regs lo, ap.regs hi with
  | some l, some h =>
    match ap.arrays a with
    | none => some (.error (.epr .notList))
    | some arr =>
      let sl := pySlice arr l h
      some (.ok (if all then sl.all (·.isSome) else sl.any (·.isSome)))
  | _, _ => some (.error (.exec .undefReg))

/-- `_instr_wait_single` -/
def waitEntry (ap : App) (a : Int) (ix : XReg) : Except CFault Bool :=
  match ap.regs ix with
  | none => .error (.exec .undefReg)
  | some k =>
    match ap.arrays a with
    | none => .ok false            -- `Arrays.__getitem__` returns None: keeps waiting
    | some arr => match pyIdx arr.length k with
      | none => .error (.exec .index)
      | some p => .ok ((arr[p]?.join).isSome)

def ofCond (c : CState) (pc : Int) : Except CFault Bool → EStep
  | .error f => .fault f
  | .ok true => .ok c (pc + 1)
  | .ok false => .block

def eprStep (cfg : Cfg) (c : CState) (sub : Nat) (a : Nat) (pc : Int) : CInstr → EStep
  | .base _ => .block     -- not used: base instructions go through `Exec.step`
  | .measBasis _ _ _ _ _ _ => .fault (.epr .unknownInstr)
  | i =>
    match c.s.apps a with
    | none => .fault (.exec .noApp)
    | some ap =>
      match i with
      | .createEpr r0 r1 r2 r3 r4 => createEpr cfg c sub ap pc r0 r1 r2 r3 r4
      | .recvEpr r0 r1 r2 r4 => recvEpr cfg c sub ap pc r0 r1 r2 r4
      | .waitAll ad lo hi => match waitSlice true ap ad lo hi with
        | some r => ofCond c pc r | none => .block
      | .waitAny ad lo hi => match waitSlice false ap ad lo hi with
        | some r => ofCond c pc r | none => .block
      | .waitSingle ad ix => ofCond c pc (waitEntry ap ad ix)
      | .measBasis _ _ _ _ _ _ => .fault (.epr .unknownInstr)
      | .base _ => .block

/-! ### One instruction of a subroutine -/

/-- the loop test and fetch the executor performs right after an instruction, before it is suspended:
`while pc < len(commands): command = commands[pc]` -/
def afterFetch (prog : List CInstr) (pc : Int) : Option COutcome :=
  if pc ≥ prog.length then some .halted
  else if (pyIdx prog.length pc).isNone then some (.fault (.exec .fetch) none) else none

/-- advance subroutine `i` by one instruction (no-op when it does not exist or has finished; a blocked
wait leaves the state unchanged) -/
def tick (cfg : Cfg) (c : CState) (i : Nat) : CState :=
  match c.subs[i]? with
  | none => c
  | some sb =>
    match sb.fin with
    | some _ => c
    | none =>
      if sb.pc ≥ sb.prog.length then { c with subs := c.subs.set i { sb with fin := some .halted } }
      else match (pyIdx sb.prog.length sb.pc).bind (fun k => sb.prog[k]?) with
        | none => { c with subs := c.subs.set i { sb with fin := some (.fault (.exec .fetch) none) } }
        | some (.base bi) =>
          match Exec.step cfg.hw sb.a bi c.s sb.pc with
          | .ok s' pc' =>
            { c with s := s', subs := c.subs.set i { sb with pc := pc', fin := afterFetch sb.prog pc' } }
          | .fault s' f =>
            { c with s := s', subs := c.subs.set i { sb with fin := some (.fault (.exec f) (some sb.pc)) } }
        | some ei =>
          match eprStep cfg c i sb.a sb.pc ei with
          | .block => c
          | .ok c' pc' => { c' with subs := c'.subs.set i { sb with pc := pc', fin := afterFetch sb.prog pc' } }
          | .fault f => { c with subs := c.subs.set i { sb with fin := some (.fault f (some sb.pc)) } }

/-- the network stack raised inside the EPR instruction subroutine `i` is about to execute -/
def stackFault (c : CState) (i : Nat) : CState :=
  match c.subs[i]? with
  | none => c
  | some sb =>
    match sb.fin with
    | some _ => c
    | none => { c with subs := c.subs.set i { sb with fin := some (.fault (.epr .stack) (some sb.pc)) } }

/-! ### Responses -/

def liftU (u : List (Option Nat)) : List (Option Int) := u.map (Option.map Int.ofNat)

def Book.toEpr (b : Book) (subs : List (Nat × Nat)) (apps : List (Nat × Epr.AppMem)) (used : List Int) :
    Epr.State :=
  ⟨b.nodeId, subs, apps, used, b.queues, b.pending, b.nextReq, b.nextResp, b.issued, b.delivered, b.log⟩

def Book.ofEpr (e : Epr.State) : Book :=
  ⟨e.nodeId, e.queues, e.pending, e.nextReq, e.nextResp, e.issued, e.delivered, e.log⟩

/-- the part of the controller state the handler of ONE response can see: the application of the head
request `h` with the arrays `h` names -/
def view (c : CState) (h : Epr.Req) (app : Nat) (ap : App) : Epr.State :=
  let qarrs : List (Int × Epr.Arr) := match h.qAddr with
    | none => []
    | some qa => match ap.arrays qa with
      | none => []
      | some v => [(qa, v)]
  let rarrs : List (Int × Epr.Arr) := match ap.arrays h.resAddr with
    | none => []
    | some v => [(h.resAddr, v)]
  c.book.toEpr [(h.sub, app)] [(app, ⟨qarrs ++ rarrs, liftU ap.unit⟩)] (c.s.used.map Int.ofNat)

/-- write the new result array into the `Exec` state `s1` and take over the bookkeeping of `e'` -/
def commit (c : CState) (s1 : Exec.State) (app : Nat) (ap1 : App) (res : Int) (arr' : Epr.Arr)
    (e' : Epr.State) : CState :=
  let ap2 : App := { ap1 with arrays := upd ap1.arrays res (some arr') }
  let s2 : Exec.State := { s1 with apps := upd s1.apps app (some ap2) }
  { c with s := s2, book := Book.ofEpr e' }

inductive CTry
  | err
  | no
  | yes (c : CState)

/-- one iteration of the `for` loop of `_handle_pending_epr_responses`. The decision and the new
bookkeeping / result array come from `Epr.tryHandle` on the view; the effect of a keep response on the
unit module, the used set and the reserved set is `Exec.keepResp`. -/
def tryHandle (cfg : Cfg) (c : CState) (r : Epr.Resp) : CTry :=
  match Epr.getQ c.book.queues (Epr.keyOf c.book.nodeId r) with
  | [] => .no
  | h :: _ =>
    match liveApp c h.sub with
    | none => .err
    | some app =>
      match c.s.apps app with
      | none => .err
      | some ap =>
        if r.ty = .K ∧ r.phys < 0 then .err else      -- physical ids are natural numbers in `Exec`
        match Epr.tryHandle cfg.okf (view c h app ap) r with
        | .err => .err
        | .no => .no
        | .yes e' =>
          match (Epr.getApp e'.apps app).bind (fun m => Epr.getArr m.arrays h.resAddr), e'.log.getLast? with
          | some arr', some ev =>
            let s1 : Exec.State := match ev.vq with
              | some pos => (Exec.keepResp c.s app (pos : Int) r.phys.toNat).1
              | none => c.s
            match s1.apps app with
            | none => .err
            | some ap1 =>
              .yes (commit c s1 app ap1 h.resAddr arr' e')
          | _, _ => .err

inductive CRes
  | err
  | idle
  | did (c : CState)

def scan (cfg : Cfg) (c : CState) (pre : List Epr.Resp) : List Epr.Resp → CRes
  | [] => .idle
  | r :: rest =>
    match tryHandle cfg c r with
    | .err => .err
    | .no => scan cfg c (pre ++ [r]) rest
    | .yes c' => .did { c' with book := { c'.book with pending := pre ++ rest } }

def handleOne (cfg : Cfg) (c : CState) : CRes := scan cfg c [] c.book.pending

def handlePendingFuel (cfg : Cfg) : Nat → CState → Option CState
  | 0, c => some c
  | n + 1, c =>
    match handleOne cfg c with
    | .err => none
    | .idle => some c
    | .did c' => handlePendingFuel cfg n c'

/-- `_handle_pending_epr_responses` -/
def handlePending (cfg : Cfg) (c : CState) : Option CState :=
  handlePendingFuel cfg (c.book.pending.length + 1) c

/-- `_handle_epr_response` -/
def deliver (cfg : Cfg) (c : CState) (ty : Epr.Ty) (remote purpose dir phys : Int) (fields : List Int) :
    Option CState :=
  let r : Epr.Resp := ⟨c.book.nextResp, ty, remote, purpose, dir, phys, fields⟩
  let b : Book := { c.book with pending := c.book.pending ++ [r], nextResp := c.book.nextResp + 1,
                                delivered := c.book.delivered ++ [r] }
  handlePending cfg { c with book := b }

/-! ### Actions -/

inductive CAction
  | base (op : Exec.Op)                        -- init / stop application, reserve, oracle, …
  | spawn (a : Nat) (prog : List CInstr)       -- `execute_subroutine` up to the first instruction
  | tick (i : Nat)
  | stackFault (i : Nat)
  | deliver (ty : Epr.Ty) (remote purpose dir phys : Int) (fields : List Int)
  | poll

/-- `none` = an exception escapes from `_handle_epr_response` / `_handle_pending_epr_responses` -/
def apply (cfg : Cfg) (c : CState) : CAction → Option CState
  | .base op => some { c with s := Exec.apply c.s op }
  | .spawn a prog => some { c with subs := c.subs ++ [⟨a, prog, 0, afterFetch prog 0⟩] }
  | .tick i => some (tick cfg c i)
  | .stackFault i => some (stackFault c i)
  | .deliver ty remote purpose dir phys fields => deliver cfg c ty remote purpose dir phys fields
  | .poll => handlePending cfg c

def run (cfg : Cfg) (c : CState) : List CAction → Option CState
  | [] => some c
  | a :: as => match apply cfg c a with
    | none => none
    | some c' => run cfg c' as

end NQ.Ctl
