/-
Instruction `Command` structs through the generic ctypes struct model of `Model/Msg.lean`.

A command layout lists the leaf fields of the ctypes struct an instruction class serialises
through (bit ranges from the ctypes descriptors), grouped by the operand slot that feeds them,
with the operand component (`Part`) each leaf carries.  `packCmd` / `unpackCmd` serialise an
operand list with nothing but the generic `packNat` / `readFields` of the struct model, i.e.
under the single assumption "ctypes stores a field's value at the bit range its descriptor
reports, two's complement, little endian".  Core Lean only.
-/
import NetqasmVerif.Model.Codec
import NetqasmVerif.Model.Msg
namespace NQ.Cmd
open NQ NQ.Msg

/-- the integer components of an operand -/
inductive Part | bank0 | idx0 | bank1 | idx1 | val | zero
  deriving DecidableEq, Repr, Inhabited

structure CmdLayout where
  cls : String                          -- instruction class
  struct : String                       -- ctypes struct of netqasm/lang/encoding.py
  size : Nat                            -- ctypes.sizeof
  idField : SField                      -- the opcode leaf
  groups : List (List (SField × Part))  -- per operand slot: its leaves and what feeds them
  pads : List SField                    -- trailing padding leaves
  deriving DecidableEq, Repr, Inhabited

def partVal : Operand → Part → Int
  | .reg r, .bank0 => r.bank
  | .reg r, .idx0 => r.idx
  | .imm v, .val => v
  | .addr a, .val => a
  | .entry a _, .val => a
  | .entry _ i, .bank0 => i.bank
  | .entry _ i, .idx0 => i.idx
  | .slice a _ _, .val => a
  | .slice _ s _, .bank0 => s.bank
  | .slice _ s _, .idx0 => s.idx
  | .slice _ _ e, .bank1 => e.bank
  | .slice _ _ e, .idx1 => e.idx
  | _, _ => 0

/-- the operand has the constructor its slot expects (the type assertions of `cstruct`) -/
def kindOk : FieldKind → Operand → Bool
  | .reg, .reg _ => true
  | .imm8, .imm _ => true
  | .int32, .imm _ => true
  | .addr, .addr _ => true
  | .entry, .entry _ _ => true
  | .slice, .slice _ _ _ => true
  | _, _ => false

/-- leaves and leaf values of the operand slots, in order; `none` = wrong arity / kind -/
def slotLeaves : List FieldKind → List (List (SField × Part)) → List Operand → Option (List SField × List Int)
  | [], [], [] => some ([], [])
  | k :: ks, g :: gs, o :: os =>
    if kindOk k o then
      match slotLeaves ks gs os with
      | some (fs, vs) => some (g.map (·.1) ++ fs, g.map (fun p => partVal o p.2) ++ vs)
      | none => none
    else none
  | _, _, _ => none

/-- `bytes(Struct(id=…, …))` with the range check of `_check_field_ranges` (`none` = raises) -/
def packCmd (L : CmdLayout) (row : Row) (ops : List Operand) : Option (List Nat) :=
  match slotLeaves row.shape L.groups ops with
  | some (fs, vs) =>
    let fields := L.idField :: (fs ++ L.pads)
    let vals := (row.opcode : Int) :: (vs ++ L.pads.map (fun _ => 0))
    if allInWidth fields vals then some (toBytes (packNat fields vals) L.size) else none
  | none => none

def lookupPart (g : List (SField × Part)) (vs : List Int) (p : Part) : Int :=
  match g, vs with
  | (_, q) :: g', v :: vs' => if q = p then v else lookupPart g' vs' p
  | _, _ => 0

def regOfParts (b i : Int) : Reg := ⟨b.toNat, i⟩

/-- the operand of kind `k` rebuilt from the leaf values of its group (`from_raw`) -/
def buildOp (k : FieldKind) (g : List (SField × Part)) (vs : List Int) : Operand :=
  let v := lookupPart g vs
  match k with
  | .reg => .reg (regOfParts (v .bank0) (v .idx0))
  | .imm8 => .imm (v .val)
  | .int32 => .imm (v .val)
  | .addr => .addr (v .val)
  | .entry => .entry (v .val) (regOfParts (v .bank0) (v .idx0))
  | .slice => .slice (v .val) (regOfParts (v .bank0) (v .idx0)) (regOfParts (v .bank1) (v .idx1))

def buildOps (n : Nat) : List FieldKind → List (List (SField × Part)) → Option (List Operand)
  | [], [] => some []
  | k :: ks, g :: gs =>
    match buildOps n ks gs with
    | some os => some (buildOp k g (readFields (g.map (·.1)) n) :: os)
    | none => none
  | _, _ => none

/-- `Struct.from_buffer_copy(raw)` + `from_raw` of every operand: the opcode leaf and the operands -/
def unpackCmd (L : CmdLayout) (row : Row) (bs : List Nat) : Option (Int × List Operand) :=
  if bs.length < L.size then none
  else
    let n := ofBytes (bs.take L.size)
    match buildOps n row.shape L.groups with
    | some os => some (decVal L.idField (n / 2 ^ L.idField.start % 2 ^ L.idField.width), os)
    | none => none

/-! ### the canonical sequential layout of a shape -/

def regGroup (o : Nat) (b i : Part) : List (SField × Part) :=
  [(⟨"", 8 * o, 2, false⟩, b), (⟨"", 8 * o + 2, 4, false⟩, i), (⟨"", 8 * o + 6, 2, false⟩, .zero)]

/-- leaves of one operand slot starting at byte `o` -/
def canonGroup (o : Nat) : FieldKind → List (SField × Part)
  | .reg => regGroup o .bank0 .idx0
  | .imm8 => [(⟨"", 8 * o, 8, false⟩, .val)]
  | .int32 => [(⟨"", 8 * o, 32, true⟩, .val)]
  | .addr => [(⟨"", 8 * o, 32, true⟩, .val)]
  | .entry => (⟨"", 8 * o, 32, true⟩, .val) :: regGroup (o + 4) .bank0 .idx0
  | .slice => (⟨"", 8 * o, 32, true⟩, .val) :: (regGroup (o + 4) .bank0 .idx0 ++ regGroup (o + 5) .bank1 .idx1)

def canonGroups : Nat → List FieldKind → List (List (SField × Part))
  | _, [] => []
  | o, k :: ks => canonGroup o k :: canonGroups (o + kindSize k) ks

def canonPads (o n : Nat) : List SField := (List.range n).map fun k => ⟨"", 8 * (o + k), 8, false⟩

/-- opcode byte, the operands in declared order (register byte = 2-bit bank, 4-bit index, 2 unused
bits; imm8; little-endian two's-complement int32 / address), zero padding to `COMMAND_BYTES` -/
def canonCmd (row : Row) : CmdLayout :=
  { cls := row.cls, struct := "", size := COMMAND_BYTES, idField := ⟨"", 0, 8, false⟩,
    groups := canonGroups 1 row.shape,
    pads := canonPads (1 + shapeSize row.shape) (6 - shapeSize row.shape) }

/-- the generated layout of a class is the canonical layout of its shape -/
def isCanonical (L : CmdLayout) (row : Row) : Bool :=
  L.size == COMMAND_BYTES && L.idField == (canonCmd row).idField && L.groups == (canonCmd row).groups
    && L.pads == (canonCmd row).pads && decide (shapeSize row.shape ≤ 6) && L.cls == row.cls

end NQ.Cmd
