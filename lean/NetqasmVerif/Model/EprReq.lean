/-
Model M4 (part 2): how an EPR request crosses the SDK/controller boundary
(`sdk/build_epr.py: serialize_request`, `backend/executor.py: _get_create_request`) and where the host-side
result handles read (`build_epr.py: deserialize_epr_*_results`, `builder.py: _create_ent_info_k_slices`)
versus where `_store_ent_info` writes. All positions come from the generated tables. Core Lean only.
-/
import NetqasmVerif.Gen.EprTables
import NetqasmVerif.Model.Epr
namespace NQ.EprReq
open NQ.Gen.Epr

/-- the part of `EntRequestParams` that `serialize_request` looks at -/
structure ReqParams where
  number : Int
  timeUnit : Int            -- `TimeUnit.value`
  maxTime : Int
  rbl : Option Int          -- `random_basis_local` (`RandomBasis.value`), `None` if not given
  rbr : Option Int
  rotL : Int × Int × Int    -- `rotations_local`
  rotR : Int × Int × Int
  deriving DecidableEq, Repr, Inhabited

def lookupNat (t : List (String × Nat)) (k : String) : Option Nat := (t.find? (·.1 == k)).map (·.2)
def lookupInt (t : List (String × Int)) (k : String) : Option Int := (t.find? (·.1 == k)).map (·.2)

/-- `array[SER_CREATE_IDX_<name>] = v` (`none`: unknown constant or IndexError) -/
def put (a : Option (List (Option Int))) (name : String) (v : Int) : Option (List (Option Int)) :=
  match a with
  | none => none
  | some a => match lookupNat serCreate name with
    | none => none
    | some i => if i < a.length then some (a.set i (some v)) else none

/-- `serialize_request(tp, params)`; `tp` is `EPRType.value` -/
def serializeReq (tp : Int) (p : ReqParams) : Option (List (Option Int)) :=
  let a := some (List.replicate serCreateLen none)
  let a := put a "TYPE" tp
  let a := put a "NUMBER" p.number
  let a := if p.maxTime ≠ 0 then put (put a "TIME_UNIT" p.timeUnit) "MAX_TIME" p.maxTime else a
  if some tp = lookupInt eprType "M" ∨ some tp = lookupInt eprType "R" then
    let a := if p.rotL ≠ (0, 0, 0) then
        put (put (put a "ROTATION_X_LOCAL1" p.rotL.1) "ROTATION_Y_LOCAL" p.rotL.2.1) "ROTATION_X_LOCAL2" p.rotL.2.2
      else a
    let a := if p.rotR ≠ (0, 0, 0) then
        put (put (put a "ROTATION_X_REMOTE1" p.rotR.1) "ROTATION_Y_REMOTE" p.rotR.2.1) "ROTATION_X_REMOTE2" p.rotR.2.2
      else a
    let a := match p.rbl with
      | some v => put a "RANDOM_BASIS_LOCAL" v     -- enum members are always truthy
      | none => a
    match p.rbr with
      | some v => put a "RANDOM_BASIS_REMOTE" v
      | none => a
  else a

/-- `Enum(x)`: an int must be the value of a member, a member of the same enum is returned as is,
anything else raises -/
def toReqType : FVal → Option FVal
  | .int v => if (requestType.map (·.2)).contains v then some (.reqType v) else none
  | .reqType v => some (.reqType v)
  | .randBasis _ => none

/-- `v` is the value of a `RandomBasis` member -/
def isRandBasis (v : Int) : Bool := (randomBasis.map (·.2)).contains v

def toRandBasis : FVal → Option FVal
  | .int v => if isRandBasis v then some (.randBasis v) else none
  | .randBasis v => some (.randBasis v)
  | .reqType _ => none

/-- `zip(args, fields, defaults)` with `None ↦ default` -/
def fillDefaults : List (Option Int) → List String → List FVal → List (String × FVal)
  | a :: as, f :: fs, d :: ds => (f, match a with | none => d | some v => .int v) :: fillDefaults as fs ds
  | _, _, _ => []

/-- `kwargs[k] = conv(kwargs[k])` (`none`: KeyError or the conversion raises) -/
def convField (kw : Option (List (String × FVal))) (k : String) (conv : FVal → Option FVal) :
    Option (List (String × FVal)) :=
  match kw with
  | none => none
  | some kw =>
    match kw.find? (·.1 == k) with
    | none => none
    | some (_, v) => match conv v with
      | none => none
      | some v' => some (kw.map fun (f, x) => if f == k then (f, v') else (f, x))

/-- `_get_create_request` (after the F15 fix): the keyword arguments of the `LinkLayerCreate` handed to
the network stack -/
def getCreateRequest (remote purpose : Int) (arr : List (Option Int)) : Option (List (String × FVal)) :=
  let args := some remote :: some purpose :: arr
  if args.length ≠ createFields.length then none
  else
    let kw := some (fillDefaults args createFields createDefaults)
    let kw := convField kw "type" toReqType
    let kw := convField kw "random_basis_local" toRandBasis
    convField kw "random_basis_remote" toRandBasis

/-! ### results -/

/-- `array[k*okf:(k+1)*okf] = ent_info` of `_store_ent_info` (with the equal-length assertion) -/
def storeEntInfo (okf : Nat) (arr : List (Option Int)) (k : Nat) (vals : List Int) : Option (List (Option Int)) :=
  Epr.storeSlice okf arr k vals

/-- responses 0..n-1 stored at pair indices 0..n-1 -/
def storeAll (okf : Nat) (arr : List (Option Int)) (k : Nat) : List (List Int) → Option (List (Option Int))
  | [] => some arr
  | r :: rs => match storeEntInfo okf arr k r with
    | none => none
    | some arr' => storeAll okf arr' (k + 1) rs

/-- index read by attribute `attr` of `EprKeepResult` number `i`:
`i * SER_RESPONSE_KEEP_LEN + SER_RESPONSE_KEEP_IDX_<const>` -/
def keepConst : String → Option String
  | "qubit_id" => some "LOGICAL_QUBIT_ID"
  | "remote_node_id" => some "REMOTE_NODE_ID"
  | "generation_duration" => some "GOODNESS"
  | "raw_bell_state" => some "BELL_STATE"
  | _ => none

def measureConst : String → Option String
  | "raw_measurement_outcome" => some "MEASUREMENT_OUTCOME"
  | "remote_node_id" => some "REMOTE_NODE_ID"
  | "generation_duration" => some "GOODNESS"
  | "raw_bell_state" => some "BELL_STATE"
  | _ => none

def keepHandleIndex (attr : String) (i : Nat) : Option Nat :=
  (keepConst attr).bind fun c => (lookupNat serKeep c).map fun off => i * serKeepLen + off

def measureHandleIndex (attr : String) (i : Nat) : Option Nat :=
  (measureConst attr).bind fun c => (lookupNat serMeasure c).map fun off => i * serMeasureLen + off

/-- `Qubit.entanglement_info` of pair `i`: field number `j` of `LinkLayerOKTypeK(*slice)` -/
def entInfoIndex (j i : Nat) : Nat := i * okFieldsK + j

/-! ### which returned qubit belongs to which pair (`Builder._create_ent_qubits`,
`_build_cmds_wait_move_epr_to_mem`) -/

/-- hardware with a single communication qubit (NV), all pairs requested at once: virtual id of
returned qubit `i` of `n` (`final_id = num_pairs - 1 - i`) -/
def nvHandleId (n i : Nat) : Nat := n - 1 - i

/-- the same configuration: virtual id in which pair `k` (the k-th response, generated in the
communication qubit 0) ends up: moved to memory qubit `n-1-k` unless it is the last pair -/
def nvPairLocation (n k : Nat) : Nat := if k = n - 1 then 0 else n - 1 - k

/-- result-array slice read by `entanglement_info` of returned qubit `i` (every configuration):
`ent_info=ent_info_slice` of the i-th iteration -/
def handleSlice (i : Nat) : Nat := i

/-- (virtual id, slice) of returned qubit `i`, on a connection with no other live qubit:
generic hardware gives fresh ids 0,1,… (one shared id 0 when sequential), NV as above (0 when
sequential) -/
def handleLayout (nv seq : Bool) (n i : Nat) : Nat × Nat :=
  (if seq then 0 else if nv then nvHandleId n i else i, handleSlice i)

end NQ.EprReq
