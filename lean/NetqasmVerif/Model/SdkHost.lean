/-
`HostSem`: the DIRECT semantics of host programs (`Host` AST of Model/Sdk.lean): arrays, register
handles, gate/measurement trace, measurement-outcome oracle.  Written from the property statement
and the SDK documentation — it knows nothing about registers R0..R15, labels or temporaries.

Host-time effects happen once, in program order (a body is host code that runs once): arrays are
numbered by address and register handles by creation order; `hCount`/`aCount` say how many handles /
arrays building an operation creates, so the handle bound by a node is the static counter `nh` at that
node and the array created by a node the static counter `na`.  Run-time effects follow the control
flow.  Arrays created since the last flush are initialised when the segment starts running.

Executable with fuel (core Lean only); cross-checked through the driver against the harness' direct
Python interpreter.
-/
import NetqasmVerif.Model.SdkExec
namespace NQ.Sdk

/-- does building the operation put any command into the subroutine? (a loop / if whose body has
no run-time operation is dropped by the SDK, and so is the evaluation of its operands) -/
def emits : Host → Bool
  | .skip => false
  | .seq a b => emits a || emits b
  | .newArray _ _ => false
  | .newReg _ => true
  | .qop _ _ => true
  | .addF _ _ _ => true
  | .addR _ _ _ => true
  | .ifc _ _ _ _ body => emits body
  | .loop _ _ _ _ body => emits body
  | .loopBody _ _ _ _ body => emits body
  | .foreach _ _ body => emits body
  | .loopUntil _ body _ _ _ => emits body
  | .tryUntil _ body => emits body
  | .epr _ => false

/-- number of register handles created by building the operation -/
def hCount : Host → Nat
  | .skip => 0
  | .seq a b => hCount a + hCount b
  | .newArray _ _ => 0
  | .newReg _ => 1
  | .qop _ t => match t with | .newReg => 1 | _ => 0
  | .addF _ _ _ => 0
  | .addR _ _ _ => 0
  | .ifc _ _ _ _ body => hCount body
  | .loop _ _ _ _ body => 1 + hCount body
  | .loopBody _ _ _ _ body => 1 + hCount body
  | .foreach _ _ body => 1 + hCount body
  | .loopUntil _ body _ _ cl => 1 + hCount body + (if emits body then hCount cl else 0)
  | .tryUntil _ body => hCount body
  | .epr _ => 0

/-- number of arrays allocated by building the operation -/
def aCount : Host → Nat
  | .skip => 0
  | .seq a b => aCount a + aCount b
  | .newArray _ _ => 1
  | .newReg _ => 0
  | .qop _ t => match t with | .newFut => 1 | _ => 0
  | .addF _ _ _ => 0
  | .addR _ _ _ => 0
  | .ifc _ _ _ _ body => aCount body
  | .loop _ _ _ _ body => aCount body
  | .loopBody _ _ _ _ body => aCount body
  | .foreach _ _ body => aCount body
  | .loopUntil _ body _ _ cl => aCount body + (if emits body then aCount cl else 0)
  | .tryUntil _ body => aCount body
  | .epr _ => 0

/-- the arrays an operation declares (address = static counter), in creation order -/
def declsOf (na : Nat) : Host → List ArrDecl
  | .skip => []
  | .seq a b => declsOf na a ++ declsOf (na + aCount a) b
  | .newArray len init =>
    [⟨na, (match init with | some vs => vs.length | none => len), init⟩]
  | .newReg _ => []
  | .qop _ t => match t with | .newFut => [⟨na, 1, none⟩] | _ => []
  | .addF _ _ _ => []
  | .addR _ _ _ => []
  | .ifc _ _ _ _ body => declsOf na body
  | .loop _ _ _ _ body => declsOf na body
  | .loopBody _ _ _ _ body => declsOf na body
  | .foreach _ _ body => declsOf na body
  | .loopUntil _ body _ _ cl =>
    declsOf na body ++ (if emits body then declsOf (na + aCount body) cl else [])
  | .tryUntil _ body => declsOf na body
  | .epr _ => []

/-- handles of measurement registers (`measure(store_array=False)`) created by the operation:
the SDK recycles M registers at every flush, so these handles die there -/
def mHandlesOf (nh : Nat) : Host → List Nat
  | .seq a b => mHandlesOf nh a ++ mHandlesOf (nh + hCount a) b
  | .qop _ t => match t with | .newReg => [nh] | _ => []
  | .ifc _ _ _ _ body => mHandlesOf nh body
  | .loop _ _ _ _ body => mHandlesOf (nh + 1) body
  | .loopBody _ _ _ _ body => mHandlesOf (nh + 1) body
  | .foreach _ _ body => mHandlesOf (nh + 1) body
  | .loopUntil _ body _ _ cl =>
    mHandlesOf (nh + 1) body ++ (if emits body then mHandlesOf (nh + 1 + hCount body) cl else [])
  | .tryUntil _ body => mHandlesOf nh body
  | _ => []

/-- state of the direct semantics -/
structure HSt where
  arrs : Nat → Option (List (Option Int))
  hregs : Nat → Option Int
  trace : List Ev
  outcomes : List Int

def HSt.setH (s : HSt) (h : Nat) (v : Int) : HSt :=
  { s with hregs := fun x => if x = h then some v else s.hregs x }

def HSt.clearH (s : HSt) (h : Nat) : HSt :=
  { s with hregs := fun x => if x = h then none else s.hregs x }

def HSt.setArr (s : HSt) (a : Nat) (l : List (Option Int)) : HSt :=
  { s with arrs := fun x => if x = a then some l else s.arrs x }

def readCell (arrs : Nat → Option (List (Option Int))) (a i : Nat) : Option Int :=
  match arrs a with
  | some l => match l[i]? with
    | some (some v) => some v
    | _ => none
  | none => none

def idxOf (v : Int) : Option Nat := if 0 ≤ v then some v.toNat else none

/-- (address, index) denoted by a Future -/
def evalFut (s : HSt) : Fut → Option (Nat × Nat)
  | .lit a i => some (a, i)
  | .reg a h =>
    match s.hregs h with
    | some v => match idxOf v with
      | some i => some (a, i)
      | none => none
    | none => none
  | .fut a f =>
    match evalFut s f with
    | some (b, j) =>
      match readCell s.arrs b j with
      | some v => match idxOf v with
        | some i => some (a, i)
        | none => none
      | none => none
    | none => none

def readFut (s : HSt) (f : Fut) : Option Int :=
  match evalFut s f with
  | some (a, i) => readCell s.arrs a i
  | none => none

def writeCell (s : HSt) (a i : Nat) (v : Int) : Option HSt :=
  match s.arrs a with
  | some l => if i < l.length then some (s.setArr a (l.set i (some v))) else none
  | none => none

def writeFut (s : HSt) (f : Fut) (v : Int) : Option HSt :=
  match evalFut s f with
  | some (a, i) => writeCell s a i v
  | none => none

def evalVal (s : HSt) : Val → Option Int
  | .lit v => some v
  | .fut f => readFut s f
  | .reg h => s.hregs h

/-- result of `add` / `addm`; a modulus below 1 is an error -/
def addResH (x y : Int) : Option Int → Option Int
  | none => some (x + y)
  | some m => if m < 1 then none else some ((x + y) % m)

def condB : Cond → Int → Int → Bool
  | .eq, a, b => decide (a = b)
  | .ne, a, b => decide (a ≠ b)
  | .lt, a, b => decide (a < b)
  | .ge, a, b => decide (a ≥ b)
  | .ez, a, _ => decide (a = 0)
  | .nz, a, _ => decide (a ≠ 0)

def gateEvs : List Nat → List Ev
  | [] => []
  | g :: gs => Ev.gate g :: gateEvs gs

/-- `i = start; while i != stop: body; i += step` on the handle `h` (the body may change `h`) -/
def iterLoop (body : HSt → Option HSt) (h : Nat) (stop step : Int) : Nat → HSt → Option HSt
  | 0, _ => none
  | k + 1, s =>
    match s.hregs h with
    | none => none
    | some i =>
      if i = stop then some s else
      match body s with
      | none => none
      | some s1 =>
        match s1.hregs h with
        | none => none
        | some i1 => iterLoop body h stop step k (s1.setH h (i1 + step))

/-- `loop_until`: `i = 0; while i != max: body; if value <= bound: break; cleanup; i += 1` -/
def iterUntil (body cleanup : HSt → Option HSt) (ef : Val) (ev : Int) (h : Nat) (maxIter : Int) :
    Nat → HSt → Option HSt
  | 0, _ => none
  | k + 1, s =>
    match s.hregs h with
    | none => none
    | some i =>
      if i = maxIter then some s else
      match body s with
      | none => none
      | some s1 =>
        match s1.hregs h with
        | none => none
        | some _ =>
        match evalVal s1 ef with
        | none => none
        | some v =>
          if v ≤ ev then some s1 else
          match cleanup s1 with
          | none => none
          | some s2 =>
            match s2.hregs h with
            | none => none
            | some i2 => iterUntil body cleanup ef ev h maxIter k (s2.setH h (i2 + 1))

def clearOpt (h : Nat) : Option HSt → Option HSt
  | some s => some (s.clearH h)
  | none => none

/-- direct evaluation of one operation; `nh`/`na` = number of handles / arrays created before it -/
def hsem : Nat → Nat → Nat → Host → HSt → Option HSt
  | 0, _, _, _, _ => none
  | _ + 1, _, _, .skip, s => some s
  | f + 1, nh, na, .seq a b, s =>
    match hsem f nh na a s with
    | some s1 => hsem f (nh + hCount a) (na + aCount a) b s1
    | none => none
  | _ + 1, _, _, .newArray _ _, s => some s
  | _ + 1, nh, _, .newReg v, s => some (s.setH nh v)
  | _ + 1, nh, na, .qop gates tgt, s =>
    let o := s.outcomes.headD 0
    let s1 : HSt := { s with trace := s.trace ++ ([Ev.qalloc, Ev.init] ++ gateEvs gates ++ [Ev.meas o, Ev.qfree]),
                             outcomes := s.outcomes.tail }
    match tgt with
    | .newFut => writeCell s1 na 0 o
    | .fut fu => writeFut s1 fu o
    | .newReg => some (s1.setH nh o)
  | _ + 1, _, _, .addF fu o md, s =>
    match evalFut s fu with
    | none => none
    | some (a, i) =>
      match readCell s.arrs a i, evalVal s o with
      | some x, some y =>
        match addResH x y md with
        | some r => writeCell s a i r
        | none => none
      | _, _ => none
  | _ + 1, _, _, .addR h o md, s =>
    match s.hregs h, evalVal s o with
    | some x, some y =>
      match addResH x y md with
      | some r => some (s.setH h r)
      | none => none
    | _, _ => none
  | f + 1, nh, na, .ifc _ c a b body, s =>
    if !emits body then some s else
    match evalVal s a with
    | none => none
    | some va =>
      if c.unary then
        if condB c va 0 then hsem f nh na body s else some s
      else
        match evalVal s b with
        | none => none
        | some vb => if condB c va vb then hsem f nh na body s else some s
  | f + 1, nh, na, .loop _ start stop step body, s =>
    if !emits body then some s else
    clearOpt nh (iterLoop (hsem f (nh + 1) na body) nh stop step f (s.setH nh start))
  | f + 1, nh, na, .loopBody _ start stop step body, s =>
    if !emits body then some s else
    clearOpt nh (iterLoop (hsem f (nh + 1) na body) nh stop step f (s.setH nh start))
  | f + 1, nh, na, .foreach arr _ body, s =>
    if !emits body then some s else
    match s.arrs arr with
    | none => none
    | some l =>
      clearOpt nh (iterLoop (hsem f (nh + 1) na body) nh (l.length : Nat) 1 f (s.setH nh 0))
  | f + 1, nh, na, .loopUntil maxIter body ef ev cl, s =>
    if !emits body then some s else
    clearOpt nh (iterUntil (hsem f (nh + 1) na body)
      (hsem f (nh + 1 + hCount body) (na + aCount body) cl) ef ev nh maxIter f (s.setH nh 0))
  | f + 1, nh, na, .tryUntil _ body, s => hsem f nh na body s
  | _ + 1, _, _, .epr _, _ => none

/-! ## programs: segments between flushes -/

def initList (d : ArrDecl) : List (Option Int) :=
  match d.init with
  | some vs => vs
  | none => List.replicate d.len none

def initDecls (s : HSt) : List ArrDecl → HSt
  | [] => s
  | d :: ds => initDecls (s.setArr d.addr (initList d)) ds

def clearAll (s : HSt) : List Nat → HSt
  | [] => s
  | h :: hs => clearAll (s.clearH h) hs

/-- the operations of the first segment and the rest after its flush (`none`: no flush left) -/
def splitSeg : List Top → List Host × Option (List Top)
  | [] => ([], none)
  | .flush :: rest => ([], some rest)
  | .op h :: rest => let (ops, r) := splitSeg rest; (h :: ops, r)

def segDecls (na : Nat) : List Host → List ArrDecl
  | [] => []
  | h :: hs => declsOf na h ++ segDecls (na + aCount h) hs

def segMHandles (nh : Nat) : List Host → List Nat
  | [] => []
  | h :: hs => mHandlesOf nh h ++ segMHandles (nh + hCount h) hs

def runOps (fuel : Nat) : Nat → Nat → List Host → HSt → Option (HSt × Nat × Nat)
  | nh, na, [], s => some (s, nh, na)
  | nh, na, h :: hs, s =>
    match hsem fuel nh na h s with
    | some s1 => runOps fuel (nh + hCount h) (na + aCount h) hs s1
    | none => none

/-- one flush segment: initialise the arrays created in it, run its operations -/
def runSegment (fuel : Nat) (nh na : Nat) (ops : List Host) (s : HSt) : Option (HSt × Nat × Nat) :=
  runOps fuel nh na ops (initDecls s (segDecls na ops))

/-- what the host sees after a flush: every array, every live register handle -/
structure HView where
  arrs : List (Nat × List (Option Int))
  regs : List (Nat × Int)
  deriving Repr

def HSt.view (s : HSt) (nh na : Nat) : HView :=
  ⟨(List.range na).filterMap (fun a => (s.arrs a).map (fun l => (a, l))),
   (List.range nh).filterMap (fun h => (s.hregs h).map (fun v => (h, v)))⟩

structure HRun where
  views : List HView
  final : Option HSt       -- `none`: the program is not covered (undefined read, index out of range, fuel …)
  nh : Nat
  na : Nat

/-- a whole program; one view per flush -/
def hrunProg (fuel : Nat) : Nat → (nh na : Nat) → HSt → List HView → List Top → HRun
  | 0, nh, na, _, vs, _ => ⟨vs, none, nh, na⟩
  | g + 1, nh, na, s, vs, p =>
    let (ops, rest) := splitSeg p
    match runSegment fuel nh na ops s with
    | none => ⟨vs, none, nh, na⟩
    | some (s1, nh1, na1) =>
      match rest with
      | none => ⟨vs, some s1, nh1, na1⟩
      | some r =>
        hrunProg fuel g nh1 na1 (clearAll s1 (segMHandles nh ops)) (vs ++ [s1.view nh1 na1]) r

def HSt.init (outs : List Int) : HSt :=
  { arrs := fun _ => none, hregs := fun _ => none, trace := [], outcomes := outs }

def hrun (fuel : Nat) (outs : List Int) (p : List Top) : HRun :=
  hrunProg fuel (p.length + 1) 0 0 (HSt.init outs) [] p

end NQ.Sdk
