/-
M8 — exact arithmetic in the ring of cyclotomic integers ℤ[ζ₈] = ℤ[x]/(x⁴ + 1).

An element `⟨a, b, c, d⟩` denotes `a + b·ζ + c·ζ² + d·ζ³` with `ζ = e^{iπ/4}`
(so `ζ² = i`, `ζ⁴ = −1`, `√2 = ζ − ζ³`).  Equality is decidable, every operation is
a handful of `Int` operations, hence gate identities can be decided by the kernel
(`decide +kernel`) with no floating point anywhere.

Core Lean only (the model driver links this file).

Trusted mathematics (not re-proved): `x⁴ + 1` is the minimal polynomial of `e^{iπ/4}`,
so `ℤ[x]/(x⁴+1) → ℂ, x ↦ e^{iπ/4}` is an injective ring homomorphism; an identity
decided here is an identity of the complex matrices, and the ring has no zero divisors.
-/
namespace NQ

/-- `a + b·ζ + c·ζ² + d·ζ³`, ζ = e^{iπ/4} -/
structure Cyc where
  a : Int
  b : Int
  c : Int
  d : Int
  deriving DecidableEq, Repr, Inhabited

namespace Cyc

def zero : Cyc := ⟨0, 0, 0, 0⟩
def one : Cyc := ⟨1, 0, 0, 0⟩
def two : Cyc := ⟨2, 0, 0, 0⟩
/-- ζ = e^{iπ/4} -/
def zeta : Cyc := ⟨0, 1, 0, 0⟩
/-- the imaginary unit i = ζ² -/
def I : Cyc := ⟨0, 0, 1, 0⟩
/-- √2 = ζ + ζ⁻¹ = ζ − ζ³ -/
def sqrt2 : Cyc := ⟨0, 1, 0, -1⟩
def ofInt (n : Int) : Cyc := ⟨n, 0, 0, 0⟩

def add (x y : Cyc) : Cyc := ⟨x.a + y.a, x.b + y.b, x.c + y.c, x.d + y.d⟩
def neg (x : Cyc) : Cyc := ⟨-x.a, -x.b, -x.c, -x.d⟩
def sub (x y : Cyc) : Cyc := ⟨x.a - y.a, x.b - y.b, x.c - y.c, x.d - y.d⟩

/-- product modulo x⁴ = −1 -/
def mul (x y : Cyc) : Cyc :=
  ⟨x.a * y.a - x.b * y.d - x.c * y.c - x.d * y.b,
   x.a * y.b + x.b * y.a - x.c * y.d - x.d * y.c,
   x.a * y.c + x.b * y.b + x.c * y.a - x.d * y.d,
   x.a * y.d + x.b * y.c + x.c * y.b + x.d * y.a⟩

instance : Add Cyc := ⟨add⟩
instance : Neg Cyc := ⟨neg⟩
instance : Sub Cyc := ⟨sub⟩
instance : Mul Cyc := ⟨mul⟩
instance : OfNat Cyc 0 := ⟨zero⟩
instance : OfNat Cyc 1 := ⟨one⟩
instance : OfNat Cyc 2 := ⟨two⟩

def isZero (x : Cyc) : Bool := x.a == 0 && x.b == 0 && x.c == 0 && x.d == 0

/-- multiplication by ζ (a rotation of the coefficient vector with one sign change) -/
def mulZeta (x : Cyc) : Cyc := ⟨-x.d, x.a, x.b, x.c⟩

/-- ζ^k -/
def zpow : Nat → Cyc
  | 0 => one
  | k + 1 => mulZeta (zpow k)

/-- complex conjugate: ζ ↦ ζ⁻¹ = −ζ³ -/
def conj (x : Cyc) : Cyc := ⟨x.a, -x.d, -x.c, -x.b⟩

/-- scalar multiple by an integer -/
def smul (n : Int) (x : Cyc) : Cyc := ⟨n * x.a, n * x.b, n * x.c, n * x.d⟩

theorem isZero_iff (x : Cyc) : x.isZero = true ↔ x = zero := by
  cases x; simp [isZero, zero, and_assoc]

end Cyc

/-- The operations a scalar type must offer so that the gate matrices of `Model/Gates`
can be written once and instantiated both exactly (`Cyc`) and, in the driver, with
complex doubles (correspondence with numpy). -/
class GScalar (α : Type) where
  zero : α
  one : α
  imag : α
  add : α → α → α
  sub : α → α → α
  mul : α → α → α

instance : GScalar Cyc := ⟨Cyc.zero, Cyc.one, Cyc.I, Cyc.add, Cyc.sub, Cyc.mul⟩

end NQ
