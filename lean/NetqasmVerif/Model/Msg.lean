/-
Model M5: host <-> controller messages (`netqasm/backend/messages.py`).

A ctypes structure is modelled by its leaf fields, each a bit range `[start, start+width)`
in the little-endian bit numbering of the whole buffer (byte `k`, bit `b` = global bit
`8k+b`): a `c_uint32` at byte offset 4 is `(32, 32, unsigned)`, the 4-bit
`register_index` bit-field of the `Register` at byte 1 is `(10, 4, unsigned)`.
Padding bytes (the structs are *not* packed: `_pack = 1` is not `_pack_`) are simply
bits no field covers; ctypes zero-initialises them and ignores them when reading.
Core Lean only.
-/
namespace NQ.Msg

structure SField where
  name : String
  start : Nat
  width : Nat
  signed : Bool
  deriving DecidableEq, Repr, Inhabited

structure SLayout where
  cls : String
  size : Nat            -- `ctypes.sizeof`, bytes
  fields : List SField  -- leaf fields in increasing bit position
  deriving DecidableEq, Repr, Inhabited

/-- what ctypes stores for Python integer `v` in a field of `width` bits -/
def encVal (f : SField) (v : Int) : Nat := (v % ((2 ^ f.width : Nat) : Int)).toNat

/-- what ctypes returns for the stored bits `u` -/
def decVal (f : SField) (u : Nat) : Int :=
  if f.signed && decide (2 ^ (f.width - 1) ≤ u) then (u : Int) - ((2 ^ f.width : Nat) : Int)
  else (u : Int)

/-- `v` is within the declared width of `f` -/
def inWidth (f : SField) (v : Int) : Bool :=
  if f.signed then decide (-((2 ^ (f.width - 1) : Nat) : Int) ≤ v) && decide (v < ((2 ^ (f.width - 1) : Nat) : Int))
  else decide (0 ≤ v) && decide (v < ((2 ^ f.width : Nat) : Int))

def allInWidth : List SField → List Int → Bool
  | [], [] => true
  | f :: fs, v :: vs => inWidth f v && allInWidth fs vs
  | _, _ => false

/-- the whole buffer as one little-endian number -/
def packNat : List SField → List Int → Nat
  | f :: fs, v :: vs => encVal f v * 2 ^ f.start + packNat fs vs
  | _, _ => 0

def toBytes (n : Nat) : Nat → List Nat
  | 0 => []
  | k + 1 => n % 256 :: toBytes (n / 256) k

def ofBytes : List Nat → Nat
  | [] => 0
  | b :: bs => b + 256 * ofBytes bs

/-- `bytes(struct)` -/
def packStruct (L : SLayout) (vs : List Int) : List Nat := toBytes (packNat L.fields vs) L.size

def readFields (fs : List SField) (n : Nat) : List Int :=
  fs.map fun f => decVal f (n / 2 ^ f.start % 2 ^ f.width)

/-- `cls.from_buffer_copy(raw)`: needs at least `sizeof` bytes, ignores the rest.
`none` = ValueError (buffer too small). -/
def unpackStruct (L : SLayout) (bs : List Nat) : Option (List Int) :=
  if bs.length < L.size then none
  else some (readFields L.fields (ofBytes (bs.take L.size)))

/-- fields in increasing, non-overlapping bit ranges starting at or after `lo`;
returns the end of the last field -/
def sortedFrom : Nat → List SField → Option Nat
  | lo, [] => some lo
  | lo, f :: fs => if lo ≤ f.start ∧ 0 < f.width then sortedFrom (f.start + f.width) fs else none

/-- fields disjoint (sorted, non-overlapping) and inside the struct size -/
def WFStruct (L : SLayout) : Bool :=
  match sortedFrom 0 L.fields with
  | some e => decide (e ≤ 8 * L.size)
  | none => false

/-! ### Messages -/

/-- a fixed message layout: the struct, its type byte (`TYPE.value`), direction -/
structure MLayout where
  lay : SLayout
  ty : Nat
  deriving DecidableEq, Repr, Inhabited

/-- type byte first: the first leaf field is the 8-bit unsigned `type` at bit 0 -/
def typeFirst (M : MLayout) : Bool :=
  match M.lay.fields with
  | f :: _ => f.name == "type" && f.start == 0 && f.width == 8 && !f.signed && decide (M.ty < 256)
  | [] => false

def WFLayout (M : MLayout) : Bool := WFStruct M.lay && typeFirst M

inductive Msg
  /-- a ctypes message: class, leaf values in layout order (the first is `type`) -/
  | fixed (cls : String) (vals : List Int)
  /-- `SubroutineMessage`: the serialized subroutine -/
  | subroutine (bytes : List Nat)
  /-- `ReturnArrayMessage`: address and values, `none` = undefined entry -/
  | retArr (addr : Int) (vals : List (Option Int))
  deriving DecidableEq, Repr, Inhabited

/-- everything the translator reads from `messages.py` / `encoding.py` -/
structure Tables where
  layouts : List MLayout
  hostDispatch : List (Nat × String)      -- `MessageType` value ↦ class of `MESSAGE_CLASSES`
  returnDispatch : List (Nat × String)    -- `ReturnMessageType` value ↦ class
  subroutineCls : String
  subroutineTy : Nat
  retArrCls : String
  retArrTy : Nat
  retArrHeader : SLayout                  -- leaf fields: address, length
  optionalInt : SLayout                   -- leaf fields: type, value
  nullTag : Nat
  intTag : Nat
  deriving Repr

def lookup (d : List (Nat × String)) (t : Nat) : Option String :=
  match d with
  | [] => none
  | (k, c) :: r => if k == t then some c else lookup r t

def layoutOf (G : Tables) (cls : String) : Option MLayout := G.layouts.find? (fun m => m.lay.cls == cls)

def packOpt (G : Tables) : Option Int → List Nat
  | none => packStruct G.optionalInt [(G.nullTag : Int), 0]
  | some v => packStruct G.optionalInt [(G.intTag : Int), v]

def packOpts (G : Tables) : List (Option Int) → List Nat
  | [] => []
  | v :: vs => packOpt G v ++ packOpts G vs

/-- `bytes(m)`; `none` = unknown class -/
def serialize (G : Tables) : Msg → Option (List Nat)
  | .fixed cls vals =>
    match layoutOf G cls with
    | some M => some (packStruct M.lay vals)
    | none => none
  | .subroutine bs => some (G.subroutineTy :: bs)
  | .retArr a vs =>
    some (G.retArrTy :: (packStruct G.retArrHeader [a, (vs.length : Int)] ++ packOpts G vs))

inductive Err | value | type_ deriving DecidableEq, Repr

/-- `OptionalInt.value` (the property, after the fix of F18) -/
def optValue (G : Tables) (tag : Int) (v : Int) : Except Err (Option Int) :=
  if tag == (G.nullTag : Int) then .ok none
  else if tag == (G.intTag : Int) then .ok (some v)
  else .error .type_

/-- `list(v.value for v in (OptionalInt * n).from_buffer_copy(raw))`; the buffer length
was checked by the caller -/
def unpackOpts (G : Tables) : Nat → List Nat → Except Err (List (Option Int))
  | 0, _ => .ok []
  | n + 1, bs =>
    match unpackStruct G.optionalInt bs with
    | some [tag, v] =>
      match optValue G tag v with
      | .ok x =>
        match unpackOpts G n (bs.drop G.optionalInt.size) with
        | .ok xs => .ok (x :: xs)
        | .error e => .error e
      | .error e => .error e
    | _ => .error .value

def deserializeRetArr (G : Tables) (raw : List Nat) : Except Err Msg :=
  match unpackStruct G.retArrHeader raw with
  | some [a, len] =>
    if len < 0 then .error .value                      -- `OptionalInt * negative`
    else
      let body := raw.drop G.retArrHeader.size
      if body.length < len.toNat * G.optionalInt.size then .error .value   -- buffer too small
      else match unpackOpts G len.toNat body with
        | .ok vs => .ok (.retArr a vs)
        | .error e => .error e
  | _ => .error .value

def deserializeWith (G : Tables) (d : List (Nat × String)) (raw : List Nat) : Except Err Msg :=
  match raw with
  | [] => .error .value                                  -- from_buffer_copy(b"")
  | t :: rest =>
    match lookup d t with
    | none => .error .value                              -- `MessageType(t)` raises ValueError
    | some cls =>
      if cls == G.subroutineCls then .ok (.subroutine rest)
      else if cls == G.retArrCls then deserializeRetArr G rest
      else match layoutOf G cls with
        | none => .error .value
        | some M =>
          match unpackStruct M.lay raw with
          | some vals => .ok (.fixed cls vals)
          | none => .error .value

/-- `deserialize_host_msg` -/
def deserializeHost (G : Tables) (raw : List Nat) : Except Err Msg := deserializeWith G G.hostDispatch raw
/-- `deserialize_return_msg` -/
def deserializeReturn (G : Tables) (raw : List Nat) : Except Err Msg := deserializeWith G G.returnDispatch raw

/-- dispatch is injective and consistent with the `TYPE` of each class -/
def dispatchOk (G : Tables) (d : List (Nat × String)) : Bool :=
  d.all (fun (t, cls) =>
    lookup d t == some cls &&
    (if cls == G.subroutineCls then t == G.subroutineTy
     else if cls == G.retArrCls then t == G.retArrTy
     else match layoutOf G cls with
       | some M => M.ty == t
       | none => false))
  && (d.map (·.2)).Nodup

/-- tags fit the tag field, 0 fits the value field (what `OptionalInt(None)` stores) -/
def optShapeOk (G : Tables) : Bool :=
  match G.optionalInt.fields with
  | [t, v] => inWidth t (G.nullTag : Int) && inWidth t (G.intTag : Int) && inWidth v 0
  | _ => false

/-- everything the round-trip theorems need from the generated tables; decided by the
kernel on the data generated from /repo -/
def WFTables (G : Tables) : Bool :=
  G.layouts.all WFLayout
  && G.layouts.all (fun M => layoutOf G M.lay.cls == some M)
  && G.layouts.all (fun M => M.lay.cls != G.subroutineCls && M.lay.cls != G.retArrCls)
  && WFStruct G.retArrHeader && G.retArrHeader.fields.length == 2
  && WFStruct G.optionalInt && optShapeOk G
  && G.nullTag != G.intTag
  && G.subroutineCls != G.retArrCls
  && dispatchOk G G.hostDispatch && dispatchOk G G.returnDispatch
  && lookup G.hostDispatch G.subroutineTy == some G.subroutineCls
  && lookup G.returnDispatch G.retArrTy == some G.retArrCls
  && decide (G.subroutineTy < 256) && decide (G.retArrTy < 256)

/-! ### Histories: a message object that is filled in / modified step by step

The real message objects are mutable (attribute assignment on every message, in-place list
edits on the values of a `ReturnArrayMessage`) and may be serialised (`bytes(m)`, `len(m)`)
at any moment.  In the model a message *is* its current field values: an update maps a
message to a message, observing it (`bytes`/`len`) changes nothing, and `serialize` is a
function of the current value only — there is no hidden state such as a cached packed form. -/

inductive Upd
  /-- `bytes(m)` / `len(m)` -/
  | observe
  /-- attribute assignment of leaf field `k` of a ctypes message -/
  | setLeaf (k : Nat) (v : Int)
  /-- `m.subroutine = b` -/
  | setBytes (b : List Nat)
  /-- `m.address = a` -/
  | setAddr (a : Int)
  /-- `m.values = vs` (the list is replaced) -/
  | setValues (vs : List (Option Int))
  /-- `m.values[i] = v` (in place) -/
  | setItem (i : Nat) (v : Option Int)
  /-- `m.values.append(v)` -/
  | append (v : Option Int)
  /-- `m.values.pop()` -/
  | pop
  /-- `m.values.insert(i, v)` -/
  | insert (i : Nat) (v : Option Int)
  /-- `del m.values[i]` -/
  | delete (i : Nat)
  deriving DecidableEq, Repr, Inhabited

/-- updates that do not apply to the kind of message leave it unchanged -/
def applyUpd : Msg → Upd → Msg
  | m, .observe => m
  | .fixed cls vals, .setLeaf k v => .fixed cls (vals.set k v)
  | .subroutine _, .setBytes b => .subroutine b
  | .retArr _ vs, .setAddr a => .retArr a vs
  | .retArr a _, .setValues vs => .retArr a vs
  | .retArr a vs, .setItem i v => .retArr a (vs.set i v)
  | .retArr a vs, .append v => .retArr a (vs ++ [v])
  | .retArr a vs, .pop => .retArr a vs.dropLast
  | .retArr a vs, .insert i v => .retArr a (vs.take i ++ v :: vs.drop i)
  | .retArr a vs, .delete i => .retArr a (vs.eraseIdx i)
  | m, _ => m

def applyUpds (m : Msg) (us : List Upd) : Msg := us.foldl applyUpd m

end NQ.Msg
