/-
Model M4 (part 1): the controller's EPR request/response bookkeeping
(`netqasm/backend/executor.py`: `_do_create_epr`, `_do_recv_epr`, `_handle_epr_response`,
`_handle_pending_epr_responses`, `_extract_epr_info`, `_handle_last_epr_pair`, `_store_ent_info`,
`_handle_epr_ok_k_response`, `_handle_epr_ok_m_response`, `_instr_wait_*`, `_allocate_physical_qubit`,
`_free_physical_qubit`).  Core Lean only.  Self-contained: own small state (arrays, unit modules,
live subroutines); registers are not modelled (the harness resolves operands statically).

Representation choices (each an isomorphism of what the code keeps):
* `_epr_create_requests` / `_epr_recv_requests` (two `defaultdict(list)` keyed by
  `(remote_node_id, purpose_id)`) are ONE association list keyed by `(remote, purpose, creator?)`.
* a raising Python call is the result `none` (`Option State`) / `.err`; the state after an exception is
  not modelled (the harness stops a schedule there).
* ghost/history variables (`nextReq`, `nextResp`, `issued`, `delivered`, `log`) are written, never read,
  by the transitions.
-/
namespace NQ.Epr

/-- response kinds: keep, measure, anything else (`OK_R`: the handler raises; `ERR`: raises) -/
inductive Ty | K | M | other
  deriving DecidableEq, Repr, Inhabited

/-- key of a request queue: `(remote_node_id, purpose_id)` + which of the two dicts -/
structure Key where
  remote : Int
  purpose : Int
  creator : Bool
  deriving DecidableEq, Repr, Inhabited

/-- `EprCmdData` (+ ghost `id`, `key`) -/
structure Req where
  id : Nat
  key : Key
  sub : Nat
  resAddr : Int
  qAddr : Option Int
  tot : Int
  left : Int
  deriving DecidableEq, Repr, Inhabited

/-- a link-layer OK response. `fields` = the tuple with enums replaced by their values, i.e. what
`_store_ent_info` writes. (+ ghost `id` = delivery index) -/
structure Resp where
  id : Nat
  ty : Ty
  remote : Int
  purpose : Int
  dir : Int
  phys : Int
  fields : List Int
  deriving DecidableEq, Repr, Inhabited

abbrev Arr := List (Option Int)

structure AppMem where
  arrays : List (Int × Arr)
  unit : List (Option Int)
  deriving DecidableEq, Repr, Inhabited

/-- history record of one consumption -/
structure Event where
  resp : Resp
  key : Key
  req : Nat          -- id of the consuming request
  k : Nat            -- pair index used (`tot_pairs - pairs_left` at that moment)
  app : Nat
  resAddr : Int
  vq : Option Nat    -- unit-module position mapped (keep responses)
  prev : Option Int  -- what that position held just before (keep responses); `none` = free
  deriving DecidableEq, Repr, Inhabited

structure State where
  nodeId : Int
  subs : List (Nat × Nat)              -- live subroutine id ↦ app id (`_subroutines`)
  apps : List (Nat × AppMem)           -- `_app_arrays`, `_qubit_unit_modules`
  used : List Int                      -- `_used_physical_qubit_addresses`
  queues : List (Key × List Req)
  pending : List Resp                  -- `_pending_epr_responses`
  nextReq : Nat
  nextResp : Nat
  issued : List Req
  delivered : List Resp
  log : List Event
  deriving Repr, Inhabited

def init (nodeId : Int) : State :=
  { nodeId, subs := [], apps := [], used := [], queues := [], pending := [],
    nextReq := 0, nextResp := 0, issued := [], delivered := [], log := [] }

/-! ### association lists -/

def getQ (qs : List (Key × List Req)) (κ : Key) : List Req :=
  match qs with
  | [] => []
  | (κ', q) :: rest => if κ' = κ then q else getQ rest κ

def setQ (qs : List (Key × List Req)) (κ : Key) (q : List Req) : List (Key × List Req) :=
  match qs with
  | [] => [(κ, q)]
  | (κ', q') :: rest => if κ' = κ then (κ, q) :: rest else (κ', q') :: setQ rest κ q

def getApp (apps : List (Nat × AppMem)) (a : Nat) : Option AppMem :=
  match apps with
  | [] => none
  | (a', m) :: rest => if a' = a then some m else getApp rest a

def setApp (apps : List (Nat × AppMem)) (a : Nat) (m : AppMem) : List (Nat × AppMem) :=
  match apps with
  | [] => [(a, m)]
  | (a', m') :: rest => if a' = a then (a, m) :: rest else (a', m') :: setApp rest a m

/-- `dict.pop(a)` -/
def delApp (apps : List (Nat × AppMem)) (a : Nat) : List (Nat × AppMem) :=
  match apps with
  | [] => []
  | (a', m) :: rest => if a' = a then delApp rest a else (a', m) :: delApp rest a

def getArr (arrs : List (Int × Arr)) (a : Int) : Option Arr :=
  match arrs with
  | [] => none
  | (a', v) :: rest => if a' = a then some v else getArr rest a

def setArr (arrs : List (Int × Arr)) (a : Int) (v : Arr) : List (Int × Arr) :=
  match arrs with
  | [] => [(a, v)]
  | (a', v') :: rest => if a' = a then (a, v) :: rest else (a', v') :: setArr rest a v

def getSub (subs : List (Nat × Nat)) (s : Nat) : Option Nat :=
  match subs with
  | [] => none
  | (s', a) :: rest => if s' = s then some a else getSub rest s

/-- Python list indexing `l[v]` for an integer `v` (negative indices wrap): the position, or `none`
for `IndexError` -/
def pyIdx (n : Nat) (v : Int) : Option Nat :=
  if 0 ≤ v then (if v < n then some v.toNat else none)
  else if -(n : Int) ≤ v then some ((n : Int) + v).toNat else none

/-! ### qubits -/

/-- `_get_unused_physical_qubit`: the least natural number not in `used` -/
def firstUnused (used : List Int) : Option Nat :=
  (List.range (used.length + 1)).find? (fun p => !used.contains (p : Int))

def addUsed (used : List Int) (p : Int) : List Int := if used.contains p then used else used ++ [p]

/-- `_has_virtual_address` -/
def hasVirtual (m : AppMem) (v : Int) : Bool :=
  if v < 0 ∨ v ≥ m.unit.length then false else (m.unit.getD v.toNat none).isSome

/-- `_allocate_physical_qubit` with a given physical address: position written, or `none` (raises:
outside the unit module, or already allocated) -/
def allocPos (m : AppMem) (v : Int) : Option Nat :=
  if v ≥ m.unit.length then none
  else match pyIdx m.unit.length v with
    | none => none
    | some i => if (m.unit.getD i none).isSome then none else some i

/-! ### results -/

/-- `array[k*okf : (k+1)*okf] = vals` under the assertion of `Arrays.__setitem__` that the slice and
the value have equal length -/
def storeSlice (okf : Nat) (arr : Arr) (k : Nat) (vals : List Int) : Option Arr :=
  if ((arr.drop (k * okf)).take okf).length = vals.length then
    some (arr.take (k * okf) ++ vals.map some ++ arr.drop (k * okf + okf))
  else none

/-- `get_creator_node_id` + the comparison in `_extract_epr_info` -/
def isCreator (nodeId : Int) (r : Resp) : Bool :=
  if r.dir = 1 then r.remote = nodeId else true

def keyOf (nodeId : Int) (r : Resp) : Key := ⟨r.remote, r.purpose, isCreator nodeId r⟩

inductive Try
  | err                -- an exception escapes
  | no                 -- not handleable now (`info is None` or the handler returned False)
  | yes (s : State)    -- handled; `s` still has the response in `pending`
  deriving Inhabited

/-- one iteration of the `for` loop of `_handle_pending_epr_responses` for response `r` -/
def tryHandle (okf : Nat) (s : State) (r : Resp) : Try :=
  let κ := keyOf s.nodeId r
  match getQ s.queues κ with
  | [] => .no
  | h :: rest =>
    let kI := h.tot - h.left
    if kI < 0 then .err else          -- unreachable (invariant `left ≤ tot`)
    let k := kI.toNat
    match getSub s.subs h.sub with
    | none => .err                    -- `_get_app_id` raises
    | some app =>
    match getApp s.apps app with
    | none => .err
    | some m =>
    -- handler of the response type
    let handled : Option (Option (AppMem × List Int × Option Nat × Option Int)) :=
      match r.ty with
      | .other => none
      | .M => some (some (m, s.used, none, none))
      | .K =>
        match h.qAddr with
        | none => none                -- parse_address("@None[k]") raises
        | some qa =>
        match getArr m.arrays qa with
        | none => none
        | some qarr =>
        match qarr[k]? with
        | none => none                -- IndexError
        | some none => none           -- "virtual address is None"
        | some (some v) =>
          if hasVirtual m v then some none
          else match allocPos m v with
            | none => none
            | some i => some (some ({ m with unit := m.unit.set i (some r.phys) },
                                     addUsed s.used r.phys, some i, m.unit.getD i none))
    match handled with
    | none => .err
    | some none => .no
    | some (some (m1, used1, vq, prev)) =>
      -- pairs_left -= 1 ; _handle_last_epr_pair ; _store_ent_info
      let h' := { h with left := h.left - 1 }
      let q' := if h'.left = 0 then rest else h' :: rest
      match getArr m1.arrays h.resAddr with
      | none => .err
      | some arr =>
      match storeSlice okf arr k r.fields with
      | none => .err
      | some arr' =>
        let m2 := { m1 with arrays := setArr m1.arrays h.resAddr arr' }
        .yes { s with apps := setApp s.apps app m2, used := used1, queues := setQ s.queues κ q',
                      log := s.log ++ [⟨r, κ, h.id, k, app, h.resAddr, vq, prev⟩] }

inductive Res
  | err
  | idle
  | did (s : State)
  deriving Inhabited

/-- the `for i, response in enumerate(pending)` loop: first handleable response wins and is popped -/
def scan (okf : Nat) (s : State) (pre : List Resp) : List Resp → Res
  | [] => .idle
  | r :: rest =>
    match tryHandle okf s r with
    | .err => .err
    | .no => scan okf s (pre ++ [r]) rest
    | .yes s' => .did { s' with pending := pre ++ rest }

def handleOne (okf : Nat) (s : State) : Res := scan okf s [] s.pending

/-- `_handle_pending_epr_responses` with `_wait_to_handle_epr_responses` a no-op: restart after each
success until nothing is handleable. Fuel `pending.length + 1` suffices (each success pops one). -/
def handlePendingFuel (okf : Nat) : Nat → State → Option State
  | 0, s => some s
  | n + 1, s =>
    match handleOne okf s with
    | .err => none
    | .idle => some s
    | .did s' => handlePendingFuel okf n s'

def handlePending (okf : Nat) (s : State) : Option State :=
  handlePendingFuel okf (s.pending.length + 1) s

/-! ### wait instructions -/

inductive WaitKind | all | any | single
  deriving DecidableEq, Repr, Inhabited

/-- `some true` = the instruction completes, `some false` = it calls `_do_wait`, `none` = raises.
`lo hi` are the (non-negative) slice bounds; for `single`, `lo` is the index. -/
def waitOk (s : State) (sub : Nat) (kind : WaitKind) (addr : Int) (lo hi : Nat) : Option Bool :=
  match getSub s.subs sub with
  | none => none
  | some app =>
  match getApp s.apps app with
  | none => none
  | some m =>
    match kind, getArr m.arrays addr with
    | .all, none => none
    | .all, some arr => some (((arr.drop lo).take (hi - lo)).all (·.isSome))
    | .any, none => none
    | .any, some arr => some (((arr.drop lo).take (hi - lo)).any (·.isSome))
    | .single, none => some false        -- `Arrays.__getitem__` returns None for a missing array
    | .single, some arr => match arr[lo]? with
      | none => none
      | some v => some v.isSome

/-! ### actions -/

inductive Action
  | initApp (app n : Nat)
  | startSub (sub app : Nat)
  | endSub (sub : Nat)
  | nop
  | array (sub : Nat) (addr : Int) (len : Nat)
  | store (sub : Nat) (addr : Int) (idx : Nat) (val : Option Int)
  | qalloc (sub : Nat) (v : Int)
  | qfree (sub : Nat) (v : Int)
  | create (sub : Nat) (remote purpose : Int) (isK : Bool) (number : Int) (qAddr : Option Int) (resAddr : Int)
  | recv (sub : Nat) (remote purpose : Int) (qAddr : Option Int) (resAddr : Int)
  | deliver (ty : Ty) (remote purpose dir phys : Int) (fields : List Int)
  | poll
  | wait (sub : Nat) (kind : WaitKind) (addr : Int) (lo hi : Nat)
  /-- a `create_epr` / `recv_epr` instruction during which a call into the network stack
  (`get_purpose_id`, or `put` for a create) raised: the request was never accepted by the stack.
  Issuing is atomic with the stack's acceptance: nothing is registered. -/
  | rejected (sub : Nat)
  /-- `stop_application(app)`: the unit module, arrays (and registers, shared memory) of the application
  are dropped and its mapped physical qubits un-marked. Nothing else: outstanding requests, the pending
  list and the subroutine table are NOT touched (responses parked for other applications survive). -/
  | stopApp (app : Nat)
  deriving Repr, Inhabited

/-- run `f` on the memory of the application of live subroutine `sub` -/
def withApp (s : State) (sub : Nat) (f : Nat → AppMem → Option State) : Option State :=
  match getSub s.subs sub with
  | none => none
  | some app => match getApp s.apps app with
    | none => none
    | some m => f app m

def enqueue (s : State) (κ : Key) (sub : Nat) (resAddr : Int) (qAddr : Option Int) (n : Int) : State :=
  let r : Req := ⟨s.nextReq, κ, sub, resAddr, qAddr, n, n⟩
  { s with queues := setQ s.queues κ (getQ s.queues κ ++ [r]), nextReq := s.nextReq + 1,
           issued := s.issued ++ [r] }

/-- the assertions of `_do_create_epr` for a keep request: a qubit-id array of exactly `number` entries -/
def createOk (m : AppMem) (isK : Bool) (number : Int) (qAddr : Option Int) : Bool :=
  if isK then
    match qAddr with
    | none => false
    | some qa => match getArr m.arrays qa with
      | none => false
      | some qarr => decide ((qarr.length : Int) = number)
  else true

def step (okf : Nat) (s : State) : Action → Option State
  | .initApp app n => some { s with apps := setApp s.apps app ⟨[], List.replicate n none⟩ }
  | .startSub sub app => some { s with subs := (sub, app) :: s.subs.filter (·.1 ≠ sub) }
  | .endSub sub => some { s with subs := s.subs.filter (·.1 ≠ sub) }
  | .nop => some s
  | .array sub addr len => withApp s sub fun app m =>
      some { s with apps := setApp s.apps app { m with arrays := setArr m.arrays addr (List.replicate len none) } }
  | .store sub addr idx val => withApp s sub fun app m =>
      match getArr m.arrays addr with
      | none => none
      | some arr => if idx < arr.length then
          some { s with apps := setApp s.apps app { m with arrays := setArr m.arrays addr (arr.set idx val) } }
        else none
  | .qalloc sub v => withApp s sub fun app m =>
      match allocPos m v with
      | none => none
      | some i => match firstUnused s.used with
        | none => none
        | some p => some { s with apps := setApp s.apps app { m with unit := m.unit.set i (some (p : Int)) },
                                  used := addUsed s.used p }
  | .qfree sub v => withApp s sub fun app m =>
      match pyIdx m.unit.length v with
      | none => none
      | some i => match m.unit.getD i none with
        | none => none
        | some p =>
          -- `_used_physical_qubit_addresses.remove(p)`: KeyError when `p` is not in the set
          if s.used.contains p then
            some { s with apps := setApp s.apps app { m with unit := m.unit.set i none },
                          used := s.used.filter (· ≠ p) }
          else none
  | .create sub remote purpose isK number qAddr resAddr => withApp s sub fun _ m =>
      if createOk m isK number qAddr then
        some (enqueue s ⟨remote, purpose, true⟩ sub resAddr qAddr number)
      else none
  | .recv sub remote purpose qAddr resAddr => withApp s sub fun _ m =>
      match getArr m.arrays resAddr with
      | none => none
      | some arr => some (enqueue s ⟨remote, purpose, false⟩ sub resAddr qAddr ((arr.length / okf : Nat) : Int))
  | .deliver ty remote purpose dir phys fields =>
      let r : Resp := ⟨s.nextResp, ty, remote, purpose, dir, phys, fields⟩
      handlePending okf { s with pending := s.pending ++ [r], nextResp := s.nextResp + 1,
                                 delivered := s.delivered ++ [r] }
  | .poll => handlePending okf s
  | .wait sub kind addr lo hi => match waitOk s sub kind addr lo hi with
      | none => none
      | some _ => some s
  | .rejected sub => withApp s sub fun _ _ => some s
  | .stopApp app =>
      match getApp s.apps app with
      | none => none                  -- `_qubit_unit_modules.pop(app_id)`: KeyError
      | some m =>
        let mappedQ : List Int := m.unit.filterMap id
        if mappedQ.all (fun p => s.used.contains p) then
          some { s with apps := delApp s.apps app,
                        used := s.used.filter (fun p => !mappedQ.contains p) }
        else none                     -- `set.remove`: KeyError

def run (okf : Nat) (s : State) : List Action → Option State
  | [] => some s
  | a :: as => match step okf s a with
    | none => none
    | some s' => run okf s' as

end NQ.Epr
