/-
Model M2 (text level): macro substitution (`_apply_macros`, after the F4 fix and before it) and
the tokeniser `group_by_word` / `_split_of_bracket` of `netqasm/util/string.py` and
`netqasm/lang/parsing/text.py`.  Strings are `List Char`.  Core Lean only.
-/
namespace NQ.AsmText

/-- `ALPHA_NUM + "_"` : the characters of a variable name -/
def isIdent (c : Char) : Bool := c.isAlphanum || c == '_'

/-! ### `re.sub(re.escape("$" + key) + "(?![A-Za-z0-9_])", value, body)` -/

/-- does `'$' ++ key` match at the head of `s` with no identifier character following? -/
def matchAt (key : List Char) (s : List Char) : Bool :=
  match s with
  | [] => false
  | c :: rest =>
    c == '$' && key.isPrefixOf rest &&
      (match rest.drop key.length with
       | [] => true
       | d :: _ => !isIdent d)

/-- leftmost, non-overlapping matches, scanning from the left; `skip` = characters of the current
match still to be consumed -/
def reSubAux (key val : List Char) : Nat → List Char → List Char
  | _, [] => []
  | skip + 1, _ :: rest => reSubAux key val skip rest
  | 0, c :: rest =>
    if matchAt key (c :: rest) then val ++ reSubAux key val key.length rest
    else c :: reSubAux key val 0 rest

def reSub (key val s : List Char) : List Char := reSubAux key val 0 s

/-! ### the pre-fix substitution: `body.replace("$" + key, value)` -/

def replaceAux (pat val : List Char) : Nat → List Char → List Char
  | _, [] => []
  | skip + 1, _ :: rest => replaceAux pat val skip rest
  | 0, c :: rest =>
    if pat.isPrefixOf (c :: rest) then val ++ replaceAux pat val (pat.length - 1) rest
    else c :: replaceAux pat val 0 rest

/-- `str.replace(pat, val)` for a non-empty pattern -/
def strReplace (pat val s : List Char) : List Char := replaceAux pat val 0 s

/-- `value.strip("{}")` -/
def stripBraces (v : List Char) : List Char :=
  let p := fun c => c == '{' || c == '}'
  ((v.dropWhile p).reverse.dropWhile p).reverse

def splitOn (sep : Char) : List Char → List (List Char)
  | [] => [[]]
  | c :: rest =>
    match splitOn sep rest with
    | [] => [[]]
    | w :: ws => if c = sep then [] :: w :: ws else (c :: w) :: ws

def joinWith (sep : Char) : List (List Char) → List Char
  | [] => []
  | [l] => l
  | l :: ls => l ++ sep :: joinWith sep ls

def substAll (f : List Char → List Char → List Char → List Char) (macros : List (List Char × List Char))
    (body : List Char) : List Char :=
  macros.foldl (fun b kv => f kv.1 (stripBraces kv.2) b) body

/-- `_apply_macros` (fixed code): sequential token-aware substitution -/
def applyMacros (lines : List (List Char)) (macros : List (List Char × List Char)) : List (List Char) :=
  if lines.isEmpty then []
  else splitOn '\n' (substAll reSub macros (joinWith '\n' lines))

/-- `_apply_macros` before the F4 fix: sequential `str.replace` -/
def applyMacrosOld (lines : List (List Char)) (macros : List (List Char × List Char)) : List (List Char) :=
  if lines.isEmpty then []
  else splitOn '\n' (substAll (fun k v b => strReplace ('$' :: k) v b) macros (joinWith '\n' lines))

/-! ### token-wise substitution (the specification) -/

inductive Tok
  | text (c : Char)              -- any character that does not start a macro use
  | use (name : List Char)       -- `$` followed by the maximal run of identifier characters
  deriving DecidableEq, Repr

/-- split into macro uses and other characters; `n` counts the identifier characters that belong
to the macro use just emitted -/
def tokenizeAux : Nat → List Char → List Tok
  | _, [] => []
  | skip + 1, _ :: rest => tokenizeAux skip rest
  | 0, c :: rest =>
    if c = '$' then .use (rest.takeWhile isIdent) :: tokenizeAux (rest.takeWhile isIdent).length rest
    else .text c :: tokenizeAux 0 rest

def tokenize (s : List Char) : List Tok := tokenizeAux 0 s

def lookupMacro (macros : List (List Char × List Char)) (name : List Char) : Option (List Char) :=
  match macros with
  | [] => none
  | (k, v) :: rest => if k = name then some (stripBraces v) else lookupMacro rest name

def renderTok (macros : List (List Char × List Char)) : Tok → List Char
  | .text c => [c]
  | .use name => match lookupMacro macros name with
    | some v => v
    | none => '$' :: name

/-- every macro use is replaced by the value of the macro it names; everything else is kept -/
def substTokenwise (macros : List (List Char × List Char)) (s : List Char) : List Char :=
  (tokenize s).flatMap (renderTok macros)

/-! ### `group_by_word(line, " ", brackets)` -/

def findSub (pat : List Char) : List Char → Nat → Option Nat
  | [], n => if pat.isEmpty then some n else none
  | c :: rest, n => if pat.isPrefixOf (c :: rest) then some n else findSub pat rest (n + 1)

def isSpace (c : Char) : Bool := c == ' ' || c == '\t' || c == '\n' || c == '\r' || c == '\x0b' || c == '\x0c'

def strip (s : List Char) : List Char := ((s.dropWhile isSpace).reverse.dropWhile isSpace).reverse

def groupAux (ob cb : Char) : Nat → List Char → Option (List (List Char))
  | 0, _ => none
  | fuel + 1, line =>
    if line.isEmpty then some []
    else
      let firstSep := findSub [' '] line 0
      let firstOpen := findSub [ob] line 0
      let endStr : List Char :=
        match firstOpen, firstSep with
        | some o, some s => if o < s then [cb, ' '] else [' ']
        | _, _ => [' ']
      match findSub endStr line 0 with
      | none => none
      | some e =>
        let word := line.take (e + endStr.length - 1)
        match groupAux ob cb fuel (line.drop (e + endStr.length)) with
        | none => none
        | some ws => some (word :: ws)

/-- `none` = `ValueError("… could not find a closing bracket")` -/
def groupByWord (ob cb : Char) (line : List Char) : Option (List (List Char)) :=
  let l := strip line ++ [' ']
  groupAux ob cb (l.length + 1) l

/-- `_split_of_bracket(word, brackets)`; `none` = `NetQASMSyntaxError` (no end bracket) -/
def splitOfBracket (ob cb : Char) (word : List Char) : Option (List Char × List Char) :=
  match findSub [ob] word 0 with
  | none => some (word, [])
  | some start =>
    if word.getLast? = some cb then some (word.take start, word.drop start) else none

end NQ.AsmText
