/-
Executing C09's allocation-relevant events (`Model/QubitMgr.lean`) on the executor model
(`Model/Exec.lean`): each event as the instructions the SDK emits for it, a delivery as the
environment actions `reserve; keep`.  Used by the bridge theorems (Lemmas/QubitExecBridge.lean,
Props/C09Bridge.lean) and by the cross-model driver op `qm.exec`.  Core Lean only.
-/
import NetqasmVerif.Model.QubitMgr
import NetqasmVerif.Model.Exec
namespace NQ.Bridge9
open NQ NQ.Exec

def Q0 : XReg := ⟨2, 0⟩
def Q1 : XReg := ⟨2, 1⟩

/-- what can go wrong on the executor side: a fault of `Exec`, or a delivery that is deferred
because its destination is allocated (and stays deferred: nothing else runs meanwhile) -/
inductive XFault
  | exec (f : Exec.Fault)
  | deferred
  deriving DecidableEq, Repr

/-- the allocation-fault kind of C09's model that an executor fault corresponds to -/
def kind : XFault → Option QM.Fault
  | .exec .outsideUnit => some .range
  | .exec .unitIndex => some .range
  | .exec .doubleAlloc => some .double
  | .exec .notAlloc => some .notAlloc
  | .deferred => some .blocked
  | _ => none

def stepF (a : Nat) (i : Instr) (s : State) : State × Option XFault :=
  match step false a i s 0 with
  | .ok s' _ => (s', none)
  | .fault s' f => (s', some (.exec f))

/-- `_get_position_in_unit_module(app, v)`: `none` = the qubit has a position -/
def position (s : State) (a v : Nat) : Option XFault :=
  match s.apps a with
  | none => some (.exec .noApp)
  | some ap =>
    if ap.unit.length ≤ v then some (.exec .unitIndex)
    else if (ap.unit[v]?.join).isSome then none else some (.exec .notAlloc)

def andThen (r : State × Option XFault) (f : State → State × Option XFault) : State × Option XFault :=
  match r.2 with
  | none => f r.1
  | some _ => r

/-- one allocation-relevant event on the executor -/
def execEv (a : Nat) (s : State) : QM.Ev → State × Option XFault
  | .alloc v => andThen (stepF a (.set Q0 v) s) (stepF a (.qalloc Q0))
  | .free v => andThen (stepF a (.set Q0 v) s) (stepF a (.qfree Q0))
  | .use v =>
    match position s a v with
    | some x => (s, some x)
    | none => andThen (stepF a (.set Q0 v) s) (stepF a (.q1 "h" Q0))
  | .use2 x y =>
    match position s a x with
    | some f => (s, some f)
    | none =>
      match position s a y with
      | some f => (s, some f)
      | none => andThen (andThen (stepF a (.set Q0 x) s) (stepF a (.set Q1 y))) (stepF a (.q2 "cnot" Q0 Q1))
  | .deliver v =>
    -- the link layer takes an unused physical qubit, then reports the pair
    let p := firstUnused s.used
    let s1 := reserveQ s
    match s1.apps a with
    | none => (s1, some (.exec .noApp))
    | some ap =>
      if v < ap.unit.length ∧ (ap.unit[v]?.join).isSome then (s1, some .deferred)
      else ((keepResp s1 a v p).1, (keepResp s1 a v p).2.map .exec)

def execEvs (a : Nat) : State → List QM.Ev → State × Option XFault
  | s, [] => (s, none)
  | s, e :: es =>
    match execEv a s e with
    | (s', none) => execEvs a s' es
    | r => r

/-- allocated virtual ids of application `a` (for the driver) -/
def allocated (s : State) (a : Nat) : List Nat :=
  match s.apps a with
  | none => []
  | some ap => (List.range ap.unit.length).filter (fun v => (ap.unit[v]?.join).isSome)

end NQ.Bridge9
