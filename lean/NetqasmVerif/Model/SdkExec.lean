/-
Label-level semantics (`ProtoExec`) of the proto-commands emitted by the SDK builder model:
labels are no-ops, a branch to `L` continues after `L`, literals evaluate to themselves.
Executable (core Lean only): the driver runs it against the real assembler + Executor.
-/
import NetqasmVerif.Model.Sdk
namespace NQ.Sdk

inductive Ev
  | qalloc | init | gate (g : Nat) | meas (o : Int) | qfree
  deriving DecidableEq, Repr

/-- controller state of one application + its shared memory + the quantum back end as a trace and
an outcome oracle -/
structure St where
  regs : Reg → Option Int
  arrs : Nat → Option (List (Option Int))
  shmRegs : Reg → Option Int
  shmArrs : Nat → Option (List (Option Int))
  trace : List Ev
  outcomes : List Int

def St.setReg (s : St) (r : Reg) (v : Int) : St :=
  { s with regs := fun x => if x = r then some v else s.regs x }

def St.setArr (s : St) (a : Nat) (l : List (Option Int)) : St :=
  { s with arrs := fun x => if x = a then some l else s.arrs x }

def St.emitEv (s : St) (e : Ev) : St := { s with trace := s.trace ++ [e] }

@[simp] theorem St.setReg_regs_self (s : St) (r : Reg) (v : Int) : (s.setReg r v).regs r = some v := by
  simp [St.setReg]
theorem St.setReg_regs_ne (s : St) {r x : Reg} (v : Int) (h : x ≠ r) : (s.setReg r v).regs x = s.regs x := by
  simp [St.setReg, h]
@[simp] theorem St.setReg_arrs (s : St) (r : Reg) (v : Int) : (s.setReg r v).arrs = s.arrs := rfl
@[simp] theorem St.setArr_regs (s : St) (a : Nat) (l : List (Option Int)) : (s.setArr a l).regs = s.regs := rfl
@[simp] theorem St.setArr_arrs_self (s : St) (a : Nat) (l : List (Option Int)) :
    (s.setArr a l).arrs a = some l := by simp [St.setArr]

/-- value of a register / literal operand -/
def opVal (s : St) : POp → Option Int
  | .reg r => s.regs r
  | .lit v => some v
  | _ => none

@[simp] theorem opVal_reg (s : St) (r : Reg) : opVal s (.reg r) = s.regs r := rfl
@[simp] theorem opVal_lit (s : St) (v : Int) : opVal s (.lit v) = some v := rfl

/-- (address, index) of an array-entry operand; a negative index faults here (Python wraps it) -/
def entryLoc (s : St) : POp → Option (Nat × Nat)
  | .entryL a i => some (a, i)
  | .entryR a r =>
    match s.regs r with
    | some v => if 0 ≤ v then some (a, v.toNat) else none
    | none => none
  | _ => none

/-- position of label `l` -/
def findLabel : List PCmd → Lbl → Option Nat
  | [], _ => none
  | .label l' :: rest, l => if l' = l then some 0 else (findLabel rest l).map (· + 1)
  | .instr _ _ :: rest, l => (findLabel rest l).map (· + 1)

/-- is a two-operand branch taken? -/
def brTaken2 : Mn → Int → Int → Option Bool
  | .beq, a, b => some (decide (a = b))
  | .bne, a, b => some (decide (a ≠ b))
  | .blt, a, b => some (decide (a < b))
  | .bge, a, b => some (decide (a ≥ b))
  | _, _, _ => none

def brTaken1 : Mn → Int → Option Bool
  | .bez, a => some (decide (a = 0))
  | .bnz, a => some (decide (a ≠ 0))
  | _, _ => none

def readEntry (s : St) (e : POp) : Option Int :=
  match entryLoc s e with
  | some (a, i) =>
    match s.arrs a with
    | some l => match l[i]? with
      | some (some v) => some v
      | _ => none
    | none => none
  | none => none

def writeEntry (s : St) (e : POp) (v : Int) : Option St :=
  match entryLoc s e with
  | some (a, i) =>
    match s.arrs a with
    | some l => if i < l.length then some (s.setArr a (l.set i (some v))) else none
    | none => none
  | none => none

def goto (p : List PCmd) (s : St) (l : Lbl) : Option (St × Nat) :=
  match findLabel p l with
  | some t => some (s, t + 1)
  | none => none

/-- one instruction -/
def exec (p : List PCmd) (s : St) (pc : Nat) (mn : Mn) (ops : List POp) : Option (St × Nat) :=
  match mn with
  | .set => match ops with
    | [.reg r, .lit v] => some (s.setReg r v, pc + 1)
    | _ => none
  | .load => match ops with
    | [.reg r, e] => match readEntry s e with
      | some v => some (s.setReg r v, pc + 1)
      | none => none
    | _ => none
  | .store => match ops with
    | [src, e] => match opVal s src with
      | some v => match writeEntry s e v with
        | some s' => some (s', pc + 1)
        | none => none
      | none => none
    | _ => none
  | .array => match ops with
    | [.lit n, .addr a] => if 0 ≤ n then some (s.setArr a (List.replicate n.toNat none), pc + 1) else none
    | _ => none
  | .add => match ops with
    | [.reg r, a, b] => match opVal s a, opVal s b with
      | some x, some y => some (s.setReg r (x + y), pc + 1)
      | _, _ => none
    | _ => none
  | .addm => match ops with
    | [.reg r, a, b, .lit m] => match opVal s a, opVal s b with
      | some x, some y => if m < 1 then none else some (s.setReg r ((x + y) % m), pc + 1)
      | _, _ => none
    | _ => none
  | .jmp => match ops with
    | [.lab l] => goto p s l
    | _ => none
  | .retReg => match ops with
    | [.reg r] => match s.regs r with
      | some v => some ({ s with shmRegs := fun x => if x = r then some v else s.shmRegs x }, pc + 1)
      | none => none
    | _ => none
  | .retArr => match ops with
    | [.addr a] => match s.arrs a with
      | some l => some ({ s with shmArrs := fun x => if x = a then some l else s.shmArrs x }, pc + 1)
      | none => none
    | _ => none
  | .qalloc => some (s.emitEv .qalloc, pc + 1)
  | .init => some (s.emitEv .init, pc + 1)
  | .qfree => some (s.emitEv .qfree, pc + 1)
  | .gate g => some (s.emitEv (.gate g), pc + 1)
  | .meas => match ops with
    | [.reg _, .reg m] =>
      let o := s.outcomes.headD 0
      some ({ (s.setReg m o).emitEv (.meas o) with outcomes := s.outcomes.tail }, pc + 1)
    | _ => none
  | mn => match ops with
    | [a, .lab l] => match opVal s a with
      | some x => match brTaken1 mn x with
        | some true => goto p s l
        | some false => some (s, pc + 1)
        | none => none
      | none => none
    | [a, b, .lab l] => match opVal s a, opVal s b with
      | some x, some y => match brTaken2 mn x y with
        | some true => goto p s l
        | some false => some (s, pc + 1)
        | none => none
      | _, _ => none
    | _ => none

def step (p : List PCmd) (c : St × Nat) : Option (St × Nat) :=
  match p[c.2]? with
  | none => none
  | some (.label _) => some (c.1, c.2 + 1)
  | some (.instr mn ops) => exec p c.1 c.2 mn ops

/-- fuel-bounded run (for the evaluated witnesses) -/
def runFuel (p : List PCmd) : Nat → St × Nat → St × Nat
  | 0, c => c
  | n + 1, c => match step p c with
    | some c' => runFuel p n c'
    | none => c

end NQ.Sdk
