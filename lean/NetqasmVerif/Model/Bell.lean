/-
Model M8' (C10): exact two-qubit arithmetic for the Bell-state corrections.

Self-contained, core Lean only: Gaussian integers ℤ[i] as pairs of `Int`,
vectors and matrices as lists, the Pauli matrices, rotations by multiples of
π/2 about X, Y, Z (un-normalised, entries in ℤ[i]), the four Bell vectors
(un-normalised), local application of a one-qubit operator to either half.

"Equal up to a non-zero scalar" is made explicit: every scalar that occurs
here is a unit of ℤ[i] (1, −1, i, −i) possibly times a power of two, and the
witness is part of the statement.
-/
namespace NQ.Bell

/-- a Gaussian integer `re + im·i` -/
structure GI where
  re : Int
  im : Int
  deriving DecidableEq, Repr, Inhabited

namespace GI
def zero : GI := ⟨0, 0⟩
def one : GI := ⟨1, 0⟩
def I : GI := ⟨0, 1⟩
def ofInt (k : Int) : GI := ⟨k, 0⟩
def add (a b : GI) : GI := ⟨a.re + b.re, a.im + b.im⟩
def neg (a : GI) : GI := ⟨-a.re, -a.im⟩
def mul (a b : GI) : GI := ⟨a.re * b.re - a.im * b.im, a.re * b.im + a.im * b.re⟩
def conj (a : GI) : GI := ⟨a.re, -a.im⟩
instance : Add GI := ⟨add⟩
instance : Mul GI := ⟨mul⟩
instance : Neg GI := ⟨neg⟩
instance : OfNat GI 0 := ⟨zero⟩
instance : OfNat GI 1 := ⟨one⟩
end GI

abbrev Vec := List GI
/-- a matrix as its list of rows -/
abbrev Mat := List (List GI)

def vsum (l : List GI) : GI := l.foldl (· + ·) 0
def dot (r v : List GI) : GI := vsum (List.zipWith (· * ·) r v)
def mulVec (m : Mat) (v : Vec) : Vec := m.map (fun r => dot r v)
def smulVec (c : GI) (v : Vec) : Vec := v.map (c * ·)
def smulMat (c : GI) (m : Mat) : Mat := m.map (fun r => r.map (c * ·))
def col (m : Mat) (j : Nat) : List GI := m.map (fun r => r.getD j 0)
def ncols (m : Mat) : Nat := (m.headD []).length
def matMul (a b : Mat) : Mat := a.map (fun r => (List.range (ncols b)).map (fun j => dot r (col b j)))
def transpose (m : Mat) : Mat := (List.range (ncols m)).map (col m)
def dagger (m : Mat) : Mat := (transpose m).map (fun r => r.map GI.conj)
/-- Kronecker product (first factor = most significant index) -/
def kron (a b : Mat) : Mat :=
  a.flatMap (fun ra => b.map (fun rb => ra.flatMap (fun x => rb.map (x * ·))))
def inner (v w : Vec) : GI := dot (v.map GI.conj) w

def I2 : Mat := [[1, 0], [0, 1]]
def pauliX : Mat := [[0, 1], [1, 0]]
def pauliY : Mat := [[0, -GI.I], [GI.I, 0]]
def pauliZ : Mat := [[1, 0], [0, -1]]

inductive Axis | x | y | z
  deriving DecidableEq, Repr, Inhabited

def Axis.pauli : Axis → Mat
  | .x => pauliX | .y => pauliY | .z => pauliZ
def Axis.name : Axis → String
  | .x => "x" | .y => "y" | .z => "z"

def matAdd (a b : Mat) : Mat := List.zipWith (List.zipWith (· + ·)) a b

/-- `R_a(k·π/2) = cos(kπ/4)·1 − i·sin(kπ/4)·P_a`, multiplied by √2 for odd `k`
so that all entries are Gaussian integers:
k = 0: 1;  k = 1: 1 − iP;  k = 2: −iP;  k = 3: −1 − iP  (and `k + 4` ↦ minus these). -/
def rotQuarter (a : Axis) (k : Nat) : Mat :=
  let p := a.pauli
  let miP := smulMat (-GI.I) p
  let base : Mat := match k % 4 with
    | 0 => I2
    | 1 => matAdd I2 miP
    | 2 => miP
    | _ => matAdd (smulMat (-1) I2) miP
  if (k / 4) % 2 = 0 then base else smulMat (-1) base

/-- number of quarter turns of the angle `n·π/2^d`, when it is a multiple of π/2 -/
def quarterTurns (n d : Nat) : Option Nat :=
  if (2 * n) % (2 ^ d) = 0 then some (2 * n / 2 ^ d) else none

/-- a rotation instruction `rot_a q n d` (angle `n·π/2^d`) -/
structure Gate where
  axis : Axis
  n : Nat
  d : Nat
  deriving DecidableEq, Repr, Inhabited

def Gate.mat (g : Gate) : Option Mat := (quarterTurns g.n g.d).map (rotQuarter g.axis)

/-- the operator of a gate list applied first-to-last (`[g₁, g₂]` ↦ `G₂·G₁`) -/
def gatesMat : List Gate → Option Mat
  | [] => some I2
  | g :: gs => match g.mat, gatesMat gs with
    | some m, some rest => some (matMul rest m)
    | _, _ => none

/-- un-normalised Bell vectors, index `2·a + b` for `|a b⟩` -/
inductive BellSt | phiPlus | phiMinus | psiPlus | psiMinus
  deriving DecidableEq, Repr, Inhabited

def BellSt.all : List BellSt := [.phiPlus, .phiMinus, .psiPlus, .psiMinus]

def BellSt.vec : BellSt → Vec
  | .phiPlus => [1, 0, 0, 1]
  | .phiMinus => [1, 0, 0, -1]
  | .psiPlus => [0, 1, 1, 0]
  | .psiMinus => [0, 1, -1, 0]

/-- the numbering of `qlink_compat.BellState` (filled from generated data) -/
structure Numbering where
  phiPlus : Int
  psiPlus : Int
  psiMinus : Int
  phiMinus : Int
  deriving DecidableEq, Repr

def Numbering.value (nb : Numbering) : BellSt → Int
  | .phiPlus => nb.phiPlus | .phiMinus => nb.phiMinus
  | .psiPlus => nb.psiPlus | .psiMinus => nb.psiMinus

def Numbering.ofValue (nb : Numbering) (v : Int) : Option BellSt :=
  BellSt.all.find? (fun b => nb.value b == v)

def Numbering.injective (nb : Numbering) : Bool :=
  BellSt.all.all (fun a => BellSt.all.all (fun b => a == b || nb.value a != nb.value b))

/-- apply a one-qubit operator to the first (`side = 0`) or second half of a pair -/
def applyLocal (side : Nat) (g : Mat) (v : Vec) : Vec :=
  if side = 0 then mulVec (kron g I2) v else mulVec (kron I2 g) v

def units : List GI := [1, -1, GI.I, -GI.I]

/-- `v = c·w` for a unit `c` of ℤ[i] -/
def unitMultiple (v w : Vec) : Bool := units.any (fun c => v == smulVec c w)

/-- correlation `⟨b| P⊗P |b⟩` of an un-normalised Bell vector (so ±2) -/
def correlation (b : BellSt) (p : Mat) : GI := inner b.vec (mulVec (kron p p) b.vec)

/-- parity bit of the two outcomes when both halves of `b` are measured in the
eigenbasis of the Pauli `p`: 0 = equal outcomes, 1 = opposite; `none` if the
correlation is not ±⟨b|b⟩ (never the case for Bell vectors and Paulis). -/
def parityBit (b : BellSt) (p : Mat) : Option Nat :=
  let c := correlation b p
  let nrm := inner b.vec b.vec
  if c == nrm then some 0 else if c == -nrm then some 1 else none

end NQ.Bell
