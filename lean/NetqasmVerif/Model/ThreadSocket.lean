/-
Model of the socket layer on top of the hub (C18):
`netqasm/sdk/classical_communication/thread_socket/socket.py` (`ThreadSocket`) and
`…/broadcast_channel.py` (`BroadcastChannelBySockets` / `ThreadBroadcastChannel`).

Every socket-level call is a short program of hub operations (`compile`) plus a purely local view of the
hub-level outcome (`view`):

  send / send_silent(str)                 connected check; `_SocketHub.send(self, msg)`
  send_structured(StructuredMessage(h,p)) raw = json.dumps({"header": h, "payload": p}); connected check;
                                          `_SocketHub.send(self, raw)`           -- the wire carries a JSON string
  recv / recv_silent(block)               `_SocketHub.recv`; the string is returned as it is
  recv_structured(block)                  `_SocketHub.recv`; `json.loads(raw)` -> StructuredMessage(header, payload)
                                          (a string that is not such a JSON object raises AFTER it was popped)
  wait()                                  spin on `connected`
  ThreadSocket(...) / __del__             `_SocketHub.connect` / `_SocketHub.disconnect`
  BroadcastChannel.send(msg)              `socket.send(msg)` for every remote in turn (first ConnectionError aborts)
  BroadcastChannel.recv(block=True)       poll `socket.recv(block=False)` over the remotes, from the first one again
                                          after each round, until one returns; result (remote name, msg)
  BroadcastChannel.recv(block=False)      ONE round of `socket.recv(block=False)` over the remotes in list order;
                                          RuntimeError("No message broadcasted") only if none had a message
                                          (the code after the fix of F48; before it the loop was skipped)

Value-snapshot semantics: a send carries VALUES — `json.dumps` is evaluated when `send_structured` is called and
yields an immutable string; later changes of the caller's StructuredMessage object (or of what a receiver got)
cannot reach the queue (`Props/C18.send_snapshots_value`; checked on the real sockets by the harness).

Local state of the socket object: `_use_callbacks` is read by the hub at connect time only (the `cb` flag of
`connect`); `_received_messages` is never read or written after `__init__`; timeouts are not modelled
(`timeout=None`); the logging wrappers do not touch shared state.
-/
import NetqasmVerif.Model.Hub
namespace NQ.TSock
open NQ.Hub

/-- what the application hands to / gets from a socket -/
inductive SMsg
  | str (w : Wire)                        -- a Python string, whatever it contains
  | structured (h p : Nat)                -- StructuredMessage(header=h, payload=p)
  deriving DecidableEq, Repr

/-- `json.dumps(msg.__dict__)` -/
def enc : SMsg → Wire
  | .str w => w
  | .structured h p => .json h p

/-- `json.loads(raw)` + `StructuredMessage(header=…, payload=…)`; `none` = raises -/
def dec : Wire → Option (Nat × Nat)
  | .json h p => some (h, p)
  | .text _ => none

/-- socket-level operations of an endpoint -/
inductive SOp
  | connect (rn id : Nat) (cb : Bool)
  | send (rn id : Nat) (w : Wire)                      -- send / send_silent
  | sendStructured (rn id : Nat) (h p : Nat)
  | recv (rn id : Nat) (block : Bool)                  -- recv / recv_silent
  | recvStructured (rn id : Nat) (block : Bool)
  | wait (rn id : Nat)
  | disconnect (rn id : Nat)
  | bsend (r : Nat) (rs : List Nat) (id : Nat) (w : Wire)   -- broadcast channel with remotes r :: rs
  | brecv (r : Nat) (rs : List Nat) (id : Nat) (block : Bool)
  deriving DecidableEq, Repr

def modeOf (block : Bool) : RMode := if block then .blk else .nb

/-- the hub operations a socket-level call performs -/
def compile : SOp → List Op
  | .connect rn id cb => [.connect rn id cb]
  | .send rn id w => [.send rn id (enc (.str w)) []]
  | .sendStructured rn id h p => [.send rn id (enc (.structured h p)) []]
  | .recv rn id b => [.recv rn id (modeOf b) 0]
  | .recvStructured rn id b => [.recv rn id (modeOf b) 1]
  | .wait rn id => [.wait rn id]
  | .disconnect rn id => [.disconnect rn id]
  | .bsend r rs id w => [.send r id w rs]
  | .brecv r rs id true => [.recv r id (.poll (r :: rs) rs) 0]
  | .brecv r rs id false => [.recv r id (.pollOnce rs) 0]   -- one round of non-blocking receives

def compileProg (p : List SOp) : List Op := p.flatMap compile

/-- what a socket-level call returns or raises -/
inductive SRes
  | connected (k : Key)
  | sent (k : Key) (w : Wire)
  | notConnected (k : Key)                -- ConnectionError
  | gotStr (k : Key) (w : Wire)           -- recv: the string; brecv: (remote name = k.2.1, string)
  | gotStructured (k : Key) (h p : Nat)
  | decodeError (k : Key) (w : Wire)      -- recv_structured popped a string that is no JSON message
  | empty (k : Key)
  | crash (k : Key)
  | disconnected (k : Key)
  | waited (k : Key)
  deriving DecidableEq, Repr

/-- socket-level view of a hub-level outcome (tag 1 = the call was `recv_structured`) -/
def view : Res → SRes
  | .connected k => .connected k
  | .sent k m => .sent k m
  | .connErr k _ => .notConnected k
  | .got k w tag =>
      if tag = 1 then (match dec w with | some (h, p) => .gotStructured k h p | none => .decodeError k w)
      else .gotStr k w
  | .empty k => .empty k
  | .crash k => .crash k
  | .disconnected k => .disconnected k
  | .waited k => .waited k

/-- the wire a socket-level receive result stands for -/
def wireOfView : SRes → Option Wire
  | .gotStr _ w => some w
  | .gotStructured _ h p => some (.json h p)
  | .decodeError _ w => some w
  | _ => none

/-- what the receive calls on key `k` have returned, in program order, as wires -/
def recvWires (k : Key) (rs : List Res) : List Wire :=
  rs.filterMap fun r => match r with
    | .got k' w tag => if k' = k then wireOfView (view (.got k' w tag)) else none
    | _ => none

end NQ.TSock
