/-
Model for C06: template operands, their substitution (`Subroutine.instantiate`), the
constant-replacement pass of the assembler on top-level operands, and the connection/builder
BOOKKEEPING (`_pending_commands`, `_arrays_to_return`, `_registers_to_return`,
`_used_array_addresses`, `_used_meas_registers`, `Builder._reset`) under
`flush()` / `compile(); instantiate(σ); commit_subroutine()`.

`compile()` is modelled as coded after the `fix:` commit for F7 (it calls `_reset()`);
`compileOld` is the code before the fix, kept for the witness.  Core Lean only.
-/
import NetqasmVerif.Model.Basic
namespace NQ.Tpl

/-! ### instructions with template operands -/

/-- operand of an assembled instruction that may still be a `Template` -/
inductive TOperand
  | op (o : Operand)
  | tmpl (name : String)
  deriving Repr, DecidableEq

structure TInstr where
  cls : String
  ops : List TOperand
  deriving Repr, DecidableEq

/-- `arguments[op.name]` then `from_operands` (an `int` becomes an `Immediate`) -/
def instOp (σ : String → Int) : TOperand → Operand
  | .op o => o
  | .tmpl n => .imm (σ n)

/-- `Subroutine.instantiate(app_id, arguments)` -/
def instantiate (σ : String → Int) (is : List TInstr) : List Instr :=
  is.map (fun i => ⟨i.cls, i.ops.map (instOp σ)⟩)

/-- an instruction written directly with concrete values -/
def embed (i : Instr) : TInstr := ⟨i.cls, i.ops.map .op⟩

/-! ### proto commands (what the builder collects), rendered operands -/

inductive POp
  | int (v : Int)          -- a Python int
  | tmpl (n : String)      -- `Template(n)`
  | txt (s : String)       -- any other operand (register, address, entry, slice, label), rendered
  deriving Repr, DecidableEq

structure PCmd where
  name : String            -- `GenericInstr` name
  ops : List POp
  deriving Repr, DecidableEq

def substOp (σ : String → Int) : POp → POp
  | .tmpl n => .int (σ n)
  | o => o

def substCmd (σ : String → Int) (c : PCmd) : PCmd := ⟨c.name, c.ops.map (substOp σ)⟩

/-- `_replace_constants` for one command, top-level operands only: an `int` at a position that is
not in the exception table is moved into the next scratch register by a preceding `set`.
`fresh` = the scratch registers still available for this command; `j` = operand index.
Returns the inserted `set`s and the rewritten operands. -/
def replOps (exc : List (String × Nat)) (name : String) : List String → Nat → List POp →
    List PCmd × List POp
  | _, _, [] => ([], [])
  | fresh, j, o :: os =>
    match o, fresh with
    | .int v, r :: fresh' =>
      if exc.contains (name, j) then
        let rest := replOps exc name (r :: fresh') (j + 1) os
        (rest.1, o :: rest.2)
      else
        let rest := replOps exc name fresh' (j + 1) os
        (⟨"SET", [.txt r, .int v]⟩ :: rest.1, .txt r :: rest.2)
    | _, _ =>
      let rest := replOps exc name fresh (j + 1) os
      (rest.1, o :: rest.2)

def replCmd (exc : List (String × Nat)) (fresh : List String) (c : PCmd) : List PCmd :=
  let r := replOps exc c.name fresh 0 c.ops
  r.1 ++ [⟨c.name, r.2⟩]

/-- every template of the command sits at a position of the exception table -/
def templatesExempt (exc : List (String × Nat)) (name : String) : Nat → List POp → Bool
  | _, [] => true
  | j, o :: os =>
    (match o with
     | .tmpl _ => exc.contains (name, j)
     | _ => true) && templatesExempt exc name (j + 1) os

/-! ### bookkeeping -/

structure Arr where
  addr : Nat
  len : Nat
  deriving Repr, DecidableEq

structure Bk where
  pending : List PCmd      -- `_pending_commands`
  arrays : List Arr        -- `_arrays_to_return`
  regs : List Nat          -- `_registers_to_return` (indices of M registers)
  used : List Nat          -- `_used_array_addresses`
  meas : List Bool         -- `_used_meas_registers`, M0..M15
  deriving Repr, DecidableEq

def Bk.init : Bk := ⟨[], [], [], [], List.replicate 16 false⟩

inductive MeasMode | array | reg
  deriving Repr, DecidableEq

/-- builder activity between two flushes -/
inductive BOp
  | cmds (cs : List PCmd)                      -- only appends commands (qubit creation, gates, …)
  | newArray (len : Nat)                       -- `alloc_array(len)`
  | meas (m : MeasMode) (cs : List PCmd)       -- `q.measure()` into a new array / into a register
  | newReg (idx : Nat) (cs : List PCmd)        -- `new_register(v)`: `set R<idx> v`, and R<idx> is returned by
                                               -- the block that creates it (it stays live afterwards)
  deriving Repr, DecidableEq

/-- `get_new_array_address` -/
def newAddr (used : List Nat) : Nat :=
  match used.getLast? with
  | some a => a + 1
  | none => 0

/-- `get_new_meas_outcome_register`: index of the first unused M register -/
def firstUnused : List Bool → Nat → Option Nat
  | [], _ => none
  | b :: bs, i => if b then firstUnused bs (i + 1) else some i

def build (b : Bk) : BOp → Bk
  | .cmds cs => { b with pending := b.pending ++ cs }
  | .newArray len =>
    let a := newAddr b.used
    { b with used := b.used ++ [a], arrays := b.arrays ++ [⟨a, len⟩] }
  | .meas .array cs =>
    -- alloc_array(1); the M register is marked used and released again (outcome goes to the array)
    let a := newAddr b.used
    { b with used := b.used ++ [a], arrays := b.arrays ++ [⟨a, 1⟩], pending := b.pending ++ cs }
  | .meas .reg cs =>
    match firstUnused b.meas 0 with
    | some i => { b with meas := b.meas.set i true, regs := b.regs ++ [i], pending := b.pending ++ cs }
    | none => b   -- "Ran out of M-registers" (raises; not generated)
  | .newReg idx cs => { b with regs := b.regs ++ [100 + idx], pending := b.pending ++ cs }

def buildAll (b : Bk) (body : List BOp) : Bk := body.foldl build b

def declCmd (a : Arr) : PCmd := ⟨"ARRAY", [.int a.len, .txt s!"@{a.addr}"]⟩
def retArrCmd (a : Arr) : PCmd := ⟨"RET_ARR", [.txt s!"@{a.addr}"]⟩
/-- registers to return: `i < 100` is `M i`, `100 + i` is `R i` (a `new_register` handle) -/
def retRegCmd (i : Nat) : PCmd := ⟨"RET_REG", [.txt (if i < 100 then s!"M{i}" else s!"R{i - 100}")]⟩

/-- `subrt_pop_pending_subroutine` (arrays without initial values, `return_arrays=True`) -/
def allCmds (b : Bk) : List PCmd :=
  b.arrays.map declCmd ++ b.pending ++ b.arrays.map retArrCmd ++ b.regs.map retRegCmd

def popSub (b : Bk) : Option (List PCmd) × Bk :=
  match allCmds b with
  | [] => (none, { b with pending := [] })
  | c :: cs => (some (c :: cs), { b with pending := [] })

/-- `Builder._reset` / `MemoryManager.reset` -/
def reset (b : Bk) : Bk := { b with arrays := [], regs := [], meas := List.replicate 16 false }

/-- `flush()`: pop, (compile, commit,) reset — nothing at all if there is nothing to send -/
def flushOp (b : Bk) : Option (List PCmd) × Bk :=
  match popSub b with
  | (none, b') => (none, b')
  | (some cs, b') => (some cs, reset b')

/-- `compile()` after the fix for F7 -/
def compileOp (b : Bk) : Option (List PCmd) × Bk :=
  match popSub b with
  | (none, b') => (none, b')
  | (some cs, b') => (some cs, reset b')

/-- `compile()` before the fix: no `_reset()` -/
def compileOld (b : Bk) : Option (List PCmd) × Bk := popSub b

inductive Term
  | flush
  | pre (σ : String → Int)     -- compile(); instantiate(σ); commit_subroutine()

structure Seg where
  body : List BOp
  term : Term

def substBOp (σ : String → Int) : BOp → BOp
  | .cmds cs => .cmds (cs.map (substCmd σ))
  | .newArray l => .newArray l
  | .meas m cs => .meas m (cs.map (substCmd σ))
  | .newReg i cs => .newReg i (cs.map (substCmd σ))

/-- the host program written with the concrete values and ordinary flushes -/
def directSeg (s : Seg) : Seg :=
  match s.term with
  | .flush => s
  | .pre σ => ⟨s.body.map (substBOp σ), .flush⟩

def endSeg (compile : Bk → Option (List PCmd) × Bk) (b : Bk) : Term → Option (List PCmd) × Bk
  | .flush => flushOp b
  | .pre σ =>
    match compile b with
    | (sub, b') => (sub.map (fun cs => cs.map (substCmd σ)), b')

/-- what is sent to the controller per segment (after instantiation) and the final bookkeeping -/
def runSegs (compile : Bk → Option (List PCmd) × Bk) : Bk → List Seg → List (Option (List PCmd)) × Bk
  | b, [] => ([], b)
  | b, s :: ss =>
    match endSeg compile (buildAll b s.body) s.term with
    | (out, b2) =>
      match runSegs compile b2 ss with
      | (rest, bf) => (out :: rest, bf)

/-! ### histories with operations between `compile()` and `commit_subroutine()` -/

/-- one event on a connection.  `compile σ` = `compile()` of the pending operations, the
subroutine being instantiated with σ before it is committed; `commit` = `commit_subroutine` of
the oldest compiled-but-uncommitted subroutine. -/
inductive HEv
  | build (op : BOp)
  | flush
  | compile (σ : String → Int)
  | commit

/-- bookkeeping, the compiled-but-uncommitted subroutines (already instantiated), and what was
sent to the controller so far -/
structure HSt where
  bk : Bk
  queue : List (List PCmd)
  sent : List (List PCmd)
  deriving Repr, DecidableEq

/-- `none` = outside the vocabulary: an ordinary flush while a compiled subroutine is still
uncommitted (the controller would see the subroutines in another order), or a commit with
nothing compiled.  `resetAtCommit` models the variant in which `_reset()` runs inside
`commit_subroutine` instead of `compile`/`commit_protosubroutine` (not the code; for a witness). -/
def stepH (resetAtCommit : Bool) (s : HSt) : HEv → Option HSt
  | .build op => some { s with bk := build s.bk op }
  | .flush =>
    if s.queue.isEmpty then
      match flushOp s.bk with
      | (none, b') => some { s with bk := b' }
      | (some cs, b') => some { s with bk := b', sent := s.sent ++ [cs] }
    else none
  | .compile σ =>
    match (if resetAtCommit then compileOld s.bk else compileOp s.bk) with
    | (none, b') => some { s with bk := b' }
    | (some cs, b') => some { s with bk := b', queue := s.queue ++ [cs.map (substCmd σ)] }
  | .commit =>
    match s.queue with
    | [] => none
    | c :: q => some { s with queue := q, sent := s.sent ++ [c],
                              bk := if resetAtCommit then reset s.bk else s.bk }

def runH (resetAtCommit : Bool) : HSt → List HEv → Option HSt
  | s, [] => some s
  | s, e :: es =>
    match stepH resetAtCommit s e with
    | some s' => runH resetAtCommit s' es
    | none => none

/-- the template values that will be filled into the operations built now: those of the next
`compile` (none if the next terminator is an ordinary flush) -/
def nextσ : List HEv → Option (String → Int)
  | [] => none
  | .build _ :: es => nextσ es
  | .commit :: es => nextσ es
  | .flush :: _ => none
  | .compile σ :: _ => some σ

def substBOp? (σ : Option (String → Int)) (op : BOp) : BOp :=
  match σ with
  | some f => substBOp f op
  | none => op

/-- the same host program written with the concrete values and ordinary flushes: every
`compile` becomes a `flush`, commits disappear -/
def directH : List HEv → List HEv
  | [] => []
  | .build op :: es => .build (substBOp? (nextσ es) op) :: directH es
  | .flush :: es => .flush :: directH es
  | .compile _ :: es => .flush :: directH es
  | .commit :: es => directH es

/-! ### re-use of one compiled template, failed instantiation -/

/-- `arguments[op.name]` with a possibly incomplete dict: `none` = KeyError -/
def instOp? (σ : String → Option Int) : TOperand → Option Operand
  | .op o => some o
  | .tmpl n => (σ n).map .imm

def instInstr? (σ : String → Option Int) (i : TInstr) : Option Instr :=
  (i.ops.mapM (instOp? σ)).map (fun ops => ⟨i.cls, ops⟩)

/-- `Subroutine.instantiate` as a function of (template, σ): the instruction list of the instance,
`none` if an argument is missing -/
def instantiate? (σ : String → Option Int) (t : List TInstr) : Option (List Instr) :=
  t.mapM (instInstr? σ)

/-- The compiled template as an OBJECT shared by all its (shallow) copies: one call of
`copy.copy(template).instantiate(σ)` yields the instance and leaves the shared instruction
objects as they are — the code builds a new list of new instructions and assigns it at the very
end, so a KeyError half-way changes nothing. -/
def instCall (t : List TInstr) (σ : String → Option Int) : Option (List Instr) × List TInstr :=
  (instantiate? σ t, t)

/-- the variant that fills the shared instruction objects IN PLACE, operand by operand, and stops
at the first missing argument (not the code; for a witness) -/
def fillOps (σ : String → Option Int) : List TOperand → List TOperand × Bool
  | [] => ([], true)
  | .op o :: os => let r := fillOps σ os; (.op o :: r.1, r.2)
  | .tmpl n :: os =>
    match σ n with
    | some v => let r := fillOps σ os; (.op (.imm v) :: r.1, r.2)
    | none => (.tmpl n :: os, false)

def fillInstrs (σ : String → Option Int) : List TInstr → List TInstr × Bool
  | [] => ([], true)
  | i :: is =>
    match fillOps σ i.ops with
    | (ops, true) => let r := fillInstrs σ is; (⟨i.cls, ops⟩ :: r.1, r.2)
    | (ops, false) => (⟨i.cls, ops⟩ :: is, false)

def instCallInPlace (t : List TInstr) (σ : String → Option Int) : Option (List Instr) × List TInstr :=
  match fillInstrs σ t with
  | (t', true) => (instantiate? (fun _ => none) t', t')
  | (t', false) => (none, t')

/-- a sequence of instantiations of one shared template -/
def instCalls (call : List TInstr → (String → Option Int) → Option (List Instr) × List TInstr) :
    List TInstr → List (String → Option Int) → List (Option (List Instr)) × List TInstr
  | t, [] => ([], t)
  | t, σ :: σs =>
    match call t σ with
    | (r, t') =>
      match instCalls call t' σs with
      | (rs, tf) => (r :: rs, tf)

/-! ### branch labels versus template names -/

/-- `_update_labels_in_operand`: a `Label` operand (rendered `.txt`) that names an assigned
branch label becomes its line number; nothing else is touched — in particular not a `Template`,
whatever its name -/
def assignLabel (L : List (String × Int)) : POp → POp
  | .txt s => match L.lookup s with
    | some v => .int v
    | none => .txt s
  | o => o

/-- the duck-typed variant that looks at any operand's `name` (not the code; for a witness) -/
def assignLabelByName (L : List (String × Int)) : POp → POp
  | .txt s => match L.lookup s with
    | some v => .int v
    | none => .txt s
  | .tmpl n => match L.lookup n with
    | some v => .int v
    | none => .tmpl n
  | o => o

end NQ.Tpl
