/-
Model M7: the single pass of `NVSubroutineTranspiler.transpile` (netqasm/sdk/transpile.py),
modelled literally. Core Lean only (the driver executable links this file).

What is DATA (regenerated from the live code by translate/nv_expand.py into Gen/NvExpand.lean):
  * `ClsInfo` — per instruction class of the vanilla flavour: the answers to the `isinstance`
    questions the pass asks, the operand positions returned by `writes_to()`, the position of `.line`;
  * `ExpRow` — the sequence emitted by each `_map_*`/`_move_*`/`_map_single_gate` case as a template
    over the operand registers `a`, `b`, the borrowed-electron register `s`, literals, copies of
    input operands and the hardware-normalised numerator;
  * the padding instruction appended when a branch targets the end.
What is ALGORITHM (hand-written here, tied by the syntactic correspondence stream):
  the loop (`regValues` updated only by `set`, `usedRegs`, `indexChanges`, counting of debug
  markers), the placement dispatch of `_handle_two_qubit_gate`, `get_unused_register`,
  the retargeting loop and the padding.
-/
import NetqasmVerif.Model.Basic
namespace NQ.Tr
open NQ

structure ClsInfo where
  cls : String
  /-- `isinstance(instr, core.SetInstruction)`; operands are then `[reg, imm]`, `writes = [0]` -/
  isSet : Bool
  /-- `isinstance(instr, core.SingleQubitInstruction) or isinstance(instr, core.RotationInstruction)` -/
  gate1 : Bool
  /-- `isinstance(instr, core.TwoQubitInstruction)` -/
  gate2 : Bool
  /-- `BranchUnaryInstruction`, `BranchBinaryInstruction` or `JmpInstruction` -/
  branch : Bool
  /-- positions (in `.operands`) of the registers returned by `writes_to()` -/
  writes : List Nat
  /-- position of `.line` in `.operands` (branch classes) -/
  lineIx : Nat
  /-- for two-qubit classes: "cnot" | "cphase" | "mov" | "other" -/
  tag : String
  deriving DecidableEq, Repr, Inhabited

/-- operand of an expansion template -/
inductive TOp
  | a | b | s
  | lit (v : Int)
  | inp (k : Nat)
  | hwNum
  deriving DecidableEq, Repr, Inhabited

structure TInstr where
  cls : String
  ops : List TOp
  deriving DecidableEq, Repr, Inhabited

structure ExpRow where
  key : String
  body : List TInstr
  deriving DecidableEq, Repr, Inhabited

structure Cfg where
  debug : Bool
  hw : Bool
  infos : List ClsInfo
  exps : List ExpRow
  pad : Instr
  deriving Repr, Inhabited

/-- exception classes the pass can raise -/
inductive Err
  | assertion | runtime | value | key | unknownClass
  deriving DecidableEq, Repr, Inhabited

deriving instance DecidableEq for Except

def infoOf (cfg : Cfg) (cls : String) : Option ClsInfo := cfg.infos.find? (fun r => r.cls == cls)
def expOf (cfg : Cfg) (key : String) : Option (List TInstr) :=
  (cfg.exps.find? (fun r => r.key == key)).map (·.body)

def debugPrefix : String := "base.DebugInstruction:"
/-- `isinstance(c, DebugInstruction)`: such an instruction serialises to zero bytes -/
def isDebug (i : Instr) : Bool := debugPrefix.isPrefixOf i.cls

/-- what the controller receives: `DebugInstruction.serialize()` is `b""` -/
def serialise (l : List Instr) : List Instr := l.filter (fun i => !isDebug i)
/-- number of serialised instructions of a command list -/
def slen (l : List Instr) : Nat := (serialise l).length

def opReg? : Operand → Option Reg
  | .reg r => some r
  | _ => none

/-- `for op in instr.operands: if isinstance(op, Register)` — top-level registers only -/
def topRegs (i : Instr) : List Reg := i.ops.filterMap opReg?

/-- the Q bank (`RegisterName.Q.value`) -/
def bankQ : Nat := 2

/-- `_register_values` update: only `set` on a Q register is recorded -/
def updRegVals (info : ClsInfo) (i : Instr) (rv : List (Reg × Int)) : List (Reg × Int) :=
  if info.isSet then
    match i.ops with
    | [.reg r, .imm v] => if r.bank == bankQ then (r, v) :: rv else rv
    | _ => rv
  else rv

/-- `get_unused_register`: lowest `Q i`, i < 16, not in `_used_registers` -/
def getUnused (used : List Reg) : Except Err Reg :=
  match (List.range 16).find? (fun (k : Nat) => !(used.contains (⟨bankQ, (k : Int)⟩ : Reg))) with
  | some k => .ok ⟨bankQ, (k : Int)⟩
  | none => .error .runtime

/-- `get_hardware_num_denom`: numerator scaled to denominator 4; `none` = ValueError -/
def hwNumOf (g : Instr) : Option Int :=
  match g.ops with
  | [_, .imm n, .imm d] => if 0 ≤ d ∧ d ≤ 4 then some (n * (2 : Int) ^ (4 - d).toNat) else none
  | _ => none

def instOp (g : Instr) (a b s : Reg) : TOp → Option Operand
  | .a => some (.reg a)
  | .b => some (.reg b)
  | .s => some (.reg s)
  | .lit v => some (.imm v)
  | .inp k => g.ops[k]?
  | .hwNum => (hwNumOf g).map Operand.imm

def instOps (g : Instr) (a b s : Reg) : List TOp → Option (List Operand)
  | [] => some []
  | t :: ts => match instOp g a b s t, instOps g a b s ts with
    | some o, some os => some (o :: os)
    | _, _ => none

def instBody (g : Instr) (a b s : Reg) : List TInstr → Option (List Instr)
  | [] => some []
  | t :: ts => match instOps g a b s t.ops, instBody g a b s ts with
    | some os, some is => some (⟨t.cls, os⟩ :: is)
    | _, _ => none

/-- instantiate the template stored under `key`; a missing row or a failing operand = ValueError -/
def useTemplate (cfg : Cfg) (key : String) (g : Instr) (a b s : Reg) : Except Err (List Instr) :=
  match expOf cfg key with
  | none => .error .value
  | some body => match instBody g a b s body with
    | some l => .ok l
    | none => .error .value

def sfx (cfg : Cfg) : String := if cfg.debug then "@debug" else ""

/-- `_handle_single_qubit_gate` = `_map_single_gate` -/
def expandGate1 (cfg : Cfg) (g : Instr) : Except Err (List Instr) :=
  match g.ops with
  | .reg a :: _ => useTemplate cfg (g.cls ++ (if cfg.hw then "@hw" else "")) g a a a
  | _ => .error .value

/-- `_handle_two_qubit_gate`, case by case -/
def expandGate2 (cfg : Cfg) (info : ClsInfo) (rv : List (Reg × Int)) (used : List Reg) (g : Instr) :
    Except Err (List Instr) :=
  match g.ops with
  | [.reg r0, .reg r1] =>
    match rv.lookup r0, rv.lookup r1 with
    | some v0, some v1 =>
      if v0 == v1 then .error .assertion
      else if info.tag == "cnot" then
        if v0 == 0 then useTemplate cfg ("cnot_ec" ++ sfx cfg) g r0 r1 r0
        else if v1 == 0 then useTemplate cfg ("cnot_ce" ++ sfx cfg) g r0 r1 r0
        else match getUnused used with
          | .ok s => useTemplate cfg ("cnot_cc" ++ sfx cfg) g r0 r1 s
          | .error e => .error e
      else if info.tag == "cphase" then
        if v0 == 0 then useTemplate cfg ("cphase_ec" ++ sfx cfg) g r0 r1 r0
        else if v1 == 0 then useTemplate cfg ("cphase_ec" ++ sfx cfg) g r1 r0 r0
        else match getUnused used with
          | .ok s => useTemplate cfg ("cphase_cc" ++ sfx cfg) g r0 r1 s
          | .error e => .error e
      else if info.tag == "mov" then
        if v0 == 0 && v1 != 0 then useTemplate cfg ("mov_ec" ++ sfx cfg) g r0 r1 r0
        else if v0 != 0 && v1 == 0 then useTemplate cfg ("mov_ce" ++ sfx cfg) g r0 r1 r0
        else .error .runtime
      else .error .value
    | _, _ =>
      -- `except KeyError: assert isinstance(instr, vanilla.MovInstruction)`
      if info.tag == "mov" then useTemplate cfg ("mov_ec" ++ sfx cfg) g r0 r1 r0
      else .error .assertion
  | _ => .error .value

/-- what one iteration appends to `new_commands` -/
def expandInstr (cfg : Cfg) (info : ClsInfo) (rv : List (Reg × Int)) (used : List Reg) (i : Instr) :
    Except Err (List Instr) :=
  if info.gate1 then expandGate1 cfg i
  else if info.gate2 then expandGate2 cfg info rv used i
  else .ok [i]

/-- loop state of `transpile` -/
structure PState where
  regVals : List (Reg × Int)
  used : List Reg
  out : List Instr
  /-- `index_changes`, as the list of its values for keys 0, 1, 2, … -/
  idx : List Nat
  /-- number of DebugInstructions in `out` (the fix of F26: they are not counted by `idx`) -/
  nDebug : Nat
  deriving Repr, Inhabited

def PState.init : PState := ⟨[], [], [], [], 0⟩

def passStep (cfg : Cfg) (st : PState) (i : Instr) : Except Err PState :=
  match infoOf cfg i.cls with
  | none => .error .unknownClass
  | some info =>
    let rv := updRegVals info i st.regVals
    let used := st.used ++ topRegs i
    match expandInstr cfg info rv used i with
    | .error e => .error e
    | .ok ex => .ok ⟨rv, used, st.out ++ ex, st.idx ++ [st.out.length - st.nDebug],
                     st.nDebug + (ex.filter isDebug).length⟩

def passLoop (cfg : Cfg) : PState → List Instr → Except Err PState
  | st, [] => .ok st
  | st, i :: rest => match passStep cfg st i with
    | .error e => .error e
    | .ok st' => passLoop cfg st' rest

/-- the `line` immediate of a branch/jump instruction -/
def lineOf (cfg : Cfg) (i : Instr) : Option Int :=
  match infoOf cfg i.cls with
  | some info => if info.branch then
      match i.ops[info.lineIx]? with
      | some (.imm v) => some v
      | _ => none
    else none
  | none => none

def setLine (cfg : Cfg) (i : Instr) (v : Int) : Instr :=
  match infoOf cfg i.cls with
  | some info => ⟨i.cls, i.ops.set info.lineIx (.imm v)⟩
  | none => i

/-- one iteration of the retargeting loop: new instruction and "target was the end" -/
def retargetOne (cfg : Cfg) (n : Nat) (idx : List Nat) (endTgt : Nat) (i : Instr) :
    Except Err (Instr × Bool) :=
  match lineOf cfg i with
  | none => .ok (i, false)
  | some v =>
    if v == (n : Int) then .ok (setLine cfg i (endTgt : Int), true)
    else if v < 0 then .error .key
    else match idx[v.toNat]? with
      | some t => .ok (setLine cfg i (t : Int), false)
      | none => .error .key

def retargetAll (cfg : Cfg) (n : Nat) (idx : List Nat) (endTgt : Nat) :
    List Instr → Except Err (List Instr × Bool)
  | [] => .ok ([], false)
  | i :: rest => match retargetOne cfg n idx endTgt i with
    | .error e => .error e
    | .ok (i', f) => match retargetAll cfg n idx endTgt rest with
      | .error e => .error e
      | .ok (rest', f') => .ok (i' :: rest', f || f')

/-- `NVSubroutineTranspiler(subroutine, debug).transpile().instructions` -/
def transpile (cfg : Cfg) (S : List Instr) : Except Err (List Instr) :=
  match passLoop cfg PState.init S with
  | .error e => .error e
  | .ok st =>
    match retargetAll cfg S.length st.idx (st.out.length - st.nDebug) st.out with
    | .error e => .error e
    | .ok (out, addNoOp) => .ok (if addNoOp then out ++ [cfg.pad] else out)

/-- the `index_changes` map of a successful pass -/
def indexChanges (cfg : Cfg) (S : List Instr) : Option (List Nat) :=
  match passLoop cfg PState.init S with
  | .error _ => none
  | .ok st => some st.idx

/-! ## `QStatic`: the program shape on which the flow-insensitive register tracking is exact -/

def regsOfOperand : Operand → List Reg
  | .reg r => [r]
  | .entry _ i => [i]
  | .slice _ s e => [s, e]
  | _ => []

/-- every register mentioned by an instruction, including inside array entries/slices -/
def regsOf (i : Instr) : List Reg := i.ops.flatMap regsOfOperand

/-- `writes_to()` -/
def writesOf (cfg : Cfg) (i : Instr) : List Reg :=
  match infoOf cfg i.cls with
  | some info => info.writes.filterMap (fun p => (i.ops[p]?).bind opReg?)
  | none => []

/-- `set r v` -/
def setOf (cfg : Cfg) (i : Instr) : Option (Reg × Int) :=
  match infoOf cfg i.cls with
  | some info => if info.isSet then
      match i.ops with
      | [.reg r, .imm v] => some (r, v)
      | _ => none
    else none
  | none => none

/-- all branch/jump targets of a subroutine -/
def targets (cfg : Cfg) (S : List Instr) : List Int := S.filterMap (lineOf cfg)

/-- `win cfg tg r pre`: `pre` is the reversed prefix before a reader at position `pre.length`.
Some `v` iff there is `j < pre.length` with `S[j] = set r v`, no instruction strictly between
writes `r`, and no position in `(j, pre.length]` is a branch target: every execution reaching the
reader came straight from that `set`. -/
def win (cfg : Cfg) (tg : List Int) (r : Reg) : List Instr → Option Int
  | [] => none
  | x :: pre =>
    if tg.contains ((pre.length + 1 : Nat) : Int) then none
    else match setOf cfg x with
      | some (r', v) => if r' = r then some v else win cfg tg r pre
      | none => if (writesOf cfg x).contains r then none else win cfg tg r pre

def isGate2 (cfg : Cfg) (i : Instr) : Bool :=
  match infoOf cfg i.cls with
  | some info => info.gate2
  | none => false

def isGate (cfg : Cfg) (i : Instr) : Bool :=
  match infoOf cfg i.cls with
  | some info => info.gate1 || info.gate2
  | none => false

def isMovTag (cfg : Cfg) (i : Instr) : Bool :=
  match infoOf cfg i.cls with
  | some info => info.tag == "mov"
  | none => false

/-- a `mov` whose source register is known (inside a window, any bank) to hold 0, the electron:
the SDK's `set R4 0; mov R4 R3` of the multi-pair EPR keep, whose target id is computed at run time -/
def movFromElectron (cfg : Cfg) (tg : List Int) (pre : List Instr) (x : Instr) : Bool :=
  isMovTag cfg x && (match x.ops with
    | .reg r0 :: _ => win cfg tg r0 pre == some 0
    | _ => false)

/-- every register `get_unused_register` hands out at a two-qubit gate of `S` (the only registers an
expansion can write) -/
def scratchRegs (cfg : Cfg) (S : List Instr) : List Reg :=
  (List.range S.length).filterMap (fun p =>
    match S[p]? with
    | some x =>
      if isGate2 cfg x then
        match getUnused ((S.take (p + 1)).flatMap topRegs) with
        | .ok r => some r
        | .error _ => none
      else none
    | none => none)

/-- the condition on the instruction at the head of `post`, given the reversed prefix `pre`; `sc` are
the registers the pass may borrow somewhere in the program. A Q register named by `x` must be inside a
window, or — if `x` is not a gate — be a register the pass never borrows (whoever wrote it: `load`,
`add`, …: both programs then hold the same value in it). -/
def qstaticAt (cfg : Cfg) (tg : List Int) (sc : List Reg) (pre : List Instr) (x : Instr) : Bool :=
  (setOf cfg x).isSome ||
    ((regsOf x).all (fun r => r.bank != bankQ || (win cfg tg r pre).isSome
        || (!isGate cfg x && !sc.contains r))
      && (!isGate2 cfg x || (topRegs x).all (fun r => r.bank == bankQ) || movFromElectron cfg tg pre x))

def qstaticFrom (cfg : Cfg) (tg : List Int) (sc : List Reg) : List Instr → List Instr → Bool
  | _, [] => true
  | pre, x :: post => qstaticAt cfg tg sc pre x && qstaticFrom cfg tg sc (x :: pre) post

/-- **QStatic**: every GATE reads its Q registers inside a window opened by a `set` of that register
(straight-line from the `set`, no intervening write, no branch target in between), and two-qubit
gates name Q registers — except a `mov` out of a register just `set` to 0 (the SDK's multi-pair
keep); any other instruction except `set` reads a Q register inside such a window or reads one the
pass never borrows. This is the shape the SDK emits (`set Q0 <id>` immediately before every use),
plus Q registers written by `load`/`add`/… as long as they do not reach a gate (that is F10). -/
def QStatic (cfg : Cfg) (S : List Instr) : Bool :=
  qstaticFrom cfg (targets cfg S) (scratchRegs cfg S) [] S

end NQ.Tr
