/-
Model M2: the assembler of `netqasm/lang/parsing/text.py`
(`assemble_subroutine` = `_make_args_operands`; `_replace_constants`; `_assign_branch_labels`;
`_build_subroutine`) and a small-step semantics of proto programs.
Core Lean only (the driver links this file).

The syntactic part mirrors the real passes (same order, same scratch-register choice, raises
where the code raises); it is tied to the code by the syntactic correspondence stream of C03.
The semantic part is parametric in the instruction set: an instruction is described by the
*roles* of its operand positions and an arbitrary function `exec` on the evaluated operands.
-/
import NetqasmVerif.Model.Basic
namespace NQ.Asm
open NQ

/-! ## Proto programs (`ICmd` / `BranchLabel`) -/

/-- value inside array brackets: `Union[Register, int]` -/
inductive RI
  | reg (r : Reg)
  | lit (v : Int)
  deriving DecidableEq, Repr, Inhabited

/-- `T_ProtoOperand`: `int`, `Label`, `Template`, `Register`, `Address`, `ArrayEntry`, `ArraySlice` -/
inductive POperand
  | reg (r : Reg)
  | lit (v : Int)
  | lab (l : String)
  | tmpl (n : String)
  | addr (a : Int)
  | entry (a : Int) (i : RI)
  | slice (a : Int) (s e : RI)
  deriving DecidableEq, Repr, Inhabited

/-- `BranchLabel(name)` or `ICmd(instruction, args, operands)`; the instruction is identified by
`GenericInstr.<X>.name.lower()`, the key later used by `Flavour.get_instr_by_name`. -/
inductive PCmd
  | label (l : String)
  | instr (mn : String) (args : List Int) (ops : List POperand)
  deriving DecidableEq, Repr, Inhabited

inductive Err | noRegister | dupLabel | unknownInstr | badOperands | notICmd
  deriving DecidableEq, Repr, Inhabited

/-! ## Pass 0: `_make_args_operands` -/

def allOps (args : List Int) (ops : List POperand) : List POperand := args.map .lit ++ ops

def makeArgsCmd : PCmd → PCmd
  | .label l => .label l
  | .instr mn args ops => .instr mn [] (allOps args ops)

def makeArgsOperands (P : List PCmd) : List PCmd := P.map makeArgsCmd

/-! ## Pass 1: `_replace_constants` -/

def riRegs : RI → List Reg
  | .reg r => [r]
  | .lit _ => []

/-- registers of one operand, *including* those inside brackets (the code after the F3 fix) -/
def opRegs : POperand → List Reg
  | .reg r => [r]
  | .entry _ i => riRegs i
  | .slice _ s e => riRegs s ++ riRegs e
  | _ => []

/-- what `get_current_registers` looked at before the F3 fix: top-level registers only -/
def opRegsTop : POperand → List Reg
  | .reg r => [r]
  | _ => []

def cmdRegsWith (f : POperand → List Reg) : PCmd → List Reg
  | .label _ => []
  | .instr _ _ ops => ops.flatMap f

/-- `get_current_registers` (a set in the code; only membership is ever used) -/
def currentRegisters (P : List PCmd) : List Reg := P.flatMap (cmdRegsWith opRegs)

/-- the pre-fix `get_current_registers` (kept for the F3 counter-example) -/
def currentRegistersTop (P : List PCmd) : List Reg := P.flatMap (cmdRegsWith opRegsTop)

def scratchReg (i : Nat) : Reg := ⟨0, (i : Int)⟩

/-- `for i in range(2**REG_INDEX_BITS): register = R_i; if str(register) not in
current_registers and register not in tmp_registers: break  else: raise` -/
def pickScratch (n : Nat) (cur tmp : List Reg) : Option Reg :=
  ((List.range n).find? (fun i => !(cur.contains (scratchReg i)) && !(tmp.contains (scratchReg i)))).map
    scratchReg

/-- `ICmd(instruction=SET, args=[], operands=[register, value])` -/
def setCmd (rv : Reg × Int) : PCmd := .instr "set" [] [.reg rv.1, .lit rv.2]

/-- Parameters of the pass that are read from the live module: the exception table and the
number of candidate scratch registers. -/
structure RcCfg where
  exc : List (String × Nat)
  nreg : Nat
  cur : List Reg

/-- a bracket value: an `int` is moved to a fresh scratch register -/
def rcRI (c : RcCfg) (x : RI) (tmp : List Reg) : Except Err (List (Reg × Int) × RI × List Reg) :=
  match x with
  | .reg r => .ok ([], .reg r, tmp)
  | .lit v =>
    match pickScratch c.nreg c.cur tmp with
    | none => .error .noRegister
    | some r => .ok ([(r, v)], .reg r, tmp ++ [r])

/-- one operand at position `j`; returns (inserted assignments, new operand, tmp_registers) -/
def rcOp (c : RcCfg) (mn : String) (j : Nat) (op : POperand) (tmp : List Reg) :
    Except Err (List (Reg × Int) × POperand × List Reg) :=
  match op with
  | .lit v =>
    if c.exc.contains (mn, j) then .ok ([], .lit v, tmp)
    else
      match pickScratch c.nreg c.cur tmp with
      | none => .error .noRegister
      | some r => .ok ([(r, v)], .reg r, tmp ++ [r])
  | .entry a i =>
    match rcRI c i tmp with
    | .error e => .error e
    | .ok (s, i', tmp') => .ok (s, .entry a i', tmp')
  | .slice a s e =>
    match rcRI c s tmp with
    | .error e => .error e
    | .ok (c1, s', tmp1) =>
      match rcRI c e tmp1 with
      | .error e => .error e
      | .ok (c2, e', tmp2) => .ok (c1 ++ c2, .slice a s' e', tmp2)
  | o => .ok ([], o, tmp)

def rcOps (c : RcCfg) (mn : String) : Nat → List POperand → List Reg →
    Except Err (List (Reg × Int) × List POperand × List Reg)
  | _, [], tmp => .ok ([], [], tmp)
  | j, op :: rest, tmp =>
    match rcOp c mn j op tmp with
    | .error e => .error e
    | .ok (s, op', tmp') =>
      match rcOps c mn (j + 1) rest tmp' with
      | .error e => .error e
      | .ok (ss, ops', tmp'') => .ok (s ++ ss, op' :: ops', tmp'')

/-- the code emitted for one command: the inserted `set`s, then the patched command -/
def rcCmd (c : RcCfg) : PCmd → Except Err (List PCmd)
  | .label l => .ok [.label l]
  | .instr mn args ops =>
    match rcOps c mn 0 ops [] with
    | .error e => .error e
    | .ok (sets, ops', _) => .ok (sets.map setCmd ++ [.instr mn args ops'])

def rcAll (c : RcCfg) : List PCmd → Except Err (List PCmd)
  | [] => .ok []
  | x :: rest =>
    match rcCmd c x with
    | .error e => .error e
    | .ok code =>
      match rcAll c rest with
      | .error e => .error e
      | .ok r => .ok (code ++ r)

/-- `_replace_constants(commands, reserved_registers)`: `current_registers |= {str(r) for r in
reserved_registers}` — registers that hold live values although the subroutine does not mention
them are never used as scratch registers (fix of F42; the default is the empty set) -/
def replaceConstants (exc : List (String × Nat)) (nreg : Nat) (P : List PCmd) (reserved : List Reg := []) :
    Except Err (List PCmd) :=
  rcAll ⟨exc, nreg, currentRegisters P ++ reserved⟩ P

/-- the pre-fix pass (scratch registers avoid top-level registers only) -/
def replaceConstantsTop (exc : List (String × Nat)) (nreg : Nat) (P : List PCmd) : Except Err (List PCmd) :=
  rcAll ⟨exc, nreg, currentRegistersTop P⟩ P

/-! ## Pass 2: `_assign_branch_labels` -/

/-- `branch_labels`: label ↦ number of real commands before it (the loop deletes each label as it
goes, so `command_number` counts the commands that remain) -/
def labelTable : List PCmd → Nat → List (String × Nat)
  | [], _ => []
  | .label l :: rest, n => (l, n) :: labelTable rest n
  | .instr _ _ _ :: rest, n => labelTable rest (n + 1)

def hasDup : List String → Bool
  | [] => false
  | x :: xs => xs.contains x || hasDup xs

def lookupLabel (tbl : List (String × Nat)) (l : String) : Option Nat :=
  match tbl with
  | [] => none
  | (k, v) :: rest => if k = l then some v else lookupLabel rest l

/-- `_update_labels_in_operand`: only top-level `Label` operands are patched -/
def patchOp (tbl : List (String × Nat)) : POperand → POperand
  | .lab l => match lookupLabel tbl l with
    | some n => .lit (n : Int)
    | none => .lab l
  | o => o

def patchCmd (tbl : List (String × Nat)) : PCmd → Option PCmd
  | .label _ => none
  | .instr mn args ops => some (.instr mn args (ops.map (patchOp tbl)))

def assignBranchLabels (P : List PCmd) : Except Err (List PCmd) :=
  let tbl := labelTable P 0
  if hasDup (tbl.map Prod.fst) then .error .dupLabel
  else .ok (P.filterMap (patchCmd tbl))

/-! ## Pass 3: `_build_subroutine` (`from_operands` of the class found by mnemonic) -/

def buildRI : RI → Option Reg
  | .reg r => some r
  | .lit _ => none

def buildOp : FieldKind → POperand → Option Operand
  | .reg, .reg r => some (.reg r)
  | .imm8, .lit v => some (.imm v)
  | .int32, .lit v => some (.imm v)
  | .addr, .addr a => some (.addr a)
  | .entry, .entry a i =>
    match buildRI i with
    | some r => some (.entry a r)
    | none => none
  | .slice, .slice a s e =>
    match buildRI s, buildRI e with
    | some s', some e' => some (.slice a s' e')
    | _, _ => none
  | _, _ => none

def buildOps : List FieldKind → List POperand → Option (List Operand)
  | [], [] => some []
  | k :: ks, o :: os =>
    match buildOp k o, buildOps ks os with
    | some x, some xs => some (x :: xs)
    | _, _ => none
  | _, _ => none

def build (T : Table) : PCmd → Except Err Instr
  | .label _ => .error .notICmd
  | .instr mn _ ops =>
    match nameMap T mn with
    | none => .error .unknownInstr
    | some row =>
      match buildOps row.shape ops with
      | none => .error .badOperands
      | some os => .ok ⟨row.cls, os⟩

def buildAll (T : Table) : List PCmd → Except Err (List Instr)
  | [] => .ok []
  | c :: rest =>
    match build T c with
    | .error e => .error e
    | .ok i =>
      match buildAll T rest with
      | .error e => .error e
      | .ok is => .ok (i :: is)

/-- the three rewriting passes, before the classes are instantiated -/
def assembleProto (exc : List (String × Nat)) (nreg : Nat) (P : List PCmd) (reserved : List Reg := []) :
    Except Err (List PCmd) :=
  match replaceConstants exc nreg (makeArgsOperands P) reserved with
  | .error e => .error e
  | .ok P1 => assignBranchLabels P1

/-- `assemble_subroutine(pre_subroutine, reserved_registers=reserved)` with all passes enabled -/
def assemble (T : Table) (exc : List (String × Nat)) (nreg : Nat) (P : List PCmd) (reserved : List Reg := []) :
    Except Err (List Instr) :=
  match assembleProto exc nreg P reserved with
  | .error e => .error e
  | .ok P2 => buildAll T P2

/-- the assembler before the F3 fix -/
def assembleProtoTop (exc : List (String × Nat)) (nreg : Nat) (P : List PCmd) : Except Err (List PCmd) :=
  match replaceConstantsTop exc nreg (makeArgsOperands P) with
  | .error e => .error e
  | .ok P1 => assignBranchLabels P1

/-! ## Semantics

One semantics for proto programs with or without labels and literals: labels are no-ops, a
literal evaluates to itself, a branch to label `L` continues after `L`, a branch to a literal
`n` continues at command `n` (what the executor does with the assembled program).
The instruction set is a parameter: `roles mn` says how each operand position is used, and
`exec mn vals mem` is an arbitrary function of the *evaluated* operands and the memory. -/

inductive Role
  | use     -- the value of a register (or a literal) is read
  | dst     -- a register that is written; neither its name nor its old value is observed
  | named   -- a register whose name and value are both observed (`ret_reg`)
  | imm     -- an immediate
  | tgt     -- a branch target
  | addr | entry | slice
  deriving DecidableEq, Repr, Inhabited

inductive Val
  | use (v : Option Int)
  | dst
  | named (r : Reg) (v : Option Int)
  | imm (v : Int)
  | tgt
  | addr (a : Int)
  | entry (a : Int) (i : Option Int)
  | slice (a : Int) (s e : Option Int)
  deriving DecidableEq, Repr, Inhabited

abbrev Regs := Reg → Option Int

def upd (ρ : Regs) (r : Reg) (v : Option Int) : Regs := fun r' => if r' = r then v else ρ r'

def evalRI (ρ : Regs) : RI → Option Int
  | .reg r => ρ r
  | .lit v => some v

def evalOp (ρ : Regs) : Role → POperand → Option Val
  | .use, .reg r => some (.use (ρ r))
  | .use, .lit v => some (.use (some v))
  | .dst, .reg _ => some .dst
  | .named, .reg r => some (.named r (ρ r))
  | .imm, .lit v => some (.imm v)
  | .tgt, .lab _ => some .tgt
  | .tgt, .lit _ => some .tgt
  | .addr, .addr a => some (.addr a)
  | .entry, .entry a i => some (.entry a (evalRI ρ i))
  | .slice, .slice a s e => some (.slice a (evalRI ρ s) (evalRI ρ e))
  | _, _ => none

def evalOps (ρ : Regs) : List Role → List POperand → Option (List Val)
  | [], [] => some []
  | r :: rs, o :: os =>
    match evalOp ρ r o, evalOps ρ rs os with
    | some v, some vs => some (v :: vs)
    | _, _ => none
  | _, _ => none

/-- the written register: the operand at the first `dst` position -/
def dstOf : List Role → List POperand → Option Reg
  | .dst :: _, .reg r :: _ => some r
  | _ :: rs, _ :: os => dstOf rs os
  | _, _ => none

/-- the operand at the first `tgt` position -/
def tgtOf : List Role → List POperand → Option POperand
  | .tgt :: _, o :: _ => some o
  | _ :: rs, _ :: os => tgtOf rs os
  | _, _ => none

/-- index of the (first) definition of label `l` -/
def labelIdx : List PCmd → String → Option Nat
  | [], _ => none
  | .label l' :: rest, l => if l' = l then some 0 else (labelIdx rest l).map (· + 1)
  | .instr _ _ _ :: rest, l => (labelIdx rest l).map (· + 1)

def jumpTarget (P : List PCmd) (rs : List Role) (ops : List POperand) : Option Nat :=
  match tgtOf rs ops with
  | some (.lab l) => (labelIdx P l).map (· + 1)
  | some (.lit v) => if 0 ≤ v then some v.toNat else none
  | _ => none

inductive Res (M : Type)
  | ok (out : Option Int) (m : M) (jump : Bool)
  | fault (k : Nat)

structure Machine (M : Type) where
  roles : String → Option (List Role)
  exec : String → List Val → M → Res M

structure State (M : Type) where
  regs : Regs
  mem : M

inductive Outcome (M : Type)
  | next (s : State M) (pc : Nat)
  | fault (k : Nat)
  | halt
  | stuck

def writeBack (ρ : Regs) (out : Option Int) (d : Option Reg) : Regs :=
  match out, d with
  | some v, some r => upd ρ r (some v)
  | _, _ => ρ

def step {M : Type} (mc : Machine M) (P : List PCmd) (s : State M) (pc : Nat) : Outcome M :=
  match P[pc]? with
  | none => .halt
  | some (.label _) => .next s (pc + 1)
  | some (.instr mn args ops0) =>
    match mc.roles mn with
    | none => .stuck
    | some rs =>
      match evalOps s.regs rs (allOps args ops0) with
      | none => .stuck
      | some vals =>
        match mc.exec mn vals s.mem with
        | .fault k => .fault k
        | .ok out m jump =>
          if jump then
            match jumpTarget P rs (allOps args ops0) with
            | some t => .next ⟨writeBack s.regs out (dstOf rs (allOps args ops0)), m⟩ t
            | none => .stuck
          else .next ⟨writeBack s.regs out (dstOf rs (allOps args ops0)), m⟩ (pc + 1)

/-- reflexive-transitive closure of `step … = next` -/
inductive Steps {M : Type} (mc : Machine M) (P : List PCmd) : State M × Nat → State M × Nat → Prop
  | refl (c : State M × Nat) : Steps mc P c c
  | step {s s' : State M} {pc pc' : Nat} {c : State M × Nat} :
      step mc P s pc = .next s' pc' → Steps mc P (s', pc') c → Steps mc P (s, pc) c

/-! ### Assembled programs: `Instr` lists are read back as label- and literal-free proto programs -/

def embedOp : Operand → POperand
  | .reg r => .reg r
  | .imm v => .lit v
  | .addr a => .addr a
  | .entry a i => .entry a (.reg i)
  | .slice a s e => .slice a (.reg s) (.reg e)

def embed (T : Table) (i : Instr) : PCmd :=
  match rowOf T i.cls with
  | some row => .instr row.mn [] (i.ops.map embedOp)
  | none => .instr "" [] (i.ops.map embedOp)

/-! ### The instruction set of the property: classical, array and allocation instructions.
`stdRoles` is the hand-written reading of the instruction reference (which positions are read,
written, immediate, branch target); `stdExec` is one concrete `exec` (the base `Executor`) over a
small memory, used for non-vacuity and by the driver — the theorems hold for every `exec`. -/

def stdRoleTable : List (String × List Role) := [
  ("set", [.dst, .imm]),
  ("qalloc", [.use]),
  ("qfree", [.use]),
  ("array", [.use, .addr]),
  ("store", [.use, .entry]),
  ("load", [.dst, .entry]),
  ("undef", [.entry]),
  ("lea", [.dst, .addr]),
  ("jmp", [.tgt]),
  ("bez", [.use, .tgt]),
  ("bnz", [.use, .tgt]),
  ("beq", [.use, .use, .tgt]),
  ("bne", [.use, .use, .tgt]),
  ("blt", [.use, .use, .tgt]),
  ("bge", [.use, .use, .tgt]),
  ("add", [.dst, .use, .use]),
  ("sub", [.dst, .use, .use]),
  ("addm", [.dst, .use, .use, .use]),
  ("subm", [.dst, .use, .use, .use]),
  ("ret_reg", [.named]),
  ("ret_arr", [.addr])]

def lookupRoles (tbl : List (String × List Role)) (mn : String) : Option (List Role) :=
  match tbl with
  | [] => none
  | (k, v) :: rest => if k = mn then some v else lookupRoles rest mn

def stdRoles (mn : String) : Option (List Role) := lookupRoles stdRoleTable mn

/-- role ↔ operand kind of the class (checked against the generated instruction table) -/
def roleFits : Role → FieldKind → Bool
  | .use, .reg => true
  | .dst, .reg => true
  | .named, .reg => true
  | .imm, .imm8 => true
  | .imm, .int32 => true
  | .tgt, .int32 => true
  | .addr, .addr => true
  | .entry, .entry => true
  | .slice, .slice => true
  | _, _ => false

def rolesFit : List Role → List FieldKind → Bool
  | [], [] => true
  | r :: rs, k :: ks => roleFits r k && rolesFit rs ks
  | _, _ => false

/-- positions that hold an immediate or a branch target -/
def immPositions : List Role → Nat → List Nat
  | [], _ => []
  | r :: rs, j => (if r = .imm ∨ r = .tgt then [j] else []) ++ immPositions rs (j + 1)

/-- decidable side condition: every immediate / branch-target position is in the exception table -/
def excCovers (tbl : List (String × List Role)) (exc : List (String × Nat)) : Bool :=
  tbl.all (fun e => (immPositions e.2 0).all (fun j => exc.contains (e.1, j)))

/-- the branch-target positions of a role table -/
def tgtPositions : List Role → Nat → List Nat
  | [], _ => []
  | r :: rs, j => (if r = .tgt then [j] else []) ++ tgtPositions rs (j + 1)

/-- memory of the concrete machine: arrays, shared memory, unit module -/
structure StdMem where
  arrays : List (Int × List (Option Int))
  shmRegs : List (Reg × Int)
  shmArrays : List (Int × List (Option Int))
  unit : List Bool
  deriving Repr, Inhabited

def getArr (m : List (Int × List (Option Int))) (a : Int) : Option (List (Option Int)) :=
  match m with
  | [] => none
  | (k, v) :: rest => if k = a then some v else getArr rest a

def setArr (m : List (Int × List (Option Int))) (a : Int) (v : List (Option Int)) :
    List (Int × List (Option Int)) :=
  (a, v) :: m.filter (fun kv => kv.1 != a)

/-- fault kinds of the concrete machine -/
def fUndef : Nat := 1
def fIndex : Nat := 2
def fNoArray : Nat := 3
def fAlloc : Nat := 4
def fModulus : Nat := 5
def fIll : Nat := 9

/-- Python list indexing: negative indices count from the end -/
def pyIdx (i : Int) (n : Nat) : Option Nat :=
  if 0 ≤ i then (if i.toNat < n then some i.toNat else none)
  else if 0 ≤ i + (n : Int) then some (i + (n : Int)).toNat else none

def stdExec (mn : String) (vals : List Val) (m : StdMem) : Res StdMem :=
  match mn, vals with
  | "set", [.dst, .imm v] => .ok (some v) m false
  | "lea", [.dst, .addr a] => .ok (some a) m false
  | "array", [.use (some n), .addr a] =>
    .ok none { m with arrays := setArr m.arrays a (List.replicate n.toNat none) } false
  | "store", [.use (some v), .entry a (some i)] =>
    match getArr m.arrays a with
    | none => .fault fNoArray
    | some arr =>
      match pyIdx i arr.length with
      | some k => .ok none { m with arrays := setArr m.arrays a (arr.set k (some v)) } false
      | none => .fault fIndex
  | "load", [.dst, .entry a (some i)] =>
    match getArr m.arrays a with
    | none => .fault fNoArray
    | some arr =>
      match pyIdx i arr.length with
      | some k =>
        match arr[k]? with
        | some (some v) => .ok (some v) m false
        | _ => .fault fUndef
      | none => .fault fIndex
  | "undef", [.entry a (some i)] =>
    match getArr m.arrays a with
    | none => .fault fNoArray
    | some arr =>
      match pyIdx i arr.length with
      | some k => .ok none { m with arrays := setArr m.arrays a (arr.set k none) } false
      | none => .fault fIndex
  | "jmp", [.tgt] => .ok none m true
  | "bez", [.use a, .tgt] => .ok none m (a == some 0)
  | "bnz", [.use a, .tgt] => .ok none m (a != some 0)
  | "beq", [.use a, .use b, .tgt] => .ok none m (a == b)
  | "bne", [.use a, .use b, .tgt] => .ok none m (a != b)
  | "blt", [.use (some a), .use (some b), .tgt] => .ok none m (decide (a < b))
  | "bge", [.use (some a), .use (some b), .tgt] => .ok none m (decide (a ≥ b))
  | "add", [.dst, .use (some a), .use (some b)] => .ok (some (a + b)) m false
  | "sub", [.dst, .use (some a), .use (some b)] => .ok (some (a - b)) m false
  | "addm", [.dst, .use (some a), .use (some b), .use (some c)] =>
    if c < 1 then .fault fModulus else .ok (some ((a + b) % c)) m false
  | "subm", [.dst, .use (some a), .use (some b), .use (some c)] =>
    if c < 1 then .fault fModulus else .ok (some ((a - b) % c)) m false
  | "qalloc", [.use (some q)] =>
    if q ≥ (m.unit.length : Int) then .fault fIndex
    else match pyIdx q m.unit.length with
      | some k => if m.unit.getD k false then .fault fAlloc else .ok none { m with unit := m.unit.set k true } false
      | none => .fault fIndex
  | "qfree", [.use (some q)] =>
    match pyIdx q m.unit.length with
    | some k => if m.unit.getD k false then .ok none { m with unit := m.unit.set k false } false else .fault fAlloc
    | none => .fault fIndex
  | "ret_reg", [.named r (some v)] => .ok none { m with shmRegs := (r, v) :: m.shmRegs.filter (fun kv => kv.1 != r) } false
  | "ret_arr", [.addr a] =>
    match getArr m.arrays a with
    | none => .fault fNoArray
    | some arr => .ok none { m with shmArrays := setArr m.shmArrays a arr } false
  | _, _ => .fault fUndef

def stdMachine : Machine StdMem := ⟨stdRoles, stdExec⟩

end NQ.Asm
