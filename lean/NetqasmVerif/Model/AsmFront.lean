/-
Model M2 (text level, front end): `parse_text_protosubroutine` of netqasm/lang/parsing/text.py —
`_split_preamble_body`, `_parse_preamble` with `_assert_valid_preamble_instructions`,
`_apply_macros` (Model/AsmText.lean), `_create_subroutine` (label lines, `instr(args)`, operands
through the operand parser of Model/Text.lean), `_parse_netqasm_version`, the app id.
Strings are `List Char`; errors are the Python exception classes.  Core Lean only.
-/
import NetqasmVerif.Model.AsmText
import NetqasmVerif.Model.Text
import NetqasmVerif.Model.Asm
namespace NQ.AsmFront
open NQ NQ.AsmText

inductive FErr
  | syntax      -- NetQASMSyntaxError
  | instr       -- NetQASMInstrError
  | value       -- ValueError
  | type_       -- TypeError
  | index       -- IndexError
  | assertion   -- AssertionError
  deriving DecidableEq, Repr, Inhabited

def FErr.name : FErr → String
  | .syntax => "NetQASMSyntaxError" | .instr => "NetQASMInstrError" | .value => "ValueError"
  | .type_ => "TypeError" | .index => "IndexError" | .assertion => "AssertionError"

/-! ### `_split_preamble_body` -/

/-- `s.split(pat)[0]`: everything before the first occurrence of `pat` -/
def takeBefore (pat : List Char) : List Char → List Char
  | [] => []
  | c :: rest => if pat.isPrefixOf (c :: rest) then [] else c :: takeBefore pat rest

/-- `line.strip()` then `_remove_comments_from_line` (the result is NOT stripped again) -/
def cleanLine (comment : List Char) (line : List Char) : List Char := takeBefore comment (strip line)

/-- one step of the loop; state = (still in the preamble?, preamble lines, body lines), reversed -/
def splitStep (pre : Char) (comment : List Char) (st : Bool × List (List Char) × List (List Char))
    (raw : List Char) : Except FErr (Bool × List (List Char) × List (List Char)) :=
  let line := cleanLine comment raw
  if line.isEmpty then .ok st
  else if line.head? = some pre then
    if st.1 then .ok (true, strip (line.dropWhile (· = pre)) :: st.2.1, st.2.2)
    else .error .syntax
  else .ok (false, st.2.1, line :: st.2.2)

def splitLoop (pre : Char) (comment : List Char) :
    List (List Char) → Bool × List (List Char) × List (List Char) →
      Except FErr (Bool × List (List Char) × List (List Char))
  | [], st => .ok st
  | l :: ls, st =>
    match splitStep pre comment st l with
    | .error e => .error e
    | .ok st' => splitLoop pre comment ls st'

/-- `_split_preamble_body(text)` -/
def splitPreambleBody (pre : Char) (comment : List Char) (text : List Char) :
    Except FErr (List (List Char) × List (List Char)) :=
  match splitLoop pre comment (Text.splitOn '\n' text) (true, [], []) with
  | .error e => .error e
  | .ok (_, p, b) => .ok (p.reverse, b.reverse)

/-! ### `_parse_preamble` -/

/-- `is_variable_name` (`none` = IndexError on the empty string) -/
def isVariableName (l : List Char) : Option Bool :=
  match l with
  | [] => none
  | _ :: _ => some (Text.isVarName l)

/-- the dictionary `instr ↦ list of operand lists`, keys in order of first appearance -/
def addEntry (k : List Char) (v : List (List Char)) :
    List (List Char × List (List (List Char))) → List (List Char × List (List (List Char)))
  | [] => [(k, [v])]
  | (k', vs) :: rest => if k' = k then (k', vs ++ [v]) :: rest else (k', vs) :: addEntry k v rest

def preambleDict : List (List Char) → List (List Char × List (List (List Char))) →
    Except FErr (List (List Char × List (List (List Char))))
  | [], d => .ok d
  | line :: ls, d =>
    match groupByWord '{' '}' line with
    | none => .error .syntax
    | some [] => .error .value          -- cannot happen: `group_by_word` returns at least one word
    | some (w :: ws) => preambleDict ls (addEntry w ws d)

/-- preamble keywords (`Symbols.PREAMBLE_*`) -/
def kwNetqasm : List Char := ['N', 'E', 'T', 'Q', 'A', 'S', 'M']
def kwAppid : List Char := ['A', 'P', 'P', 'I', 'D']
def kwDefine : List Char := ['D', 'E', 'F', 'I', 'N', 'E']

def hasDupKey : List (List Char) → Bool
  | [] => false
  | k :: ks => ks.contains k || hasDupKey ks

/-- `_assert_valid_preamble_instr_define` -/
def checkDefine : List (List (List Char)) → List (List Char) → Except FErr Unit
  | [], keys => if hasDupKey keys then .error .instr else .ok ()
  | ops :: rest, keys =>
    match ops with
    | [k, _] =>
      match isVariableName k with
      | none => .error .index
      | some false => .error .instr
      | some true => checkDefine rest (keys ++ [k])
    | _ => .error .syntax

/-- `_assert_valid_preamble_instr_netqasm` / `_appid` -/
def checkSingle (l : List (List (List Char))) : Except FErr Unit :=
  match l with
  | [ops] => if ops.length = 1 then .ok () else .error .syntax
  | _ => .error .instr

def checkDict : List (List Char × List (List (List Char))) → Except FErr Unit
  | [] => .ok ()
  | (k, v) :: rest =>
    let r : Except FErr Unit :=
      if k = kwNetqasm then checkSingle v
      else if k = kwAppid then checkSingle v
      else if k = kwDefine then checkDefine v []
      else .error .instr
    match r with
    | .error e => .error e
    | .ok _ => checkDict rest

def lookupKey (d : List (List Char × List (List (List Char)))) (k : List Char) : List (List (List Char)) :=
  match d with
  | [] => []
  | (k', v) :: rest => if k' = k then v else lookupKey rest k

/-- `_parse_preamble(preamble_lines)` -/
def parsePreamble (lines : List (List Char)) : Except FErr (List (List Char × List (List (List Char)))) :=
  match preambleDict lines [] with
  | .error e => .error e
  | .ok d =>
    match checkDict d with
    | .error e => .error e
    | .ok _ => .ok d

/-! ### `_create_subroutine` -/

def ofPVal : Text.PVal → Asm.RI
  | .int v => .lit v
  | .reg r => .reg r

def ofTok : Text.POp → Asm.POperand
  | .lit v => .lit v
  | .reg r => .reg r
  | .label s => .lab (String.ofList s)
  | .tmpl s => .tmpl (String.ofList s)
  | .addr a => .addr a
  | .entry a i => .entry a (ofPVal i)
  | .slice a s e => .slice a (ofPVal s) (ofPVal e)

def ofTErr : Text.TErr → FErr
  | .syntax => .syntax | .value => .value | .key => .value | .assertion => .assertion
  | .type_ => .type_ | .index => .index | .runtime => .value | .unsupported => .value

/-- `s.strip(chars)` -/
def stripChars (p : Char → Bool) (s : List Char) : List Char := ((s.dropWhile p).reverse.dropWhile p).reverse

/-- `_parse_args(args)`: `args.strip("()").split(",")`, every piece stripped and read as a constant -/
def parseArgsList : List (List Char) → Except FErr (List Int)
  | [] => .ok []
  | w :: ws =>
    match Text.parseConst (strip w), parseArgsList ws with
    | some v, .ok vs => .ok (v :: vs)
    | none, _ => .error .syntax
    | _, .error e => .error e

def parseArgs (ob cb : Char) (args : List Char) : Except FErr (List Int) :=
  if args.isEmpty then .ok []
  else parseArgsList (Text.splitOn ',' (stripChars (fun c => c = ob || c = cb) args))

/-- `_parse_operands(words)`: the operand parser of Model/Text.lean on every word -/
def parseOperandsF (S : Text.Syms) (ws : List (List Char)) : Except FErr (List Asm.POperand) :=
  match Text.parseOperands S ws with
  | .error e => .error (ofTErr e)
  | .ok os => .ok (os.map ofTok)

/-- one body line of `_create_subroutine` -/
def parseBodyLine (S : Text.Syms) (generic : List String) (line : List Char) : Except FErr Asm.PCmd :=
  if line.getLast? = some S.branchEnd then
    let lab := (line.reverse.dropWhile (· = S.branchEnd)).reverse     -- `line.rstrip(":")`
    match isVariableName lab with
    | none => .error .index
    | some false => .error .syntax
    | some true => .ok (.label (String.ofList lab))
  else
    match groupByWord S.argOpen ')' line with
    | none => .error .value
    | some [] => .error .value
    | some (w :: ws) =>
      match splitOfBracket S.argOpen ')' w with
      | none => .error .syntax
      | some (name, args) =>
        if generic.contains (String.ofList name) then
          match parseArgs S.argOpen ')' args with
          | .error e => .error e
          | .ok as =>
            match parseOperandsF S ws with
            | .error e => .error e
            | .ok ops => .ok (.instr (String.ofList name) as ops)
        else .error .value

def parseBody (S : Text.Syms) (generic : List String) : List (List Char) → Except FErr (List Asm.PCmd)
  | [] => .ok []
  | l :: ls =>
    match parseBodyLine S generic l with
    | .error e => .error e
    | .ok c =>
      match parseBody S generic ls with
      | .error e => .error e
      | .ok cs => .ok (c :: cs)

/-- `int(s)` for the forms the harness writes: optional sign, digits, surrounding blanks -/
def pyInt (s : List Char) : Option Int :=
  match strip s with
  | '+' :: r => if Text.allDigits r then some (Text.parseNat r : Int) else none
  | r => Text.parseConst r

/-- `_parse_netqasm_version` -/
def parseVersion (s : List Char) : Except FErr (Int × Int) :=
  match Text.splitOn '.' (strip s) with
  | [a, b] =>
    match pyInt a, pyInt b with
    | some x, some y => .ok (x, y)
    | _, _ => .error .value
  | _ => .error .value

structure Proto where
  version : Option (Int × Int)
  appId : Option Int
  cmds : List Asm.PCmd
  deriving Repr

/-- `parse_text_protosubroutine(text)` -/
def parseTextProto (S : Text.Syms) (generic : List String) (text : List Char) : Except FErr Proto :=
  match splitPreambleBody S.preambleStart S.comment.toList text with
  | .error e => .error e
  | .ok (pre, body) =>
    match parsePreamble pre with
    | .error e => .error e
    | .ok d =>
      let macros := (lookupKey d kwDefine).filterMap (fun ops => match ops with
        | [k, v] => some (k, v)
        | _ => none)
      match parseBody S generic (applyMacros body macros) with
      | .error e => .error e
      | .ok cmds =>
        let ver : Except FErr (Option (Int × Int)) :=
          match lookupKey d kwNetqasm with
          | (v :: _) :: _ => (parseVersion v).map some
          | _ => .ok none
        match ver with
        | .error e => .error e
        | .ok version =>
          match lookupKey d kwAppid with
          | (v :: _) :: _ =>
            match pyInt v with
            | some n => .ok ⟨version, some n, cmds⟩
            | none => .error .value
          | _ => .ok ⟨version, none, cmds⟩

end NQ.AsmFront
