/-
C07 — what the NV transpiler's gate tables are checked against.

* `placementOf`: the case split of `_handle_two_qubit_gate` on the two virtual ids;
* targets: the vanilla gates as explicit matrices over the ROLES
  (0 = electron, 1 = first carbon operand, 2 = second carbon operand);
* `nvRot`: model of the rotation branch of `_map_single_gate` (simulation mode: pass-through;
  hardware mode: `get_hardware_num_denom`);
* `isTransfer`: the MOV specification as a check on two columns.

Core Lean only (the model driver links this file).
-/
import NetqasmVerif.Model.Gates
namespace NQ.NV
open NQ

inductive Placement | ec | ce | cc
  deriving DecidableEq, Repr

/-- the three-way case split of `_handle_two_qubit_gate` for CNOT and CPHASE -/
def placementOf (id0 id1 : Nat) : Placement :=
  if id0 = 0 then .ec else if id1 = 0 then .ce else .cc

/-- number of qubits (roles) a placement involves: the electron is always role 0 -/
def Placement.nq : Placement → Nat
  | .cc => 3
  | _ => 2

/-- roles of operand 0 (control) and operand 1 (target) -/
def Placement.roles : Placement → Nat × Nat
  | .ec => (0, 1)
  | .ce => (1, 0)
  | .cc => (1, 2)

/-- the vanilla two-qubit gate on the roles of a placement, identity on every other role
(for `.cc`: on the borrowed electron) -/
def target2 (g : GName) (p : Placement) : Option Mat :=
  match g with
  | .cnot => some (cnotMat p.nq p.roles.1 p.roles.2)
  | .cphase => some (cphaseMat p.nq p.roles.1 p.roles.2)
  | _ => none

def twoOk (g : GName) (p : Placement) (seq : List GI) : Bool :=
  equivUpToScalar? (circuit p.nq seq) (target2 g p)

/-- the fixed single-qubit vanilla gates (H, K up to the factor √2) -/
def target1 : GName → Option (M2 Cyc)
  | .x => some gX
  | .y => some gY
  | .z => some gZ
  | .h => some gHSqrt2
  | .k => some gKSqrt2
  | .s => some gS
  | .t => some gT
  | _ => none

def singleOk (g : GName) (seq : List GI) : Bool :=
  equivUpToScalar? (circuit 1 seq) ((target1 g).map (embed1 1 0))

/-- first generated sequence of gate `g` whose ids fall in placement `p` -/
def repOf (l : List (GName × Nat × Nat × List GI)) (g : GName) (p : Placement) : Option (List GI) :=
  match l with
  | [] => none
  | (g', a, b, s) :: rest => if g' = g ∧ placementOf a b = p then some s else repOf rest g p

def repOk (l : List (GName × Nat × Nat × List GI)) (g : GName) (p : Placement) : Bool :=
  match repOf l g p with
  | some s => twoOk g p s
  | none => false

/-- every sampled id pair is a pair of distinct ids and produced exactly the representative
sequence of its placement -/
def idsOnlyThroughZero (l : List (GName × Nat × Nat × List GI)) : Bool :=
  l.all fun e => (e.2.1 != e.2.2.1) && (repOf l e.1 (placementOf e.2.1 e.2.2.1) == some e.2.2.2)

/-! ### MOV -/

/-- `U·(ψ_src ⊗ |0⟩_tgt) = φ_src ⊗ ψ_tgt` for one fixed `φ ≠ 0` and all `ψ`, on two qubits:
checked on `ψ = |0⟩, |1⟩` with the SAME `φ` and the same scalar (linearity gives all `ψ`). -/
def isTransfer (src tgt : Nat) (U : Mat) : Bool :=
  let idx (s t : Nat) : Nat := s * 2 ^ (1 - src) + t * 2 ^ (1 - tgt)
  let u0 := U.getD (idx 0 0) []
  let u1 := U.getD (idx 1 0) []
  let phi0 := u0.getD (idx 0 0) 0
  let phi1 := u0.getD (idx 1 0) 0
  (src != tgt) && (src < 2) && (tgt < 2) && (u0.length == 4) && (u1.length == 4)
  && !(phi0.isZero && phi1.isZero)
  && (u0.getD (idx 0 1) 0).isZero && (u0.getD (idx 1 1) 0).isZero
  && (u1.getD (idx 0 0) 0).isZero && (u1.getD (idx 1 0) 0).isZero
  && (u1.getD (idx 0 1) 0 == phi0) && (u1.getD (idx 1 1) 0 == phi1)

/-- MOV source id → target id: roles of (source, target) -/
def movRoles (id0 id1 : Nat) : Option (Nat × Nat) :=
  if id0 = 0 ∧ id1 ≠ 0 then some (0, 1)
  else if id0 ≠ 0 ∧ id1 = 0 then some (1, 0)
  else none

def movOk (id0 id1 : Nat) (seq : List GI) : Bool :=
  match movRoles id0 id1, circuit 2 seq with
  | some (s, t), some U => isTransfer s t U
  | _, _ => false

/-! ### Rotations -/

def GName.isRot : GName → Bool
  | .rotX | .rotY | .rotZ => true
  | _ => false

/-- `get_hardware_num_denom` -/
def hwNumDenom (n d : Nat) : Option (Nat × Nat) :=
  if d ≤ 4 then some (n * 2 ^ (4 - d), 4) else none

/-- rotation branch of `_map_single_gate` on qubit 0; `hw` = `get_is_using_hardware()`;
`none` = raises ValueError -/
def nvRot (hw : Bool) (g : GName) (n d : Nat) : Option (List GI) :=
  if GName.isRot g then
    if hw then (hwNumDenom n d).map fun nd => [⟨g, [0], nd.1, nd.2⟩]
    else some [⟨g, [0], n, d⟩]
  else none

/-- range check of the binary rotation command (C16's fix: `RegImmImmCommand` raises ValueError
when an immediate does not fit its 8-bit field instead of truncating) -/
def rotEncodable (n d : Nat) : Bool := decide (n ≤ 255) && decide (d ≤ 255)

/-- transpile AND serialise a rotation: `none` = a ValueError from either step. In hardware mode
the normalised numerator `n·2^(4−d)` may exceed 255; the transpiler still emits it, the
serialiser rejects it. -/
def nvRotWire (hw : Bool) (g : GName) (n d : Nat) : Option (List GI) :=
  (nvRot hw g n d).bind fun l => if l.all (fun i => rotEncodable i.n i.d) then some l else none

/-- `n·π/2^d ≡ n'·π/2^d'  (mod 2π)`, in integers: `n·2^d' ≡ n'·2^d  (mod 2^(d+d'+1))` -/
def sameAngleMod2Pi (n d n' d' : Nat) : Prop :=
  (n * 2 ^ d') % 2 ^ (d + d' + 1) = (n' * 2 ^ d) % 2 ^ (d + d' + 1)

end NQ.NV
