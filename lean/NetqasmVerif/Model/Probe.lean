/-
Single-bit probes of the wire codec.  The translator records, for every
instruction class of /repo, where each single operand bit lands in the real
`serialize()` output and which operand bit each single wire bit sets in the real
`deserialize_from()`.  `probeOk` recomputes the same probes on the *model* codec
and compares; the kernel decides it for the generated data.
-/
import NetqasmVerif.Model.Codec
namespace NQ

structure Probe where
  row : Row
  base : List Nat
  enc : List (List Nat)
  dec : List (List Nat)
  /-- the decoded operand values (registers as bank, index) for each flipped wire bit -/
  decv : List (List Int)
  deriving Repr

def kindNBits : FieldKind → Nat
  | .reg => 6 | .imm8 => 8 | .int32 => 32 | .addr => 32 | .entry => 38 | .slice => 44

/-- wire bit offsets (relative to the first byte of the operand) of its meaningful
bits, in canonical order: bank bits, index bits; value bits; … -/
def kindPos : FieldKind → List Nat
  | .reg => List.range 6
  | .imm8 => List.range 8
  | .int32 => List.range 32
  | .addr => List.range 32
  | .entry => List.range 38
  | .slice => List.range 38 ++ (List.range 6).map (· + 40)

def canonPos : Nat → List FieldKind → List Nat
  | _, [] => []
  | o, k :: ks => (kindPos k).map (· + 8 * o) ++ canonPos (o + kindSize k) ks

def i32bit (b : Nat) : Int := if b = 31 then -2147483648 else ((2 ^ b : Nat) : Int)

/-- register whose 6 probe bits start at index `base` of the operand's bit list -/
def regWith (n : Option Nat) (base : Nat) : Reg :=
  match n with
  | some m =>
    if base ≤ m ∧ m < base + 2 then ⟨2 ^ (m - base), 0⟩
    else if base + 2 ≤ m ∧ m < base + 6 then ⟨0, ((2 ^ (m - base - 2) : Nat) : Int)⟩
    else ⟨0, 0⟩
  | none => ⟨0, 0⟩

def valWith (n : Option Nat) : Int :=
  match n with
  | some m => if m < 32 then i32bit m else 0
  | none => 0

/-- operand of kind `k` with only its `n`-th canonical bit set (`none`: all zero) -/
def probeOperand (k : FieldKind) (n : Option Nat) : Operand :=
  match k with
  | .reg => .reg (regWith n 0)
  | .imm8 => .imm (match n with | some m => ((2 ^ m : Nat) : Int) | none => 0)
  | .int32 => .imm (valWith n)
  | .addr => .addr (valWith n)
  | .entry => .entry (valWith n) (regWith n 32)
  | .slice => .slice (valWith n) (regWith n 32) (regWith n 38)

/-- operands for a shape with only global probe bit `g` set -/
def probeOps : List FieldKind → Option Nat → List Operand
  | [], _ => []
  | k :: ks, g =>
    match g with
    | none => probeOperand k none :: probeOps ks none
    | some m =>
      if m < kindNBits k then probeOperand k (some m) :: probeOps ks none
      else probeOperand k none :: probeOps ks (some (m - kindNBits k))

def totalBits (s : List FieldKind) : Nat := (s.map kindNBits).sum

def diffBits (a b : List Nat) : List Nat :=
  (List.range (8 * max a.length b.length)).filter fun p =>
    match a[p / 8]?, b[p / 8]? with
    | some x, some y => (x ^^^ y).testBit (p % 8)
    | _, _ => true

def modelBase (row : Row) : Option (List Nat) := encodeRow row (probeOps row.shape none)

def modelEncProbe (row : Row) : List (List Nat) :=
  (List.range (totalBits row.shape)).map fun g =>
    match encodeRow row (probeOps row.shape (some g)), modelBase row with
    | some b, some z => diffBits b z
    | _, _ => [9999]

def regBits (r : Reg) : List Bool :=
  [r.bank.testBit 0, r.bank.testBit 1, r.idx.toNat.testBit 0, r.idx.toNat.testBit 1,
   r.idx.toNat.testBit 2, r.idx.toNat.testBit 3]

def valBits (v : Int) : List Bool :=
  (List.range 32).map fun b => ((v % 4294967296).toNat).testBit b

def operandBits : Operand → List Bool
  | .reg r => regBits r
  | .imm v => valBits v   -- for imm8 only the first 8 are meaningful; see `opBitsFor`
  | .addr a => valBits a
  | .entry a i => valBits a ++ regBits i
  | .slice a s e => valBits a ++ regBits s ++ regBits e

def opBitsFor (k : FieldKind) (o : Operand) : List Bool :=
  (operandBits o).take (kindNBits k)

def allBits : List FieldKind → List Operand → List Bool
  | k :: ks, o :: os => opBitsFor k o ++ allBits ks os
  | _, _ => []

def flipBit (bs : List Nat) (p : Nat) : List Nat :=
  bs.mapIdx fun i b => if i = p / 8 then b ^^^ (2 ^ (p % 8)) else b

def modelDecProbe (row : Row) : List (List Nat) :=
  (List.range 48).map fun k =>
    match modelBase row with
    | some z =>
      match flipBit z (8 + k) with
      | _ :: body =>
        match decodeOps row.shape body with
        | some ops =>
          ((allBits row.shape ops).zip (canonPos 1 row.shape)).filterMap
            fun (b, p) => if b then some p else none
        | none => [9999]
      | [] => [9999]
    | none => [9999]

def flatValues : Operand → List Int
  | .reg r => [(r.bank : Int), r.idx]
  | .imm v => [v]
  | .addr a => [a]
  | .entry a i => [a, (i.bank : Int), i.idx]
  | .slice a s e => [a, (s.bank : Int), s.idx, (e.bank : Int), e.idx]

/-- full decoded values (not only bits) after flipping each wire bit of the all-zero encoding -/
def modelDecValues (row : Row) : List (List Int) :=
  (List.range 48).map fun k =>
    match modelBase row with
    | some z =>
      match flipBit z (8 + k) with
      | _ :: body =>
        match decodeOps row.shape body with
        | some ops => ops.flatMap flatValues
        | none => [9999]
      | [] => [9999]
    | none => [9999]

def probeOk (p : Probe) : Bool :=
  modelBase p.row == some p.base && p.enc == modelEncProbe p.row && p.dec == modelDecProbe p.row
    && p.decv == modelDecValues p.row

end NQ
