/-
Model M3 — reference interpreter of the classical NetQASM semantics as the base
`Executor` (netqasm/backend/executor.py) implements it, plus the multi-application
layer (init/stop application, shared physical-qubit pool, keep-responses).

Core Lean only (the driver executable links this file).  Python semantics are
modelled as they are: unbounded integers, `list[i]` with negative indices wrapping,
`[None] * n` empty for n ≤ 0, comparisons with `None`, `set.remove` raising when the
element is absent, and the exception class of every fault.

State containers are total functions (`XReg → Val`, `Int → Option …`, `Nat → Option App`):
an update is an `if`, so the frame lemmas of C04/C13 are one `simp` each.  The driver prints
a state by enumerating the keys the harness asks for.
-/
namespace NQ.Exec

abbrev Val := Option Int

/-- A register of a binary-encodable instruction: 4 banks (R,C,Q,M) × 16 indices. -/
structure XReg where
  bank : Fin 4
  idx : Fin 16
  deriving DecidableEq, Repr

/-- Host-visible array slot of the shared memory.  The real `ret_arr` stores the executor's own
list object in the shared memory (finding F25), so the slot is `live` — it *is* the application's
current array at that address — until an `array` instruction rebinds the address to a fresh list;
from then on the shared memory keeps the old object, whose contents can no longer change
(`frozen`). -/
inductive ShmArr
  | live
  | frozen (v : List Val)
  deriving DecidableEq, Repr

/-- Per-application state (`_registers`, `_app_arrays`, `_shared_memories`, `_qubit_unit_modules`). -/
structure App where
  regs : XReg → Val
  arrays : Int → Option (List Val)
  shmRegs : XReg → Val
  shmArrs : Int → Option ShmArr
  unit : List (Option Nat)

/-- one recorded call of a quantum hook (`_do_single_qubit_instr`, `_do_meas`, …) -/
structure Ev where
  app : Nat
  name : String
  args : List Int
  deriving DecidableEq, Repr

structure State where
  apps : Nat → Option App
  /-- `_used_physical_qubit_addresses` (a Python set: membership is what matters) -/
  used : List Nat
  /-- ghost/environment: physical qubits handed to the link layer, not yet delivered -/
  reserved : List Nat
  /-- keys of `SharedMemoryManager._MEMORIES` for this node -/
  registry : List Nat
  /-- scripted measurement outcomes still to be consumed (`_do_meas`) -/
  oracle : List Int
  trace : List Ev

inductive Fault
  | undefReg      -- RuntimeError: value/qubit address/index register is None
  | undefEntry    -- RuntimeError: loaded array value is None / array does not exist (load)
  | badModulus    -- RuntimeError: modulus < 1
  | doubleAlloc   -- RuntimeError: virtual qubit already allocated
  | notAlloc      -- RuntimeError: freeing an unallocated virtual qubit
  | alreadyReg    -- RuntimeError: shared memory for (node, app) already exists
  | index         -- IndexError: index past the end (or before the start) of an array
  | noArray       -- IndexError: no array at that address (store/undef/ret_arr)
  | unitIndex     -- IndexError: Python list index outside the unit module
  | outsideUnit   -- ValueError: virtual address ≥ size of the unit module
  | assertion     -- AssertionError: `assert x is not None`
  | typeError     -- TypeError: `<`/`>=` with None
  | overflow      -- OverflowError: hardware mode, value does not fit 32 bits
  | noApp         -- KeyError: application not registered
  | usedKey       -- KeyError: `set.remove` of a physical id that is not in `used`
  | fetch         -- IndexError raised by `commands[pc]` (outside the try block: no line)
  deriving DecidableEq, Repr

def Fault.pyClass : Fault → String
  | .undefReg | .undefEntry | .badModulus | .doubleAlloc | .notAlloc | .alreadyReg => "RuntimeError"
  | .index | .noArray | .unitIndex | .fetch => "IndexError"
  | .outsideUnit => "ValueError"
  | .assertion => "AssertionError"
  | .typeError => "TypeError"
  | .overflow => "OverflowError"
  | .noApp | .usedKey => "KeyError"

def Fault.name : Fault → String
  | .undefReg => "undefReg" | .undefEntry => "undefEntry" | .badModulus => "badModulus"
  | .doubleAlloc => "doubleAlloc" | .notAlloc => "notAlloc" | .alreadyReg => "alreadyReg"
  | .index => "index" | .noArray => "noArray" | .unitIndex => "unitIndex"
  | .outsideUnit => "outsideUnit" | .assertion => "assertion" | .typeError => "typeError"
  | .overflow => "overflow" | .noApp => "noApp" | .usedKey => "usedKey" | .fetch => "fetch"

/-- The core instruction set in scope (EPR and wait instructions belong to `Model/Epr`). -/
inductive Instr
  | set (r : XReg) (v : Int)
  | load (r : XReg) (a : Int) (i : XReg)
  | store (r : XReg) (a : Int) (i : XReg)
  | lea (r : XReg) (a : Int)
  | undef (a : Int) (i : XReg)
  | array (size : XReg) (a : Int)
  | add (d x y : XReg)
  | sub (d x y : XReg)
  | addm (d x y m : XReg)
  | subm (d x y m : XReg)
  | bez (r : XReg) (t : Int)
  | bnz (r : XReg) (t : Int)
  | beq (x y : XReg) (t : Int)
  | bne (x y : XReg) (t : Int)
  | blt (x y : XReg) (t : Int)
  | bge (x y : XReg) (t : Int)
  | jmp (t : Int)
  | retReg (r : XReg)
  | retArr (a : Int)
  | qalloc (r : XReg)
  | qfree (r : XReg)
  | meas (q c : XReg)
  | q1 (name : String) (r : XReg)                       -- init and single-qubit gates
  | rot (name : String) (r : XReg) (n d : Int)
  | q2 (name : String) (r0 r1 : XReg)
  | crot (name : String) (r0 r1 : XReg) (n d : Int)
  deriving DecidableEq, Repr

/-! ### Python helpers -/

/-- `l[i]` for a Python list of length `len`: the position read, `none` = IndexError. -/
def pyIdx (len : Nat) (i : Int) : Option Nat :=
  if 0 ≤ i then (if i < len then some i.toNat else none)
  else if -(len : Int) ≤ i then some (i + len).toNat else none

/-- `_assert_within_width(v, 32)`; only active in hardware mode -/
def fits (hw : Bool) (v : Int) : Bool :=
  !hw || (decide (-2147483648 ≤ v) && decide (v ≤ 2147483647))

/-- function update -/
def upd {α β} [DecidableEq α] (f : α → β) (k : α) (v : β) : α → β :=
  fun k' => if k' = k then v else f k'

/-- `set.add` -/
def sadd (p : Nat) (l : List Nat) : List Nat := if p ∈ l then l else p :: l
/-- `set.remove` (the caller checks membership first: absent = KeyError) -/
def srem (p : Nat) (l : List Nat) : List Nat := l.filter (fun q => q != p)

/-- `_get_unused_physical_qubit`: the smallest `q ≥ p` not in `l` (`for q in count(p)`); the fuel
argument (the length of `l` suffices) only makes the recursion structural. -/
def firstUnusedFrom : Nat → List Nat → Nat → Nat
  | 0, _, p => p
  | f + 1, l, p => if p ∈ l then firstUnusedFrom f (l.erase p) (p + 1) else p

def firstUnused (l : List Nat) : Nat := firstUnusedFrom l.length l 0

/-! ### One application's view -/

/-- what one instruction of an application can read and write -/
structure Loc where
  ap : App
  used : List Nat
  oracle : List Int
  trace : List Ev

inductive LRes
  | ok (l : Loc) (pc : Int)
  | fault (l : Loc) (f : Fault)

def App.setReg (ap : App) (r : XReg) (v : Int) : App := { ap with regs := upd ap.regs r (some v) }

/-- host view of a returned array -/
def App.shmArr (ap : App) (a : Int) : Option (List Val) :=
  match ap.shmArrs a with
  | none => none
  | some .live => ap.arrays a
  | some (.frozen v) => some v

/-- write a register (`RegisterGroup.__setitem__`: width check in hardware mode) and go on -/
def wr (hw : Bool) (l : Loc) (pc : Int) (r : XReg) (v : Int) : LRes :=
  if fits hw v then .ok { l with ap := l.ap.setReg r v } (pc + 1) else .fault l .overflow

/-- conditional branch -/
def br (l : Loc) (pc : Int) (c : Bool) (t : Int) : LRes := .ok l (if c then t else pc + 1)

/-- `add/sub/addm/subm` after the operands were read -/
def arith (hw : Bool) (l : Loc) (pc : Int) (d : XReg) (x y : Val) (f : Int → Int → Int) : LRes :=
  match x, y with
  | some a, some b => wr hw l pc d (f a b)
  | _, _ => .fault l .assertion

def arithm (hw : Bool) (l : Loc) (pc : Int) (d : XReg) (x y m : Val) (f : Int → Int → Int) : LRes :=
  match m with
  | some mv =>
    if mv < 1 then .fault l .badModulus
    else match x, y with
      | some a, some b => wr hw l pc d (f a b % mv)
      | _, _ => .fault l .assertion
  | none => .fault l .assertion

/-- the old list object stays in the shared memory when its address is rebound -/
def freeze (ap : App) (a : Int) : Option ShmArr :=
  match ap.shmArrs a with
  | some .live => some (.frozen ((ap.arrays a).getD []))
  | o => o

def ev (l : Loc) (a : Nat) (name : String) (args : List Int) : Loc :=
  { l with trace := l.trace ++ [⟨a, name, args⟩] }

/-- One instruction of application `a` (which is registered: `l.ap` is its state). -/
def stepLoc (hw : Bool) (a : Nat) (i : Instr) (l : Loc) (pc : Int) : LRes :=
  let ap := l.ap
  match i with
  | .set r v => wr hw l pc r v
  | .lea r ad => wr hw l pc r ad
  | .load r ad ix =>
    match ap.regs ix with
    | none => .fault l .undefReg
    | some k =>
      if !fits hw ad then .fault l .overflow
      else match ap.arrays ad with
        | none => .fault l .undefEntry
        | some arr =>
          match pyIdx arr.length k with
          | none => .fault l .index
          | some p =>
            match arr[p]?.join with
            | none => .fault l .undefEntry
            | some v => wr hw l pc r v
  | .store r ad ix =>
    match ap.regs r with
    | none => .fault l .undefReg
    | some v =>
      match ap.regs ix with
      | none => .fault l .undefReg
      | some k =>
        if !(fits hw ad && fits hw v && fits hw k) then .fault l .overflow
        else match ap.arrays ad with
          | none => .fault l .noArray
          | some arr =>
            match pyIdx arr.length k with
            | none => .fault l .index
            | some p =>
              .ok { l with ap := { ap with arrays := upd ap.arrays ad (some (arr.set p (some v))) } } (pc + 1)
  | .undef ad ix =>
    match ap.regs ix with
    | none => .fault l .undefReg
    | some k =>
      if !fits hw ad then .fault l .overflow
      else match ap.arrays ad with
        | none => .fault l .noArray
        | some arr =>
          match pyIdx arr.length k with
          | none => .fault l .index
          | some p =>
            .ok { l with ap := { ap with arrays := upd ap.arrays ad (some (arr.set p none)) } } (pc + 1)
  | .array sz ad =>
    match ap.regs sz with
    | none => .fault l .assertion
    | some n =>
      if !fits hw ad then .fault l .overflow
      else .ok { l with ap := { ap with arrays := upd ap.arrays ad (some (List.replicate n.toNat none)),
                                        shmArrs := upd ap.shmArrs ad (freeze ap ad) } } (pc + 1)
  | .add d x y => arith hw l pc d (ap.regs x) (ap.regs y) (fun a b => a + b)
  | .sub d x y => arith hw l pc d (ap.regs x) (ap.regs y) (fun a b => a - b)
  | .addm d x y m => arithm hw l pc d (ap.regs x) (ap.regs y) (ap.regs m) (fun a b => a + b)
  | .subm d x y m => arithm hw l pc d (ap.regs x) (ap.regs y) (ap.regs m) (fun a b => a - b)
  | .jmp t => .ok l t
  | .bez r t => br l pc (ap.regs r == some 0) t
  | .bnz r t => br l pc (ap.regs r != some 0) t
  | .beq x y t => br l pc (ap.regs x == ap.regs y) t
  | .bne x y t => br l pc (ap.regs x != ap.regs y) t
  | .blt x y t =>
    match ap.regs x, ap.regs y with
    | some u, some v => br l pc (decide (u < v)) t
    | _, _ => .fault l .typeError
  | .bge x y t =>
    match ap.regs x, ap.regs y with
    | some u, some v => br l pc (decide (u ≥ v)) t
    | _, _ => .fault l .typeError
  | .retReg r =>
    match ap.regs r with
    | none => .fault l .undefReg
    | some v =>
      if fits hw v then .ok { l with ap := { ap with shmRegs := upd ap.shmRegs r (some v) } } (pc + 1)
      else .fault l .overflow
  | .retArr ad =>
    match ap.arrays ad with
    | none => .fault l .noArray
    | some _ =>
      if !fits hw ad then .fault l .overflow
      else .ok { l with ap := { ap with shmArrs := upd ap.shmArrs ad (some .live) } } (pc + 1)
  | .qalloc r =>
    match ap.regs r with
    | none => .fault l .undefReg
    | some v =>
      if v ≥ ap.unit.length then .fault l .outsideUnit
      else match pyIdx ap.unit.length v with
        | none => .fault l .unitIndex
        | some p =>
          match ap.unit[p]?.join with
          | some _ => .fault l .doubleAlloc
          | none =>
            let q := firstUnused l.used
            .ok { l with ap := { ap with unit := ap.unit.set p (some q) }, used := sadd q l.used } (pc + 1)
  | .qfree r =>
    match ap.regs r with
    | none => .fault l .assertion
    | some v =>
      match pyIdx ap.unit.length v with
      | none => .fault l .unitIndex
      | some p =>
        match ap.unit[p]?.join with
        | none => .fault l .notAlloc
        | some q =>
          let l' := { l with ap := { ap with unit := ap.unit.set p none } }
          if q ∈ l.used then .ok { l' with used := srem q l.used } (pc + 1)
          else .fault l' .usedKey
  | .meas q c =>
    match ap.regs q with
    | none => .fault l .assertion
    | some v =>
      let out := l.oracle.headD 0
      let l' := ev { l with oracle := l.oracle.tail } a "meas" [v]
      if fits hw out then .ok { l' with ap := ap.setReg c out } (pc + 1) else .fault l' .overflow
  | .q1 name r =>
    match ap.regs r with
    | none => .fault l .assertion
    | some v => .ok (ev l a name [v]) (pc + 1)
  | .rot name r n d =>
    match ap.regs r with
    | none => .fault l .assertion
    | some v => .ok (ev l a name [v, n, d]) (pc + 1)
  | .q2 name r0 r1 =>
    match ap.regs r0, ap.regs r1 with
    | some u, some v => .ok (ev l a name [u, v]) (pc + 1)
    | _, _ => .fault l .assertion
  | .crot name r0 r1 n d =>
    match ap.regs r0, ap.regs r1 with
    | some u, some v => .ok (ev l a name [u, v, n, d]) (pc + 1)
    | _, _ => .fault l .assertion

/-! ### Whole-controller state -/

inductive Res
  | ok (s : State) (pc : Int)
  | fault (s : State) (f : Fault)

def State.loc (s : State) (ap : App) : Loc := ⟨ap, s.used, s.oracle, s.trace⟩

def State.put (s : State) (a : Nat) (l : Loc) : State :=
  { s with apps := upd s.apps a (some l.ap), used := l.used, oracle := l.oracle, trace := l.trace }

/-- One instruction of a subroutine of application `a` at program counter `pc`.
`jmp` never touches the application's state, so it also "works" for an unregistered id;
every other instruction starts with a dictionary lookup keyed by the app id (KeyError). -/
def step (hw : Bool) (a : Nat) (i : Instr) (s : State) (pc : Int) : Res :=
  match s.apps a with
  | none =>
    match i with
    | .jmp t => .ok s t
    | _ => .fault s .noApp
  | some ap =>
    match stepLoc hw a i (s.loc ap) pc with
    | .ok l pc' => .ok (s.put a l) pc'
    | .fault l f => .fault (s.put a l) f

inductive Outcome
  | halted                          -- program counter reached the end
  | fault (f : Fault) (line : Option Int)   -- "At line N" (none: raised outside the handler)
  | outOfFuel
  deriving DecidableEq, Repr

structure RunOut where
  s : State
  pc : Int
  out : Outcome
  visited : List Int     -- program-counter values of the instructions executed (incl. a faulting one)

/-- `_execute_commands`: `while pc < len(commands): command = commands[pc]; try: execute …`. -/
def run (hw : Bool) (a : Nat) (prog : List Instr) : Nat → State → Int → RunOut
  | 0, s, pc => if pc ≥ prog.length then ⟨s, pc, .halted, []⟩ else ⟨s, pc, .outOfFuel, []⟩
  | fuel + 1, s, pc =>
    if pc ≥ prog.length then ⟨s, pc, .halted, []⟩
    else match pyIdx prog.length pc with
      | none => ⟨s, pc, .fault .fetch none, []⟩
      | some k =>
        match prog[k]? with
        | none => ⟨s, pc, .fault .fetch none, []⟩
        | some i =>
          match step hw a i s pc with
          | .ok s' pc' => let r := run hw a prog fuel s' pc'; { r with visited := pc :: r.visited }
          | .fault s' f => ⟨s', pc, .fault f (some pc), [pc]⟩

/-! ### Application life cycle and environment actions (C13) -/

def freshApp (n : Nat) : App :=
  ⟨fun _ => none, fun _ => none, fun _ => none, fun _ => none, List.replicate n none⟩

def init0 : State := ⟨fun _ => none, [], [], [], [], []⟩

/-- physical qubits mapped by a unit module -/
def mapped (u : List (Option Nat)) : List Nat := u.filterMap id

inductive Op
  | init (a : Nat) (n : Nat)                 -- `init_new_application(a, n)`
  | stop (a : Nat)                           -- `stop_application(a)`
  | exec (hw : Bool) (a : Nat) (i : Instr) (pc : Int)   -- one instruction of a subroutine of `a`
  | sub (hw : Bool) (a : Nat) (prog : List Instr) (fuel : Nat)   -- a whole subroutine (step bound)
  | reserve                                  -- the network stack takes an unused physical qubit
  | keep (a : Nat) (v : Int) (p : Nat)       -- OK_K response for `a`: virtual `v` ↦ reserved physical `p`
  | keepAt (a : Nat) (qa : Int) (p : Nat)    -- the same, virtual address read from `@qa[0]`
  | oracle (os : List Int)                   -- environment: script the next measurement outcomes

/-- result of a life-cycle / environment action: new state and the fault raised, if any -/
abbrev ORes := State × Option Fault

/-- `init_new_application` (after the fixes of F16/F27: the shared memory is created first, so a
second registration of a live id is rejected before any state is touched). -/
def initApp (s : State) (a n : Nat) : ORes :=
  if a ∈ s.registry then (s, some .alreadyReg)
  else ({ s with registry := a :: s.registry, apps := upd s.apps a (some (freshApp n)) }, none)

/-- `stop_application`: free every mapped physical qubit, drop registers, arrays and the shared
memory — including (fix of F16) its key in the `SharedMemoryManager`. -/
def stopApp (s : State) (a : Nat) : ORes :=
  match s.apps a with
  | none => (s, some .noApp)
  | some ap =>
    ({ s with apps := upd s.apps a none,
              used := s.used.filter (fun p => !(mapped ap.unit).contains p),
              registry := s.registry.filter (fun b => b != a) }, none)

/-- the network stack calls `_get_unused_physical_qubit()` for an incoming pair -/
def reserveQ (s : State) : State :=
  let q := firstUnused s.used
  { s with used := sadd q s.used, reserved := q :: s.reserved }

/-- `_handle_epr_ok_k_response`: `none` in the second component and an unchanged state = deferred
(the virtual address is in use).  `used.add(p)` happens before `_allocate_physical_qubit` may raise. -/
def keepResp (s : State) (a : Nat) (v : Int) (p : Nat) : ORes :=
  match s.apps a with
  | none => (s, some .noApp)
  | some ap =>
    let n := ap.unit.length
    if 0 ≤ v ∧ v < n ∧ (ap.unit[v.toNat]?.join).isSome then (s, none)      -- deferred
    else
      let s1 := { s with used := sadd p s.used }
      if v ≥ n then (s1, some .outsideUnit)
      else match pyIdx n v with
        | none => (s1, some .unitIndex)
        | some k =>
          match ap.unit[k]?.join with
          | some _ => (s1, some .doubleAlloc)
          | none =>
            ({ s1 with apps := upd s.apps a (some { ap with unit := ap.unit.set k (some p) }),
                       reserved := s.reserved.filter (fun q => q != p) }, none)

/-- `_get_virtual_address_from_epr_data` for a single-pair request whose qubit array is `@qa`,
followed by the keep handler. -/
def keepAt (s : State) (a : Nat) (qa : Int) (p : Nat) : ORes :=
  match s.apps a with
  | none => (s, some .noApp)
  | some ap =>
    match ap.arrays qa with
    | none => (s, some .undefEntry)
    | some arr =>
      match arr with
      | [] => (s, some .index)
      | none :: _ => (s, some .undefEntry)
      | some v :: _ => keepResp s a v p

def apply (s : State) : Op → State
  | .init a n => (initApp s a n).1
  | .stop a => (stopApp s a).1
  | .exec hw a i pc => match step hw a i s pc with | .ok s' _ => s' | .fault s' _ => s'
  | .sub hw a prog fuel => (run hw a prog fuel s 0).s
  | .reserve => reserveQ s
  | .keep a v p => (keepResp s a v p).1
  | .keepAt a qa p => (keepAt s a qa p).1
  | .oracle os => { s with oracle := os }

/-! ### Interleaved subroutines

`execute_subroutine` is a generator: a runtime may keep subroutines of several applications in
flight and advance them in any order.  The finest granularity at which the harness switches is one
instruction (different applications may interleave per instruction), which subsumes every switch at
the executor's own yield points (`qfree`, waits, simulator hooks). -/

/-- a subroutine in flight: application, code, program counter, final outcome once finished -/
structure Sub where
  a : Nat
  prog : List Instr
  pc : Int
  fin : Option Outcome

structure Sys where
  s : State
  subs : List Sub

def sys0 : Sys := ⟨init0, []⟩

/-- outcome bookkeeping after one instruction: the executor immediately performs the next loop test
and fetch (`while pc < len: command = commands[pc]`) before it is suspended again -/
def afterTick (prog : List Instr) (r : RunOut) : Option Outcome :=
  match r.out with
  | .outOfFuel => if (pyIdx prog.length r.pc).isNone then some (.fault .fetch none) else none
  | o => some o

/-- advance subroutine number `i` by one instruction (no-op when it does not exist or has finished) -/
def tick (hw : Bool) (sys : Sys) (i : Nat) : Sys :=
  match sys.subs[i]? with
  | none => sys
  | some sb =>
    match sb.fin with
    | some _ => sys
    | none =>
      let r := run hw sb.a sb.prog 1 sys.s sb.pc
      ⟨r.s, sys.subs.set i { sb with pc := r.pc, fin := afterTick sb.prog r }⟩

inductive IOp
  | base (op : Op)                         -- any sequential operation (subroutines run to completion)
  | spawn (a : Nat) (prog : List Instr)    -- a new subroutine is handed to the executor
  | tick (hw : Bool) (i : Nat)             -- the runtime resumes subroutine `i` for one instruction

def iapply (sys : Sys) : IOp → Sys
  | .base op => ⟨apply sys.s op, sys.subs⟩
  | .spawn a prog => ⟨sys.s, sys.subs ++ [⟨a, prog, 0, none⟩]⟩
  | .tick hw i => tick hw sys i

/-! ### Aborted subroutines, several executors

A runtime may drop a suspended subroutine instead of resuming it (driver abort, `generator.close()`,
a simulator hook that raises).  The executor only yields *between* the atomic effects of
instructions: `qfree` clears the mapping and un-marks the physical qubit before its reset hook
(the one yield point inside an instruction of this model) runs.  So a subroutine is dropped either
between two instructions (`abort`) or right after the complete effect of its next instruction
(`abortMid`). `fin = some _` marks a subroutine that will not run any more. -/

def abort (sys : Sys) (i : Nat) : Sys :=
  match sys.subs[i]? with
  | none => sys
  | some sb => ⟨sys.s, sys.subs.set i { sb with fin := some (sb.fin.getD .halted) }⟩

def abortMid (hw : Bool) (sys : Sys) (i : Nat) : Sys := abort (tick hw sys i) i

/-- the instruction subroutine `i` would execute next -/
def nextInstr (sys : Sys) (i : Nat) : Option Instr :=
  match sys.subs[i]? with
  | none => none
  | some sb =>
    match sb.fin with
    | some _ => none
    | none => (pyIdx sb.prog.length sb.pc).bind (fun k => sb.prog[k]?)

/-- several executors in one process (the nodes of a simulated network): the model has no
component shared between them — each is an independent `Sys` -/
def mapply (m : List Sys) (k : Nat) (op : IOp) : List Sys :=
  match m[k]? with
  | none => m
  | some sys => m.set k (iapply sys op)

/-! ### Driver guard against huge allocations

`array` with a register holding, say, 2^40 would make the compiled model allocate that many cells.
The real-code harness never lets the executor do that (it cuts the scenario), so the driver refuses
too: `runG` is `run`, executed one instruction at a time, that gives up (`none`) when the next
instruction is an `array` of more than `arrayGuard` cells (`Lemmas/ExecRun.lean`: `runG_eq_run`). -/

def arrayGuard : Int := 100000

def bigArrayNext (s : State) (a : Nat) (prog : List Instr) (pc : Int) : Bool :=
  match (pyIdx prog.length pc).bind (fun k => prog[k]?) with
  | some (.array sz _) =>
    (match (s.apps a).bind (fun ap => ap.regs sz) with
     | some n => decide (n > arrayGuard)
     | none => false)
  | _ => false

def runG (hw : Bool) (a : Nat) (prog : List Instr) : Nat → State → Int → Option RunOut
  | 0, s, pc => some (run hw a prog 0 s pc)
  | n + 1, s, pc =>
    if bigArrayNext s a prog pc then none
    else
      let r1 := run hw a prog 1 s pc
      match r1.out with
      | .outOfFuel => (runG hw a prog n r1.s r1.pc).map (fun r => { r with visited := r1.visited ++ r.visited })
      | _ => some r1

end NQ.Exec
