/-
Model M1 (part 1): instruction tables, operands, instructions.
Core Lean only (no Mathlib) so that the driver executable can link.
-/
namespace NQ

/-- Kind of one operand slot of an instruction shape. `imm8` is the one-byte
unsigned immediate, `int32` the four-byte signed immediate. -/
inductive FieldKind | reg | imm8 | int32 | addr | entry | slice
  deriving DecidableEq, Repr, Inhabited

/-- A register operand. `bank` is `RegisterName.value` (R=0,C=1,Q=2,M=3); the
index is an unbounded integer because `R16` must be expressible (C16). -/
structure Reg where
  bank : Nat
  idx : Int
  deriving DecidableEq, Repr, Inhabited

inductive Operand
  | reg (r : Reg)
  | imm (v : Int)
  | addr (a : Int)
  | entry (a : Int) (i : Reg)
  | slice (a : Int) (s e : Reg)
  deriving DecidableEq, Repr, Inhabited

/-- One instruction class of a flavour: python class (module-qualified),
opcode (`id`), mnemonic and operand shape in declared order. -/
structure Row where
  cls : String
  opcode : Nat
  mn : String
  shape : List FieldKind
  deriving DecidableEq, Repr, Inhabited

/-- A flavour table: the core rows first, then the flavour-specific rows —
the order in which `Flavour.__init__` fills its dicts. -/
abbrev Table := List Row

/-- An instruction instance: its class and its operand values. -/
structure Instr where
  cls : String
  ops : List Operand
  deriving DecidableEq, Repr, Inhabited

/-- `dict` built by `{k(r): r for r in rows}`: the *last* row with a key wins. -/
def lastBy (p : Row → Bool) : Table → Option Row
  | [] => none
  | r :: rs => match lastBy p rs with
    | some r' => some r'
    | none => if p r then some r else none

/-- `Flavour.id_map` -/
def idMap (T : Table) (op : Nat) : Option Row := lastBy (fun r => r.opcode == op) T
/-- `Flavour.name_map` -/
def nameMap (T : Table) (mn : String) : Option Row := lastBy (fun r => r.mn == mn) T
/-- lookup of the class itself (what `instr.serialize` uses: the instance's own class) -/
def rowOf (T : Table) (cls : String) : Option Row := T.find? (fun r => r.cls == cls)

/-- pairs of distinct rows sharing an opcode -/
def opcodeClashes (T : Table) : List (Nat × String × String) :=
  match T with
  | [] => []
  | r :: rs => (rs.filter (fun r' => r'.opcode == r.opcode)).map (fun r' => (r.opcode, r.cls, r'.cls))
                ++ opcodeClashes rs

def mnemonicClashes (T : Table) : List (String × String × String) :=
  match T with
  | [] => []
  | r :: rs => (rs.filter (fun r' => r'.mn == r.mn)).map (fun r' => (r.mn, r.cls, r'.cls))
                ++ mnemonicClashes rs

def classClashes (T : Table) : List String :=
  match T with
  | [] => []
  | r :: rs => (rs.filter (fun r' => r'.cls == r.cls)).map (fun r' => r'.cls) ++ classClashes rs

end NQ
