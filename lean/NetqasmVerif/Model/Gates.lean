/-
M8 — exact gate matrices and sparse application of gate lists to n-qubit
state vectors / operators, over ℤ[ζ₈] (`Model/Cyc`).

Conventions (those of /repo):
* qubit 0 is the most significant bit of a basis index (numpy `kron` order,
  `tests/test_transpiling.py::pad_single_matrix`);
* a rotation instruction `(n, d)` denotes the angle `θ = n·π / 2^d`;
  `R_a(θ) = exp(−i·θ/2·σ_a)` (`netqasm.util.quantum_gates.get_rotation_matrix`);
* a controlled rotation applies `R_a(+θ)` when the control is |0⟩ and `R_a(−θ)` when it
  is |1⟩ (`get_controlled_rotation_matrix`).

Every gate is represented by a matrix that is a NON-ZERO SCALAR MULTIPLE of the unitary
(the scalar is irrelevant: circuits are compared up to one non-zero scalar):
* rotations by the phase-normalised, doubled matrix `2·e^{iθ/2}·R_a(θ)`, a polynomial in
  `w = e^{iθ}`; it lies in ℤ[ζ₈] exactly when θ is a multiple of π/4 (`w = ζ^k`);
* the control-|1⟩ block of a controlled rotation in the SAME normalisation is
  `2·e^{iθ/2}·R_a(−θ) = w·(2·e^{−iθ/2}·R_a(−θ))`, again a polynomial in `w`;
* H and K by `√2·H = X + Z`, `√2·K = Y + Z`.

Core Lean only (the model driver links this file).
-/
import NetqasmVerif.Model.Cyc
namespace NQ

/-- 2×2 matrix `[[a, b], [c, d]]` -/
structure M2 (α : Type) where
  a : α
  b : α
  c : α
  d : α
  deriving DecidableEq, Repr

inductive Axis | X | Y | Z
  deriving DecidableEq, Repr

section generic
variable {α : Type} [GScalar α]
open GScalar

/-- `2·e^{iθ/2}·R_ax(θ)` as a polynomial in `w = e^{iθ}` -/
def rot2P (ax : Axis) (w : α) : M2 α :=
  match ax with
  | .X => ⟨add one w, sub one w, sub one w, add one w⟩
  | .Y => ⟨add one w, mul imag (sub w one), mul imag (sub one w), add one w⟩
  | .Z => ⟨add one one, zero, zero, mul (add one one) w⟩

/-- `2·e^{iθ/2}·R_ax(−θ)` (the control-|1⟩ block of `crot`) as a polynomial in `w = e^{iθ}` -/
def rot2PNeg (ax : Axis) (w : α) : M2 α :=
  match ax with
  | .X => ⟨add w one, sub w one, sub w one, add w one⟩
  | .Y => ⟨add w one, mul imag (sub one w), mul imag (sub w one), add w one⟩
  | .Z => ⟨mul (add one one) w, zero, zero, add one one⟩

end generic

namespace M2
def id2 : M2 Cyc := ⟨1, 0, 0, 1⟩
def mul (p q : M2 Cyc) : M2 Cyc :=
  ⟨p.a * q.a + p.b * q.c, p.a * q.b + p.b * q.d, p.c * q.a + p.d * q.c, p.c * q.b + p.d * q.d⟩
def smul (s : Cyc) (p : M2 Cyc) : M2 Cyc := ⟨s * p.a, s * p.b, s * p.c, s * p.d⟩
/-- conjugate transpose -/
def adj (p : M2 Cyc) : M2 Cyc := ⟨p.a.conj, p.c.conj, p.b.conj, p.d.conj⟩
def pow (p : M2 Cyc) : Nat → M2 Cyc
  | 0 => id2
  | k + 1 => mul p (pow p k)
def toList (p : M2 Cyc) : List Cyc := [p.a, p.b, p.c, p.d]
end M2

/-! ### The fixed gates (exact; `hSqrt2`, `kSqrt2` are `√2·H`, `√2·K`) -/
def gX : M2 Cyc := ⟨0, 1, 1, 0⟩
def gY : M2 Cyc := ⟨0, -Cyc.I, Cyc.I, 0⟩
def gZ : M2 Cyc := ⟨1, 0, 0, -1⟩
def gHSqrt2 : M2 Cyc := ⟨1, 1, 1, -1⟩
def gKSqrt2 : M2 Cyc := ⟨1, -Cyc.I, Cyc.I, -1⟩
def gS : M2 Cyc := ⟨1, 0, 0, Cyc.I⟩
def gT : M2 Cyc := ⟨1, 0, 0, Cyc.zeta⟩

/-- `k` with `n·π/2^d = k·π/4 (mod 2π)`, if the angle is a multiple of π/4 -/
def angleK (n d : Nat) : Option Nat :=
  if d ≤ 2 then some ((n * 2 ^ (2 - d)) % 8)
  else if n % 2 ^ (d - 2) = 0 then some ((n / 2 ^ (d - 2)) % 8)
  else none

/-- instruction names: the vanilla and NV gate mnemonics -/
inductive GName
  | x | y | z | h | k | s | t
  | rotX | rotY | rotZ
  | crotX | crotY
  | cnot | cphase
  deriving DecidableEq, Repr

/-- one gate instruction as data: mnemonic, qubit indices (control first), angle `(n, d)` -/
structure GI where
  g : GName
  qs : List Nat
  n : Nat := 0
  d : Nat := 0
  deriving DecidableEq, Repr

/-- an operation on an n-qubit register: `m0` on `tgt` (when `ctrl` is absent or |0⟩),
`m1` on `tgt` when `ctrl` is |1⟩ -/
structure Op where
  ctrl : Option Nat
  tgt : Nat
  m0 : M2 Cyc
  m1 : M2 Cyc
  deriving DecidableEq, Repr

def op1 (q : Nat) (m : M2 Cyc) : Op := ⟨none, q, m, m⟩

def GName.axis? : GName → Option Axis
  | .rotX | .crotX => some .X
  | .rotY | .crotY => some .Y
  | .rotZ => some .Z
  | _ => none

/-- the exact operation a gate instruction denotes (`none`: wrong arity, or an angle that
is not a multiple of π/4 and so has no entry in ℤ[ζ₈]) -/
def GI.toOp (i : GI) : Option Op :=
  match i.g, i.qs with
  | .x, [q] => some (op1 q gX)
  | .y, [q] => some (op1 q gY)
  | .z, [q] => some (op1 q gZ)
  | .h, [q] => some (op1 q gHSqrt2)
  | .k, [q] => some (op1 q gKSqrt2)
  | .s, [q] => some (op1 q gS)
  | .t, [q] => some (op1 q gT)
  | .rotX, [q] => (angleK i.n i.d).map fun k => op1 q (rot2P .X (Cyc.zpow k))
  | .rotY, [q] => (angleK i.n i.d).map fun k => op1 q (rot2P .Y (Cyc.zpow k))
  | .rotZ, [q] => (angleK i.n i.d).map fun k => op1 q (rot2P .Z (Cyc.zpow k))
  | .crotX, [c, t] => if c = t then none else
      (angleK i.n i.d).map fun k => ⟨some c, t, rot2P .X (Cyc.zpow k), rot2PNeg .X (Cyc.zpow k)⟩
  | .crotY, [c, t] => if c = t then none else
      (angleK i.n i.d).map fun k => ⟨some c, t, rot2P .Y (Cyc.zpow k), rot2PNeg .Y (Cyc.zpow k)⟩
  | .cnot, [c, t] => if c = t then none else some ⟨some c, t, M2.id2, gX⟩
  | .cphase, [c, t] => if c = t then none else some ⟨some c, t, M2.id2, gZ⟩
  | _, _ => none

/-- qubits an instruction touches are all `< n` -/
def GI.inRange (n : Nat) (i : GI) : Bool := i.qs.all (· < n)

/-! ### Sparse application -/

abbrev Vec := List Cyc
/-- an operator as the list of its columns (`U e_0, U e_1, …`) -/
abbrev Mat := List Vec

/-- basis vector `e_j` of an n-qubit register -/
def basis (n j : Nat) : Vec := (List.range (2 ^ n)).map fun i => if i = j then 1 else 0

/-- multiply, skipping the arithmetic when a factor is zero (most amplitudes are) -/
@[inline] def Cyc.mulz (x y : Cyc) : Cyc := if x.isZero || y.isZero then 0 else x * y

/-- apply one operation to a state vector of `n` qubits (qubit 0 = most significant bit) -/
def applyOp (n : Nat) (op : Op) (v : Vec) : Vec :=
  let pt := n - 1 - op.tgt
  let mt := 2 ^ pt
  (List.range (2 ^ n)).map fun i =>
    let m := match op.ctrl with
      | none => op.m0
      | some c => if i.testBit (n - 1 - c) then op.m1 else op.m0
    let bt := i.testBit pt
    let i0 := if bt then i - mt else i
    let x0 := v.getD i0 0
    let x1 := v.getD (i0 + mt) 0
    if bt then Cyc.mulz m.c x0 + Cyc.mulz m.d x1 else Cyc.mulz m.a x0 + Cyc.mulz m.b x1

/-- apply a list of operations, first element first -/
def applyOps (n : Nat) : List Op → Vec → Vec
  | [], v => v
  | op :: rest, v => applyOps n rest (applyOp n op v)

/-- translate a gate list (`none` if some instruction has no exact operation or is out of range) -/
def opsOf (n : Nat) : List GI → Option (List Op)
  | [] => some []
  | i :: rest =>
    if i.inRange n then
      match i.toOp, opsOf n rest with
      | some o, some os => some (o :: os)
      | _, _ => none
    else none

/-- the operator (list of columns) of a list of operations on `n` qubits -/
def matOfOps (n : Nat) (ops : List Op) : Mat :=
  (List.range (2 ^ n)).map fun j => applyOps n ops (basis n j)

/-- the operator of a gate list on `n` qubits -/
def circuit (n : Nat) (l : List GI) : Option Mat := (opsOf n l).map (matOfOps n)

/-- apply a gate list to a state -/
def runGates (n : Nat) (l : List GI) (v : Vec) : Option Vec := (opsOf n l).map fun os => applyOps n os v

/-! ### Equality up to one non-zero scalar -/

def firstNonzero : List Cyc → Nat → Option (Nat × Cyc)
  | [], _ => none
  | x :: xs, i => if x.isZero then firstNonzero xs (i + 1) else some (i, x)

def allCross (a b : Cyc) : List Cyc → List Cyc → Bool
  | [], [] => true
  | x :: xs, y :: ys => (x * b == y * a) && allCross a b xs ys
  | _, _ => false

/-- `u = (a/b)·v` with `a, b ≠ 0`: there are non-zero `a, b` with `b·uᵢ = a·vᵢ` for all `i`
(pivot = first non-zero entry of `v`). In a domain this is "equal up to a non-zero scalar". -/
def equivUpToScalarV (u v : Vec) : Bool :=
  match firstNonzero v 0 with
  | none => false
  | some (p, b) =>
    let a := u.getD p 0
    !a.isZero && allCross a b u v

/-- the same for operators given as lists of columns (shapes must agree) -/
def equivUpToScalar (A B : Mat) : Bool :=
  (A.map List.length == B.map List.length) && equivUpToScalarV A.flatten B.flatten

def equivUpToScalar? (A B : Option Mat) : Bool :=
  match A, B with
  | some a, some b => equivUpToScalar a b
  | _, _ => false

/-- exact equality with an explicit scalar: `A = s·B` -/
def eqScaled (s : Cyc) (A B : Mat) : Bool :=
  A == B.map (fun col => col.map (fun x => s * x))

/-! ### Explicit targets, written without `applyOp` (independent of the sparse machinery) -/

/-- the permutation operator `e_j ↦ e_{f j}` -/
def permMat (n : Nat) (f : Nat → Nat) : Mat := (List.range (2 ^ n)).map fun j => basis n (f j)

/-- the diagonal operator `e_j ↦ (f j)·e_j` -/
def diagMat (n : Nat) (f : Nat → Cyc) : Mat :=
  (List.range (2 ^ n)).map fun j => (List.range (2 ^ n)).map fun i => if i = j then f j else 0

/-- bit of qubit `q` in basis index `i` of an `n`-qubit register -/
def qbit (n q i : Nat) : Bool := i.testBit (n - 1 - q)

/-- flip the bit of qubit `q` (named so because `flip` is taken) -/
def toggle (n q i : Nat) : Nat := if qbit n q i then i - 2 ^ (n - 1 - q) else i + 2 ^ (n - 1 - q)

/-- CNOT(c → t) on n qubits as a permutation -/
def cnotMat (n c t : Nat) : Mat := permMat n fun j => if qbit n c j then toggle n t j else j

/-- CPHASE(c, t) on n qubits as a diagonal -/
def cphaseMat (n c t : Nat) : Mat := diagMat n fun j => if qbit n c j && qbit n t j then -1 else 1

/-- `M` on qubit `q` of `n`, identity elsewhere, dense and entry by entry:
`⟨i|U|j⟩ = M[bit_q i][bit_q j]` if `i, j` agree outside `q`, else `0` -/
def embed1 (n q : Nat) (m : M2 Cyc) : Mat :=
  (List.range (2 ^ n)).map fun j => (List.range (2 ^ n)).map fun i =>
    if i = j then (if qbit n q i then m.d else m.a)
    else if i = toggle n q j then (if qbit n q i then m.c else m.b)
    else 0

/-- SWAP of qubits `p`, `q` as a permutation -/
def swapMat (n p q : Nat) : Mat :=
  permMat n fun j => if qbit n p j == qbit n q j then j else toggle n p (toggle n q j)

end NQ
