/-
Model M6 (control/data-flow part): the SDK `Builder` + `MemoryManager` + `Future.add` …
as a function from host programs to proto-commands, mirroring the code METHOD BY METHOD.
Core Lean only (the driver executable links this file).

Code modelled (netqasm/sdk): builder.py (`_get_condition_operand`, `_get_branch_commands*`,
`_build_cmds_condition`, `_build_cmds_loop(_body)`, `sdk_loop_context`, `_foreach_context_*`,
`_loop_until_*`, `_build_cmds_measure`, `_build_cmds_new_qubit`, `_build_cmds_single_qubit`,
`_build_cmds_allocated_arrays`, `_build_cmds_init_array`, `_build_cmds_return_registers`,
`new_register`, `alloc_array`, `subrt_pop_pending_subroutine`, `_reset`), memmgr.py,
futures.py (`Future.add`, `RegFuture.add`, `_get_access_commands`, `get_address_entry`).
The model is of the code WITH the fixes for F17 (temporaries/loop register released) and F5.
-/
namespace NQ.Sdk

/-! ## Proto-commands -/

/-- register: bank 0=R 1=C 2=Q 3=M (`RegisterName.value`) -/
structure Reg where
  bank : Nat
  idx : Nat
  deriving DecidableEq, Repr, Inhabited

/-- label kinds of the builder: 0 IF_EXIT, 1 LOOP, 2 LOOP_EXIT, 3 WHILE, 4 WHILE_EXIT.
`n = 0` is the bare prefix, `n > 0` is prefix ++ toString n (`LabelManager.new_label`). -/
structure Lbl where
  kind : Nat
  n : Nat
  deriving DecidableEq, Repr, Inhabited

def Lbl.prefix : Nat → String
  | 0 => "IF_EXIT" | 1 => "LOOP" | 2 => "LOOP_EXIT" | 3 => "WHILE" | _ => "WHILE_EXIT"

def Lbl.name (l : Lbl) : String :=
  if l.n = 0 then Lbl.prefix l.kind else Lbl.prefix l.kind ++ toString l.n

inductive Mn
  | set | load | store | array | add | addm
  | beq | bne | blt | bge | bez | bnz | jmp
  | retReg | retArr | qalloc | init | meas | qfree
  | gate (g : Nat)        -- 0..6 = X Y Z H S K T
  deriving DecidableEq, Repr, Inhabited

def Mn.name : Mn → String
  | .set => "set" | .load => "load" | .store => "store" | .array => "array" | .add => "add"
  | .addm => "addm" | .beq => "beq" | .bne => "bne" | .blt => "blt" | .bge => "bge"
  | .bez => "bez" | .bnz => "bnz" | .jmp => "jmp" | .retReg => "ret_reg" | .retArr => "ret_arr"
  | .qalloc => "qalloc" | .init => "init" | .meas => "meas" | .qfree => "qfree"
  | .gate 0 => "x" | .gate 1 => "y" | .gate 2 => "z" | .gate 3 => "h" | .gate 4 => "s"
  | .gate 5 => "k" | .gate _ => "t"

/-- operands of proto commands (`T_ProtoOperand`) -/
inductive POp
  | reg (r : Reg)
  | lit (v : Int)
  | lab (l : Lbl)
  | addr (a : Nat)
  | entryL (a : Nat) (i : Nat)      -- `@a[i]`
  | entryR (a : Nat) (r : Reg)      -- `@a[R]`
  deriving DecidableEq, Repr, Inhabited

inductive PCmd
  | label (l : Lbl)
  | instr (mn : Mn) (ops : List POp)
  deriving DecidableEq, Repr, Inhabited

def R (i : Nat) : Reg := ⟨0, i⟩
def Q0 : Reg := ⟨2, 0⟩
def M (i : Nat) : Reg := ⟨3, i⟩

/-! ## Host programs -/

/-- a `Future`: array address + index (int | register handle | Future) -/
inductive Fut
  | lit (a : Nat) (i : Nat)
  | reg (a : Nat) (h : Nat)
  | fut (a : Nat) (f : Fut)
  deriving DecidableEq, Repr, Inhabited

/-- a classical operand `T_CValue` -/
inductive Val
  | lit (v : Int)
  | fut (f : Fut)
  | reg (h : Nat)          -- register handle (RegFuture, or the raw loop register of `loop`/`enumerate`)
  deriving DecidableEq, Repr, Inhabited

inductive Cond | eq | ne | lt | ge | ez | nz
  deriving DecidableEq, Repr, Inhabited

/-- where a measurement outcome goes -/
inductive MTgt
  | newFut            -- `q.measure()`            : new array of length 1, Future index 0
  | fut (f : Fut)     -- `q.measure(future=f)`
  | newReg            -- `q.measure(store_array=False)` : RegFuture on an M register (binds a handle)
  deriving DecidableEq, Repr, Inhabited

/-- register events of an EPR operation (create/recv × keep/measure/rsp/context, any flags), as recorded
from the real builder: `take` = `get_inactive_register(activate=True)` (lowest free register),
`rel p` = `remove_active_register` of the p-th register the operation currently holds -/
inductive EprEv
  | take
  | rel (p : Nat)
  deriving DecidableEq, Repr, Inhabited

/-- Host operations. `seq`/`skip` make blocks; every constructor with a `body`
is an operation that is *completed* when `emit` returns. Handles: register
handles are numbered in creation order (at build time), arrays by address. -/
inductive Host
  | skip
  | seq (a b : Host)
  | newArray (len : Nat) (init : Option (List (Option Int)))
  | newReg (init : Int)                                   -- binds a RegFuture handle
  | qop (gates : List Nat) (tgt : MTgt)                   -- Qubit(conn); gates; measure
  | addF (f : Fut) (o : Val) (md : Option Int)            -- Future.add
  | addR (h : Nat) (o : Val) (md : Option Int)            -- RegFuture.add
  | ifc (cb : Bool) (c : Cond) (a b : Val) (body : Host)  -- cb: callback form; same commands
  | loop (rg : Option Nat) (start stop step : Int) (body : Host)      -- `with conn.loop(.., loop_register=rg) as i` (raw register handle)
  | loopBody (rg : Option Nat) (start stop step : Int) (body : Host)  -- `conn.loop_body(fn, .., loop_register=rg)`  (RegFuture handle)
  | foreach (arr : Nat) (withIdx : Bool) (body : Host)    -- `arr.foreach()` / `arr.enumerate()`
  | loopUntil (maxIter : Int) (body : Host) (ef : Val) (ev : Int) (cleanup : Host)
  | tryUntil (maxTries : Int) (body : Host)
  | epr (evs : List EprEv)     -- an EPR operation, abstracted to its register discipline (C14)
  deriving Repr, Inhabited

inductive Top
  | op (h : Host)
  | flush
  deriving Repr, Inhabited

/-! ## Memory manager state -/

structure ArrDecl where
  addr : Nat
  len : Nat
  init : Option (List (Option Int))
  deriving DecidableEq, Repr, Inhabited

inductive BuildError
  | noRegister        -- "could not find an available loop register"
  | noMeasRegister    -- "Ran out of M-registers"
  | badHandle         -- host program refers to a handle/array that does not exist
  | typeError         -- TypeError / unsupported operand type
  | assertion         -- AssertionError (array length 0, future-indexed future as condition, …)
  | regState          -- add_active_register on an active / remove on an inactive register
  deriving DecidableEq, Repr, Inhabited

structure Mem where
  active : List Bool                 -- `_active_registers` as 16 flags R0..R15
  measUsed : List Bool               -- `_used_meas_registers` M0..M15
  regsToReturn : List Reg
  arraysToReturn : List ArrDecl
  arrLens : List Nat                 -- every array ever allocated (address = position): its length
  lbl : List Nat                     -- label counters per kind (5 entries)
  handles : List (Reg × Bool)        -- register handles (register, isRegFuture)
  peak : Nat                         -- ghost: high-water mark of the number of active registers
  deriving DecidableEq, Repr, Inhabited

def Mem.init : Mem :=
  { active := List.replicate 16 false, measUsed := List.replicate 16 false, regsToReturn := [],
    arraysToReturn := [], arrLens := [], lbl := [0, 0, 0, 0, 0], handles := [], peak := 0 }

def countTrue (l : List Bool) : Nat := (l.filter id).length

/-- index of the first `false` flag (`for i in range(16): if not active`) -/
def firstFree : List Bool → Option Nat
  | [] => none
  | b :: bs => if b then (firstFree bs).map (· + 1) else some 0

/-- `get_inactive_register(activate=False)` -/
def getInactive (m : Mem) : Except BuildError Nat :=
  match firstFree m.active with
  | some i => .ok i
  | none => .error .noRegister

/-- `add_active_register` -/
def activate (m : Mem) (i : Nat) : Except BuildError Mem :=
  if m.active.getD i true then .error .regState
  else
    let a := m.active.set i true
    .ok { m with active := a, peak := max m.peak (countTrue a) }

/-- `remove_active_register` -/
def release (m : Mem) (i : Nat) : Except BuildError Mem :=
  if m.active.getD i false then .ok { m with active := m.active.set i false }
  else .error .regState

/-- `get_inactive_register(activate=True)` -/
def takeReg (m : Mem) : Except BuildError (Mem × Nat) :=
  match getInactive m with
  | .error e => .error e
  | .ok i => match activate m i with
    | .error e => .error e
    | .ok m' => .ok (m', i)

/-- the loop register of `loop` / `loop_body`: chosen by the SDK (`None`) or named by the application
(`loop_register="R<i>"`): an explicit register is taken into use, which fails if it already is -/
def takeAt (m : Mem) : Option Nat → Except BuildError (Mem × Nat)
  | none => takeReg m
  | some i =>
    match activate m i with
    | .error e => .error e
    | .ok m' => .ok (m', i)

/-- `LabelManager.new_label(prefix)` -/
def newLabel (m : Mem) (kind : Nat) : Mem × Lbl :=
  let n := m.lbl.getD kind 0
  ({ m with lbl := m.lbl.set kind (n + 1) }, ⟨kind, n⟩)

def bindHandle (m : Mem) (r : Reg) (isRF : Bool) : Mem :=
  { m with handles := m.handles ++ [(r, isRF)] }

def handle (m : Mem) (h : Nat) : Except BuildError (Reg × Bool) :=
  match m.handles[h]? with
  | some x => .ok x
  | none => .error .badHandle

/-! ## futures.py -/

def accessMn (store : Bool) : Mn := if store then .store else .load

/-- `Future._get_access_commands(instruction, register)` -/
def accessCmds (m : Mem) (store : Bool) (r : Reg) : Fut → Except BuildError (Mem × List PCmd)
  | .lit a i => .ok (m, [.instr (accessMn store) [.reg r, .entryL a i]])
  | .reg a h =>
    match handle m h with
    | .error e => .error e
    | .ok (ir, _) => .ok (m, [.instr (accessMn store) [.reg r, .entryR a ir]])
  | .fut a f =>
    match getInactive m with
    | .error e => .error e
    | .ok t =>
      match activate m t with
      | .error e => .error e
      | .ok m1 =>
        match accessCmds m1 false (R t) f with
        | .error e => .error e
        | .ok (m2, cs) =>
          match release m2 t with
          | .error e => .error e
          | .ok m3 => .ok (m3, cs ++ [.instr (accessMn store) [.reg r, .entryR a (R t)]])

/-- `Future.get_address_entry()` -/
def addressEntry (m : Mem) : Fut → Except BuildError POp
  | .lit a i => .ok (.entryL a i)
  | .reg a h =>
    match handle m h with
    | .error e => .error e
    | .ok (ir, _) => .ok (.entryR a ir)
  | .fut _ _ => .error .assertion

/-- the `other` operand of `Future.add` / `RegFuture.add`:
returns (mem, load cmds, operand, temporary to release). A Future operand is loaded into a
new temporary and NOT stored back (fixes of F43). -/
def addOther (m : Mem) : Val → Except BuildError (Mem × List PCmd × POp × Option Nat)
  | .lit v => .ok (m, [], .lit v, none)
  | .reg h =>
    match handle m h with
    | .error e => .error e
    | .ok (r, isRF) => if isRF then .error .typeError else .ok (m, [], .reg r, none)
  | .fut g =>
    match takeReg m with
    | .error e => .error e
    | .ok (m1, t) =>
      match accessCmds m1 false (R t) g with
      | .error e => .error e
      | .ok (m2, ld) => .ok (m2, ld, .reg (R t), some t)

def releaseOpt (m : Mem) : Option Nat → Except BuildError Mem
  | none => .ok m
  | some t => release m t

def addInstr (dst : Reg) (o : POp) : Option Int → PCmd
  | none => .instr .add [.reg dst, .reg dst, o]
  | some md => .instr .addm [.reg dst, .reg dst, o, .lit md]

/-- `Future.add(other, mod)` -/
def emitAddF (m : Mem) (f : Fut) (o : Val) (md : Option Int) : Except BuildError (Mem × List PCmd) :=
  match takeReg m with
  | .error e => .error e
  | .ok (m1, t) =>
    match accessCmds m1 false (R t) f with
    | .error e => .error e
    | .ok (m2, ld) =>
      match accessCmds m2 true (R t) f with
      | .error e => .error e
      | .ok (m3, st) =>
        match addOther m3 o with
        | .error e => .error e
        | .ok (m4, ld2, oo, tmp2) =>
          match release m4 t with
          | .error e => .error e
          | .ok m5 =>
            match releaseOpt m5 tmp2 with
            | .error e => .error e
            | .ok m6 => .ok (m6, (ld ++ ld2) ++ [addInstr (R t) oo md] ++ st)

/-- `RegFuture.add(other, mod)` -/
def emitAddR (m : Mem) (h : Nat) (o : Val) (md : Option Int) : Except BuildError (Mem × List PCmd) :=
  match handle m h with
  | .error e => .error e
  | .ok (r, isRF) =>
    if !isRF then .error .typeError else
    match addOther m o with
    | .error e => .error e
    | .ok (m1, ld2, oo, tmp2) =>
      match releaseOpt m1 tmp2 with
      | .error e => .error e
      | .ok m2 => .ok (m2, ld2 ++ [addInstr r oo md])

/-! ## builder.py: conditions -/

/-- `_get_condition_operand`: (mem, commands, operand, temporary that the caller releases) -/
def condOperand (m : Mem) : Val → Except BuildError (Mem × List PCmd × POp × Option Nat)
  | .fut f =>
    match takeReg m with
    | .error e => .error e
    | .ok (m1, t) =>
      match addressEntry m1 f with
      | .error e => .error e
      | .ok ent => .ok (m1, [.instr .load [.reg (R t), ent]], .reg (R t), some t)
  | .reg h =>
    match handle m h with
    | .error e => .error e
    | .ok (r, isRF) => if isRF then .ok (m, [], .reg r, none) else .error .typeError
  | .lit v => .ok (m, [], .lit v, none)

/-- `flip_branch_instr` applied to the condition of the `if` -/
def negBranch : Cond → Mn
  | .eq => .bne | .ne => .beq | .lt => .bge | .ge => .blt | .ez => .bnz | .nz => .bez

def Cond.unary : Cond → Bool
  | .ez => true | .nz => true | _ => false

/-- `_get_branch_commands_single_operand` / `_get_branch_commands`: (mem, if_start, exit label) -/
def branchCmds (m : Mem) (c : Cond) (a b : Val) : Except BuildError (Mem × List PCmd × Lbl) :=
  let (m0, l) := newLabel m 0
  if c.unary then
    match condOperand m0 a with
    | .error e => .error e
    | .ok (m1, cs, oa, ta) =>
      match releaseOpt m1 ta with
      | .error e => .error e
      | .ok m2 => .ok (m2, cs ++ [.instr (negBranch c) [oa, .lab l]], l)
  else
    match condOperand m0 a with
    | .error e => .error e
    | .ok (m1, ca, oa, ta) =>
      match condOperand m1 b with
      | .error e => .error e
      | .ok (m2, cb, ob, tb) =>
        match releaseOpt m2 ta with
        | .error e => .error e
        | .ok m3 =>
          match releaseOpt m3 tb with
          | .error e => .error e
          | .ok m4 => .ok (m4, (ca ++ cb) ++ [.instr (negBranch c) [oa, ob, .lab l]], l)

/-- `_build_cmds_condition` (pre-commands left out: they stay in front) -/
def buildCondition (m : Mem) (c : Cond) (a b : Val) (body : List PCmd) :
    Except BuildError (Mem × List PCmd) :=
  if body.isEmpty then .ok (m, []) else
  match branchCmds m c a b with
  | .error e => .error e
  | .ok (m1, start, l) => .ok (m1, start ++ body ++ [.label l])

/-! ## builder.py: loops -/

/-- `_build_cmds_loop` -/
def buildLoop (m : Mem) (start stop step : Int) (r : Reg) (body : List PCmd) : Mem × List PCmd :=
  if body.isEmpty then (m, []) else
  let (m1, le) := newLabel m 1
  let (m2, lx) := newLabel m1 2
  (m2, [.instr .set [.reg r, .lit start], .label le, .instr .beq [.reg r, .lit stop, .lab lx]]
        ++ body ++
        [.instr .add [.reg r, .reg r, .lit step], .instr .jmp [.lab le], .label lx])

/-- `_build_cmds_loop_until` with `_loop_until_get_break_commands` for a
`ValueAtMostConstraint(ef, ev)`; `cleanup` is run after the break commands were made. -/
def loopUntilEntry (r : Reg) (maxIter : Int) (le lx : Lbl) : List PCmd :=
  [.instr .set [.reg r, .lit 0], .label le, .instr .beq [.reg r, .lit maxIter, .lab lx]]

def loopUntilExit (r : Reg) (le lx : Lbl) : List PCmd :=
  [.instr .add [.reg r, .reg r, .lit 1], .instr .jmp [.lab le], .label lx]

/-- `_loop_until_get_break_commands` (fixed: temporaries released, bound + 1) -/
def breakCmds (m : Mem) (ef : Val) (ev : Int) (lx : Lbl) : Except BuildError (Mem × List PCmd) :=
  match condOperand m ef with
  | .error e => .error e
  | .ok (m1, cs, o, t) =>
    match releaseOpt m1 t with
    | .error e => .error e
    | .ok m2 => .ok (m2, cs ++ [.instr .blt [o, .lit (ev + 1), .lab lx]])

/-! ## builder.py: measurement -/

def firstUnusedMeas (m : Mem) : Except BuildError (Mem × Nat) :=
  match firstFree m.measUsed with
  | some i => .ok ({ m with measUsed := m.measUsed.set i true }, i)
  | none => .error .noMeasRegister

def gateCmds : List Nat → List PCmd
  | [] => []
  | g :: gs => [.instr .set [.reg Q0, .lit 0], .instr (.gate g) [.reg Q0]] ++ gateCmds gs

/-- `Qubit(conn)` (virtual id 0: no other qubit is active in this fragment), gates,
`measure(future / store_array)` with `inplace=False` — `_build_cmds_measure` -/
def emitQop (m : Mem) (gates : List Nat) (tgt : MTgt) : Except BuildError (Mem × List PCmd) :=
  let newq : List PCmd := [.instr .set [.reg Q0, .lit 0], .instr .qalloc [.reg Q0], .instr .init [.reg Q0]]
  -- `alloc_array(1)` happens in `Qubit.measure` before `_build_cmds_measure`
  let (m0, fut?) : Mem × Option Fut := match tgt with
    | .newFut =>
      let a := m.arrLens.length
      ({ m with arrLens := m.arrLens ++ [1], arraysToReturn := m.arraysToReturn ++ [⟨a, 1, none⟩] },
        some (.lit a 0))
    | .fut f => (m, some f)
    | .newReg => (m, none)
  match firstUnusedMeas m0 with
  | .error e => .error e
  | .ok (m1, k) =>
    let head := newq ++ gateCmds gates ++
      [.instr .set [.reg Q0, .lit 0], .instr .meas [.reg Q0, .reg (M k)], .instr .qfree [.reg Q0]]
    match fut? with
    | some f =>
      match accessCmds m1 true (M k) f with
      | .error e => .error e
      | .ok (m2, st) => .ok ({ m2 with measUsed := m2.measUsed.set k false }, head ++ st)
    | none =>
      .ok (bindHandle { m1 with regsToReturn := m1.regsToReturn ++ [M k] } (M k) true, head)

/-- replay of the register events of an EPR operation; `held` = registers it currently holds -/
def emitEprH (m : Mem) (held : List Nat) : List EprEv → Except BuildError (Mem × List Nat)
  | [] => .ok (m, held)
  | .take :: es =>
    match takeReg m with
    | .error e => .error e
    | .ok (m1, i) => emitEprH m1 (held ++ [i]) es
  | .rel p :: es =>
    match held[p]? with
    | none => .error .regState
    | some i =>
      match release m i with
      | .error e => .error e
      | .ok m1 => emitEprH m1 (held.erase i) es

/-! ## the builder on host operations -/

def arrLen (m : Mem) (a : Nat) : Except BuildError Nat :=
  match m.arrLens[a]? with
  | some n => .ok n
  | none => .error .badHandle

/-- commands appended to the pending list by one host operation -/
def emit (m : Mem) : Host → Except BuildError (Mem × List PCmd)
  | .skip => .ok (m, [])
  | .seq a b =>
    match emit m a with
    | .error e => .error e
    | .ok (m1, ca) =>
      match emit m1 b with
      | .error e => .error e
      | .ok (m2, cb) => .ok (m2, ca ++ cb)
  | .newArray len init =>
    let n := match init with | some vs => vs.length | none => len
    if n = 0 then .error .assertion else
    let a := m.arrLens.length
    .ok ({ m with arrLens := m.arrLens ++ [n], arraysToReturn := m.arraysToReturn ++ [⟨a, n, init⟩] }, [])
  | .newReg v =>
    match takeReg m with
    | .error e => .error e
    | .ok (m1, i) =>
      .ok (bindHandle { m1 with regsToReturn := m1.regsToReturn ++ [R i] } (R i) true,
           [.instr .set [.reg (R i), .lit v]])
  | .qop gates tgt => emitQop m gates tgt
  | .addF f o md => emitAddF m f o md
  | .addR h o md => emitAddR m h o md
  | .ifc _ c a b body =>
    match emit m body with
    | .error e => .error e
    | .ok (m1, cs) => buildCondition m1 c a b cs
  | .loop rg start stop step body =>
    match takeAt m rg with
    | .error e => .error e
    | .ok (m1, i) =>
      match emit (bindHandle m1 (R i) false) body with
      | .error e => .error e
      | .ok (m2, cs) =>
        let (m3, out) := buildLoop m2 start stop step (R i) cs
        match release m3 i with
        | .error e => .error e
        | .ok m4 => .ok (m4, out)
  | .loopBody rg start stop step body =>
    match takeAt m rg with
    | .error e => .error e
    | .ok (m1, i) =>
      match emit (bindHandle m1 (R i) true) body with
      | .error e => .error e
      | .ok (m2, cs) =>
        let (m3, out) := buildLoop m2 start stop step (R i) cs
        match release m3 i with
        | .error e => .error e
        | .ok m4 => .ok (m4, out)
  | .foreach arr _ body =>
    match arrLen m arr with
    | .error e => .error e
    | .ok n =>
      match takeReg m with
      | .error e => .error e
      | .ok (m1, i) =>
        match emit (bindHandle m1 (R i) false) body with
        | .error e => .error e
        | .ok (m2, cs) =>
          let (m3, out) := buildLoop m2 0 n 1 (R i) cs
          match release m3 i with
          | .error e => .error e
          | .ok m4 => .ok (m4, out)
  | .loopUntil maxIter body ef ev cleanup =>
    match takeReg m with
    | .error e => .error e
    | .ok (m1, i) =>
      match emit (bindHandle m1 (R i) true) body with
      | .error e => .error e
      | .ok (m2, cs) =>
        if cs.isEmpty then
          match release m2 i with
          | .error e => .error e
          | .ok m3 => .ok (m3, [])
        else
          let (m3, le) := newLabel m2 3
          let (m4, lx) := newLabel m3 4
          match breakCmds m4 ef ev lx with
          | .error e => .error e
          | .ok (m5, brk) =>
            match emit m5 cleanup with
            | .error e => .error e
            | .ok (m6, cl) =>
              match release m6 i with
              | .error e => .error e
              | .ok m7 =>
                .ok (m7, loopUntilEntry (R i) maxIter le lx ++ cs ++ brk ++ cl ++ loopUntilExit (R i) le lx)
  | .tryUntil _ body => emit m body
  | .epr evs =>
    match emitEprH m [] evs with
    | .error e => .error e
    | .ok (m1, _) => .ok (m1, [])

/-! ## flush -/

/-- is the all-equal loop optimisation taken? (`length > 1 and init[0] is not None and
init.count(init[0]) == length`) -/
def allEqualInit : List (Option Int) → Option Int
  | some v :: rest => if !rest.isEmpty && rest.all (· == some v) then some v else none
  | _ => none

def storeInits (a : Nat) : Nat → List (Option Int) → List PCmd
  | _, [] => []
  | i, none :: vs => storeInits a (i + 1) vs
  | i, some v :: vs => .instr .store [.lit v, .entryL a i] :: storeInits a (i + 1) vs

/-- `_build_cmds_init_array(array)` acting on the pending list `pend` (the commands of the
arrays initialised before): NB the loop variant pops the pending commands and re-emits them
*after* this array's `array` command. -/
def initArray (m : Mem) (pend : List PCmd) (d : ArrDecl) : Except BuildError (Mem × List PCmd) :=
  let decl : PCmd := .instr .array [.lit d.len, .addr d.addr]
  match d.init with
  | none => .ok (m, pend ++ [decl])
  | some vs =>
    match allEqualInit vs with
    | some v =>
      match getInactive m with
      | .error e => .error e
      | .ok i =>
        match activate m i with
        | .error e => .error e
        | .ok m1 =>
          let (m2, lp) := buildLoop m1 0 vs.length 1 (R i) [.instr .store [.lit v, .entryR d.addr (R i)]]
          match release m2 i with
          | .error e => .error e
          | .ok m3 => .ok (m3, decl :: (pend ++ lp))
    | none => .ok (m, pend ++ (decl :: storeInits d.addr 0 vs))

def initArrays (m : Mem) (pend : List PCmd) : List ArrDecl → Except BuildError (Mem × List PCmd)
  | [] => .ok (m, pend)
  | d :: ds =>
    match initArray m pend d with
    | .error e => .error e
    | .ok (m1, p1) => initArrays m1 p1 ds

/-- `subrt_pop_pending_subroutine()` followed by `_reset()`: the proto-subroutine
(`none` when there is nothing to send) and the memory manager afterwards. -/
def flush (m : Mem) (pend : List PCmd) : Except BuildError (Mem × Option (List PCmd)) :=
  match initArrays m [] m.arraysToReturn with
  | .error e => .error e
  | .ok (m1, ini) =>
    let cmds := ini ++ pend ++ m1.arraysToReturn.map (fun d => PCmd.instr .retArr [.addr d.addr])
      ++ m1.regsToReturn.map (fun r => PCmd.instr .retReg [.reg r])
    if cmds.isEmpty then .ok (m1, none)
    else .ok ({ m1 with arraysToReturn := [], regsToReturn := [],
                        measUsed := List.replicate 16 false }, some cmds)

/-- snapshot compared with the real `MemoryManager` after every top-level step -/
structure Snap where
  active : List Nat
  measUsed : List Nat
  regsToReturn : List Reg
  arraysToReturn : List Nat
  nArrays : Nat
  deriving DecidableEq, Repr, Inhabited

def trueIdx (l : List Bool) : List Nat :=
  (List.range l.length).filter (fun i => l.getD i false)

def Mem.snap (m : Mem) : Snap :=
  ⟨trueIdx m.active, trueIdx m.measUsed, m.regsToReturn, m.arraysToReturn.map (·.addr), m.arrLens.length⟩

structure RunOut where
  subs : List (Option (List PCmd))     -- one entry per flush
  snaps : List Snap                    -- one entry per top-level step
  err : Option (Nat × BuildError)      -- step at which building raised
  mem : Mem
  deriving Repr, Inhabited

/-- a whole host program with its flush points -/
def runProg (m : Mem) (pend : List PCmd) (step : Nat) (acc : RunOut) : List Top → RunOut
  | [] => { acc with mem := m }
  | .op h :: rest =>
    match emit m h with
    | .error e => { acc with err := some (step, e), mem := m }
    | .ok (m1, cs) => runProg m1 (pend ++ cs) (step + 1) { acc with snaps := acc.snaps ++ [m1.snap] } rest
  | .flush :: rest =>
    match flush m pend with
    | .error e => { acc with err := some (step, e), mem := m }
    | .ok (m1, sub) =>
      runProg m1 [] (step + 1) { acc with snaps := acc.snaps ++ [m1.snap], subs := acc.subs ++ [sub] } rest

def run (p : List Top) : RunOut := runProg Mem.init [] 0 ⟨[], [], none, Mem.init⟩ p

end NQ.Sdk
