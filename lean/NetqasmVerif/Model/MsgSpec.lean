/-
The PINNED message formats of netqasm/backend/messages.py (C15): every ctypes message with its
type byte, `sizeof` and leaf fields (name, first bit, width in bits, signedness), both dispatch
tables, the header of `ReturnArrayMessage` and `OptionalInt`.  Transcribed once from the pinned tree
(like `Model/WireSpec.lean` for the instruction table) and frozen: it is what "the declared widths"
of the property statement refers to from now on.  A field that is silently narrowed, widened, moved
or re-typed in /repo makes the generated layout differ from this file (`msg_layouts_pinned`), and
the oracle of checks/c15.py drives the boundary values of THESE widths through the real code.
(`harness/msgs.py` parses the `layouts := [...]` block below: keep one message per line.)
-/
import NetqasmVerif.Model.Msg
namespace NQ.MsgSpec
open NQ.Msg

def tables : Tables := {
  layouts := [
    ⟨⟨"InitNewAppMessage", 12, [⟨"type", 0, 8, false⟩, ⟨"app_id", 32, 32, false⟩, ⟨"max_qubits", 64, 8, false⟩]⟩, 0⟩,
    ⟨⟨"OpenEPRSocketMessage", 24, [⟨"type", 0, 8, false⟩, ⟨"app_id", 32, 32, false⟩, ⟨"epr_socket_id", 64, 32, true⟩, ⟨"remote_node_id", 96, 32, true⟩, ⟨"remote_epr_socket_id", 128, 32, true⟩, ⟨"min_fidelity", 160, 8, false⟩]⟩, 1⟩,
    ⟨⟨"StopAppMessage", 8, [⟨"type", 0, 8, false⟩, ⟨"app_id", 32, 32, false⟩]⟩, 3⟩,
    ⟨⟨"SignalMessage", 2, [⟨"type", 0, 8, false⟩, ⟨"signal", 8, 8, false⟩]⟩, 4⟩,
    ⟨⟨"MsgDoneMessage", 8, [⟨"type", 0, 8, false⟩, ⟨"msg_id", 32, 32, false⟩]⟩, 0⟩,
    ⟨⟨"ErrorMessage", 2, [⟨"type", 0, 8, false⟩, ⟨"err_code", 8, 8, false⟩]⟩, 1⟩,
    ⟨⟨"ReturnRegMessage", 8, [⟨"type", 0, 8, false⟩, ⟨"register.register_name", 8, 2, false⟩, ⟨"register.register_index", 10, 4, false⟩, ⟨"register.padding", 14, 2, false⟩, ⟨"value", 32, 32, true⟩]⟩, 3⟩
  ],
  hostDispatch := [(0, "InitNewAppMessage"), (1, "OpenEPRSocketMessage"), (2, "SubroutineMessage"), (3, "StopAppMessage"), (4, "SignalMessage")],
  returnDispatch := [(0, "MsgDoneMessage"), (1, "ErrorMessage"), (3, "ReturnRegMessage"), (2, "ReturnArrayMessage")],
  subroutineCls := "SubroutineMessage",
  subroutineTy := 2,
  retArrCls := "ReturnArrayMessage",
  retArrTy := 2,
  retArrHeader := ⟨"ReturnArrayMessageHeader", 8, [⟨"address.address", 0, 32, true⟩, ⟨"length", 32, 32, true⟩]⟩,
  optionalInt := ⟨"OptionalInt", 8, [⟨"type", 0, 8, false⟩, ⟨"_value", 32, 32, true⟩]⟩,
  nullTag := 0,
  intTag := 1
}

end NQ.MsgSpec
