/-
Model of the entry routes that feed possibly unrepresentable operands into the codec
(C16): the SDK's rotation / measurement-basis emission (including the hardware-mode
angle normalisation of `netqasm/sdk/transpile.py: get_hardware_num_denom`) and the
metadata given as unbounded Python integers.
-/
import NetqasmVerif.Model.Codec
namespace NQ

/-- `Builder._build_cmds_single_qubit_rotation` followed (in hardware mode on the NV
flavour) by `get_hardware_num_denom`: `n·π/2^d` becomes `(n·2^(4−d))·π/2^4`.
`none` = the SDK itself raises (negative `n`/`d`; hardware mode with `d ∉ 0..4`). -/
def sdkRot (hw : Bool) (cls : String) (q n d : Int) : Option Instr :=
  if n < 0 ∨ d < 0 then none
  else if hw then
    (if d ≤ 4 then some ⟨cls, [.reg ⟨2, q⟩, .imm (n * ((2 ^ (4 - d).toNat : Nat) : Int)), .imm 4]⟩
     else none)
  else some ⟨cls, [.reg ⟨2, q⟩, .imm n, .imm d]⟩

/-- `Builder._build_cmds_measure` with `basis_rotations=(x1, y, x2)`: no check in the SDK -/
def sdkMeasBasis (q m x1 y x2 : Int) : Instr :=
  ⟨"core.MeasBasisInstruction", [.reg ⟨2, q⟩, .reg ⟨3, m⟩, .imm x1, .imm y, .imm x2, .imm 4]⟩

/-- `Builder._build_cmds_breakpoint(action, role)`: `action.value`, `role.value` become the two
8-bit immediates; no check in the SDK -/
def sdkBreakpoint (a r : Int) : Instr := ⟨"core.BreakpointInstruction", [.imm a, .imm r]⟩

def encodeOptInstr (T : Table) : Option Instr → Option (List Nat)
  | some i => encodeInstr T i
  | none => none

/-- `bytes(Subroutine)` with the metadata as Python integers (possibly negative) -/
def encodeSubZ (T : Table) (v0 v1 app : Int) (is : List Instr) : Option (List Nat) :=
  if v0 < 0 ∨ v1 < 0 ∨ app < 0 then none
  else encodeSub T ⟨v0.toNat, v1.toNat, app.toNat, is⟩

end NQ
