/-
The pinned NetQASM instruction table (opcode, mnemonic, operand kinds in declared
order).  Transcribed once from the pinned tree; it is the interoperability contract
from now on and is NOT regenerated.  (No published table is available offline.)
-/
import NetqasmVerif.Model.Basic
namespace NQ.WireSpec

abbrev Sig := Nat × String × List FieldKind

def core : List Sig := [
  (1, "qalloc", [.reg]), (2, "init", [.reg]), (3, "array", [.reg, .addr]),
  (4, "set", [.reg, .int32]), (5, "store", [.reg, .entry]), (6, "load", [.reg, .entry]),
  (7, "undef", [.entry]), (8, "lea", [.reg, .addr]), (9, "jmp", [.int32]),
  (10, "bez", [.reg, .int32]), (11, "bnz", [.reg, .int32]),
  (12, "beq", [.reg, .reg, .int32]), (13, "bne", [.reg, .reg, .int32]),
  (14, "blt", [.reg, .reg, .int32]), (15, "bge", [.reg, .reg, .int32]),
  (16, "add", [.reg, .reg, .reg]), (17, "sub", [.reg, .reg, .reg]),
  (18, "addm", [.reg, .reg, .reg, .reg]), (19, "subm", [.reg, .reg, .reg, .reg]),
  (32, "meas", [.reg, .reg]),
  (41, "meas_basis", [.reg, .reg, .imm8, .imm8, .imm8, .imm8]),
  (33, "create_epr", [.reg, .reg, .reg, .reg, .reg]),
  (34, "recv_epr", [.reg, .reg, .reg, .reg]),
  (35, "wait_all", [.slice]), (36, "wait_any", [.slice]), (37, "wait_single", [.entry]),
  (38, "qfree", [.reg]), (39, "ret_reg", [.reg]), (40, "ret_arr", [.addr]),
  (100, "breakpoint", [.imm8, .imm8])]

def vanilla : List Sig := [
  (20, "x", [.reg]), (21, "y", [.reg]), (22, "z", [.reg]), (23, "h", [.reg]),
  (24, "s", [.reg]), (25, "k", [.reg]), (26, "t", [.reg]),
  (27, "rot_x", [.reg, .imm8, .imm8]), (28, "rot_y", [.reg, .imm8, .imm8]),
  (29, "rot_z", [.reg, .imm8, .imm8]),
  (30, "cnot", [.reg, .reg]), (31, "cphase", [.reg, .reg]), (41, "mov", [.reg, .reg])]

def nv : List Sig := [
  (27, "rot_x", [.reg, .imm8, .imm8]), (28, "rot_y", [.reg, .imm8, .imm8]),
  (29, "rot_z", [.reg, .imm8, .imm8]),
  (30, "crot_x", [.reg, .reg, .imm8, .imm8]), (31, "crot_y", [.reg, .reg, .imm8, .imm8])]

def reids : List Sig := []

def sig (r : Row) : Sig := (r.opcode, r.mn, r.shape)

end NQ.WireSpec
