/-
Model M1 (part 2): the 7-byte wire codec.  Bytes are `Nat`s (< 256 by construction).
`encode*` returns `none` where the real code raises.
-/
import NetqasmVerif.Model.Basic
namespace NQ

def inI32 (v : Int) : Bool := decide (-2147483648 ≤ v) && decide (v < 2147483648)
def inU8 (v : Int) : Bool := decide (0 ≤ v) && decide (v < 256)
def okReg (r : Reg) : Bool := decide (r.bank < 4) && decide (0 ≤ r.idx) && decide (r.idx < 16)

/-- four little-endian two's-complement bytes -/
def le32 (v : Int) : List Nat :=
  let u := (v % 4294967296).toNat
  [u % 256, u / 256 % 256, u / 65536 % 256, u / 16777216 % 256]

def unle32 (b0 b1 b2 b3 : Nat) : Int :=
  let u := b0 + 256 * b1 + 65536 * b2 + 16777216 * b3
  if u ≥ 2147483648 then (u : Int) - 4294967296 else (u : Int)

/-- register byte: 2-bit bank in the low bits, then the 4-bit index -/
def regByte (r : Reg) : Nat := r.bank + 4 * r.idx.toNat
def unregByte (b : Nat) : Reg := ⟨b % 4, ((b / 4 % 16 : Nat) : Int)⟩

def kindSize : FieldKind → Nat
  | .reg => 1 | .imm8 => 1 | .int32 => 4 | .addr => 4 | .entry => 5 | .slice => 6

def shapeSize (s : List FieldKind) : Nat := (s.map kindSize).sum

def InRangeOp : FieldKind → Operand → Bool
  | .reg, .reg r => okReg r
  | .imm8, .imm v => inU8 v
  | .int32, .imm v => inI32 v
  | .addr, .addr a => inI32 a
  | .entry, .entry a i => inI32 a && okReg i
  | .slice, .slice a s e => inI32 a && okReg s && okReg e
  | _, _ => false

def InRangeOps : List FieldKind → List Operand → Bool
  | [], [] => true
  | k :: ks, o :: os => InRangeOp k o && InRangeOps ks os
  | _, _ => false

def encodeOp (k : FieldKind) (o : Operand) : Option (List Nat) :=
  if InRangeOp k o then
    match o with
    | .reg r => some [regByte r]
    | .imm v => if k == .imm8 then some [v.toNat] else some (le32 v)
    | .addr a => some (le32 a)
    | .entry a i => some (le32 a ++ [regByte i])
    | .slice a s e => some (le32 a ++ [regByte s, regByte e])
  else none

def encodeOps : List FieldKind → List Operand → Option (List Nat)
  | [], [] => some []
  | k :: ks, o :: os =>
      match encodeOp k o, encodeOps ks os with
      | some b, some bs => some (b ++ bs)
      | _, _ => none
  | _, _ => none

def COMMAND_BYTES : Nat := 7

/-- `instr.serialize()` for an instance of class `row` -/
def encodeRow (row : Row) (ops : List Operand) : Option (List Nat) :=
  match encodeOps row.shape ops with
  | some body =>
    if row.opcode < 256 ∧ body.length ≤ 6 then
      some (row.opcode :: (body ++ List.replicate (6 - body.length) 0))
    else none
  | none => none

def encodeInstr (T : Table) (i : Instr) : Option (List Nat) :=
  match rowOf T i.cls with
  | some row => encodeRow row i.ops
  | none => none

def decodeOp (k : FieldKind) (bs : List Nat) : Option (Operand × List Nat) :=
  match k, bs with
  | .reg, b :: rest => some (.reg (unregByte b), rest)
  | .imm8, b :: rest => some (.imm (b : Int), rest)
  | .int32, b0 :: b1 :: b2 :: b3 :: rest => some (.imm (unle32 b0 b1 b2 b3), rest)
  | .addr, b0 :: b1 :: b2 :: b3 :: rest => some (.addr (unle32 b0 b1 b2 b3), rest)
  | .entry, b0 :: b1 :: b2 :: b3 :: i :: rest =>
      some (.entry (unle32 b0 b1 b2 b3) (unregByte i), rest)
  | .slice, b0 :: b1 :: b2 :: b3 :: s :: e :: rest =>
      some (.slice (unle32 b0 b1 b2 b3) (unregByte s) (unregByte e), rest)
  | _, _ => none

def decodeOps : List FieldKind → List Nat → Option (List Operand)
  | [], _ => some []
  | k :: ks, bs =>
      match decodeOp k bs with
      | some (o, rest) =>
        match decodeOps ks rest with
        | some os => some (o :: os)
        | none => none
      | none => none

/-- `Deserializer.deserialize_command`: peek the opcode, dispatch through `id_map`. -/
def decodeInstr (T : Table) (bs : List Nat) : Option Instr :=
  match bs with
  | op :: body =>
    if body.length = 6 then
      match idMap T op with
      | some row =>
        match decodeOps row.shape body with
        | some ops => some ⟨row.cls, ops⟩
        | none => none
      | none => none
    else none
  | [] => none

structure Sub where
  v0 : Nat
  v1 : Nat
  app : Nat
  instrs : List Instr
  deriving DecidableEq, Repr

def encodeInstrs (T : Table) : List Instr → Option (List Nat)
  | [] => some []
  | i :: is =>
      match encodeInstr T i, encodeInstrs T is with
      | some b, some bs => some (b ++ bs)
      | _, _ => none

/-- `bytes(Subroutine)`: two version bytes, LE16 app id, then the commands -/
def encodeSub (T : Table) (s : Sub) : Option (List Nat) :=
  if s.v0 < 256 ∧ s.v1 < 256 ∧ s.app < 65536 then
    match encodeInstrs T s.instrs with
    | some body => some (s.v0 :: s.v1 :: s.app % 256 :: s.app / 256 :: body)
    | none => none
  else none

def decodeInstrs (T : Table) : List Nat → Option (List Instr)
  | [] => some []
  | b0 :: b1 :: b2 :: b3 :: b4 :: b5 :: b6 :: rest =>
      match decodeInstr T [b0, b1, b2, b3, b4, b5, b6], decodeInstrs T rest with
      | some i, some is => some (i :: is)
      | _, _ => none
  | _ => none

def decodeSub (T : Table) : List Nat → Option Sub
  | v0 :: v1 :: a0 :: a1 :: body =>
      match decodeInstrs T body with
      | some is => some ⟨v0, v1, a0 + 256 * a1, is⟩
      | none => none
  | _ => none

end NQ
