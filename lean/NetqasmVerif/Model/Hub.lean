/-
Model of `netqasm/sdk/classical_communication/thread_socket/socket_hub.py` (`_SocketHub`) together
with the `connected` check of `ThreadSocket.send` (M9, property C18) — the code AFTER the fix of F20
(`connect` registers the callbacks BEFORE publishing the key in `_open_sockets`).

Granularity: one transition = one source line of `_SocketHub` that touches shared state
(`_open_sockets`, `_remote_sockets`, `_messages`, `_recv_callbacks`, `_conn_lost_callbacks`, `_lock`,
a callback invocation).  A thread is always "parked" in front of such a line (`Pc`), a step executes
that line plus the purely local lines up to the next such line.  One thread per endpoint (node):
thread `tid` owns exactly the keys `(tid, remote node, socket id)`, as `ThreadSocket.key`;
`rkey` is `ThreadSocket.remote_key`.

History (ghost) variables: `sent`, `delivered` per directed channel (= the receiver's key),
`everOpen` (the key was published once), `remRemoved` (the peer removed it from `_remote_sockets`).

Assumed, not modelled: atomicity of single set/dict/list operations under the GIL and of
`threading.Lock`; OS preemption inside C code; timeouts (`timeout=None`); garbage collection
(`__del__`, dead `WeakMethod`s); `sleep` (set to 0 by the harness).
-/
namespace NQ.Hub

abbrev Key := Nat × Nat × Nat
/-- What travels through a channel: a Python string.  Strings are partitioned into those that `json.loads` to a
`{"header": h, "payload": p}` object (`json h p`, what `send_structured` produces) and all the others (`text s`;
`text 0` stands for the empty string).  Numerals denote `text` strings. -/
inductive Wire
  | text (s : Nat)
  | json (h p : Nat)
  deriving DecidableEq, Repr

instance (n : Nat) : OfNat Wire n := ⟨.text n⟩

abbrev Msg := Wire

/-- `ThreadSocket.remote_key` -/
def rkey (k : Key) : Key := (k.2.1, k.1, k.2.2)

/-- how a `recv` behaves on an empty queue -/
inductive RMode
  | nb                                   -- block=False: raise RuntimeError
  | blk                                  -- block=True (timeout=None): poll this key again
  | poll (all rem : List Nat)            -- BroadcastChannelBySockets.recv(block=True): go on with the next remote
                                         -- of `rem`, after the last one start again with the first of `all`
  | pollOnce (rem : List Nat)            -- BroadcastChannelBySockets.recv(block=False): ONE round over the remotes,
                                         -- RuntimeError("No message broadcasted") when none had a message
  deriving DecidableEq, Repr

/-- operations of an endpoint; the key is `(tid, rn, id)` -/
inductive Op
  | connect (rn id : Nat) (cb : Bool)     -- ThreadSocket(...): `_SocketHub.connect`
  /-- socket.send / send_silent / send_structured (connected check + `_SocketHub.send`) to `rn`, and then — as
  `BroadcastChannelBySockets.send` does — the same message to every remote of `more`, stopping at the first
  ConnectionError -/
  | send (rn id : Nat) (m : Msg) (more : List Nat)
  /-- `_SocketHub.recv(timeout=None)`; `tag` is an annotation of the calling socket-level method (0 = recv /
  recv_silent, 1 = recv_structured) that the hub ignores and copies into the result -/
  | recv (rn id : Nat) (mode : RMode) (tag : Nat)
  | disconnect (rn id : Nat)              -- `_SocketHub.disconnect`
  | wait (rn id : Nat)                    -- ThreadSocket.wait(): spin on `connected` until it is False
  deriving DecidableEq, Repr

/-- outcome of a completed operation -/
inductive Res
  | connected (k : Key)
  | sent (k : Key) (m : Msg)
  | connErr (k : Key) (m : Msg)           -- ConnectionError("Socket is not connected so cannot send")
  | got (k : Key) (m : Msg) (tag : Nat)
  | empty (k : Key)                       -- RuntimeError("No message to receive …")
  | crash (k : Key)                       -- IndexError from pop(0) on an empty list (proved unreachable)
  | disconnected (k : Key)
  | waited (k : Key)
  deriving DecidableEq, Repr

/-- the shared-state access the thread is about to execute -/
inductive Pc
  | fin
  -- connect (fixed order)
  | cCbRecv (k : Key)        -- self._recv_callbacks[key] = …
  | cCbLost (k : Key)        -- self._conn_lost_callbacks[key] = …
  | cOpen (k : Key) (cb : Bool)  -- self._open_sockets.add(key)   (cb: this connect uses callbacks)
  | cRemote (k : Key)        -- self._remote_sockets.add(key)
  | cWaitOpen (k : Key)      -- if remote_key in self._open_sockets: return
  | cWaitRemote (k : Key)    -- if remote_key in self._remote_sockets: return
  -- send
  | sCheck (k : Key) (m : Msg) (more : List Nat)   -- is_connected: key and remote_key in _open_sockets
  | sCb (k : Key) (m : Msg) (more : List Nat)      -- recv_callback = self._recv_callbacks.get(remote_key)
  | sCall (k : Key) (m : Msg) (more : List Nat)    -- method(msg)
  | sLock (k : Key) (m : Msg) (more : List Nat)    -- with self._lock:
  | sAppend (k : Key) (m : Msg) (more : List Nat)  -- self._messages[remote_key].append(msg)   (+ release)
  -- recv
  | rLock (k : Key) (b : RMode) (tag : Nat)   -- with self._lock:
  | rRead (k : Key) (b : RMode) (tag : Nat)   -- messages = self._messages[key]            (+ release)
  | rLen (k : Key) (b : RMode) (tag : Nat)    -- if len(messages) == 0
  | rLock2 (k : Key) (tag : Nat)             -- with self._lock:
  | rPop (k : Key) (tag : Nat)               -- msg = messages.pop(0)                     (+ release)
  -- disconnect (everything under the lock)
  | dLock (k : Key)
  | dLostGet (k : Key)       -- self._conn_lost_callbacks.get(remote_key)
  | dLostCall (k : Key)      -- method()
  | dOpenChk (k : Key)       -- if key in self._open_sockets
  | dOpenRm (k : Key)        -- self._open_sockets.remove(key)
  | dRemChk (k : Key)        -- if remote_key in self._remote_sockets
  | dRemRm (k : Key)         -- self._remote_sockets.remove(remote_key)
  | dPopRecv (k : Key)       -- self._recv_callbacks.pop(key, None)
  | dPopLost (k : Key)       -- self._conn_lost_callbacks.pop(key, None)      (+ release)
  -- ThreadSocket.wait
  | wCheck (k : Key)         -- if not self.connected: return
  deriving DecidableEq, Repr

structure Thread where
  rest : List Op             -- operations after the current one
  pc : Pc
  res : List Res             -- outcomes so far, oldest first

structure State where
  open_ : Key → Bool
  remote : Key → Bool
  msgs : Key → List Msg
  recvCbs : Key → Bool
  lostCbs : Key → Bool
  lock : Option Nat
  threads : Nat → Thread
  cbStore : Key → List Msg   -- what the socket's `recv_callback` has been called with
  lostLog : List Key         -- `conn_lost_callback` invocations (key of the notified socket)
  sent : Key → List Msg      -- ghost: per receiver key, in linearisation order
  delivered : Key → List Msg -- ghost: popped by `recv` or handed to the callback
  everOpen : Key → Bool      -- ghost
  remRemoved : Key → Bool    -- ghost: some `disconnect` removed the key from `_remote_sockets`
  live : Key → Bool          -- ghost: the owner is between the first step of a `connect` and the end of a `disconnect`
  cbMode : Key → Bool        -- ghost: the incarnation that last published the key uses callbacks
  queued : Key → List Msg    -- ghost: messages appended to the queue of the key (queue path)
  popped : Key → List Msg    -- ghost: messages popped from the queue of the key

def upd {α : Type} (f : Key → α) (k : Key) (v : α) : Key → α := fun x => if x = k then v else f x

/-- first shared access of an operation of thread `tid` -/
def entry (tid : Nat) : Op → Pc
  | .connect rn id cb => if cb then .cCbRecv (tid, rn, id) else .cOpen (tid, rn, id) false
  | .send rn id m more => .sCheck (tid, rn, id) m more
  | .recv rn id b tag => .rLock (tid, rn, id) b tag
  | .disconnect rn id => .dLock (tid, rn, id)
  | .wait rn id => .wCheck (tid, rn, id)

/-- the current operation completes with outcome `r`; park in front of the next operation -/
def advance (tid : Nat) (th : Thread) (r : Res) : Thread :=
  match th.rest with
  | [] => { rest := [], pc := .fin, res := th.res ++ [r] }
  | op :: ops => { rest := ops, pc := entry tid op, res := th.res ++ [r] }

def setThread (s : State) (tid : Nat) (th : Thread) : State :=
  { s with threads := fun t => if t = tid then th else s.threads t }

def goto (th : Thread) (pc : Pc) : Thread := { th with pc := pc }

/-- stay in the operation: next program counter, one more result -/
def gotoR (th : Thread) (pc : Pc) (r : Res) : Thread := { th with pc := pc, res := th.res ++ [r] }

/-- One atomic step of thread `tid`; `none` = not enabled (finished, or blocked on the lock). -/
def step (s : State) (tid : Nat) : Option State :=
  let th := s.threads tid
  match th.pc with
  | .fin => none
  | .cCbRecv k => some (setThread { s with recvCbs := upd s.recvCbs k true, live := upd s.live k true }
      tid (goto th (.cCbLost k)))
  | .cCbLost k => some (setThread { s with lostCbs := upd s.lostCbs k true } tid (goto th (.cOpen k true)))
  | .cOpen k cb => some (setThread { s with open_ := upd s.open_ k true, everOpen := upd s.everOpen k true,
                                            live := upd s.live k true, cbMode := upd s.cbMode k cb }
      tid (goto th (.cRemote k)))
  | .cRemote k => some (setThread { s with remote := upd s.remote k true } tid (goto th (.cWaitOpen k)))
  | .cWaitOpen k =>
      if s.open_ (rkey k) then some (setThread s tid (advance tid th (.connected k)))
      else some (setThread s tid (goto th (.cWaitRemote k)))
  | .cWaitRemote k =>
      if s.remote (rkey k) then some (setThread s tid (advance tid th (.connected k)))
      else some (setThread s tid (goto th (.cWaitOpen k)))
  | .sCheck k m more =>
      if s.open_ k && s.open_ (rkey k) then some (setThread s tid (goto th (.sCb k m more)))
      else some (setThread s tid (advance tid th (.connErr k m)))
  | .sCb k m more =>
      if s.recvCbs (rkey k) then some (setThread s tid (goto th (.sCall k m more)))
      else some (setThread s tid (goto th (.sLock k m more)))
  | .sCall k m more =>
      some (setThread { s with cbStore := upd s.cbStore (rkey k) (s.cbStore (rkey k) ++ [m]),
                               sent := upd s.sent (rkey k) (s.sent (rkey k) ++ [m]),
                               delivered := upd s.delivered (rkey k) (s.delivered (rkey k) ++ [m]) }
        tid (match more with
             | [] => advance tid th (.sent k m)                                   -- last remote: operation done
             | r :: rs => gotoR th (.sCheck (k.1, r, k.2.2) m rs) (.sent k m)))   -- broadcast: next remote
  | .sLock k m more =>
      if s.lock.isSome then none
      else some (setThread { s with lock := some tid } tid (goto th (.sAppend k m more)))
  | .sAppend k m more =>
      some (setThread { s with msgs := upd s.msgs (rkey k) (s.msgs (rkey k) ++ [m]),
                               sent := upd s.sent (rkey k) (s.sent (rkey k) ++ [m]),
                               queued := upd s.queued (rkey k) (s.queued (rkey k) ++ [m]),
                               lock := none }
        tid (match more with
             | [] => advance tid th (.sent k m)
             | r :: rs => gotoR th (.sCheck (k.1, r, k.2.2) m rs) (.sent k m)))
  | .rLock k b tag =>
      if s.lock.isSome then none
      else some (setThread { s with lock := some tid } tid (goto th (.rRead k b tag)))
  | .rRead k b tag => some (setThread { s with lock := none } tid (goto th (.rLen k b tag)))
  | .rLen k b tag =>
      match s.msgs k with
      | [] =>
        match b with
        | .nb => some (setThread s tid (advance tid th (.empty k)))
        | .blk => some (setThread s tid (goto th (.rLock k .blk tag)))
        | .poll all (r :: rs) => some (setThread s tid (goto th (.rLock (k.1, r, k.2.2) (.poll all rs) tag)))
        | .poll [] [] => some (setThread s tid (goto th (.rLock k (.poll [] []) tag)))
        | .poll (a :: as) [] => some (setThread s tid (goto th (.rLock (k.1, a, k.2.2) (.poll (a :: as) as) tag)))
        | .pollOnce (r :: rs) => some (setThread s tid (goto th (.rLock (k.1, r, k.2.2) (.pollOnce rs) tag)))
        | .pollOnce [] => some (setThread s tid (advance tid th (.empty k)))
      | _ :: _ => some (setThread s tid (goto th (.rLock2 k tag)))
  | .rLock2 k tag =>
      if s.lock.isSome then none
      else some (setThread { s with lock := some tid } tid (goto th (.rPop k tag)))
  | .rPop k tag =>
      match s.msgs k with
      | [] => some (setThread { s with lock := none } tid (advance tid th (.crash k)))
      | m :: q =>
        some (setThread { s with msgs := upd s.msgs k q,
                                 delivered := upd s.delivered k (s.delivered k ++ [m]),
                                 popped := upd s.popped k (s.popped k ++ [m]),
                                 lock := none }
          tid (advance tid th (.got k m tag)))
  | .wCheck k =>
      if s.open_ k && s.open_ (rkey k) then some (setThread s tid th)
      else some (setThread s tid (advance tid th (.waited k)))
  | .dLock k =>
      if s.lock.isSome then none
      else some (setThread { s with lock := some tid } tid (goto th (.dLostGet k)))
  | .dLostGet k =>
      if s.lostCbs (rkey k) then some (setThread s tid (goto th (.dLostCall k)))
      else some (setThread s tid (goto th (.dOpenChk k)))
  | .dLostCall k => some (setThread { s with lostLog := s.lostLog ++ [rkey k] } tid (goto th (.dOpenChk k)))
  | .dOpenChk k =>
      if s.open_ k then some (setThread s tid (goto th (.dOpenRm k)))
      else some (setThread s tid (goto th (.dRemChk k)))
  | .dOpenRm k => some (setThread { s with open_ := upd s.open_ k false } tid (goto th (.dRemChk k)))
  | .dRemChk k =>
      if s.remote (rkey k) then some (setThread s tid (goto th (.dRemRm k)))
      else some (setThread s tid (goto th (.dPopRecv k)))
  | .dRemRm k =>
      some (setThread { s with remote := upd s.remote (rkey k) false,
                               remRemoved := upd s.remRemoved (rkey k) true }
        tid (goto th (.dPopRecv k)))
  | .dPopRecv k => some (setThread { s with recvCbs := upd s.recvCbs k false } tid (goto th (.dPopLost k)))
  | .dPopLost k =>
      some (setThread { s with lostCbs := upd s.lostCbs k false, lock := none, live := upd s.live k false }
        tid (advance tid th (.disconnected k)))

/-- a thread that has not started: parked in front of its first operation -/
def startThread (tid : Nat) (prog : List Op) : Thread :=
  match prog with
  | [] => { rest := [], pc := .fin, res := [] }
  | op :: ops => { rest := ops, pc := entry tid op, res := [] }

/-- `reset_socket_hub()` and one thread per program (thread `i` runs `progs[i]`) -/
def init (progs : List (List Op)) : State :=
  { open_ := fun _ => false, remote := fun _ => false, msgs := fun _ => [],
    recvCbs := fun _ => false, lostCbs := fun _ => false, lock := none,
    threads := fun t => startThread t (progs.getD t []),
    cbStore := fun _ => [], lostLog := [], sent := fun _ => [], delivered := fun _ => [],
    everOpen := fun _ => false, remRemoved := fun _ => false, live := fun _ => false,
    cbMode := fun _ => false, queued := fun _ => [], popped := fun _ => [] }

/-- states reachable under ANY schedule -/
inductive Reachable (progs : List (List Op)) : State → Prop
  | init : Reachable progs (init progs)
  | step (s s' : State) (tid : Nat) (h : Reachable progs s) (hs : step s tid = some s') :
      Reachable progs s'

/-- run a schedule; a scheduled thread that is not enabled leaves the state unchanged and is
reported (`false`) -/
def runSched (s : State) : List Nat → List (State × Bool)
  | [] => []
  | t :: ts =>
    match step s t with
    | some s' => (s', true) :: runSched s' ts
    | none => (s, false) :: runSched s ts

end NQ.Hub
