/-
Model of `netqasm/sdk/classical_communication/thread_socket/socket_hub.py` (`_SocketHub`) together
with the `connected` check of `ThreadSocket.send` (M9, property C18) — the code AFTER the fix of F20
(`connect` registers the callbacks BEFORE publishing the key in `_open_sockets`).

Granularity: one transition = one source line of `_SocketHub` that touches shared state
(`_open_sockets`, `_remote_sockets`, `_messages`, `_recv_callbacks`, `_conn_lost_callbacks`, `_lock`,
a callback invocation).  A thread is always "parked" in front of such a line (`Pc`), a step executes
that line plus the purely local lines up to the next such line.  One thread per endpoint (node):
thread `tid` owns exactly the keys `(tid, remote node, socket id)`, as `ThreadSocket.key`;
`rkey` is `ThreadSocket.remote_key`.

History (ghost) variables: `sent`, `delivered` per directed channel (= the receiver's key),
`everOpen` (the key was published once), `remRemoved` (the peer removed it from `_remote_sockets`).

Assumed, not modelled: atomicity of single set/dict/list operations under the GIL and of
`threading.Lock`; OS preemption inside C code; timeouts (`timeout=None`); garbage collection
(`__del__`, dead `WeakMethod`s); `sleep` (set to 0 by the harness).
-/
namespace NQ.Hub

abbrev Key := Nat × Nat × Nat
abbrev Msg := Nat

/-- `ThreadSocket.remote_key` -/
def rkey (k : Key) : Key := (k.2.1, k.1, k.2.2)

/-- operations of an endpoint; the key is `(tid, rn, id)` -/
inductive Op
  | connect (rn id : Nat) (cb : Bool)     -- ThreadSocket(...): `_SocketHub.connect`
  | send (rn id : Nat) (m : Msg)          -- socket.send / send_structured: connected check + `_SocketHub.send`
  | recv (rn id : Nat) (block : Bool)     -- `_SocketHub.recv(block=…, timeout=None)`
  | disconnect (rn id : Nat)              -- `_SocketHub.disconnect`
  deriving DecidableEq, Repr

/-- outcome of a completed operation -/
inductive Res
  | connected (k : Key)
  | sent (k : Key) (m : Msg)
  | connErr (k : Key) (m : Msg)           -- ConnectionError("Socket is not connected so cannot send")
  | got (k : Key) (m : Msg)
  | empty (k : Key)                       -- RuntimeError("No message to receive …")
  | crash (k : Key)                       -- IndexError from pop(0) on an empty list (proved unreachable)
  | disconnected (k : Key)
  deriving DecidableEq, Repr

/-- the shared-state access the thread is about to execute -/
inductive Pc
  | fin
  -- connect (fixed order)
  | cCbRecv (k : Key)        -- self._recv_callbacks[key] = …
  | cCbLost (k : Key)        -- self._conn_lost_callbacks[key] = …
  | cOpen (k : Key) (cb : Bool)  -- self._open_sockets.add(key)   (cb: this connect uses callbacks)
  | cRemote (k : Key)        -- self._remote_sockets.add(key)
  | cWaitOpen (k : Key)      -- if remote_key in self._open_sockets: return
  | cWaitRemote (k : Key)    -- if remote_key in self._remote_sockets: return
  -- send
  | sCheck (k : Key) (m : Msg)   -- is_connected: key and remote_key in _open_sockets
  | sCb (k : Key) (m : Msg)      -- recv_callback = self._recv_callbacks.get(remote_key)
  | sCall (k : Key) (m : Msg)    -- method(msg)
  | sLock (k : Key) (m : Msg)    -- with self._lock:
  | sAppend (k : Key) (m : Msg)  -- self._messages[remote_key].append(msg)   (+ release)
  -- recv
  | rLock (k : Key) (b : Bool)   -- with self._lock:
  | rRead (k : Key) (b : Bool)   -- messages = self._messages[key]            (+ release)
  | rLen (k : Key) (b : Bool)    -- if len(messages) == 0
  | rLock2 (k : Key)             -- with self._lock:
  | rPop (k : Key)               -- msg = messages.pop(0)                     (+ release)
  -- disconnect (everything under the lock)
  | dLock (k : Key)
  | dLostGet (k : Key)       -- self._conn_lost_callbacks.get(remote_key)
  | dLostCall (k : Key)      -- method()
  | dOpenChk (k : Key)       -- if key in self._open_sockets
  | dOpenRm (k : Key)        -- self._open_sockets.remove(key)
  | dRemChk (k : Key)        -- if remote_key in self._remote_sockets
  | dRemRm (k : Key)         -- self._remote_sockets.remove(remote_key)
  | dPopRecv (k : Key)       -- self._recv_callbacks.pop(key, None)
  | dPopLost (k : Key)       -- self._conn_lost_callbacks.pop(key, None)      (+ release)
  deriving DecidableEq, Repr

structure Thread where
  rest : List Op             -- operations after the current one
  pc : Pc
  res : List Res             -- outcomes so far, oldest first

structure State where
  open_ : Key → Bool
  remote : Key → Bool
  msgs : Key → List Msg
  recvCbs : Key → Bool
  lostCbs : Key → Bool
  lock : Option Nat
  threads : Nat → Thread
  cbStore : Key → List Msg   -- what the socket's `recv_callback` has been called with
  lostLog : List Key         -- `conn_lost_callback` invocations (key of the notified socket)
  sent : Key → List Msg      -- ghost: per receiver key, in linearisation order
  delivered : Key → List Msg -- ghost: popped by `recv` or handed to the callback
  everOpen : Key → Bool      -- ghost
  remRemoved : Key → Bool    -- ghost: some `disconnect` removed the key from `_remote_sockets`
  live : Key → Bool          -- ghost: the owner is between the first step of a `connect` and the end of a `disconnect`
  cbMode : Key → Bool        -- ghost: the incarnation that last published the key uses callbacks
  queued : Key → List Msg    -- ghost: messages appended to the queue of the key (queue path)
  popped : Key → List Msg    -- ghost: messages popped from the queue of the key

def upd {α : Type} (f : Key → α) (k : Key) (v : α) : Key → α := fun x => if x = k then v else f x

/-- first shared access of an operation of thread `tid` -/
def entry (tid : Nat) : Op → Pc
  | .connect rn id cb => if cb then .cCbRecv (tid, rn, id) else .cOpen (tid, rn, id) false
  | .send rn id m => .sCheck (tid, rn, id) m
  | .recv rn id b => .rLock (tid, rn, id) b
  | .disconnect rn id => .dLock (tid, rn, id)

/-- the current operation completes with outcome `r`; park in front of the next operation -/
def advance (tid : Nat) (th : Thread) (r : Res) : Thread :=
  match th.rest with
  | [] => { rest := [], pc := .fin, res := th.res ++ [r] }
  | op :: ops => { rest := ops, pc := entry tid op, res := th.res ++ [r] }

def setThread (s : State) (tid : Nat) (th : Thread) : State :=
  { s with threads := fun t => if t = tid then th else s.threads t }

def goto (th : Thread) (pc : Pc) : Thread := { th with pc := pc }

/-- One atomic step of thread `tid`; `none` = not enabled (finished, or blocked on the lock). -/
def step (s : State) (tid : Nat) : Option State :=
  let th := s.threads tid
  match th.pc with
  | .fin => none
  | .cCbRecv k => some (setThread { s with recvCbs := upd s.recvCbs k true, live := upd s.live k true }
      tid (goto th (.cCbLost k)))
  | .cCbLost k => some (setThread { s with lostCbs := upd s.lostCbs k true } tid (goto th (.cOpen k true)))
  | .cOpen k cb => some (setThread { s with open_ := upd s.open_ k true, everOpen := upd s.everOpen k true,
                                            live := upd s.live k true, cbMode := upd s.cbMode k cb }
      tid (goto th (.cRemote k)))
  | .cRemote k => some (setThread { s with remote := upd s.remote k true } tid (goto th (.cWaitOpen k)))
  | .cWaitOpen k =>
      if s.open_ (rkey k) then some (setThread s tid (advance tid th (.connected k)))
      else some (setThread s tid (goto th (.cWaitRemote k)))
  | .cWaitRemote k =>
      if s.remote (rkey k) then some (setThread s tid (advance tid th (.connected k)))
      else some (setThread s tid (goto th (.cWaitOpen k)))
  | .sCheck k m =>
      if s.open_ k && s.open_ (rkey k) then some (setThread s tid (goto th (.sCb k m)))
      else some (setThread s tid (advance tid th (.connErr k m)))
  | .sCb k m =>
      if s.recvCbs (rkey k) then some (setThread s tid (goto th (.sCall k m)))
      else some (setThread s tid (goto th (.sLock k m)))
  | .sCall k m =>
      some (setThread { s with cbStore := upd s.cbStore (rkey k) (s.cbStore (rkey k) ++ [m]),
                               sent := upd s.sent (rkey k) (s.sent (rkey k) ++ [m]),
                               delivered := upd s.delivered (rkey k) (s.delivered (rkey k) ++ [m]) }
        tid (advance tid th (.sent k m)))
  | .sLock k m =>
      if s.lock.isSome then none
      else some (setThread { s with lock := some tid } tid (goto th (.sAppend k m)))
  | .sAppend k m =>
      some (setThread { s with msgs := upd s.msgs (rkey k) (s.msgs (rkey k) ++ [m]),
                               sent := upd s.sent (rkey k) (s.sent (rkey k) ++ [m]),
                               queued := upd s.queued (rkey k) (s.queued (rkey k) ++ [m]),
                               lock := none }
        tid (advance tid th (.sent k m)))
  | .rLock k b =>
      if s.lock.isSome then none
      else some (setThread { s with lock := some tid } tid (goto th (.rRead k b)))
  | .rRead k b => some (setThread { s with lock := none } tid (goto th (.rLen k b)))
  | .rLen k b =>
      match s.msgs k with
      | [] => if b then some (setThread s tid (goto th (.rLock k b)))
              else some (setThread s tid (advance tid th (.empty k)))
      | _ :: _ => some (setThread s tid (goto th (.rLock2 k)))
  | .rLock2 k =>
      if s.lock.isSome then none
      else some (setThread { s with lock := some tid } tid (goto th (.rPop k)))
  | .rPop k =>
      match s.msgs k with
      | [] => some (setThread { s with lock := none } tid (advance tid th (.crash k)))
      | m :: q =>
        some (setThread { s with msgs := upd s.msgs k q,
                                 delivered := upd s.delivered k (s.delivered k ++ [m]),
                                 popped := upd s.popped k (s.popped k ++ [m]),
                                 lock := none }
          tid (advance tid th (.got k m)))
  | .dLock k =>
      if s.lock.isSome then none
      else some (setThread { s with lock := some tid } tid (goto th (.dLostGet k)))
  | .dLostGet k =>
      if s.lostCbs (rkey k) then some (setThread s tid (goto th (.dLostCall k)))
      else some (setThread s tid (goto th (.dOpenChk k)))
  | .dLostCall k => some (setThread { s with lostLog := s.lostLog ++ [rkey k] } tid (goto th (.dOpenChk k)))
  | .dOpenChk k =>
      if s.open_ k then some (setThread s tid (goto th (.dOpenRm k)))
      else some (setThread s tid (goto th (.dRemChk k)))
  | .dOpenRm k => some (setThread { s with open_ := upd s.open_ k false } tid (goto th (.dRemChk k)))
  | .dRemChk k =>
      if s.remote (rkey k) then some (setThread s tid (goto th (.dRemRm k)))
      else some (setThread s tid (goto th (.dPopRecv k)))
  | .dRemRm k =>
      some (setThread { s with remote := upd s.remote (rkey k) false,
                               remRemoved := upd s.remRemoved (rkey k) true }
        tid (goto th (.dPopRecv k)))
  | .dPopRecv k => some (setThread { s with recvCbs := upd s.recvCbs k false } tid (goto th (.dPopLost k)))
  | .dPopLost k =>
      some (setThread { s with lostCbs := upd s.lostCbs k false, lock := none, live := upd s.live k false }
        tid (advance tid th (.disconnected k)))

/-- a thread that has not started: parked in front of its first operation -/
def startThread (tid : Nat) (prog : List Op) : Thread :=
  match prog with
  | [] => { rest := [], pc := .fin, res := [] }
  | op :: ops => { rest := ops, pc := entry tid op, res := [] }

/-- `reset_socket_hub()` and one thread per program (thread `i` runs `progs[i]`) -/
def init (progs : List (List Op)) : State :=
  { open_ := fun _ => false, remote := fun _ => false, msgs := fun _ => [],
    recvCbs := fun _ => false, lostCbs := fun _ => false, lock := none,
    threads := fun t => startThread t (progs.getD t []),
    cbStore := fun _ => [], lostLog := [], sent := fun _ => [], delivered := fun _ => [],
    everOpen := fun _ => false, remRemoved := fun _ => false, live := fun _ => false,
    cbMode := fun _ => false, queued := fun _ => [], popped := fun _ => [] }

/-- states reachable under ANY schedule -/
inductive Reachable (progs : List (List Op)) : State → Prop
  | init : Reachable progs (init progs)
  | step (s s' : State) (tid : Nat) (h : Reachable progs s) (hs : step s tid = some s') :
      Reachable progs s'

/-- run a schedule; a scheduled thread that is not enabled leaves the state unchanged and is
reported (`false`) -/
def runSched (s : State) : List Nat → List (State × Bool)
  | [] => []
  | t :: ts =>
    match step s t with
    | some s' => (s', true) :: runSched s' ts
    | none => (s, false) :: runSched s ts

end NQ.Hub
