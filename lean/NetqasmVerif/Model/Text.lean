/-
Model M1/M2 (text): the instruction printer (`_pretty_print` / operand `__str__`) and the
text parser path `parse_text_subroutine` → proto-subroutine → `assemble_subroutine`
(`netqasm/lang/parsing/text.py`), for label-free, macro-free, argument-free source —
which is what the printer produces.  Strings are `List Char`.  Core Lean only.
-/
import NetqasmVerif.Model.Basic
namespace NQ.Text

/-- symbols of `netqasm/lang/symbols.py` and the bank letters of `RegisterName` -/
structure Syms where
  banks : List Char
  addrStart : Char
  idxOpen : Char
  idxClose : Char
  sliceDelim : Char
  branchEnd : Char
  argOpen : Char
  macroStart : Char
  preambleStart : Char
  comment : String
  numRegs : Nat
  deriving Repr

/-! ### Printer -/

def digitChar (d : Nat) : Char := Char.ofNat (48 + d)

/-- decimal digits, most significant first (`fuel` > number of digits) -/
def showNatFuel : Nat → Nat → List Char
  | 0, _ => []
  | f + 1, n => if n < 10 then [digitChar n] else showNatFuel f (n / 10) ++ [digitChar (n % 10)]

/-- `str(n)` for a non-negative Python int -/
def showNat (n : Nat) : List Char := showNatFuel (n + 1) n

/-- `str(v)` for a Python int -/
def showInt (v : Int) : List Char :=
  if v < 0 then '-' :: showNat (-v).toNat else showNat v.toNat

def bankChar (S : Syms) (b : Nat) : Char := S.banks.getD b '?'

/-- `Register.__str__` -/
def showReg (S : Syms) (r : Reg) : List Char := bankChar S r.bank :: showInt r.idx

/-- operand `__str__` (`netqasm/lang/operand.py`) -/
def showOperand (S : Syms) : Operand → List Char
  | .reg r => showReg S r
  | .imm v => showInt v
  | .addr a => S.addrStart :: showInt a
  | .entry a i => S.addrStart :: showInt a ++ S.idxOpen :: showReg S i ++ [S.idxClose]
  | .slice a s e =>
      S.addrStart :: showInt a ++ S.idxOpen :: showReg S s ++ S.sliceDelim :: showReg S e ++ [S.idxClose]

def showOperands (S : Syms) : List Operand → List Char
  | [] => []
  | o :: os => ' ' :: showOperand S o ++ showOperands S os

/-- `_pretty_print` of every shape: mnemonic, then the operands separated by one space -/
def showInstr (S : Syms) (mn : String) (ops : List Operand) : List Char :=
  mn.toList ++ showOperands S ops

/-! ### Tokens (what `_parse_operands` produces) -/

/-- result of `_parse_value` without labels/templates -/
inductive PVal
  | int (v : Int)
  | reg (r : Reg)
  deriving DecidableEq, Repr, Inhabited

/-- proto operands of an `ICmd` -/
inductive POp
  | lit (v : Int)
  | reg (r : Reg)
  | label (s : List Char)
  | tmpl (s : List Char)
  | addr (a : Int)
  | entry (a : Int) (i : PVal)
  | slice (a : Int) (s e : PVal)
  deriving DecidableEq, Repr, Inhabited

/-- an `ICmd` without args: generic instruction name (lower case) and operands -/
structure PCmd where
  name : String
  ops : List POp
  deriving DecidableEq, Repr, Inhabited

inductive TErr
  | syntax | value | key | assertion | type_ | index | runtime | unsupported
  deriving DecidableEq, Repr

def opTok : Operand → POp
  | .reg r => .reg r
  | .imm v => .lit v
  | .addr a => .addr a
  | .entry a i => .entry a (.reg i)
  | .slice a s e => .slice a (.reg s) (.reg e)

/-- the token form of a printed instruction -/
def printToks (mn : String) (ops : List Operand) : PCmd := ⟨mn, ops.map opTok⟩

/-! ### Assembler (`assemble_subroutine` on label-free commands) -/

def pvalRegs : PVal → List Reg
  | .reg r => [r]
  | .int _ => []

/-- `get_current_registers` (after the fix of F3): registers that occur as top-level
operands, as the index of an array entry or as the bounds of an array slice -/
def opRegs : List POp → List Reg
  | [] => []
  | .reg r :: os => r :: opRegs os
  | .entry _ i :: os => pvalRegs i ++ opRegs os
  | .slice _ s e :: os => pvalRegs s ++ pvalRegs e ++ opRegs os
  | _ :: os => opRegs os

def currentRegs : List PCmd → List Reg
  | [] => []
  | c :: cs => opRegs c.ops ++ currentRegs cs

def freshFrom (cur tmp : List Reg) : Nat → Nat → Option Reg
  | _, 0 => none
  | i, n + 1 =>
    let r : Reg := ⟨0, (i : Int)⟩
    if !cur.contains r && !tmp.contains r then some r else freshFrom cur tmp (i + 1) n

/-- lowest `R i` that is not a current register and not already used for this command -/
def freshReg (S : Syms) (cur tmp : List Reg) : Option Reg := freshFrom cur tmp 0 S.numRegs

def setCmd (r : Reg) (v : Int) : PCmd := ⟨"set", [.reg r, .lit v]⟩

def replVal (S : Syms) (cur tmp : List Reg) : PVal → Except TErr (List PCmd × PVal × List Reg)
  | .reg r => .ok ([], .reg r, tmp)
  | .int v =>
    match freshReg S cur tmp with
    | some r => .ok ([setCmd r v], .reg r, tmp ++ [r])
    | none => .error .runtime

/-- the inner loop of `_replace_constants` over the operands of one command -/
def replOps (S : Syms) (exc : List (String × Nat)) (name : String) (cur : List Reg) :
    Nat → List POp → List Reg → Except TErr (List PCmd × List POp)
  | _, [], _ => .ok ([], [])
  | j, o :: os, tmp =>
    match o with
    | .lit v =>
      if exc.contains (name, j) then
        match replOps S exc name cur (j + 1) os tmp with
        | .ok (sets, os') => .ok (sets, .lit v :: os')
        | .error e => .error e
      else
        match freshReg S cur tmp with
        | some r =>
          match replOps S exc name cur (j + 1) os (tmp ++ [r]) with
          | .ok (sets, os') => .ok (setCmd r v :: sets, .reg r :: os')
          | .error e => .error e
        | none => .error .runtime
    | .entry a i =>
      match replVal S cur tmp i with
      | .ok (s1, i', tmp1) =>
        match replOps S exc name cur (j + 1) os tmp1 with
        | .ok (sets, os') => .ok (s1 ++ sets, .entry a i' :: os')
        | .error e => .error e
      | .error e => .error e
    | .slice a s e =>
      match replVal S cur tmp s with
      | .ok (s1, s', tmp1) =>
        match replVal S cur tmp1 e with
        | .ok (s2, e', tmp2) =>
          match replOps S exc name cur (j + 1) os tmp2 with
          | .ok (sets, os') => .ok (s1 ++ s2 ++ sets, .slice a s' e' :: os')
          | .error er => .error er
        | .error er => .error er
      | .error er => .error er
    | o =>
      match replOps S exc name cur (j + 1) os tmp with
      | .ok (sets, os') => .ok (sets, o :: os')
      | .error e => .error e

def replCmds (S : Syms) (exc : List (String × Nat)) (cur : List Reg) :
    List PCmd → Except TErr (List PCmd)
  | [] => .ok []
  | c :: cs =>
    match replOps S exc c.name cur 0 c.ops [] with
    | .ok (sets, ops') =>
      match replCmds S exc cur cs with
      | .ok rest => .ok (sets ++ ⟨c.name, ops'⟩ :: rest)
      | .error e => .error e
    | .error e => .error e

/-- `_replace_constants` -/
def replaceConstants (S : Syms) (exc : List (String × Nat)) (cmds : List PCmd) : Except TErr (List PCmd) :=
  replCmds S exc (currentRegs cmds) cmds

/-- the type assertions of `from_operands`, per slot -/
def fromOperand : FieldKind → POp → Except TErr Operand
  | _, .tmpl _ => .error .unsupported
  | .reg, .reg r => .ok (.reg r)
  | .imm8, .lit v => .ok (.imm v)
  | .int32, .lit v => .ok (.imm v)
  | .addr, .addr a => .ok (.addr a)
  | .entry, .entry a (.reg i) => .ok (.entry a i)
  | .slice, .slice a (.reg s) (.reg e) => .ok (.slice a s e)
  | .entry, .entry _ _ => .error .unsupported
  | .slice, .slice _ _ _ => .error .unsupported
  | _, _ => .error .assertion

def fromOperands : List FieldKind → List POp → Except TErr (List Operand)
  | [], [] => .ok []
  | k :: ks, o :: os =>
    match fromOperand k o with
    | .ok x =>
      match fromOperands ks os with
      | .ok xs => .ok (x :: xs)
      | .error e => .error e
    | .error e => .error e
  | _, _ => .error .assertion

/-- one step of `_build_subroutine`: `flavour.get_instr_by_name` (KeyError), `from_operands` -/
def buildCmd (T : Table) (c : PCmd) : Except TErr Instr :=
  match nameMap T c.name with
  | none => .error .key
  | some row =>
    if c.ops.length != row.shape.length then .error .assertion
    else match fromOperands row.shape c.ops with
      | .ok ops => .ok ⟨row.cls, ops⟩
      | .error e => .error e

def buildCmds (T : Table) : List PCmd → Except TErr (List Instr)
  | [] => .ok []
  | c :: cs =>
    match buildCmd T c with
    | .ok i =>
      match buildCmds T cs with
      | .ok is => .ok (i :: is)
      | .error e => .error e
    | .error e => .error e

/-- `assemble_subroutine` (all flags on) for label-free commands -/
def assemble (T : Table) (S : Syms) (exc : List (String × Nat)) (cmds : List PCmd) :
    Except TErr (List Instr) :=
  match replaceConstants S exc cmds with
  | .ok cmds' => buildCmds T cmds'
  | .error e => .error e

/-! ### Lexer (`_create_subroutine`, `_parse_operand`, `_parse_value`, `parse_address`) -/

def splitOn (sep : Char) : List Char → List (List Char)
  | [] => [[]]
  | c :: cs =>
    if c = sep then [] :: splitOn sep cs
    else match splitOn sep cs with
      | w :: ws => (c :: w) :: ws
      | [] => [[c]]

/-- `str.find(x)`: position of the first `x` -/
def findChar (x : Char) : List Char → Option Nat
  | [] => none
  | c :: cs => if c = x then some 0 else (findChar x cs).map (· + 1)

def isSpace (c : Char) : Bool := c = ' ' || c = '\t' || c = '\r' || c = '\n'

def dropWhileEnd (p : Char → Bool) (l : List Char) : List Char := (l.reverse.dropWhile p).reverse

/-- `str.strip()` -/
def strip (l : List Char) : List Char := dropWhileEnd isSpace (l.dropWhile isSpace)

def isDigit (c : Char) : Bool := decide ('0' ≤ c) && decide (c ≤ '9')

def parseNat (l : List Char) : Nat := l.foldl (fun acc c => 10 * acc + (c.toNat - 48)) 0

def allDigits (l : List Char) : Bool := !l.isEmpty && l.all isDigit

/-- `_parse_constant`: `is_number` then `int(...)` -/
def parseConst (l : List Char) : Option Int :=
  match l with
  | '-' :: r => if allDigits r then some (-(parseNat r : Int)) else none
  | r => if allDigits r then some (parseNat r : Int) else none

def isAlpha (c : Char) : Bool :=
  (decide ('a' ≤ c) && decide (c ≤ 'z')) || (decide ('A' ≤ c) && decide (c ≤ 'Z'))

/-- `is_variable_name` -/
def isVarName (l : List Char) : Bool :=
  match l with
  | [] => false
  | c :: _ => isAlpha c && l.all (fun c => isAlpha c || isDigit c || c = '_')

/-- `parse_register` inside `_parse_value`: `none` = NetQASMSyntaxError (caught) -/
def parseRegister (S : Syms) (l : List Char) : Option Reg :=
  match l with
  | [] => none
  | c :: r =>
    match findChar c S.banks with
    | some b =>
      match parseConst r with
      | some v => some ⟨b, v⟩
      | none => none
    | none => none

/-- `_parse_value(value)` (no label, no template) -/
def parseVal (S : Syms) (l : List Char) : Except TErr PVal :=
  match parseConst l with
  | some v => .ok (.int v)
  | none =>
    if l.isEmpty then .error .index           -- `register[0]` on the empty string
    else match parseRegister S l with
      | some r => .ok (.reg r)
      | none => .error .syntax

/-- `_parse_value(word, allow_label=True, allow_template=True)` -/
def parseTopVal (S : Syms) (l : List Char) : Except TErr POp :=
  match parseConst l with
  | some v => .ok (.lit v)
  | none =>
    if l.isEmpty then .error .index
    else match parseRegister S l with
      | some r => .ok (.reg r)
      | none =>
        if isVarName l then .ok (.label l)
        else if l.head? == some '{' && l.getLast? == some '}' then
          .ok (.tmpl (strip (dropWhileEnd (fun c => c = '{' || c = '}')
            (l.dropWhile (fun c => c = '{' || c = '}')))))
        else .error .assertion

/-- `parse_address` -/
def parseAddress (S : Syms) (w : List Char) : Except TErr POp :=
  let start := findChar S.idxOpen w
  let split : Except TErr (List Char × List Char) :=
    match start with
    | none => .ok (w, [])
    | some k => if w.getLast? == some S.idxClose then .ok (w.take k, w.drop k) else .error .syntax
  match split with
  | .error e => .error e
  | .ok (base, content) =>
    match parseVal S (base.dropWhile (· = S.addrStart)) with
    | .error e => .error e
    | .ok (.reg _) => .error .type_
    | .ok (.int a) =>
      if content.isEmpty then .ok (.addr a)
      else
        let isBr := fun c => c = S.idxOpen || c = S.idxClose
        let inner := strip (dropWhileEnd isBr (content.dropWhile isBr))
        if inner.contains S.sliceDelim then
          match splitOn S.sliceDelim inner with
          | [s, e] =>
            match parseVal S (strip s) with
            | .error er => .error er
            | .ok s' =>
              match parseVal S (strip e) with
              | .error er => .error er
              | .ok e' => .ok (.slice a s' e')
          | _ => .error .value
        else
          match parseVal S inner with
          | .error er => .error er
          | .ok i => .ok (.entry a i)

/-- `_parse_operand` -/
def parseOperand (S : Syms) (w : List Char) : Except TErr POp :=
  if w.head? == some S.addrStart then parseAddress S w else parseTopVal S w

def parseOperands (S : Syms) : List (List Char) → Except TErr (List POp)
  | [] => .ok []
  | w :: ws =>
    match parseOperand S (strip w) with
    | .ok o =>
      match parseOperands S ws with
      | .ok os => .ok (o :: os)
      | .error e => .error e
    | .error e => .error e

/-- one body line of `_create_subroutine` (already stripped, non-empty).  Source forms
the printer never produces (label definitions, `instr(args)`, macros) are `unsupported`. -/
def parseLine (S : Syms) (generic : List String) (line : List Char) : Except TErr PCmd :=
  if line.getLast? == some S.branchEnd || line.contains S.argOpen || line.contains S.macroStart then
    .error .unsupported
  else
    match splitOn ' ' line with
    | [] => .error .unsupported
    | w :: ws =>
      let name := String.ofList w
      if generic.contains name then
        match parseOperands S ws with
        | .ok ops => .ok ⟨name, ops⟩
        | .error e => .error e
      else .error .value                    -- `string_to_instruction`: Unknown instruction

/-- `pat in l` for strings -/
def containsSub (pat : List Char) : List Char → Bool
  | [] => pat.isEmpty
  | c :: cs => pat.isPrefixOf (c :: cs) || containsSub pat cs

def parseLines (S : Syms) (generic : List String) : List (List Char) → Except TErr (List PCmd)
  | [] => .ok []
  | l :: ls =>
    let l' := strip l
    if l'.isEmpty then parseLines S generic ls
    else if l'.head? == some S.preambleStart || containsSub S.comment.toList l' then
      .error .unsupported
    else
      match parseLine S generic l' with
      | .ok c =>
        match parseLines S generic ls with
        | .ok cs => .ok (c :: cs)
        | .error e => .error e
      | .error e => .error e

/-- `parse_text_subroutine(text, flavour=f).instructions` for body lines -/
def parseText (T : Table) (S : Syms) (generic : List String) (exc : List (String × Nat))
    (lines : List (List Char)) : Except TErr (List Instr) :=
  match parseLines S generic lines with
  | .ok cmds => assemble T S exc cmds
  | .error e => .error e

/-! ### Decidable side conditions of the round-trip theorems (generated obligations) -/

def isImm : FieldKind → Bool
  | .imm8 => true
  | .int32 => true
  | _ => false

/-- every immediate slot (from index `j` on) is exempt from constant replacement -/
def exemptFrom (exc : List (String × Nat)) (name : String) : Nat → List FieldKind → Bool
  | _, [] => true
  | j, k :: ks => (!isImm k || exc.contains (name, j)) && exemptFrom exc name (j + 1) ks

/-- the operand has the constructor its slot expects (any integer values) -/
def kindOk : FieldKind → Operand → Bool
  | .reg, .reg _ => true
  | .imm8, .imm _ => true
  | .int32, .imm _ => true
  | .addr, .addr _ => true
  | .entry, .entry _ _ => true
  | .slice, .slice _ _ _ => true
  | _, _ => false

def kindsOk : List FieldKind → List Operand → Bool
  | [], [] => true
  | k :: ks, o :: os => kindOk k o && kindsOk ks os
  | _, _ => false

def mnCharOk (c : Char) : Bool := (decide ('a' ≤ c) && decide (c ≤ 'z')) || isDigit c || c = '_'

/-- what the text round trip needs from one row of a flavour table: its mnemonic leads
back to it through the flavour's name map, the class is found by name, every immediate
slot is exempt from constant replacement, the mnemonic is a `GenericInstr` name made of
lower-case letters, digits and underscores -/
def rowTextOk (T : Table) (exc : List (String × Nat)) (generic : List String) (row : Row) : Bool :=
  nameMap T row.mn == some row && rowOf T row.cls == some row
  && exemptFrom exc row.mn 0 row.shape && generic.contains row.mn
  && !row.mn.toList.isEmpty && row.mn.toList.all mnCharOk

/-- the printed line of an instruction of table `T` (`str(instr)`) -/
def showLine (T : Table) (S : Syms) (i : Instr) : List Char :=
  match rowOf T i.cls with
  | some row => showInstr S row.mn i.ops
  | none => []

def toksOf (T : Table) (i : Instr) : PCmd :=
  match rowOf T i.cls with
  | some row => printToks row.mn i.ops
  | none => ⟨"", []⟩

/-- characters of printed integers and registers -/
def opChar (S : Syms) (c : Char) : Bool := isDigit c || c = '-' || S.banks.contains c

/-- every character a printed line can contain -/
def lineChar (S : Syms) (c : Char) : Bool :=
  mnCharOk c || opChar S c || c = ' ' || c = S.addrStart || c = S.idxOpen || c = S.idxClose
    || c = S.sliceDelim

/-- what the character-level round trip needs from the symbols (generated obligation):
the bank letters are found by position, are no digits / minus / spaces; the operand symbols
are no operand characters, no spaces, and distinct where the parser relies on it; the rest
of the syntax (arguments, macros, comments, preamble, label definitions) cannot be
mistaken for anything the printer writes -/
def symsOk (S : Syms) : Bool :=
  decide (4 ≤ S.banks.length)
  && (List.range S.banks.length).all (fun b => findChar (bankChar S b) S.banks == some b)
  && S.banks.all (fun c => !isDigit c && c != '-' && !isSpace c)
  && [S.addrStart, S.idxOpen, S.idxClose, S.sliceDelim].all (fun c => !opChar S c && !isSpace c)
  && S.idxOpen != S.addrStart
  && S.sliceDelim != S.idxOpen && S.sliceDelim != S.idxClose
  && !lineChar S S.argOpen && !lineChar S S.macroStart
  && (match S.comment.toList with
      | c :: _ => !lineChar S c
      | [] => false)
  && !mnCharOk S.preambleStart
  && !(isDigit S.branchEnd || S.branchEnd == S.idxClose || mnCharOk S.branchEnd)

/-- registers of an operand use existing bank letters -/
def banksOk (n : Nat) : Operand → Bool
  | .reg r => decide (r.bank < n)
  | .entry _ i => decide (i.bank < n)
  | .slice _ s e => decide (s.bank < n) && decide (e.bank < n)
  | _ => true

/-! ### Histories: an instruction object that is printed and modified in place

Real instructions are mutable dataclasses (attribute assignment of operand fields, property
setters such as `line`, `qreg`, `angle_num`; the NV transpiler re-targets branches with
`instr.line = …`) and may be printed at any moment (`str`, `debug_str`, `str(subroutine)`).
In the model an instruction *is* its class and current operand values: an update replaces one
operand, printing changes nothing, and the printed line is a function of the current value. -/

inductive IUpd
  /-- `str(i)` / `i.debug_str` / `str(subroutine)` -/
  | observe
  /-- in-place assignment of operand slot `k` (field assignment or a property setter) -/
  | setOp (k : Nat) (o : Operand)
  deriving DecidableEq, Repr, Inhabited

def applyIUpd : Instr → IUpd → Instr
  | i, .observe => i
  | i, .setOp k o => ⟨i.cls, i.ops.set k o⟩

def applyIUpds (i : Instr) (us : List IUpd) : Instr := us.foldl applyIUpd i

end NQ.Text
