/-
Model of `netqasm/sdk/toolbox/state_prep.py : get_angle_spec_from_float` (M9, property C19).

Exact arithmetic only.  Every finite double is a dyadic rational, so the two quantities the loop
works with,
    rest   = (angle % 2π) / π          (a double, in units of π, 0 ≤ rest ≤ 2)
    tol_pi = tol / π                   (a double)
are handed to the model as natural numbers `r`, `t` over one common scale `2^E`:
    rest = r / 2^E ,  tol_pi = t / 2^E .
The three floating-point operations that produce them (`%`, `/`, `/`) happen once, before the loop,
and are OUTSIDE this model (labelled partial in Props/C19).  The loop body itself is exact in
binary64 (n / 2^d is representable, the subtraction is exact), so from there on the code computes
exactly what is written here — except for the rounding of `log2`, which can move the choice of `d`
to a neighbouring *allowed* value; that is why the loop is modelled as a RELATION (`Run`) of which
the exact choice (`dChoice`, `expand`) is one instance.

    while rest > tol_pi:
        d = int(floor(log2(n_max / rest)))          -- dChoice
        n = int(floor(rest * 2**d))                 -- numer
        assert n <= n_max
        nds.append((n, d)); rest -= n / 2**d        -- restAfter
    (n, d) -> halve n while it is even and d > 0    -- simplify
    keep the (n, d) with d <= n_max                 -- keep
-/
namespace NQ.Angle

/-- `n = ⌊rest · 2^d⌋` for `rest = r / 2^E`. -/
def numer (E r d : Nat) : Nat := r * 2 ^ d / 2 ^ E

/-- numerator of `rest − n / 2^d` over the scale `2^E` (for `d ≥ E` the subtraction leaves 0:
`E - d` is truncated subtraction and `r % 1 = 0`). -/
def restAfter (E r d : Nat) : Nat := r % 2 ^ (E - d)

/-- The bounds on `n` that make `d` an allowed choice (the code asserts the upper one, the lower
one is what its choice of `d` guarantees). -/
def Allowed (E r d : Nat) : Prop := 127 ≤ numer E r d ∧ numer E r d ≤ 255

instance (E r d : Nat) : Decidable (Allowed E r d) := by unfold Allowed; exact inferInstance

/-- the code's choice computed exactly: `⌊log2(255 / rest)⌋` -/
def dChoice (E r : Nat) : Nat := Nat.log2 (255 * 2 ^ E / r)

/-- The loop as a relation: from remainder `r`, emitting `steps`, ending with remainder `r'`. -/
inductive Run (E t : Nat) : Nat → List (Nat × Nat) → Nat → Prop
  | done (r : Nat) (h : r ≤ t) : Run E t r [] r
  | step (r d : Nat) (steps : List (Nat × Nat)) (r' : Nat) (h : t < r) (ha : Allowed E r d)
      (rest : Run E t (restAfter E r d) steps r') : Run E t r ((numer E r d, d) :: steps) r'

theorem restAfter_lt (E r d : Nat) (hr : 0 < r) (hn : 1 ≤ numer E r d) : restAfter E r d < r := by
  unfold restAfter
  by_cases hd : d ≤ E
  · have hpos : 0 < 2 ^ (E - d) := Nat.two_pow_pos _
    have hlt : r % 2 ^ (E - d) < 2 ^ (E - d) := Nat.mod_lt _ hpos
    have hge : 2 ^ (E - d) ≤ r := by
      unfold numer at hn
      have h2 : 2 ^ E ≤ r * 2 ^ d := by
        have hE : 0 < 2 ^ E := Nat.two_pow_pos _
        exact (Nat.le_div_iff_mul_le hE).mp hn |> fun h => by simpa using h
      have hsplit : 2 ^ E = 2 ^ (E - d) * 2 ^ d := by
        rw [← Nat.pow_add]; congr 1; omega
      rw [hsplit] at h2
      exact Nat.le_of_mul_le_mul_right h2 (Nat.two_pow_pos _)
    omega
  · have h0 : E - d = 0 := by omega
    rw [h0]
    simp only [Nat.pow_zero, Nat.mod_one]
    exact hr

/-- The loop with the code's exact choice of `d`. `none` = the `assert` fails (never, see
`Props/C19.expand_isSome`). Termination: the remainder strictly decreases. -/
def expand (E t r : Nat) : Option (List (Nat × Nat)) :=
  if h : t < r then
    if ha : Allowed E r (dChoice E r) then
      match expand E t (restAfter E r (dChoice E r)) with
      | some l => some ((numer E r (dChoice E r), dChoice E r) :: l)
      | none => none
    else none
  else some []
termination_by r
decreasing_by exact restAfter_lt E r _ (by omega) (by unfold Allowed at ha; omega)

/-- simplification of the fixed code: halve an even `n` while `d > 0` -/
def simplify : Nat → Nat → Nat × Nat
  | n, 0 => (n, 0)
  | n, d + 1 => if n % 2 = 0 then simplify (n / 2) d else (n, d + 1)

/-- the filter of the fixed code: `d <= n_max` -/
def keep (p : Nat × Nat) : Bool := decide (p.2 ≤ 255)

/-- what the function returns for a list of raw steps -/
def finish (steps : List (Nat × Nat)) : List (Nat × Nat) :=
  (steps.map (fun p => simplify p.1 p.2)).filter keep

/-- the whole function on exact inputs -/
def spec (E t r : Nat) : Option (List (Nat × Nat)) := (expand E t r).map finish

/-! ### The builder path: `Builder._build_cmds_single_qubit_rotation(instruction, vq, angle=…)`

    nds = get_angle_spec_from_float(angle=angle)          -- default tolerance
    for n, d in nds:                                       -- one rotation instruction per step
        register = self._get_qubit_register()              -- Q0
        set register vq ; <rot> register n d
-/

/-- pending commands appended by the builder (register operand = index of the Q register) -/
inductive Cmd
  | setQ (reg : Nat) (vq : Nat)
  | rot (axis : Nat) (reg : Nat) (n d : Nat)
  deriving DecidableEq, Repr

/-- what the builder emits for a list of steps: `steps.flatMap (set; rot)` -/
def emitRot (axis vq : Nat) (steps : List (Nat × Nat)) : List Cmd :=
  steps.flatMap fun p => [Cmd.setQ 0 vq, Cmd.rot axis 0 p.1 p.2]

/-- the (n, d) operands of the rotation instructions about `axis` in a command list -/
def rotOperands (axis : Nat) (cmds : List Cmd) : List (Nat × Nat) :=
  cmds.filterMap fun c => match c with
    | .rot a _ n d => if a = axis then some (n, d) else none
    | .setQ _ _ => none

/-- the whole builder path on exact inputs -/
def emitSpec (axis vq E t r : Nat) : Option (List Cmd) := (spec E t r).map (emitRot axis vq)

/-- candidate exponents near the exact choice (a rounded `log2` can only land on a neighbour) -/
def candidates (E r : Nat) : List Nat :=
  [dChoice E r, dChoice E r + 1, dChoice E r - 1]

/-- Checker used by the correspondence: is `target` the output of SOME allowed run from `r`?
(fuel only bounds the search; soundness — `Props/C19.accepts_sound` — does not depend on it) -/
def accepts (E t : Nat) : Nat → Nat → List (Nat × Nat) → Bool
  | 0, _, _ => false
  | fuel + 1, r, target =>
    if t < r then
      (candidates E r).any fun d =>
        decide (Allowed E r d) &&
          (if keep (simplify (numer E r d) d) then
            match target with
            | [] => false
            | q :: qs => (q == simplify (numer E r d) d) && accepts E t fuel (restAfter E r d) qs
          else accepts E t fuel (restAfter E r d) target)
    else target.isEmpty

end NQ.Angle
