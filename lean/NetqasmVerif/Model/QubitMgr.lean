/-
Model for C09: the SDK's virtual-qubit bookkeeping (`MemoryManager._active_qubits`,
`Qubit.qubit_id/active`, `Builder._create_ent_qubits`, `_build_cmds_free_up_qubit_location`
incl. its last-three-commands peephole) together with the controller's unit module
(`Executor._allocate_physical_qubit/_free_physical_qubit/_get_position`, K-type EPR delivery).

The subroutine under construction is abstracted to its *allocation-relevant events* in
execution order (`Ev`): qalloc v / qfree v / an instruction using v / a two-qubit instruction /
the link layer delivering a pair into v.  Loops over EPR pairs are unrolled (they have a static
trip count).  Core Lean only.
-/
namespace NQ.QM

/-- Hardware/transpiler configuration of a connection.
`nv`  : `isinstance(hardware_config, NVHardwareConfig)` (also forced by the NV transpiler),
`transp` : `compiler == NVSubroutineTranspiler`, `maxq` : qubit count = unit-module size. -/
structure Cfg where
  nv : Bool
  transp : Bool
  maxq : Nat
  deriving Repr, DecidableEq

/-- `hardware_config.comm_qubit_count == 1` (NV: always; generic: all qubits are comm qubits) -/
def Cfg.single (c : Cfg) : Bool := c.nv || c.maxq == 1

/-- A `Qubit` handle: mutable virtual id and the `active` flag.  A handle is in
`_active_qubits` iff `active`; the list order is creation order (handles are activated
exactly once, in their constructor). -/
structure Handle where
  id : Nat
  active : Bool
  deriving Repr, DecidableEq

inductive Ev
  | alloc (v : Nat)        -- qalloc
  | free (v : Nat)         -- qfree
  | use (v : Nat)          -- init / gate / rotation / meas on v
  | use2 (a b : Nat)       -- two-qubit instruction (cnot, cphase, mov, crot)
  | deliver (v : Nat)      -- OK-K response handled: pair mapped to virtual id v
  deriving Repr, DecidableEq

inductive Fault
  | range      -- address outside the unit module
  | double     -- qalloc of an allocated address
  | notAlloc   -- instruction / qfree on an unallocated address
  | blocked    -- delivery target is allocated: the response is deferred forever
  deriving Repr, DecidableEq

/-- `_get_position`: address must be inside the unit module and mapped -/
def need (maxq : Nat) (u : List Nat) (v : Nat) : Option Fault :=
  if maxq ≤ v then some .range else if v ∈ u then none else some .notAlloc

/-- one allocation-relevant instruction on the controller; `u` = allocated virtual ids -/
def step (maxq : Nat) (u : List Nat) : Ev → Except Fault (List Nat)
  | .alloc v => if maxq ≤ v then .error .range else if v ∈ u then .error .double else .ok (v :: u)
  | .free v => match need maxq u v with
      | some f => .error f
      | none => .ok (u.filter (· != v))
  | .use v => match need maxq u v with
      | some f => .error f
      | none => .ok u
  | .use2 a b => match need maxq u a with
      | some f => .error f
      | none => match need maxq u b with
        | some f => .error f
        | none => .ok u
  | .deliver v => if v ∈ u then .error .blocked else if maxq ≤ v then .error .range else .ok (v :: u)

def run (maxq : Nat) : List Nat → List Ev → Except Fault (List Nat)
  | u, [] => .ok u
  | u, e :: es => match step maxq u e with
    | .ok u' => run maxq u' es
    | .error f => .error f

/-- number of events executed before the first fault (for the correspondence only) -/
def okPrefix (maxq : Nat) : List Nat → List Ev → Nat
  | _, [] => 0
  | u, e :: es => match step maxq u e with
    | .ok u' => okPrefix maxq u' es + 1
    | .error _ => 0

/-- unit module at the moment of the first fault (or at the end) — what the controller is left
with when a subroutine aborts; for the correspondence only -/
def runPartial (maxq : Nat) : List Nat → List Ev → List Nat
  | u, [] => u
  | u, e :: es => match step maxq u e with
    | .ok u' => runPartial maxq u' es
    | .error _ => u

/-- SDK + controller state.  `evs` = events of the pending (not yet flushed) commands,
`lastAlloc = some v` iff the pending commands end with `set Q0 v; qalloc Q0; init Q0`. -/
structure St where
  hs : List Handle
  evs : List Ev
  lastAlloc : Option Nat
  unit : List Nat
  deriving Repr, DecidableEq

def St.init : St := ⟨[], [], none, []⟩

def activeIds (hs : List Handle) : List Nat := (hs.filter (·.active)).map (·.id)

/-- `get_new_qubit_address`: `for address in count(0): if address not in ids: return address`.
Fuel `ids.sum + 1` is enough: any larger candidate exceeds every element. -/
def firstFree (ids : List Nat) : Nat → Nat → Nat
  | 0, a => a
  | f + 1, a => if a ∈ ids then firstFree ids f (a + 1) else a

def lowestUnused (ids : List Nat) : Nat := firstFree ids (ids.sum + 1) 0

/-- the peephole: only the operand of the pending `set` is changed, so the following
`qalloc`/`init` now act on `new` -/
def rewriteLast (evs : List Ev) (new : Nat) : List Ev :=
  evs.dropLast.dropLast ++ [.alloc new, .use new]

/-- body of the loop in `_build_cmds_free_up_qubit_location(0)` for the handle `h` that has id 0
(code after the `fix:` of F13: the peephole also requires the `set` value to be the address
being freed up) -/
def relocateEvs (evs : List Ev) (la : Option Nat) (new : Nat) : List Ev × Option Nat :=
  match la with
  | some 0 => (rewriteLast evs new, some new)
  | _ => (evs ++ [.alloc new, .use new, .use2 0 new, .free 0], none)

/-- `for q in active_qubits: if q.qubit_id == 0: …; q.qubit_id = new` — `pre` are the handles
already visited, the third argument those still to visit. -/
def freeUpGo : List Handle → List Handle → List Ev × Option Nat → List Handle × List Ev × Option Nat
  | pre, [], s => (pre, s.1, s.2)
  | pre, h :: t, s =>
    if h.active && h.id == 0 then
      let new := lowestUnused (activeIds (pre ++ h :: t))
      freeUpGo (pre ++ [⟨new, true⟩]) t (relocateEvs s.1 s.2 new)
    else freeUpGo (pre ++ [h]) t s

def freeUp (c : Cfg) (st : St) : St :=
  if c.nv then
    let r := freeUpGo [] st.hs (st.evs, st.lastAlloc)
    { st with hs := r.1, evs := r.2.1, lastAlloc := r.2.2 }
  else st

inductive Consume
  | meas      -- destructive measurement
  | free      -- `free()`
  | inplace   -- `measure(inplace=True)`: the pair stays alive
  | none      -- gates only: the pair stays alive
  deriving Repr, DecidableEq

/-- does the body / post routine release the pair's qubit? -/
def Consume.consumes : Consume → Bool
  | .meas => true
  | .free => true
  | .inplace => false
  | .none => false

/-- what the loop body / post routine does with the pair's qubit: `gates` single-qubit gates,
then a destructive measurement, a `free()`, an in-place measurement, or nothing more -/
structure Body where
  gates : Nat
  consume : Consume
  deriving Repr, DecidableEq

def bodyEvs (d : Nat) (b : Body) : List Ev :=
  List.replicate b.gates (.use d) ++
    (match b.consume with
     | .meas => [.use d, .free d]
     | .free => [.free d]
     | .inplace => [.use d]
     | .none => [])

inductive Op
  | new                                   -- `Qubit(conn)`
  | gate (h : Nat)                        -- single-qubit gate / rotation on handle h
  | gate2 (h1 h2 : Nat)                   -- cnot / cphase
  | meas (h : Nat) (inplace : Bool)       -- `q.measure(inplace=…)`
  | free (h : Nat)                        -- `q.free()`
  | keep (recv : Bool) (n : Nat)          -- create_keep / recv_keep (number=n)
  | seq (recv : Bool) (n : Nat) (b : Body)              -- …(number=n, sequential=True, post_routine)
  | postk (recv : Bool) (n : Nat) (b : Body)            -- …(number=n, post_routine) with sequential=False
  | ctx (recv : Bool) (n : Nat) (sequential : Bool) (b : Body)  -- create_context / recv_context
  | keepr (recv : Bool) (n fails tries : Nat)
      -- create_keep/recv_keep(number=n, min_fidelity_all_at_end=…, max_tries=tries); the first
      -- `fails` attempts are too slow
  | seqr (recv : Bool) (n : Nat) (b : Body) (fails tries : Nat)
      -- the same with sequential=True and a post routine
  | flush
  | close
  deriving Repr, DecidableEq

inductive Res
  | ok
  | notActive      -- QubitNotActiveError (state unchanged)
  | valueError     -- ValueError from the EPR argument check (state unchanged)
  | assertion      -- AssertionError inside `_create_ent_qubits`
  | fault (f : Fault)
  | invalid        -- handle index out of range (not a host program)
  deriving Repr, DecidableEq

def deactivate (hs : List Handle) (i : Nat) : List Handle :=
  match hs[i]? with
  | some h => hs.set i ⟨h.id, false⟩
  | none => hs

/-- the last `n` handles (those just created for an EPR loop construct) are deactivated -/
def releaseLast (n : Nat) (hs : List Handle) : List Handle :=
  hs.take (hs.length - n) ++ (hs.drop (hs.length - n)).map (fun h => ⟨h.id, false⟩)

/-- NV, not sequential: handles get ids n-1, …, 0; every id ≠ 0 is allocated and initialised
right away; `.error st` = the `assert not is_qubit_id_used(final_id)` fails (in state `st`).
Returns the ids too. -/
def nvEnt (st : St) : Nat → Except St (St × List Nat)
  | 0 => .ok (st, [])
  | k + 1 =>
    if k = 0 then .ok ({ st with hs := st.hs ++ [⟨0, true⟩] }, [0])
    else if k ∈ activeIds st.hs then .error st
    else match nvEnt { st with hs := st.hs ++ [⟨k, true⟩],
                               evs := st.evs ++ [.alloc k, .use k], lastAlloc := some k } k with
      | .ok (st', ids) => .ok (st', k :: ids)
      | .error e => .error e

/-- generic, not sequential: every handle takes the lowest unused id (no commands) -/
def genEnt (st : St) : Nat → St × List Nat
  | 0 => (st, [])
  | k + 1 =>
    let v := lowestUnused (activeIds st.hs)
    let r := genEnt { st with hs := st.hs ++ [⟨v, true⟩] } k
    (r.1, v :: r.2)

/-- `_create_ent_qubits` -/
def createEnt (c : Cfg) (st : St) (n : Nat) (sequential : Bool) : Except St (St × List Nat) :=
  if c.nv then
    let st1 := freeUp c st
    if sequential then
      .ok ({ st1 with hs := st1.hs ++ List.replicate n ⟨0, true⟩ }, List.replicate n 0)
    else nvEnt st1 n
  else if sequential then
    let v := lowestUnused (activeIds st.hs)
    .ok ({ st with hs := st.hs ++ List.replicate n ⟨v, true⟩ }, List.replicate n v)
  else .ok (genEnt st n)

/-- `_build_cmds_wait_move_epr_to_mem`: pair i arrives in id 0 and, unless it is the last one,
is moved to id n-1-i -/
def moveLoop (n : Nat) : Nat → List Ev
  | 0 => []
  | k + 1 =>  -- k+1 pairs still to come; pair index i = n - (k+1)
    if k = 0 then [.deliver 0]
    else [.deliver 0, .use2 0 k, .free 0] ++ moveLoop n k

/-- `loop_until(max_tries)`: the body runs, and unless it was fast enough its clean-up code runs
and the body is tried again — `fails` slow attempts, at most `tries` attempts in all -/
def retryEvs (attempt cleanup : List Ev) (fails tries : Nat) : List Ev :=
  (List.replicate (min fails tries) (attempt ++ cleanup)).flatten ++
    (if fails < tries then attempt else [])

def gate2Evs (c : Cfg) (a b : Nat) : List Ev :=
  if c.transp && a != 0 && b != 0 then [.use 0, .use2 a b] else [.use2 a b]

def flushSt (c : Cfg) (st : St) : St × Res :=
  match run c.maxq st.unit st.evs with
  | .ok u => ({ st with evs := [], lastAlloc := none, unit := u }, .ok)
  | .error f => ({ st with unit := runPartial c.maxq st.unit st.evs }, .fault f)

def apply (c : Cfg) (st : St) : Op → St × Res
  | .new =>
    let v := lowestUnused (activeIds st.hs)
    ({ st with hs := st.hs ++ [⟨v, true⟩], evs := st.evs ++ [.alloc v, .use v],
               lastAlloc := some v }, .ok)
  | .gate h =>
    match st.hs[h]? with
    | some q => ({ st with evs := st.evs ++ [.use q.id], lastAlloc := none }, .ok)
    | none => (st, .invalid)
  | .gate2 h1 h2 =>
    match st.hs[h1]?, st.hs[h2]? with
    | some q1, some q2 =>
      ({ st with evs := st.evs ++ gate2Evs c q1.id q2.id, lastAlloc := none }, .ok)
    | _, _ => (st, .invalid)
  | .meas h inplace =>
    match st.hs[h]? with
    | some q =>
      if q.active then
        let st1 := if q.id != 0 then freeUp c st else st
        let evs := st1.evs ++ (if inplace then [.use q.id] else [.use q.id, .free q.id])
        ({ st1 with evs := evs, lastAlloc := none,
                    hs := if inplace then st1.hs else deactivate st1.hs h }, .ok)
      else (st, .notActive)
    | none => (st, .invalid)
  | .free h =>
    match st.hs[h]? with
    | some q =>
      if q.active then
        ({ st with evs := st.evs ++ [.free q.id], lastAlloc := none, hs := deactivate st.hs h }, .ok)
      else (st, .notActive)
    | none => (st, .invalid)
  | .keep _ n =>
    if c.maxq < n then (st, .valueError)
    else match createEnt c st n false with
      | .error st1 => (st1, .assertion)
      | .ok (st1, ids) =>
        let loop := if c.single then moveLoop n n else ids.map .deliver
        ({ st1 with evs := st1.evs ++ loop, lastAlloc := none }, .ok)
  | .seq _ n b =>
    match createEnt c st n true with
    | .error st1 => (st1, .assertion)
    | .ok (st1, ids) =>
      let arr := if c.single then List.replicate n 0 else ids
      -- if the post routine consumed the pair's qubit the n returned handles are deactivated;
      -- otherwise they stay (the per-pair placeholder never does: fix of F49)
      ({ st1 with hs := if b.consume.consumes then releaseLast n st1.hs else st1.hs,
                  evs := st1.evs ++ arr.flatMap (fun d => .deliver d :: bodyEvs d b),
                  lastAlloc := none }, .ok)
  | .postk _ n b =>
    if c.maxq < n then (st, .valueError)
    -- with one communication qubit the handles are created as for a sequential request (fix of F50)
    else match createEnt c st n c.single with
      | .error st1 => (st1, .assertion)
      | .ok (st1, ids) =>
        let arr := if c.single then List.replicate n 0 else ids
        ({ st1 with hs := if b.consume.consumes then releaseLast n st1.hs else st1.hs,
                    evs := st1.evs ++ arr.flatMap (fun d => .deliver d :: bodyEvs d b),
                    lastAlloc := none }, .ok)
  | .ctx _ n sequential b =>
    if !sequential && c.maxq < n then (st, .valueError)
    else match createEnt c st n (sequential || c.single) with
      | .error st1 => (st1, .assertion)
      | .ok (st1, ids) =>
        -- `_post_epr_context` releases the placeholders iff the body consumed the pair's qubit
        ({ st1 with hs := if b.consume.consumes then releaseLast n st1.hs else st1.hs,
                    evs := st1.evs ++ ids.flatMap (fun d => .deliver d :: bodyEvs d b),
                    lastAlloc := none }, .ok)
  | .keepr _ n fails tries =>
    -- the relocation of a qubit on id 0 happens once, before the retry loop (`fix:` F32) …
    let st0 := freeUp c st
    if c.maxq < n then (st, .valueError)
    else match createEnt c st0 n false with
      | .error st1 => (st1, .assertion)
      | .ok (st1, ids) =>
        -- … everything the keep request emits is the loop body: the allocation of the NV memory
        -- qubits and the wait/move loop; a too slow attempt is cleaned up by freeing every pair
        let attempt := st1.evs.drop st0.evs.length ++
          (if c.single then moveLoop n n else ids.map .deliver)
        let cleanup := ((st1.hs.drop st0.hs.length).map (fun h => Ev.free h.id))
        ({ st1 with evs := st0.evs ++ retryEvs attempt cleanup fails tries, lastAlloc := none }, .ok)
  | .seqr _ n b fails tries =>
    let st0 := freeUp c st
    match createEnt c st0 n true with
    | .error st1 => (st1, .assertion)
    | .ok (st1, ids) =>
      let arr := if c.single then List.replicate n 0 else ids
      let attempt := arr.flatMap (fun d => .deliver d :: bodyEvs d b)
      ({ st1 with hs := if b.consume.consumes then releaseLast n st1.hs else st1.hs,
                  evs := st0.evs ++ retryEvs attempt [] fails tries, lastAlloc := none }, .ok)
  | .flush => flushSt c st
  | .close =>
    match flushSt c st with
    | (st1, .ok) => ({ st1 with unit := [], hs := st1.hs.map (fun h => ⟨h.id, false⟩) }, .ok)
    | r => r

/-- a result after which the host program cannot continue -/
def Res.fatal : Res → Bool
  | .assertion => true
  | .fault _ => true
  | .invalid => true
  | _ => false

/-- run a history; stops at the first fatal result -/
def runOps (c : Cfg) : St → List Op → St × Res
  | st, [] => (st, .ok)
  | st, op :: ops =>
    match apply c st op with
    | (st', r) => if r.fatal then (st', r) else runOps c st' ops

/-! ### several connections in one process -/

/-- every connection has its own builder, memory manager and (on its node) unit module: an
operation on connection `i` acts on the i-th component only -/
def applyJ (cs : Cfg × Cfg) (s : St × St) (e : Bool × Op) : St × St :=
  if e.1 then (s.1, (apply cs.2 s.2 e.2).1) else ((apply cs.1 s.1 e.2).1, s.2)

def runJ (cs : Cfg × Cfg) : St × St → List (Bool × Op) → St × St
  | s, [] => s
  | s, e :: es => runJ cs (applyJ cs s e) es

/-- the operations of one connection, in order -/
def projOps (i : Bool) : List (Bool × Op) → List Op
  | [] => []
  | e :: es => if e.1 == i then e.2 :: projOps i es else projOps i es

/-- a history of one connection without stopping at errors -/
def foldOps (c : Cfg) : St → List Op → St
  | st, [] => st
  | st, op :: ops => foldOps c (apply c st op).1 ops

end NQ.QM
