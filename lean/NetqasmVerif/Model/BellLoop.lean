/-
Model (C10): the proto-commands the SDK builder emits for the EPR *receive*
operations, and a small-step semantics of that command subset.

Written from `netqasm/sdk/builder.py`:
  `_build_cmds_epr_recv_keep` / `_build_cmds_epr_recv_rsp` / `_build_cmds_epr_recv_measure`,
  `_build_cmds_epr_keep_corrections` (wait-all path),
  `_build_cmds_post_epr` (post-routine / sequential path),
  `_build_cmds_wait_move_epr_to_mem` (single communication qubit, no post routine),
  `_add_wait_for_ent_info_cmd`, `_get_raw_bell_state`,
  `_build_cmds_epr_keep_corrections_single_pair`, `_build_cmds_loop_body`,
  `_build_cmds_condition`, `LabelManager.new_label`, `MemoryManager.get_inactive_register`.

Register and label allocation follow the builder exactly (lowest inactive `R`
register; first unused `PREFIX`, `PREFIX1`, …), so the emitted list can be
compared *syntactically* with the real builder's output.
Core Lean only.
-/
import NetqasmVerif.Model.Bell
namespace NQ.Bell

inductive Opd
  | r (i : Nat)
  | imm (v : Int)
  deriving DecidableEq, Repr, Inhabited

inductive Cmd
  | set (r : Nat) (v : Int)
  | add (d a : Nat) (b : Opd)
  | sub (d : Nat) (a b : Opd)
  | beq (a b : Opd) (l : String)
  | bne (a b : Opd) (l : String)
  | jmp (l : String)
  | label (l : String)
  | load (r : Nat) (arr : Int) (idx : Nat)
  | rot (g : Gate) (r : Nat)
  | waitAllImm (arr : Int) (s e : Int)
  | waitAllReg (arr : Int) (s e : Nat)
  | recvEpr (remote sock : Int) (ids : Option Int) (res : Int)
  | createEpr (remote sock : Int) (ids : Option Int) (args res : Int)
  | mov (a b : Nat)
  | qfree (r : Nat)
  deriving DecidableEq, Repr, Inhabited

def Opd.render : Opd → String
  | .r i => "R" ++ toString i
  | .imm v => toString v

def Cmd.render : Cmd → String
  | .set r v => "set R" ++ toString r ++ " " ++ toString v
  | .add d a b => "add R" ++ toString d ++ " R" ++ toString a ++ " " ++ b.render
  | .sub d a b => "sub R" ++ toString d ++ " " ++ a.render ++ " " ++ b.render
  | .beq a b l => "beq " ++ a.render ++ " " ++ b.render ++ " " ++ l
  | .bne a b l => "bne " ++ a.render ++ " " ++ b.render ++ " " ++ l
  | .jmp l => "jmp " ++ l
  | .label l => l ++ ":"
  | .load r arr idx => "load R" ++ toString r ++ " @" ++ toString arr ++ "[R" ++ toString idx ++ "]"
  | .rot g r => "rot_" ++ g.axis.name ++ " R" ++ toString r ++ " " ++ toString g.n ++ " " ++ toString g.d
  | .waitAllImm arr s e => "wait_all @" ++ toString arr ++ "[" ++ toString s ++ ":" ++ toString e ++ "]"
  | .waitAllReg arr s e => "wait_all @" ++ toString arr ++ "[R" ++ toString s ++ ":R" ++ toString e ++ "]"
  | .recvEpr rem sock ids res =>
      "recv_epr(" ++ toString rem ++ "," ++ toString sock ++ ") " ++
        (match ids with | some a => toString a | none => "C0") ++ " " ++ toString res
  | .createEpr rem sock ids args res =>
      "create_epr(" ++ toString rem ++ "," ++ toString sock ++ ") " ++
        (match ids with | some a => toString a | none => "C0") ++ " " ++ toString args ++ " " ++ toString res
  | .mov a b => "mov R" ++ toString a ++ " R" ++ toString b
  | .qfree r => "qfree R" ++ toString r

/-! ### data read from the real builder (filled by `Gen/Corrections.lean`) -/

/-- shape of `_build_cmds_epr_keep_corrections_single_pair`: three `if_eq`
blocks with one, one and two rotations -/
structure SinglePair where
  v1 : Int
  g1 : Gate
  v2 : Int
  g2 : Gate
  v3 : Int
  g3a : Gate
  g3b : Gate
  deriving DecidableEq, Repr

/-- which virtual qubit the corrections address -/
inductive Target
  | loaded   -- the id loaded from `qubit_ids[pair]`
  | setZero  -- the constant 0 (`set <reg> 0`)
  deriving DecidableEq, Repr, Inhabited

/-- constants of the results array layout -/
structure Layout where
  idxBell : Int   -- SER_RESPONSE_KEEP_IDX_BELL_STATE
  len : Int       -- SER_RESPONSE_KEEP_LEN
  okFields : Int  -- OK_FIELDS_K used by the wait computation
  deriving DecidableEq, Repr

/-! ### code templates (registers and labels are parameters) -/

/-- `_get_raw_bell_state`: `I := idxBell + len·L` by repeated addition, then load -/
def rawBellCode (ly : Layout) (b L I J : Nat) (l1 l2 : String) (res : Int) : List Cmd :=
  [ .set I ly.idxBell, .set J 0, .label l1, .beq (.r J) (.r L) l2,
    .add I I (.imm ly.len), .add J J (.imm 1), .jmp l1, .label l2,
    .load b res I ]

/-- `_build_cmds_epr_keep_corrections_single_pair` -/
def singlePairCode (sp : SinglePair) (b q : Nat) (x1 x2 x3 : String) : List Cmd :=
  [ .bne (.r b) (.imm sp.v1) x1, .rot sp.g1 q, .label x1,
    .bne (.r b) (.imm sp.v2) x2, .rot sp.g2 q, .label x2,
    .bne (.r b) (.imm sp.v3) x3, .rot sp.g3a q, .rot sp.g3b q, .label x3 ]

structure LoopLabels where
  l1 : String   -- inner loop entry
  l2 : String   -- inner loop exit
  x1 : String
  x2 : String
  x3 : String
  l3 : String   -- outer loop entry
  l4 : String   -- outer loop exit
  deriving DecidableEq, Repr

/-- `_build_cmds_epr_keep_corrections`: the wait-all correction loop -/
def corrLoopCode (t : Target) (ly : Layout) (sp : SinglePair) (q b L I J : Nat) (lb : LoopLabels)
    (n : Int) (ids res : Int) : List Cmd :=
  [ .set L 0, .label lb.l3, .beq (.r L) (.imm n) lb.l4, .load q ids L ]
  ++ rawBellCode ly b L I J lb.l1 lb.l2 res
  ++ (match t with | .loaded => [] | .setZero => [.set q 0])
  ++ singlePairCode sp b q lb.x1 lb.x2 lb.x3
  ++ [ .add L L (.imm 1), .jmp lb.l3, .label lb.l4 ]

/-- the per-pair correction block of the post-routine and move-to-memory paths -/
def corrBlockCode (t : Target) (ly : Layout) (sp : SinglePair) (q b L I J : Nat)
    (l1 l2 x1 x2 x3 : String) (ids res : Int) : List Cmd :=
  rawBellCode ly b L I J l1 l2 res
  ++ (match t with | .loaded => [.load q ids L] | .setZero => [.set q 0])
  ++ singlePairCode sp b q x1 x2 x3

/-- `_add_wait_for_ent_info_cmd` -/
def waitBlockCode (ly : Layout) (L s t e J : Nat) (a1 a2 b1 b2 : String) (res : Int) : List Cmd :=
  [ .set s 0, .set t 0, .set e 0,
    .set J 0, .label a1, .beq (.r J) (.imm ly.okFields) a2, .add s s (.r L), .add J J (.imm 1), .jmp a1,
    .label a2,
    .add t L (.imm 1),
    .set J 0, .label b1, .beq (.r J) (.imm ly.okFields) b2, .add e e (.r t), .add J J (.imm 1), .jmp b1,
    .label b2,
    .waitAllReg res s e ]

/-! ### allocation, as the builder does it -/

/-- `MemoryManager.get_inactive_register` -/
def getInactive (act : List Nat) : Option Nat := (List.range 16).find? (fun i => !act.contains i)

/-- `LabelManager.new_label`; `none` only in the unreachable case that
`used.length + 1` candidates are all taken -/
def newLabel (used : List String) (p : String) : Option (String × List String) :=
  if !used.contains p then some (p, p :: used)
  else match ((List.range (used.length + 1)).map (fun i => p ++ toString (i + 1))).find?
      (fun s => !used.contains s) with
    | some s => some (s, s :: used)
    | none => none

/-- `HardwareConfig.comm_qubit_count` as the constructors set it: `NVHardwareConfig(k)` has one
communication qubit (and k − 1 memory qubits), `GenericHardwareConfig(k)` has k -/
def commQubits (kind : String) (count : Nat) : Nat := if kind == "nv" then 1 else count

/-- the builder's `single_comm_qubit` — a function of the hardware configuration, used for BOTH the
`wait_all` decision and the decision to append the one-pair-at-a-time move loop in `sdk_epr_keep`,
and for the zeroed qubit-ids array -/
def singleComm (kind : String) (count : Nat) : Bool := commQubits kind count == 1

structure Config where
  api : String      -- "keep" | "rsp" | "measure"
  nv : Bool         -- `singleComm` of the hardware configuration
  post : Bool       -- a post routine was given (recv_keep only)
  n : Nat
  expect : Bool
  act : List Nat    -- active R registers before the call
  labels : List String  -- labels already handed out
  res : Int         -- address of the results array
  ids : Int         -- address of the qubit ids array
  remote : Int
  sock : Int
  deriving Repr

structure Data where
  sp : SinglePair
  ly : Layout
  tWaitAll : Target
  tPost : Target
  tMove : Target
  deriving Repr

/-- registers and labels of the wait-all loop, allocated in the builder's order -/
def allocWaitAll (act : List Nat) (used : List String) :
    Option (Nat × Nat × Nat × Nat × Nat × LoopLabels) :=
  (getInactive act).bind fun q =>
  (getInactive (q :: act)).bind fun b =>
  (getInactive (b :: q :: act)).bind fun L =>
  (getInactive (L :: b :: q :: act)).bind fun I =>
  (getInactive (I :: L :: b :: q :: act)).bind fun J =>
  (newLabel used "LOOP").bind fun p1 =>
  (newLabel p1.2 "LOOP_EXIT").bind fun p2 =>
  (newLabel p2.2 "IF_EXIT").bind fun p3 =>
  (newLabel p3.2 "IF_EXIT").bind fun p4 =>
  (newLabel p4.2 "IF_EXIT").bind fun p5 =>
  (newLabel p5.2 "LOOP").bind fun p6 =>
  (newLabel p6.2 "LOOP_EXIT").bind fun p7 =>
  some (q, b, L, I, J, ⟨p1.1, p2.1, p3.1, p4.1, p5.1, p6.1, p7.1⟩)

def emitWaitAll (d : Data) (c : Config) : Option (List Cmd) :=
  let head : List Cmd := [ .recvEpr c.remote c.sock (some c.ids) c.res,
                           .waitAllImm c.res 0 (d.ly.len * c.n) ]
  if !c.expect then some head
  else match allocWaitAll c.act c.labels with
    | none => none
    | some (q, b, L, I, J, lb) =>
      some (head ++ corrLoopCode d.tWaitAll d.ly d.sp q b L I J lb c.n c.ids c.res)

/-- registers/labels of the per-pair loop of the post-routine and move paths -/
structure SeqAlloc where
  L : Nat
  q : Nat
  b : Nat
  s : Nat
  t : Nat
  e : Nat
  J : Nat
  a1 : String
  a2 : String
  b1 : String
  b2 : String
  deriving Repr

def allocSeq (act : List Nat) (used : List String) : Option (SeqAlloc × List String) :=
  (getInactive act).bind fun L =>
  (getInactive (L :: act)).bind fun q =>
  (getInactive (q :: L :: act)).bind fun b =>
  (getInactive (b :: q :: L :: act)).bind fun s =>
  (getInactive (s :: b :: q :: L :: act)).bind fun t =>
  (getInactive (t :: s :: b :: q :: L :: act)).bind fun e =>
  (getInactive (e :: t :: s :: b :: q :: L :: act)).bind fun J =>
  (newLabel used "LOOP").bind fun p1 =>
  (newLabel p1.2 "LOOP_EXIT").bind fun p2 =>
  (newLabel p2.2 "LOOP").bind fun p3 =>
  (newLabel p3.2 "LOOP_EXIT").bind fun p4 =>
  some (⟨L, q, b, s, t, e, J, p1.1, p2.1, p3.1, p4.1⟩, p4.2)

/-- corrections inside the per-pair loop (only when expected): index register and inner loop
register are the lowest inactive ones again (the wait registers have been released) -/
def seqCorr (d : Data) (c : Config) (move : Bool) (a : SeqAlloc) (u4 : List String) :
    Option (List Cmd × List String) :=
  if !c.expect then some ([], u4)
  else
    (getInactive (a.b :: a.q :: a.L :: c.act)).bind fun I =>
    (getInactive (I :: a.b :: a.q :: a.L :: c.act)).bind fun J =>
    (newLabel u4 "LOOP").bind fun p1 =>
    (newLabel p1.2 "LOOP_EXIT").bind fun p2 =>
    (newLabel p2.2 "IF_EXIT").bind fun p3 =>
    (newLabel p3.2 "IF_EXIT").bind fun p4 =>
    (newLabel p4.2 "IF_EXIT").bind fun p5 =>
    some (corrBlockCode (if move then d.tMove else d.tPost) d.ly d.sp
            a.q a.b a.L I J p1.1 p2.1 p3.1 p4.1 p5.1 c.ids c.res, p5.2)

/-- `with loop_reg.if_ne(number - 1)`: move the state to its memory qubit and free qubit 0 -/
def seqTail (c : Config) (move : Bool) (a : SeqAlloc) (u9 : List String) :
    Option (List Cmd × List String) :=
  let act3 := a.b :: a.q :: a.L :: c.act
  if !move then some ([], u9)
  else match getInactive act3 with
    | none => none
    | some r0 => match getInactive (r0 :: act3) with
      | none => none
      | some r1 => match newLabel u9 "IF_EXIT" with
        | none => none
        | some (x4, u10) =>
          some ([ .beq (.r a.L) (.imm ((c.n : Int) - 1)) x4,
                  .sub r0 (.imm ((c.n : Int) - 1)) (.r a.L), .set r1 0, .mov r1 r0, .qfree r1,
                  .label x4 ], u10)

/-- the loop of `_build_cmds_post_epr` (empty post routine) and of
`_build_cmds_wait_move_epr_to_mem` -/
def emitSeq (d : Data) (c : Config) (move : Bool) : Option (List Cmd) :=
  match allocSeq c.act c.labels with
  | none => none
  | some (a, u4) =>
    match seqCorr d c move a u4 with
    | none => none
    | some (corrCmds, u9) =>
      match seqTail c move a u9 with
      | none => none
      | some (tailCmds, u10) => match newLabel u10 "LOOP" with
        | none => none
        | some (l3, u11) => match newLabel u11 "LOOP_EXIT" with
          | none => none
          | some (l4, _) =>
            some ([ .recvEpr c.remote c.sock (some c.ids) c.res,
                    .set a.L 0, .label l3, .beq (.r a.L) (.imm c.n) l4 ]
                  ++ waitBlockCode d.ly a.L a.s a.t a.e a.J a.a1 a.a2 a.b1 a.b2 c.res
                  ++ corrCmds ++ tailCmds
                  ++ [ .add a.L a.L (.imm 1), .jmp l3, .label l4 ])

def emitMeasure (d : Data) (c : Config) : Option (List Cmd) :=
  some [ .recvEpr c.remote c.sock none c.res, .waitAllImm c.res 0 (d.ly.len * c.n) ]

/-- dispatch of `sdk_epr_keep` / `sdk_epr_rsp_recv` / `sdk_epr_measure` for the receiver -/
def emit (d : Data) (c : Config) : Option (List Cmd) :=
  if c.api == "measure" then emitMeasure d c
  else if c.api == "rsp" then emitWaitAll d c
  else if c.api == "keep" then
    if c.post then emitSeq d c false
    else if c.nv then emitSeq d c true
    else emitWaitAll d c
  else none


/-! ### the CREATOR role (`create_keep`, `create_rsp`, `create_measure`) -/

/-- does the creator side emit Bell corrections on the wait-all / post-routine / move-to-memory
path? Read off the real builder's emission (`Gen/Corrections.lean`). -/
structure CreatorData where
  cWaitAll : Bool
  cPost : Bool
  cMove : Bool
  deriving DecidableEq, Repr

/-- the request command of the creator instead of the receiver's -/
def retarget (args : Int) : List Cmd → List Cmd
  | .recvEpr rem sock ids res :: rest => .createEpr rem sock ids args res :: rest
  | cs => cs

/-- `sdk_epr_keep(role=CREATE)`, `sdk_epr_rsp_create`, `sdk_epr_measure(role=CREATE)`: the same
builder paths as for the receiver (`_build_cmds_post_epr`, `_build_cmds_wait_move_epr_to_mem` are
shared, guarded by `role`), with `create_epr` as request command. Remote state preparation and
measure-directly requests only wait for the results. -/
def emitCreate (d : Data) (cd : CreatorData) (c : Config) (args : Int) : Option (List Cmd) :=
  if c.api == "keep" then
    let flag := if c.post then cd.cPost else if c.nv then cd.cMove else cd.cWaitAll
    (emit d { c with expect := c.expect && flag }).map (retarget args)
  else if c.api == "rsp" || c.api == "measure" then
    (emitMeasure d c).map (retarget args)
  else none

/-- initial values of the qubit-ids array: `sdk_epr_keep` stores 0 for every pair when there is a
single communication qubit, the handle ids otherwise; `sdk_epr_rsp_recv` always the handle ids -/
def idsInit (c : Config) (handleIds : List Int) : List Int :=
  if c.api == "keep" && c.nv then handleIds.map (fun _ => 0) else handleIds

/-! ### requested measurement bases → rotations placed in the request -/

abbrev Rot := Nat × Nat × Nat

/-- `basis_to_rotation`, from the generated table (name, rotations, name `rotation_to_basis` gives back) -/
def basisRot (table : List (String × Rot × Option String)) (name : String) : Option Rot :=
  (table.find? (fun r => r.1 == name)).map (fun r => r.2.1)

/-- `create_measure` / `create_rsp`, per side: a basis given by NAME takes precedence, otherwise the
rotation tuple given for THAT side (default (0,0,0)) is used -/
def resolveRot (table : List (String × Rot × Option String)) (basis : Option String) (rot : Rot) : Option Rot :=
  match basis with
  | some b => basisRot table b
  | none => some rot

/-- the rotations of both sides that go into the request (`EntRequestParams.rotations_local/remote`) -/
def requestRots (table : List (String × Rot × Option String)) (bl br : Option String) (rl rr : Rot) :
    Option (Rot × Rot) :=
  match resolveRot table bl rl, resolveRot table br rr with
  | some l, some r => some (l, r)
  | _, _ => none

/-- slots `SER_CREATE_IDX_ROTATION_X_LOCAL1 … X_REMOTE2` of the serialized request, in array order
(X1, Y, X2 local, then X1, Y, X2 remote); an unwritten slot reads as 0 at the controller -/
def serRots (l r : Rot) : List Nat := [l.1, l.2.1, l.2.2, r.1, r.2.1, r.2.2]

/-! ### successive requests on one EPR socket -/

/-- one call of an `EPRSocket` request method, as the application writes it -/
structure Request where
  entry : String        -- "create_keep" | "create_keep_with_info" | "create_measure" | "create_rsp" |
                        -- "recv_keep" | "recv_keep_with_info" | "recv_measure" | "recv_rsp" | "recv_rsp_with_info"
  number : Nat
  expect : Bool         -- `expect_phi_plus` (receiving forms only)
  post : Bool           -- a post routine is given (keep forms only)
  sequential : Bool
  bl : Option String    -- basis_local / basis_remote by name (create_measure, create_rsp)
  br : Option String
  rl : Rot              -- rotations_local / rotations_remote
  rr : Rot
  deriving Repr

/-- what the builder is handed for that call (`EntRequestParams`, the fields C10 depends on) and the
`post_process` flag of measure-directly result objects -/
structure Params where
  number : Nat
  expect : Bool
  post : Bool
  sequential : Bool
  rotL : Rot
  rotR : Rot
  postProcess : Bool
  deriving DecidableEq, Repr

def Request.isRecv (r : Request) : Bool := r.entry.startsWith "recv"
def Request.isKeep (r : Request) : Bool :=
  r.entry == "create_keep" || r.entry == "create_keep_with_info" || r.entry == "recv_keep" ||
    r.entry == "recv_keep_with_info"

/-- the parameters of a call are a function of THAT call's arguments: `expect_phi_plus` is the argument for
receiving forms and the dataclass default `True` otherwise; rotations are `requestRots` of the call's own
bases for `create_measure`, the local basis for `create_rsp`, the default (0,0,0) for every other form
(in particular `recv_measure`, which therefore post-processes with the Z rule); post routine / sequential
only for the keep forms -/
def paramsOf (table : List (String × Rot × Option String)) (r : Request) : Option Params :=
  let expect := if r.isRecv then r.expect else true
  let post := r.isKeep && r.post
  let seq := r.isKeep && r.sequential
  if r.entry == "create_measure" then
    match requestRots table r.bl r.br r.rl r.rr with
    | some (l, rr) => some ⟨r.number, expect, post, seq, l, rr, false⟩
    | none => none
  else if r.entry == "create_rsp" then
    match resolveRot table r.bl r.rl with
    | some l => some ⟨r.number, expect, post, seq, l, (0, 0, 0), false⟩
    | none => none
  else
    some ⟨r.number, expect, post, seq, (0, 0, 0), (0, 0, 0), r.entry == "recv_measure" && r.expect⟩

/-- the model of the socket object between calls: it only counts the requests it served -/
structure Sock where
  served : Nat
  deriving Repr

def Sock.request (table : List (String × Rot × Option String)) (s : Sock) (r : Request) :
    Sock × Option Params := (⟨s.served + 1⟩, paramsOf table r)

/-- a history of requests on one socket object -/
def runSocket (table : List (String × Rot × Option String)) : Sock → List Request → List (Option Params)
  | _, [] => []
  | s, r :: rs => (s.request table r).2 :: runSocket table (s.request table r).1 rs

/-! ### small-step semantics of the command subset -/

inductive Ev
  | rot (g : Gate) (q : Int)
  | mov (src dst : Int)
  | qfree (q : Int)
  deriving DecidableEq, Repr, Inhabited

structure St where
  pc : Nat
  regs : Nat → Int
  trace : List Ev

def upd (f : Nat → Int) (r : Nat) (v : Int) : Nat → Int := fun x => if x = r then v else f x

def Opd.val (regs : Nat → Int) : Opd → Int
  | .r i => regs i
  | .imm v => v

def findLabelFrom : List Cmd → String → Nat → Option Nat
  | [], _, _ => none
  | .label l' :: cs, l, k => if l' = l then some k else findLabelFrom cs l (k + 1)
  | _ :: cs, l, k => findLabelFrom cs l (k + 1)

/-- position of the first definition of a label -/
def findLabel (code : List Cmd) (l : String) : Option Nat := findLabelFrom code l 0

abbrev Mem := Int → Option (List Int)

/-- one command. `none` = fault / end of code. Array loads fault outside the array.
`wait_all` and `recv_epr` are no-ops here: the semantics describes the run in which the
awaited entries have been written (the arrays in `mem` are their final contents). -/
def step (code : List Cmd) (mem : Mem) (s : St) : Option St :=
  match code[s.pc]? with
  | none => none
  | some c =>
    match c with
    | .set r v => some ⟨s.pc + 1, upd s.regs r v, s.trace⟩
    | .add d a b => some ⟨s.pc + 1, upd s.regs d (s.regs a + b.val s.regs), s.trace⟩
    | .sub d a b => some ⟨s.pc + 1, upd s.regs d (a.val s.regs - b.val s.regs), s.trace⟩
    | .beq a b l =>
      if a.val s.regs = b.val s.regs then
        match findLabel code l with
        | some t => some ⟨t, s.regs, s.trace⟩
        | none => none
      else some ⟨s.pc + 1, s.regs, s.trace⟩
    | .bne a b l =>
      if a.val s.regs = b.val s.regs then some ⟨s.pc + 1, s.regs, s.trace⟩
      else match findLabel code l with
        | some t => some ⟨t, s.regs, s.trace⟩
        | none => none
    | .jmp l =>
      match findLabel code l with
      | some t => some ⟨t, s.regs, s.trace⟩
      | none => none
    | .label _ => some ⟨s.pc + 1, s.regs, s.trace⟩
    | .load r arr idx =>
      match mem arr with
      | none => none
      | some xs =>
        if s.regs idx < 0 then none
        else match xs[(s.regs idx).toNat]? with
          | none => none
          | some v => some ⟨s.pc + 1, upd s.regs r v, s.trace⟩
    | .rot g r => some ⟨s.pc + 1, s.regs, s.trace ++ [.rot g (s.regs r)]⟩
    | .waitAllImm _ _ _ => some ⟨s.pc + 1, s.regs, s.trace⟩
    | .waitAllReg _ _ _ => some ⟨s.pc + 1, s.regs, s.trace⟩
    | .recvEpr _ _ _ _ => some ⟨s.pc + 1, s.regs, s.trace⟩
    | .createEpr _ _ _ _ _ => some ⟨s.pc + 1, s.regs, s.trace⟩
    | .mov a b => some ⟨s.pc + 1, s.regs, s.trace ++ [.mov (s.regs a) (s.regs b)]⟩
    | .qfree r => some ⟨s.pc + 1, s.regs, s.trace ++ [.qfree (s.regs r)]⟩

def runN (code : List Cmd) (mem : Mem) : Nat → St → Option St
  | 0, s => some s
  | k + 1, s => match step code mem s with
    | none => none
    | some s' => runN code mem k s'

/-- run until the program counter leaves the code (or fuel runs out) -/
def runFuel (code : List Cmd) (mem : Mem) : Nat → St → Option St
  | 0, _ => none
  | k + 1, s => if s.pc ≥ code.length then some s else
    match step code mem s with
    | none => none
    | some s' => runFuel code mem k s'

/-- the rotations a Bell value triggers in the single-pair block -/
def SinglePair.gates (sp : SinglePair) (bv : Int) : List Gate :=
  (if bv = sp.v1 then [sp.g1] else []) ++ (if bv = sp.v2 then [sp.g2] else [])
    ++ (if bv = sp.v3 then [sp.g3a, sp.g3b] else [])

def corrEvents (sp : SinglePair) (bv : Int) (q : Int) : List Ev := (sp.gates bv).map (fun g => .rot g q)

end NQ.Bell
