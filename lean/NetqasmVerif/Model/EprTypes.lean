/- Model M4 (part 2a): typed field values of link-layer requests. Core Lean only. -/
namespace NQ.EprReq

/-- a field value of a `LinkLayerCreate`: a plain Python int, or a member of `RequestType` /
`RandomBasis` (given by its `.value`). `request_to_qlink_1_0` needs enum members where it writes
`request.x.value` and compares `request.type == RequestType.K`. -/
inductive FVal
  | int (v : Int)
  | reqType (v : Int)
  | randBasis (v : Int)
  deriving DecidableEq, Repr, Inhabited

end NQ.EprReq
