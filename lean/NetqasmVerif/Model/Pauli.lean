/-
M8 — signed Pauli strings and the conjugation (Heisenberg) action of Clifford gates.

`g† P g` for a gate `g` and a Pauli `P` is again a Pauli up to sign; the table below is the
complete action of X, Y, Z, H, K, S on one qubit and of CNOT on two. Every row is checked
against the exact ℤ[ζ₈] matrices in `Props/PauliTable.lean`.

`pullback l O` is the observable `C† O C` for the circuit `C` given by the gate list `l` in time
order (first element applied first): measuring `O` after `C` is measuring `pullback l O` before.

Core Lean only.
-/
import NetqasmVerif.Model.Gates
namespace NQ

inductive P1 | I | X | Y | Z
  deriving DecidableEq, Repr

/-- a signed Pauli string `±P₀⊗P₁⊗…` (`neg = true`: minus) -/
structure PStr where
  neg : Bool
  ps : List P1
  deriving DecidableEq, Repr

/-- `g† P g = ±P'` for the single-qubit Clifford gates; `none`: not a Clifford gate here -/
def conj1 : GName → P1 → Option (Bool × P1)
  | _, .I => some (false, .I)
  | .x, .X => some (false, .X)
  | .x, .Y => some (true, .Y)
  | .x, .Z => some (true, .Z)
  | .y, .X => some (true, .X)
  | .y, .Y => some (false, .Y)
  | .y, .Z => some (true, .Z)
  | .z, .X => some (true, .X)
  | .z, .Y => some (true, .Y)
  | .z, .Z => some (false, .Z)
  | .h, .X => some (false, .Z)
  | .h, .Y => some (true, .Y)
  | .h, .Z => some (false, .X)
  | .k, .X => some (true, .X)
  | .k, .Y => some (false, .Z)
  | .k, .Z => some (false, .Y)
  | .s, .X => some (true, .Y)
  | .s, .Y => some (false, .X)
  | .s, .Z => some (false, .Z)
  | _, _ => none

def isClifford1 : GName → Bool
  | .x | .y | .z | .h | .k | .s => true
  | _ => false

/-- `CNOT (Pc ⊗ Pt) CNOT = ±(Pc' ⊗ Pt')`, first component = control -/
def conjCnot : P1 → P1 → Bool × P1 × P1
  | .I, .I => (false, .I, .I)
  | .I, .X => (false, .I, .X)
  | .I, .Y => (false, .Z, .Y)
  | .I, .Z => (false, .Z, .Z)
  | .X, .I => (false, .X, .X)
  | .X, .X => (false, .X, .I)
  | .X, .Y => (false, .Y, .Z)
  | .X, .Z => (true, .Y, .Y)
  | .Y, .I => (false, .Y, .X)
  | .Y, .X => (false, .Y, .I)
  | .Y, .Y => (true, .X, .Z)
  | .Y, .Z => (false, .X, .Y)
  | .Z, .I => (false, .Z, .I)
  | .Z, .X => (false, .Z, .X)
  | .Z, .Y => (false, .I, .Y)
  | .Z, .Z => (false, .I, .Z)

/-- `g† O g` for one gate instruction acting on a Pauli string -/
def conjGate (g : GI) (O : PStr) : Option PStr :=
  match g.g, g.qs with
  | .cnot, [c, t] =>
    if c ≠ t ∧ c < O.ps.length ∧ t < O.ps.length then
      let r := conjCnot (O.ps.getD c .I) (O.ps.getD t .I)
      some ⟨xor O.neg r.1, (O.ps.set c r.2.1).set t r.2.2⟩
    else none
  | g1, [q] =>
    if q < O.ps.length then
      match conj1 g1 (O.ps.getD q .I) with
      | some r => some ⟨xor O.neg r.1, O.ps.set q r.2⟩
      | none => none
    else none
  | _, _ => none

/-- `C† O C` for the circuit `C` = gate list in time order -/
def pullback : List GI → PStr → Option PStr
  | [], O => some O
  | g :: rest, O => (pullback rest O).bind (conjGate g)

/-- `Z` on qubit `q` of `n` -/
def zAt (n q : Nat) : PStr := ⟨false, (List.range n).map fun i => if i = q then .Z else .I⟩

/-! ### Matrices of Paulis (for checking the table, and small brute-force tests) -/

def P1.mat : P1 → M2 Cyc
  | .I => M2.id2
  | .X => gX
  | .Y => gY
  | .Z => gZ

/-- dense matrix product of operators given as lists of columns -/
def matMul (A B : Mat) : Mat :=
  B.map fun bcol =>
    (List.range bcol.length).map fun i =>
      (List.range bcol.length).foldl (fun acc k => acc + (A.getD k []).getD i 0 * bcol.getD k 0) 0

/-- conjugate transpose of an operator given as list of columns -/
def matAdj (A : Mat) : Mat :=
  (List.range A.length).map fun j => (List.range A.length).map fun i => ((A.getD i []).getD j 0).conj

def matSmul (s : Cyc) (A : Mat) : Mat := A.map fun col => col.map fun x => s * x

/-- `A ⊗ B` for 2×2 matrices as a 4×4 operator (columns; first factor = more significant qubit) -/
def kron2 (a b : M2 Cyc) : Mat := matMul (embed1 2 0 a) (embed1 2 1 b)

def PStr.sign (O : PStr) : Cyc := if O.neg then -1 else 1

/-- dense matrix of a signed Pauli string (small `n` only) -/
def PStr.mat (O : PStr) : Mat :=
  let n := O.ps.length
  let rec go (ps : List P1) (q : Nat) (acc : Mat) : Mat :=
    match ps with
    | [] => acc
    | p :: rest => go rest (q + 1) (matMul acc (embed1 n q p.mat))
  matSmul O.sign (go O.ps 0 (permMat n id))

end NQ
