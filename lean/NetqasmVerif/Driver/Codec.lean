import NetqasmVerif.Driver.Json
import NetqasmVerif.Model.Codec
import NetqasmVerif.Gen.InstrTable
open Lean
namespace NQ.Drv

def tableOf (fl : String) : Option Table :=
  if fl == "vanilla" then some Gen.vanillaRows
  else if fl == "nv" then some Gen.nvRows
  else if fl == "reids" then some Gen.reidsRows
  else none

def handleCodec (op : String) (j : Json) : Option Json :=
  if op == "codec.encode" then do
    let T ← (jField? j "fl").bind jStr? |>.bind tableOf
    let i ← (jField? j "i").bind instrOfJson
    pure (Json.mkObj [("b", ofOpt ofNats (encodeInstr T i))])
  else if op == "codec.decode" then do
    let T ← (jField? j "fl").bind jStr? |>.bind tableOf
    let b ← (jField? j "b").bind jNats?
    pure (Json.mkObj [("i", ofOpt instrToJson (decodeInstr T b))])
  else if op == "codec.encsub" then do
    let T ← (jField? j "fl").bind jStr? |>.bind tableOf
    let v0 ← (jField? j "v0").bind jNat?
    let v1 ← (jField? j "v1").bind jNat?
    let app ← (jField? j "app").bind jNat?
    let is ← (jField? j "is").bind jArr?
    let is ← is.toList.mapM instrOfJson
    pure (Json.mkObj [("b", ofOpt ofNats (encodeSub T ⟨v0, v1, app, is⟩))])
  else if op == "codec.decsub" then do
    let T ← (jField? j "fl").bind jStr? |>.bind tableOf
    let b ← (jField? j "b").bind jNats?
    pure (match decodeSub T b with
      | some s => Json.mkObj [("v0", toJson s.v0), ("v1", toJson s.v1), ("app", toJson s.app),
          ("is", Json.arr (s.instrs.map instrToJson).toArray)]
      | none => Json.null)
  else none

end NQ.Drv
