import NetqasmVerif.Driver.Json
import NetqasmVerif.Driver.Exec
import NetqasmVerif.Driver.Epr
import NetqasmVerif.Model.Controller
open Lean
namespace NQ.Drv
open NQ NQ.Exec NQ.Ctl

def cinstr? (j : Json) : Option CInstr := do
  let a ← jArr? j
  match a.toList with
  | [] => none
  | m :: rest =>
    let mn ← jStr? m
    if mn == "create_epr" || mn == "recv_epr" || mn == "wait_all" || mn == "wait_any" || mn == "wait_single"
        || mn == "meas_basis" then do
      let xs ← rest.mapM jInt?
      match mn, xs with
      | "create_epr", [b0, i0, b1, i1, b2, i2, b3, i3, b4, i4] =>
        pure (.createEpr (← xreg? b0 i0) (← xreg? b1 i1) (← xreg? b2 i2) (← xreg? b3 i3) (← xreg? b4 i4))
      | "recv_epr", [b0, i0, b1, i1, b2, i2, b3, i3] =>
        pure (.recvEpr (← xreg? b0 i0) (← xreg? b1 i1) (← xreg? b2 i2) (← xreg? b3 i3))
      | "wait_all", [ad, b0, i0, b1, i1] => pure (.waitAll ad (← xreg? b0 i0) (← xreg? b1 i1))
      | "wait_any", [ad, b0, i0, b1, i1] => pure (.waitAny ad (← xreg? b0 i0) (← xreg? b1 i1))
      | "wait_single", [ad, b0, i0] => pure (.waitSingle ad (← xreg? b0 i0))
      | "meas_basis", [b0, i0, b1, i1, x0, x1, x2, x3] =>
        pure (.measBasis (← xreg? b0 i0) (← xreg? b1 i1) x0 x1 x2 x3)
      | _, _ => none
    else (xinstr? j).map CInstr.base

def caction? (j : Json) : Option CAction := do
  let a ← (jField? j "a").bind jStr?
  let nat (k : String) : Option Nat := (jField? j k).bind jNat?
  let int (k : String) : Option Int := (jField? j k).bind jInt?
  if a == "init" then pure (.base (.init (← nat "app") (← nat "n")))
  else if a == "spawn" then do
    let p ← (jField? j "prog").bind jArr?
    pure (.spawn (← nat "app") (← p.toList.mapM cinstr?))
  else if a == "tick" then pure (.tick (← nat "i"))
  else if a == "stackfault" then pure (.stackFault (← nat "i"))
  else if a == "deliver" then
    pure (.deliver (tyOf (← nat "ty")) (← int "remote") (← int "purpose") (← int "dir") (← int "phys")
      (← (jField? j "fields").bind jInts?))
  else if a == "poll" then pure .poll
  else if a == "reserve" then pure (.base .reserve)       -- the link layer takes an unused physical qubit
  else if a == "stop" then pure (.base (.stop (← nat "app")))
  else none

def coutcomeJ : Option COutcome → Json
  | none => Json.null
  | some .halted => Json.str "halted"
  | some (.fault f ln) => Json.mkObj [("cls", f.pyClass), ("kind", f.name),
      ("line", match ln with | some l => toJson l | none => Json.null)]

def cstateJ (c : CState) (appIds : List Nat) (addrs : List Int) : Json :=
  (stateJ c.s appIds addrs).mergeObj (Json.mkObj [
    ("subs", Json.arr (c.subs.map (fun sb => Json.mkObj [("app", toJson sb.a), ("pc", toJson sb.pc),
        ("fin", coutcomeJ sb.fin)])).toArray),
    ("queues", Json.arr (c.book.queues.map (fun (κ, q) => Json.mkObj [
        ("remote", toJson κ.remote), ("purpose", toJson κ.purpose), ("creator", toJson κ.creator),
        ("reqs", Json.arr (q.map (fun r => Json.arr #[toJson r.id, toJson r.sub, toJson r.resAddr,
            ofOptInt r.qAddr, toJson r.tot, toJson r.left])).toArray)])).toArray),
    ("pending", ofNats (c.book.pending.map (·.id)))])

def creplay (cfg : Cfg) (appIds : List Nat) (addrs : List Int) :
    CState → List CAction → List Json → List Json × Bool
  | _, [], acc => (acc.reverse, false)
  | c, a :: as, acc =>
    match Ctl.apply cfg c a with
    | none => (acc.reverse, true)
    | some c' => creplay cfg appIds addrs c' as (cstateJ c' appIds addrs :: acc)

def handleCtl (op : String) (j : Json) : Option Json :=
  if op == "ctl.run" then do
    let okf ← (jField? j "okf").bind jNat?
    let node ← (jField? j "node").bind jInt?
    let pmul ← (jField? j "pmul").bind jInt?
    let apps ← (jField? j "apps").bind jNats?
    let addrs ← (jField? j "addrs").bind jInts?
    let acts ← (jField? j "acts").bind jArr?
    let acts ← acts.toList.mapM caction?
    let cfg : Cfg := ⟨okf, false, fun r s => r * pmul + s⟩
    let (obs, raised) := creplay cfg apps addrs (Ctl.init node) acts []
    pure (Json.mkObj [("obs", Json.arr obs.toArray), ("raised", toJson raised)])
  else none

end NQ.Drv
