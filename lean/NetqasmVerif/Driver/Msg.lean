import NetqasmVerif.Driver.Json
import NetqasmVerif.Model.Msg
import NetqasmVerif.Gen.MsgLayouts
open Lean
namespace NQ.Drv
open NQ.Msg

def msgOfJson (j : Json) : Option Msg := do
  let k ← (jField? j "k").bind jStr?
  if k == "fixed" then
    let c ← (jField? j "c").bind jStr?
    let v ← (jField? j "v").bind jInts?
    pure (.fixed c v)
  else if k == "sub" then
    let b ← (jField? j "b").bind jNats?
    pure (.subroutine b)
  else if k == "arr" then
    let a ← (jField? j "a").bind jInt?
    let v ← (jField? j "v").bind jArr?
    let vs ← v.toList.mapM (fun x => if x.isNull then some none else (jInt? x).map some)
    pure (.retArr a vs)
  else none

def msgToJson : Msg → Json
  | .fixed c v => Json.mkObj [("k", "fixed"), ("c", (c : Json)), ("v", ofInts v)]
  | .subroutine b => Json.mkObj [("k", "sub"), ("b", ofNats b)]
  | .retArr a vs => Json.mkObj [("k", "arr"), ("a", toJson a),
      ("v", Json.arr (vs.map (fun | some (x : Int) => toJson x | none => Json.null)).toArray)]

def resToJson : Except Err Msg → Json
  | .ok m => Json.mkObj [("m", msgToJson m)]
  | .error .value => Json.mkObj [("err", "ValueError")]
  | .error .type_ => Json.mkObj [("err", "TypeError")]


def msgOptIntOfJson (x : Json) : Option (Option Int) :=
  if x.isNull then some none else (jInt? x).map some

def msgUpdOfJson (j : Json) : Option Upd := do
  let u ← (jField? j "u").bind jStr?
  if u == "obs" then pure .observe
  else if u == "leaf" then
    let k ← (jField? j "k").bind jNat?
    let v ← (jField? j "v").bind jInt?
    pure (.setLeaf k v)
  else if u == "bytes" then
    let b ← (jField? j "b").bind jNats?
    pure (.setBytes b)
  else if u == "addr" then
    let a ← (jField? j "a").bind jInt?
    pure (.setAddr a)
  else if u == "values" then
    let v ← (jField? j "v").bind jArr?
    let vs ← v.toList.mapM msgOptIntOfJson
    pure (.setValues vs)
  else if u == "item" then
    let i ← (jField? j "i").bind jNat?
    let v ← (jField? j "v").bind msgOptIntOfJson
    pure (.setItem i v)
  else if u == "append" then
    let v ← (jField? j "v").bind msgOptIntOfJson
    pure (.append v)
  else if u == "pop" then pure .pop
  else if u == "insert" then
    let i ← (jField? j "i").bind jNat?
    let v ← (jField? j "v").bind msgOptIntOfJson
    pure (.insert i v)
  else if u == "del" then
    let i ← (jField? j "i").bind jNat?
    pure (.delete i)
  else none

def handleMsg (op : String) (j : Json) : Option Json :=
  if op == "msg.ser" then do
    let m ← (jField? j "m").bind msgOfJson
    pure (Json.mkObj [("b", ofOpt ofNats (serialize Gen.msgTables m))])
  else if op == "msg.hist" then do
    let m ← (jField? j "m").bind msgOfJson
    let us ← (jField? j "us").bind jArr?
    let us ← us.toList.mapM msgUpdOfJson
    let m' := applyUpds m us
    pure (Json.mkObj [("m", msgToJson m'), ("b", ofOpt ofNats (serialize Gen.msgTables m'))])
  else if op == "msg.deshost" then do
    let b ← (jField? j "b").bind jNats?
    pure (resToJson (deserializeHost Gen.msgTables b))
  else if op == "msg.desret" then do
    let b ← (jField? j "b").bind jNats?
    pure (resToJson (deserializeReturn Gen.msgTables b))
  else none

end NQ.Drv
