import NetqasmVerif.Driver.Json
import NetqasmVerif.Model.BellLoop
import NetqasmVerif.Gen.Corrections
open Lean
namespace NQ.Drv
open NQ.Bell

def jStrs? (j : Json) : Option (List String) := do
  let a ← jArr? j
  a.toList.mapM jStr?

def bellConfig (j : Json) : Option Config := do
  let api ← (jField? j "api").bind jStr?
  let hwkind ← (jField? j "hwkind").bind jStr?
  let qubits ← (jField? j "qubits").bind jNat?
  let nv := singleComm hwkind qubits
  let post ← (jField? j "post").bind jBool?
  let n ← (jField? j "n").bind jNat?
  let expect ← (jField? j "expect").bind jBool?
  let act ← (jField? j "act").bind jNats?
  let labels ← (jField? j "labels").bind jStrs?
  let res ← (jField? j "res").bind jInt?
  let ids ← (jField? j "ids").bind jInt?
  let remote ← (jField? j "remote").bind jInt?
  let sock ← (jField? j "sock").bind jInt?
  pure ⟨api, nv, post, n, expect, act, labels, res, ids, remote, sock⟩

def handleBell (op : String) (j : Json) : Option Json :=
  if op == "bell.emit" then do
    let c ← bellConfig j
    let create := ((jField? j "create").bind jBool?).getD false
    let args := ((jField? j "args").bind jInt?).getD 0
    pure (Json.mkObj [("cmds", match (if create then emitCreate Gen.data Gen.creatorData c args else emit Gen.data c) with
      | some cs => Json.arr (cs.map (fun c => Json.str c.render)).toArray
      | none => Json.null)])
  else if op == "bell.idsinit" then do
    let c ← bellConfig j
    let hs ← (jField? j "handles").bind jInts?
    pure (Json.mkObj [("ids", ofInts (idsInit c hs))])
  else if op == "bell.rots" then do
    let optName := fun (k : String) => match jField? j k with
      | some v => jStr? v
      | none => none
    let rot := fun (k : String) => do
      let l ← (jField? j k).bind jNats?
      match l with
      | [a, b, c] => some ((a, b, c) : Rot)
      | _ => none
    let rl ← rot "rl"
    let rr ← rot "rr"
    pure (Json.mkObj [("rots", match requestRots Gen.bases (optName "bl") (optName "br") rl rr with
      | some (l, r) => ofNats (serRots l r)
      | none => Json.null)])
  else if op == "bell.history" then do
    let arr ← (jField? j "reqs").bind jArr?
    let parse := fun (q : Json) => do
      let entry ← (jField? q "entry").bind jStr?
      let number ← (jField? q "number").bind jNat?
      let expect ← (jField? q "expect").bind jBool?
      let post ← (jField? q "post").bind jBool?
      let sequential ← (jField? q "sequential").bind jBool?
      let optName := fun (k : String) => match jField? q k with
        | some v => jStr? v
        | none => none
      let rot := fun (k : String) => do
        let l ← (jField? q k).bind jNats?
        match l with
        | [a, b, c] => some ((a, b, c) : Rot)
        | _ => none
      let rl ← rot "rl"
      let rr ← rot "rr"
      pure (⟨entry, number, expect, post, sequential, optName "bl", optName "br", rl, rr⟩ : Request)
    let reqs ← arr.toList.mapM parse
    let served := ((jField? j "served").bind jNat?).getD 0
    pure (Json.mkObj [("params", Json.arr ((runSocket Gen.bases ⟨served⟩ reqs).map (fun o => match o with
      | some p => Json.mkObj [("number", toJson p.number), ("expect", toJson p.expect), ("post", toJson p.post),
          ("sequential", toJson p.sequential), ("rots", ofNats (serRots p.rotL p.rotR)),
          ("post_process", toJson p.postProcess)]
      | none => Json.null)).toArray)])
  else if op == "bell.gates" then do
    let bv ← (jField? j "bv").bind jInt?
    pure (Json.mkObj [("gates", Json.arr ((Gen.singlePair.gates bv).map
      (fun g => Json.str ("rot_" ++ g.axis.name ++ " " ++ toString g.n ++ " " ++ toString g.d))).toArray)])
  else none

end NQ.Drv
