import NetqasmVerif.Driver.Json
import NetqasmVerif.Model.Template
open Lean
namespace NQ.Drv
open NQ.Tpl

def templatePopOfJson (j : Json) : Option POp :=
  match jField? j "i", jField? j "t", jField? j "s" with
  | some v, _, _ => (jInt? v).map .int
  | _, some v, _ => (jStr? v).map .tmpl
  | _, _, some v => (jStr? v).map .txt
  | _, _, _ => none

def templatePopToJson : POp → Json
  | .int v => Json.mkObj [("i", toJson v)]
  | .tmpl n => Json.mkObj [("t", Json.str n)]
  | .txt s => Json.mkObj [("s", Json.str s)]

def templatePcmdOfJson (j : Json) : Option PCmd := do
  let n ← (jField? j "n").bind jStr?
  let o ← (jField? j "o").bind jArr?
  let ops ← o.toList.mapM templatePopOfJson
  pure ⟨n, ops⟩

def templatePcmdToJson (c : PCmd) : Json :=
  Json.mkObj [("n", Json.str c.name), ("o", Json.arr (c.ops.map templatePopToJson).toArray)]

def pcmdsOfJson (j : Json) : Option (List PCmd) := do
  let a ← jArr? j
  a.toList.mapM templatePcmdOfJson

def bopOfJson (j : Json) : Option BOp := do
  let k ← (jField? j "k").bind jStr?
  if k == "cmds" then do let cs ← (jField? j "cs").bind pcmdsOfJson; pure (.cmds cs)
  else if k == "array" then do let l ← (jField? j "len").bind jNat?; pure (.newArray l)
  else if k == "newreg" then do
    let i ← (jField? j "idx").bind jNat?
    let cs ← (jField? j "cs").bind pcmdsOfJson
    pure (.newReg i cs)
  else if k == "meas" then do
    let m ← (jField? j "m").bind jStr?
    let cs ← (jField? j "cs").bind pcmdsOfJson
    if m == "array" then pure (.meas .array cs) else if m == "reg" then pure (.meas .reg cs) else none
  else none

def sigmaOfJson (j : Json) : Option (String → Int) := do
  let a ← jArr? j
  let kv ← a.toList.mapM (fun e => do
    let l ← jArr? e
    match l.toList with
    | [k, v] => do let k ← jStr? k; let v ← jInt? v; pure (k, v)
    | _ => none)
  pure (fun n => match kv.find? (fun p => p.1 == n) with | some p => p.2 | none => 0)

def bkToJson (b : Bk) : Json :=
  Json.mkObj [("pending", toJson b.pending.length),
    ("arrays", Json.arr (b.arrays.map (fun a => Json.arr #[toJson a.addr, toJson a.len])).toArray),
    ("regs", ofNats b.regs), ("used", ofNats b.used),
    ("meas", Json.arr (b.meas.map (fun x => Json.bool x)).toArray)]

def subToJson : Option (List PCmd) → Json
  | none => Json.null
  | some cs => Json.arr (cs.map templatePcmdToJson).toArray

/-- one segment: bookkeeping after every body operation, then the emitted subroutine and the
bookkeeping after the terminator -/
def tplSeg (old : Bool) (b : Bk) (body : List BOp) (t : Tpl.Term) : Json × Bk :=
  let rec go (b : Bk) (acc : List Json) : List BOp → Bk × List Json
    | [] => (b, acc.reverse)
    | op :: ops => let b' := build b op; go b' (bkToJson b' :: acc) ops
  let r := go b [] body
  let e := endSeg (if old then compileOld else compileOp) r.1 t
  (Json.mkObj [("steps", Json.arr r.2.toArray), ("sub", subToJson e.1), ("bk", bkToJson e.2)], e.2)

def tplRun (old : Bool) : Bk → List (List BOp × Tpl.Term) → List Json
  | _, [] => []
  | b, (body, t) :: ss => let r := tplSeg old b body t; r.1 :: tplRun old r.2 ss

def segOfJson (j : Json) : Option (List BOp × Tpl.Term) := do
  let body ← (jField? j "body").bind jArr?
  let body ← body.toList.mapM bopOfJson
  match jField? j "pre" with
  | some (Json.null) => pure (body, .flush)
  | some v => do let σ ← sigmaOfJson v; pure (body, .pre σ)
  | none => pure (body, .flush)

def templateHevOfJson (j : Json) : Option HEv := do
  let k ← (jField? j "k").bind jStr?
  if k == "build" then do let op ← (jField? j "op").bind bopOfJson; pure (.build op)
  else if k == "flush" then pure .flush
  else if k == "commit" then pure .commit
  else if k == "compile" then do let σ ← (jField? j "pre").bind sigmaOfJson; pure (.compile σ)
  else none

def templateHistRun (rac : Bool) : HSt → List HEv → List Json × Option HSt
  | s, [] => ([], some s)
  | s, e :: es =>
    match stepH rac s e with
    | none => ([Json.null], none)
    | some s' =>
      let r := templateHistRun rac s' es
      (Json.mkObj [("bk", bkToJson s'.bk), ("queue", toJson s'.queue.length),
                   ("sent", toJson s'.sent.length)] :: r.1, r.2)

def templateTOperandOfJson (j : Json) : Option TOperand :=
  match jField? j "t" with
  | some v => (jStr? v).map .tmpl
  | none => (operandOfJson j).map .op

def templateTOperandToJson : TOperand → Json
  | .op o => operandToJson o
  | .tmpl n => Json.mkObj [("t", Json.str n)]

def templateTInstrOfJson (j : Json) : Option TInstr := do
  let c ← (jField? j "c").bind jStr?
  let o ← (jField? j "o").bind jArr?
  let ops ← o.toList.mapM templateTOperandOfJson
  pure ⟨c, ops⟩

def templateTInstrToJson (i : TInstr) : Json :=
  Json.mkObj [("c", Json.str i.cls), ("o", Json.arr (i.ops.map templateTOperandToJson).toArray)]

def templatePartialSigmaOfJson (j : Json) : Option (String → Option Int) := do
  let a ← jArr? j
  let kv ← a.toList.mapM (fun e => do
    let l ← jArr? e
    match l.toList with
    | [k, v] => do let k ← jStr? k; let v ← jInt? v; pure (k, v)
    | _ => none)
  pure (fun n => (kv.find? (fun p => p.1 == n)).map (·.2))

def handleTemplate (op : String) (j : Json) : Option Json :=
  if op == "tpl.inst" then do
    let t ← (jField? j "t").bind jArr?
    let t ← t.toList.mapM templateTInstrOfJson
    let ss ← (jField? j "sigmas").bind jArr?
    let ss ← ss.toList.mapM templatePartialSigmaOfJson
    let inplace := ((jField? j "inplace").bind jBool?).getD false
    let r := instCalls (if inplace then instCallInPlace else instCall) t ss
    pure (Json.mkObj [
      ("r", Json.arr (r.1.map (fun x => match x with
        | some is => Json.arr (is.map instrToJson).toArray
        | none => Json.null)).toArray),
      ("t", Json.arr (r.2.map templateTInstrToJson).toArray)])
  else
  if op == "tpl.hist" then do
    let evs ← (jField? j "events").bind jArr?
    let evs ← evs.toList.mapM templateHevOfJson
    let rac := ((jField? j "rac").bind jBool?).getD false
    let r := templateHistRun rac ⟨Bk.init, [], []⟩ evs
    let subs := match r.2 with
      | some s => Json.arr ((s.sent ++ s.queue).map (fun cs => subToJson (some cs))).toArray
      | none => Json.null
    pure (Json.mkObj [("steps", Json.arr r.1.toArray), ("subs", subs)])
  else if op == "tpl.run" then do
    let segs ← (jField? j "segs").bind jArr?
    let segs ← segs.toList.mapM segOfJson
    let old := ((jField? j "old").bind jBool?).getD false
    pure (Json.mkObj [("segs", Json.arr (tplRun old Bk.init segs).toArray)])
  else none

end NQ.Drv
