import NetqasmVerif.Driver.Gates
import NetqasmVerif.Model.Toolbox
open Lean
namespace NQ.Drv
open NQ.TB

def p1OfChar (c : Char) : Option P1 :=
  if c == 'I' then some .I else if c == 'X' then some .X else if c == 'Y' then some .Y
  else if c == 'Z' then some .Z else none

def p1Char : P1 → Char
  | .I => 'I' | .X => 'X' | .Y => 'Y' | .Z => 'Z'

def psOfString (s : String) : Option (List P1) := s.toList.mapM p1OfChar
def psToString (l : List P1) : String := String.ofList (l.map p1Char)

def gisJ (l : List GI) : Json := Json.arr (l.map giToJson).toArray

def tevJ : TEv → Json
  | .gate i => Json.mkObj [("e", "gate"), ("i", giToJson i)]
  | .qalloc q => Json.mkObj [("e", "qalloc"), ("q", toJson q)]
  | .init q => Json.mkObj [("e", "init"), ("q", toJson q)]
  | .meas q => Json.mkObj [("e", "meas"), ("q", toJson q)]
  | .qfree q => Json.mkObj [("e", "qfree"), ("q", toJson q)]

def handleToolbox (op : String) (j : Json) : Option Json :=
  if op == "pauli.pullback" then do
    let seq ← (jField? j "seq").bind jArr?
    let seq ← seq.toList.mapM giOfJson
    let neg ← (jField? j "neg").bind jBool?
    let ps ← (jField? j "ps").bind jStr? |>.bind psOfString
    pure (match pullback seq ⟨neg, ps⟩ with
      | some o => Json.mkObj [("neg", toJson o.neg), ("ps", psToString o.ps)]
      | none => Json.null)
  else if op == "toolbox.parity" then do
    let bases ← (jField? j "bases").bind jStr? |>.bind psOfString
    let m := parityMeas bases
    pure (Json.mkObj [
      ("pre", gisJ m.pre), ("post", gisJ m.post), ("ancilla", toJson m.ancilla),
      ("measured", match m.measured with | some q => toJson q | none => Json.null),
      ("trace", Json.arr ((m.trace bases.length).map tevJ).toArray),
      ("kind", toJson m.storedKind),
      ("stored", Json.arr #[ofNats [m.stored false 0, m.stored false 1],
                            ofNats [m.stored true 0, m.stored true 1]]),
      ("res", Json.arr #[ofNats [m.result false 0, m.result false 1],
                         ofNats [m.result true 0, m.result true 1]])])
  else none

end NQ.Drv
