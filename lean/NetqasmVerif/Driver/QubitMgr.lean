import NetqasmVerif.Driver.Json
import NetqasmVerif.Model.QubitMgr
import NetqasmVerif.Driver.Template
open Lean
namespace NQ.Drv
open NQ.QM

def bodyOfJson (j : Json) : Option Body := do
  let g ← (jField? j "g").bind jNat?
  let c ← (jField? j "c").bind jStr?
  if c == "meas" then pure ⟨g, .meas⟩ else if c == "free" then pure ⟨g, .free⟩ else none

def qmOpOfJson (j : Json) : Option Op := do
  let k ← (jField? j "k").bind jStr?
  if k == "new" then pure .new
  else if k == "gate" then do let h ← (jField? j "h").bind jNat?; pure (.gate h)
  else if k == "gate2" then do
    let h1 ← (jField? j "h").bind jNat?
    let h2 ← (jField? j "h2").bind jNat?
    pure (.gate2 h1 h2)
  else if k == "meas" then do
    let h ← (jField? j "h").bind jNat?
    let ip ← (jField? j "inplace").bind jBool?
    pure (.meas h ip)
  else if k == "free" then do let h ← (jField? j "h").bind jNat?; pure (.free h)
  else if k == "keep" then do
    let r ← (jField? j "recv").bind jBool?
    let n ← (jField? j "n").bind jNat?
    pure (.keep r n)
  else if k == "seq" then do
    let r ← (jField? j "recv").bind jBool?
    let n ← (jField? j "n").bind jNat?
    let b ← (jField? j "body").bind bodyOfJson
    pure (.seq r n b)
  else if k == "ctx" then do
    let r ← (jField? j "recv").bind jBool?
    let n ← (jField? j "n").bind jNat?
    let s ← (jField? j "sequential").bind jBool?
    let b ← (jField? j "body").bind bodyOfJson
    pure (.ctx r n s b)
  else if k == "keepr" then do
    let r ← (jField? j "recv").bind jBool?
    let n ← (jField? j "n").bind jNat?
    let f ← (jField? j "fails").bind jNat?
    let t ← (jField? j "tries").bind jNat?
    pure (.keepr r n f t)
  else if k == "seqr" then do
    let r ← (jField? j "recv").bind jBool?
    let n ← (jField? j "n").bind jNat?
    let b ← (jField? j "body").bind bodyOfJson
    let f ← (jField? j "fails").bind jNat?
    let t ← (jField? j "tries").bind jNat?
    pure (.seqr r n b f t)
  else if k == "flush" then pure .flush
  else if k == "close" then pure .close
  else none

def evToJson : Ev → Json
  | .alloc v => Json.arr #["A", toJson v]
  | .free v => Json.arr #["F", toJson v]
  | .use v => Json.arr #["U", toJson v]
  | .use2 a b => Json.arr #["U2", toJson a, toJson b]
  | .deliver v => Json.arr #["D", toJson v]

def faultStr : Fault → String
  | .range => "range" | .double => "double" | .notAlloc => "notalloc" | .blocked => "blocked"

def resStr : Res → String
  | .ok => "ok" | .notActive => "notactive" | .valueError => "valueerror"
  | .assertion => "assertion" | .fault f => "fault:" ++ faultStr f | .invalid => "invalid"

def qubitmgrSortNats (l : List Nat) : List Nat := (l.toArray.qsort (· < ·)).toList

/-- snapshot after one operation; for flush/close also the events that were executed -/
def qmSnap (c : Cfg) (before : St) (op : Op) (after : St) (r : Res) : Json :=
  let hs := Json.arr (after.hs.map (fun h => Json.arr #[toJson h.id, toJson h.active])).toArray
  let isFlush := match op with | .flush => true | .close => true | _ => false
  let executed := if isFlush then
      (match r with
       | .ok => before.evs
       | _ => before.evs.take (okPrefix c.maxq before.unit before.evs))
    else []
  Json.mkObj [("r", Json.str (resStr r)), ("h", hs),
    ("ev", Json.arr (executed.map evToJson).toArray), ("u", ofNats (qubitmgrSortNats after.unit))]

def qmRun (c : Cfg) : St → List Op → List Json
  | _, [] => []
  | st, op :: ops =>
    match QM.apply c st op with
    | (st', r) => qmSnap c st op st' r :: (if r.fatal then [] else qmRun c st' ops)

def handleQubitMgr (op : String) (j : Json) : Option Json :=
  if op == "qm.run" then do
    let nv ← (jField? j "nv").bind jBool?
    let tr ← (jField? j "transp").bind jBool?
    let mq ← (jField? j "maxq").bind jNat?
    let ops ← (jField? j "ops").bind jArr?
    let ops ← ops.toList.mapM qmOpOfJson
    pure (Json.mkObj [("snaps", Json.arr (qmRun ⟨nv || tr, tr, mq⟩ St.init ops).toArray)])
  else handleTemplate op j

end NQ.Drv
