import NetqasmVerif.Driver.Json
import NetqasmVerif.Model.QubitMgr
import NetqasmVerif.Model.QubitExec
import NetqasmVerif.Driver.Template
open Lean
namespace NQ.Drv
open NQ.QM

def bodyOfJson (j : Json) : Option Body := do
  let g ← (jField? j "g").bind jNat?
  let c ← (jField? j "c").bind jStr?
  if c == "meas" then pure ⟨g, .meas⟩ else if c == "free" then pure ⟨g, .free⟩
  else if c == "inplace" then pure ⟨g, .inplace⟩ else if c == "none" then pure ⟨g, .none⟩ else none

def qmOpOfJson (j : Json) : Option Op := do
  let k ← (jField? j "k").bind jStr?
  if k == "new" then pure .new
  else if k == "gate" then do let h ← (jField? j "h").bind jNat?; pure (.gate h)
  else if k == "gate2" then do
    let h1 ← (jField? j "h").bind jNat?
    let h2 ← (jField? j "h2").bind jNat?
    pure (.gate2 h1 h2)
  else if k == "meas" then do
    let h ← (jField? j "h").bind jNat?
    let ip ← (jField? j "inplace").bind jBool?
    pure (.meas h ip)
  else if k == "free" then do let h ← (jField? j "h").bind jNat?; pure (.free h)
  else if k == "keep" then do
    let r ← (jField? j "recv").bind jBool?
    let n ← (jField? j "n").bind jNat?
    pure (.keep r n)
  else if k == "seq" then do
    let r ← (jField? j "recv").bind jBool?
    let n ← (jField? j "n").bind jNat?
    let b ← (jField? j "body").bind bodyOfJson
    pure (.seq r n b)
  else if k == "postk" then do
    let r ← (jField? j "recv").bind jBool?
    let n ← (jField? j "n").bind jNat?
    let b ← (jField? j "body").bind bodyOfJson
    pure (.postk r n b)
  else if k == "ctx" then do
    let r ← (jField? j "recv").bind jBool?
    let n ← (jField? j "n").bind jNat?
    let s ← (jField? j "sequential").bind jBool?
    let b ← (jField? j "body").bind bodyOfJson
    pure (.ctx r n s b)
  else if k == "keepr" then do
    let r ← (jField? j "recv").bind jBool?
    let n ← (jField? j "n").bind jNat?
    let f ← (jField? j "fails").bind jNat?
    let t ← (jField? j "tries").bind jNat?
    pure (.keepr r n f t)
  else if k == "seqr" then do
    let r ← (jField? j "recv").bind jBool?
    let n ← (jField? j "n").bind jNat?
    let b ← (jField? j "body").bind bodyOfJson
    let f ← (jField? j "fails").bind jNat?
    let t ← (jField? j "tries").bind jNat?
    pure (.seqr r n b f t)
  else if k == "flush" then pure .flush
  else if k == "close" then pure .close
  else none

def evToJson : Ev → Json
  | .alloc v => Json.arr #["A", toJson v]
  | .free v => Json.arr #["F", toJson v]
  | .use v => Json.arr #["U", toJson v]
  | .use2 a b => Json.arr #["U2", toJson a, toJson b]
  | .deliver v => Json.arr #["D", toJson v]

def faultStr : Fault → String
  | .range => "range" | .double => "double" | .notAlloc => "notalloc" | .blocked => "blocked"

def resStr : Res → String
  | .ok => "ok" | .notActive => "notactive" | .valueError => "valueerror"
  | .assertion => "assertion" | .fault f => "fault:" ++ faultStr f | .invalid => "invalid"

def qubitmgrSortNats (l : List Nat) : List Nat := (l.toArray.qsort (· < ·)).toList

/-- snapshot after one operation; for flush/close also the events that were executed -/
def qmSnap (c : Cfg) (before : St) (op : Op) (after : St) (r : Res) : Json :=
  let hs := Json.arr (after.hs.map (fun h => Json.arr #[toJson h.id, toJson h.active])).toArray
  let isFlush := match op with | .flush => true | .close => true | _ => false
  let executed := if isFlush then
      (match r with
       | .ok => before.evs
       | _ => before.evs.take (okPrefix c.maxq before.unit before.evs))
    else []
  Json.mkObj [("r", Json.str (resStr r)), ("h", hs),
    ("ev", Json.arr (executed.map evToJson).toArray), ("u", ofNats (qubitmgrSortNats after.unit))]

def qmRun (c : Cfg) : St → List Op → List Json
  | _, [] => []
  | st, op :: ops =>
    match QM.apply c st op with
    | (st', r) => qmSnap c st op st' r :: (if r.fatal then [] else qmRun c st' ops)

def qubitmgrEvOfJson (j : Json) : Option Ev := do
  let a ← jArr? j
  match a.toList with
  | [t, v] => do
    let t ← jStr? t
    let v ← jNat? v
    if t == "A" then pure (.alloc v) else if t == "F" then pure (.free v)
    else if t == "U" then pure (.use v) else if t == "D" then pure (.deliver v) else none
  | [t, x, y] => do
    let t ← jStr? t
    let x ← jNat? x
    let y ← jNat? y
    if t == "U2" then pure (.use2 x y) else none
  | _ => none

def qubitmgrXFaultStr : NQ.Bridge9.XFault → String
  | .deferred => "deferred"
  | .exec f => f.name

/-- cross-model check: the same event list through C09's `run` and on the executor model -/
def qubitmgrCross (m : Nat) (evs : List Ev) : Json :=
  let r1 := run m [] evs
  let s0 := (NQ.Exec.initApp NQ.Exec.init0 0 m).1
  let r2 := NQ.Bridge9.execEvs 0 s0 evs
  let j1 := match r1 with
    | .ok u => Json.mkObj [("ok", ofNats (qubitmgrSortNats u))]
    | .error f => Json.mkObj [("fault", Json.str (faultStr f))]
  let j2 := match r2.2 with
    | none => Json.mkObj [("ok", ofNats (NQ.Bridge9.allocated r2.1 0))]
    | some x => Json.mkObj [("fault", Json.str (match NQ.Bridge9.kind x with
        | some f => faultStr f
        | none => "other:" ++ qubitmgrXFaultStr x)), ("exec", Json.str (qubitmgrXFaultStr x))]
  Json.mkObj [("model", j1), ("exec", j2)]

def handleQubitMgr (op : String) (j : Json) : Option Json :=
  if op == "qm.exec" then do
    let mq ← (jField? j "maxq").bind jNat?
    let evs ← (jField? j "evs").bind jArr?
    let evs ← evs.toList.mapM qubitmgrEvOfJson
    pure (qubitmgrCross mq evs)
  else
  if op == "qm.run" then do
    let nv ← (jField? j "nv").bind jBool?
    let tr ← (jField? j "transp").bind jBool?
    let mq ← (jField? j "maxq").bind jNat?
    let ops ← (jField? j "ops").bind jArr?
    let ops ← ops.toList.mapM qmOpOfJson
    pure (Json.mkObj [("snaps", Json.arr (qmRun ⟨nv || tr, tr, mq⟩ St.init ops).toArray)])
  else handleTemplate op j

end NQ.Drv
