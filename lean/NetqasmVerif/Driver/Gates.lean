import NetqasmVerif.Driver.Json
import NetqasmVerif.Model.Gates
import NetqasmVerif.Model.NvDecomp
open Lean
namespace NQ.Drv

/-- complex doubles: the second instance of `GScalar` (the first is ℤ[ζ₈]) -/
structure Cx where
  re : Float
  im : Float

instance : GScalar Cx where
  zero := ⟨0, 0⟩
  one := ⟨1, 0⟩
  imag := ⟨0, 1⟩
  add x y := ⟨x.re + y.re, x.im + y.im⟩
  sub x y := ⟨x.re - y.re, x.im - y.im⟩
  mul x y := ⟨x.re * y.re - x.im * y.im, x.re * y.im + x.im * y.re⟩

def gnameOf (s : String) : Option GName :=
  if s == "x" then some .x else if s == "y" then some .y else if s == "z" then some .z
  else if s == "h" then some .h else if s == "k" then some .k else if s == "s" then some .s
  else if s == "t" then some .t else if s == "rot_x" then some .rotX
  else if s == "rot_y" then some .rotY else if s == "rot_z" then some .rotZ
  else if s == "crot_x" then some .crotX else if s == "crot_y" then some .crotY
  else if s == "cnot" then some .cnot else if s == "cphase" then some .cphase else none

def gnameStr : GName → String
  | .x => "x" | .y => "y" | .z => "z" | .h => "h" | .k => "k" | .s => "s" | .t => "t"
  | .rotX => "rot_x" | .rotY => "rot_y" | .rotZ => "rot_z" | .crotX => "crot_x"
  | .crotY => "crot_y" | .cnot => "cnot" | .cphase => "cphase"

def cycJ (c : Cyc) : Json := ofInts [c.a, c.b, c.c, c.d]
def m2J (m : M2 Cyc) : Json := Json.arr #[cycJ m.a, cycJ m.b, cycJ m.c, cycJ m.d]
/-- a double as its IEEE bit pattern (exact transport) -/
def fJ (x : Float) : Json := toJson x.toBits.toNat
def cxJ (c : Cx) : Json := Json.arr #[fJ c.re, fJ c.im]
def m2xJ (m : M2 Cx) : Json := Json.arr #[cxJ m.a, cxJ m.b, cxJ m.c, cxJ m.d]

def giOfJson (j : Json) : Option GI := do
  let g ← (jField? j "g").bind jStr? |>.bind gnameOf
  let qs ← (jField? j "q").bind jNats?
  let n ← (jField? j "n").bind jNat?
  let d ← (jField? j "d").bind jNat?
  pure ⟨g, qs, n, d⟩

def giToJson (i : GI) : Json :=
  Json.mkObj [("g", gnameStr i.g), ("q", ofNats i.qs), ("n", toJson i.n), ("d", toJson i.d)]

def matJ (m : Mat) : Json := Json.arr (m.map (fun col => Json.arr (col.map cycJ).toArray)).toArray

def piF : Float := 3.141592653589793

def handleGates (op : String) (j : Json) : Option Json :=
  if op == "gates.instr" then do
    -- exact blocks (m0: control absent or |0>, m1: control |1>) of one instruction
    let g ← (jField? j "g").bind jStr? |>.bind gnameOf
    let n ← (jField? j "n").bind jNat?
    let d ← (jField? j "d").bind jNat?
    let qs : List Nat := match g with
      | .crotX | .crotY | .cnot | .cphase => [0, 1]
      | _ => [0]
    let exact := match (GI.mk g qs n d).toOp with
      | some o => Json.mkObj [("m0", m2J o.m0), ("m1", m2J o.m1)]
      | none => Json.null
    -- the generic rotation polynomials evaluated in doubles at w = e^{iθ}, θ = n·π/2^d
    let fl := match GName.axis? g with
      | some ax =>
        let th := n.toFloat * piF / (2 ^ d : Nat).toFloat
        let w : Cx := ⟨Float.cos th, Float.sin th⟩
        Json.mkObj [("p", m2xJ (rot2P ax w)), ("pneg", m2xJ (rot2PNeg ax w))]
      | none => Json.null
    pure (Json.mkObj [("exact", exact), ("float", fl)])
  else if op == "gates.circuit" then do
    let nq ← (jField? j "nq").bind jNat?
    let seq ← (jField? j "seq").bind jArr?
    let seq ← seq.toList.mapM giOfJson
    pure (Json.mkObj [("m", ofOpt matJ (circuit nq seq))])
  else if op == "nv.rot" then do
    let g ← (jField? j "g").bind jStr? |>.bind gnameOf
    let n ← (jField? j "n").bind jNat?
    let d ← (jField? j "d").bind jNat?
    let hw ← (jField? j "hw").bind jBool?
    pure (Json.mkObj [("seq", ofOpt (fun l => Json.arr (l.map giToJson).toArray) (NV.nvRot hw g n d)),
      ("wire", toJson (NV.nvRotWire hw g n d).isSome)])
  else if op == "nv.placement" then do
    let a ← (jField? j "a").bind jNat?
    let b ← (jField? j "b").bind jNat?
    pure (Json.mkObj [("p", match NV.placementOf a b with | .ec => "ec" | .ce => "ce" | .cc => "cc"),
      ("mov", match NV.movRoles a b with | some (s, t) => ofNats [s, t] | none => Json.null)])
  else none

end NQ.Drv
