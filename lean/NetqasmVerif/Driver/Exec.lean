import NetqasmVerif.Driver.Json
import NetqasmVerif.Model.Exec
open Lean
namespace NQ.Drv
open NQ.Exec

def xreg? (b i : Int) : Option XReg :=
  if h : 0 ≤ b ∧ b < 4 ∧ 0 ≤ i ∧ i < 16 then
    some ⟨⟨b.toNat, by omega⟩, ⟨i.toNat, by omega⟩⟩
  else none

/-- instruction = JSON array `[mnemonic, ints…]` (registers as bank, index) -/
def xinstr? (j : Json) : Option Exec.Instr := do
  let a ← jArr? j
  match a.toList with
  | [] => none
  | m :: rest =>
    let mn ← jStr? m
    let xs ← rest.mapM jInt?
    match mn, xs with
    | "set", [b, i, v] => do pure (.set (← xreg? b i) v)
    | "load", [b, i, ad, b2, i2] => do pure (.load (← xreg? b i) ad (← xreg? b2 i2))
    | "store", [b, i, ad, b2, i2] => do pure (.store (← xreg? b i) ad (← xreg? b2 i2))
    | "lea", [b, i, ad] => do pure (.lea (← xreg? b i) ad)
    | "undef", [ad, b, i] => do pure (.undef ad (← xreg? b i))
    | "array", [b, i, ad] => do pure (.array (← xreg? b i) ad)
    | "add", [b, i, b1, i1, b2, i2] => do pure (.add (← xreg? b i) (← xreg? b1 i1) (← xreg? b2 i2))
    | "sub", [b, i, b1, i1, b2, i2] => do pure (.sub (← xreg? b i) (← xreg? b1 i1) (← xreg? b2 i2))
    | "addm", [b, i, b1, i1, b2, i2, b3, i3] => do
        pure (.addm (← xreg? b i) (← xreg? b1 i1) (← xreg? b2 i2) (← xreg? b3 i3))
    | "subm", [b, i, b1, i1, b2, i2, b3, i3] => do
        pure (.subm (← xreg? b i) (← xreg? b1 i1) (← xreg? b2 i2) (← xreg? b3 i3))
    | "bez", [b, i, t] => do pure (.bez (← xreg? b i) t)
    | "bnz", [b, i, t] => do pure (.bnz (← xreg? b i) t)
    | "beq", [b, i, b1, i1, t] => do pure (.beq (← xreg? b i) (← xreg? b1 i1) t)
    | "bne", [b, i, b1, i1, t] => do pure (.bne (← xreg? b i) (← xreg? b1 i1) t)
    | "blt", [b, i, b1, i1, t] => do pure (.blt (← xreg? b i) (← xreg? b1 i1) t)
    | "bge", [b, i, b1, i1, t] => do pure (.bge (← xreg? b i) (← xreg? b1 i1) t)
    | "jmp", [t] => pure (.jmp t)
    | "ret_reg", [b, i] => do pure (.retReg (← xreg? b i))
    | "ret_arr", [ad] => pure (.retArr ad)
    | "qalloc", [b, i] => do pure (.qalloc (← xreg? b i))
    | "qfree", [b, i] => do pure (.qfree (← xreg? b i))
    | "meas", [b, i, b1, i1] => do pure (.meas (← xreg? b i) (← xreg? b1 i1))
    | _, _ =>
      -- quantum ops: ["q1:<name>", b, i] etc.
      if mn.startsWith "q1:" then
        match xs with | [b, i] => do pure (.q1 (mn.drop 3).toString (← xreg? b i)) | _ => none
      else if mn.startsWith "rot:" then
        match xs with | [b, i, n, d] => do pure (.rot (mn.drop 4).toString (← xreg? b i) n d) | _ => none
      else if mn.startsWith "q2:" then
        match xs with
        | [b, i, b1, i1] => do pure (.q2 (mn.drop 3).toString (← xreg? b i) (← xreg? b1 i1))
        | _ => none
      else if mn.startsWith "crot:" then
        match xs with
        | [b, i, b1, i1, n, d] => do pure (.crot (mn.drop 5).toString (← xreg? b i) (← xreg? b1 i1) n d)
        | _ => none
      else none

def allRegs : List XReg :=
  (List.finRange 4).flatMap (fun b => (List.finRange 16).map (fun i => ⟨b, i⟩))

def valJ : Val → Json | some v => toJson v | none => Json.null
def valsJ (l : List Val) : Json := Json.arr (l.map valJ).toArray

def appJ (ap : App) (addrs : List Int) : Json :=
  Json.mkObj [
    ("regs", valsJ (allRegs.map ap.regs)),
    ("arrays", Json.arr (addrs.map (fun a => ofOpt valsJ (ap.arrays a))).toArray),
    ("shmRegs", valsJ (allRegs.map ap.shmRegs)),
    ("shmArrays", Json.arr (addrs.map (fun a => ofOpt valsJ (ap.shmArr a))).toArray),
    ("unit", Json.arr (ap.unit.map (fun o => ofOpt (fun (n : Nat) => toJson n) o)).toArray)]

def sortNats (l : List Nat) : List Nat := (l.toArray.qsort (· < ·)).toList

def stateJ (s : State) (appIds : List Nat) (addrs : List Int) : Json :=
  Json.mkObj [
    ("apps", Json.arr (appIds.map (fun a => ofOpt (fun ap => appJ ap addrs) (s.apps a))).toArray),
    ("used", ofNats (sortNats s.used.eraseDups)),
    ("reserved", ofNats (sortNats s.reserved.eraseDups)),
    ("registry", ofNats (sortNats s.registry.eraseDups)),
    ("ntrace", toJson s.trace.length)]

def faultJ : Option Fault → Json
  | none => Json.null
  | some f => Json.mkObj [("cls", f.pyClass), ("kind", f.name)]

def evJ (e : Ev) : Json := Json.mkObj [("app", toJson e.app), ("name", e.name), ("args", ofInts e.args)]

/-- apply one JSON op; returns the new state and the op-specific result -/
def xop (hw : Bool) (s : State) (j : Json) : Option (State × Json) := do
  let k ← (jField? j "k").bind jStr?
  if k == "init" then
    let a ← (jField? j "a").bind jNat?
    let n ← (jField? j "n").bind jNat?
    let r := initApp s a n
    pure (r.1, Json.mkObj [("fault", faultJ r.2)])
  else if k == "stop" then
    let a ← (jField? j "a").bind jNat?
    let r := stopApp s a
    pure (r.1, Json.mkObj [("fault", faultJ r.2)])
  else if k == "reserve" then
    let s' := reserveQ s
    pure (s', Json.mkObj [("q", toJson (firstUnused s.used))])
  else if k == "keep" then
    let a ← (jField? j "a").bind jNat?
    let qa ← (jField? j "qa").bind jInt?
    let p ← (jField? j "p").bind jNat?
    let r := keepAt s a qa p
    let deferred := r.2.isNone && (match s.apps a, r.1.apps a with
      | some x, some y => x.unit == y.unit | _, _ => false)
    pure (r.1, Json.mkObj [("fault", faultJ r.2), ("deferred", toJson deferred)])
  else if k == "sub" then
    let a ← (jField? j "a").bind jNat?
    let fuel ← (jField? j "fuel").bind jNat?
    let p ← (jField? j "p").bind jArr?
    let prog ← p.toList.mapM xinstr?
    let os := ((jField? j "or").bind jInts?).getD []
    let s0 : State := { s with oracle := os }
    let r ← runG hw a prog fuel s0 0     -- none: allocation guard (reported by `xguard`)
    let out := match r.out with
      | .halted => Json.mkObj [("o", "halted")]
      | .outOfFuel => Json.mkObj [("o", "fuel")]
      | .fault f line => Json.mkObj [("o", "fault"), ("cls", f.pyClass), ("kind", f.name),
          ("line", ofOpt (fun (n : Int) => toJson n) line)]
    pure (r.s, Json.mkObj [("out", out), ("pc", toJson r.pc), ("visited", ofInts r.visited),
      ("trace", Json.arr ((r.s.trace.drop s.trace.length).map evJ).toArray)])
  else none

def outcomeJ : Outcome → Json
  | .halted => Json.mkObj [("o", "halted")]
  | .outOfFuel => Json.mkObj [("o", "fuel")]
  | .fault f line => Json.mkObj [("o", "fault"), ("cls", f.pyClass), ("kind", f.name),
      ("line", ofOpt (fun (n : Int) => toJson n) line)]

/-- ops of the interleaving layer (`spawn`, `tick`) act on the subroutine table, everything else on
the controller state -/
def xsysop (hw : Bool) (sys : Sys) (j : Json) : Option (Sys × Json) := do
  let k ← (jField? j "k").bind jStr?
  if k == "spawn" then
    let a ← (jField? j "a").bind jNat?
    let p ← (jField? j "p").bind jArr?
    let prog ← p.toList.mapM xinstr?
    pure (iapply sys (.spawn a prog), Json.mkObj [("id", toJson sys.subs.length)])
  else if k == "tick" then
    let i ← (jField? j "i").bind jNat?
    let os := (jField? j "or").bind jInts?
    let sys0 : Sys := match os with
      | some l => { sys with s := { sys.s with oracle := l } }
      | none => sys
    let live := match sys0.subs[i]? with | some sb => sb.fin.isNone | none => false
    let sys' := iapply sys0 (.tick hw i)
    let r := match sys'.subs[i]? with
      | none => Json.mkObj [("o", "none")]
      | some sb =>
        if !live then Json.mkObj [("o", "done")]
        else match sb.fin with
          | none => Json.mkObj [("o", "live"), ("pc", toJson sb.pc)]
          | some o => (outcomeJ o).setObjVal! "pc" (toJson sb.pc)
    pure (sys', (r.setObjVal! "trace"
      (Json.arr ((sys'.s.trace.drop sys.s.trace.length).map evJ).toArray)))
  else if k == "abort" then
    let i ← (jField? j "i").bind jNat?
    let mid := ((jField? j "mid").bind jBool?).getD false
    let live := match sys.subs[i]? with | some sb => sb.fin.isNone | none => false
    if !live then
      pure (sys, Json.mkObj [("o", if (sys.subs[i]?).isSome then "done" else "none"), ("trace", Json.arr #[])])
    else if !mid then
      pure (abort sys i, Json.mkObj [("o", "aborted"), ("trace", Json.arr #[])])
    else
      let sys1 := tick hw sys i
      let r := match sys1.subs[i]? with
        | some sb => (match sb.fin with
            | some (.fault f line) => outcomeJ (.fault f line)
            | _ => Json.mkObj [("o", "aborted")])
        | none => Json.mkObj [("o", "aborted")]
      pure (abort sys1 i, (r.setObjVal! "trace"
        (Json.arr ((sys1.s.trace.drop sys.s.trace.length).map evJ).toArray)))
  else if k == "hooktick" then
    -- one instruction while the reset hook `_clear_phys_qubit_in_memory` is armed to raise
    let i ← (jField? j "i").bind jNat?
    let live := match sys.subs[i]? with | some sb => sb.fin.isNone | none => false
    let isFree := match nextInstr sys i with | some (.qfree _) => true | _ => false
    let pc0 : Int := match sys.subs[i]? with | some sb => sb.pc | none => 0
    let sys1 := tick hw sys i
    let tr := Json.arr ((sys1.s.trace.drop sys.s.trace.length).map evJ).toArray
    match sys1.subs[i]? with
    | none => pure (sys1, Json.mkObj [("o", "none"), ("trace", tr)])
    | some sb =>
      if !live then pure (sys1, Json.mkObj [("o", "done"), ("trace", tr)])
      else
        let faulted := match sb.fin with | some (.fault _ _) => true | _ => false
        if isFree && !faulted then
          -- the qubit was released, then the hook raised: reported as a fault of that line
          pure (abort sys1 i, Json.mkObj [("o", "fault"), ("cls", "RuntimeError"), ("kind", "hook"),
            ("line", toJson pc0), ("pc", toJson pc0), ("trace", tr)])
        else
          let r := match sb.fin with
            | none => Json.mkObj [("o", "live"), ("pc", toJson sb.pc)]
            | some o => (outcomeJ o).setObjVal! "pc" (toJson sb.pc)
          pure (sys1, r.setObjVal! "trace" tr)
  else do
    let (s', r) ← xop hw sys.s j
    pure (⟨s', sys.subs⟩, r)

/-- would this op make the model allocate a huge array?  (only after model and code diverged) -/
def xguard (hw : Bool) (sys : Sys) (j : Json) : Bool :=
  match (jField? j "k").bind jStr? with
  | some "sub" =>
    (match (jField? j "a").bind jNat?, (jField? j "fuel").bind jNat?,
        ((jField? j "p").bind jArr?).bind (fun p => p.toList.mapM xinstr?) with
     | some a, some fuel, some prog =>
       let os := ((jField? j "or").bind jInts?).getD []
       (runG hw a prog fuel { sys.s with oracle := os } 0).isNone
     | _, _, _ => false)
  | some k =>
    if k == "tick" || k == "hooktick" || k == "abort" then
      (match (jField? j "i").bind jNat? with
       | some i => (match sys.subs[i]? with
          | some sb => sb.fin.isNone && bigArrayNext sys.s sb.a sb.prog sb.pc
          | none => false)
       | none => false)
    else false
  | none => false

def handleExec (op : String) (j : Json) : Option Json :=
  if op == "exec.scenario" then do
    let hw ← (jField? j "hw").bind jBool?
    let appIds ← (jField? j "apps").bind jNats?
    let addrs ← (jField? j "addrs").bind jInts?
    let ops ← (jField? j "ops").bind jArr?
    let nex := ((jField? j "nex").bind jNat?).getD 1
    let rec go (m : List Sys) (l : List Json) (acc : Array Json) : Option (Array Json) :=
      match l with
      | [] => some acc
      | o :: rest =>
        let ex := ((jField? o "ex").bind jNat?).getD 0
        match m[ex]? with
        | none => none
        | some sys =>
          if xguard hw sys o then some (acc.push (Json.mkObj [("guard", true)])) else
          match xsysop hw sys o with
          | none => none
          | some (sys', r) =>
            go (m.set ex sys') rest (acc.push (Json.mkObj [("r", r), ("st", stateJ sys'.s appIds addrs)]))
    let outs ← go (List.replicate nex sys0) ops.toList #[]
    pure (Json.mkObj [("steps", Json.arr outs)])
  else none

end NQ.Drv
