import NetqasmVerif.Driver.Json
import NetqasmVerif.Model.Angle
open Lean
namespace NQ.Drv

def pairsOfJson (j : Json) : Option (List (Nat × Nat)) := do
  let a ← jArr? j
  a.toList.mapM fun p => do
    let l ← jNats? p
    match l with
    | [n, d] => some (n, d)
    | _ => none

def pairsToJson (l : List (Nat × Nat)) : Json :=
  Json.arr (l.map (fun p => ofNats [p.1, p.2])).toArray

def angleCmdJ : Angle.Cmd → Json
  | .setQ reg vq => Json.arr #["set", toJson reg, toJson vq]
  | .rot axis reg n d => Json.arr #["rot", toJson axis, toJson reg, toJson n, toJson d]

/-- `angle.emit`   {E,r,t,axis,vq} ↦ {"cmds": [["set",reg,vq],["rot",axis,reg,n,d],…] | null}
    `angle.spec`   {E,r,t}     ↦ {"l": [[n,d],…] | null}   the function with the exact choice of d
    `angle.accepts` {E,r,t,l}  ↦ {"ok": bool}              is l the output of some allowed run -/
def handleAngle (op : String) (j : Json) : Option Json :=
  if op == "angle.spec" then do
    let E ← (jField? j "E").bind jNat?
    let r ← (jField? j "r").bind jNat?
    let t ← (jField? j "t").bind jNat?
    pure (Json.mkObj [("l", ofOpt pairsToJson (Angle.spec E t r))])
  else if op == "angle.accepts" then do
    let E ← (jField? j "E").bind jNat?
    let r ← (jField? j "r").bind jNat?
    let t ← (jField? j "t").bind jNat?
    let l ← (jField? j "l").bind pairsOfJson
    pure (Json.mkObj [("ok", Json.bool (Angle.accepts E t 4096 r l))])
  else if op == "angle.emit" then do
    let E ← (jField? j "E").bind jNat?
    let r ← (jField? j "r").bind jNat?
    let t ← (jField? j "t").bind jNat?
    let axis ← (jField? j "axis").bind jNat?
    let vq ← (jField? j "vq").bind jNat?
    pure (Json.mkObj [("cmds", ofOpt (fun (l : List Angle.Cmd) => Json.arr (l.map angleCmdJ).toArray)
      (Angle.emitSpec axis vq E t r))])
  else none

end NQ.Drv
