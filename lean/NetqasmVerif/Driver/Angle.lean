import NetqasmVerif.Driver.Json
import NetqasmVerif.Model.Angle
open Lean
namespace NQ.Drv

def pairsOfJson (j : Json) : Option (List (Nat × Nat)) := do
  let a ← jArr? j
  a.toList.mapM fun p => do
    let l ← jNats? p
    match l with
    | [n, d] => some (n, d)
    | _ => none

def pairsToJson (l : List (Nat × Nat)) : Json :=
  Json.arr (l.map (fun p => ofNats [p.1, p.2])).toArray

/-- `angle.spec`   {E,r,t}     ↦ {"l": [[n,d],…] | null}   the function with the exact choice of d
    `angle.accepts` {E,r,t,l}  ↦ {"ok": bool}              is l the output of some allowed run -/
def handleAngle (op : String) (j : Json) : Option Json :=
  if op == "angle.spec" then do
    let E ← (jField? j "E").bind jNat?
    let r ← (jField? j "r").bind jNat?
    let t ← (jField? j "t").bind jNat?
    pure (Json.mkObj [("l", ofOpt pairsToJson (Angle.spec E t r))])
  else if op == "angle.accepts" then do
    let E ← (jField? j "E").bind jNat?
    let r ← (jField? j "r").bind jNat?
    let t ← (jField? j "t").bind jNat?
    let l ← (jField? j "l").bind pairsOfJson
    pure (Json.mkObj [("ok", Json.bool (Angle.accepts E t 4096 r l))])
  else none

end NQ.Drv
