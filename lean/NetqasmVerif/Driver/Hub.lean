import NetqasmVerif.Driver.Json
import NetqasmVerif.Model.Hub
import NetqasmVerif.Model.ThreadSocket
open Lean
namespace NQ.Drv
open NQ.Hub

def wireOfJson (j : Json) : Option Wire :=
  match jNat? j with
  | some n => some (.text n)
  | none => do
      match ← jNats? j with
      | [h, p] => some (.json h p)
      | _ => none

def wireJ : Wire → Json
  | .text s => toJson s
  | .json h p => ofNats [h, p]

def wiresJ (l : List Wire) : Json := Json.arr (l.map wireJ).toArray

/-- socket-level operations, as the harness sends them -/
def sopOfJson (j : Json) : Option TSock.SOp :=
  match jField? j "c", jField? j "s", jField? j "ss", jField? j "r", jField? j "rs", jField? j "d", jField? j "w",
        jField? j "bs", jField? j "br" with
  | some v, _, _, _, _, _, _, _, _ => do
      match ← jNats? v with
      | [rn, id, cb] => some (.connect rn id (cb != 0))
      | _ => none
  | _, some v, _, _, _, _, _, _, _ => do
      match (← jArr? v).toList with
      | [rn, id, w] => some (.send (← jNat? rn) (← jNat? id) (← wireOfJson w))
      | _ => none
  | _, _, some v, _, _, _, _, _, _ => do
      match ← jNats? v with
      | [rn, id, h, p] => some (.sendStructured rn id h p)
      | _ => none
  | _, _, _, some v, _, _, _, _, _ => do
      match ← jNats? v with
      | [rn, id, b] => some (.recv rn id (b != 0))
      | _ => none
  | _, _, _, _, some v, _, _, _, _ => do
      match ← jNats? v with
      | [rn, id, b] => some (.recvStructured rn id (b != 0))
      | _ => none
  | _, _, _, _, _, some v, _, _, _ => do
      match ← jNats? v with
      | [rn, id] => some (.disconnect rn id)
      | _ => none
  | _, _, _, _, _, _, some v, _, _ => do
      match ← jNats? v with
      | [rn, id] => some (.wait rn id)
      | _ => none
  | _, _, _, _, _, _, _, some v, _ => do          -- [id, wire, r, rs…]
      match (← jArr? v).toList with
      | id :: w :: r :: rs => some (.bsend (← jNat? r) (← rs.mapM jNat?) (← jNat? id) (← wireOfJson w))
      | _ => none
  | _, _, _, _, _, _, _, _, some v => do          -- [id, block, r, rs…]
      match ← jNats? v with
      | id :: b :: r :: rs => some (.brecv r rs id (b != 0))
      | _ => none
  | _, _, _, _, _, _, _, _, _ => none

def keyJ (k : Key) : Json := ofNats [k.1, k.2.1, k.2.2]

def pollRemotes : RMode → List Nat
  | .poll all _ => all
  | .pollOnce rem => rem
  | _ => []

def opKeys (tid : Nat) : Op → List Key
  | .connect rn id _ => [(tid, rn, id)]
  | .send rn id _ more => (rn :: more).map fun r => (tid, r, id)
  | .recv rn id mode _ => (rn :: pollRemotes mode).map fun r => (tid, r, id)
  | .disconnect rn id => [(tid, rn, id)]
  | .wait rn id => [(tid, rn, id)]

def dedup (l : List Key) : List Key := l.foldl (fun acc k => if acc.contains k then acc else acc ++ [k]) []

def keysOf (progs : List (List Op)) : List Key :=
  dedup ((List.range progs.length).flatMap fun t =>
    (progs.getD t []).flatMap fun op => (opKeys t op).flatMap fun k => [k, rkey k])

def pcJ : Pc → Json
  | .fin => Json.arr #["fin"]
  | .cCbRecv k => Json.arr #["cCbRecv", keyJ k]
  | .cCbLost k => Json.arr #["cCbLost", keyJ k]
  | .cOpen k _ => Json.arr #["cOpen", keyJ k]
  | .cRemote k => Json.arr #["cRemote", keyJ k]
  | .cWaitOpen k => Json.arr #["cWaitOpen", keyJ k]
  | .cWaitRemote k => Json.arr #["cWaitRemote", keyJ k]
  | .sCheck k _ _ => Json.arr #["sCheck", keyJ k]
  | .sCb k _ _ => Json.arr #["sCb", keyJ k]
  | .sCall k _ _ => Json.arr #["sCall", keyJ k]
  | .sLock k _ _ => Json.arr #["sLock", keyJ k]
  | .sAppend k _ _ => Json.arr #["sAppend", keyJ k]
  | .rLock k _ _ => Json.arr #["rLock", keyJ k]
  | .rRead k _ _ => Json.arr #["rRead", keyJ k]
  | .rLen k _ _ => Json.arr #["rLen", keyJ k]
  | .rLock2 k _ => Json.arr #["rLock2", keyJ k]
  | .rPop k _ => Json.arr #["rPop", keyJ k]
  | .dLock k => Json.arr #["dLock", keyJ k]
  | .dLostGet k => Json.arr #["dLostGet", keyJ k]
  | .dLostCall k => Json.arr #["dLostCall", keyJ k]
  | .dOpenChk k => Json.arr #["dOpenChk", keyJ k]
  | .dOpenRm k => Json.arr #["dOpenRm", keyJ k]
  | .dRemChk k => Json.arr #["dRemChk", keyJ k]
  | .dRemRm k => Json.arr #["dRemRm", keyJ k]
  | .dPopRecv k => Json.arr #["dPopRecv", keyJ k]
  | .dPopLost k => Json.arr #["dPopLost", keyJ k]
  | .wCheck k => Json.arr #["wCheck", keyJ k]

/-- socket-level view of a result (`TSock.view`), as the harness observes it on the real socket objects -/
def sresJ : TSock.SRes → Json
  | .connected k => Json.arr #["connected", keyJ k]
  | .sent k w => Json.arr #["sent", keyJ k, wireJ w]
  | .notConnected k => Json.arr #["connErr", keyJ k]
  | .gotStr k w => Json.arr #["gotStr", keyJ k, wireJ w]
  | .gotStructured k h p => Json.arr #["gotStructured", keyJ k, ofNats [h, p]]
  | .decodeError k _ => Json.arr #["decodeError", keyJ k]
  | .empty k => Json.arr #["empty", keyJ k]
  | .crash k => Json.arr #["crash", keyJ k]
  | .disconnected k => Json.arr #["disconnected", keyJ k]
  | .waited k => Json.arr #["waited", keyJ k]

def resJ (r : Res) : Json := sresJ (TSock.view r)

def setJ (keys : List Key) (f : Key → Bool) : Json := Json.arr ((keys.filter f).map keyJ).toArray
def mapJ (keys : List Key) (f : Key → List Msg) : Json :=
  Json.arr ((keys.filter (fun k => !(f k).isEmpty)).map (fun k => Json.arr #[keyJ k, wiresJ (f k)])).toArray

def snapJ (keys : List Key) (n : Nat) (s : State) (ok : Bool) : Json :=
  Json.mkObj [
    ("ok", Json.bool ok),
    ("open", setJ keys s.open_), ("remote", setJ keys s.remote), ("msgs", mapJ keys s.msgs),
    ("rcb", setJ keys s.recvCbs), ("lcb", setJ keys s.lostCbs),
    ("lock", ofOpt (fun (t : Nat) => toJson t) s.lock),
    ("pcs", Json.arr ((List.range n).map (fun t => pcJ (s.threads t).pc)).toArray),
    ("res", Json.arr ((List.range n).map (fun t => Json.arr ((s.threads t).res.map resJ).toArray)).toArray),
    ("cb", mapJ keys s.cbStore), ("lost", Json.arr (s.lostLog.map keyJ).toArray),
    ("sent", mapJ keys s.sent), ("deliv", mapJ keys s.delivered),
    ("enabled", ofNats ((List.range n).filter (fun t => (step s t).isSome)))]

/-- `hub.run` {progs: [[SOCKET-LEVEL op,…],…], sched: [tid,…]} (compiled with `TSock.compileProg`) ↦ {"init": snapshot, "steps": [snapshot after each step]} -/
def handleHub (op : String) (j : Json) : Option Json :=
  if op == "hub.run" then do
    let ps ← (jField? j "progs").bind jArr?
    let sprogs ← ps.toList.mapM (fun p => do let a ← jArr? p; a.toList.mapM sopOfJson)
    let progs := sprogs.map TSock.compileProg
    let sched ← (jField? j "sched").bind jNats?
    let keys := keysOf progs
    let n := progs.length
    let s0 := init progs
    pure (Json.mkObj [("init", snapJ keys n s0 true),
      ("steps", Json.arr ((runSched s0 sched).map (fun p => snapJ keys n p.1 p.2)).toArray)])
  else none

end NQ.Drv
