import NetqasmVerif.Driver.Codec
import NetqasmVerif.Driver.Gates
import NetqasmVerif.Driver.Toolbox
import NetqasmVerif.Driver.Bell
import NetqasmVerif.Driver.QubitMgr
import NetqasmVerif.Driver.Angle
import NetqasmVerif.Driver.Hub
import NetqasmVerif.Driver.Reject
import NetqasmVerif.Driver.Msg
import NetqasmVerif.Driver.Text
import NetqasmVerif.Driver.Transpile
import NetqasmVerif.Driver.Exec
import NetqasmVerif.Driver.Epr
import NetqasmVerif.Driver.Asm
import NetqasmVerif.Driver.Sdk
import NetqasmVerif.Driver.Controller
open Lean NQ.Drv

def handlers : List (String → Json → Option Json) := [
  handleCodec,
  handleGates,
  handleToolbox,
  handleBell,
  handleQubitMgr,
  handleAngle,
  handleHub,
  handleReject,
  handleMsg,
  handleText,
  handleTranspile,
  handleExec,
  handleEpr,
  handleAsm,
  handleSdk,
  handleSdkSem,
  handleCtl]

def dispatch (j : Json) : Json :=
  match (jField? j "op").bind jStr? with
  | none => Json.mkObj [("error", "no op")]
  | some op =>
    let rec go : List (String → Json → Option Json) → Json
      | [] => Json.mkObj [("error", Json.str ("bad request for " ++ op))]
      | h :: hs => match h op j with
        | some r => r
        | none => go hs
    go handlers

partial def loop (h : IO.FS.Stream) (out : IO.FS.Stream) : IO Unit := do
  let line ← h.getLine
  if line.isEmpty then return ()
  match Json.parse line with
  | .ok j => out.putStrLn (dispatch j).compress
  | .error e => out.putStrLn (Json.mkObj [("error", Json.str e)]).compress
  out.flush
  loop h out

def main : IO Unit := do loop (← IO.getStdin) (← IO.getStdout)
