import NetqasmVerif.Driver.Json
import NetqasmVerif.Model.Transpile
import NetqasmVerif.Gen.NvExpand
open Lean
namespace NQ.Drv
open NQ.Tr

def transpErrName : Err → String
  | .assertion => "AssertionError"
  | .runtime => "RuntimeError"
  | .value => "ValueError"
  | .key => "KeyError"
  | .unknownClass => "UnknownClass"

def instrsJson (l : List Instr) : Json := Json.arr (l.map instrToJson).toArray

def handleTranspile (op : String) (j : Json) : Option Json :=
  if op == "transpile.run" then do
    let debug ← (jField? j "debug").bind jBool?
    let hw ← (jField? j "hw").bind jBool?
    let is ← (jField? j "is").bind jArr?
    let S ← is.toList.mapM instrOfJson
    let cfg := Gen.cfg debug hw
    let q := QStatic cfg S
    pure (match transpile cfg S with
      | .ok out => Json.mkObj [("ok", instrsJson out), ("ser", instrsJson (serialise out)),
          ("idx", ofOpt ofNats (indexChanges cfg S)), ("qstatic", Json.bool q)]
      | .error e => Json.mkObj [("err", Json.str (transpErrName e)), ("qstatic", Json.bool q)])
  else none

end NQ.Drv
