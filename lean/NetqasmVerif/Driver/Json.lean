import Lean.Data.Json
import NetqasmVerif.Model.Basic
open Lean
namespace NQ.Drv

def jInt? (j : Json) : Option Int := match j.getInt? with | .ok v => some v | _ => none
def jNat? (j : Json) : Option Nat := match j.getNat? with | .ok v => some v | _ => none
def jStr? (j : Json) : Option String := match j.getStr? with | .ok v => some v | _ => none
def jArr? (j : Json) : Option (Array Json) := match j.getArr? with | .ok v => some v | _ => none
def jField? (j : Json) (k : String) : Option Json := match j.getObjVal? k with | .ok v => some v | _ => none
def jBool? (j : Json) : Option Bool := match j.getBool? with | .ok v => some v | _ => none

def jInts? (j : Json) : Option (List Int) := do
  let a ← jArr? j
  a.toList.mapM jInt?
def jNats? (j : Json) : Option (List Nat) := do
  let a ← jArr? j
  a.toList.mapM jNat?

def ofInts (l : List Int) : Json := Json.arr (l.map (fun (v : Int) => toJson v)).toArray
def ofNats (l : List Nat) : Json := Json.arr (l.map (fun (v : Nat) => toJson v)).toArray
def ofOpt (f : α → Json) : Option α → Json | some a => f a | none => Json.null

def regOf (l : List Int) : Option (Reg × List Int) :=
  match l with
  | b :: i :: rest => if b < 0 then none else some (⟨b.toNat, i⟩, rest)
  | _ => none

def operandOfJson (j : Json) : Option Operand :=
  match jField? j "r", jField? j "i", jField? j "a", jField? j "e", jField? j "s" with
  | some v, _, _, _, _ => do let l ← jInts? v; let (r, _) ← regOf l; pure (.reg r)
  | _, some v, _, _, _ => do let x ← jInt? v; pure (.imm x)
  | _, _, some v, _, _ => do let x ← jInt? v; pure (.addr x)
  | _, _, _, some v, _ => do
      let l ← jInts? v
      match l with
      | a :: rest => do let (r, _) ← regOf rest; pure (.entry a r)
      | _ => none
  | _, _, _, _, some v => do
      let l ← jInts? v
      match l with
      | a :: rest => do
          let (s, rest') ← regOf rest
          let (e, _) ← regOf rest'
          pure (.slice a s e)
      | _ => none
  | _, _, _, _, _ => none

def operandToJson : Operand → Json
  | .reg r => Json.mkObj [("r", ofInts [r.bank, r.idx])]
  | .imm v => Json.mkObj [("i", toJson v)]
  | .addr a => Json.mkObj [("a", toJson a)]
  | .entry a i => Json.mkObj [("e", ofInts [a, i.bank, i.idx])]
  | .slice a s e => Json.mkObj [("s", ofInts [a, s.bank, s.idx, e.bank, e.idx])]

def instrOfJson (j : Json) : Option Instr := do
  let c ← (jField? j "c").bind jStr?
  let o ← (jField? j "o").bind jArr?
  let ops ← o.toList.mapM operandOfJson
  pure ⟨c, ops⟩

def instrToJson (i : Instr) : Json :=
  Json.mkObj [("c", (i.cls : Json)), ("o", Json.arr (i.ops.map operandToJson).toArray)]

end NQ.Drv
