import NetqasmVerif.Driver.Json
import NetqasmVerif.Driver.Codec
import NetqasmVerif.Model.Asm
import NetqasmVerif.Model.AsmText
import NetqasmVerif.Gen.AsmPassTables
import NetqasmVerif.Model.AsmFront
import NetqasmVerif.Gen.AsmTables
open Lean
namespace NQ.Drv
open NQ.Asm

def riOfJson (j : Json) : Option RI :=
  match jField? j "r", jField? j "i" with
  | some v, _ => do let l ← jInts? v; let (r, _) ← regOf l; pure (.reg r)
  | _, some v => do let x ← jInt? v; pure (.lit x)
  | _, _ => none

def riToJson : RI → Json
  | .reg r => Json.mkObj [("r", ofInts [r.bank, r.idx])]
  | .lit v => Json.mkObj [("i", toJson v)]

def popOfJson (j : Json) : Option POperand :=
  match jField? j "r", jField? j "i", jField? j "lab", jField? j "t", jField? j "a", jField? j "e",
      jField? j "s" with
  | some v, _, _, _, _, _, _ => do let l ← jInts? v; let (r, _) ← regOf l; pure (.reg r)
  | _, some v, _, _, _, _, _ => do let x ← jInt? v; pure (.lit x)
  | _, _, some v, _, _, _, _ => do let x ← jStr? v; pure (.lab x)
  | _, _, _, some v, _, _, _ => do let x ← jStr? v; pure (.tmpl x)
  | _, _, _, _, some v, _, _ => do let x ← jInt? v; pure (.addr x)
  | _, _, _, _, _, some v, _ => do
      let l ← jArr? v
      match l.toList with
      | [a, i] => do let a ← jInt? a; let i ← riOfJson i; pure (.entry a i)
      | _ => none
  | _, _, _, _, _, _, some v => do
      let l ← jArr? v
      match l.toList with
      | [a, s, e] => do let a ← jInt? a; let s ← riOfJson s; let e ← riOfJson e; pure (.slice a s e)
      | _ => none
  | _, _, _, _, _, _, _ => none

def popToJson : POperand → Json
  | .reg r => Json.mkObj [("r", ofInts [r.bank, r.idx])]
  | .lit v => Json.mkObj [("i", toJson v)]
  | .lab l => Json.mkObj [("lab", (l : Json))]
  | .tmpl n => Json.mkObj [("t", (n : Json))]
  | .addr a => Json.mkObj [("a", toJson a)]
  | .entry a i => Json.mkObj [("e", Json.arr #[toJson a, riToJson i])]
  | .slice a s e => Json.mkObj [("s", Json.arr #[toJson a, riToJson s, riToJson e])]

def pcmdOfJson (j : Json) : Option PCmd :=
  match jField? j "l" with
  | some v => do let l ← jStr? v; pure (.label l)
  | none => do
    let m ← (jField? j "m").bind jStr?
    let a ← (jField? j "a").bind jInts?
    let o ← (jField? j "o").bind jArr?
    let ops ← o.toList.mapM popOfJson
    pure (.instr m a ops)

def pcmdToJson : PCmd → Json
  | .label l => Json.mkObj [("l", (l : Json))]
  | .instr m a ops => Json.mkObj [("m", (m : Json)), ("a", ofInts a), ("o", Json.arr (ops.map popToJson).toArray)]

def progOfJson (j : Json) : Option (List PCmd) := do
  let a ← jArr? j
  a.toList.mapM pcmdOfJson

def asmErrName : Err → String
  | .noRegister => "noRegister" | .dupLabel => "dupLabel" | .unknownInstr => "unknownInstr"
  | .badOperands => "badOperands" | .notICmd => "notICmd"

def chars (s : String) : List Char := s.toList
def str (l : List Char) : String := String.ofList l

def macrosOfJson (j : Json) : Option (List (List Char × List Char)) := do
  let a ← jArr? j
  a.toList.mapM (fun kv => do
    let p ← jArr? kv
    match p.toList with
    | [k, v] => do let k ← jStr? k; let v ← jStr? v; pure (chars k, chars v)
    | _ => none)

def ofStrs (l : List (List Char)) : Json := Json.arr (l.map (fun w => (str w : Json))).toArray

/-- initial registers of a run: association list, absent = undefined -/
def regsOfJson (j : Json) : Option Regs := do
  let a ← jArr? j
  let l ← a.toList.mapM (fun e => do
    let l ← jInts? e
    match l with
    | [b, i, v] => if b < 0 then none else some ((⟨b.toNat, i⟩ : Reg), v)
    | _ => none)
  pure (fun r => (l.find? (fun kv => kv.1 == r)).map (·.2))

def optIntToJson : Option Int → Json
  | some v => toJson v
  | none => Json.null

def runFuel (P : List PCmd) : Nat → State StdMem → Nat → (State StdMem × Nat × String × Nat)
  | 0, s, pc => (s, pc, "fuel", 0)
  | n + 1, s, pc =>
    match step stdMachine P s pc with
    | .next s' pc' => runFuel P n s' pc'
    | .fault k => (s, pc, "fault", k)
    | .halt => (s, pc, "halt", 0)
    | .stuck => (s, pc, "stuck", 0)

def arraysToJson (m : List (Int × List (Option Int))) : Json :=
  Json.arr (m.map (fun kv => Json.arr #[toJson kv.1, Json.arr (kv.2.map optIntToJson).toArray])).toArray

def handleAsm (op : String) (j : Json) : Option Json :=
  if op == "asm.assemble" then do
    let T ← (jField? j "fl").bind jStr? |>.bind tableOf
    let P ← (jField? j "p").bind progOfJson
    let fixed := ((jField? j "fixed").bind jBool?).getD true
    -- `reserved_registers=…` of `assemble_subroutine`: [[bank, idx], …], absent = none
    let reserved : List Reg := (((jField? j "reserved").bind jArr?).map (fun a =>
      a.toList.filterMap (fun e => (jInts? e).bind (fun l => (regOf l).map (·.1))))).getD []
    let proto := if fixed then assembleProto Gen.excTable Gen.numScratch P reserved
                 else assembleProtoTop Gen.excTable Gen.numScratch P
    pure (match proto with
      | .error e => Json.mkObj [("err", (asmErrName e : Json))]
      | .ok P2 => match buildAll T P2 with
        | .error e => Json.mkObj [("err", (asmErrName e : Json))]
        | .ok is => Json.mkObj [("ok", Json.arr (is.map instrToJson).toArray)])
  else if op == "asm.proto" then do
    let P ← (jField? j "p").bind progOfJson
    pure (match assembleProto Gen.excTable Gen.numScratch P with
      | .error e => Json.mkObj [("err", (asmErrName e : Json))]
      | .ok P2 => Json.mkObj [("ok", Json.arr (P2.map pcmdToJson).toArray)])
  else if op == "asm.run" then do
    -- source semantics (or the semantics of any proto program) on the concrete machine
    let P ← (jField? j "p").bind progOfJson
    let fuel ← (jField? j "fuel").bind jNat?
    let regs ← (jField? j "regs").bind regsOfJson
    let unit ← (jField? j "unit").bind jNat?
    let q ← (jField? j "query").bind jArr?
    let q ← q.toList.mapM (fun e => do let l ← jInts? e; let (r, _) ← regOf l; pure r)
    let s0 : State StdMem := ⟨regs, ⟨[], [], [], List.replicate unit false⟩⟩
    let (s, pc, why, k) := runFuel P fuel s0 0
    pure (Json.mkObj [("end", (why : Json)), ("k", toJson k), ("pc", toJson pc),
      ("regs", Json.arr (q.map (fun r => optIntToJson (s.regs r))).toArray),
      ("arrays", arraysToJson s.mem.arrays), ("shmArrays", arraysToJson s.mem.shmArrays),
      ("shmRegs", Json.arr (s.mem.shmRegs.map (fun kv => ofInts [kv.1.bank, kv.1.idx, kv.2])).toArray),
      ("unit", Json.arr (s.mem.unit.map (fun (b : Bool) => Json.bool b)).toArray)])
  else if op == "asm.parsetext" then do
    -- `parse_text_protosubroutine(text)`: the whole text front end
    let t ← (jField? j "text").bind jStr?
    pure (match AsmFront.parseTextProto Gen.syms Gen.genericNames t.toList with
      | .error e => Json.mkObj [("err", (e.name : Json))]
      | .ok pr => Json.mkObj [
          ("ver", match pr.version with | some (a, b) => ofInts [a, b] | none => Json.null),
          ("app", match pr.appId with | some n => toJson n | none => Json.null),
          ("ok", Json.arr (pr.cmds.map pcmdToJson).toArray)])
  else if op == "asm.macros" then do
    let ls ← (jField? j "lines").bind jArr?
    let ls ← ls.toList.mapM jStr?
    let ms ← (jField? j "macros").bind macrosOfJson
    let fixed := ((jField? j "fixed").bind jBool?).getD true
    let f := if fixed then AsmText.applyMacros else AsmText.applyMacrosOld
    pure (Json.mkObj [("lines", ofStrs (f (ls.map chars) ms))])
  else if op == "asm.tokenwise" then do
    let b ← (jField? j "body").bind jStr?
    let ms ← (jField? j "macros").bind macrosOfJson
    pure (Json.mkObj [("body", (str (AsmText.substTokenwise ms (chars b)) : Json))])
  else if op == "asm.words" then do
    let l ← (jField? j "line").bind jStr?
    let br ← (jField? j "br").bind jStr?
    match chars br with
    | [ob, cb] =>
      pure (match AsmText.groupByWord ob cb (chars l) with
        | none => Json.mkObj [("err", ("ValueError" : Json))]
        | some ws => Json.mkObj [("w", ofStrs ws)])
    | _ => none
  else if op == "asm.splitbracket" then do
    let w ← (jField? j "word").bind jStr?
    let br ← (jField? j "br").bind jStr?
    match chars br with
    | [ob, cb] =>
      pure (match AsmText.splitOfBracket ob cb (chars w) with
        | none => Json.mkObj [("err", ("NetQASMSyntaxError" : Json))]
        | some (a, b) => Json.mkObj [("w", ofStrs [a, b])])
    | _ => none
  else none

end NQ.Drv
