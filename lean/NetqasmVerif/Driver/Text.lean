import NetqasmVerif.Driver.Codec
import NetqasmVerif.Model.Text
import NetqasmVerif.Gen.AsmTables
open Lean
namespace NQ.Drv
open NQ.Text

def textErrName : TErr → String
  | .syntax => "NetQASMSyntaxError" | .value => "ValueError" | .key => "KeyError"
  | .assertion => "AssertionError" | .type_ => "TypeError" | .index => "IndexError"
  | .runtime => "RuntimeError" | .unsupported => "unsupported"

def textKindOfStr (s : String) : Option FieldKind :=
  if s == "reg" then some .reg else if s == "imm8" then some .imm8 else if s == "int32" then some .int32
  else if s == "addr" then some .addr else if s == "entry" then some .entry
  else if s == "slice" then some .slice else none

/-- a flavour table given in the request (`rows`: [[class, opcode, mnemonic, [kinds]], …], core
rows first, flavour-specific rows after, as `Flavour.__init__` inserts them) or a stock one (`fl`) -/
def textTableOfReq (j : Json) : Option Table :=
  match jField? j "rows" with
  | some rs => do
    let rs ← jArr? rs
    rs.toList.mapM fun r => do
      let a ← jArr? r
      match a.toList with
      | [c, o, m, ks] => do
        let ks ← jArr? ks
        let ks ← ks.toList.mapM (fun k => (jStr? k).bind textKindOfStr)
        pure (⟨← jStr? c, ← jNat? o, ← jStr? m, ks⟩ : Row)
      | _ => none
  | none => (jField? j "fl").bind jStr? |>.bind tableOf

def textUpdOfJson (j : Json) : Option IUpd := do
  let u ← (jField? j "u").bind jStr?
  if u == "obs" then pure .observe
  else if u == "set" then
    let k ← (jField? j "k").bind jNat?
    let o ← (jField? j "o").bind operandOfJson
    pure (.setOp k o)
  else none

def handleText (op : String) (j : Json) : Option Json :=
  if op == "text.print" then do
    let T ← textTableOfReq j
    let i ← (jField? j "i").bind instrOfJson
    match rowOf T i.cls with
    | some row => pure (Json.mkObj [("s", Json.str (String.ofList (showInstr Gen.syms row.mn i.ops)))])
    | none => pure (Json.mkObj [("s", Json.null)])
  else if op == "text.hist" then do
    let T ← (jField? j "fl").bind jStr? |>.bind tableOf
    let i ← (jField? j "i").bind instrOfJson
    let us ← (jField? j "us").bind jArr?
    let us ← us.toList.mapM textUpdOfJson
    let i' := applyIUpds i us
    pure (Json.mkObj [("i", instrToJson i'), ("s", Json.str (String.ofList (showLine T Gen.syms i')))])
  else if op == "text.tbt" then do
    -- text -> instructions -> bytes -> instructions -> text over the table of the request
    let T ← textTableOfReq j
    let ls ← (jField? j "lines").bind jArr?
    let ls ← ls.toList.mapM jStr?
    match parseText T Gen.syms Gen.genericNames Gen.replaceExceptions (ls.map String.toList) with
    | .error e => pure (Json.mkObj [("err", Json.str (textErrName e))])
    | .ok is =>
      match encodeSub T ⟨0, 0, 0, is⟩ with
      | none => pure (Json.mkObj [("is", Json.arr (is.map instrToJson).toArray), ("lines2", Json.null)])
      | some bs =>
        match decodeSub T bs with
        | none => pure (Json.mkObj [("is", Json.arr (is.map instrToJson).toArray), ("lines2", Json.null)])
        | some s' => pure (Json.mkObj [("is", Json.arr (is.map instrToJson).toArray),
            ("is2", Json.arr (s'.instrs.map instrToJson).toArray),
            ("lines2", Json.arr (s'.instrs.map (fun i => Json.str (String.ofList (showLine T Gen.syms i)))).toArray)])
  else if op == "text.parse" then do
    let T ← textTableOfReq j
    let ls ← (jField? j "lines").bind jArr?
    let ls ← ls.toList.mapM jStr?
    match parseText T Gen.syms Gen.genericNames Gen.replaceExceptions (ls.map String.toList) with
    | .ok is => pure (Json.mkObj [("is", Json.arr (is.map instrToJson).toArray)])
    | .error e => pure (Json.mkObj [("err", Json.str (textErrName e))])
  else none

end NQ.Drv
