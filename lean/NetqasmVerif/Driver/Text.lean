import NetqasmVerif.Driver.Codec
import NetqasmVerif.Model.Text
import NetqasmVerif.Gen.AsmTables
open Lean
namespace NQ.Drv
open NQ.Text

def textErrName : TErr → String
  | .syntax => "NetQASMSyntaxError" | .value => "ValueError" | .key => "KeyError"
  | .assertion => "AssertionError" | .type_ => "TypeError" | .index => "IndexError"
  | .runtime => "RuntimeError" | .unsupported => "unsupported"

def textUpdOfJson (j : Json) : Option IUpd := do
  let u ← (jField? j "u").bind jStr?
  if u == "obs" then pure .observe
  else if u == "set" then
    let k ← (jField? j "k").bind jNat?
    let o ← (jField? j "o").bind operandOfJson
    pure (.setOp k o)
  else none

def handleText (op : String) (j : Json) : Option Json :=
  if op == "text.print" then do
    let T ← (jField? j "fl").bind jStr? |>.bind tableOf
    let i ← (jField? j "i").bind instrOfJson
    match rowOf T i.cls with
    | some row => pure (Json.mkObj [("s", Json.str (String.ofList (showInstr Gen.syms row.mn i.ops)))])
    | none => pure (Json.mkObj [("s", Json.null)])
  else if op == "text.hist" then do
    let T ← (jField? j "fl").bind jStr? |>.bind tableOf
    let i ← (jField? j "i").bind instrOfJson
    let us ← (jField? j "us").bind jArr?
    let us ← us.toList.mapM textUpdOfJson
    let i' := applyIUpds i us
    pure (Json.mkObj [("i", instrToJson i'), ("s", Json.str (String.ofList (showLine T Gen.syms i')))])
  else if op == "text.parse" then do
    let T ← (jField? j "fl").bind jStr? |>.bind tableOf
    let ls ← (jField? j "lines").bind jArr?
    let ls ← ls.toList.mapM jStr?
    match parseText T Gen.syms Gen.genericNames Gen.replaceExceptions (ls.map String.toList) with
    | .ok is => pure (Json.mkObj [("is", Json.arr (is.map instrToJson).toArray)])
    | .error e => pure (Json.mkObj [("err", Json.str (textErrName e))])
  else none

end NQ.Drv
