import NetqasmVerif.Driver.Codec
import NetqasmVerif.Model.Text
import NetqasmVerif.Gen.AsmTables
open Lean
namespace NQ.Drv
open NQ.Text

def textErrName : TErr → String
  | .syntax => "NetQASMSyntaxError" | .value => "ValueError" | .key => "KeyError"
  | .assertion => "AssertionError" | .type_ => "TypeError" | .index => "IndexError"
  | .runtime => "RuntimeError" | .unsupported => "unsupported"

def handleText (op : String) (j : Json) : Option Json :=
  if op == "text.print" then do
    let T ← (jField? j "fl").bind jStr? |>.bind tableOf
    let i ← (jField? j "i").bind instrOfJson
    match rowOf T i.cls with
    | some row => pure (Json.mkObj [("s", Json.str (String.ofList (showInstr Gen.syms row.mn i.ops)))])
    | none => pure (Json.mkObj [("s", Json.null)])
  else if op == "text.parse" then do
    let T ← (jField? j "fl").bind jStr? |>.bind tableOf
    let ls ← (jField? j "lines").bind jArr?
    let ls ← ls.toList.mapM jStr?
    match parseText T Gen.syms Gen.genericNames Gen.replaceExceptions (ls.map String.toList) with
    | .ok is => pure (Json.mkObj [("is", Json.arr (is.map instrToJson).toArray)])
    | .error e => pure (Json.mkObj [("err", Json.str (textErrName e))])
  else none

end NQ.Drv
