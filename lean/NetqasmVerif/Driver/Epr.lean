import NetqasmVerif.Driver.Json
import NetqasmVerif.Model.Epr
import NetqasmVerif.Model.EprReq
import NetqasmVerif.Lemmas.EprReqSpec
open Lean
namespace NQ.Drv
open NQ.Epr

def optInt? (j : Json) : Option (Option Int) :=
  if j.isNull then some none else (jInt? j).map some

def tyOf (n : Nat) : Ty := if n == 0 then .K else if n == 1 then .M else .other
def kindOf (s : String) : Option WaitKind :=
  if s == "all" then some .all else if s == "any" then some .any else if s == "single" then some .single else none

def actionOfJson (j : Json) : Option Action := do
  let a ← (jField? j "a").bind jStr?
  let nat (k : String) : Option Nat := (jField? j k).bind jNat?
  let int (k : String) : Option Int := (jField? j k).bind jInt?
  let oint (k : String) : Option (Option Int) := (jField? j k).bind optInt?
  if a == "initapp" then pure (.initApp (← nat "app") (← nat "n"))
  else if a == "startsub" then pure (.startSub (← nat "sub") (← nat "app"))
  else if a == "endsub" then pure (.endSub (← nat "sub"))
  else if a == "nop" then pure .nop
  else if a == "array" then pure (.array (← nat "sub") (← int "addr") (← nat "len"))
  else if a == "store" then pure (.store (← nat "sub") (← int "addr") (← nat "idx") (← oint "val"))
  else if a == "qalloc" then pure (.qalloc (← nat "sub") (← int "v"))
  else if a == "qfree" then pure (.qfree (← nat "sub") (← int "v"))
  else if a == "create" then
    pure (.create (← nat "sub") (← int "remote") (← int "purpose") (← (jField? j "isK").bind jBool?)
      (← int "number") (← oint "q") (← int "res"))
  else if a == "recv" then
    pure (.recv (← nat "sub") (← int "remote") (← int "purpose") (← oint "q") (← int "res"))
  else if a == "deliver" then
    pure (.deliver (tyOf (← nat "ty")) (← int "remote") (← int "purpose") (← int "dir") (← int "phys")
      (← (jField? j "fields").bind jInts?))
  else if a == "poll" then pure .poll
  else if a == "rejected" then pure (.rejected (← nat "sub"))
  else if a == "stopapp" then pure (.stopApp (← nat "app"))
  else if a == "wait" then
    pure (.wait (← nat "sub") (← (jField? j "kind").bind jStr? |>.bind kindOf) (← int "addr") (← nat "lo") (← nat "hi"))
  else none

def ofOptInt : Option Int → Json
  | some v => toJson v
  | none => Json.null

def arrToJson (a : Arr) : Json := Json.arr (a.map ofOptInt).toArray

def obsOf (s : State) : Json :=
  Json.mkObj [
    ("apps", Json.arr (s.apps.map (fun (a, m) => Json.mkObj [
        ("app", toJson a),
        ("arrays", Json.arr (m.arrays.map (fun (ad, v) => Json.arr #[toJson ad, arrToJson v])).toArray),
        ("unit", arrToJson m.unit)])).toArray),
    ("used", ofInts s.used),
    ("queues", Json.arr (s.queues.map (fun (κ, q) => Json.mkObj [
        ("remote", toJson κ.remote), ("purpose", toJson κ.purpose), ("creator", toJson κ.creator),
        ("reqs", Json.arr (q.map (fun r => Json.arr #[toJson r.id, toJson r.sub, toJson r.resAddr,
            ofOptInt r.qAddr, toJson r.tot, toJson r.left])).toArray)])).toArray),
    ("pending", ofNats (s.pending.map (·.id))),
    ("log", Json.arr (s.log.map (fun e => Json.arr #[toJson e.resp.id, toJson e.req, toJson e.k,
        (match e.vq with | some v => toJson v | none => Json.null), ofOptInt e.prev])).toArray),
    ("subs", Json.arr (s.subs.map (fun (a, b) => ofNats [a, b])).toArray)]

/-- replay an action list; after every action the observation, plus the wait verdict for wait actions.
Stops at the first raising action. -/
def replay (okf : Nat) : State → List Action → List Json → List Json × Bool
  | _, [], acc => (acc.reverse, false)
  | s, a :: as, acc =>
    match step okf s a with
    | none => (acc.reverse, true)
    | some s' =>
      let o := obsOf s'
      let o := match a with
        | .wait sub kind addr lo hi => o.setObjVal! "w" (match waitOk s sub kind addr lo hi with
            | some b => toJson b | none => Json.null)
        | _ => o
      replay okf s' as (o :: acc)


open NQ.EprReq in
def fvalToJson : FVal → Json
  | .int v => Json.arr #[Json.str "int", toJson v]
  | .reqType v => Json.arr #[Json.str "RequestType", toJson v]
  | .randBasis v => Json.arr #[Json.str "RandomBasis", toJson v]

open NQ.EprReq in
def kwToJson (kw : List (String × FVal)) : Json :=
  Json.arr (kw.map (fun (f, v) => Json.arr #[Json.str f, fvalToJson v])).toArray

def triple? (j : Json) : Option (Int × Int × Int) := do
  match ← jInts? j with
  | [a, b, c] => pure (a, b, c)
  | _ => none

def optArr? (j : Json) : Option (List (Option Int)) := do
  let a ← jArr? j
  a.toList.mapM optInt?

open NQ.EprReq NQ.Gen.Epr in
def handleEprReq (op : String) (j : Json) : Option Json :=
  if op == "eprreq.request" then do
    let tp ← (jField? j "tp").bind jInt?
    let remote ← (jField? j "remote").bind jInt?
    let purpose ← (jField? j "purpose").bind jInt?
    let p : ReqParams := {
      number := ← (jField? j "number").bind jInt?,
      timeUnit := ← (jField? j "timeUnit").bind jInt?,
      maxTime := ← (jField? j "maxTime").bind jInt?,
      rbl := ← (jField? j "rbl").bind optInt?,
      rbr := ← (jField? j "rbr").bind optInt?,
      rotL := ← (jField? j "rotL").bind triple?,
      rotR := ← (jField? j "rotR").bind triple? }
    let arr := serializeReq tp p
    pure (Json.mkObj [
      ("arr", match arr with | some a => arrToJson a | none => Json.null),
      ("req", match arr.bind (getCreateRequest remote purpose) with | some kw => kwToJson kw | none => Json.null),
      ("expected", kwToJson (expectedCreate tp remote purpose p))])
  else if op == "eprreq.getcreate" then do
    let remote ← (jField? j "remote").bind jInt?
    let purpose ← (jField? j "purpose").bind jInt?
    let arr ← (jField? j "arr").bind optArr?
    pure (Json.mkObj [("req", match getCreateRequest remote purpose arr with
      | some kw => kwToJson kw | none => Json.null)])
  else if op == "eprreq.layout" then do
    let nv ← (jField? j "nv").bind jBool?
    let seq ← (jField? j "seq").bind jBool?
    let n ← (jField? j "n").bind jNat?
    pure (Json.mkObj [("layout", Json.arr ((List.range n).map fun i =>
      let (v, sl) := handleLayout nv seq n i
      ofNats [i, v, sl]).toArray),
      ("pairloc", ofNats ((List.range n).map fun k => if seq then 0 else if nv then nvPairLocation n k else k))])
  else if op == "eprreq.handles" then do
    -- store the responses, then read every handle attribute of every pair through the model indices
    let rsJ ← (jField? j "rs").bind jArr?
    let rs ← rsJ.toList.mapM jInts?
    let kind ← (jField? j "kind").bind jStr?
    let n := rs.length
    match storeAll okFieldsExec (List.replicate (n * okFieldsExec) none) 0 rs with
    | none => pure (Json.mkObj [("vals", Json.null)])
    | some arr =>
      let attrs : List String :=
        if kind == "keep" then ["qubit_id", "remote_node_id", "generation_duration", "raw_bell_state"]
        else if kind == "measure" then ["raw_measurement_outcome", "remote_node_id", "generation_duration", "raw_bell_state"]
        else okK
      let idxOf (attr : String) (i : Nat) : Option Nat :=
        if kind == "keep" then keepHandleIndex attr i
        else if kind == "measure" then measureHandleIndex attr i
        else some (entInfoIndex (okK.idxOf attr) i)
      let vals := (List.range n).flatMap fun i => attrs.map fun a =>
        Json.arr #[toJson i, Json.str a, match (idxOf a i).bind (fun ix => arr[ix]?) with
          | some (some v) => toJson v
          | _ => Json.null]
      pure (Json.mkObj [("vals", Json.arr vals.toArray), ("arr", arrToJson arr)])
  else none

def handleEpr (op : String) (j : Json) : Option Json :=
  if op == "epr.run" then do
    let okf ← (jField? j "okf").bind jNat?
    let node ← (jField? j "node").bind jInt?
    let acts ← (jField? j "acts").bind jArr?
    let acts ← acts.toList.mapM actionOfJson
    let (obs, raised) := replay okf (Epr.init node) acts []
    pure (Json.mkObj [("obs", Json.arr obs.toArray), ("raised", toJson raised)])
  else handleEprReq op j

end NQ.Drv
