import NetqasmVerif.Driver.Json
import NetqasmVerif.Model.Epr
open Lean
namespace NQ.Drv
open NQ.Epr

def optInt? (j : Json) : Option (Option Int) :=
  if j.isNull then some none else (jInt? j).map some

def tyOf (n : Nat) : Ty := if n == 0 then .K else if n == 1 then .M else .other
def kindOf (s : String) : Option WaitKind :=
  if s == "all" then some .all else if s == "any" then some .any else if s == "single" then some .single else none

def actionOfJson (j : Json) : Option Action := do
  let a ← (jField? j "a").bind jStr?
  let nat (k : String) : Option Nat := (jField? j k).bind jNat?
  let int (k : String) : Option Int := (jField? j k).bind jInt?
  let oint (k : String) : Option (Option Int) := (jField? j k).bind optInt?
  if a == "initapp" then pure (.initApp (← nat "app") (← nat "n"))
  else if a == "startsub" then pure (.startSub (← nat "sub") (← nat "app"))
  else if a == "endsub" then pure (.endSub (← nat "sub"))
  else if a == "nop" then pure .nop
  else if a == "array" then pure (.array (← nat "sub") (← int "addr") (← nat "len"))
  else if a == "store" then pure (.store (← nat "sub") (← int "addr") (← nat "idx") (← oint "val"))
  else if a == "qalloc" then pure (.qalloc (← nat "sub") (← int "v"))
  else if a == "qfree" then pure (.qfree (← nat "sub") (← int "v"))
  else if a == "create" then
    pure (.create (← nat "sub") (← int "remote") (← int "purpose") (← (jField? j "isK").bind jBool?)
      (← int "number") (← oint "q") (← int "res"))
  else if a == "recv" then
    pure (.recv (← nat "sub") (← int "remote") (← int "purpose") (← oint "q") (← int "res"))
  else if a == "deliver" then
    pure (.deliver (tyOf (← nat "ty")) (← int "remote") (← int "purpose") (← int "dir") (← int "phys")
      (← (jField? j "fields").bind jInts?))
  else if a == "poll" then pure .poll
  else if a == "wait" then
    pure (.wait (← nat "sub") (← (jField? j "kind").bind jStr? |>.bind kindOf) (← int "addr") (← nat "lo") (← nat "hi"))
  else none

def ofOptInt : Option Int → Json
  | some v => toJson v
  | none => Json.null

def arrToJson (a : Arr) : Json := Json.arr (a.map ofOptInt).toArray

def obsOf (s : State) : Json :=
  Json.mkObj [
    ("apps", Json.arr (s.apps.map (fun (a, m) => Json.mkObj [
        ("app", toJson a),
        ("arrays", Json.arr (m.arrays.map (fun (ad, v) => Json.arr #[toJson ad, arrToJson v])).toArray),
        ("unit", arrToJson m.unit)])).toArray),
    ("used", ofInts s.used),
    ("queues", Json.arr (s.queues.map (fun (κ, q) => Json.mkObj [
        ("remote", toJson κ.remote), ("purpose", toJson κ.purpose), ("creator", toJson κ.creator),
        ("reqs", Json.arr (q.map (fun r => Json.arr #[toJson r.id, toJson r.sub, toJson r.resAddr,
            ofOptInt r.qAddr, toJson r.tot, toJson r.left])).toArray)])).toArray),
    ("pending", ofNats (s.pending.map (·.id))),
    ("log", Json.arr (s.log.map (fun e => Json.arr #[toJson e.resp.id, toJson e.req, toJson e.k,
        (match e.vq with | some v => toJson v | none => Json.null), ofOptInt e.prev])).toArray),
    ("subs", Json.arr (s.subs.map (fun (a, b) => ofNats [a, b])).toArray)]

/-- replay an action list; after every action the observation, plus the wait verdict for wait actions.
Stops at the first raising action. -/
def replay (okf : Nat) : State → List Action → List Json → List Json × Bool
  | _, [], acc => (acc.reverse, false)
  | s, a :: as, acc =>
    match step okf s a with
    | none => (acc.reverse, true)
    | some s' =>
      let o := obsOf s'
      let o := match a with
        | .wait sub kind addr lo hi => o.setObjVal! "w" (match waitOk s sub kind addr lo hi with
            | some b => toJson b | none => Json.null)
        | _ => o
      replay okf s' as (o :: acc)

def handleEpr (op : String) (j : Json) : Option Json :=
  if op == "epr.run" then do
    let okf ← (jField? j "okf").bind jNat?
    let node ← (jField? j "node").bind jInt?
    let acts ← (jField? j "acts").bind jArr?
    let acts ← acts.toList.mapM actionOfJson
    let (obs, raised) := replay okf (Epr.init node) acts []
    pure (Json.mkObj [("obs", Json.arr obs.toArray), ("raised", toJson raised)])
  else none

end NQ.Drv
