import NetqasmVerif.Driver.Json
import NetqasmVerif.Model.Sdk
import NetqasmVerif.Model.SdkHost
open Lean
namespace NQ.Drv
open NQ.Sdk

partial def futOfJson (j : Json) : Option Fut := do
  let a ← (jField? j "a").bind jNat?
  match jField? j "i", jField? j "h", jField? j "f" with
  | some i, _, _ => do let i ← jNat? i; pure (.lit a i)
  | _, some h, _ => do let h ← jNat? h; pure (.reg a h)
  | _, _, some f => do let f ← futOfJson f; pure (.fut a f)
  | _, _, _ => none

def valOfJson (j : Json) : Option Val :=
  match jField? j "v", jField? j "f", jField? j "h" with
  | some v, _, _ => do let v ← jInt? v; pure (.lit v)
  | _, some f, _ => do let f ← futOfJson f; pure (.fut f)
  | _, _, some h => do let h ← jNat? h; pure (.reg h)
  | _, _, _ => none

def condOfStr : String → Option Cond
  | "eq" => some .eq | "ne" => some .ne | "lt" => some .lt | "ge" => some .ge
  | "ez" => some .ez | "nz" => some .nz | _ => none

def optIntOfJson (j : Json) : Option (Option Int) :=
  if j.isNull then some none else (jInt? j).map some

def initOfJson (j : Json) : Option (Option (List (Option Int))) :=
  if j.isNull then some none else do
    let a ← jArr? j
    let l ← a.toList.mapM optIntOfJson
    pure (some l)

def tgtOfJson (j : Json) : Option MTgt := do
  let k ← (jField? j "k").bind jStr?
  if k == "new" then pure .newFut
  else if k == "reg" then pure .newReg
  else if k == "fut" then do let f ← (jField? j "f").bind futOfJson; pure (.fut f)
  else none

/-- optional explicit loop register `"r": i` (absent / null: chosen by the SDK) -/
def sdkOptReg (j : Json) : Option Nat := (jField? j "r").bind jNat?

mutual
partial def hostOfJson (j : Json) : Option Host := do
  let k ← (jField? j "k").bind jStr?
  let int (n : String) : Option Int := (jField? j n).bind jInt?
  let nat (n : String) : Option Nat := (jField? j n).bind jNat?
  let body (n : String) : Option Host := (jField? j n).bind blockOfJson
  let val (n : String) : Option Val := (jField? j n).bind valOfJson
  if k == "arr" then do
    pure (.newArray (← nat "len") (← (jField? j "init").bind initOfJson))
  else if k == "reg" then do pure (.newReg (← int "v"))
  else if k == "qop" then do
    pure (.qop (← (jField? j "g").bind jNats?) (← (jField? j "t").bind tgtOfJson))
  else if k == "addf" then do
    pure (.addF (← (jField? j "f").bind futOfJson) (← val "o") (← (jField? j "m").bind optIntOfJson))
  else if k == "addr" then do
    pure (.addR (← nat "h") (← val "o") (← (jField? j "m").bind optIntOfJson))
  else if k == "if" then do
    pure (.ifc (← (jField? j "cb").bind jBool?) (← ((jField? j "c").bind jStr?).bind condOfStr)
      (← val "a") (← val "b") (← body "body"))
  else if k == "loop" then do pure (.loop (sdkOptReg j) (← int "s") (← int "e") (← int "d") (← body "body"))
  else if k == "lbody" then do pure (.loopBody (sdkOptReg j) (← int "s") (← int "e") (← int "d") (← body "body"))
  else if k == "foreach" then do
    pure (.foreach (← nat "arr") (← (jField? j "idx").bind jBool?) (← body "body"))
  else if k == "until" then do
    pure (.loopUntil (← int "n") (← body "body") (← val "ef") (← int "ev") (← body "cl"))
  else if k == "try" then do pure (.tryUntil (← int "n") (← body "body"))
  else if k == "epr" then do
    let evs ← (jField? j "ev").bind jInts?
    pure (.epr (evs.map (fun v => if v < 0 then EprEv.take else EprEv.rel v.toNat)))
  else none

partial def blockOfJson (j : Json) : Option Host := do
  let a ← jArr? j
  let hs ← a.toList.mapM hostOfJson
  pure (hs.foldr (fun h acc => Host.seq h acc) Host.skip)
end

def topOfJson (j : Json) : Option Top := do
  let k ← (jField? j "k").bind jStr?
  if k == "flush" then pure .flush else do pure (.op (← hostOfJson j))

def sregToJson (r : Sdk.Reg) : Json := ofNats [r.bank, r.idx]

def sdkPopToJson : POp → Json
  | .reg r => Json.mkObj [("r", sregToJson r)]
  | .lit v => Json.mkObj [("v", toJson v)]
  | .lab l => Json.mkObj [("l", (l.name : Json))]
  | .addr a => Json.mkObj [("a", toJson a)]
  | .entryL a i => Json.mkObj [("e", ofNats [a, i])]
  | .entryR a r => Json.mkObj [("er", ofNats [a, r.bank, r.idx])]

def sdkPcmdToJson : PCmd → Json
  | .label l => Json.mkObj [("l", (l.name : Json))]
  | .instr mn ops => Json.mkObj [("i", (mn.name : Json)), ("o", Json.arr (ops.map sdkPopToJson).toArray)]

def errName : BuildError → String
  | .noRegister => "noRegister" | .noMeasRegister => "noMeasRegister" | .badHandle => "badHandle"
  | .typeError => "typeError" | .assertion => "assertion" | .regState => "regState"

def snapToJson (s : Snap) : Json :=
  Json.mkObj [("active", ofNats s.active), ("meas", ofNats s.measUsed),
    ("rret", Json.arr (s.regsToReturn.map sregToJson).toArray),
    ("aret", ofNats s.arraysToReturn), ("narr", toJson s.nArrays)]

def handleSdk (op : String) (j : Json) : Option Json :=
  if op == "sdk.run" then do
    let p ← (jField? j "p").bind jArr?
    let tops ← p.toList.mapM topOfJson
    let out := Sdk.run tops
    pure (Json.mkObj [
      ("subs", Json.arr (out.subs.map (fun s => match s with
        | none => Json.null
        | some cs => Json.arr (cs.map sdkPcmdToJson).toArray)).toArray),
      ("snaps", Json.arr (out.snaps.map snapToJson).toArray),
      ("err", match out.err with
        | none => Json.null
        | some (st, e) => Json.arr #[toJson st, (errName e : Json)]),
      ("peak", toJson out.mem.peak)])
  else none


def sdkOptIntToJson : Option Int → Json
  | some v => toJson v
  | none => Json.null

def sdkEvToJson : Ev → Json
  | .qalloc => Json.arr #["qalloc"]
  | .init => Json.arr #["init"]
  | .gate g => Json.arr #["g", toJson g]
  | .meas o => Json.arr #["meas", toJson o]
  | .qfree => Json.arr #["qfree"]

def sdkArrsToJson (arrs : Nat → Option (List (Option Int))) (na : Nat) : Json :=
  Json.arr ((List.range na).filterMap (fun a => (arrs a).map (fun l =>
    Json.arr #[toJson a, Json.arr (l.map sdkOptIntToJson).toArray]))).toArray

def sdkViewToJson (v : HView) : Json :=
  Json.mkObj [
    ("arr", Json.arr (v.arrs.map (fun (a, l) =>
      Json.arr #[toJson a, Json.arr (l.map sdkOptIntToJson).toArray])).toArray),
    ("reg", Json.arr (v.regs.map (fun (h, x) => Json.arr #[toJson h, toJson x])).toArray)]

/-- run the proto-subroutines of a program one after the other under ProtoExec -/
def sdkExecSubs (fuel : Nat) (handles : List (Sdk.Reg × Bool)) (na : Nat) :
    St → List (Option (List PCmd)) → List Json → Bool × St × List Json
  | s, [], acc => (true, s, acc)
  | s, none :: rest, acc =>
    sdkExecSubs fuel handles na s rest (acc ++ [Json.null])
  | s, some cs :: rest, acc =>
    let (s1, pc) := runFuel cs fuel (s, 0)
    let snap := Json.mkObj [
      ("arr", sdkArrsToJson s1.arrs na),
      ("reg", Json.arr (handles.mapIdx (fun h (rb : Sdk.Reg × Bool) =>
        Json.arr #[toJson h, sdkOptIntToJson (s1.regs rb.1)])).toArray),
      ("shmarr", sdkArrsToJson s1.shmArrs na),
      ("halted", toJson (pc == cs.length))]
    if pc == cs.length then sdkExecSubs fuel handles na s1 rest (acc ++ [snap])
    else (false, s1, acc ++ [snap])

def handleSdkSem (op : String) (j : Json) : Option Json :=
  if op == "sdk.hsem" then do
    let p ← (jField? j "p").bind jArr?
    let tops ← p.toList.mapM topOfJson
    let outs ← (jField? j "outs").bind jInts?
    let fuel ← (jField? j "fuel").bind jNat?
    let r := hrun fuel outs tops
    pure (Json.mkObj [
      ("ok", toJson r.final.isSome),
      ("views", Json.arr (r.views.map sdkViewToJson).toArray),
      ("trace", match r.final with
        | some s => Json.arr (s.trace.map sdkEvToJson).toArray
        | none => Json.null)])
  else if op == "sdk.exec" then do
    let p ← (jField? j "p").bind jArr?
    let tops ← p.toList.mapM topOfJson
    let outs ← (jField? j "outs").bind jInts?
    let fuel ← (jField? j "fuel").bind jNat?
    let out := Sdk.run tops
    match out.err with
    | some _ => pure (Json.mkObj [("ok", toJson false), ("builderr", toJson true)])
    | none =>
      let s0 : St := { regs := fun _ => none, arrs := fun _ => none, shmRegs := fun _ => none,
                       shmArrs := fun _ => none, trace := [], outcomes := outs }
      let (ok, s1, snaps) := sdkExecSubs fuel out.mem.handles out.mem.arrLens.length s0 out.subs []
      pure (Json.mkObj [("ok", toJson ok), ("builderr", toJson false), ("states", Json.arr snaps.toArray),
        ("trace", Json.arr (s1.trace.map sdkEvToJson).toArray)])
  else none

end NQ.Drv
