import NetqasmVerif.Driver.Codec
import NetqasmVerif.Model.Reject
open Lean
namespace NQ.Drv

def handleReject (op : String) (j : Json) : Option Json :=
  if op == "reject.sdkrot" then do
    let T ← (jField? j "fl").bind jStr? |>.bind tableOf
    let hw ← (jField? j "hw").bind jBool?
    let cls ← (jField? j "c").bind jStr?
    let q ← (jField? j "q").bind jInt?
    let n ← (jField? j "n").bind jInt?
    let d ← (jField? j "d").bind jInt?
    let i := sdkRot hw cls q n d
    pure (Json.mkObj [("i", ofOpt instrToJson i), ("b", ofOpt ofNats (encodeOptInstr T i))])
  else if op == "reject.sdkmeas" then do
    let T ← (jField? j "fl").bind jStr? |>.bind tableOf
    let a ← (jField? j "a").bind jInts?
    match a with
    | [q, m, x1, y, x2] =>
      let i := sdkMeasBasis q m x1 y x2
      pure (Json.mkObj [("i", instrToJson i), ("b", ofOpt ofNats (encodeInstr T i))])
    | _ => none
  else if op == "reject.sdkbrk" then do
    let T ← (jField? j "fl").bind jStr? |>.bind tableOf
    let a ← (jField? j "a").bind jInts?
    match a with
    | [x, y] =>
      let i := sdkBreakpoint x y
      pure (Json.mkObj [("i", instrToJson i), ("b", ofOpt ofNats (encodeInstr T i))])
    | _ => none
  else if op == "reject.encsub" then do
    let T ← (jField? j "fl").bind jStr? |>.bind tableOf
    let v0 ← (jField? j "v0").bind jInt?
    let v1 ← (jField? j "v1").bind jInt?
    let app ← (jField? j "app").bind jInt?
    let is ← (jField? j "is").bind jArr?
    let is ← is.toList.mapM instrOfJson
    pure (Json.mkObj [("b", ofOpt ofNats (encodeSubZ T v0 v1 app is))])
  else none

end NQ.Drv
