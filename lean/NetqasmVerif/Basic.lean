def hello := "world"
