/-
Kernel-decided obligations about the message tables generated from /repo
(`Gen/MsgLayouts.lean`); decided once per change of the data.
-/
import NetqasmVerif.Model.Msg
import NetqasmVerif.Gen.MsgLayouts
import NetqasmVerif.Model.MsgSpec
namespace NQ.MsgObl
open NQ NQ.Msg

/-- every fixed message: leaf fields pairwise disjoint (sorted bit ranges), inside
`sizeof`, 8-bit `type` first -/
theorem layouts_wf : Gen.msgTables.layouts.all WFLayout = true := by decide +kernel

/-- ReturnArrayMessageHeader and OptionalInt are well-formed structs of the expected shape -/
theorem structs_wf : (WFStruct Gen.msgTables.retArrHeader && WFStruct Gen.msgTables.optionalInt
    && optShapeOk Gen.msgTables) = true := by decide +kernel

/-- both dispatch tables: every type byte leads to the class whose TYPE it is, no class
is reached by two type bytes -/
theorem dispatch_ok : (dispatchOk Gen.msgTables Gen.msgTables.hostDispatch
    && dispatchOk Gen.msgTables Gen.msgTables.returnDispatch) = true := by decide +kernel

/-- all side conditions of the round-trip theorems -/
theorem tables_wf : WFTables Gen.msgTables = true := by decide +kernel

def layoutByName (cls : String) : Option SLayout :=
  match layoutOf Gen.msgTables cls with
  | some M => some M.lay
  | none =>
    if cls == Gen.msgTables.retArrHeader.cls then some Gen.msgTables.retArrHeader
    else if cls == Gen.msgTables.optionalInt.cls then some Gen.msgTables.optionalInt
    else none

def encProbeOk (p : String × List Int × List Nat) : Bool :=
  match layoutByName p.1 with
  | some L => packStruct L p.2.1 == p.2.2
  | none => false

def decProbeOk (p : String × List Nat × List Int) : Bool :=
  match layoutByName p.1 with
  | some L => unpackStruct L p.2.1 == some p.2.2
  | none => false

/-- the model serialisation reproduces the real `bytes(m)` of every walking-one probe -/
theorem enc_probes_match : Gen.msgEncProbes.all encProbeOk = true := by decide +kernel

/-- the model deserialisation reproduces the real `deserialize_from` of every single
flipped wire bit -/
theorem dec_probes_match : Gen.msgDecProbes.all decProbeOk = true := by decide +kernel

theorem struct_probes_match : Gen.structEncProbes.all
    (fun p => encProbeOk p && decProbeOk (p.1, p.2.2, p.2.1)) = true := by decide +kernel

/-- every dispatched class was probed -/
theorem probes_cover : Gen.msgTables.layouts.all (fun M =>
    Gen.msgEncProbes.any (fun p => p.1 == M.lay.cls) &&
    Gen.msgDecProbes.any (fun p => p.1 == M.lay.cls)) = true := by decide +kernel

/-- the live message formats are the pinned ones: every message class with its type byte, size and
every leaf field (name, bit position, width, signedness), both dispatch tables, the array header,
`OptionalInt` and its tags.  A field narrowed / widened / moved / re-typed in /repo fails here. -/
theorem msg_layouts_pinned :
    (Gen.msgTables.layouts == MsgSpec.tables.layouts
      && Gen.msgTables.hostDispatch == MsgSpec.tables.hostDispatch
      && Gen.msgTables.returnDispatch == MsgSpec.tables.returnDispatch
      && Gen.msgTables.subroutineCls == MsgSpec.tables.subroutineCls
      && Gen.msgTables.subroutineTy == MsgSpec.tables.subroutineTy
      && Gen.msgTables.retArrCls == MsgSpec.tables.retArrCls
      && Gen.msgTables.retArrTy == MsgSpec.tables.retArrTy
      && Gen.msgTables.retArrHeader == MsgSpec.tables.retArrHeader
      && Gen.msgTables.optionalInt == MsgSpec.tables.optionalInt
      && Gen.msgTables.nullTag == MsgSpec.tables.nullTag
      && Gen.msgTables.intTag == MsgSpec.tables.intTag) = true := by decide +kernel

end NQ.MsgObl
