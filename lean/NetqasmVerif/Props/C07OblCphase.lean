import NetqasmVerif.Model.NvDecomp
import NetqasmVerif.Gen.NvDecomp
namespace NQ.C07.Obl
open NQ NQ.NV
/-- CPHASE: the same for the three placements -/
theorem two_rep_ok_cphase :
    [Placement.ec, .ce, .cc].all (fun p => repOk Gen.nvTwo .cphase p) = true := by decide +kernel
end NQ.C07.Obl
