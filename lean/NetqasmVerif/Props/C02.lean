/-
C02 — Wire format follows the fixed 7-byte NetQASM command layout.
-/
import NetqasmVerif.Lemmas.Table
import NetqasmVerif.Model.WireSpec
import NetqasmVerif.Props.WireObligations
import NetqasmVerif.Props.CmdLayoutObligations
import NetqasmVerif.Lemmas.CmdUnpack
namespace NQ.C02
open NQ

/-! The format of the statement, written independently of the model codec. -/

/-- register byte: 2-bit bank in the low bits, then a 4-bit index -/
def specRegByte (r : Reg) : Nat := r.bank ||| (r.idx.toNat <<< 2)

/-- the unsigned 32-bit value whose two's-complement reading is `v` -/
def twos (v : Int) : Nat := if v ≥ 0 then v.toNat else (v + 4294967296).toNat

def specLe32 (v : Int) : List Nat :=
  [twos v % 256, (twos v >>> 8) % 256, (twos v >>> 16) % 256, (twos v >>> 24) % 256]

def specOperand : FieldKind → Operand → List Nat
  | .reg, .reg r => [specRegByte r]
  | .imm8, .imm v => [v.toNat]
  | .int32, .imm v => specLe32 v
  | .addr, .addr a => specLe32 a
  | .entry, .entry a i => specLe32 a ++ [specRegByte i]
  | .slice, .slice a s e => specLe32 a ++ [specRegByte s, specRegByte e]
  | _, _ => []

def specOperands : List FieldKind → List Operand → List Nat
  | k :: ks, o :: os => specOperand k o ++ specOperands ks os
  | _, _ => []

/-- opcode, operands in declared order, zero padding to 7 bytes -/
def specEncode (row : Row) (ops : List Operand) : List Nat :=
  let body := specOperands row.shape ops
  row.opcode :: (body ++ List.replicate (6 - body.length) 0)

theorem regByte_eq_spec (r : Reg) (h : okReg r = true) : regByte r = specRegByte r := by
  obtain ⟨b, i⟩ := r
  simp [okReg] at h
  obtain ⟨⟨hb, hi0⟩, hi1⟩ := h
  have : ∃ n : Nat, i = n ∧ n < 16 := ⟨i.toNat, by omega, by omega⟩
  obtain ⟨n, rfl, hn⟩ := this
  simp only [regByte, specRegByte, Int.toNat_natCast]
  have hb' : b = 0 ∨ b = 1 ∨ b = 2 ∨ b = 3 := by omega
  have hn' : n = 0 ∨ n = 1 ∨ n = 2 ∨ n = 3 ∨ n = 4 ∨ n = 5 ∨ n = 6 ∨ n = 7 ∨ n = 8 ∨ n = 9 ∨
      n = 10 ∨ n = 11 ∨ n = 12 ∨ n = 13 ∨ n = 14 ∨ n = 15 := by omega
  rcases hb' with rfl | rfl | rfl | rfl <;>
    rcases hn' with rfl | rfl | rfl | rfl | rfl | rfl | rfl | rfl | rfl | rfl | rfl | rfl | rfl | rfl | rfl | rfl <;>
    decide

theorem le32_eq_spec (v : Int) (h : inI32 v = true) : le32 v = specLe32 v := by
  simp [inI32] at h
  have ht : (v % 4294967296).toNat = twos v := by
    unfold twos; split <;> omega
  simp only [le32, specLe32, ht, Nat.shiftRight_eq_div_pow]

theorem encodeOp_eq_spec (k : FieldKind) (o : Operand) (bs : List Nat)
    (h : encodeOp k o = some bs) : bs = specOperand k o := by
  unfold encodeOp at h
  split at h
  · rename_i hr
    cases k <;> cases o <;> simp [InRangeOp] at hr <;> simp at h <;> subst h <;>
      simp [specOperand, regByte_eq_spec, le32_eq_spec, *]
  · cases h

theorem encodeOps_eq_spec (ks : List FieldKind) (os : List Operand) (bs : List Nat)
    (h : encodeOps ks os = some bs) : bs = specOperands ks os := by
  induction ks generalizing os bs with
  | nil => cases os <;> simp [encodeOps] at h; simp [h, specOperands]
  | cons k ks ih =>
    cases os with
    | nil => simp [encodeOps] at h
    | cons o os =>
      obtain ⟨b, bs', hb, hbs', rfl⟩ := encodeOps_cons_some h
      simp only [specOperands, ← encodeOp_eq_spec k o b hb, ← ih os bs' hbs']

/-- **Layout.** Whenever an instruction encodes, its bytes are exactly: opcode, the
operands in declared order in the format of the statement, zero padding — 7 bytes. -/
theorem impl_eq_spec (row : Row) (ops : List Operand) (bs : List Nat)
    (h : encodeRow row ops = some bs) : bs = specEncode row ops ∧ bs.length = 7 := by
  refine ⟨?_, encodeRow_length row ops bs h⟩
  obtain ⟨body, hb, _, _, rfl⟩ := encodeRow_some h
  simp only [specEncode, ← encodeOps_eq_spec _ _ _ hb]

/-- every in-range instruction of a row that fits does encode (so `impl_eq_spec` is not vacuous) -/
theorem encodes_when_inRange (row : Row) (ops : List Operand)
    (hr : InRangeOps row.shape ops = true) (hs : shapeSize row.shape ≤ 6) (ho : row.opcode < 256) :
    (encodeRow row ops).isSome = true := by
  have h1 := encodeOps_isSome row.shape ops
  rw [hr] at h1
  cases hb : encodeOps row.shape ops with
  | none => simp [hb] at h1
  | some body =>
    have := encodeOps_length _ _ _ hb
    simp [encodeRow, hb, ho]; omega

/-- two's complement: the four bytes are the little-endian digits of `v mod 2^32` -/
theorem le32_value (v : Int) (h : inI32 v = true) :
    ∃ b0 b1 b2 b3, specLe32 v = [b0, b1, b2, b3] ∧ b0 < 256 ∧ b1 < 256 ∧ b2 < 256 ∧ b3 < 256 ∧
      ((b0 + 256 * b1 + 65536 * b2 + 16777216 * b3 : Nat) : Int) = (if v ≥ 0 then v else v + 4294967296) := by
  simp [inI32] at h
  have hlt : twos v < 4294967296 := by unfold twos; split <;> omega
  have h2 : ((twos v : Nat) : Int) = if v ≥ 0 then v else v + 4294967296 := by
    unfold twos; split <;> omega
  refine ⟨_, _, _, _, rfl, ?_, ?_, ?_, ?_, ?_⟩
  · omega
  · omega
  · omega
  · omega
  · rw [← h2]; congr 1
    simp only [Nat.shiftRight_eq_div_pow]; omega

/-- subroutine header: two version bytes and the little-endian 16-bit app id -/
theorem sub_header (T : Table) (s : Sub) (bs : List Nat) (h : encodeSub T s = some bs) :
    ∃ body, bs = s.v0 :: s.v1 :: s.app % 256 :: s.app / 256 :: body ∧
      encodeInstrs T s.instrs = some body ∧ s.app % 256 + 256 * (s.app / 256) = s.app ∧
      s.app / 256 < 256 ∧ body.length = 7 * s.instrs.length := by
  unfold encodeSub at h
  split at h
  · rename_i hr
    split at h
    · rename_i body hb
      simp at h; subst h
      refine ⟨body, rfl, hb, by omega, by omega, ?_⟩
      clear hr
      generalize s.instrs = is at hb
      induction is generalizing body with
      | nil => simp [encodeInstrs] at hb; subst hb; rfl
      | cons i is ih =>
        simp only [encodeInstrs] at hb
        split at hb
        · rename_i b bs' h1 h2
          simp at hb; subst hb
          simp [encodeInstr_length h1, ih bs' h2]; omega
        · cases hb
    · cases h
  · cases h

/-! Generated obligations: the live tables are the pinned ones, and the live byte
layout of every class is the model's (`C01.probes_match` is re-stated here so that
C02 stands alone). -/

theorem core_table_pinned : Gen.coreRows.map WireSpec.sig = WireSpec.core := by decide +kernel
theorem vanilla_table_pinned : Gen.vanillaSpecific.map WireSpec.sig = WireSpec.vanilla := by decide +kernel
theorem nv_table_pinned : Gen.nvSpecific.map WireSpec.sig = WireSpec.nv := by decide +kernel
theorem reids_table_pinned : Gen.reidsSpecific.map WireSpec.sig = WireSpec.reids := by decide +kernel
theorem layout_probes_match : Gen.probes.all probeOk = true := Wire.probes_match
theorem shapes_fit :
    (Gen.vanillaRows ++ Gen.nvRows ++ Gen.reidsRows).all
      (fun r => decide (shapeSize r.shape ≤ 6) && decide (r.opcode < 256)) = true := Wire.shapes_fit

/-! ### The live ctypes layout, without assuming that ctypes is linear

`Gen/CmdLayouts.lean` records, for every instruction class, the ctypes struct it really
serialises through: the leaf fields as bit ranges taken from the ctypes DESCRIPTORS (byte offset,
size, bit-field offset/width, signedness; nested `Register`/`Address`/`ArrayEntry`/`ArraySlice`
flattened, padding arrays element by element) and which operand component feeds which leaf.
`Cmd.packCmd` / `Cmd.unpackCmd` serialise with nothing but the generic struct model of
`Model/Msg.lean` (`packNat`: every leaf's two's-complement value at its bit range of one
little-endian number). The kernel decides that every generated layout IS the canonical
sequential layout of the class's shape, and the theorems below show that packing / unpacking with
the generated layout is the model codec `encodeRow` / `decodeOps` for ALL operand values / byte
strings. What remains trusted about ctypes is only: "a field's value is stored at the offset and
bit range its descriptor reports, two's complement, little endian" — the single-bit probes
(`layout_probes_match`) validate that behaviourally on top. -/

/-- every class's live struct layout = opcode byte, operands in declared order (register byte =
2-bit bank + 4-bit index + 2 unused bits, imm8, little-endian int32 / address), zero padding to 7 -/
theorem cmd_layouts_canonical : Gen.cmdLayouts.all (fun L =>
    match rowOf CmdObl.allRows L.cls with
    | some row => Cmd.isCanonical L row
    | none => false) = true := CmdObl.cmd_layouts_canonical

theorem cmd_layouts_cover :
    CmdObl.allRows.all (fun r => Gen.cmdLayouts.any (fun L => L.cls == r.cls)) = true :=
  CmdObl.cmd_layouts_cover

theorem canonical_of_generated (L : Cmd.CmdLayout) (hL : L ∈ Gen.cmdLayouts) (row : Row)
    (hrow : rowOf CmdObl.allRows L.cls = some row) : Cmd.isCanonical L row = true := by
  have := List.all_eq_true.1 cmd_layouts_canonical L hL
  simpa [hrow] using this

/-- **`generic_pack_eq_model`**: for every instruction class of /repo and ALL operand lists (in
range or not, right kinds or not), serialising through the generic ctypes struct model with the
layout generated from the live descriptors gives exactly `encodeRow`: the same 7 bytes, or a
rejection in exactly the same cases. -/
theorem generic_pack_eq_model (L : Cmd.CmdLayout) (hL : L ∈ Gen.cmdLayouts) (row : Row)
    (hrow : rowOf CmdObl.allRows L.cls = some row) (ops : List Operand) :
    Cmd.packCmd L row ops = encodeRow row ops :=
  Cmd.packCmd_of_canonical L row (canonical_of_generated L hL row hrow) ops

/-- **`generic_unpack_eq_model`**: for every class and EVERY 7-byte string, reading the struct
through the generic model with the generated layout gives the opcode byte and exactly the
operands `decodeOps` returns. -/
theorem generic_unpack_eq_model (L : Cmd.CmdLayout) (hL : L ∈ Gen.cmdLayouts) (row : Row)
    (hrow : rowOf CmdObl.allRows L.cls = some row) (opb : Nat) (body : List Nat)
    (hlen : body.length = 6) (hop : opb < 256) (hb : ∀ x ∈ body, x < 256) :
    Cmd.unpackCmd L row (opb :: body) = (decodeOps row.shape body).map (fun os => ((opb : Int), os)) :=
  Cmd.unpackCmd_of_canonical L row (canonical_of_generated L hL row hrow) opb body hlen hop hb

-- non-vacuity: the generated layout of `set` exists, and packs `set R15 -2` to the bytes of the statement
example : ∃ L ∈ Gen.cmdLayouts, L.cls = "core.SetInstruction" ∧ L.struct = "RegImmCommand" ∧
    Cmd.packCmd L ⟨"core.SetInstruction", 4, "set", [.reg, .int32]⟩ [.reg ⟨0, 15⟩, .imm (-2)]
      = some [4, 60, 254, 255, 255, 255, 0] :=
  ⟨Gen.cmdLayouts[3]!, by decide +kernel, by decide +kernel, by decide +kernel, by decide +kernel⟩

/-- non-vacuity / worked example from the statement: `set R15 -2` -/
example : encodeRow ⟨"core.SetInstruction", 4, "set", [.reg, .int32]⟩ [.reg ⟨0, 15⟩, .imm (-2)]
    = some [4, 60, 254, 255, 255, 255, 0] := by decide +kernel

end NQ.C02
