/-
C09 ↔ executor model: the allocation-relevant events of C09's model are exactly the unit-module
effects of the executor (`Model/Exec.lean`, C04/C13), so "the pending events run fault-free"
(`QM.Inv`, proved for every `good` history in Props/C09.lean) means "the executor raises no
allocation fault on what the SDK emitted" — the content of the `QSafe` / `QStepOk` hypothesis of the
end-to-end chain (Props/C05Chain.lean) as far as allocation is concerned.

What is and is not claimed:
* the events are executed as straight-line instruction sequences (`Bridge9.execEv`: `set Q0 v;
  qalloc Q0`, …) and environment actions (`reserve; keep`), i.e. the UNROLLED run of the
  subroutine, which is what C09's model produces (tied to the real pipeline by the C09
  correspondence); `loc_qalloc_ok` / `loc_qfree_ok` give the same fact per instruction for any
  register, program counter and mode — the form a `QStepOk` obligation has at `qalloc` / `qfree`;
* gates and measurements never fault in the base executor (its hooks only record); the check that a
  gate addresses an allocated qubit is the back end's `_get_position`, modelled by
  `Bridge9.position`;
* the composition with the chain's `Bridge.QSafe a P t n` for the proto-subroutines `P` of
  `Model/Sdk.lean` is NOT done here: that model covers a one-qubit fragment with its own emitted
  code, and relating its `P` to the event list needs the assembler/ProtoExec side of the chain.
-/
import NetqasmVerif.Lemmas.QubitExecBridge
namespace NQ.C09Bridge
open NQ NQ.Exec NQ.Bridge9

/-- **event_step_refines_exec** -/
theorem event_step_refines_exec (s : State) (a m : Nat) (u : List Nat) (hI : Exec.Inv s)
    (hA : Abs s a m u) (e : QM.Ev) :
    (∀ u', QM.step m u e = .ok u' → (execEv a s e).2 = none ∧ Abs (execEv a s e).1 a m u') ∧
    (∀ f, QM.step m u e = .error f → ∃ x, (execEv a s e).2 = some x ∧ kind x = some f) :=
  Bridge9.event_step_refines_exec hI hA e

/-- an event succeeds in C09's model iff the executor raises nothing on it -/
theorem event_ok_iff_exec_ok (s : State) (a m : Nat) (u : List Nat) (hI : Exec.Inv s)
    (hA : Abs s a m u) (e : QM.Ev) :
    (∃ u', QM.step m u e = .ok u') ↔ (execEv a s e).2 = none := by
  have h := Bridge9.event_step_refines_exec hI hA e
  constructor
  · rintro ⟨u', hu⟩; exact (h.1 u' hu).1
  · intro hn
    cases hs : QM.step m u e with
    | ok u' => exact ⟨u', rfl⟩
    | error f =>
      obtain ⟨x, hx, _⟩ := h.2 f hs
      rw [hn] at hx; cases hx

/-- C13's invariant of the controller is kept by every event -/
theorem exec_inv_preserved (s : State) (a : Nat) (hI : Exec.Inv s) (e : QM.Ev) :
    Exec.Inv (execEv a s e).1 := inv_execEv a hI e

/-- **events_safe_on_exec**: if the events run in C09's model, the executor raises no allocation
fault on the corresponding instruction sequence and ends with exactly that allocated set -/
theorem events_safe_on_exec (a m : Nat) (evs : List QM.Ev) (s : State) (u u' : List Nat)
    (hI : Exec.Inv s) (hA : Abs s a m u) (h : QM.run m u evs = .ok u') :
    (execEvs a s evs).2 = none ∧ Abs (execEvs a s evs).1 a m u' ∧ Exec.Inv (execEvs a s evs).1 :=
  run_safe_on_exec evs s u u' hI hA h

/-- … and a fault of the model is a fault of the executor, of the matching kind -/
theorem events_fault_on_exec (a m : Nat) (evs : List QM.Ev) (s : State) (u : List Nat) (f : QM.Fault)
    (hI : Exec.Inv s) (hA : Abs s a m u) (h : QM.run m u evs = .error f) :
    ∃ x, (execEvs a s evs).2 = some x ∧ kind x = some f :=
  run_fault_on_exec evs s u f hI hA h

/-- one flush: in any model state satisfying C09's invariant, on any related controller state,
the flushed subroutine raises no allocation fault and leaves the controller related to the model
state after the flush -/
theorem flush_qsafe (c : QM.Cfg) (st : QM.St) (s : State) (a : Nat) (hi : QM.Inv c st) (hR : Rel c st s a) :
    (execEvs a s st.evs).2 = none ∧ Rel c (QM.flushSt c st).1 (execEvs a s st.evs).1 a :=
  flush_safe hi hR

/-- **sdk_programs_qsafe**: for EVERY history satisfying `good` (any length; `close` excluded — it
ends the application), started on a controller where the application has just been registered,
every flushed subroutine runs on the executor without allocation fault, and model and controller
stay related (same unit-module size, same allocated set, C13's invariant) -/
theorem sdk_programs_qsafe (c : QM.Cfg) (ops : List QM.Op) (s0 : State) (a : Nat)
    (hI : Exec.Inv s0) (ha : a ∉ s0.registry)
    (hg : QM.good c QM.St.init ops = true) (hc : noClose ops = true) :
    let r := execHist a c (QM.St.init, (initApp s0 a c.maxq).1) ops
    r.2 = none ∧ Rel c r.1.1 r.1.2 a ∧ QM.Inv c r.1.1 :=
  hist_safe ops QM.St.init _ (QM.inv_init c) (rel_init c s0 a hI ha) hg hc

/-- per instruction, for any register / program counter / mode: the `QStepOk` facts at `qalloc`
and `qfree` -/
theorem qalloc_step_ok (hw : Bool) (a : Nat) (l : Loc) (r : XReg) (v m : Nat) (u u' : List Nat) (pc : Int)
    (hr : l.ap.regs r = some (v : Int)) (hU : AbsU l.ap.unit m u) (h : QM.step m u (.alloc v) = .ok u') :
    ∃ l', stepLoc hw a (.qalloc r) l pc = .ok l' (pc + 1) ∧ AbsU l'.ap.unit m u' ∧ l'.ap.regs = l.ap.regs :=
  loc_qalloc_ok hw a pc hr hU h

theorem qfree_step_ok (hw : Bool) (a : Nat) (l : Loc) (r : XReg) (v m : Nat) (u u' : List Nat) (pc : Int)
    (hr : l.ap.regs r = some (v : Int)) (hU : AbsU l.ap.unit m u)
    (hused : ∀ q, l.ap.unit[v]?.join = some q → q ∈ l.used) (h : QM.step m u (.free v) = .ok u') :
    ∃ l', stepLoc hw a (.qfree r) l pc = .ok l' (pc + 1) ∧ AbsU l'.ap.unit m u' ∧ l'.ap.regs = l.ap.regs :=
  loc_qfree_ok hw a pc hr hU hused h

/-- non-vacuity: a history with NV relocation, keep and a context block, executed on the executor
model from a fresh controller: no fault, and the controller ends with the model's allocated set -/
example :
    (execHist 0 ⟨true, false, 5⟩ (QM.St.init, (initApp init0 0 5).1)
      [.new, .new, .meas 1 false, .flush, .keep true 1, .ctx false 2 false ⟨1, .meas⟩, .flush]).2 = none ∧
    allocated (execHist 0 ⟨true, false, 5⟩ (QM.St.init, (initApp init0 0 5).1)
      [.new, .new, .meas 1 false, .flush, .keep true 1, .ctx false 2 false ⟨1, .meas⟩, .flush]).1.2 0 = [1, 2] := by
  decide

/-- … and a model fault is an executor fault: F30's witness faults on the executor with
`notAlloc` -/
example :
    ((execHist 0 ⟨true, true, 5⟩ (QM.St.init, (initApp init0 0 5).1)
      [.new, .new, .new, .meas 0 false, .gate2 1 2, .flush]).2.bind kind) = some .notAlloc := by decide

end NQ.C09Bridge
