/-
The composed controller model (`Model/Controller.lean`): ONE model of `executor.py` built from
`Model/Exec.lean` (C04/C13) and `Model/Epr.lean` (C12). `CReach cfg node c` = `c` is reachable from the
initial controller state by any sequence of actions: life-cycle operations of `Exec`, spawning a
subroutine, one instruction of any subroutine (Exec's instruction set + create_epr / recv_epr / wait_*),
a fault of the network stack inside an EPR instruction, response delivery, poll.

(1) `controller_refines_exec`     — on programs without EPR/wait instructions a tick IS `Exec.run … 1`.
(2) C12's (i)–(iv) for the combined model (`controller_exactly_once`, `controller_consumed_by_oldest_in_order`),
    one consumption of the controller IS a consumption of the EPR model on the view of the controller
    state and, for a keep response, a successful `Exec.keepResp` (`controller_consume_refines`), hence
    C13's invariant is preserved (`inv_controller_consume`, `inv_controller_tick`); waits are sound
    (`controller_wait_sound`).
(3) faults of the EPR instructions are atomic and name the current line (`epr_fault_atomic`).
What is NOT proved here: a step-by-step simulation of EVERY controller action by an action of
`Epr.step` (the array/qalloc/qfree instructions of `Exec` against `Epr`'s `array`/`store`/`qalloc`/`qfree`
actions); the bookkeeping theorems are instead re-proved for controller runs from the same
component-level lemmas, and the memory effect of a consumption is tied to `Epr` by the view.
-/
import NetqasmVerif.Lemmas.Controller
import NetqasmVerif.Props.C13
namespace NQ.C12
open NQ NQ.Exec NQ.Ctl

abbrev CReach := Ctl.Reach

/-! ### (1) the controller on Exec-only programs -/

def liftOut : Exec.Outcome → COutcome
  | .halted => .halted
  | .fault f ln => .fault (.exec f) ln
  | .outOfFuel => .halted

/-- On a subroutine whose program consists of `Exec` instructions only, one controller tick is exactly
one instruction of the `Exec` model (`Exec.run … 1`, which is what `Exec.tick` performs): same resulting
`Exec` state, same program counter, same outcome; the EPR book is untouched. -/
theorem controller_refines_exec (cfg : Cfg) (c : CState) (i : Nat) (sb : CSub) (bs : List Exec.Instr)
    (hs : c.subs[i]? = some sb) (hf : sb.fin = none) (hp : sb.prog = bs.map CInstr.base) :
    (Ctl.tick cfg c i).s = (Exec.run cfg.hw sb.a bs 1 c.s sb.pc).s ∧ (Ctl.tick cfg c i).book = c.book ∧
    ∃ sb', (Ctl.tick cfg c i).subs[i]? = some sb' ∧ sb'.pc = (Exec.run cfg.hw sb.a bs 1 c.s sb.pc).pc ∧
      sb'.fin = (Exec.afterTick bs (Exec.run cfg.hw sb.a bs 1 c.s sb.pc)).map liftOut ∧
      sb'.a = sb.a ∧ sb'.prog = sb.prog := by
  have hi : i < c.subs.length := by
    rcases Nat.lt_or_ge i c.subs.length with h | h
    · exact h
    · rw [List.getElem?_eq_none h] at hs; cases hs
  have hlen : sb.prog.length = bs.length := by rw [hp, List.length_map]
  have hset : ∀ x : CSub, (c.subs.set i x)[i]? = some x := fun x => by
    rw [List.getElem?_set_self hi]
  unfold Ctl.tick
  rw [hs]
  simp only [hf]
  unfold Exec.run
  rw [hlen]
  by_cases hge : sb.pc ≥ (bs.length : Int)
  · simp only [hge, if_true]
    refine ⟨?_, ?_, _, hset _, ?_, ?_, ?_, ?_⟩ <;> first | trivial | rfl | simp [Exec.afterTick, liftOut]
  · simp only [hge, if_false]
    cases hk : pyIdx bs.length sb.pc with
    | none =>
      simp only [Option.bind_none]
      refine ⟨?_, ?_, _, hset _, ?_, ?_, ?_, ?_⟩ <;> first | trivial | rfl | simp [Exec.afterTick, liftOut]
    | some k =>
      simp only [Option.bind_some, hp, List.getElem?_map]
      cases hb : bs[k]? with
      | none =>
        simp only [Option.map_none]
        refine ⟨?_, ?_, _, hset _, ?_, ?_, ?_, ?_⟩ <;> first | trivial | rfl | simp [Exec.afterTick, liftOut]
      | some bi =>
        simp only [Option.map_some]
        cases hstep : Exec.step cfg.hw sb.a bi c.s sb.pc with
        | ok s' pc' =>
          simp only
          by_cases hge' : pc' ≥ (bs.length : Int)
          · refine ⟨?_, ?_, _, hset _, ?_, ?_, ?_, ?_⟩ <;>
              first | trivial | rfl | simp [Exec.run, afterFetch, hlen, hge', Exec.afterTick, liftOut]
          · cases hp2 : pyIdx bs.length pc' <;>
            · refine ⟨?_, ?_, _, hset _, ?_, ?_, ?_, ?_⟩ <;>
                first | trivial | rfl | simp [Exec.run, afterFetch, hlen, hge', hp2, Exec.afterTick, liftOut]
        | fault s' f =>
          simp only
          refine ⟨?_, ?_, _, hset _, ?_, ?_, ?_, ?_⟩ <;> first | trivial | rfl | simp [Exec.afterTick, liftOut]

/-! ### (2) C12 for the combined model -/

/-- (i) exactly once, for every reachable controller state -/
theorem controller_exactly_once {cfg : Cfg} {node : Int} {c : CState} (h : CReach cfg node c) :
    (c.book.pending ++ c.book.log.map (·.resp)).Perm c.book.delivered ∧
    (c.book.delivered.map (·.id)).Nodup := by
  have : BookOnce c.book := by
    refine book_induct (cfg := cfg) BookOnce ?_ ?_ ?_ ?_ c h
    · exact ⟨by simp [Ctl.init], by simp [Ctl.init]⟩
    · intro c κ sub res q n hb; exact hb
    · intro b r hb hid; exact bookOnce_deliver r hid hb
    · intro b e e' r pre rest hb he hc hp; exact bookOnce_consume he hc hp hb
  exact ⟨this.1, by rw [this.2]; exact List.nodup_range⟩

/-- (ii)–(iv) oldest request first, pairs in order, retirement after exactly `tot` responses — the same
statement as `consumed_by_oldest_in_order`, for every reachable controller state -/
theorem controller_consumed_by_oldest_in_order {cfg : Cfg} {node : Int} {c : CState}
    (h : CReach cfg node c) (hpos : ∀ r ∈ c.book.issued, 1 ≤ r.tot) (κ : Epr.Key) :
    ∃ fin : List Epr.Req,
      Epr.issuedForL c.book.issued κ = fin ++ (Epr.getQ c.book.queues κ).map Epr.reset ∧
      Epr.doneForL c.book.log κ = Epr.canon fin ++ Epr.headPart (Epr.getQ c.book.queues κ) ∧
      (∀ r ∈ Epr.getQ c.book.queues κ, 1 ≤ r.left ∧ r.left ≤ r.tot ∧ r.key = κ) ∧
      (∀ r ∈ (Epr.getQ c.book.queues κ).tail, r.left = r.tot) := by
  have : BookQ c.book := by
    refine book_induct (cfg := cfg) BookQ ?_ ?_ ?_ ?_ c h
    · intro _ κ
      exact ⟨[], by simp [Epr.issuedForL, Ctl.init, Epr.getQ],
        by simp [Epr.doneForL, Ctl.init, Epr.getQ, Epr.canon, Epr.headPart], by simp [Epr.QWf, Ctl.init, Epr.getQ]⟩
    · intro c κ sub res q n hb; exact bookQ_enqueue κ sub res q n hb
    · intro b r hb _ hpos κ; exact hb hpos κ
    · intro b e e' r pre rest hb he hc _; exact bookQ_consume he hc hb
  exact this hpos κ

/-- One consumption of the controller = one consumption of the EPR model on the VIEW of the controller
state (so `C12.consume_effect`, `consumed_by_head`, `retired_iff_complete` apply to it verbatim), and
for a keep response its effect on the unit module / used set / reserved set is a successful
`Exec.keepResp` (never deferred, never faulting) at a position that was free. -/
theorem controller_consume_refines {cfg : Cfg} {c c' : CState} {r : Epr.Resp}
    (h : Ctl.tryHandle cfg c r = .yes c') :
    ∃ (hd : Epr.Req) (app : Nat) (ap : App) (e' : Epr.State),
      Epr.tryHandle cfg.okf (view c hd app ap) r = .yes e' ∧ c'.book = Book.ofEpr e' ∧ c'.subs = c.subs ∧
      (r.ty = .K → ∃ (app' : Nat) (v : Int) (i : Nat), (Exec.keepResp c.s app' v r.phys.toNat).2 = none ∧
        Epr.mapped (view c hd app ap) app' i = none ∧ Epr.mapped e' app' i = some r.phys) := by
  obtain ⟨hd, rest, app, ap, e', arr', ev, s1, ap1, _, _, hap, hneg, hty, _, _, _, hc'⟩ := Ctl.tryHandle_yes h
  refine ⟨hd, app, ap, e', hty, by rw [hc']; rfl, by rw [hc']; rfl, ?_⟩
  intro hK
  have hph : r.phys = ((r.phys.toNat : Nat) : Int) := by
    have : ¬ r.phys < 0 := fun hlt => hneg ⟨hK, hlt⟩
    omega
  have hR : Bridge.UnitRel (view c hd app ap) c.s := by
    constructor
    · intro a m hm
      simp only [view, Book.toEpr, Epr.getApp] at hm
      split at hm
      · rename_i ha
        injection hm with hm
        subst hm
        exact ⟨ap, by rw [← ha]; exact hap, rfl⟩
      · cases hm
    · intro q
      simp only [view, Book.toEpr, List.mem_map]
      constructor
      · rintro ⟨x, hx, hxe⟩
        have : x = q := Int.ofNat_inj.mp hxe
        rw [← this]; exact hx
      · intro hq; exact ⟨q, hq, rfl⟩
  obtain ⟨app', v, i, h1, _, h3, h4⟩ := Bridge.keep_consumption_simulated hR (Epr.tryHandle_yes hty) hK hph
  exact ⟨app', v, i, h1, h3, by rw [hph]; exact h4⟩

/-- C13's invariant through a consumption of the controller: the only hypothesis is the link layer's —
the physical qubit of a keep response is one it reserved on this controller. -/
theorem inv_controller_consume {cfg : Cfg} {c c' : CState} {r : Epr.Resp} (hI : C13.Inv c.s)
    (h : Ctl.tryHandle cfg c r = .yes c') (hres : r.ty = .K → r.phys.toNat ∈ c.s.reserved) :
    C13.Inv c'.s := by
  obtain ⟨hd, rest, app, ap, e', arr', ev, s1, ap1, _, _, hap, hneg, hty, hev, hs1, hap1, hc'⟩ :=
    Ctl.tryHandle_yes h
  have hI1 : Exec.Inv s1 := by
    rw [hs1]
    cases hvq : ev.vq with
    | none => exact hI
    | some pos =>
      simp only
      apply Exec.inv_keepResp c.s app pos r.phys.toNat hI
      apply hres
      exact Ctl.vq_some_is_keep (Epr.tryHandle_yes hty) hev hvq
  rw [hc']
  unfold commit
  refine Exec.inv_same hI1 ?_ (fun _ => Iff.rfl) rfl rfl
  funext b
  simp only [Exec.unitOf, upd]
  by_cases hb : b = app
  · subst hb; simp [hap1]
  · simp [hb]

/-- the link layer's hypothesis for a whole pending list: every keep response still pending carries a
physical qubit the link layer reserved on this controller, and no two of them carry the same one -/
def PendingEnvOk (c : CState) : Prop :=
  (∀ r ∈ c.book.pending, r.ty = .K → r.phys.toNat ∈ c.s.reserved) ∧
  ((c.book.pending.filter (fun r => r.ty = .K)).map (fun r => r.phys.toNat)).Nodup

/-- C13's invariant through a WHOLE delivery / poll: any number of consumptions of either type in the
order the real loop picks them (induction over the `_handle_pending_epr_responses` loop). The only
hypothesis is the link layer's (`PendingEnvOk`), and it holds again afterwards. -/
theorem inv_controller_handlePending {cfg : Cfg} {c c' : CState} (hI : C13.Inv c.s) (he : PendingEnvOk c)
    (h : Ctl.handlePending cfg c = some c') : C13.Inv c'.s ∧ PendingEnvOk c' := by
  have hstep : ∀ (c c1 : CState), C13.Inv c.s → PendingEnvOk c → Ctl.handleOne cfg c = .did c1 →
      C13.Inv c1.s ∧ PendingEnvOk c1 := by
    intro c c1 hI he h1
    obtain ⟨pre', r, rest, cy, hl, hy, hc1⟩ := Ctl.scan_did _ _ h1
    have hl' : c.book.pending = pre' ++ r :: rest := hl
    have hrmem : r ∈ c.book.pending := by rw [hl']; simp
    have hIy : C13.Inv cy.s := inv_controller_consume hI hy (he.1 r hrmem)
    subst hc1
    refine ⟨hIy, ?_, ?_⟩
    · intro x hx hK
      have hx' : x ∈ pre' ∨ x ∈ rest := by simpa using hx
      have hxm : x ∈ c.book.pending := by
        rw [hl']; rcases hx' with h | h
        · exact List.mem_append_left _ h
        · exact List.mem_append_right _ (List.mem_cons_of_mem _ h)
      apply Ctl.tryHandle_yes_reserved hy _ (he.1 x hxm hK)
      intro hrK heq
      -- two pending keep responses with the same physical qubit contradict `Nodup`
      have hnd := he.2
      rw [hl'] at hnd
      simp only [List.filter_append, List.filter_cons, hrK, decide_true, if_true, List.map_append,
        List.map_cons] at hnd
      have hxin : x.phys.toNat ∈ (pre'.filter (fun r => r.ty = .K)).map (fun r => r.phys.toNat) ∨
          x.phys.toNat ∈ (rest.filter (fun r => r.ty = .K)).map (fun r => r.phys.toNat) := by
        rcases hx' with h | h
        · left; exact List.mem_map.mpr ⟨x, List.mem_filter.mpr ⟨h, by simp [hK]⟩, rfl⟩
        · right; exact List.mem_map.mpr ⟨x, List.mem_filter.mpr ⟨h, by simp [hK]⟩, rfl⟩
      rw [List.nodup_append] at hnd
      obtain ⟨_, hnd2, hdisj⟩ := hnd
      rw [List.nodup_cons] at hnd2
      rcases hxin with h | h
      · exact hdisj _ h _ (List.mem_cons_self) heq
      · exact hnd2.1 (heq ▸ h)
    · have hnd := he.2
      rw [hl'] at hnd
      show (((([] : List Epr.Resp) ++ pre' ++ rest).filter (fun (r : Epr.Resp) => r.ty = .K)).map
        (fun (r : Epr.Resp) => r.phys.toNat)).Nodup
      simp only [List.nil_append, List.filter_append, List.map_append]
      simp only [List.filter_append, List.map_append] at hnd
      refine List.Nodup.sublist ?_ hnd
      exact List.Sublist.append_left (List.Sublist.map _ (List.Sublist.filter _ (List.sublist_cons_self _ _))) _
  have hfuel : ∀ (n : Nat) (c c' : CState), C13.Inv c.s → PendingEnvOk c →
      Ctl.handlePendingFuel cfg n c = some c' → C13.Inv c'.s ∧ PendingEnvOk c' := by
    intro n
    induction n with
    | zero => intro c c' hI he h; simp [Ctl.handlePendingFuel] at h; subst h; exact ⟨hI, he⟩
    | succ n ih =>
      intro c c' hI he h
      unfold Ctl.handlePendingFuel at h
      split at h
      · cases h
      · injection h with h; subst h; exact ⟨hI, he⟩
      · rename_i c1 h1
        obtain ⟨hI1, he1⟩ := hstep c c1 hI he h1
        exact ih c1 c' hI1 he1 h
  exact hfuel _ c c' hI he h

/-- … and through `deliver`: the hypothesis is stated on the pending list INCLUDING the new response -/
theorem inv_controller_deliver {cfg : Cfg} {c c' : CState} (ty : Epr.Ty) (remote purpose dir phys : Int)
    (fields : List Int) (hI : C13.Inv c.s)
    (he : PendingEnvOk { c with book := { c.book with
            pending := c.book.pending ++ [⟨c.book.nextResp, ty, remote, purpose, dir, phys, fields⟩],
            nextResp := c.book.nextResp + 1,
            delivered := c.book.delivered ++ [⟨c.book.nextResp, ty, remote, purpose, dir, phys, fields⟩] } })
    (h : Ctl.deliver cfg c ty remote purpose dir phys fields = some c') : C13.Inv c'.s ∧ PendingEnvOk c' :=
  inv_controller_handlePending (c := { c with book := { c.book with
            pending := c.book.pending ++ [⟨c.book.nextResp, ty, remote, purpose, dir, phys, fields⟩],
            nextResp := c.book.nextResp + 1,
            delivered := c.book.delivered ++ [⟨c.book.nextResp, ty, remote, purpose, dir, phys, fields⟩] } })
    hI he h

/-- non-vacuity of the hypotheses of `inv_controller_deliver`: an application, one qubit reserved by the
link layer (physical 0), a keep response carrying it -/
example : let c : CState := { Ctl.init 0 with s := [Exec.Op.init 0 2, .reserve].foldl Exec.apply Exec.init0 }
    C13.Inv c.s ∧
    PendingEnvOk { c with book := { c.book with pending := c.book.pending ++ [⟨0, .K, 7, 7003, 1, 0, [5, 6]⟩] } } ∧
    (Ctl.deliver ⟨2, false, fun r s => r * 1000 + s⟩ c .K 7 7003 1 0 [5, 6]).isSome = true := by
  refine ⟨C13.reachable_from_init [.init 0 2, .reserve] (by decide), ⟨?_, by decide⟩, by decide⟩
  intro r hr _
  simp only [Ctl.init, List.nil_append, List.mem_singleton] at hr
  subst hr
  decide

/-- C13's invariant through one instruction of any subroutine (Exec's instructions by `Exec.inv_step`;
the EPR and wait instructions do not touch the `Exec` state) -/
theorem inv_controller_tick (cfg : Cfg) (c : CState) (i : Nat) (hI : C13.Inv c.s) :
    C13.Inv (Ctl.tick cfg c i).s := by
  unfold Ctl.tick
  split
  · exact hI
  · rename_i sb _
    split
    · exact hI
    · split
      · exact hI
      · split
        · exact hI
        · rename_i bi _
          have := Exec.inv_step cfg.hw sb.a bi c.s sb.pc hI
          split
          · rename_i s' pc' hst; rw [hst] at this; exact this
          · rename_i s' f hst; rw [hst] at this; exact this
        · split
          · exact hI
          · rename_i c1 pc1 he
            rcases (eprStep_ok he).2 with h | ⟨κ, res, q, n, h⟩
            · show C13.Inv c1.s; rw [h]; exact hI
            · show C13.Inv c1.s; rw [h]; exact hI
          · exact hI

/-- (vi) for the controller's register-level waits: `wait_all` passes only if every entry of the Python
slice `array[lo:hi]` is defined, `wait_any` only if one is, `wait_single` only if the entry is. -/
theorem controller_wait_sound (ap : App) (a : Int) (lo hi ix : XReg) :
    (waitSlice true ap a lo hi = some (.ok true) →
      ∃ l h arr, ap.regs lo = some l ∧ ap.regs hi = some h ∧ ap.arrays a = some arr ∧
        ∀ x ∈ pySlice arr l h, x.isSome = true) ∧
    (waitSlice false ap a lo hi = some (.ok true) →
      ∃ l h arr, ap.regs lo = some l ∧ ap.regs hi = some h ∧ ap.arrays a = some arr ∧
        ∃ x ∈ pySlice arr l h, x.isSome = true) ∧
    (waitEntry ap a ix = .ok true →
      ∃ k arr p v, ap.regs ix = some k ∧ ap.arrays a = some arr ∧ pyIdx arr.length k = some p ∧
        arr[p]? = some (some v)) := by
  refine ⟨?_, ?_, ?_⟩
  · intro h
    unfold waitSlice at h
    split at h
    · rename_i l hh hl hhh
      split at h
      · cases h
      · rename_i arr harr
        simp only [if_true, Option.some.injEq, Except.ok.injEq] at h
        exact ⟨l, hh, arr, hl, hhh, harr, by simpa [List.all_eq_true] using h⟩
    · cases h
  · intro h
    unfold waitSlice at h
    split at h
    · rename_i l hh hl hhh
      split at h
      · cases h
      · rename_i arr harr
        simp only [Bool.false_eq_true, if_false, Option.some.injEq, Except.ok.injEq] at h
        exact ⟨l, hh, arr, hl, hhh, harr, by simpa [List.any_eq_true] using h⟩
    · cases h
  · intro h
    unfold waitEntry at h
    split at h
    · cases h
    · rename_i k hk
      split at h
      · cases h
      · rename_i arr harr
        split at h
        · cases h
        · rename_i p hp
          injection h with h
          cases hv : arr[p]? with
          | none => rw [hv] at h; cases h
          | some o =>
            cases o with
            | none => rw [hv] at h; cases h
            | some v => exact ⟨k, arr, p, v, hk, harr, hp, hv⟩

/-! ### (3) faults of the EPR instructions -/

/-- A faulting `create_epr` / `recv_epr` / `wait_*` (undefined register operand — `assert … is not None`
or RuntimeError —, argument / result / qubit-id array missing or of the wrong length, invalid request
type or random-basis value, index outside the array, unknown application) leaves the WHOLE controller
state — `Exec` state and EPR book — unchanged and is reported at the current line (`fault f (some pc)`);
no other subroutine is affected. (`fault_atomic` / `fault_names_line` of C04 for the EPR instructions.) -/
theorem epr_fault_atomic (cfg : Cfg) (c : CState) (i : Nat) (sb : CSub) (k : Nat) (ei : CInstr) (f : CFault)
    (hs : c.subs[i]? = some sb) (hf : sb.fin = none) (hlt : ¬ sb.pc ≥ (sb.prog.length : Int))
    (hk : pyIdx sb.prog.length sb.pc = some k) (hei : sb.prog[k]? = some ei) (hnb : ∀ b, ei ≠ .base b)
    (he : eprStep cfg c i sb.a sb.pc ei = .fault f) :
    (Ctl.tick cfg c i).s = c.s ∧ (Ctl.tick cfg c i).book = c.book ∧
    (Ctl.tick cfg c i).subs = c.subs.set i { sb with fin := some (.fault f (some sb.pc)) } := by
  unfold Ctl.tick
  rw [hs]
  simp only [hf, hlt, if_false, hk, Option.bind_some, hei]
  cases ei with
  | base b => exact absurd rfl (hnb b)
  | createEpr r0 r1 r2 r3 r4 => simp only [he]; refine ⟨?_, ?_, ?_⟩ <;> first | trivial | rfl
  | recvEpr r0 r1 r2 r4 => simp only [he]; refine ⟨?_, ?_, ?_⟩ <;> first | trivial | rfl
  | waitAll a lo hi => simp only [he]; refine ⟨?_, ?_, ?_⟩ <;> first | trivial | rfl
  | waitAny a lo hi => simp only [he]; refine ⟨?_, ?_, ?_⟩ <;> first | trivial | rfl
  | waitSingle a ix => simp only [he]; refine ⟨?_, ?_, ?_⟩ <;> first | trivial | rfl
  | measBasis q cr i0 i1 i2 i3 => simp only [he]; refine ⟨?_, ?_, ?_⟩ <;> first | trivial | rfl

/-- a wait whose condition does not hold is a pure yield point: nothing changes -/
theorem wait_block_unchanged (cfg : Cfg) (c : CState) (i : Nat) (sb : CSub) (k : Nat) (ei : CInstr)
    (hs : c.subs[i]? = some sb) (hf : sb.fin = none) (hlt : ¬ sb.pc ≥ (sb.prog.length : Int))
    (hk : pyIdx sb.prog.length sb.pc = some k) (hei : sb.prog[k]? = some ei) (hnb : ∀ b, ei ≠ .base b)
    (he : eprStep cfg c i sb.a sb.pc ei = .block) : Ctl.tick cfg c i = c := by
  unfold Ctl.tick
  rw [hs]
  simp only [hf, hlt, if_false, hk, Option.bind_some, hei]
  cases ei with
  | base b => exact absurd rfl (hnb b)
  | createEpr r0 r1 r2 r3 r4 => simp only [he]
  | recvEpr r0 r1 r2 r4 => simp only [he]
  | waitAll a lo hi => simp only [he]
  | waitAny a lo hi => simp only [he]
  | waitSingle a ix => simp only [he]
  | measBasis q cr i0 i1 i2 i3 => simp only [he]

/-- the stack refusing a request (fault at the environment boundary) leaves `Exec` state and book
unchanged in the combined model too -/
theorem controller_rejected_issue_unchanged (c : CState) (i : Nat) :
    (stackFault c i).s = c.s ∧ (stackFault c i).book = c.book := by
  unfold stackFault
  split
  · exact ⟨rfl, rfl⟩
  · split <;> exact ⟨rfl, rfl⟩

/-! ### non-vacuity: a run of the combined model (registers, arrays, EPR) -/

def R (i : Nat) (h : i < 16 := by omega) : XReg := ⟨0, ⟨i, h⟩⟩
def Q (i : Nat) (h : i < 16 := by omega) : XReg := ⟨2, ⟨i, h⟩⟩

/-- recv-keep for 1 pair into virtual qubit 1 (array @0 = [1], result array @1 of 2 entries, okf = 2),
response delivered before the instruction ran, then wait_all -/
def cdemo : List CAction :=
  [ .base (.init 0 2), .base .reserve,
    .deliver .K 7 7003 1 0 [5, 6],
    .spawn 0 [ .base (.set (R 0) 1), .base (.array (R 0) 0), .base (.set (R 1) 0), .base (.store (R 0) 0 (R 1)),
               .base (.set (R 0) 2), .base (.array (R 0) 1),
               .base (.set (R 0) 7), .base (.set (R 1) 3), .base (.set (R 2) 0), .base (.set (R 4) 1),
               .recvEpr (R 0) (R 1) (R 2) (R 4),
               .base (.set (R 0) 0), .base (.set (R 1) 2), .waitAll 1 (R 0) (R 1) ] ] ++
  (List.replicate 13 (.tick 0)) ++ [.tick 0, .poll, .tick 0]

def cdemoCfg : Cfg := ⟨2, false, fun r s => r * 1000 + s⟩

theorem controller_nonvacuous :
    ((Ctl.run cdemoCfg (Ctl.init 0) cdemo).map fun c =>
      (c.book.pending.length, c.book.log.map (fun e => (e.resp.id, e.req, e.k)))) = some (0, [(0, 0, 0)]) ∧
    ((Ctl.run cdemoCfg (Ctl.init 0) cdemo).bind fun c => (c.s.apps 0).bind fun ap => ap.arrays 1) =
      some [some 5, some 6] ∧
    ((Ctl.run cdemoCfg (Ctl.init 0) cdemo).bind fun c => (c.s.apps 0).map fun ap => ap.unit) =
      some [none, some 0] ∧
    ((Ctl.run cdemoCfg (Ctl.init 0) cdemo).map fun c => (c.s.reserved, c.subs.map (·.fin))) =
      some ([], [some .halted]) := by
  decide

end NQ.C12
