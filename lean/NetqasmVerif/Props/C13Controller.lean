/-
C13 over histories WITH entanglement deliveries through the executor's pending-response list.

`Model/Controller.lean` composes `Model/Exec.lean` (this property's model) with the EPR bookkeeping of
`Model/Epr.lean`: `deliver` appends a response to `_pending_epr_responses` and runs the loop of
`_handle_pending_epr_responses` (a response that cannot be handled yet — no request posted, virtual
qubit still allocated — stays parked, possibly ahead of one that can), `poll` re-runs the loop.
The per-action preservation lemmas are in `Props/C12Controller.lean`; here they are composed into the
history theorem the C13 correspondence stream `ctl` is tied to.
-/
import NetqasmVerif.Props.C12Controller
namespace NQ.C13
open NQ NQ.Exec NQ.Ctl

/-- Environment hypothesis of one controller action, stated on the action: sequential operations as
in `envOk`; for a delivery, every keep response in the pending list INCLUDING the new one carries a
physical qubit the link layer reserved on this controller (`reserve`), no two of them the same one.
(For `poll` the hypothesis on the current list is carried along by the theorem.) -/
def CEnvOk (c : CState) : CAction → Prop
  | .base op => envOk c.s op = true
  | .deliver ty remote purpose dir phys fields =>
    C12.PendingEnvOk { c with book := { c.book with
      pending := c.book.pending ++ [⟨c.book.nextResp, ty, remote, purpose, dir, phys, fields⟩],
      nextResp := c.book.nextResp + 1,
      delivered := c.book.delivered ++ [⟨c.book.nextResp, ty, remote, purpose, dir, phys, fields⟩] } }
  | _ => True

/-- the part of the link layer's hypothesis that survives from action to action -/
def PendingReserved (c : CState) : Prop := C12.PendingEnvOk c

theorem stackFault_s (c : CState) (i : Nat) : (Ctl.stackFault c i).s = c.s := by
  unfold Ctl.stackFault
  repeat' split
  all_goals rfl

theorem stackFault_pending (c : CState) (i : Nat) : (Ctl.stackFault c i).book = c.book := by
  unfold Ctl.stackFault
  repeat' split
  all_goals rfl

/-- every controller action preserves the invariant (the pending-list hypothesis is only needed, and
re-established, by the actions that run the response loop) -/
theorem inv_controller_action {cfg : Cfg} {c c' : CState} (a : CAction) (hI : Inv c.s)
    (he : CEnvOk c a) (hp : a = .poll → C12.PendingEnvOk c) (h : Ctl.apply cfg c a = some c') :
    Inv c'.s := by
  cases a with
  | base op =>
    simp only [Ctl.apply, Option.some.injEq] at h
    subst h
    exact inv_step c.s op hI he
  | spawn a prog =>
    simp only [Ctl.apply, Option.some.injEq] at h
    subst h; exact hI
  | tick i =>
    simp only [Ctl.apply, Option.some.injEq] at h
    subst h; exact C12.inv_controller_tick cfg c i hI
  | stackFault i =>
    simp only [Ctl.apply, Option.some.injEq] at h
    subst h; rw [stackFault_s]; exact hI
  | deliver ty remote purpose dir phys fields =>
    exact (C12.inv_controller_deliver ty remote purpose dir phys fields hI he h).1
  | poll =>
    exact (C12.inv_controller_handlePending hI (hp rfl) h).1

/-- histories: the hypotheses along a list of controller actions -/
def CEnvOkAll (cfg : Cfg) : CState → List CAction → Prop
  | _, [] => True
  | c, a :: rest =>
    CEnvOk c a ∧ (a = .poll → C12.PendingEnvOk c) ∧
      ∀ c', Ctl.apply cfg c a = some c' → CEnvOkAll cfg c' rest

/-- **C13 over controller histories.**  After every history of life-cycle operations, instructions of
subroutines of several applications in flight (classical, allocation, `create_epr`/`recv_epr`/waits),
network-stack faults, response deliveries through the pending list and polls — of any length —
no two allocated virtual qubits share a physical qubit and the used set is exactly the mapped set
plus the qubits the link layer still holds. -/
theorem reachable_controller (cfg : Cfg) (acts : List CAction) (c c' : CState) (hI : Inv c.s)
    (he : CEnvOkAll cfg c acts) (h : Ctl.run cfg c acts = some c') : Inv c'.s := by
  induction acts generalizing c with
  | nil => simp only [Ctl.run, Option.some.injEq] at h; subst h; exact hI
  | cons a rest ih =>
    simp only [Ctl.run] at h
    split at h
    · cases h
    · rename_i c1 h1
      exact ih c1 (inv_controller_action a hI he.1 he.2.1 h1) (he.2.2 c1 h1) h

theorem reachable_controller_from_init (cfg : Cfg) (node : Int) (acts : List CAction) (c' : CState)
    (he : CEnvOkAll cfg (Ctl.init node) acts) (h : Ctl.run cfg (Ctl.init node) acts = some c') :
    Inv c'.s :=
  reachable_controller cfg acts (Ctl.init node) c' inv_init he h

/-- an action that raises (`none`) leaves no new state: the history stops there -/
theorem controller_raise_stops (cfg : Cfg) (c : CState) (a : CAction) (rest : List CAction)
    (h : Ctl.apply cfg c a = none) : Ctl.run cfg c (a :: rest) = none := by
  simp [Ctl.run, h]

/-- isolation for deliveries: a consumed response changes only the application of the request at the
head of its queue (the application of the subroutine that issued it) -/
theorem controller_consume_isolation {cfg : Cfg} {c c' : CState} {r : Epr.Resp}
    (h : Ctl.tryHandle cfg c r = .yes c') :
    ∃ hd rest app, Epr.getQ c.book.queues (Epr.keyOf c.book.nodeId r) = hd :: rest ∧
      Ctl.liveApp c hd.sub = some app ∧ ∀ b, b ≠ app → c'.s.apps b = c.s.apps b := by
  obtain ⟨hd, rest, app, ap, e', arr', ev, s1, ap1, hq, hlive, hap, hneg, hty, hev, hs1, hap1, hc'⟩ :=
    Ctl.tryHandle_yes h
  refine ⟨hd, rest, app, hq, hlive, ?_⟩
  intro b hb
  rw [hc']
  unfold commit
  simp only [upd_other _ _ _ _ hb]
  rw [hs1]
  cases ev.vq with
  | none => rfl
  | some pos =>
    simp only
    have := isolation c.s (.keep app pos r.phys.toNat) b (by simp [opApp]; exact fun e => hb e.symm)
    simpa [Exec.apply] using this

end NQ.C13
