/-
C19 — Float angles are approximated within tolerance by encodable rotations.

Model: `Model/Angle.lean` (the code AFTER the fixes of F19a/b/c).  All statements are over exact
dyadic values read in an arbitrary linearly ordered field `K` (ℚ, ℝ):
    rest = val E r = r / 2^E ,  tol_pi = val E t = t / 2^E ,  a step (n, d) is worth n / 2^d
(units of π; `result_within_radians` multiplies by any positive `π`).

PARTIAL, labelled: the three floating-point operations before the loop (`angle % 2π`, `angle / π`,
`tol / π`) round; the theorems start from the doubles the code holds after them.  The loop body is
exact in binary64; the rounding of `log2` is absorbed by the relation `Run` (any allowed exponent).
-/
import NetqasmVerif.Lemmas.Angle
namespace NQ.C19
open NQ.Angle

variable {K : Type} [Field K] [LinearOrder K] [IsStrictOrderedRing K]

/-- `step_valid`: for `tol < rest ≤ 2` every allowed step has `127 ≤ n ≤ 255` (8-bit range),
`d ≥ 6`, and `n/2^d ≤ rest < (n+1)/2^d`. -/
theorem step_valid (E t r d : Nat) (_htol : t < r) (h2 : r ≤ 2 * 2 ^ E) (ha : Allowed E r d) :
    127 ≤ numer E r d ∧ numer E r d ≤ 255 ∧ 6 ≤ d ∧
    (stepVal (numer E r d, d) : K) ≤ val E r ∧ (val E r : K) < ((numer E r d : K) + 1) / 2 ^ d :=
  ⟨ha.1, ha.2, allowed_d_ge E r d h2 ha, numer_val_le E r d, val_lt_numer_succ E r d⟩

/-- the code's own choice `⌊log2(255/rest)⌋`, computed exactly, is an allowed step
(so the `assert` cannot fail) for every `0 < rest ≤ 255` -/
theorem choice_allowed (E r : Nat) (h0 : 0 < r) (h255 : r ≤ 255 * 2 ^ E) :
    Allowed E r (dChoice E r) := dChoice_allowed E r h0 h255

/-- `progress`: after an allowed step `rest = n/2^d + rest'` exactly, `rest' < 2^-d`, the scaled
remainder strictly decreases (the termination measure of `expand`) and `127·rest' < rest`
(so the loop runs O(log(rest/tol)) times). -/
theorem progress (E r d : Nat) (hr : 0 < r) (ha : Allowed E r d) :
    (val E r : K) = stepVal (numer E r d, d) + val E (restAfter E r d) ∧
    (val E (restAfter E r d) : K) < 1 / 2 ^ d ∧
    restAfter E r d < r ∧ 127 * restAfter E r d < r := by
  refine ⟨step_val E r d, restAfter_val_lt E r d,
    restAfter_lt E r d hr (by have := ha.1; omega), ?_⟩
  have h1 := restAfter_mul_lt E r d
  have h2 : 127 * 2 ^ E ≤ r * 2 ^ d :=
    Nat.le_trans (Nat.mul_le_mul_right _ ha.1) (numer_mul_le E r d)
  have h3 : 127 * restAfter E r d * 2 ^ d < r * 2 ^ d := by
    have : 127 * restAfter E r d * 2 ^ d = 127 * (restAfter E r d * 2 ^ d) := by ring
    omega
  exact Nat.lt_of_mul_lt_mul_right h3

/-- termination + no assertion failure: the executable loop (a fuel-free well-founded recursion
on the remainder, see `Model/Angle.expand`) returns a list for every `rest ≤ 255`, every `tol` -/
theorem expand_isSome (E t : Nat) : ∀ r, r ≤ 255 * 2 ^ E → (expand E t r).isSome = true := by
  intro r
  induction r using Nat.strong_induction_on with
  | _ r ih =>
    intro h255
    rw [expand]
    split
    · rename_i h
      have ha := dChoice_allowed E r (by omega) h255
      rw [dif_pos ha]
      have hlt := restAfter_lt E r (dChoice E r) (by omega) (by have := ha.1; omega)
      have := ih _ hlt (by omega)
      cases hx : expand E t (restAfter E r (dChoice E r)) with
      | none => rw [hx] at this; cases this
      | some l => rfl
    · rfl

/-- the executable loop is one run of the relation -/
theorem expand_run (E t : Nat) : ∀ r l, expand E t r = some l → ∃ r', Run E t r l r' := by
  intro r
  induction r using Nat.strong_induction_on with
  | _ r ih =>
    intro l hl
    rw [expand] at hl
    split at hl
    · rename_i h
      split at hl
      · rename_i ha
        have hlt := restAfter_lt E r (dChoice E r) (by omega) (by have := ha.1; omega)
        cases hx : expand E t (restAfter E r (dChoice E r)) with
        | none => rw [hx] at hl; cases hl
        | some l' =>
          rw [hx] at hl
          obtain ⟨r', hr'⟩ := ih _ hlt l' hx
          injection hl with hl
          subst hl
          exact ⟨r', Run.step r _ l' r' h ha hr'⟩
      · cases hl
    · injection hl with hl
      subst hl
      exact ⟨r, Run.done r (by omega)⟩

/-- `sum_inv`: `rest₀ = Σ nᵢ/2^dᵢ + rest` along every run, and on exit `rest ≤ tol_pi`. -/
theorem sum_inv (E t r r' : Nat) (steps : List (Nat × Nat)) (h : Run E t r steps r') :
    (val E r : K) = sumVal steps + val E r' ∧ r' ≤ t := by
  induction h with
  | done r h => exact ⟨by simp [sumVal], h⟩
  | step r d steps r' _ _ _ ih =>
    refine ⟨?_, ih.2⟩
    rw [sumVal_cons, step_val (K := K) E r d, ih.1]; ring

/-- every raw step of a run comes from an allowed choice at some remainder `r₁ ≤ r` above tol -/
theorem run_steps (E t r r' : Nat) (steps : List (Nat × Nat)) (h : Run E t r steps r') :
    ∀ p ∈ steps, ∃ r₁, t < r₁ ∧ r₁ ≤ r ∧ Allowed E r₁ p.2 ∧ p.1 = numer E r₁ p.2 := by
  induction h with
  | done r h => intro p hp; cases hp
  | step r d steps r' hr ha _ ih =>
    intro p hp
    rcases List.mem_cons.mp hp with rfl | hp
    · exact ⟨r, hr, Nat.le_refl r, ha, rfl⟩
    · obtain ⟨r₁, h1, h2, h3, h4⟩ := ih p hp
      have := restAfter_lt E r d (by omega) (by have := ha.1; omega)
      exact ⟨r₁, h1, by omega, h3, h4⟩

/-- `simplify_sound`: halving keeps the value, never increases n or d, never produces a negative
exponent (`d' : Nat`, the loop stops at 0), keeps n positive, and ends odd or at `d' = 0`. -/
theorem simplify_sound (n d : Nat) :
    (stepVal (simplify n d) : K) = stepVal (n, d) ∧ (simplify n d).1 ≤ n ∧ (simplify n d).2 ≤ d ∧
    (0 < n → 0 < (simplify n d).1) ∧ ((simplify n d).1 % 2 = 1 ∨ (simplify n d).2 = 0) :=
  ⟨simplify_val d n, simplify_fst_le d n, simplify_snd_le d n, simplify_pos d n, simplify_normal d n⟩

/-- every returned `(n, d)` fits the two 8-bit instruction fields, with `n ≥ 1` — for EVERY run,
every tolerance (the filter drops what does not fit). -/
theorem fields_fit (E t r r' : Nat) (steps : List (Nat × Nat)) (h : Run E t r steps r') :
    ∀ p ∈ finish steps, 1 ≤ p.1 ∧ p.1 ≤ 255 ∧ p.2 ≤ 255 := by
  intro p hp
  unfold finish at hp
  obtain ⟨hp1, hk⟩ := List.mem_filter.mp hp
  obtain ⟨q, hq, rfl⟩ := List.mem_map.mp hp1
  obtain ⟨r₁, _, _, ha, hn⟩ := run_steps E t r r' steps h q hq
  have hle := simplify_fst_le q.2 q.1
  have hpos := simplify_pos q.2 q.1 (by rw [hn]; have := ha.1; omega)
  have h255 : q.1 ≤ 255 := by rw [hn]; exact ha.2
  refine ⟨hpos, by omega, ?_⟩
  simpa [keep] using hk

/-- when `tol_pi ≥ 2^-247` (the property asks for tol ≥ 1e-9) the filter drops nothing -/
theorem finish_keeps_all (E t r r' : Nat) (steps : List (Nat × Nat)) (h : Run E t r steps r')
    (ht : 2 ^ E ≤ t * 2 ^ 247) :
    finish steps = steps.map (fun p => simplify p.1 p.2) := by
  unfold finish
  apply List.filter_eq_self.mpr
  intro p hp
  obtain ⟨q, hq, rfl⟩ := List.mem_map.mp hp
  obtain ⟨r₁, h1, _, ha, _⟩ := run_steps E t r r' steps h q hq
  have hd := allowed_d_le E t r₁ q.2 ht h1 ha
  have := simplify_snd_le q.2 q.1
  simp only [keep, decide_eq_true_eq]
  omega

theorem sumVal_map_simplify (steps : List (Nat × Nat)) :
    (sumVal (steps.map (fun p => simplify p.1 p.2)) : K) = sumVal steps := by
  induction steps with
  | nil => rfl
  | cons p l ih =>
    rw [List.map_cons, sumVal_cons, sumVal_cons, ih, simplify_val]

/-- `result_within` (units of π): for every run of the loop — whatever allowed exponents were
picked — with `tol_pi ≥ 2^-247`, the returned list under-approximates `rest` by at most `tol_pi`,
and all its entries fit the 8-bit fields. -/
theorem result_within (E t r r' : Nat) (steps : List (Nat × Nat)) (h : Run E t r steps r')
    (ht : 2 ^ E ≤ t * 2 ^ 247) :
    (0 : K) ≤ val E r - sumVal (finish steps) ∧ (val E r : K) - sumVal (finish steps) ≤ val E t ∧
    ∀ p ∈ finish steps, 1 ≤ p.1 ∧ p.1 ≤ 255 ∧ p.2 ≤ 255 := by
  have hs := sum_inv (K := K) E t r r' steps h
  rw [finish_keeps_all E t r r' steps h ht, sumVal_map_simplify]
  refine ⟨?_, ?_, ?_⟩
  · rw [hs.1]; have := val_nonneg (K := K) E r'; linarith
  · rw [hs.1]; have := val_le_val (K := K) E r' t hs.2; linarith
  · have := fields_fit E t r r' steps h
    rwa [finish_keeps_all E t r r' steps h ht] at this

/-- `result_within` in radians: with any positive `π`, the rotation angles `nᵢ·π/2^dᵢ` add up to
`rest·π` within `tol_pi·π` (= the stated tolerance up to the rounding of `tol / π`). -/
theorem result_within_radians (E t r r' : Nat) (steps : List (Nat × Nat)) (h : Run E t r steps r')
    (ht : 2 ^ E ≤ t * 2 ^ 247) (π : K) (hπ : 0 < π) :
    |(val E r : K) * π - sumVal (finish steps) * π| ≤ val E t * π := by
  obtain ⟨h0, h1, _⟩ := result_within (K := K) E t r r' steps h ht
  have e : (val E r : K) * π - sumVal (finish steps) * π = (val E r - sumVal (finish steps)) * π := by
    ring
  rw [e, abs_of_nonneg (mul_nonneg h0 (le_of_lt hπ))]
  exact mul_le_mul_of_nonneg_right h1 (le_of_lt hπ)

/-- the function the driver runs (`spec`) satisfies all of the above -/
theorem spec_within (E t r : Nat) (l : List (Nat × Nat)) (hs : spec E t r = some l)
    (ht : 2 ^ E ≤ t * 2 ^ 247) :
    (0 : K) ≤ val E r - sumVal l ∧ (val E r : K) - sumVal l ≤ val E t ∧
    ∀ p ∈ l, 1 ≤ p.1 ∧ p.1 ≤ 255 ∧ p.2 ≤ 255 := by
  unfold spec at hs
  cases hx : expand E t r with
  | none => rw [hx] at hs; cases hs
  | some steps =>
    rw [hx] at hs
    injection hs with hs
    subst hs
    obtain ⟨r', hr'⟩ := expand_run E t r steps hx
    exact result_within E t r r' steps hr' ht

theorem finish_cons (p : Nat × Nat) (l : List (Nat × Nat)) :
    finish (p :: l) = if keep (simplify p.1 p.2) then simplify p.1 p.2 :: finish l else finish l := by
  unfold finish
  rw [List.map_cons, List.filter_cons]

/-- soundness of the correspondence checker: a list it accepts is the output of some run of the
relation (so the real function's output, once accepted, enjoys `result_within`). -/
theorem accepts_sound (E t : Nat) : ∀ fuel r target, accepts E t fuel r target = true →
    ∃ steps r', Run E t r steps r' ∧ finish steps = target := by
  intro fuel
  induction fuel with
  | zero => intro r target h; simp [accepts] at h
  | succ fuel ih =>
    intro r target h
    unfold accepts at h
    split at h
    · rename_i hr
      obtain ⟨d, _, hd⟩ := List.any_eq_true.mp h
      rw [Bool.and_eq_true] at hd
      obtain ⟨ha, hd⟩ := hd
      have ha : Allowed E r d := of_decide_eq_true ha
      split at hd
      · rename_i hk
        cases target with
        | nil => cases hd
        | cons q qs =>
          simp only [Bool.and_eq_true, beq_iff_eq] at hd
          obtain ⟨hq, hrec⟩ := hd
          obtain ⟨steps, r', hrun, hfin⟩ := ih _ _ hrec
          refine ⟨(numer E r d, d) :: steps, r', Run.step r d steps r' hr ha hrun, ?_⟩
          rw [finish_cons, if_pos hk, hfin, hq]
      · rename_i hk
        obtain ⟨steps, r', hrun, hfin⟩ := ih _ _ hd
        refine ⟨(numer E r d, d) :: steps, r', Run.step r d steps r' hr ha hrun, ?_⟩
        rw [finish_cons, if_neg hk, hfin]
    · rename_i hr
      have : target = [] := by simpa using h
      subst this
      exact ⟨[], r, Run.done r (by omega), rfl⟩

/-! ### The three floating-point operations before the loop, with an explicit error term

`A` = the requested angle, `π` = the real number, `P = fl(π)` (`np.pi`), `a' = A % (2P)` (Python's float `%`:
`fmod` is exact, `a' = A − kk·2P` for an integer `kk`, but for a negative `A` the divisor is added back with one
rounding — hence an absolute error ≤ u·2P; integrality of `kk` is not needed for the bound), `rest = fl(a'/P)`,
`tolπ = fl(tol/P)`, `u = 2^-53` the unit round-off.  The hypotheses are the standard model of IEEE-754
round-to-nearest for one division each (relative error ≤ u, plus the absolute underflow term `η ≤ u·P`
for denormal quotients) and for the constant `np.pi`; the harness
re-checks every one of them, with exact rationals, on every case of the stream. -/

theorem float_error_bound (A π P a' kk rest S tolπ tol u : K)
    (hπ : 0 < π) (hu : 0 ≤ u) (hu4 : u ≤ 1 / 4)
    (hP1 : π * (1 - u) ≤ P) (hP2 : P ≤ π * (1 + u))
    (hmod1 : A - kk * (2 * P) - a' ≤ u * (2 * P)) (hmod2 : a' - (A - kk * (2 * P)) ≤ u * (2 * P))
    (_ha0 : 0 ≤ a') (ha2 : a' ≤ 2 * P)
    (η : K) (hη : η ≤ u * P)
    (hdiv1 : rest * P - a' ≤ u * a' + η) (hdiv2 : a' - rest * P ≤ u * a' + η)
    (htol : tolπ * P ≤ tol * (1 + u))
    (hD0 : 0 ≤ rest - S) (hD1 : rest - S ≤ tolπ) (hrest0 : 0 ≤ rest) :
    |A - kk * (2 * π) - S * π| ≤ tol * (1 + 4 * u) + 8 * π * u * (1 + u) + 2 * |kk| * u * π := by
  have h1u : 0 < 1 - u := by linarith
  have hPpos : 0 < P := lt_of_lt_of_le (mul_pos hπ h1u) hP1
  have huπ : 0 ≤ u * π := mul_nonneg hu (le_of_lt hπ)
  -- rest ≤ 2 (1 + u)
  have hua2 : u * a' ≤ u * (2 * P) := mul_le_mul_of_nonneg_left ha2 hu
  have hηπ : η ≤ u * (π * (1 + u)) := le_trans hη (mul_le_mul_of_nonneg_left hP2 hu)
  have hrest2 : rest ≤ 2 + 3 * u := by
    have h : rest * P ≤ (2 + 3 * u) * P := by
      have : (2 + 3 * u) * P = 2 * P + u * (2 * P) + u * P := by ring
      linarith
    exact le_of_mul_le_mul_right h hPpos
  have ha2π : a' ≤ 2 * (π * (1 + u)) := by linarith
  -- T1 = a' - rest π
  have hr1 : rest * (P - π) ≤ rest * (u * π) := mul_le_mul_of_nonneg_left (by linarith) hrest0
  have hr2 : rest * (π - P) ≤ rest * (u * π) := mul_le_mul_of_nonneg_left (by linarith) hrest0
  have hr3 : rest * (u * π) ≤ (2 + 3 * u) * (u * π) := mul_le_mul_of_nonneg_right hrest2 huπ
  have hua : u * a' ≤ u * (2 * (π * (1 + u))) := mul_le_mul_of_nonneg_left ha2π hu
  have hT1u : a' - rest * π ≤ 6 * π * u * (1 + u) := by
    have : a' - rest * π = (a' - rest * P) + rest * (P - π) := by ring
    rw [this]; nlinarith
  have hT1l : -(6 * π * u * (1 + u)) ≤ a' - rest * π := by
    have : a' - rest * π = (a' - rest * P) - rest * (π - P) := by ring
    rw [this]; nlinarith
  -- T2 = (rest - S) π
  have htp0 : 0 ≤ tolπ := le_trans hD0 hD1
  have hT2a : (rest - S) * π ≤ tolπ * π := mul_le_mul_of_nonneg_right hD1 (le_of_lt hπ)
  have hT2b : tolπ * π ≤ tol * (1 + 4 * u) := by
    have h1 : tolπ * (π * (1 - u)) ≤ tolπ * P := mul_le_mul_of_nonneg_left hP1 htp0
    have htol0 : 0 ≤ tol := by
      have : 0 ≤ tolπ * P := mul_nonneg htp0 (le_of_lt hPpos)
      have h2 : 0 ≤ tol * (1 + u) := le_trans this htol
      have : 0 < 1 + u := by linarith
      by_contra hneg
      have : tol * (1 + u) < 0 := mul_neg_of_neg_of_pos (lt_of_not_ge hneg) this
      linarith
    have h3 : tol * (1 + u) ≤ tol * ((1 + 4 * u) * (1 - u)) := by
      apply mul_le_mul_of_nonneg_left _ htol0
      nlinarith
    have h4 : (tolπ * π) * (1 - u) ≤ (tol * (1 + 4 * u)) * (1 - u) := by
      have e1 : (tolπ * π) * (1 - u) = tolπ * (π * (1 - u)) := by ring
      have e2 : (tol * (1 + 4 * u)) * (1 - u) = tol * ((1 + 4 * u) * (1 - u)) := by ring
      rw [e1, e2]; linarith
    exact le_of_mul_le_mul_right h4 h1u
  have hT2l : 0 ≤ (rest - S) * π := mul_nonneg hD0 (le_of_lt hπ)
  -- T3 = 2 kk (P - π)
  have hT3 : |kk * (2 * (P - π))| ≤ 2 * |kk| * u * π := by
    rw [abs_mul, abs_mul]
    have hp : |P - π| ≤ u * π := abs_le.mpr ⟨by linarith, by linarith⟩
    have : |kk| * (|(2 : K)| * |P - π|) ≤ |kk| * (2 * (u * π)) := by
      apply mul_le_mul_of_nonneg_left _ (abs_nonneg kk)
      rw [abs_of_pos (by norm_num : (0 : K) < 2)]
      linarith
    linarith
  have hX : A - kk * (2 * π) - S * π =
      (A - kk * (2 * P) - a') + (a' - rest * π) + (rest - S) * π + kk * (2 * (P - π)) := by ring
  have hT0 : u * (2 * P) ≤ 2 * π * u * (1 + u) := by
    have : u * (2 * P) ≤ u * (2 * (π * (1 + u))) := mul_le_mul_of_nonneg_left (by linarith) hu
    linarith
  rw [hX]
  have hT3' := abs_le.mp hT3
  rw [abs_le]
  constructor
  · have htol4 : 0 ≤ tol * (1 + 4 * u) := le_trans (le_trans hT2l hT2a) hT2b
    linarith [hT3'.1]
  · linarith [hT3'.2]


/-- `result_within_float`: for every run of the loop, the emitted/returned steps approximate the
REQUESTED angle `A` modulo `2π` within `tol·(1+4u) + 8πu(1+u) + 2|kk|uπ` radians — the stated tolerance
plus an explicit bound on the three roundings (`|kk| ≈ |A|/2π` periods removed by the float `%`). -/
theorem result_within_float (E t r r' : Nat) (steps : List (Nat × Nat)) (h : Run E t r steps r')
    (ht : 2 ^ E ≤ t * 2 ^ 247) (A π P a' kk tol u : K)
    (hπ : 0 < π) (hu : 0 ≤ u) (hu4 : u ≤ 1 / 4)
    (hP1 : π * (1 - u) ≤ P) (hP2 : P ≤ π * (1 + u))
    (hmod1 : A - kk * (2 * P) - a' ≤ u * (2 * P)) (hmod2 : a' - (A - kk * (2 * P)) ≤ u * (2 * P))
    (ha0 : 0 ≤ a') (ha2 : a' ≤ 2 * P)
    (η : K) (hη : η ≤ u * P)
    (hdiv1 : val E r * P - a' ≤ u * a' + η) (hdiv2 : a' - val E r * P ≤ u * a' + η)
    (htol : val E t * P ≤ tol * (1 + u)) :
    |A - kk * (2 * π) - sumVal (finish steps) * π| ≤
      tol * (1 + 4 * u) + 8 * π * u * (1 + u) + 2 * |kk| * u * π := by
  obtain ⟨h0, h1, _⟩ := result_within (K := K) E t r r' steps h ht
  exact float_error_bound A π P a' kk (val E r) (sumVal (finish steps)) (val E t) tol u hπ hu hu4 hP1 hP2
    hmod1 hmod2 ha0 ha2 η hη hdiv1 hdiv2 htol h0 h1 (val_nonneg E r)

/-! ### The builder path emits exactly the steps -/

/-- the rotation instructions the builder emits carry exactly the steps, in order (one instruction per
step, nothing dropped, nothing added) -/
theorem emitted_operands (axis vq : Nat) (steps : List (Nat × Nat)) :
    rotOperands axis (emitRot axis vq steps) = steps := by
  induction steps with
  | nil => rfl
  | cons p l ih =>
    have : emitRot axis vq (p :: l) = [Cmd.setQ 0 vq, Cmd.rot axis 0 p.1 p.2] ++ emitRot axis vq l := by
      simp [emitRot]
    rw [this]
    unfold rotOperands at ih ⊢
    rw [List.filterMap_append, ih]
    simp

/-- `emitted_within`: the (n, d) operands of the rotation instructions EMITTED by
`q.rot_X/Y/Z(angle=…)` under-approximate `rest` by at most `tol_pi` and fit the 8-bit fields. -/
theorem emitted_within (axis vq E t r : Nat) (cmds : List Cmd) (hs : emitSpec axis vq E t r = some cmds)
    (ht : 2 ^ E ≤ t * 2 ^ 247) :
    (0 : K) ≤ val E r - sumVal (rotOperands axis cmds) ∧
    (val E r : K) - sumVal (rotOperands axis cmds) ≤ val E t ∧
    ∀ p ∈ rotOperands axis cmds, 1 ≤ p.1 ∧ p.1 ≤ 255 ∧ p.2 ≤ 255 := by
  unfold emitSpec at hs
  cases hx : spec E t r with
  | none => rw [hx] at hs; cases hs
  | some l =>
    rw [hx] at hs
    injection hs with hs
    subst hs
    rw [emitted_operands]
    exact spec_within E t r l hx ht

/-! ### Sequences of rotation calls

`q.rot_A(...)` called several times appends, call after call, the commands of each call and nothing else: the
emitted steps of a SEQUENCE of calls are the CONCATENATION of the per-call steps (this is the model property the
`angle.sequence` stream ties to the real builder; a peephole that merged or rewrote neighbouring rotations would
break it), hence the total rotation of a same-axis run is the sum of the per-call totals. -/

theorem rotOperands_append (axis : Nat) (a b : List Cmd) :
    rotOperands axis (a ++ b) = rotOperands axis a ++ rotOperands axis b := by
  unfold rotOperands; rw [List.filterMap_append]

theorem sumVal_append (a b : List (Nat × Nat)) : (sumVal (a ++ b) : K) = sumVal a + sumVal b := by
  unfold sumVal; rw [List.map_append, List.sum_append]

/-- `emitted_seq_operands`: the rotation instructions emitted for a sequence of calls about one axis carry exactly
the concatenation of the per-call step lists, in order -/
theorem emitted_seq_operands (axis vq : Nat) (calls : List (List (Nat × Nat))) :
    rotOperands axis (calls.flatMap (emitRot axis vq)) = calls.flatten := by
  induction calls with
  | nil => rfl
  | cons c cs ih =>
    rw [List.flatMap_cons, rotOperands_append, emitted_operands, ih, List.flatten_cons]

/-- `emitted_seq_within`: a run of calls `(E, t, r)` (exact loop inputs of each float angle) about one axis: the
total of all emitted steps under-approximates the SUM of the requested remainders by at most the SUM of the
tolerances, and every emitted step fits the 8-bit fields. -/
theorem emitted_seq_within (axis vq : Nat) (calls : List ((Nat × Nat × Nat) × List (Nat × Nat)))
    (hs : ∀ c ∈ calls, spec c.1.1 c.1.2.1 c.1.2.2 = some c.2 ∧ 2 ^ c.1.1 ≤ c.1.2.1 * 2 ^ 247) :
    let emitted := rotOperands axis ((calls.map (·.2)).flatMap (emitRot axis vq))
    (0 : K) ≤ (calls.map (fun c => (val c.1.1 c.1.2.2 : K))).sum - sumVal emitted ∧
    (calls.map (fun c => (val c.1.1 c.1.2.2 : K))).sum - sumVal emitted ≤ (calls.map (fun c => (val c.1.1 c.1.2.1 : K))).sum ∧
    ∀ p ∈ emitted, 1 ≤ p.1 ∧ p.1 ≤ 255 ∧ p.2 ≤ 255 := by
  simp only [emitted_seq_operands]
  induction calls with
  | nil => simp [sumVal]
  | cons c cs ih =>
    have hc := hs c List.mem_cons_self
    have hcs := ih (fun x hx => hs x (List.mem_cons_of_mem _ hx))
    obtain ⟨h0, h1, h2⟩ := spec_within (K := K) c.1.1 c.1.2.1 c.1.2.2 c.2 hc.1 hc.2
    obtain ⟨g0, g1, g2⟩ := hcs
    simp only [List.map_cons, List.sum_cons, List.flatten_cons, sumVal_append]
    refine ⟨by linarith, by linarith, ?_⟩
    intro p hp
    rcases List.mem_append.mp hp with hp | hp
    · exact h2 p hp
    · exact g2 p hp

/-! ### Consecutive rotations about one axis compose to one rotation by the sum

A rotation about axis `a` by θ is `cos(θ/2)·1 − sin(θ/2)·J` with `J = i·σ_a`, `J² = −1`; everything
lives in the commutative algebra generated by `J`.  `addPair` is the angle-addition law on
(cos, sin) pairs (standard trigonometry, not re-proved: `addPair (cos α, sin α) (cos β, sin β) =
(cos (α+β), sin (α+β))`). -/

section Rot
variable {A : Type} [CommRing A]

def addPair (a b : A × A) : A × A := (a.1 * b.1 - a.2 * b.2, a.2 * b.1 + a.1 * b.2)
def rotOf (J : A) (a : A × A) : A := a.1 - a.2 * J

theorem rotation_pair (J : A) (hJ : J * J = -1) (a b : A × A) :
    rotOf J a * rotOf J b = rotOf J (addPair a b) := by
  unfold rotOf addPair
  linear_combination (a.2 * b.2) * hJ

/-- `rotation_sum`: the product of the emitted rotations is the single rotation whose
(cos, sin) pair is the fold of the angle-addition law over the list. -/
theorem rotation_sum (J : A) (hJ : J * J = -1) (l : List (A × A)) :
    (l.map (rotOf J)).prod = rotOf J (l.foldr addPair (1, 0)) := by
  induction l with
  | nil => simp [rotOf]
  | cons a l ih => rw [List.map_cons, List.prod_cons, ih, List.foldr_cons, rotation_pair J hJ]

end Rot

/-! ### Non-vacuity -/

/-- a concrete run: rest = 20/16 = 1.25, tol_pi = 1/16: one step (160, 7) → simplified (5, 2) -/
example : Run 4 1 20 [(160, 7)] 0 ∧ finish [(160, 7)] = [(5, 2)] ∧ 2 ^ 4 ≤ 1 * 2 ^ 247 :=
  ⟨Run.step 20 7 [] 0 (by decide) (by decide) (Run.done 0 (by decide)), by decide, by norm_num⟩

/-- a two-step run with a remainder above zero: rest = 1333/1024, tol_pi = 3/1024 -/
example : Run 10 3 1333 [(166, 7), (160, 15)] 0 :=
  Run.step 1333 7 [(160, 15)] 0 (by decide) (by decide)
    (Run.step (E := 10) (t := 3) 5 15 [] 0 (by decide) (by decide)
      (Run.done (E := 10) (t := 3) 0 (by decide)))

/-- the two choices near a power of two: rest = 255/128 allows d = 6 (n = 127) and d = 7 (n = 255) -/
example : Allowed 7 255 6 ∧ Allowed 7 255 7 ∧ numer 7 255 6 = 127 ∧ numer 7 255 7 = 255 := by decide

/-- F19b shape: rest = 2 gives the raw step (128, 6) and the fixed simplification stops at (2, 0) -/
example : Allowed 0 2 6 ∧ numer 0 2 6 = 128 ∧ simplify 128 6 = (2, 0) := by decide

/-- `rotation_sum` instance: two quarter turns in ℤ[i]-like arithmetic (J = i in ℤ × ℤ is not
needed: in ℤ with J any square root of −1 the hypothesis is unsatisfiable, so use pairs) -/
example : addPair ((0 : Int), (1 : Int)) (0, 1) = (-1, 0) := by decide

end NQ.C19
