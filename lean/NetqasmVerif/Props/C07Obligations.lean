/-
Kernel-decided obligations about the NV expansions generated from the live transpiler
(light ones; the 2- and 3-qubit circuit identities are in C07OblCnot / C07OblCphase so that
each is decided once and in parallel).
-/
import NetqasmVerif.Model.NvDecomp
import NetqasmVerif.Gen.NvDecomp
namespace NQ.C07.Obl
open NQ NQ.NV

/-- every single-qubit expansion (electron or carbon) equals its vanilla gate up to a scalar -/
theorem single_ok : Gen.nvSingle.all (fun e => singleOk e.1 e.2.2) = true := by decide +kernel

/-- all seven fixed gates are present, for the electron and for carbons -/
theorem single_cover :
    [GName.x, .y, .z, .h, .k, .s, .t].all (fun g =>
      Gen.nvSingle.any (fun e => e.1 == g && e.2.1 == 0) &&
      Gen.nvSingle.any (fun e => e.1 == g && e.2.1 != 0)) = true := by decide +kernel

/-- the sampled id pairs produce the representative sequence of their placement -/
theorem two_ids_only_through_zero : idsOnlyThroughZero Gen.nvTwo = true := by decide +kernel

/-- `debug=True` changes nothing but the (non-serialised) markers -/
theorem two_debug_same : (Gen.nvTwoDebug == Gen.nvTwo) = true := by decide +kernel

/-- MOV both directions: state transfer onto a |0⟩ target, for every sampled id pair -/
theorem mov_ok : Gen.nvMov.all (fun e => movOk e.1 e.2.1 e.2.2) = true := by decide +kernel

theorem mov_cover :
    (Gen.nvMov.any (fun e => e.1 == 0) && Gen.nvMov.any (fun e => e.2.1 == 0)) = true := by
  decide +kernel

/-- unknown register values: the electron → carbon circuit is emitted -/
theorem mov_unknown_is_ec :
    Gen.nvMov.any (fun e => e.1 == 0 && e.2.2 == Gen.nvMovUnknown) = true := by decide +kernel

/-- carbon → carbon MOV is rejected -/
theorem mov_cc_rejected :
    Gen.nvMovCarbonCarbon.all (fun e => e.2.2 && movRoles e.1 e.2.1 == none) = true := by
  decide +kernel

/-- sampled rotations agree with the model `nvRot` in both modes -/
theorem rot_samples_ok :
    (Gen.nvRotSim.all (fun e => nvRot false e.1 e.2.1 e.2.2.1 == some e.2.2.2) &&
     Gen.nvRotHw.all (fun e => nvRot true e.1 e.2.1 e.2.2.1 == e.2.2.2)) = true := by decide +kernel

end NQ.C07.Obl
