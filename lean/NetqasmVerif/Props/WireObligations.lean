/-
Kernel-decided obligations about the data generated from /repo's instruction
classes (shared by C01, C02, C16, C17 so that they are decided once per build).
-/
import NetqasmVerif.Model.Probe
import NetqasmVerif.Gen.InstrTable
namespace NQ.Wire
open NQ

/-- the model codec reproduces every single-bit probe (encode and decode) and the
all-zero encoding of every real instruction class -/
theorem probes_match : Gen.probes.all probeOk = true := by decide +kernel

/-- every class of every flavour was probed -/
theorem probes_cover :
    (Gen.vanillaRows ++ Gen.nvRows ++ Gen.reidsRows).all
      (fun r => Gen.probes.any (fun p => p.row == r)) = true := by decide +kernel

/-- every shape fits the six operand bytes and every opcode one byte -/
theorem shapes_fit :
    (Gen.vanillaRows ++ Gen.nvRows ++ Gen.reidsRows).all
      (fun r => decide (shapeSize r.shape ≤ 6) && decide (r.opcode < 256)) = true := by decide +kernel

end NQ.Wire
