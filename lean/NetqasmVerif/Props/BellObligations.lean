/-
Kernel-decided obligations about the data generated from /repo for C10
(`Gen/Corrections.lean`): Bell numbering, Bell value → rotations, measurement
bases, the post-processing table. Kept in their own module so that they are
re-decided only when the generated data changes.
-/
import NetqasmVerif.Gen.Corrections
namespace NQ.BellObl
open NQ NQ.Bell

abbrev nb : Numbering := Gen.bellNumbering

/-- the rotations the emitted single-pair block performs for Bell state `b` -/
def corrGates (b : BellSt) : List Gate := Gen.singlePair.gates (nb.value b)

/-- `(C_b ⊗ 1)|b⟩` (side 0) resp. `(1 ⊗ C_b)|b⟩` (side 1) is a unit multiple of `|Φ⁺⟩` -/
def fixes (side : Nat) (b : BellSt) : Bool :=
  match gatesMat (corrGates b) with
  | some m => unitMultiple (applyLocal side m b.vec) BellSt.phiPlus.vec
  | none => false

theorem numbering_injective : nb.injective = true := by decide +kernel

theorem fixes_all : BellSt.all.all (fun b => fixes 0 b && fixes 1 b) = true := by decide +kernel

/-- sharpness: without its correction none of the three other Bell vectors is a multiple of Φ⁺,
and the wrong correction does not repair it either -/
theorem uncorrected_differ :
    [BellSt.phiMinus, .psiPlus, .psiMinus].all
      (fun b => !unitMultiple b.vec BellSt.phiPlus.vec) = true := by decide +kernel

theorem wrong_correction_fails :
    (match gatesMat (corrGates .psiPlus) with
     | some m => unitMultiple (applyLocal 0 m BellSt.psiMinus.vec) BellSt.phiPlus.vec
     | none => true) = false := by decide +kernel

/-! ### measurement bases -/

/-- hand-written reading of the `EprMeasBasis` names: axis and sign of the observable -/
def axisOfName : String → Option (Axis × Bool)
  | "X" => some (.x, false)
  | "Y" => some (.y, false)
  | "Z" => some (.z, false)
  | "MX" => some (.x, true)
  | "MY" => some (.y, true)
  | "MZ" => some (.z, true)
  | _ => none

/-- rotations `(a, b, c)` in units of π/16: X-rotation by a, then Y by b, then X by c -/
def preMeasure (r : Nat × Nat × Nat) : Option Mat :=
  gatesMat [⟨.x, r.1, 4⟩, ⟨.y, r.2.1, 4⟩, ⟨.x, r.2.2, 4⟩]

/-- the observable measured when `U` is applied before a Z measurement: `U† Z U` (un-normalised) -/
def observable (r : Nat × Nat × Nat) : Option Mat :=
  (preMeasure r).map (fun u => matMul (dagger u) (matMul pauliZ u))

def basisOk (row : String × (Nat × Nat × Nat) × Option String) : Bool :=
  match axisOfName row.1, observable row.2.1 with
  | some (ax, neg), some o =>
    row.2.2 == some row.1 &&
      [1, 2, 4, 8].any (fun (k : Int) => o == smulMat (GI.ofInt (if neg then -k else k)) ax.pauli)
  | _, _ => false

/-- each named basis: `rotation_to_basis (basis_to_rotation B) = B` and the rotation triple turns the
Z measurement into a measurement of the Pauli observable its name says (sign included) -/
theorem named_bases : (Gen.bases.all basisOk && Gen.bases.length == 6) = true := by decide +kernel

/-! ### post-processing of measure-directly outcomes -/

/-- a table row is right when flipping the raw local outcome exactly compensates the difference
between the outcome parity of `b` and the outcome parity of `Φ⁺` in that basis:
`(post ⊕ raw) = parity_b(B) ⊕ parity_Φ⁺(B)` — so that `post ⊕ remote = parity_Φ⁺(B)`. -/
def rowOk (row : Int × String × Nat × Option Nat) : Bool :=
  match nb.ofValue row.1, axisOfName row.2.1, row.2.2.2 with
  | some b, some (ax, _), some o =>
    match parityBit b ax.pauli, parityBit .phiPlus ax.pauli with
    | some pb, some pp => (o + row.2.2.1) % 2 == (pb + pp) % 2 && decide (o < 2)
    | _, _ => false
  | _, _, _ => false

theorem post_table_ok : Gen.postTable.all rowOk = true := by decide +kernel

def allCombos : List (Int × String × Nat) :=
  BellSt.all.flatMap (fun b => ["X", "Y", "Z", "MX", "MY", "MZ"].flatMap
    (fun nm => [0, 1].map (fun raw => (nb.value b, nm, raw))))

/-- every Bell state × named basis × raw outcome occurs in the table -/
theorem post_table_complete :
    (allCombos.all (fun c => Gen.postTable.any (fun r => r.1 == c.1 && r.2.1 == c.2.1 && r.2.2.1 == c.2.2))
      && Gen.postTable.length == 48) = true := by decide +kernel

/-- with `post_process = False` the outcome is the raw outcome -/
theorem post_off_identity : Gen.postOffTable.all (fun r => r.2.2.2 == some r.2.2.1) = true := by
  decide +kernel

/-- some rows do flip (the table is not the identity) -/
theorem post_table_flips : Gen.postTable.any (fun r => r.2.2.2 != some r.2.2.1) = true := by
  decide +kernel

/-- unequal named bases and unnamed rotation triples raise instead of returning an outcome -/
theorem unequal_unnamed_raise :
    (Gen.unequalNotRaising == 0 && Gen.unnamedNotRaising == 0 && Gen.unequalTried == 240
      && decide (Gen.unnamedTried > 0)) = true := by decide +kernel

/-- the paths that were repaired address the loaded id; the move-to-memory path addresses the
communication qubit 0 -/
theorem targets_of_paths :
    (Gen.targetPost == .loaded && Gen.targetPostNonSeq == .loaded && Gen.targetPostNV == .loaded
      && Gen.targetMove == .setZero) = true := by decide +kernel

/-! ### the recorded defect F14 on a concrete instance (executed by the kernel) -/

def lbl : LoopLabels := ⟨"LOOP", "LOOP_EXIT", "IF_EXIT", "IF_EXIT1", "IF_EXIT2", "LOOP1", "LOOP_EXIT1"⟩

/-- results array of two pairs with Bell states (Φ⁺, Ψ⁺); only the Bell entries matter -/
def res2 : List Int :=
  (List.replicate 9 0 ++ [nb.value .phiPlus]) ++ (List.replicate 9 0 ++ [nb.value .psiPlus])

def mem2 : Mem := fun a => if a = 1 then some [0, 1] else if a = 0 then some res2 else none

def traceOf (t : Target) : Option (List Ev) :=
  (runFuel (corrLoopCode t Gen.layout Gen.singlePair 0 1 2 3 4 lbl 2 1 0) mem2 400 ⟨0, fun _ => 0, []⟩).map
    (·.trace)

/-- `recv_keep(number=2)`, Bell states (Φ⁺, Ψ⁺), qubit ids [0, 1]: the loop with `set <reg> 0` rotates
virtual qubit 0; the loop that keeps the loaded id rotates virtual qubit 1 -/
theorem f14_witness :
    traceOf .setZero = some [Ev.rot ⟨.x, 16, 4⟩ 0] ∧ traceOf .loaded = some [Ev.rot ⟨.x, 16, 4⟩ 1] := by
  decide +kernel

/-! ### requested bases → rotations in the request -/

/-- one probe of the real `create_measure` / `create_rsp` / `create(tp=…)`: the rotations handed to the
builder and the six slots of the serialized request are those of the model -/
def probeOk (row : String × Option String × Option String × Rot × Rot × Rot × Rot × List Nat) : Bool :=
  match requestRots Gen.bases row.2.1 row.2.2.1 row.2.2.2.1 row.2.2.2.2.1 with
  | some (l, r) => row.2.2.2.2.2.1 == l && row.2.2.2.2.2.2.1 == r && row.2.2.2.2.2.2.2 == serRots l r
  | none => false

theorem rot_probes_ok : Gen.rotProbes.all probeOk = true := by decide +kernel

/-- the probes exercise the discriminating situations: remote basis not named with remote rotations
different from the local ones, and a name together with a (losing) tuple -/
theorem rot_probes_cover :
    (Gen.rotProbes.any (fun r => r.2.2.1 == none && r.2.2.2.2.1 != r.2.2.2.2.2.1 && r.2.2.2.2.1 != (0, 0, 0)) &&
     Gen.rotProbes.any (fun r => r.2.1 != none && r.2.2.2.1 != (0, 0, 0)) &&
     Gen.rotProbes.any (fun r => r.1 == "create_rsp") && Gen.rotProbes.any (fun r => r.1 == "create(tp=M)") &&
     decide (Gen.rotProbes.length ≥ 170)) = true := by decide +kernel

end NQ.BellObl
