/-
C14 — Compiling never runs out of registers because of finished operations.

Model: `Model/Sdk.lean` (`emit`, `flush`, `runProg` mirror the SDK builder / memory manager of
/repo WITH the `fix:` commits for F17: the temporary of a unary condition on a Future, the loop
register of `loop_until` and the temporary of its exit condition are released).
The tie to the code is the syntactic correspondence stream of `checks/c14.py` / `checks/c05.py`.

Proved here (all for arbitrary nesting, arbitrary `Mem`, no size bound):
* `balanced`            every completed operation leaves the set of active registers unchanged
* `flush_balanced`      so does a flush (array initialisation loops)
* `newReg_takes_one`    the only non-completed statement, `new_register`, takes exactly one register
* `sequence_compiles`   any sequence of completed operations, any length, any flush placement, never
                        fails with "could not find an available loop register" when each single
                        operation does not fail so from the initial register state
* `compiles_of_need`    an operation needs at most `need op` free registers (a function of the open
                        nesting only) — with `depth_bound`: `need op ≤ 1·depth op + (2 + fdepth op)`
* `long_run_compiles`   the two together: the closed form of the property statement
* `temps_disjoint`      a temporary / loop register is always taken from the inactive set: it differs
                        from every register that is active (live in an enclosing operation) and stays
                        reserved until it is released
* `temps_disjoint_code`  the same on the EMITTED commands: no command writes a register active at the start of
                        its operation except `RegFuture.add` on its own handle
* `balanced_epr`, `epr_forms_completed`, `epr_sequence_compiles`
                        EPR operations, abstracted to the register events recorded from the real builder
                        for every API form (Gen/EprRegs.lean): each form is balanced (kernel-decided) and
                        `balanced` / `sequence_compiles` cover programs containing them
* `f17_*`               regression witnesses of F17 on the fixed model (17 `if_ez`, 20 `loop_until`)
-/
import NetqasmVerif.Lemmas.Sdk
import NetqasmVerif.Lemmas.SdkWrites
import NetqasmVerif.Props.EprRegsObligations
import NetqasmVerif.Lemmas.SdkMeas
import NetqasmVerif.Lemmas.SdkSimFlush
namespace NQ.C14
open NQ.Sdk

/-- **balanced.** For every completed host operation and every memory-manager state, compiling the
operation leaves the active-register set exactly as it was. -/
theorem balanced (op : Host) (m m' : Mem) (cs : List PCmd)
    (hc : Completed op) (h : emit m op = .ok (m', cs)) : m'.active = m.active :=
  emit_active op m m' cs hc h

theorem flush_balanced (m m' : Mem) (pend : List PCmd) (sub : Option (List PCmd))
    (h : flush m pend = .ok (m', sub)) : m'.active = m.active := flush_active h

/-- `new_register` is the one statement that is meant to keep a register: exactly one. -/
theorem newReg_takes_one (m m' : Mem) (v : Int) (cs : List PCmd)
    (h : emit m (.newReg v) = .ok (m', cs)) :
    ∃ i, m.active.getD i true = false ∧ m'.active = m.active.set i true := emit_newReg_active h

/-- "`op` does not run out of registers when compiled from register state `a`" (whatever the rest
of the memory manager looks like). -/
def RegOk (a : List Bool) (op : Host) : Prop := ∀ m : Mem, m.active = a → NoReg (emit m op)

/-- **sequence_compiles.** A host program = any list of completed operations with flushes anywhere.
If each single operation compiles (register-wise) from the initial register state and one register
is free for the array-initialisation loop of a flush, then the whole program — whatever its length
and flush period — never raises "could not find an available loop register". -/
theorem sequence_compiles (p : List Top) :
    ∀ (m : Mem) (pend : List PCmd) (step : Nat) (acc : RunOut),
    0 < free m.active →
    (∀ op, Top.op op ∈ p → Completed op ∧ RegOk m.active op) →
    (∀ st, acc.err ≠ some (st, .noRegister)) →
    ∀ st, (runProg m pend step acc p).err ≠ some (st, .noRegister) := by
  induction p with
  | nil => intro m pend step acc _ _ hacc st; simpa [runProg] using hacc st
  | cons t rest ih =>
    intro m pend step acc hfree hops hacc st
    cases t with
    | op h =>
      have ⟨hc, hok⟩ := hops h (by simp)
      simp only [runProg]
      split
      · rename_i e he
        simp only
        intro hcontra
        simp only [Option.some.injEq, Prod.mk.injEq] at hcontra
        exact hok m rfl e he hcontra.2
      · rename_i m1 cs h1
        have a1 := emit_active h m m1 cs hc h1
        refine ih m1 _ _ _ (by rw [a1]; exact hfree) ?_ (by simpa using hacc) st
        intro op hmem
        rw [a1]
        exact hops op (by simp [hmem])
    | flush =>
      simp only [runProg]
      split
      · rename_i e he
        simp only
        intro hcontra
        simp only [Option.some.injEq, Prod.mk.injEq] at hcontra
        exact flush_noReg m pend hfree e he hcontra.2
      · rename_i m1 sub h1
        have a1 := flush_active h1
        refine ih m1 _ _ _ (by rw [a1]; exact hfree) ?_ (by simpa using hacc) st
        intro op hmem
        rw [a1]
        exact hops op (by simp [hmem])

/-- **compiles_of_need.** The registers an operation needs are a function `need` of the operation
alone (its open nesting): with that many free registers it never runs out. -/
theorem compiles_of_need (op : Host) (m : Mem) (hc : Completed op) (h : need op ≤ free m.active) :
    NoReg (emit m op) := emit_noReg op m hc h

/-! ### the constants of `depth_bound` -/

/-- nesting depth: number of enclosing loop-like operations (each holds one register) -/
def depth : Host → Nat
  | .seq a b => max (depth a) (depth b)
  | .ifc _ _ _ _ body => depth body
  | .loop _ _ _ _ body => 1 + depth body
  | .loopBody _ _ _ _ body => 1 + depth body
  | .foreach _ _ body => 1 + depth body
  | .loopUntil _ body _ _ cl => 1 + max (depth body) (depth cl)
  | .tryUntil _ body => depth body
  | _ => 0

def Val.fdepth : Val → Nat
  | .fut f => f.depth
  | _ => 0

/-- deepest future-indexed future mentioned anywhere in the operation -/
def fdepth : Host → Nat
  | .seq a b => max (fdepth a) (fdepth b)
  | .qop _ (.fut f) => f.depth
  | .addF f o _ => max f.depth (Val.fdepth o)
  | .addR _ o _ => Val.fdepth o
  | .ifc _ _ _ _ body => fdepth body
  | .loop _ _ _ _ body => fdepth body
  | .loopBody _ _ _ _ body => fdepth body
  | .foreach _ _ body => fdepth body
  | .loopUntil _ body _ _ cl => max (fdepth body) (fdepth cl)
  | .tryUntil _ body => fdepth body
  | _ => 0

/-- most registers held at once by an EPR operation inside `op` -/
def epeak : Host → Nat
  | .seq a b => max (epeak a) (epeak b)
  | .ifc _ _ _ _ body => epeak body
  | .loop _ _ _ _ body => epeak body
  | .loopBody _ _ _ _ body => epeak body
  | .foreach _ _ body => epeak body
  | .loopUntil _ body _ _ cl => max (epeak body) (epeak cl)
  | .tryUntil _ body => epeak body
  | .epr evs => peakEvs 0 evs
  | _ => 0

theorem tmp_le_one (v : Val) : v.tmp ≤ 1 := by cases v <;> simp [Val.tmp]
theorem addNeed_le (v : Val) : v.addNeed ≤ Val.fdepth v + 1 := by
  cases v <;> simp [Val.addNeed, Val.fdepth]

/-- **depth_bound.** Inside an operation of nesting depth `k` at most `1·k + (2 + fdepth)` registers
are taken on top of those active at its start: c = 1 per open loop-like operation, c' = 2
temporaries (two condition operands / the two operands of `add`) plus one per level of
future-indexed futures, plus — when EPR operations occur — the most registers such an operation holds
at once (`epeak`, from the recorded register events). -/
theorem depth_bound (op : Host) (hc : Completed op) : need op ≤ depth op + (2 + fdepth op) + epeak op := by
  induction op with
  | skip => simp [need]
  | seq a b iha ihb =>
    have := iha hc.1; have := ihb hc.2
    simp only [need, depth, fdepth, epeak]; omega
  | newArray => simp [need]
  | newReg => exact hc.elim
  | qop g t => cases t <;> simp [need, MTgt.need, fdepth, depth, epeak] <;> omega
  | addF f o md =>
    have := addNeed_le o
    simp only [need, depth, fdepth, epeak]; omega
  | addR h o md =>
    have := addNeed_le o
    simp only [need, depth, fdepth, epeak]; omega
  | ifc cb c a b body ih =>
    have := ih hc; have := tmp_le_one a; have := tmp_le_one b
    simp only [need, depth, fdepth, epeak]
    split <;> omega
  | loop rg s e d body ih => have := ih hc; simp only [need, depth, fdepth, epeak]; omega
  | loopBody rg s e d body ih => have := ih hc; simp only [need, depth, fdepth, epeak]; omega
  | foreach a w body ih => have := ih hc; simp only [need, depth, fdepth, epeak]; omega
  | loopUntil n body ef ev cl ihb ihc =>
    have := ihb hc.1; have := ihc hc.2; have := tmp_le_one ef
    simp only [need, depth, fdepth, epeak]; omega
  | tryUntil n body ih => have := ih hc; simp only [need, depth, fdepth, epeak]; omega
  | epr evs => simp [need, epeak]

/-- **long_run_compiles** — the property in closed form: starting from a memory manager with `f`
free registers, every program made of completed operations of nesting depth `k` and future-index
depth `d` with `k + 2 + d ≤ f`, of any length and with flushes anywhere, never runs out of
registers. (`Sdk.run` starts from the fresh manager: 16 free.) -/
theorem long_run_compiles (p : List Top) (m : Mem) (pend : List PCmd) (step : Nat) (acc : RunOut)
    (hfree : 0 < free m.active)
    (hops : ∀ op, Top.op op ∈ p → Completed op ∧ depth op + (2 + fdepth op) + epeak op ≤ free m.active)
    (hacc : ∀ st, acc.err ≠ some (st, .noRegister)) :
    ∀ st, (runProg m pend step acc p).err ≠ some (st, .noRegister) := by
  refine sequence_compiles p m pend step acc hfree ?_ hacc
  intro op hmem
  have ⟨hc, hb⟩ := hops op hmem
  refine ⟨hc, ?_⟩
  intro m' hm'
  exact compiles_of_need op m' hc (by rw [hm']; have := depth_bound op hc; omega)

theorem fresh_has_16 : free Mem.init.active = 16 := by decide

/-- **temps_disjoint.** Every temporary and every loop register comes from `takeReg` /
`getInactive` + `activate` (the only places where `emit` picks a register): it is inactive at that
moment — hence different from every live loop/condition register of an enclosing operation, all of
which are active (`balanced` + the `Took`/`loopShape` lemmas: a register stays flagged from
`takeReg` to its `release`) — and after the pick it is flagged, so no later pick returns it until
it is released. -/
theorem temps_disjoint (m m' : Mem) (i : Nat) (h : takeReg m = .ok (m', i)) :
    m.active.getD i true = false ∧
    (∀ j, m.active.getD j false = true → j ≠ i ∧ m'.active.getD j false = true) ∧
    m'.active.getD i false = true := by
  have s := takeReg_spec h
  refine ⟨s.1, ?_, ?_⟩
  · intro j hj
    have hne : j ≠ i := by
      intro e; subst e
      have hl := getD_true_false_lt s.1
      simp [List.getD, List.getElem?_eq_getElem hl] at s hj
      rw [s.1] at hj; cases hj
    refine ⟨hne, ?_⟩
    rw [s.2.1, getD_set_ne (Ne.symm hne)]; exact hj
  · rw [s.2.1]; exact getD_set_self (getD_true_false_lt s.1) _ _


/-- **temps_disjoint on the EMITTED COMMANDS.** Let `op` be any completed operation compiled from `m`.
No command emitted for it writes (`set`/`load`/`add`/`addm` destination) an R register that is active
in `m` — i.e. a live loop / condition register of an enclosing operation or a `new_register()`
register — except the `add` of a `RegFuture.add(h, …)` occurring in `op`, which writes the register
of its handle `h` on purpose (its owner). -/
theorem temps_disjoint_code (op : Host) (m m' : Mem) (cs : List PCmd) (hc : Completed op)
    (h : emit m op = .ok (m', cs)) :
    ∀ c ∈ cs, ∀ x, writeOf c = some x → x.bank = 0 → m.active.getD x.idx false = true →
      ∃ hh ∈ addTargets op, ∃ b, m'.handles[hh]? = some (x, b) :=
  emit_writes op m m' cs hc h

/-- non-vacuity: inside two nested loops a `Future.add` with a future-indexed operand writes only
R2/R3; the enclosing loop registers R0, R1 are never written by the inner operation -/
example : let inner : Host := .addF (.fut 0 (.lit 0 0)) (.fut (.lit 0 1)) none
    let m : Mem := { Mem.init with active := (Mem.init.active.set 0 true).set 1 true, arrLens := [2] }
    (match emit m inner with
      | .ok (_, cs) => cs.filterMap writeOf
      | .error _ => []) = [R 3, R 2, R 3, R 2, R 3] := by
  decide +kernel

/-- the un-activated pick used for the array-initialisation loop and for future-indexed futures -/
theorem temps_disjoint_pick (m : Mem) (i : Nat) (h : getInactive m = .ok i) :
    m.active.getD i true = false := getInactive_spec h

/-! ### F17 regression witnesses (fixed model) and non-vacuity -/

def ifEzOnFuture : Host :=
  .ifc false .ez (.fut (.lit 0 0)) (.lit 0) (.qop [0] .newFut)

def loopUntilOnce : Host :=
  .loopUntil 2 (.qop [] (.fut (.lit 0 0))) (.fut (.lit 0 0)) 0 .skip

def repeatTop (n : Nat) (h : Host) : List Top :=
  (List.replicate n [Top.op h, Top.flush]).flatten

/-- 40 `if_ez` on a Future with a flush after each (the unfixed builder fails at the 17th) -/
theorem f17_if_ez_40 :
    (Sdk.run (Top.op (.newArray 1 (some [some 0])) :: repeatTop 40 ifEzOnFuture)).err = none := by
  decide +kernel

/-- 20 `loop_until` (the unfixed builder fails at the 9th) -/
theorem f17_loop_until_20 :
    (Sdk.run (Top.op (.newArray 1 (some [some 0])) :: repeatTop 20 loopUntilOnce)).err = none := by
  decide +kernel

example : Completed ifEzOnFuture ∧ Completed loopUntilOnce := by simp [ifEzOnFuture, loopUntilOnce, Completed]

/-- non-vacuity of `long_run_compiles`' hypothesis: a depth-2 operation with a future-indexed future -/
example : let op : Host := .loop none 0 2 1 (.foreach 0 true (.addF (.fut 0 (.lit 0 0)) (.fut (.lit 0 1)) none))
    Completed op ∧ depth op + (2 + fdepth op) ≤ free Mem.init.active ∧ need op = 4 := by
  refine ⟨by simp [Completed], by decide, by decide⟩

/-- the bound of `need` is attained: 16 nested loops need 16 registers, the 17th level fails -/
def nest : Nat → Host → Host
  | 0, h => h
  | n + 1, h => .loop none 0 1 1 (nest n h)

def isOk {α : Type} : Except BuildError α → Bool
  | .ok _ => true
  | .error _ => false

def isNoReg {α : Type} : Except BuildError α → Bool
  | .error .noRegister => true
  | _ => false

theorem need_tight_16 : isOk (emit Mem.init (nest 16 (.qop [] .newFut))) = true
    ∧ isNoReg (emit Mem.init (nest 17 (.qop [] .newFut))) = true := by
  decide +kernel

/-! ### explicit loop registers (`loop_register="R<i>"`) -/

def isRegState {α : Type} : Except BuildError α → Bool
  | .error .regState => true
  | _ => false

/-- `conn.loop_body(fn, 3, loop_register="R0")` at top level with a body that needs a temporary: the
explicitly named register is taken into use, so the temporary of `Future.add` is R1 and R0 is written
only by the loop's own `set` and `add` (the seeded change C14_2 puts the temporary into R0). -/
theorem explicit_register_protected :
    (match emit { Mem.init with arrLens := [3] }
        (.loopBody (some 0) 0 3 1 (.addF (.lit 0 0) (.lit 1) none)) with
      | .ok (_, cs) => cs.filterMap writeOf
      | .error _ => []) = [R 0, R 1, R 1, R 0] := by
  decide +kernel

/-- an explicit loop register that is in use (here: R0 of the enclosing loop) is rejected, in both
forms — it is never silently shared -/
theorem explicit_register_in_use_rejected :
    isRegState (emit Mem.init (.loop none 0 2 1 (.loopBody (some 0) 0 3 1 (.qop [] .newFut)))) = true ∧
    isRegState (emit Mem.init (.loop none 0 2 1 (.loop (some 0) 0 3 1 (.qop [] .newFut)))) = true ∧
    isOk (emit Mem.init (.loop none 0 2 1 (.loop (some 1) 0 3 1 (.qop [] .newFut)))) = true := by
  decide +kernel

/-! ### EPR operations -/

/-- **balanced_epr.** An EPR operation — abstracted to the register events recorded from the real
builder (`take` = lowest free register, `rel p` = release of the p-th held register) — whose events
give back everything they take (`heldLen 0 evs = some 0`) leaves the active registers as they were,
from EVERY memory-manager state. (It is the `epr` case of `balanced`; the generated table
`Gen.eprForms` is shown balanced form by form in `Props/EprRegsObligations`.) -/
theorem balanced_epr (evs : List EprEv) (m m' : Mem) (cs : List PCmd) (hb : heldLen 0 evs = some 0)
    (h : emit m (.epr evs) = .ok (m', cs)) : m'.active = m.active :=
  balanced (.epr evs) m m' cs hb h

/-- the seeded shape C14_4 (two registers taken, never released) is not balanced and exhausts the pool -/
theorem epr_leak_witness :
    heldLen 0 [EprEv.take, .take, .take, .rel 0] = some 2 ∧
    isNoReg (emitEprH Mem.init [] ((List.replicate 8 [EprEv.take, .take, .take, .rel 0]).flatten ++ [.take])) = true := by
  decide +kernel

/-- every EPR API form of the generated table (create/recv × keep plain / post routine / sequential /
with_info / rsp / measure / context block × expect_phi_plus × min_fidelity_all_at_end × number 1..3 ×
generic / NV / NV-compiler) is a completed operation that needs at most 10 registers -/
theorem epr_forms_completed : ∀ f ∈ Gen.eprForms, Completed (Host.epr f.2) ∧ need (Host.epr f.2) ≤ 10 := by
  intro f hf
  have h1 := List.all_eq_true.mp EprRegs.eprForms_balanced f hf
  have h2 := List.all_eq_true.mp EprRegs.eprForms_peak f hf
  exact ⟨by simpa [Completed] using h1, by simpa [need] using h2⟩

/-- **EPR operations in `sequence_compiles`.** Any program — any length, flushes anywhere — whose
operations are EPR operations of the table or other completed operations needing at most the free
registers never runs out of registers, provided 10 registers are free. -/
theorem epr_sequence_compiles (p : List Top) (m : Mem) (pend : List PCmd) (step : Nat) (acc : RunOut)
    (hfree : 10 ≤ free m.active)
    (hops : ∀ op, Top.op op ∈ p →
      (∃ f ∈ Gen.eprForms, op = Host.epr f.2) ∨ (Completed op ∧ need op ≤ free m.active))
    (hacc : ∀ st, acc.err ≠ some (st, .noRegister)) :
    ∀ st, (runProg m pend step acc p).err ≠ some (st, .noRegister) := by
  refine sequence_compiles p m pend step acc (by omega) ?_ hacc
  intro op hmem
  rcases hops op hmem with ⟨f, hf, rfl⟩ | ⟨hc, hn⟩
  · have := epr_forms_completed f hf
    exact ⟨this.1, fun m' hm' => compiles_of_need _ m' this.1 (by rw [hm']; omega)⟩
  · exact ⟨hc, fun m' hm' => compiles_of_need _ m' hc (by rw [hm']; exact hn)⟩

/-! ### the M bank: measurement-outcome registers -/

/-- **meas_registers_released_at_flush.** A flush that sends a subroutine leaves every M register free
(`MemoryManager.reset` → `reset_used_meas_registers`). -/
theorem meas_registers_released_at_flush (m m' : Mem) (pend cmds : List PCmd)
    (h : flush m pend = .ok (m', some cmds)) : m'.measUsed = List.replicate 16 false := by
  unfold flush at h
  split at h
  · cases h
  · simp only at h
    split at h
    · cases h
    · cases h; rfl

/-- the M-bank analogue of `balanced`: an operation that keeps no outcome in a register (no
`measure(store_array=False)` inside) leaves the M flags exactly as they were — the M register of a
measurement into an array entry is given back at once -/
theorem meas_balanced (op : Host) (m m' : Mem) (cs : List PCmd) (hb : BodyOK op)
    (h : emit m op = .ok (m', cs)) : m'.measUsed = m.measUsed := ((emit_stat op m m' cs h).body hb).1

/-- `measure(store_array=False)` takes exactly one M register (kept until the next flush) -/
theorem reg_outcome_takes_one (m m' : Mem) (g : List Nat) (cs : List PCmd)
    (h : emit m (.qop g .newReg) = .ok (m', cs)) :
    ∃ k, m.measUsed.getD k true = false ∧ m'.measUsed = m.measUsed.set k true ∧ cs ≠ [] := by
  simp only [emit] at h
  unfold emitQop at h
  simp only at h
  split at h
  · cases h
  · rename_i m1 k h1
    cases h
    obtain ⟨hk, rfl⟩ := firstUnusedMeas_spec h1
    exact ⟨k, hk, rfl, by simp⟩

/-- with one M register free, no top-level operation fails with "Ran out of M-registers" -/
theorem meas_compiles (op : Host) (m : Mem) (ht : TopOK op) (h : 0 < free m.measUsed) : NoMeas (emit m op) := by
  rcases ht with hb | ⟨v, rfl⟩ | ⟨g, rfl⟩
  · exact emit_noMeas op m hb h
  · simp only [emit]
    split
    · rename_i e he; exact NoMeas.err (takeReg_noMeas _ _ he)
    · exact NoMeas.ok _
  · simp only [emit]; exact emitQop_noMeas _ _ _ h

/-- at most 16 register outcomes per subroutine, and an M register free whenever an operation starts:
`c` = register outcomes since the last flush -/
def MeasBudget : Nat → List Top → Prop
  | _, [] => True
  | _, .flush :: rest => MeasBudget 0 rest
  | c, .op h :: rest => c ≤ 15 ∧ MeasBudget (c + (mHandlesOf 0 h).length) rest

theorem initArrays_noMeas : ∀ (ds : List ArrDecl) (m : Mem) (pend : List PCmd), NoMeas (initArrays m pend ds)
  | [], m, pend => by simp only [initArrays]; exact NoMeas.ok _
  | d :: ds, m, pend => by
    simp only [initArrays]
    split
    · rename_i e he
      refine NoMeas.err ?_
      unfold initArray at he
      simp only at he
      split at he
      · cases he
      · split at he
        · split at he
          · rename_i e' he'; cases he; exact getInactive_noMeas _ _ he'
          · split at he
            · rename_i e' he'; cases he; exact activate_noMeas _ _ _ he'
            · split at he
              · rename_i e' he'; cases he; exact release_noMeas _ _ _ he'
              · cases he
        · cases he
    · exact initArrays_noMeas ds _ _

theorem free_replicate16 : free (List.replicate 16 false) = 16 := by decide

/-- **meas_sequence_compiles** — the M-bank analogue of `sequence_compiles`: a program of top-level
operations (`TopOK`) of ANY length with flushes anywhere never fails with "Ran out of M-registers" as
long as no more than 16 register outcomes are taken between two flushes (`MeasBudget`): how many
`measure(store_array=False)` the connection has completed before does not matter. -/
theorem meas_sequence_compiles (p : List Top) :
    ∀ (m : Mem) (pend : List PCmd) (step : Nat) (acc : RunOut) (c : Nat),
    (∀ op, Top.op op ∈ p → TopOK op) → MeasBudget c p → 16 ≤ free m.measUsed + c →
    (0 < c → pend ≠ []) → (∀ st, acc.err ≠ some (st, .noMeasRegister)) →
    ∀ st, (runProg m pend step acc p).err ≠ some (st, .noMeasRegister) := by
  induction p with
  | nil => intro m pend step acc c _ _ _ _ hacc st; simpa [runProg] using hacc st
  | cons t rest ih =>
    intro m pend step acc c htop hb hfree hpend hacc st
    cases t with
    | op h =>
      have ht := htop h (by simp)
      obtain ⟨hc, hb'⟩ := hb
      simp only [runProg]
      split
      · rename_i e he
        simp only
        intro hcontra
        simp only [Option.some.injEq, Prod.mk.injEq] at hcontra
        exact meas_compiles h m ht (by omega) e he hcontra.2
      · rename_i m1 cs h1
        refine ih m1 _ _ _ (c + (mHandlesOf 0 h).length) (fun o ho => htop o (by simp [ho])) hb' ?_ ?_
          (by simpa using hacc) st
        · rcases ht with hbo | ⟨v, rfl⟩ | ⟨g, rfl⟩
          · rw [meas_balanced h m m1 cs hbo h1, mHandlesOf_bodyOK h 0 hbo]; simpa using hfree
          · simp only [emit] at h1
            split at h1
            · cases h1
            · rename_i m2 i h2
              cases h1
              simp [bindHandle, (takeReg_same h2).meas, mHandlesOf]; exact hfree
          · obtain ⟨k, hk, hm, _⟩ := reg_outcome_takes_one m m1 g cs h1
            rw [hm]
            have := free_set_true _ _ hk
            simp [mHandlesOf]; omega
        · intro hpos
          rcases ht with hbo | ⟨v, rfl⟩ | ⟨g, rfl⟩
          · rw [mHandlesOf_bodyOK h 0 hbo] at hpos
            have := hpend (by simpa using hpos)
            intro e; simp at e; exact this e.1
          · have : 0 < c := by simpa [mHandlesOf] using hpos
            have := hpend this
            intro e; simp at e; exact this e.1
          · obtain ⟨_, _, _, hne⟩ := reg_outcome_takes_one m m1 g cs h1
            intro e; simp at e; exact hne e.2
    | flush =>
      simp only [runProg]
      split
      · rename_i e he
        simp only
        intro hcontra
        simp only [Option.some.injEq, Prod.mk.injEq] at hcontra
        refine absurd hcontra.2 ?_
        unfold flush at he
        split at he
        · rename_i e' he'; cases he; exact initArrays_noMeas _ _ _ _ he'
        · simp only at he; split at he <;> cases he
      · rename_i m1 sub h1
        refine ih m1 [] _ _ 0 (fun o ho => htop o (by simp [ho])) hb ?_ (by intro h0; omega) (by simpa using hacc) st
        cases sub with
        | some cmds => rw [meas_registers_released_at_flush m m1 pend cmds h1, free_replicate16]; omega
        | none =>
          -- nothing was sent: nothing was pending, so no register outcome was taken in this segment
          unfold flush at h1
          split at h1
          · cases h1
          · rename_i m1' ini hini
            simp only at h1
            split at h1
            · rename_i hemp
              cases h1
              have hp : pend = [] := by
                have : ini ++ pend ++ List.map (fun d => PCmd.instr Mn.retArr [POp.addr d.addr]) m1.arraysToReturn ++
                    List.map (fun r => PCmd.instr Mn.retReg [POp.reg r]) m1.regsToReturn = [] := by simpa using hemp
                simp only [List.append_eq_nil_iff] at this
                exact this.1.1.2
              have hc0 : c = 0 := by
                by_cases h0 : 0 < c
                · exact absurd hp (hpend h0)
                · omega
              rw [(initArrays_sameL _ _ _ _ _ hini).meas]
              omega
            · cases h1

/-- the fresh connection: 16 M registers free; and the seeded shape C14_5 (flags survive the flush)
makes the 17th register outcome fail although every subroutine holds a single one -/
theorem meas_fresh_16 : free Mem.init.measUsed = 16 := by decide

theorem budget_one_per_flush (g : List Nat) : ∀ (n c : Nat), c ≤ 15 →
    MeasBudget c ((List.replicate n [Top.op (.qop g .newReg), Top.flush]).flatten)
  | 0, c, _ => by simp [MeasBudget]
  | n + 1, c, hc => by
    simp only [List.replicate_succ, List.flatten_cons, List.cons_append, List.nil_append, MeasBudget]
    exact ⟨hc, budget_one_per_flush g n 0 (by omega)⟩

/-- 40 register outcomes with a flush after each satisfy the budget and compile in the model -/
theorem meas_budget_example :
    MeasBudget 0 ((List.replicate 40 [Top.op (.qop [] .newReg), Top.flush]).flatten) ∧
    (Sdk.run ((List.replicate 40 [Top.op (.qop [] .newReg), Top.flush]).flatten)).err = none :=
  ⟨budget_one_per_flush [] 40 0 (by omega), by decide +kernel⟩

end NQ.C14
