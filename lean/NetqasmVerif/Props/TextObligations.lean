/-
Kernel-decided obligations about the text-path tables generated from /repo
(`Gen/AsmTables.lean` with `Gen/InstrTable.lean`).
-/
import NetqasmVerif.Model.Text
import NetqasmVerif.Gen.AsmTables
import NetqasmVerif.Gen.InstrTable
namespace NQ.TextObl
open NQ NQ.Text

/-- the symbols of `symbols.py` and the bank letters cannot be confused with each other -/
theorem syms_ok : symsOk Gen.syms = true := by decide +kernel

/-- vanilla: every row's mnemonic maps back to its class through `GenericInstr` and the
flavour's name map, and every immediate position is exempt from constant replacement -/
theorem vanilla_rows_ok : Gen.vanillaRows.all
    (rowTextOk Gen.vanillaRows Gen.replaceExceptions Gen.genericNames) = true := by decide +kernel

theorem nv_rows_ok : Gen.nvRows.all
    (rowTextOk Gen.nvRows Gen.replaceExceptions Gen.genericNames) = true := by decide +kernel

theorem reids_rows_ok : Gen.reidsRows.all
    (rowTextOk Gen.reidsRows Gen.replaceExceptions Gen.genericNames) = true := by decide +kernel

end NQ.TextObl
