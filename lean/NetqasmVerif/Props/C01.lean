/-
C01 — Binary subroutine codec is lossless and uniquely decodable per flavour.
Property theorems only; helper lemmas live in Lemmas/.
-/
import NetqasmVerif.Lemmas.Table
import NetqasmVerif.Props.WireObligations
namespace NQ.C01
open NQ

/-- (1) every operand kind round-trips for every in-range value (all 2^32 integers,
all registers), with arbitrary trailing bytes. -/
theorem operand_roundtrip (k : FieldKind) (o : Operand) (bs rest : List Nat)
    (h : encodeOp k o = some bs) : decodeOp k (bs ++ rest) = some (o, rest) :=
  decodeOp_encodeOp k o bs rest h

/-- encoding succeeds exactly on in-range operands of the right kinds -/
theorem encode_defined_iff_inRange (ks : List FieldKind) (os : List Operand) :
    (encodeOps ks os).isSome = InRangeOps ks os := encodeOps_isSome ks os

/-- (2) any table, any instruction whose opcode is in no clash pair -/
theorem instr_roundtrip (T : Table) (i : Instr) (bs : List Nat)
    (h : encodeInstr T i = some bs)
    (hc : ∀ row, rowOf T i.cls = some row → ∀ c ∈ opcodeClashes T, c.1 ≠ row.opcode) :
    decodeInstr T bs = some i := decodeInstr_encodeInstr T i bs h hc

/-- (3) whole subroutines of any length, any app id / version bytes that encode -/
theorem subroutine_roundtrip (T : Table) (s : Sub) (bs : List Nat)
    (h : encodeSub T s = some bs)
    (hc : ∀ i ∈ s.instrs, ∀ row, rowOf T i.cls = some row →
      ∀ c ∈ opcodeClashes T, c.1 ≠ row.opcode) :
    decodeSub T bs = some s := decodeSub_encodeSub T s bs h hc

/-! Generated obligations about the live tables of /repo. -/

/-- the model codec reproduces every single-bit probe of every real class -/
theorem probes_match : Gen.probes.all probeOk = true := Wire.probes_match

/-- every class of every flavour was probed -/
theorem probes_cover :
    (Gen.vanillaRows ++ Gen.nvRows ++ Gen.reidsRows).all
      (fun r => Gen.probes.any (fun p => p.row == r)) = true := Wire.probes_cover

theorem shapes_fit :
    (Gen.vanillaRows ++ Gen.nvRows ++ Gen.reidsRows).all
      (fun r => decide (shapeSize r.shape ≤ 6) && decide (r.opcode < 256)) = true := Wire.shapes_fit

theorem nv_unique : opcodeClashes Gen.nvRows = [] ∧ mnemonicClashes Gen.nvRows = []
    ∧ classClashes Gen.nvRows = [] := by decide +kernel

theorem reids_unique : opcodeClashes Gen.reidsRows = [] ∧ mnemonicClashes Gen.reidsRows = []
    ∧ classClashes Gen.reidsRows = [] := by decide +kernel

/-- vanilla: no clash other than those recorded as open known findings (F1) -/
theorem vanilla_clashes_are_known :
    (opcodeClashes Gen.vanillaRows).all (fun c =>
      ((Gen.knownOpcodeClashes.filter (fun k => k.1 == "vanilla")).map (fun k => k.2)).contains c) = true
    ∧ mnemonicClashes Gen.vanillaRows = [] ∧ classClashes Gen.vanillaRows = [] := by
  decide +kernel

theorem nv_reids_no_known_clash :
    Gen.knownOpcodeClashes.all (fun k => k.1 == "vanilla") = true := by decide +kernel

/-! Per-flavour statements of the property. -/

/-- NV flavour: full statement, no side condition. -/
theorem nv_roundtrip (s : Sub) (bs : List Nat) (h : encodeSub Gen.nvRows s = some bs) :
    decodeSub Gen.nvRows bs = some s :=
  subroutine_roundtrip _ s bs h (by
    intro i _ row _ c hc
    rw [nv_unique.1] at hc; cases hc)

/-- REIDS flavour: full statement. -/
theorem reids_roundtrip (s : Sub) (bs : List Nat) (h : encodeSub Gen.reidsRows s = some bs) :
    decodeSub Gen.reidsRows bs = some s :=
  subroutine_roundtrip _ s bs h (by
    intro i _ row _ c hc
    rw [reids_unique.1] at hc; cases hc)

/-- Vanilla flavour, the full statement (false on the current tree, see below):
`∀ s bs, encodeSub Gen.vanillaRows s = some bs → decodeSub Gen.vanillaRows bs = some s`.
Proved part: every subroutine that avoids the opcodes listed in the known findings. -/
theorem vanilla_roundtrip_partial (s : Sub) (bs : List Nat)
    (h : encodeSub Gen.vanillaRows s = some bs)
    (hk : ∀ i ∈ s.instrs, ∀ row, rowOf Gen.vanillaRows i.cls = some row →
      ∀ k ∈ Gen.knownOpcodeClashes, k.2.1 ≠ row.opcode) :
    decodeSub Gen.vanillaRows bs = some s :=
  subroutine_roundtrip _ s bs h (by
    intro i hi row hrow c hc
    have h1 := List.all_eq_true.1 vanilla_clashes_are_known.1 c hc
    simp only [List.contains_iff_mem, List.mem_map, List.mem_filter] at h1
    obtain ⟨k, ⟨hk1, _⟩, rfl⟩ := h1
    exact hk i hi row hrow k hk1)

/-- the counter-example behind F1, in the model: an encoded `meas_basis` decodes
as `mov` in the vanilla flavour (replayed on the real code by the check). -/
theorem vanilla_counterexample :
    let i : Instr := ⟨"core.MeasBasisInstruction",
      [.reg ⟨2, 1⟩, .reg ⟨3, 2⟩, .imm 3, .imm 4, .imm 5, .imm 6]⟩
    (encodeInstr Gen.vanillaRows i).bind (decodeInstr Gen.vanillaRows)
      = some ⟨"vanilla.MovInstruction", [.reg ⟨2, 1⟩, .reg ⟨3, 2⟩]⟩ := by decide +kernel

/-- non-vacuity: a concrete NV subroutine with boundary operands encodes (so the
hypothesis of `nv_roundtrip` is satisfiable) -/
example : (encodeSub Gen.nvRows ⟨0, 10, 65535,
    [⟨"core.SetInstruction", [.reg ⟨0, 15⟩, .imm (-2147483648)]⟩,
     ⟨"nv.ControlledRotXInstruction", [.reg ⟨2, 0⟩, .reg ⟨2, 1⟩, .imm 255, .imm 0]⟩,
     ⟨"core.WaitAllInstruction", [.slice 2147483647 ⟨0, 3⟩ ⟨1, 4⟩]⟩]⟩).isSome = true := by
  decide +kernel

end NQ.C01
