import NetqasmVerif.Model.NvDecomp
import NetqasmVerif.Gen.NvDecomp
namespace NQ.C07.Obl
open NQ NQ.NV
/-- CNOT: the representative sequence of each placement equals CNOT (⊗ 1 on the borrowed
electron for carbon–carbon) up to a scalar — an 4×4 / 8×8 operator identity in ℤ[ζ₈] -/
theorem two_rep_ok_cnot :
    [Placement.ec, .ce, .cc].all (fun p => repOk Gen.nvTwo .cnot p) = true := by decide +kernel
end NQ.C07.Obl
