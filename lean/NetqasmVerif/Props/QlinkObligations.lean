/-
Obligations about the qlink-interface 1.0 compatibility layer (`netqasm/qlink_compat.py`:
`response_from_qlink_1_0`, `request_to_qlink_1_0`), decided by the kernel over tables obtained by
PROBING the real conversions (translate/qlink_tables.py: every source field gets a distinct marker value;
enum conversions are tabulated member by member). Serves C11 (requests and result fields cross the
boundary intact also in 1.0 form) and C12 (creator/receiver discrimination reads `directionality_flag`
of the converted response).
-/
import NetqasmVerif.Gen.QlinkTables
import NetqasmVerif.Gen.EprTables
namespace NQ.Qlink
open NQ.Gen.Qlink

/-- the only renamed response field -/
def renameResp (dst : String) : String := if dst == "goodness_time" then "time_of_goodness" else dst

/-- the converted tuple has exactly the fields `fields`; `type` is the stated constant; EVERY other field
carries the source field of the same name (a dropped field would show up as a constant) -/
def respOk (rows : List (String × String × String)) (fields : List String) (tyConst : String) : Bool :=
  rows.map (·.1) == fields &&
  rows.all fun (dst, kind, src) =>
    if dst == "type" then kind == "const" && src == tyConst
    else (kind == "copy" || kind == "enum") && src == renameResp dst

/-- `response_from_qlink_1_0` copies every field of `ResCreateAndKeep` / `ResMeasureDirectly` /
`ResError` — in particular `directionality_flag`, `purpose_id`, `remote_node_id`, `sequence_number`,
`logical_qubit_id` — into the `LinkLayerOKTypeK` / `…M` / `LinkLayerErr` field of the same name. -/
theorem response_conversion_copies_every_field :
    respOk respK Gen.Epr.okK "ReturnType.OK_K" = true ∧ respKClass = "LinkLayerOKTypeK" ∧
    respOk respM Gen.Epr.okM "ReturnType.OK_M" = true ∧ respMClass = "LinkLayerOKTypeM" ∧
    respOk respErr (respErr.map (·.1)) "ReturnType.ERR" = true ∧ respErr.length = 7 := by decide

/-- the measurement basis is converted member by member, same name, same value -/
theorem basis_conversion_exact :
    basisConv.all (fun (n, v, n', v') => n' == "Basis." ++ n && v == v') = true ∧
    basisConv.map (fun x => (x.1, x.2.1)) = [("Z", 0), ("X", 1), ("Y", 2), ("ZPLUSX", 3), ("ZMINUSX", 4)] ∧
    basisConv.map (fun x => x.2.2.2) = Gen.Epr.basis.map (·.2) := by decide

/-- the Bell-state field is passed on VERBATIM: an int index stays that int, a `qlink_interface.BellState`
member is stored by its own `.value` (no renumbering). -/
theorem bell_state_verbatim :
    bellConv.all (fun (_, _, v, stored, _) => v == stored) = true ∧
    bellIntConv.all (fun (a, b) => a == b) = true := by decide

/-- OBSERVATION (not counted against C11/C12): `qlink_interface.BellState` and `qlink_compat.BellState`
number the four Bell states differently, and `ResCreate.bell_state` is declared `int  # index … TODO add
mapping`. A link layer that fills the field with `qlink_interface.BellState` MEMBERS gets its values read
back by the SDK under the netqasm numbering: the pairs below are (qlink-interface name, netqasm name of
the stored value) where they differ. The field itself is transported intact (`bell_state_verbatim`);
which numbering the int means is the link layer's contract. -/
theorem bell_numberings_differ :
    ((bellConv.filter (fun (c, n, _, _, n') => c == "ResCreateAndKeep" && n != n')).map
      fun (_, n, _, _, n') => (n, n')) =
    [("PHI_MINUS", "PSI_PLUS"), ("PSI_PLUS", "PSI_MINUS"), ("PSI_MINUS", "PHI_MINUS")] ∧
    qlinkBell ≠ Gen.Epr.bellState := by decide

/-- which `LinkLayerCreate` field each field of the 1.0 request must carry (the specification) -/
def reqRename : String → String
  | "x_rotation_angle_local_1" => "rotation_X_local1"
  | "y_rotation_angle_local" => "rotation_Y_local"
  | "x_rotation_angle_local_2" => "rotation_X_local2"
  | "x_rotation_angle_remote_1" => "rotation_X_remote1"
  | "y_rotation_angle_remote" => "rotation_Y_remote"
  | "x_rotation_angle_remote_2" => "rotation_X_remote2"
  | "probability_distribution_parameter_local_1" => "probability_dist_local1"
  | "probability_distribution_parameter_local_2" => "probability_dist_local2"
  | "probability_distribution_parameter_remote_1" => "probability_dist_remote1"
  | "probability_distribution_parameter_remote_2" => "probability_dist_remote2"
  | s => s

def reqOk (rows : List (String × String × String)) : Bool :=
  rows.all fun (dst, kind, src) => (kind == "copy" || kind == "enum") && src == reqRename dst

/-- `request_to_qlink_1_0`: every field of the 1.0 request carries the `LinkLayerCreate` field it is named
after; a keep request carries the nine base fields, a measure request EVERY field of `LinkLayerCreate`
except `type` (which selects the class); a receive request its two ids; random-basis members are
converted member by member, same name and value. -/
theorem request_conversion_copies_every_field :
    reqOk reqK = true ∧ reqKClass = "ReqCreateAndKeep" ∧
    reqK.map (·.1) = ["remote_node_id", "minimum_fidelity", "time_unit", "max_time", "purpose_id", "number",
      "priority", "atomic", "consecutive"] ∧
    reqOk reqM = true ∧ reqMClass = "ReqMeasureDirectly" ∧
    Gen.Epr.createFields.all (fun f => f == "type" || reqM.any (fun r => r.2.2 == f)) = true ∧
    reqM.length + 1 = Gen.Epr.createFields.length ∧
    reqOk reqRecv = true ∧ reqRecv.map (·.1) = ["remote_node_id", "purpose_id"] ∧
    randBasisConv.all (fun (_, n, v, n', v') => n == n' && v == v') = true ∧
    randBasisConv.length = 2 * Gen.Epr.randomBasis.length := by decide

end NQ.Qlink
