/-
Kernel-decided conditions on the symbols of the live module (`Gen.syms`, translate/asm_tables.py)
needed by the text-level theorems of C03 (Lemmas/AsmFront*.lean).
-/
import NetqasmVerif.Lemmas.AsmFrontText
import NetqasmVerif.Props.TextObligations
namespace NQ.AsmTextObl
open NQ NQ.Text NQ.AsmFront

theorem src_syms_ok : srcSymsOk Gen.syms = true := by decide +kernel
theorem arg_syms_ok : argSymsOk Gen.syms = true := by decide +kernel
theorem text_syms_ok : textSymsOk Gen.syms = true := by decide +kernel

theorem front_syms : FrontSyms Gen.syms :=
  ⟨sok_of Gen.syms TextObl.syms_ok, src_syms_ok, arg_syms_ok⟩

end NQ.AsmTextObl
