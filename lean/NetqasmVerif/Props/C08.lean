/-
C08 — NV transpilation preserves program behaviour, not only gates.
Property theorems only; helper lemmas live in Lemmas/Transpile*.lean.
-/
import NetqasmVerif.Model.Transpile
import NetqasmVerif.Gen.NvExpand
namespace NQ.C08
open NQ NQ.Tr

/-! ## Witnesses of the findings, in the model -/

def qreg (i : Int) : Operand := .reg ⟨2, i⟩
def rreg (i : Int) : Operand := .reg ⟨0, i⟩

/-- F10, first witness: `load Q0 @0[R0]; set Q1 2; cnot Q0 Q1` -/
def f10a : List Instr := [
  ⟨"core.LoadInstruction", [qreg 0, .entry 0 ⟨0, 0⟩]⟩,
  ⟨"core.SetInstruction", [qreg 1, .imm 2]⟩,
  ⟨"vanilla.CnotInstruction", [qreg 0, qreg 1]⟩]

/-- F10: a Q register written by `load` reaches a gate: the pass raises AssertionError -/
theorem f10_counterexample_asserts :
    transpile (Gen.cfg false false) f10a = .error .assertion ∧ QStatic (Gen.cfg false false) f10a = false := by
  decide +kernel

/-- F10, second witness: an earlier `set Q0 1` leaves a stale value behind -/
def f10b : List Instr := ⟨"core.SetInstruction", [qreg 0, .imm 1]⟩ :: f10a

/-- F10: whatever the array holds (e.g. 0 = the electron), the pass emits the carbon–carbon circuit
for `cnot Q0 Q1`, i.e. the decomposition does not reflect the qubit the register actually holds. -/
theorem f10_counterexample_stale :
    (∃ body, expOf (Gen.cfg false false) "cnot_cc" = some body ∧
      (instBody ⟨"vanilla.CnotInstruction", [qreg 0, qreg 1]⟩ ⟨2, 0⟩ ⟨2, 1⟩ ⟨2, 2⟩ body).map
        (fun ex => f10b.take 3 ++ ex) = (transpile (Gen.cfg false false) f10b).toOption)
    ∧ QStatic (Gen.cfg false false) f10b = false := by
  refine ⟨⟨_, rfl, ?_⟩, ?_⟩ <;> decide +kernel

/-- F26 (fixed in /repo): `beq R0 R1 3; cnot Q0 Q1 (carbons 1, 2); set R5 7` with debug markers -/
def f26 : List Instr := [
  ⟨"core.SetInstruction", [qreg 0, .imm 1]⟩,
  ⟨"core.SetInstruction", [qreg 1, .imm 2]⟩,
  ⟨"core.BeqInstruction", [rreg 0, rreg 1, .imm 4]⟩,
  ⟨"vanilla.CnotInstruction", [qreg 0, qreg 1]⟩,
  ⟨"core.SetInstruction", [rreg 5, .imm 7]⟩]

/-- with `debug=True` the branch across the carbon–carbon gate targets the serialised position of
`set R5 7` (31), not its position in the command list with debug markers (35) -/
theorem f26_fixed_witness :
    (transpile (Gen.cfg true false) f26).toOption.map (fun out =>
      ((serialise out)[2]?, (serialise out)[31]?, out.length, (serialise out).length)) =
    some (some ⟨"core.BeqInstruction", [rreg 0, rreg 1, .imm 31]⟩,
          some ⟨"core.SetInstruction", [rreg 5, .imm 7]⟩, 36, 32) := by
  decide +kernel

end NQ.C08
