/-
C08 — NV transpilation preserves program behaviour, not only gates.
Property theorems only; helper lemmas live in Lemmas/Transpile*.lean.
-/
import NetqasmVerif.Lemmas.TranspileSim
import NetqasmVerif.Lemmas.TranspileExpandSound
import NetqasmVerif.Lemmas.TranspileScratch
import NetqasmVerif.Lemmas.TranspilePure
import NetqasmVerif.Gen.NvExpand
namespace NQ.C08
open NQ NQ.Tr

def qreg (i : Int) : Operand := .reg ⟨2, i⟩
def rreg (i : Int) : Operand := .reg ⟨0, i⟩

/-! ## Facts about the generated tables (re-decided by the kernel whenever /repo changes them) -/

/-- no expansion emits a branch/jump class; branch classes are not gate classes; no class of the
flavour is a debug marker; the padding instruction is not a debug marker — for both debug and both
hardware settings -/
theorem expansions_have_no_branch : ∀ d h : Bool,
    TemplatesNoBranch (Gen.cfg d h) = true ∧ InfosWF (Gen.cfg d h) = true ∧
    isDebug (Gen.cfg d h).pad = false := by
  decide +kernel

/-! ## Purity: the output is a function of (subroutine, settings)

In /repo the output buffer, the index map and the debug-marker counter are locals of `transpile()`;
of the object only `_register_values` and `_used_registers` survive a call. `transpileObj cfg rv0
used0 S` is a call on an object whose two attributes hold `rv0`, `used0`. The history streams of
checks/c08.py (helper methods called first; a call that raised, then a retry; two calls on one
object; two objects on one subroutine) test exactly these statements on the real objects. -/

/-- **transpile_pure**: (1) a fresh object computes `transpile cfg S`, which mentions no object state
at all; (2) whatever an object did before, a call depends on it only through look-ups in
`_register_values` and membership in `_used_registers` — never through an output buffer, an index
map or a debug counter; in particular (3) helper methods, which touch neither attribute, cannot
influence a later call. -/
theorem transpile_pure (cfg : Cfg) (S : List Instr) :
    transpileObj cfg [] [] S = transpile cfg S ∧
    (∀ rv rv' used used', (∀ r, rv.lookup r = rv'.lookup r) → (∀ r, r ∈ used ↔ r ∈ used') →
      transpileObj cfg rv used S = transpileObj cfg rv' used' S) :=
  ⟨transpileObj_fresh cfg S, fun _ _ _ _ hl hu => transpileObj_congr cfg hl hu S⟩

/-- **retry after an exception**: an object left behind by a call that got through the stretch `P`
(no two-qubit gate in it) and then raised — its attributes are `P`'s `set`s and registers — asked
again for `P ++ R` (same program under another setting, or with the rest edited) answers exactly as
a fresh object. (After a carbon–carbon gate the real pass has already overwritten `reg0` of the
caller's instruction object, so a retry is meaningless there: not claimed.) -/
theorem transpile_retry_pure (cfg : Cfg) (P R : List Instr) (hfree : ∀ x ∈ P, isGate2 cfg x = false) :
    transpileObj cfg (rvAfter cfg [] P) (P.flatMap topRegs) (P ++ R) = transpile cfg (P ++ R) :=
  transpileObj_retry cfg P R hfree

/-- a second pass over a program without gates changes nothing once its targets are in range
(witness: the loop of `loopHeadZero` minus its gate; idempotence is tested on the real code) -/
theorem second_pass_identity_witness :
    let S : List Instr := [
      ⟨"core.SetInstruction", [.reg ⟨0, 1⟩, .imm 1]⟩, ⟨"core.SetInstruction", [.reg ⟨0, 2⟩, .imm 3]⟩,
      ⟨"core.AddInstruction", [.reg ⟨0, 0⟩, .reg ⟨0, 0⟩, .reg ⟨0, 1⟩]⟩,
      ⟨"core.BltInstruction", [.reg ⟨0, 0⟩, .reg ⟨0, 2⟩, .imm 0]⟩,
      ⟨"core.BgeInstruction", [.reg ⟨0, 0⟩, .reg ⟨0, 2⟩, .imm 5]⟩]
    ∀ d : Bool, (transpile (Gen.cfg d false) S).toOption.bind
        (fun o => (transpile (Gen.cfg d false) o).toOption.map (fun o' => (o' == o, o.length))) =
      some (true, 6) := by
  decide +kernel

/-! ## The index map and the branch targets (all vanilla subroutines, any length)

`cs` are the per-instruction chunks of the pass (`Chunks`), `tposS cs i` the number of *serialised*
instructions (debug markers excluded) before chunk `i`, `patchOf` the retargeting of the run.
`serialise out` is what the controller receives. -/

/-- `index_changes[i]` is the serialised start of the expansion of instruction `i`: the serialised
output splits as `pre ++ (expansion of S[i]) ++ post` with `|pre| = index_changes[i]`. -/
theorem index_is_expansion_start (cfg : Cfg) (hpad : isDebug cfg.pad = false) (S out : List Instr)
    (h : transpile cfg S = .ok out) :
    ∃ cs idx, Chunks cfg [] [] S cs ∧ indexChanges cfg S = some idx ∧ idx.length = S.length ∧
      ∀ i, i < S.length → idx[i]? = some (tposS cs i) ∧
        ∃ c pre post, cs[i]? = some c ∧
          serialise out = pre ++ serialise (c.map (patchOf cfg S cs)) ++ post ∧ pre.length = tposS cs i := by
  obtain ⟨cs, hc, hidx, hout, _⟩ := transpile_structure h
  have hlen := hc.length_eq
  refine ⟨cs, starts 0 cs, hc, hidx, by rw [starts_length, hlen], ?_⟩
  intro i hi
  have hi' : i < cs.length := by omega
  refine ⟨by simpa using starts_getElem? 0 cs i hi', cs[i], ?_⟩
  obtain ⟨pre, post, h1, h2⟩ := code_at (cfg := cfg) (S := S) hpad i hi'
  exact ⟨pre, post, by simp, by rw [hout]; exact h1, h2⟩

/-- the index map is monotone -/
theorem index_monotone (cfg : Cfg) (S out : List Instr) (h : transpile cfg S = .ok out)
    (idx : List Nat) (hidx : indexChanges cfg S = some idx) (i j a b : Nat) (hij : i ≤ j)
    (ha : idx[i]? = some a) (hb : idx[j]? = some b) : a ≤ b := by
  obtain ⟨cs, hc, hidx', _, _⟩ := transpile_structure h
  rw [hidx] at hidx'
  simp only [Option.some.injEq] at hidx'
  subst hidx'
  have hj : j < cs.length := by
    have := (List.getElem?_eq_some_iff.1 hb).1
    simpa [starts_length] using this
  rw [starts_getElem? 0 cs i (by omega)] at ha
  rw [starts_getElem? 0 cs j hj] at hb
  simp only [Nat.zero_add, Option.some.injEq] at ha hb
  subst ha; subst hb
  exact tposS_mono cs hij

/-- the program of seeded change C08_1: a counted loop whose head — the branch target — is a
carbon–carbon CNOT (position 9), preceded by `h Q0; add; add` -/
def loopHeadCC : List Instr := [
  ⟨"core.SetInstruction", [.reg ⟨0, 0⟩, .imm 0]⟩, ⟨"core.SetInstruction", [.reg ⟨0, 1⟩, .imm 1]⟩,
  ⟨"core.SetInstruction", [.reg ⟨0, 2⟩, .imm 3]⟩, ⟨"core.SetInstruction", [.reg ⟨0, 5⟩, .imm 0]⟩,
  ⟨"core.SetInstruction", [.reg ⟨2, 0⟩, .imm 1]⟩, ⟨"core.SetInstruction", [.reg ⟨2, 1⟩, .imm 2]⟩,
  ⟨"vanilla.GateHInstruction", [.reg ⟨2, 0⟩]⟩,
  ⟨"core.AddInstruction", [.reg ⟨0, 5⟩, .reg ⟨0, 5⟩, .reg ⟨0, 2⟩]⟩,
  ⟨"core.AddInstruction", [.reg ⟨0, 5⟩, .reg ⟨0, 5⟩, .reg ⟨0, 2⟩]⟩,
  ⟨"vanilla.CnotInstruction", [.reg ⟨2, 0⟩, .reg ⟨2, 1⟩]⟩,
  ⟨"vanilla.GateTInstruction", [.reg ⟨2, 1⟩]⟩,
  ⟨"core.AddInstruction", [.reg ⟨0, 0⟩, .reg ⟨0, 0⟩, .reg ⟨0, 1⟩]⟩,
  ⟨"core.BltInstruction", [.reg ⟨0, 0⟩, .reg ⟨0, 2⟩, .imm 9]⟩]

/-- why `index_is_expansion_start` excludes the seeded change: with `debug=True` the expansion of
the loop head starts at serialised position 10 (`set Q2 0`, the first instruction of the
carbon–carbon circuit) and the back edge is retargeted to 10; its chunk contains 4 debug markers, so
a pass that subtracted the marker count AFTER appending the chunk would record 6 — the second
rotation of `h Q0` — and `idx[i] = tposS cs i` (`|pre| = index_changes[i]`) would be false there. -/
theorem seeded_index_loop_head :
    indexChanges (Gen.cfg true false) loopHeadCC = some [0, 1, 2, 3, 4, 5, 6, 8, 9, 10, 38, 41, 42] ∧
    (transpile (Gen.cfg true false) loopHeadCC).toOption.map (fun o =>
        ((serialise o)[10]?, (serialise o)[42]?, (serialise o)[10 - 4]?,
         ((o.drop 10).take 32).filter isDebug |>.length)) =
      some (some ⟨"core.SetInstruction", [.reg ⟨2, 2⟩, .imm 0]⟩,
            some ⟨"core.BltInstruction", [.reg ⟨0, 0⟩, .reg ⟨0, 2⟩, .imm 10]⟩,
            some ⟨"nv.RotYInstruction", [.reg ⟨2, 0⟩, .imm 8, .imm 4]⟩, 4) := by
  decide +kernel

/-- the output is the concatenation of the patched chunks, plus the padding exactly when some
emitted branch targeted the original end -/
theorem output_structure (cfg : Cfg) (S out : List Instr) (h : transpile cfg S = .ok out) :
    ∃ cs, Chunks cfg [] [] S cs ∧ cs.length = S.length ∧
      out = cs.flatten.map (patchOf cfg S cs) ++ (if endTargeted cfg S cs then [cfg.pad] else []) := by
  obtain ⟨cs, hc, _, hout, _⟩ := transpile_structure h
  exact ⟨cs, hc, hc.length_eq, hout⟩

/-- **Every `jmp`/`b**` lands on the expansion of its original target.** For the branch `x = S[p]`
with original target `t`: `0 ≤ t ≤ len S`; in the serialised output `x` sits at `index_changes[p]`
with target `tposS cs t`; if `t < len S` the serialised output has the expansion of `S[t]` exactly at
that position; if `t = len S` the padding instruction was appended and sits exactly there. -/
theorem branch_lands_on_expansion (cfg : Cfg) (hT : TemplatesNoBranch cfg = true) (hW : InfosWF cfg = true)
    (hpad : isDebug cfg.pad = false) (S out : List Instr) (h : transpile cfg S = .ok out)
    (p : Nat) (x : Instr) (t : Int) (hx : S[p]? = some x) (hl : lineOf cfg x = some t) :
    ∃ cs, Chunks cfg [] [] S cs ∧ 0 ≤ t ∧ t.toNat ≤ S.length ∧
      (∃ pre post, serialise out = pre ++ [setLine cfg x (tposS cs t.toNat)] ++ post ∧ pre.length = tposS cs p) ∧
      (t.toNat < S.length → ∃ c pre post, cs[t.toNat]? = some c ∧
          serialise out = pre ++ serialise (c.map (patchOf cfg S cs)) ++ post ∧ pre.length = tposS cs t.toNat) ∧
      (t.toNat = S.length → ∃ pre, serialise out = pre ++ [cfg.pad] ∧ pre.length = tposS cs t.toNat) := by
  obtain ⟨cs, hc, _, hout, hok⟩ := transpile_structure h
  have hlen := hc.length_eq
  obtain ⟨hp, hxe⟩ := List.getElem?_eq_some_iff.1 hx
  have hp' : p < cs.length := by omega
  -- the chunk of a branch is the branch itself
  have hng : isGate cfg x = false := not_gate_of_line hW hl
  have hchunk : cs[p] = [x] := by
    rcases hc.chunk_cases hT p hp hp' with ⟨hg, _⟩ | ⟨_, hcp⟩
    · rw [hxe, hng] at hg; cases hg
    · rw [hcp, hxe]
  have hmem : x ∈ cs.flatten :=
    List.mem_flatten.2 ⟨cs[p], List.getElem_mem hp', by rw [hchunk]; exact List.mem_singleton.2 rfl⟩
  obtain ⟨h0, hle, hpatch⟩ := patch_branch hlen hl (hok x hmem)
  have hnd : isDebug x = false := by
    unfold lineOf at hl
    cases hi : infoOf cfg x.cls with
    | none => rw [hi] at hl; cases hl
    | some info => exact not_debug_of_info hW hi
  refine ⟨cs, hc, h0, hle, ?_, ?_, ?_⟩
  · obtain ⟨pre, post, h1, h2⟩ := code_at (cfg := cfg) (S := S) hpad p hp'
    refine ⟨pre, post, ?_, h2⟩
    rw [hout, h1, hchunk]
    have : isDebug (patchOf cfg S cs x) = false := by
      unfold patchOf isDebug; rw [patchOne_cls]; exact hnd
    rw [hpatch] at this
    simp [serialise, hpatch, this]
  · intro ht
    have ht' : t.toNat < cs.length := by omega
    obtain ⟨pre, post, h1, h2⟩ := code_at (cfg := cfg) (S := S) hpad t.toNat ht'
    exact ⟨cs[t.toNat], pre, post, by simp, by rw [hout]; exact h1, h2⟩
  · intro ht
    have he : endTargeted cfg S cs = true := by
      unfold endTargeted
      refine List.any_eq_true.2 ⟨x, hmem, ?_⟩
      have : t = (S.length : Int) := by omega
      simp [hl, this]
    obtain ⟨pre, h1, h2⟩ := pad_at (cfg := cfg) (S := S) hpad he
    exact ⟨pre, by rw [hout]; exact h1, by rw [h2, ht, hlen]⟩

/-- the case `t = 0` of `branch_lands_on_expansion`, spelled out: a branch to the FIRST instruction
keeps target 0 (the expansion of instruction 0 starts the serialised output); it is not the end
label, whatever Python's truthiness of `0` suggests (seeded change C08_7) -/
theorem branch_to_line_zero (cfg : Cfg) (hT : TemplatesNoBranch cfg = true) (hW : InfosWF cfg = true)
    (hpad : isDebug cfg.pad = false) (S out : List Instr) (h : transpile cfg S = .ok out)
    (p : Nat) (x : Instr) (hx : S[p]? = some x) (hl : lineOf cfg x = some 0) :
    ∃ cs, Chunks cfg [] [] S cs ∧
      (∃ pre post, serialise out = pre ++ [setLine cfg x 0] ++ post ∧ pre.length = tposS cs p) ∧
      (∃ c post, cs[0]? = some c ∧ serialise out = serialise (c.map (patchOf cfg S cs)) ++ post) := by
  obtain ⟨cs, hc, _, _, h1, h2, _⟩ := branch_lands_on_expansion cfg hT hW hpad S out h p x 0 hx hl
  have hpos : 0 < S.length := by
    have := (List.getElem?_eq_some_iff.1 hx).1; omega
  refine ⟨cs, hc, ?_, ?_⟩
  · simpa [tposS_zero] using h1
  · obtain ⟨c, pre, post, hc0, hs, hlen⟩ := h2 (by simpa using hpos)
    simp only [Int.toNat_zero, tposS_zero] at hc0 hlen
    have : pre = [] := List.eq_nil_of_length_eq_zero hlen
    subst this
    exact ⟨c, post, hc0, by simpa using hs⟩

/-- the loop of seeded change C08_7 (head = line 0): the back edge keeps target 0 and no padding
is appended, for both debug settings -/
def loopHeadZero : List Instr := [
  ⟨"core.SetInstruction", [.reg ⟨0, 1⟩, .imm 1]⟩, ⟨"core.SetInstruction", [.reg ⟨0, 2⟩, .imm 3]⟩,
  ⟨"core.SetInstruction", [.reg ⟨2, 0⟩, .imm 1]⟩, ⟨"vanilla.GateTInstruction", [.reg ⟨2, 0⟩]⟩,
  ⟨"core.AddInstruction", [.reg ⟨0, 0⟩, .reg ⟨0, 0⟩, .reg ⟨0, 1⟩]⟩,
  ⟨"core.BltInstruction", [.reg ⟨0, 0⟩, .reg ⟨0, 2⟩, .imm 0]⟩,
  ⟨"core.SetInstruction", [.reg ⟨2, 0⟩, .imm 1]⟩]

theorem seeded_line_zero : ∀ d : Bool,
    (transpile (Gen.cfg d false) loopHeadZero).toOption.map (fun o => (o[7]?, o.length)) =
      some (some ⟨"core.BltInstruction", [.reg ⟨0, 0⟩, .reg ⟨0, 2⟩, .imm 0]⟩, 9) := by
  decide +kernel

/-- the program of seeded change C08_20: a branch to the label BEHIND a trailing `ret_reg`. By
`branch_lands_on_expansion` (case `t = len S`: `serialise out = pre ++ [pad]`) the padding is the LAST
instruction, so a taken branch skips the return block as the vanilla run does; here: the `bez` targets
the last position, which holds the padding, and `ret_reg R1` sits right before it (both debug settings).
A pass that put the padding in front of the return block would contradict that theorem. -/
theorem seeded_end_label_behind_return_block : ∀ d : Bool,
    let S : List Instr := [
      ⟨"core.SetInstruction", [.reg ⟨0, 2⟩, .imm 0]⟩, ⟨"core.SetInstruction", [.reg ⟨0, 1⟩, .imm 5]⟩,
      ⟨"core.BezInstruction", [.reg ⟨0, 2⟩, .imm 5]⟩,
      ⟨"core.SetInstruction", [.reg ⟨0, 1⟩, .imm 7]⟩,
      ⟨"core.RetRegInstruction", [.reg ⟨0, 1⟩]⟩]
    (transpile (Gen.cfg d false) S).toOption.map (fun o => (o[2]?, o[4]?, o[5]?, o.length)) =
      some (some ⟨"core.BezInstruction", [.reg ⟨0, 2⟩, .imm 5]⟩,
            some ⟨"core.RetRegInstruction", [.reg ⟨0, 1⟩]⟩, some (Gen.cfg d false).pad, 6) := by
  decide +kernel

/-- **Non-gate instructions appear exactly once and in order**: erasing the chunks that come from
gates from the output chunks, and the gates from the input, gives equal lists up to the target
patching `patchOf`. -/
theorem nongate_order (cfg : Cfg) (S out : List Instr) (h : transpile cfg S = .ok out) :
    ∃ cs, Chunks cfg [] [] S cs ∧
      out = cs.flatten.map (patchOf cfg S cs) ++ (if endTargeted cfg S cs then [cfg.pad] else []) ∧
      (((S.zip cs).filter (fun q => !isGate cfg q.1)).map (fun q => q.2.map (patchOf cfg S cs))).flatten
        = (S.filter (fun i => !isGate cfg i)).map (patchOf cfg S cs) := by
  obtain ⟨cs, hc, _, hout, _⟩ := transpile_structure h
  refine ⟨cs, hc, hout, ?_⟩
  have := hc.nongate
  have h2 : ((S.zip cs).filter (fun q => !isGate cfg q.1)).map (fun q => q.2.map (patchOf cfg S cs))
      = (((S.zip cs).filter (fun q => !isGate cfg q.1)).map (·.2)).map (fun c => c.map (patchOf cfg S cs)) := by
    simp [List.map_map]
  rw [h2, this]
  simp only [List.map_map, Function.comp_def, List.map_cons, List.map_nil]
  generalize S.filter (fun i => !isGate cfg i) = l
  induction l with
  | nil => rfl
  | cons a l ih => simp [ih]

/-! ## The semantic simulation

FULL STATEMENT of C08 (kept visible; FALSE on the current tree, see F10 below):
  for every vanilla subroutine `S` the SDK can emit (Q registers written by `set` OR by `load`),
  `transpile cfg S = .ok out`, and the serialised `out` simulates `S` step for step.
What is proved is the statement restricted to `QStatic` programs (`…_partial`): every GATE reads its
Q registers straight after a `set` of them (the shape the SDK emits for handles with constant ids);
other instructions may also read Q registers written by `load`/`add`/… provided the pass never
borrows that register. Outside `QStatic` the pass raises or picks the wrong circuit (F10,
`f10_counterexample_*`). `QStatic` includes the SDK's multi-pair EPR shape `set R4 0; mov R4 R3`
(a `mov` out of a register just `set` to 0, target id computed at run time).

Parameters: `M` an abstract instruction semantics with `SemLocal` (C04's obligations), and
`ExpandSound` — THE C07 HYPOTHESIS "sem (expand g) = sem g": each emitted expansion acts on the
memory (quantum state included, up to global phase) as the gate and changes no register except
the one `get_unused_register` returns. -/

/-- table facts for `scratch_ok`: templates contain `set` only in the carbon–carbon rows and only
as `set s <literal>` (both debug and hardware settings) -/
theorem sets_only_scratch_gen : ∀ d h : Bool, SetsOnlyScratch (Gen.cfg d h) = true := by decide +kernel

/-- **scratch_ok** — about the pass's OUTPUT: in the chunk emitted for a gate at position `p`, every
register written (every `set r v` of the expansion; expansions contain no other register write) is
the register `get_unused_register` returns for the registers named up to and including `p`; hence it
is a Q register named by no instruction at or before `p`, and it lies in no window at `p` or `p + 1`
(no execution reads it before a later `set` re-defines it): it is not live.
(A pass that cached the register of an earlier gate — seeded change C08_0 — violates the first
conjunct: its second carbon–carbon gate writes a register the program started using in between.) -/
theorem scratch_ok (cfg : Cfg) (hS : SetsOnlyScratch cfg = true) (S out : List Instr)
    (h : transpile cfg S = .ok out) :
    ∃ cs, Chunks cfg [] [] S cs ∧
      ∀ p x c, S[p]? = some x → isGate cfg x = true → cs[p]? = some c →
        ∀ y ∈ c, ∀ r v, setOf cfg y = some (r, v) →
          getUnused ((S.take (p + 1)).flatMap topRegs) = .ok r ∧
          r ∉ (S.take (p + 1)).flatMap topRegs ∧ r.bank = bankQ ∧
          K cfg S p r = none ∧ K cfg S (p + 1) r = none := by
  obtain ⟨cs, hc, _, _, _⟩ := transpile_structure h
  refine ⟨cs, hc, ?_⟩
  intro p x c hx hg hcp y hy r v hset
  obtain ⟨hp, hxe⟩ := List.getElem?_eq_some_iff.1 hx
  obtain ⟨info, hi, hp', hex⟩ := hc.at p hp
  rw [hxe] at hi hex
  have hce : cs[p] = c := by
    rw [List.getElem?_eq_getElem hp'] at hcp; simpa using hcp
  rw [hce] at hex
  have hgi : infoGate info = true := by rw [← isGate_eq hi]; exact hg
  have hgu := expandInstr_sets hS hi hgi hex hy hset
  simp only [List.nil_append] at hgu
  have hf := getUnused_fresh hgu
  refine ⟨hgu, hf.1, hf.2, ?_, ?_⟩
  · cases hk : K cfg S p r with
    | none => rfl
    | some v' =>
      have := K_mem_used hk
      refine absurd ?_ hf.1
      rw [take_succ_of_get hx]; simp only [List.flatMap_append, List.mem_append]; exact Or.inl this
  · cases hk : K cfg S (p + 1) r with
    | none => rfl
    | some v' => exact absurd (K_mem_used hk) hf.1

/-- the program of seeded change C08_0 (`cnot` on carbons 1, 2; then `Q2` starts being used for
qubit 3; a second carbon–carbon gate; `x Q2` without re-setting): the pass as it is borrows `Q2` for
the first gate and `Q3` for the second, so `Q2` still names qubit 3 at the end -/
def seededScratch : List Instr := [
  ⟨"core.SetInstruction", [qreg 0, .imm 1]⟩,
  ⟨"core.SetInstruction", [qreg 1, .imm 2]⟩,
  ⟨"vanilla.CnotInstruction", [qreg 0, qreg 1]⟩,
  ⟨"core.SetInstruction", [qreg 2, .imm 3]⟩,
  ⟨"vanilla.GateHInstruction", [qreg 2]⟩,
  ⟨"vanilla.CphaseInstruction", [qreg 1, qreg 0]⟩,
  ⟨"vanilla.GateXInstruction", [qreg 2]⟩]

theorem seeded_scratch_registers :
    QStatic (Gen.cfg false false) seededScratch = true ∧
    (transpile (Gen.cfg false false) seededScratch).toOption.map (fun o =>
      o.filterMap (fun i => match setOf (Gen.cfg false false) i with
        | some (r, v) => if r.bank == bankQ then some (r.idx, v) else none
        | none => none)) = some [(0, 1), (1, 2), (2, 0), (2, 3), (3, 0)] := by
  decide +kernel

/-- why `scratch_ok` excludes the seeded change: the register borrowed at the first gate (`Q2`,
position 2) is, at the second carbon–carbon gate (position 5), named by the program and inside a
window (`K … 6 Q2 = some 3`: it is live, holding qubit 3); `get_unused_register` there returns `Q3`.
A model that re-used the cached `Q2` would write a register for which the conjuncts
`r ∉ …flatMap topRegs` and `K cfg S (p + 1) r = none` of `scratch_ok` are false. -/
theorem seeded_cache_violates_scratch_ok :
    getUnused ((seededScratch.take 3).flatMap topRegs) = .ok ⟨2, 2⟩ ∧
    getUnused ((seededScratch.take 6).flatMap topRegs) = .ok ⟨2, 3⟩ ∧
    (⟨2, 2⟩ : Reg) ∈ (seededScratch.take 6).flatMap topRegs ∧
    K (Gen.cfg false false) seededScratch 6 ⟨2, 2⟩ = some 3 := by
  decide +kernel

/-- the program of seeded change C08_12: `Q2` names qubit 3, which is freed, and re-allocated through
`Q2` after a carbon–carbon gate with no new `set` (legal: `qfree` does not write its register) -/
def freeThenRealloc : List Instr := [
  ⟨"core.SetInstruction", [qreg 2, .imm 3]⟩, ⟨"core.QAllocInstruction", [qreg 2]⟩,
  ⟨"core.InitInstruction", [qreg 2]⟩, ⟨"vanilla.GateHInstruction", [qreg 2]⟩,
  ⟨"core.SetInstruction", [qreg 0, .imm 1]⟩, ⟨"core.SetInstruction", [qreg 1, .imm 2]⟩,
  ⟨"core.QFreeInstruction", [qreg 2]⟩,
  ⟨"vanilla.CnotInstruction", [qreg 0, qreg 1]⟩,
  ⟨"core.QAllocInstruction", [qreg 2]⟩, ⟨"core.InitInstruction", [qreg 2]⟩,
  ⟨"vanilla.GateXInstruction", [qreg 2]⟩]

/-- why `scratch_ok` excludes the seeded change "release a Q register for scratch use once its qubit
is freed": the program is inside `QStatic` (a `qfree` closes no window: at the carbon–carbon gate,
position 7, and after it `Q2` is still known to hold 3 and is read by the `qalloc` at 8); the pass
borrows `Q3`, and `Q2` is among the registers named before the gate. A model that dropped `Q2` from
the used set at the `qfree` would borrow `Q2`, for which `r ∉ …flatMap topRegs` and
`K cfg S (p + 1) r = none` of `scratch_ok` are false. -/
theorem seeded_qfree_register_live :
    QStatic (Gen.cfg false false) freeThenRealloc = true ∧
    getUnused ((freeThenRealloc.take 8).flatMap topRegs) = .ok ⟨2, 3⟩ ∧
    (⟨2, 2⟩ : Reg) ∈ (freeThenRealloc.take 8).flatMap topRegs ∧
    K (Gen.cfg false false) freeThenRealloc 7 ⟨2, 2⟩ = some 3 ∧
    K (Gen.cfg false false) freeThenRealloc 8 ⟨2, 2⟩ = some 3 ∧
    getUnused (((freeThenRealloc.take 8).flatMap topRegs).filter (· != ⟨2, 2⟩)) = .ok ⟨2, 2⟩ := by
  decide +kernel

/-- the program of seeded change C08_17: `Q0` is written by `load` (never a gate operand, so this is
not F10), stays live across the carbon–carbon `cnot Q1 Q2`, and is read by `meas`/`qfree` afterwards -/
def loadLiveAcrossCC : List Instr := [
  ⟨"core.SetInstruction", [rreg 0, .imm 0]⟩,
  ⟨"core.SetInstruction", [qreg 4, .imm 0]⟩, ⟨"core.SetInstruction", [qreg 1, .imm 1]⟩,
  ⟨"core.SetInstruction", [qreg 2, .imm 2]⟩, ⟨"core.SetInstruction", [qreg 3, .imm 3]⟩,
  ⟨"vanilla.GateHInstruction", [qreg 1]⟩,
  ⟨"core.LoadInstruction", [qreg 0, .entry 0 ⟨0, 0⟩]⟩,
  ⟨"vanilla.CnotInstruction", [qreg 1, qreg 2]⟩,
  ⟨"core.MeasInstruction", [qreg 0, .reg ⟨3, 0⟩]⟩,
  ⟨"core.QFreeInstruction", [qreg 0]⟩]

/-- why `scratch_ok` excludes the seeded change "only `set` marks a register as used": `scratch_ok`
speaks about EVERY register mentioned at or before the gate, whatever instruction mentioned it. Here
the program is inside `QStatic` (`Q0` is never borrowed, so `meas Q0` may read it outside a window),
`Q0` is mentioned by the `load` before the gate at position 7, and the pass borrows `Q5`; with only
the `set`-written registers counted, `get_unused_register` would return `Q0`, for which
`r ∉ …flatMap topRegs` of `scratch_ok` is false. -/
theorem seeded_load_written_register_named :
    QStatic (Gen.cfg false false) loadLiveAcrossCC = true ∧
    getUnused ((loadLiveAcrossCC.take 8).flatMap topRegs) = .ok ⟨2, 5⟩ ∧
    (⟨2, 0⟩ : Reg) ∈ (loadLiveAcrossCC.take 8).flatMap topRegs ∧
    scratchRegs (Gen.cfg false false) loadLiveAcrossCC = [⟨2, 5⟩] ∧
    getUnused (((loadLiveAcrossCC.take 8).filterMap (fun i =>
      (setOf (Gen.cfg false false) i).map (·.1)))) = .ok ⟨2, 0⟩ := by
  decide +kernel

/-- the program of seeded change C08_22 (straight-line form): `Q0` is `set` once to 0; its qubit is
allocated, used, freed and allocated again; then `mov Q1 Q0` WITHOUT a new `set`. `qalloc`, `init`,
`y`, `qfree` do not write `Q0`, so inside `QStatic` the window stays open (`K … 10 Q0 = some 0`), the
pass still knows the value and emits the carbon→electron circuit (6 instructions, electron-controlled
rotations). A pass that forgot the value at `qfree` would take the unknown-ids fallback — the
electron→carbon circuit (4 instructions) with a CARBON as control. -/
theorem seeded_value_persists_across_qfree :
    let S : List Instr := [
      ⟨"core.SetInstruction", [qreg 0, .imm 0]⟩, ⟨"core.SetInstruction", [qreg 1, .imm 1]⟩,
      ⟨"core.QAllocInstruction", [qreg 1]⟩, ⟨"core.InitInstruction", [qreg 1]⟩,
      ⟨"core.QAllocInstruction", [qreg 0]⟩, ⟨"core.InitInstruction", [qreg 0]⟩,
      ⟨"vanilla.GateYInstruction", [qreg 0]⟩, ⟨"core.QFreeInstruction", [qreg 0]⟩,
      ⟨"core.QAllocInstruction", [qreg 0]⟩, ⟨"core.InitInstruction", [qreg 0]⟩,
      ⟨"vanilla.MovInstruction", [qreg 1, qreg 0]⟩]
    QStatic (Gen.cfg false false) S = true ∧ K (Gen.cfg false false) S 10 ⟨2, 0⟩ = some 0 ∧
    (transpile (Gen.cfg false false) S).toOption.map (fun o => (o.length, o[11]?)) =
      some (16, some ⟨"nv.ControlledRotYInstruction", [qreg 0, qreg 1, .imm 24, .imm 4]⟩) := by
  decide +kernel

/-- **transpile_simulates (partial: under `QStatic`)**. Every finite execution of the vanilla
subroutine from `s0` to `(pc, s)` is matched by an execution of the serialised NV subroutine from
the same `s0` to `(index_changes pc, u)` — pc correspondence through the index map — with
`Rel`: equal memory (classical arrays, quantum state, …), equal registers except Q registers the
pass borrows as scratch somewhere in `S` (`ScratchSet`), and equal values of every Q register the
program can read at `pc` (inside a window), borrowed or not. The exception is necessary: the NV
program really overwrites the borrowed register with 0, and `scratch_ok` shows it is dead there. -/
theorem transpile_simulates_partial {μ : Type} (M : Sem μ) (cfg : Cfg)
    (hT : TemplatesNoBranch cfg = true) (hW : InfosWF cfg = true) (hpad : isDebug cfg.pad = false)
    (hL : SemLocal M cfg) (hE : ExpandSound M cfg)
    (S out : List Instr) (hQ : QStatic cfg S = true) (h : transpile cfg S = .ok out)
    (s0 s : St μ) (pc : Nat) (hrun : Steps M cfg S (0, s0) (pc, s)) :
    ∃ cs u, Chunks cfg [] [] S cs ∧ indexChanges cfg S = some (starts 0 cs) ∧
      Steps M cfg (serialise out) (0, s0) (tposS cs pc, u) ∧ Rel cfg S pc s u := by
  obtain ⟨cs, hc, hidx, hout, hok⟩ := transpile_structure h
  have C : Ctx M cfg S out cs := ⟨hT, hW, hpad, hL, hE, hQ, hc, hout, hok⟩
  obtain ⟨u, h1, h2⟩ := sim_steps C hrun s0 (Rel.init cfg S s0)
  rw [tposS_zero] at h1
  exact ⟨cs, u, hc, hidx, h1, h2⟩

/-- **Terminating runs**: if the vanilla subroutine runs off its end in state `s`, the serialised
NV subroutine runs off *its* end in a state with the same memory and the same registers — all
non-Q registers and every Q register that `get_unused_register` hands out nowhere in `S` —
except, when the padding `set C15 1337` was appended (a branch targeted the end), the padding
register (the documented mechanism). -/
theorem transpile_simulates_final_partial {μ : Type} (M : Sem μ) (cfg : Cfg)
    (hT : TemplatesNoBranch cfg = true) (hW : InfosWF cfg = true) (hpad : isDebug cfg.pad = false)
    (hpl : lineOf cfg cfg.pad = none) (rp : Reg) (vp : Int) (hps : setOf cfg cfg.pad = some (rp, vp))
    (hL : SemLocal M cfg) (hE : ExpandSound M cfg)
    (S out : List Instr) (hQ : QStatic cfg S = true) (h : transpile cfg S = .ok out)
    (s0 s : St μ) (hrun : Steps M cfg S (0, s0) (S.length, s)) :
    ∃ cs u, Chunks cfg [] [] S cs ∧ Steps M cfg (serialise out) (0, s0) ((serialise out).length, u) ∧
      s.mem = u.mem ∧
      ∀ r, (r.bank ≠ bankQ ∨ ¬ ScratchSet cfg S r) → (endTargeted cfg S cs = false ∨ r ≠ rp) →
        s.regs r = u.regs r := by
  obtain ⟨cs, hc, hidx, hout, hok⟩ := transpile_structure h
  have C : Ctx M cfg S out cs := ⟨hT, hW, hpad, hL, hE, hQ, hc, hout, hok⟩
  obtain ⟨u, h1, h2⟩ := sim_steps C hrun s0 (Rel.init cfg S s0)
  rw [tposS_zero] at h1
  obtain ⟨u', h3, hm, hr⟩ := final_pad C hpl hps u
  refine ⟨cs, u', hc, h1.trans h3, by rw [hm]; exact h2.mem, ?_⟩
  intro r hb hc'
  rw [hr r hc']; exact h2.outside r hb

/-! ### The C07 hypothesis discharged

`MQ A Mc` is the concrete semantics: classical instructions as `Mc` (any semantics with `SemLocal`),
every vanilla/NV gate instruction applies the operator its mnemonic denotes to the qubits its
registers name (`QAction`, states up to global phase). The only facts about the quantum action are
`QLawful` (exact operator identities on a few roles lift to the whole register under an injective
assignment of qubits; a rotation depends only on its angle; a circuit whose exact operator satisfies
C07's `isTransfer` is the transfer). `mov src tgt` is the PARTIAL state transfer of the property
statement ("the same state transfer onto a freshly initialised target"): defined when the target is
in |0⟩, between the electron and a carbon; the source — to be freed — is left in the state `movPhi`
the device's move leaves it in (the published SWAP matrix is NOT used: it disagrees with every NV
move circuit on the source). -/

/-- **tie**: for both debug and both hardware settings, every template of Gen/NvExpand, read over
roles, IS the sequence of Gen/NvDecomp for the same gate and placement (the sequences C07's
operator identities are about), and the class table agrees with the classes `MQ` interprets -/
theorem templates_eq_nvdecomp : ∀ d h : Bool,
    AllTies (Gen.cfg d h) = true ∧ ClsTie (Gen.cfg d h) = true := all_ties_gen

/-- **expandSound_of_C07**: `ExpandSound` holds for the concrete semantics and the generated
expansion table; the facts used are C07's `single_gates_eq`, `cnot_placements_eq`,
`cphase_placements_eq` (with `electron_returned`: the carbon–carbon targets are gate ⊗ 1 on the
borrowed electron), `mov_transfer` (both move circuits are transfers onto a |0⟩ target), the tie
above, and `QLawful`. -/
theorem expandSound_of_C07 {C Q : Type} (A : QAction Q) (hA : QLawful A) (Mc : Sem (C × Q)) (d h : Bool)
    (hMc : SemLocal Mc (Gen.cfg d h)) : ExpandSound (MQ A Mc) (Gen.cfg d h) :=
  Tr.expandSound_of_C07 A hA Mc _ hMc (all_ties_gen d h).1 (all_ties_gen d h).2

/-- **transpile_simulates for the generated table, no gate hypothesis** (partial: `QStatic`),
`mov` included: known ids in either direction (C07 `mov_transfer` for the electron→carbon and the
carbon→electron circuit) and the SDK's run-time-id shape (electron→carbon circuit, source register
known to hold 0). A vanilla run in which a `mov` meets a target that is not in |0⟩ has no step there
(the transfer is undefined), so nothing is claimed about it. -/
theorem transpile_simulates_C07_partial {C Q : Type} (A : QAction Q) (hA : QLawful A)
    (Mc : Sem (C × Q)) (d h : Bool) (hMc : SemLocal Mc (Gen.cfg d h))
    (S out : List Instr) (hQ : QStatic (Gen.cfg d h) S = true) (ht : transpile (Gen.cfg d h) S = .ok out)
    (s0 s : St (C × Q)) (pc : Nat) (hrun : Steps (MQ A Mc) (Gen.cfg d h) S (0, s0) (pc, s)) :
    ∃ cs u, Chunks (Gen.cfg d h) [] [] S cs ∧ indexChanges (Gen.cfg d h) S = some (starts 0 cs) ∧
      Steps (MQ A Mc) (Gen.cfg d h) (serialise out) (0, s0) (tposS cs pc, u) ∧
      Rel (Gen.cfg d h) S pc s u :=
  transpile_simulates_partial (MQ A Mc) (Gen.cfg d h) (expansions_have_no_branch d h).1
    (expansions_have_no_branch d h).2.1 (expansions_have_no_branch d h).2.2
    (semLocal_MQ A Mc _ hMc (all_ties_gen d h).2) (expandSound_of_C07 A hA Mc d h hMc) S out hQ ht s0 s pc hrun

/-- `QLawful` is satisfiable (trivially, on a one-point state space; the intended instance is the
unitary action on state vectors modulo phase) -/
example : ∃ A : QAction Unit, QLawful A :=
  ⟨⟨fun _ q => q, fun _ _ _ _ => none⟩,
   ⟨fun _ _ _ _ _ _ _ _ _ => rfl, fun _ _ _ _ _ _ _ _ _ => rfl, fun _ _ _ _ _ _ _ _ _ _ h => by cases h⟩⟩

/-- the generated configuration satisfies the side conditions on the padding instruction -/
theorem pad_is_set : ∀ d h : Bool, lineOf (Gen.cfg d h) (Gen.cfg d h).pad = none ∧
    setOf (Gen.cfg d h) (Gen.cfg d h).pad = some (⟨1, 15⟩, 1337) := by
  decide +kernel

/-! ### non-vacuity: the hypotheses are satisfiable on a non-trivial program -/

/-- a loop around a carbon–carbon gate with an end label: inside `QStatic`, transpiles, pads -/
def demo : List Instr := [
  ⟨"core.SetInstruction", [.reg ⟨0, 0⟩, .imm 0]⟩,
  ⟨"core.BeqInstruction", [.reg ⟨0, 0⟩, .reg ⟨0, 1⟩, .imm 7]⟩,
  ⟨"core.SetInstruction", [.reg ⟨2, 0⟩, .imm 1]⟩,
  ⟨"core.SetInstruction", [.reg ⟨2, 1⟩, .imm 2]⟩,
  ⟨"vanilla.CnotInstruction", [.reg ⟨2, 0⟩, .reg ⟨2, 1⟩]⟩,
  ⟨"core.AddInstruction", [.reg ⟨0, 0⟩, .reg ⟨0, 0⟩, .reg ⟨0, 2⟩]⟩,
  ⟨"core.JmpInstruction", [.imm 1]⟩]

example : QStatic (Gen.cfg true false) demo = true
    ∧ (transpile (Gen.cfg true false) demo).toOption.map (fun o => (o.length, (serialise o).length)) = some (39, 35)
    ∧ indexChanges (Gen.cfg true false) demo = some [0, 1, 2, 3, 4, 32, 33] := by
  decide +kernel

/-- `set` classes declare their register as written (decided on the generated table) -/
def SetWrites (cfg : Cfg) : Bool := cfg.infos.all (fun r => !r.isSet || r.writes == [0])

theorem set_writes_gen : ∀ d h : Bool, SetWrites (Gen.cfg d h) = true := by decide +kernel

theorem writesOf_set {cfg : Cfg} (hSW : SetWrites cfg = true) {i : Instr} {r : Reg} {v : Int}
    (hs : setOf cfg i = some (r, v)) : writesOf cfg i = [r] := by
  unfold setOf at hs
  unfold writesOf
  cases hi : infoOf cfg i.cls with
  | none => rw [hi] at hs; cases hs
  | some info =>
    rw [hi] at hs
    simp only at hs ⊢
    have hw := (List.all_eq_true.1 hSW) info (infoOf_cls hi).1
    split at hs
    · rename_i hset
      simp only [hset, Bool.not_true, Bool.false_or, beq_iff_eq] at hw
      split at hs
      · rename_i r1 v1 hops
        simp only [Option.some.injEq, Prod.mk.injEq] at hs
        rw [hw, hops]; simp [opReg?, hs.1]
      · cases hs
    · cases hs

/-- a semantics satisfying `SemLocal` exists for the generated configuration (the hypotheses of the
simulation theorem are not contradictory): `set` is `set`, everything else faults. The intended
instance is the executor model of C04. -/
example (d h : Bool) : ∃ M : Sem Unit, SemLocal M (Gen.cfg d h) ∧ ExpandSound M (Gen.cfg d h) := by
  refine ⟨⟨fun i s => match setOf (Gen.cfg d h) i with
      | some (r, v) => some ⟨fun r' => if r' = r then some v else s.regs r', s.mem⟩
      | none => none, fun _ _ => none⟩, ?_, ?_⟩
  rotate_left
  · intro g info rv used ex s u s' hi hg _ _ _ _ _ _ he
    have := (setOf_none_of_gate (expansions_have_no_branch d h).2.1
      (by rw [isGate_eq hi]; exact hg)).1
    simp [this] at he
  have hSW := set_writes_gen d h
  constructor
  · intro i s s' r hex hnw
    simp only at hex
    split at hex
    · rename_i r0 v0 hs
      simp only [Option.some.injEq] at hex
      subst hex
      rw [writesOf_set hSW hs] at hnw
      have : r ≠ r0 := by simpa using hnw
      simp [this]
    · cases hex
  · intro i r v s hs
    simp only [hs]
    exact ⟨_, rfl, trivial, fun _ => rfl⟩
  · intro i s u s' _ _ hex
    simp only at hex ⊢
    split at hex
    · rename_i r0 v0 hs
      simp only [Option.some.injEq] at hex
      subst hex
      refine ⟨_, rfl, trivial, ?_⟩
      intro r hr
      rw [writesOf_set hSW hs] at hr
      have : r = r0 := by simpa using hr
      simp [this]
    · cases hex
  · intro _ _ _ _ _; rfl
  · intro _ _ _; rfl

/-! ## Witnesses of the findings, in the model -/


/-- F10, first witness: `load Q0 @0[R0]; set Q1 2; cnot Q0 Q1` -/
def f10a : List Instr := [
  ⟨"core.LoadInstruction", [qreg 0, .entry 0 ⟨0, 0⟩]⟩,
  ⟨"core.SetInstruction", [qreg 1, .imm 2]⟩,
  ⟨"vanilla.CnotInstruction", [qreg 0, qreg 1]⟩]

/-- F10: a Q register written by `load` reaches a gate: the pass raises AssertionError -/
theorem f10_counterexample_asserts :
    transpile (Gen.cfg false false) f10a = .error .assertion ∧ QStatic (Gen.cfg false false) f10a = false := by
  decide +kernel

/-- F10, second witness: an earlier `set Q0 1` leaves a stale value behind -/
def f10b : List Instr := ⟨"core.SetInstruction", [qreg 0, .imm 1]⟩ :: f10a

/-- F10: whatever the array holds (e.g. 0 = the electron), the pass emits the carbon–carbon circuit
for `cnot Q0 Q1`, i.e. the decomposition does not reflect the qubit the register actually holds. -/
theorem f10_counterexample_stale :
    (∃ body, expOf (Gen.cfg false false) "cnot_cc" = some body ∧
      (instBody ⟨"vanilla.CnotInstruction", [qreg 0, qreg 1]⟩ ⟨2, 0⟩ ⟨2, 1⟩ ⟨2, 2⟩ body).map
        (fun ex => f10b.take 3 ++ ex) = (transpile (Gen.cfg false false) f10b).toOption)
    ∧ QStatic (Gen.cfg false false) f10b = false := by
  refine ⟨⟨_, rfl, ?_⟩, ?_⟩ <;> decide +kernel

/-! ### `mov` with run-time register ids (the SDK's multi-pair EPR keep: `set R4 0; mov R4 R3`)

The pass knows nothing about non-Q registers. For `mov` it then emits the electron→carbon circuit on
the operand registers, whatever they hold; for any other two-qubit gate it asserts (same code path as
F10: `except KeyError: assert isinstance(instr, vanilla.MovInstruction)`). At operator level the
emitted circuit is a transfer `reg0 → reg1` onto a |0⟩ target for ANY two distinct qubits (C07
`mov_transfer`; confirmed by the state-vector oracle in both directions and by 480 NV-transpiled
keep scenarios of the C10 harness), so the observation "NV-transpiled mov with run-time ids
damages states" was F9 (nv `crot_y` published the X-axis matrix) and disappeared with its fix.
`transpile_simulates_C07_partial` covers `mov` with the transfer semantics (`MQ`, `movExec`). -/

/-- for `mov`, whenever the pass lacks the value of one operand register it emits the
electron→carbon template on `(reg0, reg1)` — independent of what the registers hold -/
theorem mov_unknown_emits_ec (cfg : Cfg) (info : ClsInfo) (htag : info.tag = "mov")
    (rv : List (Reg × Int)) (used : List Reg) (c : String) (ra rb : Reg)
    (hun : rv.lookup ra = none ∨ rv.lookup rb = none) :
    expandGate2 cfg info rv used ⟨c, [.reg ra, .reg rb]⟩
      = useTemplate cfg ("mov_ec" ++ sfx cfg) ⟨c, [.reg ra, .reg rb]⟩ ra rb ra := by
  unfold expandGate2
  simp only
  rcases hun with h | h
  · rw [h]; simp [htag]
  · rw [h]
    cases rv.lookup ra <;> simp [htag]

/-- the SDK's multi-pair shape (`sub`-computed target id, `set R4 0; mov R4 R3; qfree R4`) and a
`mov` with known ids are inside `QStatic`; the first gets the electron→carbon circuit -/
theorem mov_sdk_shape_in_qstatic :
    let sdk : List Instr := [
      ⟨"core.SetInstruction", [rreg 1, .imm 1]⟩, ⟨"core.SubInstruction", [rreg 3, rreg 1, rreg 0]⟩,
      ⟨"core.SetInstruction", [rreg 4, .imm 0]⟩, ⟨"vanilla.MovInstruction", [rreg 4, rreg 3]⟩,
      ⟨"core.QFreeInstruction", [rreg 4]⟩]
    let known : List Instr := [
      ⟨"core.SetInstruction", [qreg 0, .imm 2]⟩, ⟨"core.SetInstruction", [qreg 1, .imm 0]⟩,
      ⟨"vanilla.MovInstruction", [qreg 0, qreg 1]⟩]
    QStatic (Gen.cfg false false) sdk = true ∧ QStatic (Gen.cfg false false) known = true ∧
    (transpile (Gen.cfg false false) sdk).toOption.map (·.length) = some 8 ∧
    (transpile (Gen.cfg false false) known).toOption.map (·.length) = some 8 := by
  decide +kernel

/-- F10, non-Q operand registers: `set R0 0; set R1 1; cnot R0 R1` runs on the controller, the pass
raises AssertionError (outside `QStatic`: two-qubit gates must name Q registers) -/
def f10c : List Instr := [
  ⟨"core.SetInstruction", [rreg 0, .imm 0]⟩,
  ⟨"core.SetInstruction", [rreg 1, .imm 1]⟩,
  ⟨"vanilla.CnotInstruction", [rreg 0, rreg 1]⟩]

theorem f10_nonQ_register_asserts :
    transpile (Gen.cfg false false) f10c = .error .assertion ∧ QStatic (Gen.cfg false false) f10c = false := by
  decide +kernel

/-- F26 (fixed in /repo): `beq R0 R1 3; cnot Q0 Q1 (carbons 1, 2); set R5 7` with debug markers -/
def f26 : List Instr := [
  ⟨"core.SetInstruction", [qreg 0, .imm 1]⟩,
  ⟨"core.SetInstruction", [qreg 1, .imm 2]⟩,
  ⟨"core.BeqInstruction", [rreg 0, rreg 1, .imm 4]⟩,
  ⟨"vanilla.CnotInstruction", [qreg 0, qreg 1]⟩,
  ⟨"core.SetInstruction", [rreg 5, .imm 7]⟩]

/-- with `debug=True` the branch across the carbon–carbon gate targets the serialised position of
`set R5 7` (31), not its position in the command list with debug markers (35) -/
theorem f26_fixed_witness :
    (transpile (Gen.cfg true false) f26).toOption.map (fun out =>
      ((serialise out)[2]?, (serialise out)[31]?, out.length, (serialise out).length)) =
    some (some ⟨"core.BeqInstruction", [rreg 0, rreg 1, .imm 31]⟩,
          some ⟨"core.SetInstruction", [rreg 5, .imm 7]⟩, 36, 32) := by
  decide +kernel

end NQ.C08
