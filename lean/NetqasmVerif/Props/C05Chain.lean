/-
C05 ∘ C03 ∘ C04 — the end-to-end chain

  host program ──C05 `emit_correct`──▶ proto-subroutines under ProtoExec (`Sdk.Steps`)
               ──`Bridge.bridge_run`──▶ the same subroutine, translated, under the executor machine
                                        `Asm.qMachine a` (source level: labels, literals)
               ──C03 `Asm.sim_run`────▶ the ASSEMBLED subroutine under `qMachine a`
               ──`Asm.step_corr_q`────▶ `Exec.stepLoc` (`XSteps`)
               ──C04 bridge `Exec.run_of_xsteps`──▶ the fuel interpreter `Exec.run`.

`flush_end_to_end` is the chain for ONE flush, with every link proved.  `emit_correct_end_to_end`
attaches it to every flush of a host program accepted by the builder, next to the conclusion of
`emit_correct` (trace / arrays / registers / host view of `HostSem`).

What is NOT closed, each as a named hypothesis of `FlushOnExec`:
* `Bridge.QSafe` — at `qalloc` / `qfree` / `init` / gates / `meas` the executor does take a step
  (virtual qubit free / allocated as needed, qubit register defined).  ProtoExec has no unit module
  (it performs these instructions unconditionally); this is what C09 / C13 establish, not composed.
* `Bridge.NameInj`, `Bridge.RegsInRange`, `Asm.LabelTargets` — static, decidable properties of the
  emitted subroutine (label names separate labels; registers within 4 × 16; branch targets are
  labels).  True for what the builder emits; not derived from the builder model here.
* `hX` — the assembled instructions read as `Exec.Instr` (true whenever the mnemonics are those of
  the builder and registers are in range; instance: `nonvacuous_chain`).
* the shared-memory ARRAY view is not part of `Bridge.Rel`: ProtoExec copies on `ret_arr`, the
  executor shares the list object (F25), so the two views agree exactly when no write to the array
  follows its last `ret_arr` — `ViewsOK` of `emit_correct` speaks about ProtoExec's copy.
* between flushes: a flush ends with the executor agreeing with ProtoExec outside the scratch
  registers of that flush (`RelUpTo`), and the next flush needs agreement outside ITS scratch
  registers.  The step from one to the other ("a scratch register of an earlier flush is written
  before it is read later", guaranteed by `reserved_registers` = the builder's active registers, fix
  of F42) is a liveness argument about the builder and is NOT proved: `emit_correct_end_to_end`
  states the per-flush guarantee for every flush separately.
-/
import NetqasmVerif.Lemmas.SdkAsmBridge
import NetqasmVerif.Lemmas.ExecAsmBridge
import NetqasmVerif.Props.C05Asm
namespace NQ.C05
open NQ

/-- ProtoExec state `s` and executor-machine state `t` agree up to the scratch registers of the
subroutine: some source-level machine state `u` carries exactly `s` (`Bridge.Rel`) and agrees with
`t` on memory and on every register except the unnamed, unreserved `R i` -/
def RelUpTo (sub : List Sdk.PCmd) (reserved : List Reg) (s : Sdk.St) (t : Asm.State Asm.XMem) : Prop :=
  ∃ u, Bridge.Rel s u ∧ Asm.AgreeOutsideScratch Gen.numScratch (Bridge.tr sub) u t reserved

/-- **`SemBridge` discharged** in its true, relational form (a function `abs` cannot exist: the
executor state has a unit module that ProtoExec does not determine). -/
theorem semBridge_rel (a : Nat) {P : List Sdk.PCmd} (hN : Bridge.NameInj P) (hR : Bridge.RegsInRange P)
    {s s' : Sdk.St} {n n' : Nat} {t : Asm.State Asm.XMem}
    (hs : Sdk.step P (s, n) = some (s', n')) (hrel : Bridge.Rel s t) (hq : Bridge.QStepOk a P t n) :
    ∃ t', Asm.step (Asm.qMachine a) (Bridge.tr P) t n = .next t' n' ∧ Bridge.Rel s' t' :=
  Bridge.bridge_step a hN hR hs hrel hq

/-- **One flush, end to end.**  A ProtoExec run of the proto-subroutine `sub` from its first to past
its last command is reproduced by `Exec.run` on the ASSEMBLED subroutine `X`: started in any
controller state whose view of application `a` is `conc t` with `t` agreeing with the ProtoExec
state up to scratch registers, it halts (program counter at the end, outcome `halted`) in the state
whose view is `conc t'`, and `t'` agrees with the final ProtoExec state up to scratch registers. -/
theorem flush_end_to_end (a : Nat) (sub : List Sdk.PCmd) (reserved : List Reg)
    (hN : Bridge.NameInj sub) (hR : Bridge.RegsInRange sub)
    (hwf : Asm.LabelTargets (Asm.qMachine a) (Bridge.tr sub))
    (A : List Instr) (hA : Asm.assemble Gen.vanillaRows Gen.excTable Gen.numScratch (Bridge.tr sub) reserved = .ok A)
    (X : List Exec.Instr) (hX : A.map (Asm.embed Gen.vanillaRows) = X.map Asm.ofExecQ)
    {s s' : Sdk.St} (hrun : Sdk.Runs sub 0 sub.length s s')
    (u t : Asm.State Asm.XMem) (hrel : Bridge.Rel s u)
    (hag : Asm.AgreeOutsideScratch Gen.numScratch (Bridge.tr sub) u t reserved)
    (hsafe : Bridge.QSafe a sub u 0)
    (S : Exec.State) (hS : S.apps a = some (Asm.conc t).ap) (hloc : S.loc (Asm.conc t).ap = Asm.conc t) :
    ∃ fuel t', (Exec.run false a X fuel S 0).s = S.put a (Asm.conc t') ∧
      (Exec.run false a X fuel S 0).out = .halted ∧ (Exec.run false a X fuel S 0).pc ≥ X.length ∧
      RelUpTo sub reserved s' t' := by
  -- C05 → source level of C03
  have hrun' : Sdk.Steps sub (s, 0) (s', sub.length) := by simpa [Sdk.Runs] using hrun
  obtain ⟨u', hsrc, hrel'⟩ := Bridge.bridge_run a hN hR hrun' u hrel hsafe
  -- C03: source → assembled
  have hP2 := Asm.assemble_embed C03.tableOk_vanilla hA
  obtain ⟨t', hasm, hag'⟩ := Asm.sim_run (Asm.setOk_qMachine a) (Asm.excCovers_qMachine a) hwf hP2 hsrc t hag
  simp only at hasm
  -- the end position is past the end of the assembled subroutine
  have hhalt : Asm.step (Asm.qMachine a) (Bridge.tr sub) u' sub.length = .halt :=
    Asm.step_halt_of_ge (by simp [Bridge.tr])
  have hend := Asm.step_halt_inv (Asm.sim_halt (mc := Asm.qMachine a) (t := t') hP2 hhalt)
  -- C03 → C04: the machine on the read-back is `Exec.stepLoc`, and `XSteps` is `Exec.run`
  rw [hX] at hasm hend
  have h0 : Asm.tpos Gen.excTable (Bridge.tr sub) 0 = 0 := by simp [Asm.tpos]
  rw [h0] at hasm
  have hx : Asm.XSteps a X (Asm.conc t, (0 : Int))
      (Asm.conc t', ((Asm.tpos Gen.excTable (Bridge.tr sub) sub.length : Nat) : Int)) :=
    Asm.xsteps_of_steps_q a X hasm
  obtain ⟨fuel, h1, h2, h3, _⟩ := Exec.run_of_xsteps hx S hS hloc
  simp only at h1 h2 h3
  have hge : ((Asm.tpos Gen.excTable (Bridge.tr sub) sub.length : Nat) : Int) ≥ (X.length : Int) := by
    have : X.length ≤ Asm.tpos Gen.excTable (Bridge.tr sub) sub.length := by simpa using hend
    exact_mod_cast this
  refine ⟨fuel, t', h1, ?_, ?_, ⟨u', hrel', hag'⟩⟩
  · rw [h3]; simp [Exec.restOut, hge]
  · rw [h2]; exact hge

/-- the per-flush guarantee as a predicate on (subroutine, ProtoExec state before, after) -/
def FlushOnExec (a : Nat) (sub : List Sdk.PCmd) (s s' : Sdk.St) : Prop :=
  ∀ (reserved : List Reg), Bridge.NameInj sub → Bridge.RegsInRange sub →
    Asm.LabelTargets (Asm.qMachine a) (Bridge.tr sub) →
    ∀ (A : List Instr), Asm.assemble Gen.vanillaRows Gen.excTable Gen.numScratch (Bridge.tr sub) reserved = .ok A →
    ∀ (X : List Exec.Instr), A.map (Asm.embed Gen.vanillaRows) = X.map Asm.ofExecQ →
    ∀ (u t : Asm.State Asm.XMem), Bridge.Rel s u →
      Asm.AgreeOutsideScratch Gen.numScratch (Bridge.tr sub) u t reserved → Bridge.QSafe a sub u 0 →
    ∀ (S : Exec.State), S.apps a = some (Asm.conc t).ap → S.loc (Asm.conc t).ap = Asm.conc t →
    ∃ fuel t', (Exec.run false a X fuel S 0).s = S.put a (Asm.conc t') ∧
      (Exec.run false a X fuel S 0).out = .halted ∧ (Exec.run false a X fuel S 0).pc ≥ X.length ∧
      RelUpTo sub reserved s' t'

/-- `Q` holds of every flush of a `RunSubs` chain -/
def AllFlushes (Q : List Sdk.PCmd → Sdk.St → Sdk.St → Prop) :
    List (Option (List Sdk.PCmd)) → Sdk.St → List Sdk.St → Prop
  | [], _, _ => True
  | none :: rest, ts, mids => AllFlushes Q rest ts mids.tail
  | some sub :: rest, ts, mids =>
    match mids with
    | ts1 :: ms => Q sub ts ts1 ∧ AllFlushes Q rest ts1 ms
    | [] => False

theorem allFlushes_of_runSubs {Q : List Sdk.PCmd → Sdk.St → Sdk.St → Prop}
    (hQ : ∀ sub s s', Sdk.Runs sub 0 sub.length s s' → Q sub s s') :
    ∀ (subs : List (Option (List Sdk.PCmd))) (ts : Sdk.St) (mids : List Sdk.St) (tsEnd : Sdk.St),
      Sdk.RunSubs subs ts mids tsEnd → AllFlushes Q subs ts mids := by
  intro subs
  induction subs with
  | nil => intro ts mids tsEnd _; trivial
  | cons o rest ih =>
    intro ts mids tsEnd h
    cases o with
    | none =>
      obtain ⟨ms, rfl, hr⟩ := h
      exact ih ts ms tsEnd hr
    | some sub =>
      obtain ⟨ts1, ms, hrun, rfl, hr⟩ := h
      exact ⟨hQ sub ts ts1 hrun, ih ts1 ms tsEnd hr⟩

/-- **`emit_correct_end_to_end`.**  For every host program accepted by the builder (`hbuild`) on
which `HostSem` is defined (`hhost`): the subroutines of its flushes run under ProtoExec to states
`mids`, the last of which has the trace, outcomes, arrays, registers and host views of `HostSem`
(this is C05 `emit_correct`), AND every one of these flushes, assembled by `assemble_subroutine` and
run by the executor `Exec.run` from a state that agrees with the ProtoExec state before the flush up
to scratch registers, halts in a state that agrees with the ProtoExec state after the flush up to
scratch registers (`FlushOnExec`; hypotheses and the between-flush step: see the header). -/
theorem emit_correct_end_to_end (a : Nat) (segs : List (List Sdk.Host))
    (hwf : ∀ ops ∈ segs, ∀ op ∈ ops, Sdk.TopOK op)
    (hbuild : (Sdk.run (Sdk.flat segs)).err = none) (fuel : Nat) (outs : List Int) (hsEnd : Sdk.HSt)
    (hhost : (Sdk.hrun fuel outs (Sdk.flat segs)).final = some hsEnd) :
    ∃ mids tsEnd, Sdk.RunSubs (Sdk.run (Sdk.flat segs)).subs (Sdk.St.init outs) mids tsEnd ∧
      tsEnd.trace = hsEnd.trace ∧ tsEnd.outcomes = hsEnd.outcomes ∧ tsEnd.arrs = hsEnd.arrs ∧
      (∀ h v, hsEnd.hregs h = some v →
        ∃ r b, (Sdk.run (Sdk.flat segs)).mem.handles[h]? = some (r, b) ∧ tsEnd.regs r = some v) ∧
      Sdk.ViewsOK fuel Sdk.Mem.init 0 0 (Sdk.HSt.init outs) segs mids ∧
      AllFlushes (FlushOnExec a) (Sdk.run (Sdk.flat segs)).subs (Sdk.St.init outs) mids := by
  obtain ⟨mids, tsEnd, hrs, h1, h2, h3, h4, h5⟩ := emit_correct segs hwf hbuild fuel outs hsEnd hhost
  refine ⟨mids, tsEnd, hrs, h1, h2, h3, h4, h5, ?_⟩
  refine allFlushes_of_runSubs ?_ _ _ _ _ hrs
  intro sub s s' hrun reserved hN hR hlt A hA X hX u t hrel hag hsafe S hS hloc
  exact flush_end_to_end a sub reserved hN hR hlt A hA X hX hrun u t hrel hag hsafe S hS hloc

/-! ### non-vacuity: a subroutine with allocation, a gate, a measurement, a branch and a label -/

def demoSub : List Sdk.PCmd :=
  [.instr .set [.reg Sdk.Q0, .lit 0], .instr .qalloc [.reg Sdk.Q0], .instr .init [.reg Sdk.Q0],
   .instr (.gate 3) [.reg Sdk.Q0], .instr .meas [.reg Sdk.Q0, .reg (Sdk.M 0)], .instr .qfree [.reg Sdk.Q0],
   .instr .bez [.reg (Sdk.M 0), .lab ⟨0, 0⟩], .instr .set [.reg (Sdk.R 1), .lit 5], .label ⟨0, 0⟩,
   .instr .retReg [.reg (Sdk.M 0)]]

def demoX : List Exec.Instr :=
  [.set ⟨2, 0⟩ 0, .qalloc ⟨2, 0⟩, .q1 "init" ⟨2, 0⟩, .q1 "h" ⟨2, 0⟩, .meas ⟨2, 0⟩ ⟨3, 0⟩, .qfree ⟨2, 0⟩,
   .bez ⟨3, 0⟩ 8, .set ⟨0, 1⟩ 5, .retReg ⟨3, 0⟩]

/-- the hypotheses `hA`/`hX` of `flush_end_to_end` hold for `demoSub`: it assembles, and the assembled
instructions are the executor program `demoX` (the branch lands on the `ret_reg` after the label) -/
theorem nonvacuous_chain :
    (Asm.assemble Gen.vanillaRows Gen.excTable Gen.numScratch (Bridge.tr demoSub)).toOption.map
      (fun A => A.map (Asm.embed Gen.vanillaRows)) = some (demoX.map Asm.ofExecQ) := by decide +kernel

/-- … and ProtoExec runs it from the initial state to past its last command (outcome 0: the branch
is taken) -/
theorem nonvacuous_chain_run :
    ((Sdk.runFuel demoSub 9 (Sdk.St.init [0], 0)).2 == demoSub.length) = true := by decide +kernel

end NQ.C05
